(* C04 - in-place message edits change only what they name.
   Statements only; proofs live in Edit/*.v.

   Objects.  [pdu] (Wire/Build.v) = abstract message (token, ordered option list, payload, header
   fields) + max_size; [ed_apply]/[ed_run]/[ed_dup] (Edit/EdSpec.v) = the edits as list
   operations with the refusal rules of the code.  [ed_bpdu] (Edit/EdBytes.v) = the byte buffer
   token[0..used_size) with e_token_length, actual_token.length, max_opt, data offset, max_size;
   [ed_b_apply]/[ed_b_run]/[ed_b_dup] = coap_insert_option, coap_update_option,
   coap_remove_option, coap_update_token, coap_pdu_duplicate_lkd transcribed on the buffer (option
   iterator, header patches of the neighbouring option, memmoves, all bounds-checked: result
   [None] = stuck).  [ed_of_pdu] = the buffer the builder / the parser leave for an abstract
   message (canonical encoding); [ed_abs] = what the accessors of the dump read back. *)
From LibcoapV Require Import Base.Tactics Base.Bytes Wire.OptCodec Wire.OptCodecProofs Wire.Pdu
  Wire.PduProofs Wire.Build Edit.EdSpec Edit.EdBytes Edit.EdSpecProofs Edit.EdPatch
  Edit.EdBytesProofs Edit.EdStart Edit.EdDup Edit.EdBuild Edit.EdResize Edit.EdHeader Edit.EdSize
  Edit.EdRefuted Edit.EdExample.
Local Open Scope Z_scope.

(* ---- refinement: bytes vs. abstract message ---- *)

(* one edit: on the buffer of any well-formed PDU the transcribed C function is never stuck,
   returns what the specification returns, and leaves exactly the buffer, e_token_length, max_opt
   and data offset of the specification's result (so also: a refused edit leaves the bytes as
   the specification says) *)
Theorem C04_edit_refines : forall q e,
  ed_pwf q -> ed_op_ok e ->
  ed_b_apply (ed_of_pdu q) e = Some (fst (ed_apply q e), ed_of_pdu (snd (ed_apply q e))).
Proof. exact ed_b_apply_refines. Qed.
Print Assumptions C04_edit_refines.

(* the same in the shape of the property text: what the accessors show after the edit is the edit
   applied to what they showed before; a refused edit leaves the PDU as it was (or with the
   implicit Hop-Limit only) *)
Theorem C04_edit_abs : forall q e,
  ed_pwf q -> ed_op_ok e ->
  exists r p',
    ed_b_apply (ed_of_pdu q) e = Some (r, p') /\
    ed_abs (ed_of_pdu q) = Some (p_msg q) /\
    r = fst (ed_apply q e) /\
    ed_abs p' = Some (p_msg (snd (ed_apply q e))) /\
    (r = false ->
     p' = ed_of_pdu q \/
     exists n v, (e = EdInsert n v \/ e = EdUpdate n v) /\ ed_hop_trigger (p_msg q) n = true /\
                 p' = ed_of_pdu (snd (add_opt_raw q 16 [16]))).
Proof. exact ed_b_apply_abs. Qed.
Print Assumptions C04_edit_abs.

(* edit lists of any length, by induction *)
Theorem C04_edits_refine : forall es q,
  ed_pwf q -> Forall ed_op_ok es ->
  ed_b_run (ed_of_pdu q) es = Some (fst (ed_run q es), ed_of_pdu (snd (ed_run q es))).
Proof. exact ed_b_run_refines. Qed.
Print Assumptions C04_edits_refine.

(* well-formedness is an invariant of the edits *)
Theorem C04_wf_preserved : forall es q,
  ed_pwf q -> Forall ed_op_ok es -> ed_pwf (snd (ed_run q es)).
Proof. exact ed_pwf_run. Qed.
Print Assumptions C04_wf_preserved.

(* the accessors (token, option iterator, payload) read the abstract message back *)
Theorem C04_abs : forall q, ed_mwf (p_msg q) -> ed_abs (ed_of_pdu q) = Some (p_msg q).
Proof. exact ed_abs_of_pdu. Qed.
Print Assumptions C04_abs.

(* starting points: a PDU parsed from any wire bytes (parse_WF) ... *)
Theorem C04_start_parsed : forall pr bs max,
  wfb bs -> 0 <= max ->
  match ed_b_start_wire pr bs max with
  | Some p => exists q, ed_start_wire pr bs max = Some q /\ p = ed_of_pdu q /\ ed_pwf q /\
                        parse pr bs = Some (p_msg q)
  | None => ed_start_wire pr bs max = None
  end.
Proof. exact ed_start_wire_rep. Qed.
Print Assumptions C04_start_parsed.

(* ... or built through the API: coap_pdu_init, coap_add_token, coap_add_option, coap_add_data
   transcribed on the buffer give exactly the canonical buffer of the abstract builder's message
   (same return values), and that message is well-formed *)
Theorem C04_start_built : forall ops ty code mid max,
  0 <= max -> Forall ed_bop_ok ops ->
  let q := snd (run_ops (pdu_init ty code mid max) ops) in
  ed_b_build (ed_b_init ty code mid max) ops =
    Some (fst (run_ops (pdu_init ty code mid max) ops), ed_of_pdu q) /\ ed_pwf q.
Proof. exact ed_built_refines. Qed.
Print Assumptions C04_start_built.

(* edits, then the wire, then the parser: the bytes after any edit list serialise (all three
   framings) and re-parse to the abstract result, provided that result is a message the parser
   accepts at all ... *)
Theorem C04_edits_then_wire : forall pr q es p' rs,
  ed_pwf q -> Forall ed_op_ok es ->
  ed_b_run (ed_of_pdu q) es = Some (rs, p') ->
  msg_wf (p_msg (snd (ed_run q es))) ->
  rs = fst (ed_run q es) /\
  ed_abs p' = Some (p_msg (snd (ed_run q es))) /\
  parse pr (header pr (p_msg (snd (ed_run q es))) ++ eb_buf p') =
    Some (norm_fields pr (p_msg (snd (ed_run q es)))).
Proof. exact ed_edits_then_wire. Qed.
Print Assumptions C04_edits_then_wire.

(* ... which it is when the starting message is and every edit respects the per-option length
   limits (code 0.00 excluded: an Empty message with content is not a message) *)
Theorem C04_edits_keep_parseable : forall es q,
  msg_wf (p_msg q) -> m_code (p_msg q) <> 0 -> Forall (ed_op_fine (m_code (p_msg q))) es ->
  msg_wf (p_msg (snd (ed_run q es))).
Proof. exact ed_msg_wf_run. Qed.
Print Assumptions C04_edits_keep_parseable.

(* ---- the neighbour's header, all delta-class cases ---- *)

(* coap_insert_option: the following option's delta drops from dold to dnew; the patched bytes
   are X ++ (header for dnew), X being the 0/1/2 bytes the header shrinks by *)
Theorem C04_hdr_patch_insert : forall dold dnew l R,
  0 < dnew <= dold -> dold <= 65535 -> 0 <= l <= 65804 ->
  exists X,
    ed_patch_insert dold dnew (opt_hdr dold l ++ R) =
      Some (X ++ opt_hdr dnew l ++ R, ext_size dold - ext_size dnew) /\
    len X = ext_size dold - ext_size dnew.
Proof. exact ed_patch_insert_ok. Qed.
Print Assumptions C04_hdr_patch_insert.

(* coap_remove_option: the following option's delta grows from dnext to dthis + dnext, re-using
   0/1/2 bytes at the end of the removed option E *)
Theorem C04_hdr_patch_remove : forall dthis dnext l (E R : bytes),
  0 <= dthis -> 0 <= dnext -> dthis + dnext <= 65535 -> 0 <= l <= 65804 ->
  1 <= len E -> (13 <= dthis -> 2 <= len E) ->
  exists X,
    ed_patch_remove dthis dnext (length E) (E ++ opt_hdr dnext l ++ R) =
      Some (X ++ opt_hdr (dthis + dnext) l ++ R, len X) /\
    len X = len E - (ext_size (dthis + dnext) - ext_size dnext).
Proof. exact ed_patch_remove_ok. Qed.
Print Assumptions C04_hdr_patch_remove.

(* ---- the edits change only what they name (abstract level) ---- *)

(* insertion: the old options keep number, value and order; the new one sits after the last
   option numbered <= n *)
Theorem C04_insert_frame : forall q n v r q',
  ascending 0 (m_opts (p_msg q)) -> add_opt_raw q n v = (r, q') ->
  (r = false /\ q' = q) \/
  (r = true /\ exists l1 l2,
      m_opts (p_msg q) = l1 ++ l2 /\ q' = set_opts q (l1 ++ (n, v) :: l2) /\
      Forall (fun o => fst o <= n) l1 /\ Forall (fun o => n < fst o) l2).
Proof. exact ed_add_opt_raw_frame. Qed.
Print Assumptions C04_insert_frame.

Theorem C04_update_frame : forall q n v r q',
  ed_update q n v = (r, q') -> ed_find n (m_opts (p_msg q)) <> None ->
  (r = false /\ q' = q) \/
  (r = true /\ exists l1 w l2,
      m_opts (p_msg q) = l1 ++ (n, w) :: l2 /\ q' = set_opts q (l1 ++ (n, v) :: l2) /\
      Forall (fun o => fst o <> n) l1).
Proof. exact ed_update_frame. Qed.
Print Assumptions C04_update_frame.

(* removal removes exactly the first match, and fails iff there is none *)
Theorem C04_remove_frame : forall q n r q',
  ed_remove q n = (r, q') ->
  (r = false /\ q' = q /\ Forall (fun o => fst o <> n) (m_opts (p_msg q))) \/
  (r = true /\ exists l1 w l2,
      m_opts (p_msg q) = l1 ++ (n, w) :: l2 /\ q' = set_opts q (l1 ++ l2) /\
      Forall (fun o => fst o <> n) l1).
Proof. exact ed_remove_frame. Qed.
Print Assumptions C04_remove_frame.

Theorem C04_token_frame : forall q t r q',
  ed_token q t = (r, q') ->
  (r = false /\ q' = q) \/ (r = true /\ q' = ed_with_token q t /\ len t <= 65804).
Proof. exact ed_token_frame. Qed.
Print Assumptions C04_token_frame.

(* no edit touches type, code, message id, payload or max_size; option edits leave the token,
   the token edit leaves the options *)
Theorem C04_edit_keeps : forall q e,
  let q' := snd (ed_apply q e) in
  m_type (p_msg q') = m_type (p_msg q) /\ m_code (p_msg q') = m_code (p_msg q) /\
  m_mid (p_msg q') = m_mid (p_msg q) /\ m_payload (p_msg q') = m_payload (p_msg q) /\
  p_max q' = p_max q /\
  match e with
  | EdToken _ => m_opts (p_msg q') = m_opts (p_msg q)
  | _ => m_token (p_msg q') = m_token (p_msg q)
  end.
Proof. exact ed_apply_keeps. Qed.
Print Assumptions C04_edit_keeps.

(* a refused edit leaves the message as it was, the one exception being the implicit Hop-Limit
   that coap_add_option_internal puts in before it refuses Proxy-Uri / Proxy-Scheme *)
Theorem C04_refused_unchanged : forall q e,
  fst (ed_apply q e) = false ->
  snd (ed_apply q e) = q \/
  exists n v, (e = EdInsert n v \/ e = EdUpdate n v) /\ ed_hop_trigger (p_msg q) n = true /\
              snd (ed_apply q e) = snd (add_opt_raw q 16 [16]).
Proof. exact ed_apply_refused. Qed.
Print Assumptions C04_refused_unchanged.

Theorem C04_remove_succeeds_iff : forall q n,
  fst (ed_remove q n) = true <-> has_opt n (m_opts (p_msg q)) = true.
Proof. exact ed_remove_succeeds_iff. Qed.
Print Assumptions C04_remove_succeeds_iff.

Theorem C04_token_succeeds_iff : forall q t,
  fst (ed_token q t) = true <->
  len t <= 65804 /\
  (len (token_area t) <= len (token_area (m_token (p_msg q))) \/ p_max q = 0 \/
   used (p_msg (ed_with_token q t)) <= p_max q).
Proof. exact ed_token_succeeds_iff. Qed.
Print Assumptions C04_token_succeeds_iff.

(* ---- sizes ---- *)

(* max_size is respected: a message that fits (or has no limit) still does after any edit list *)
Theorem C04_max_size_respected : forall es q,
  ed_pwf q -> Forall ed_op_ok es -> ed_size_inv q -> ed_size_inv (snd (ed_run q es)).
Proof. exact ed_size_inv_run. Qed.
Print Assumptions C04_max_size_respected.

(* removal never makes the message longer, although the following header may grow by 2 bytes *)
Theorem C04_remove_not_longer : forall q n,
  ed_mwf (p_msg q) -> used (p_msg (snd (ed_remove q n))) <= used (p_msg q).
Proof. exact ed_remove_not_longer. Qed.
Print Assumptions C04_remove_not_longer.

(* an insertion is refused for lack of space only when the message with the option would exceed
   max_size - 2: coap_insert_option asks for used_size + shift before it knows how much the
   following header shrinks (0..2 bytes) *)
Theorem C04_insert_refusal_conservative : forall q n v,
  ed_mwf (p_msg q) -> 0 <= n ->
  fst (add_opt_raw q n v) = false ->
  (n =? last_num (m_opts (p_msg q))) && negb (repeatable n) = false ->
  p_max q <> 0 /\
  p_max q - 2 < used (p_msg (set_opts q (insert_opt n v (m_opts (p_msg q))))).
Proof. exact ed_add_opt_raw_refusal_conservative. Qed.
Print Assumptions C04_insert_refusal_conservative.

(* ---- coap_pdu_duplicate_lkd ---- *)

Theorem C04_dup_refines : forall q mid' smax t drop_,
  ed_pwf q -> 0 <= smax ->
  ed_b_dup (ed_of_pdu q) mid' smax t drop_ =
  Some (option_map ed_of_pdu (ed_dup q mid' smax t drop_)).
Proof. exact ed_b_dup_refines. Qed.
Print Assumptions C04_dup_refines.

(* ---- coap_pdu_check_resize / coap_pdu_resize ---- *)

(* with alloc_size <= max_size (or max_size = 0), which coap_pdu_init establishes: the doubling
   loop terminates, the call succeeds exactly when [ed_fits] says (the only thing the byte-level
   model uses), at least [size] bytes are then available, and the invariant is kept *)
Theorem C04_check_resize_spec : forall alloc max size,
  0 <= alloc -> 0 <= max -> (max = 0 \/ alloc <= max) -> 0 <= size < 2 ^ 64 ->
  exists a',
    ed_check_resize alloc max size = Some (ed_fits max size, a') /\
    (ed_fits max size = true -> size <= a' /\ alloc <= a' /\ (max = 0 \/ a' <= max)) /\
    (ed_fits max size = false -> a' = alloc).
Proof. exact ed_check_resize_spec. Qed.
Print Assumptions C04_check_resize_spec.

(* ---- the defect found: coap_update_token as pinned (8-bit cast of e_token_length) ---- *)

Theorem C04_update_token_cast8_refuted :
  exists q t, len t <= 65804 /\ ed_abs (ed_of_pdu q) = Some (p_msg q) /\
              ~ ed_refines_step ed_b_token_cast8 q t.
Proof. exact ed_token_cast8_refuted. Qed.
Print Assumptions C04_update_token_cast8_refuted.

(* second defect found: on a PDU with a session and an encoded header, coap_update_token must leave
   the header in memory in step with the new token (retransmission sends it as it is).  Repaired
   code: *)
Theorem C04_token_header_in_step : forall q t,
  ed_pwf q ->
  ed_b_token_hdr UDP (header UDP (p_msg q)) (ed_of_pdu q) t =
  Some (fst (ed_token q t), ed_of_pdu (snd (ed_token q t)),
        header UDP (p_msg (snd (ed_token q t)))).
Proof. exact ed_b_token_hdr_in_step. Qed.
Print Assumptions C04_token_header_in_step.

(* pinned code (no fix-up on the used_size == 0 path): stale header *)
Theorem C04_token_header_prefix_refuted :
  exists q t, ed_pwf q /\
    match ed_b_token_hdr_gen false UDP (header UDP (p_msg q)) (ed_of_pdu q) t with
    | Some (r, p', h') => r = true /\ ed_abs p' = Some (p_msg (snd (ed_token q t))) /\
                          h' <> header UDP (p_msg (snd (ed_token q t)))
    | None => False
    end.
Proof. exact ed_b_token_hdr_prefix_refuted. Qed.
Print Assumptions C04_token_header_prefix_refuted.

(* ---- non-vacuity: a concrete message and edit list meet all the hypotheses above ---- *)

Theorem C04_nonvacuous :
  ed_pwf ed_ex_pdu /\ msg_wf (p_msg ed_ex_pdu) /\ m_code (p_msg ed_ex_pdu) <> 0 /\
  Forall (ed_op_fine (m_code (p_msg ed_ex_pdu))) ed_ex_edits /\
  fst (ed_run ed_ex_pdu ed_ex_edits) = [true; true; true; true; true; false] /\
  m_opts (p_msg (snd (ed_run ed_ex_pdu ed_ex_edits))) = [(300, []); (2000, repeat 0 13)] /\
  len (m_token (p_msg (snd (ed_run ed_ex_pdu ed_ex_edits)))) = 300.
Proof. exact ed_ex_nonvacuous. Qed.
Print Assumptions C04_nonvacuous.

(* C04 - in-place message edits change only what they name.
   Statements only; proofs live in Edit/*.v. *)
From LibcoapV Require Import Base.Tactics Base.Bytes Wire.OptCodec Wire.Pdu Wire.Build
  Edit.EdSpec Edit.EdBytes Edit.EdRefuted.
Local Open Scope Z_scope.

(* coap_update_token as pinned (8-bit cast of e_token_length) breaks the refinement *)
Theorem C04_update_token_cast8_refuted :
  exists q t, len t <= 65804 /\ ed_abs (ed_of_pdu q) = Some (p_msg q) /\
              ~ ed_refines_step ed_b_token_cast8 q t.
Proof. exact ed_token_cast8_refuted. Qed.
Print Assumptions C04_update_token_cast8_refuted.

(* C10 - the relation of the property statement.

   [dp_allowed cfg h mc req out] says that the list of events [out] (request-handler invocations
   and emitted datagrams, in order) is an acceptable reaction of a server with configuration
   [cfg] and handler behaviour [h] to the request datagram [req] (arrived on a multicast address
   iff [mc]).  It is written independently of the order in which the code performs its checks:

     - every error condition of the statement is a predicate on the request and the
       configuration ([sp_applies]); when several apply, a reply for ANY of them is allowed;
     - a Non-confirmable message that must be rejected may be answered by a Reset or ignored,
       a message that arrived via multicast is never answered by a Reset (RFC 7252 8.1);
     - the handler runs exactly when nothing blocks the request ([sp_blocked] = false), on the
       resource found by the documented look-up order, with the request's own path, query,
       options (up to the two documented edits) and payload;
     - what is finally sent is decided by the No-Response / multicast rules of NoResponse.v.

   The set of allowed outputs is finite, so the relation is given by enumeration
   ([dp_allowed_outs]); DispatchProofs.v proves the readable consequences.
   Definitions only; names start with [sp_] (helpers) or [dp_]. *)
From Coq Require Import ZArith List Bool.
From LibcoapV Require Import Base.Bytes Wire.OptCodec Wire.Pdu Server.NoResponse Server.Dispatch.
Import ListNotations.
Local Open Scope Z_scope.

Inductive dp_err := E402 | E505 | E508 | E400 | E404 | E202 | E401 | E412 | E405 | E415.

Definition dp_err_code (e : dp_err) : Z :=
  match e with
  | E402 => 130 | E505 => 165 | E508 => 168 | E400 => 128 | E404 => 132 | E202 => 66
  | E401 => 129 | E412 => 140 | E405 => 133 | E415 => 143
  end.

Definition dp_all_errs : list dp_err :=
  [E402; E505; E508; E400; E404; E202; E401; E412; E405; E415].

(* two consecutive options with the same, non-repeatable number (options are sorted) *)
Fixpoint sp_repeat (l : list opt) : bool :=
  match l with
  | (a, _) :: t =>
      (match t with (b, _) :: _ => (a =? b) && negb (dp_repeatable a) | [] => false end) || sp_repeat t
  | [] => false
  end.

Section Spec.
  Variable cfg : dp_cfg.
  Variable h : dp_hreq -> dp_hresp.
  Variable mc : bool.
  Variable req : msg.

  Let ty := m_type req.
  Let code := m_code req.
  Let opts := m_opts req.

  Definition sp_has_proxy : bool := match c_prx cfg with Some _ => true | None => false end.
  Definition sp_proxy_req : bool := dp_has DP_PROXY_URI opts || dp_has DP_PROXY_SCHEME opts.

  (* how the server regards an option number of this request *)
  Definition sp_kind (n : Z) : dp_crit_kind :=
    dp_crit_kind_of (dp_known_filter (c_known cfg))
                    (dp_is_request code && sp_has_proxy && sp_proxy_req) n.
  Definition sp_is_unknown (n : Z) : bool :=
    match sp_kind n with CritUnknown => true | _ => false end.
  Definition sp_is_fwd (n : Z) : bool :=
    match sp_kind n with CritProxyFwd => true | _ => false end.

  Definition sp_unknown_critical : bool := existsb (fun o => sp_is_unknown (fst o)) opts.
  Definition sp_fwd_critical : bool := existsb (fun o => sp_is_fwd (fst o)) opts.
  Definition sp_bad_options : bool := sp_unknown_critical || sp_repeat opts.

  (* a Proxy-Scheme request whose Uri-Host names this server: handled locally *)
  Definition sp_mine : bool :=
    dp_has DP_PROXY_SCHEME opts && negb (dp_has DP_PROXY_URI opts) &&
    match c_prx cfg, dp_find DP_URI_HOST opts with
    | Some (_, _, names), Some host =>
        (0 <? len host) && (0 <? len names) &&
        (match names with [[]] => true | _ => existsb (dp_bytes_eqb host) names end)
    | _, _ => false
    end.
  Definition sp_forward : bool := sp_proxy_req && negb sp_mine.

  Definition sp_hop : option Z :=
    match dp_find DP_HOP_LIMIT opts with Some v => Some (dp_decode v) | None => None end.

  (* the resource the request is for: registered resource -> (proxy) -> unknown-resource handler
     with the WELLKNOWN flag -> built-in /.well-known/core -> unknown-resource handler *)
  Definition sp_target : dp_target := dp_lookup cfg sp_forward code (dp_uri_path cfg opts).
  Definition sp_found : bool := match sp_target with TNone => false | _ => true end.

  Definition sp_applies (e : dp_err) : bool :=
    match e with
    | E402 => sp_bad_options || (dp_has DP_PROXY_SCHEME opts && negb (dp_has DP_URI_HOST opts)) ||
              (sp_mine && sp_fwd_critical)
    | E505 => sp_proxy_req &&
              match c_prx cfg with
              | None => true
              | Some (m, _, _) => (code <=? 7) && negb (dp_has_method m code)
              end
    | E508 => negb sp_mine && match sp_hop with Some hl => hl =? 1 | None => false end
    | E400 => negb sp_mine && match sp_hop with Some hl => (hl <? 1) || (255 <? hl) | None => false end
    | E404 => negb sp_forward && negb sp_found && negb (code =? 4)
    | E202 => negb sp_forward && negb sp_found && (code =? 4)
    | E401 => sp_found && nr_flag (dp_target_flags sp_target) DP_F_OSCORE_ONLY
    | E412 => dp_target_plain sp_target && dp_has DP_IF_NONE_MATCH opts
    | E405 => sp_found &&
              (negb (dp_has_method (dp_target_mask sp_target) code) ||
               (c_mpr cfg && mc && negb (nr_flag (dp_target_flags sp_target) NR_F_HAS_MCAST)))
    | E415 => (code =? 5) && negb (dp_has DP_CONTENT_FORMAT opts)
    end.

  (* the resource an error reply is attributed to (it selects the multicast rules) *)
  Definition sp_rflags (e : dp_err) : option Z :=
    match e with
    | E401 | E412 | E405 | E415 => if sp_found then Some (dp_target_flags sp_target) else None
    | _ => None
    end.

  (* the request as the handler sees it: Block2 with the M bit cleared (RFC 7959 2.2), Hop-Limit
     decremented (RFC 8768) unless the request was addressed to this server as a proxy *)
  Definition sp_fix_block2 : list opt :=
    if dp_is_request code then
      match dp_find DP_BLOCK2 opts with
      | Some v => match dp_block2_fix v with
                  | Some v' => dp_update DP_BLOCK2 v' opts
                  | None => opts
                  end
      | None => opts
      end
    else opts.
  Definition sp_adjusted : list opt :=
    let o1 := sp_fix_block2 in
    if sp_mine then o1
    else match dp_find DP_HOP_LIMIT o1 with
         | Some v => dp_update DP_HOP_LIMIT (dp_encode (dp_decode v - 1)) o1
         | None => o1
         end.
  Definition sp_req' : msg := mkMsg ty code (m_mid req) (m_token req) sp_adjusted (m_payload req).

  (* 4.02 built by coap_dispatch(): echoes the offending options *)
  Definition sp_err402_direct : dp_ev :=
    EvTx true (dp_error (mkMsg ty code (m_mid req) (m_token req) (dp_fix_block2 cfg req) (m_payload req))
                        130 (cs_flt (dp_check_critical cfg req))).

  Definition sp_emit (e : dp_err) : list (list dp_ev) :=
    match e with
    | E402 =>
        (if ty =? NR_CON then [[sp_err402_direct]] else []) ++
        [dp_fail cfg mc req None 130] ++
        match c_prx cfg with Some (_, f, _) => [dp_fail cfg mc req (Some f) 130] | None => [] end
    | _ => [dp_fail cfg mc req (sp_rflags e) (dp_err_code e)]
    end.

  (* rejecting a message: Reset or silence; never a Reset to a multicast message *)
  Definition sp_reject : list (list dp_ev) :=
    if mc then [[]] else [[EvTx false (dp_empty NR_RST (m_mid req))]; []].

  Definition sp_oscore_drop : bool := dp_oscore_drop cfg code opts.
  Definition sp_long_token : bool := 8 <? len (m_token req).

  (* a separate response to a request with this token is pending: the repetition is absorbed
     (a Confirmable one is acknowledged again), the handler does not run a second time *)
  Definition sp_async : bool := dp_async_pending cfg req.

  Definition sp_blocked : bool :=
    sp_oscore_drop || sp_long_token || (mc && (ty =? NR_CON)) || sp_async ||
    existsb sp_applies dp_all_errs.

  Definition sp_handler_out : list dp_ev := dp_invoke cfg h mc sp_req' sp_target.

  (* The statement says "with the request's options".  libcoap hands the handler the options
     after two edits (sp_adjusted); the relation accepts the unedited list and each edit alone
     as well. *)
  Definition sp_hop_dec (o : list opt) : list opt :=
    match dp_find DP_HOP_LIMIT o with
    | Some v => dp_update DP_HOP_LIMIT (dp_encode (dp_decode v - 1)) o
    | None => o
    end.
  Definition sp_views : list (list opt) :=
    [sp_adjusted; opts; sp_fix_block2; sp_hop_dec opts; sp_hop_dec sp_fix_block2].
  Definition sp_req_with (o : list opt) : msg :=
    mkMsg ty code (m_mid req) (m_token req) o (m_payload req).
  Definition sp_handler_outs : list (list dp_ev) :=
    map (fun o => dp_invoke cfg h mc (sp_req_with o) sp_target) sp_views.

  Definition dp_allowed_outs : list (list dp_ev) :=
    if negb ((ty =? NR_CON) || (ty =? NR_NON)) then [[]]          (* ACK, RST: never answered *)
    else if dp_bad_class code then sp_reject
    else if dp_is_response code then sp_reject ++ (if ty =? NR_CON then [[dp_eack req]] else [])
    else if negb (dp_is_request code) then sp_reject               (* Empty: ping *)
    else
      (if sp_oscore_drop then [[]] else []) ++
      (if sp_long_token then sp_reject else []) ++
      (if mc && (ty =? NR_CON) then [[]] else []) ++
      (if sp_async then [] :: (if ty =? NR_CON then [[dp_eack req]] else []) else []) ++
      (if (ty =? NR_NON) && sp_bad_options then sp_reject else []) ++
      flat_map (fun e => if sp_applies e then sp_emit e else []) dp_all_errs ++
      (if sp_blocked then [] else sp_handler_outs).

  Definition dp_allowed (out : list dp_ev) : Prop := In out dp_allowed_outs.
End Spec.

(* what the model does not describe: Proxy-Uri with a proxy resource (URI splitting is C16's
   subject), a handler that answers 5.08 itself (proxy loop detection of coap_send_internal),
   the built-in /.well-known/core answer to a request with a Block2 option and an Observe
   registration with a Block2 / Q-Block2 option (block-wise) *)
Definition dp_in_scope (cfg : dp_cfg) (h : dp_hreq -> dp_hresp) (req : msg) : Prop :=
  (sp_has_proxy cfg = true -> dp_has DP_PROXY_URI (m_opts req) = false) /\
  (forall i, hr_code (h i) <> 168) /\
  (dp_has DP_BLOCK2 (m_opts req) = true -> sp_target cfg req <> TWellKnown) /\
  dp_observe (sp_target cfg req) (sp_req' cfg req) <> ObsBlocked.

Definition dp_txs (out : list dp_ev) : list msg :=
  flat_map (fun e => match e with EvTx _ m => [m] | _ => [] end) out.
Definition dp_calls (out : list dp_ev) : list dp_hreq :=
  flat_map (fun e => match e with EvH i => [i] | _ => [] end) out.

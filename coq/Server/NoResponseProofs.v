(* C10 - proofs about the suppression rules of NoResponse.v *)
From LibcoapV Require Import Base.Tactics Server.NoResponse.
Local Open Scope Z_scope.

(* testing a bit = masking with the power of two *)
Lemma nr_testbit_land : forall v k, 0 <= k ->
  Z.testbit v k = negb (Z.land v (2 ^ k) =? 0).
Proof.
  intros v k Hk.
  destruct (Z.testbit v k) eqn:E.
  - symmetry. apply negb_true_iff. apply Z.eqb_neq. intro H0.
    assert (Z.testbit (Z.land v (2 ^ k)) k = true).
    { rewrite Z.land_spec, E, Z.pow2_bits_true; auto. }
    rewrite H0 in H. rewrite Z.bits_0 in H. discriminate.
  - symmetry. apply negb_false_iff. apply Z.eqb_eq.
    apply Z.bits_inj'. intros n Hn. rewrite Z.land_spec, Z.bits_0.
    destruct (Z.eq_dec n k) as [->|Hne].
    + rewrite E. reflexivity.
    + rewrite Z.pow2_bits_false by lia. apply andb_false_r.
Qed.

(* the bitmap test of no_response() is the table of RFC 7967 section 2 *)
Theorem nr_bitmap_is_rfc7967 : forall v cls,
  cls = 2 \/ cls = 4 \/ cls = 5 ->
  Z.testbit v (cls - 1) = nr_rfc7967_uninterested v cls.
Proof.
  intros v cls [-> | [-> | ->]]; unfold nr_rfc7967_uninterested.
  - change (2 - 1) with 1. rewrite nr_testbit_land by lia. reflexivity.
  - change (4 - 1) with 3. rewrite nr_testbit_land by lia. reflexivity.
  - change (5 - 1) with 4. rewrite nr_testbit_land by lia. reflexivity.
Qed.

(* response codes whose class RFC 7252 defines (or "nothing set") *)
Definition nr_std_code (code : Z) : Prop :=
  code = 0 \/ 64 <= code < 96 \/ 128 <= code < 192.

Lemma nr_class_cases : forall code, nr_std_code code ->
  (code = 0 /\ nr_class code = 0) \/ (nr_class code = 2 /\ code <> 0) \/
  (nr_class code = 4 /\ code <> 0 /\ code <> 69) \/ (nr_class code = 5 /\ code <> 0 /\ code <> 69).
Proof.
  unfold nr_std_code, nr_class. intros code H. lia.
Qed.

Ltac nr_split :=
  repeat match goal with
         | |- context [if ?b then _ else _] => destruct b eqn:?
         | |- context [match ?x with NrDefault => _ | NrDrop => _ | NrSend => _ end] => destruct x eqn:?
         end.

Ltac nr_norm :=
  repeat first [ progress cbn [Z.eqb Pos.eqb andb orb negb]
               | progress rewrite ?andb_false_r, ?andb_true_r, ?orb_false_r, ?orb_true_r ].
Ltac nr_atoms :=
  repeat match goal with
         | |- context [nr_flag ?a ?b] => destruct (nr_flag a b)
         | |- context [Z.testbit ?a ?b] => destruct (Z.testbit a b)
         | |- context [nr_rfc7967_uninterested ?a ?b] => destruct (nr_rfc7967_uninterested a b)
         | |- context [?x =? 69] => destruct (x =? 69)
         | |- context [?x =? 1] => destruct (x =? 1)
         end.
Ltac nr_finish :=
  nr_norm; nr_atoms; nr_norm;
  repeat match goal with
         | |- context [if ?b then _ else _] => is_var b; destruct b; nr_norm
         | |- context [negb ?b] => is_var b; destruct b; nr_norm
         end;
  try reflexivity; try congruence.

(* the code's decision = the declarative table, for every No-Response value, destination,
   per-resource flag set, response type (ACK / NON / CON) and standard response code *)
Theorem nr_fate_code_is_spec : forall noresp mc mpr rflags req_ty rtype code has_data,
  nr_std_code code ->
  rtype = NR_ACK \/ rtype = NR_NON \/ rtype = NR_CON ->
  nr_fate_code noresp mc mpr rflags req_ty rtype code has_data =
  nr_fate_spec noresp mc mpr rflags rtype code has_data.
Proof.
  intros noresp mc mpr rflags req_ty rtype code has_data Hc Ht.
  unfold nr_fate_code, nr_fate_spec, nr_no_response, nr_mcast_suppressed.
  destruct (nr_class_cases code Hc) as [[H0 Hk] | [[Hk H0] | [[Hk [H0 H69]] | [Hk [H0 H69]]]]];
    rewrite ?Hk.
  - (* nothing set *)
    subst code. change (0 <? 0) with false. change (0 =? 0) with true. change (2 <? 0) with false.
    unfold NR_ACK, NR_NON, NR_CON, NR_RST in *.
    destruct Ht as [-> | [-> | ->]]; destruct mc; destruct rflags; destruct mpr; nr_finish.
  - (* class 2 *)
    change (0 <? 2) with true. change (2 <? 2) with false. change (2 =? 2) with true.
    change (2 =? 4) with false. change (2 =? 5) with false.
    assert (E0 : (code =? 0) = false) by lia. rewrite E0.
    destruct noresp as [v|]; [rewrite (nr_bitmap_is_rfc7967 v 2) by auto|];
      unfold NR_ACK, NR_NON, NR_CON, NR_RST in *;
      destruct Ht as [-> | [-> | ->]]; destruct mc; destruct rflags; destruct mpr; nr_finish.
  - (* class 4 *)
    change (0 <? 4) with true. change (2 <? 4) with true. change (4 =? 2) with false.
    change (4 =? 4) with true. change (4 =? 5) with false.
    assert (E0 : (code =? 0) = false) by lia. rewrite E0.
    assert (E69 : (code =? 69) = false) by lia. rewrite E69.
    destruct noresp as [v|]; [rewrite (nr_bitmap_is_rfc7967 v 4) by auto|];
      unfold NR_ACK, NR_NON, NR_CON, NR_RST in *;
      destruct Ht as [-> | [-> | ->]]; destruct mc; destruct rflags; destruct mpr; nr_finish.
  - (* class 5 *)
    change (0 <? 5) with true. change (2 <? 5) with true. change (5 =? 2) with false.
    change (5 =? 4) with false. change (5 =? 5) with true.
    assert (E0 : (code =? 0) = false) by lia. rewrite E0.
    assert (E69 : (code =? 69) = false) by lia. rewrite E69.
    destruct noresp as [v|]; [rewrite (nr_bitmap_is_rfc7967 v 5) by auto|];
      unfold NR_ACK, NR_NON, NR_CON, NR_RST in *;
      destruct Ht as [-> | [-> | ->]]; destruct mc; destruct rflags; destruct mpr; nr_finish.
Qed.

(* consequences used by the dispatch theorems *)

(* a Confirmable request always gets its acknowledgement on unicast: the prepared ACK is sent
   or replaced by an Empty ACK, never dropped *)
Theorem nr_ack_never_dropped_unicast : forall noresp mpr rflags req_ty code has_data,
  nr_fate_code noresp false mpr rflags req_ty NR_ACK code has_data <> NrDropped.
Proof.
  intros. unfold nr_fate_code, nr_no_response, NR_ACK, NR_NON, NR_RST.
  nr_norm. destruct noresp; nr_split; nr_norm; try discriminate; try congruence.
Qed.

(* No-Response wins over the multicast rules: a class the client did not exclude is sent *)
Theorem nr_interest_overrides_mcast : forall v mc mpr rflags req_ty rtype code has_data,
  0 < nr_class code -> Z.testbit v (nr_class code - 1) = false ->
  nr_fate_code (Some v) mc mpr rflags req_ty rtype code has_data = NrSendAsIs.
Proof.
  intros. unfold nr_fate_code, nr_no_response.
  assert (E : (0 <? nr_class code) = true) by lia. rewrite E, H0.
  assert (E2 : (code =? 0) = false). { unfold nr_class in H. lia. }
  rewrite E2, andb_false_r. reflexivity.
Qed.

(* non-vacuity: the table distinguishes its inputs *)
Example nr_example_suppressed_ack :
  nr_fate_code (Some 2) false false None NR_CON NR_ACK 69 true = NrEmptyAck /\
  nr_fate_code (Some 2) false false None NR_NON NR_NON 69 true = NrDropped /\
  nr_fate_code (Some 8) false false None NR_NON NR_NON 69 true = NrSendAsIs /\
  nr_fate_code None true false None NR_NON NR_NON 132 true = NrDropped /\
  nr_fate_code (Some 2) true false None NR_NON NR_NON 132 true = NrSendAsIs /\
  nr_fate_code None true true (Some 128) NR_NON NR_NON 132 true = NrSendAsIs.
Proof. vm_compute. repeat split. Qed.

(* C10 - response suppression: model of no_response() (src/coap_net.c) together with the
   post-processing in handle_request() that decides whether a prepared response is sent as it
   is, replaced by an Empty ACK, or dropped; plus the declarative reading of RFC 7967 section 2
   (No-Response bitmap) and of the multicast rules (RFC 7252 section 8.1 + the per-resource
   COAP_RESOURCE_FLAGS_LIB_*_MCAST_* flags documented in coap_resource.h).
   Definitions only; proofs in NoResponseProofs.v.  Every global name starts with [nr_]. *)
From Coq Require Import ZArith List Bool.
Import ListNotations.
Local Open Scope Z_scope.

(* message types *)
Definition NR_CON : Z := 0.
Definition NR_NON : Z := 1.
Definition NR_ACK : Z := 2.
Definition NR_RST : Z := 3.

(* resource flags (coap_resource.h) *)
Definition NR_F_HAS_MCAST : Z := 8.          (* COAP_RESOURCE_FLAGS_HAS_MCAST_SUPPORT *)
Definition NR_F_DIS_DELAYS : Z := 16.        (* ..._LIB_DIS_MCAST_DELAYS *)
Definition NR_F_SUP_205 : Z := 32.           (* ..._LIB_ENA_MCAST_SUPPRESS_2_05 *)
Definition NR_F_SUP_2XX : Z := 64.           (* ..._LIB_ENA_MCAST_SUPPRESS_2_XX *)
Definition NR_F_DIS_4XX : Z := 128.          (* ..._LIB_DIS_MCAST_SUPPRESS_4_XX *)
Definition NR_F_DIS_5XX : Z := 256.          (* ..._LIB_DIS_MCAST_SUPPRESS_5_XX *)

Definition nr_flag (flags f : Z) : bool := negb (Z.land flags f =? 0).

Definition nr_class (code : Z) : Z := code / 32.

(* enum respond_t *)
Inductive nr_respond := NrDefault | NrDrop | NrSend.

(* what finally happens to the prepared response *)
Inductive nr_fate := NrSendAsIs | NrEmptyAck | NrDropped.

(* ---- transcription of no_response() -------------------------------------------------------
   noresp : value of the request's No-Response option (None: option absent)
   mc     : the request arrived on a multicast address
   mpr    : context->mcast_per_resource
   rflags : flags of the resource the response is attributed to (None: resource == NULL)
   req_ty : type of the request, rtype : type of the response, code : response code,
   has_data : response->data != NULL
   Result: the respond_t value and whether the response was rewritten into an Empty ACK. *)
Definition nr_no_response (noresp : option Z) (mc mpr : bool) (rflags : option Z)
           (req_ty rtype code : Z) (has_data : bool) : nr_respond * bool :=
  let cls := nr_class code in
  let tail :=
    if mc then
      if (req_ty =? NR_NON) && (rtype =? NR_RST) then NrDrop
      else if (match rflags with None => true | Some _ => negb mpr end) && (2 <? cls) then NrDrop
      else NrDefault
    else NrDefault in
  if 0 <? cls then
    match noresp with
    | Some v =>
        if Z.testbit v (cls - 1) then
          if rtype =? NR_ACK then (NrSend, true) else (NrDrop, false)
        else (NrSend, false)
    | None =>
        match rflags with
        | Some fl =>
            if mpr && mc then
              if nr_flag fl NR_F_SUP_2XX && (cls =? 2) then (NrDrop, false)
              else if nr_flag fl NR_F_SUP_205 && (code =? 69) then
                     (if has_data then (tail, false) else (NrDrop, false))
              else if negb (nr_flag fl NR_F_DIS_4XX) && (cls =? 4) then (NrDrop, false)
              else if negb (nr_flag fl NR_F_DIS_5XX) && (cls =? 5) then (NrDrop, false)
              else (tail, false)
            else (tail, false)
        | None => (tail, false)
        end
    end
  else if (code =? 0) && (rtype =? NR_NON) then (NrDrop, false)
  else (tail, false).

(* no_response() followed by handle_request()'s "empty ACK with a token" clean-up *)
Definition nr_fate_code (noresp : option Z) (mc mpr : bool) (rflags : option Z)
           (req_ty rtype code : Z) (has_data : bool) : nr_fate :=
  match nr_no_response noresp mc mpr rflags req_ty rtype code has_data with
  | (NrDrop, _) => NrDropped
  | (_, true) => NrEmptyAck
  | (_, false) => if (rtype =? NR_ACK) && (code =? 0) then NrEmptyAck else NrSendAsIs
  end.

(* "No delays to response" test of handle_request(): true = sent at once *)
Definition nr_immediate (mc mpr : bool) (rflags : option Z) : bool :=
  negb mc || (mpr && match rflags with Some fl => nr_flag fl NR_F_DIS_DELAYS | None => false end).

(* ---- declarative reading ------------------------------------------------------------------ *)

(* RFC 7967 section 2, table 2: value 2 = not interested in 2.xx, 8 = 4.xx, 16 = 5.xx *)
Definition nr_rfc7967_uninterested (v cls : Z) : bool :=
  match cls with
  | 2 => negb (Z.land v 2 =? 0)
  | 4 => negb (Z.land v 8 =? 0)
  | 5 => negb (Z.land v 16 =? 0)
  | _ => false
  end.

(* multicast suppression, when the request carries no No-Response option:
   - without per-resource control (or no resource): only success responses go out
     (RFC 7252 8.1: errors to multicast requests are not sent);
   - with per-resource control: 2.xx are sent unless SUPPRESS_2_XX, or SUPPRESS_2_05 for a 2.05
     without payload; 4.xx / 5.xx are sent only with DIS_MCAST_SUPPRESS_4_XX / _5_XX. *)
Definition nr_mcast_suppressed (mpr : bool) (rflags : option Z) (code : Z) (has_data : bool) : bool :=
  let cls := nr_class code in
  match rflags, mpr with
  | Some fl, true =>
      if cls =? 2 then
        nr_flag fl NR_F_SUP_2XX || (nr_flag fl NR_F_SUP_205 && (code =? 69) && negb has_data)
      else if cls =? 4 then negb (nr_flag fl NR_F_DIS_4XX)
      else if cls =? 5 then negb (nr_flag fl NR_F_DIS_5XX)
      else false
  | _, _ => 2 <? cls
  end.

(* the fate of a prepared response of type ACK (to a CON) or NON/CON (otherwise), for response
   classes 2, 4 and 5 and for "nothing set" (code 0) *)
Definition nr_fate_spec (noresp : option Z) (mc mpr : bool) (rflags : option Z)
           (rtype code : Z) (has_data : bool) : nr_fate :=
  let cls := nr_class code in
  let suppressed :=
    match noresp with
    | Some v => nr_rfc7967_uninterested v cls
    | None => mc && nr_mcast_suppressed mpr rflags code has_data
    end in
  if code =? 0 then (if rtype =? NR_ACK then NrEmptyAck else if rtype =? NR_NON then NrDropped else NrSendAsIs)
  else if suppressed then
    (* a Confirmable request must still be acknowledged, unless the suppression is the
       multicast one (multicast requests are never Confirmable) *)
    match noresp with
    | Some _ => if rtype =? NR_ACK then NrEmptyAck else NrDropped
    | None => NrDropped
    end
  else NrSendAsIs.

(* C10 - auxiliary lemmas about the pieces of Dispatch.v: option list helpers, the critical
   option scan, the Block2 edit, independence of error replies from the option edits. *)
From LibcoapV Require Import Base.Tactics Base.Bytes Wire.OptCodec Wire.Pdu Server.NoResponse
  Server.Dispatch Server.DispatchSpec.
Local Open Scope Z_scope.

(* ---- option list helpers ---- *)

Lemma dp_find_map_fst : forall n l,
  dp_has n l = existsb (fun k => k =? n) (map fst l).
Proof.
  intros n l. unfold dp_has. induction l as [|[k v] t IH]; [reflexivity|].
  cbn [dp_find map fst existsb]. destruct (k =? n); [reflexivity|]. exact IH.
Qed.

Lemma dp_update_fst : forall n v l, map fst (dp_update n v l) = map fst l.
Proof.
  intros n v l. induction l as [|[k w] t IH]; [reflexivity|].
  cbn [dp_update]. destruct (k =? n); cbn [map fst]; [reflexivity|]. now rewrite IH.
Qed.

Lemma dp_has_update : forall n k v l, dp_has n (dp_update k v l) = dp_has n l.
Proof. intros. rewrite !dp_find_map_fst, dp_update_fst. reflexivity. Qed.

Lemma dp_find_update_other : forall n k v l, n <> k ->
  dp_find n (dp_update k v l) = dp_find n l.
Proof.
  intros n k v l Hne. induction l as [|[j w] t IH]; [reflexivity|].
  cbn [dp_update]. destruct (j =? k) eqn:E.
  - cbn [dp_find]. assert (j = k) by lia. subst j.
    assert (E2 : (k =? n) = false) by lia. rewrite E2. reflexivity.
  - cbn [dp_find]. destruct (j =? n); [reflexivity|]. exact IH.
Qed.

Lemma dp_find_update_same : forall k v l w, dp_find k l = Some w ->
  dp_find k (dp_update k v l) = Some v.
Proof.
  intros k v l w. induction l as [|[j u] t IH]; [discriminate|].
  cbn [dp_find dp_update]. destruct (j =? k) eqn:E.
  - intros _. cbn [dp_find]. rewrite E. reflexivity.
  - intros H. cbn [dp_find]. rewrite E. auto.
Qed.

Lemma dp_values_update_other : forall n k v l, n <> k ->
  dp_values n (dp_update k v l) = dp_values n l.
Proof.
  intros n k v l Hne. unfold dp_values. induction l as [|[j w] t IH]; [reflexivity|].
  cbn [dp_update]. destruct (j =? k) eqn:E.
  - cbn [filter fst]. assert (E2 : (j =? n) = false) by lia. rewrite E2. reflexivity.
  - cbn [filter fst]. destruct (j =? n); cbn [map]; [f_equal|]; exact IH.
Qed.

Lemma dp_uri_path_update : forall cfg k v l, k <> DP_URI_PATH ->
  dp_uri_path cfg (dp_update k v l) = dp_uri_path cfg l.
Proof. intros. unfold dp_uri_path. rewrite dp_values_update_other by auto. reflexivity. Qed.

Lemma dp_has_false_find : forall n l, dp_has n l = false -> dp_find n l = None.
Proof. unfold dp_has. intros n l. destruct (dp_find n l); [discriminate|reflexivity]. Qed.

Lemma dp_has_true_find : forall n l, dp_has n l = true -> exists v, dp_find n l = Some v.
Proof. unfold dp_has. intros n l. destruct (dp_find n l) as [v|]; [eauto|discriminate]. Qed.

(* ---- the filter ---- *)

Lemma dp_fget_empty : forall n, dp_fget dp_fempty n = false.
Proof. intros. unfold dp_fget, dp_fempty. cbn [f_long f_short dp_mem existsb]. now destruct (255 <? n). Qed.

Lemma dp_mem_filter_false : forall n k l, dp_mem n l = false ->
  dp_mem n (filter (fun j => negb (j =? k)) l) = false.
Proof.
  intros n k l. unfold dp_mem. induction l as [|j t IH]; [reflexivity|].
  cbn [existsb filter]. intros H. apply orb_false_iff in H as [H1 H2].
  destruct (negb (j =? k)); cbn [existsb]; rewrite ?H1; auto.
Qed.

Lemma dp_fget_funset_empty : forall f n k, dp_fget f n = false -> dp_fget (dp_funset f k) n = false.
Proof.
  intros f n k. unfold dp_fget, dp_funset. cbn [f_long f_short].
  destruct (255 <? n); apply dp_mem_filter_false.
Qed.

Lemma dp_error_opts_empty : forall l, dp_error_opts dp_fempty l = [].
Proof.
  intros l. unfold dp_error_opts.
  assert (H : forall n, dp_fget (dp_funset (dp_funset (dp_funset dp_fempty DP_CONTENT_FORMAT) DP_HOP_LIMIT) DP_OSCORE) n = false).
  { intros n. repeat apply dp_fget_funset_empty. apply dp_fget_empty. }
  induction l as [|o t IH]; [reflexivity|]. cbn [filter]. rewrite H. exact IH.
Qed.

(* ---- an error reply built by handle_request() depends on the request only through its type,
        message id, token and No-Response option ---- *)
Lemma dp_fail_indep : forall cfg mc r1 r2 rf code,
  m_type r1 = m_type r2 -> m_mid r1 = m_mid r2 -> m_token r1 = m_token r2 ->
  dp_find DP_NORESPONSE (m_opts r1) = dp_find DP_NORESPONSE (m_opts r2) ->
  dp_fail cfg mc r1 rf code = dp_fail cfg mc r2 rf code.
Proof.
  intros cfg mc r1 r2 rf code Ht Hm Hk Hn.
  unfold dp_fail, dp_finish, dp_error, dp_resp_type.
  rewrite !dp_error_opts_empty. cbn [m_type m_code m_mid m_token m_opts m_payload].
  rewrite Ht, Hm, Hk, Hn. reflexivity.
Qed.

(* ---- the critical option scan ---- *)
Section Crit.
  Variable known : dp_filter.
  Variable pctx : bool.
  Let K := dp_crit_kind_of known pctx.
  Definition lm_unk (n : Z) : bool := match K n with CritUnknown => true | _ => false end.
  Definition lm_fwd (n : Z) : bool := match K n with CritProxyFwd => true | _ => false end.

  (* an illegal repeat, given the number of the preceding option *)
  Fixpoint lm_rep_from (last : Z) (l : list opt) : bool :=
    match l with
    | [] => false
    | (n, _) :: t => ((last =? n) && negb (dp_repeatable n)) || lm_rep_from n t
    end.

  Lemma crit_loop_spec : forall l last s,
    let r := dp_crit_loop known pctx l last s in
    cs_ok r = cs_ok s && negb (existsb (fun o => lm_unk (fst o)) l) && negb (lm_rep_from last l) /\
    (lm_rep_from last l = false ->
     cs_crit r = cs_crit s || existsb (fun o => lm_fwd (fst o)) l).
  Proof.
    induction l as [|[n v] t IH]; intros last s.
    - cbn. rewrite !andb_true_r, orb_false_r. auto.
    - cbn [dp_crit_loop lm_rep_from existsb fst].
      unfold lm_unk at 1, lm_fwd at 1. fold K.
      destruct ((last =? n) && negb (dp_repeatable n)) eqn:Erep.
      + (* illegal repeat here *)
        cbn [orb]. split; [|discriminate].
        destruct (K n) eqn:EK; cbn [cs_ok cs_flt cs_crit];
          match goal with
          | |- context [dp_fset ?f ?x] => destruct (dp_fset f x) as [stored f2] eqn:Es
          end;
          destruct stored; cbn zeta;
          try (destruct (IH n {| cs_ok := false; cs_flt := f2; cs_crit := cs_crit s |}) as [-> _]);
          try (destruct (IH n {| cs_ok := false; cs_flt := f2; cs_crit := true |}) as [-> _]);
          cbn [cs_ok]; rewrite ?andb_false_r, ?andb_false_l; reflexivity.
      + cbn [orb].
        destruct (K n) eqn:EK; cbn [cs_ok cs_flt cs_crit negb orb andb].
        * destruct (IH n s) as [-> H2]. split; [now rewrite ?andb_true_r|]. exact H2.
        * destruct (IH n {| cs_ok := false; cs_flt := snd (dp_fset (cs_flt s) n); cs_crit := cs_crit s |})
            as [-> H2]. cbn [cs_ok cs_crit] in *.
          split; [now rewrite ?andb_false_r, ?andb_false_l|]. exact H2.
        * destruct (IH n {| cs_ok := cs_ok s; cs_flt := cs_flt s; cs_crit := true |}) as [-> H2].
          cbn [cs_ok cs_crit] in *. split; [reflexivity|].
          intros Hr. rewrite (H2 Hr). now rewrite orb_true_r.
  Qed.

  (* without an illegal repeat the scan is never left early: it reaches every option *)
  Lemma reaches_spec : forall l last f target,
    lm_rep_from last l = false ->
    dp_reaches known pctx l last f target = existsb (fun o => fst o =? target) l.
  Proof.
    induction l as [|[n v] t IH]; intros last f target Hr; [reflexivity|].
    cbn [lm_rep_from] in Hr. apply orb_false_iff in Hr as [Hr1 Hr2].
    cbn [dp_reaches existsb fst]. rewrite Hr1.
    destruct (n =? target); [reflexivity|]. cbn [orb]. apply IH. exact Hr2.
  Qed.
End Crit.

Lemma lm_rep_from_gen : forall l last,
  lm_rep_from last l =
  (match l with (n, _) :: _ => (last =? n) && negb (dp_repeatable n) | [] => false end) || sp_repeat l.
Proof.
  induction l as [|[n v] t IH]; intros last; [reflexivity|].
  cbn [lm_rep_from sp_repeat]. rewrite IH. f_equal.
  destruct t as [|[m w] t']; [reflexivity|]. f_equal.
  destruct (n =? m) eqn:E; [|reflexivity]. assert (n = m) by lia. now subst.
Qed.

Lemma lm_rep_from_sp_repeat : forall l last,
  (match l with (n, _) :: _ => last <> n | [] => True end) ->
  lm_rep_from last l = sp_repeat l.
Proof.
  intros l last H. rewrite lm_rep_from_gen. destruct l as [|[n v] t]; [reflexivity|].
  assert (E : (last =? n) = false) by lia. rewrite E. reflexivity.
Qed.

Lemma existsb_fst_has : forall n l, existsb (fun o : opt => fst o =? n) l = dp_has n l.
Proof.
  intros n l. rewrite dp_find_map_fst. induction l as [|o t IH]; [reflexivity|].
  cbn [existsb map]. now rewrite IH.
Qed.

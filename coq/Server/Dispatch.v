(* C10 - model of the server side of coap_dispatch() / handle_request() (src/coap_net.c) for one
   request datagram on a fresh UDP server session of a context with block_mode = 0, no OSCORE
   context, no async state, no observable resources.

   [dp_serve cfg h mc req] transcribes the code's order of checks and yields the list of
   observable events: request-handler invocations and emitted datagrams, in order.
   The relation of the property statement ([dp_allowed]) lives in DispatchSpec.v.
   Definitions only; every global name starts with [dp_]. *)
From Coq Require Import ZArith List Bool.
From LibcoapV Require Import Base.Bytes Wire.OptCodec Wire.Pdu Server.NoResponse.
Import ListNotations.
Local Open Scope Z_scope.

(* ---- option numbers (coap_option.h) ---- *)
Definition DP_URI_HOST : Z := 3.
Definition DP_IF_NONE_MATCH : Z := 5.
Definition DP_OBSERVE : Z := 6.
Definition DP_OSCORE : Z := 9.
Definition DP_URI_PATH : Z := 11.
Definition DP_CONTENT_FORMAT : Z := 12.
Definition DP_URI_QUERY : Z := 15.
Definition DP_HOP_LIMIT : Z := 16.
Definition DP_Q_BLOCK1 : Z := 19.
Definition DP_BLOCK2 : Z := 23.
Definition DP_BLOCK1 : Z := 27.
Definition DP_Q_BLOCK2 : Z := 31.
Definition DP_PROXY_URI : Z := 35.
Definition DP_PROXY_SCHEME : Z := 39.
Definition DP_NORESPONSE : Z := 258.

(* resource flags used here besides the multicast ones of NoResponse.v *)
Definition DP_F_OSCORE_ONLY : Z := 1024.
Definition DP_F_WELLKNOWN : Z := 2048.     (* COAP_RESOURCE_HANDLE_WELLKNOWN_CORE *)

(* ---- configuration ---- *)
Record dp_res := mkRes { r_path : bytes; r_mask : Z; r_flags : Z; r_obs : bool }.
   (* r_mask: bit (m-1) set <-> a handler is registered for method m (1..7);
      r_obs: coap_resource_set_get_observable(r, 1) *)

Record dp_cfg := mkCfg {
  c_mpr : bool;                               (* coap_mcast_per_resource() called *)
  c_known : list Z;                           (* coap_register_option() calls, in order *)
  c_res : list dp_res;                        (* coap_add_resource(), distinct paths *)
  c_unk : option (Z * Z);                     (* unknown resource: (mask, flags) *)
  c_prx : option (Z * Z * list bytes);        (* proxy resource: (mask, flags, host names) *)
  c_wk : bytes -> bytes;                      (* query -> /.well-known/core listing (C20) *)
  (* which bytes coap_get_uri_path() / coap_get_query() copy unescaped (C16); the tie takes
     both tables from the library on every run, the theorems hold for any tables *)
  c_unesc_path : Z -> bool;
  c_unesc_query : Z -> bool;
  (* session state: tokens for which a handler has registered an asynchronous (separate)
     response that is still pending (coap_register_async, delay not expired) *)
  c_async : list bytes
}.

(* ---- events ---- *)
Inductive dp_rid := RRes (path : bytes) | RUnknown | RProxy.

Record dp_hreq := mkHreq {
  hq_rid : dp_rid;            (* the resource whose handler runs *)
  hq_slot : Z;                (* the method slot 1..7 of the handler that runs *)
  hq_msg : msg;               (* the request PDU as handed to the handler *)
  hq_query : bytes            (* the query string handed to the handler *)
}.

Record dp_hresp := mkHresp { hr_code : Z; hr_opts : list opt; hr_payload : bytes }.

Inductive dp_ev :=
| EvH (i : dp_hreq)                 (* application request handler invoked *)
| EvTx (diag : bool) (m : msg)      (* datagram emitted; diag: payload is a library diagnostic *)
| EvSkip.                           (* configuration outside the model (see dp_in_scope) *)

(* ---- small helpers ---- *)
Fixpoint dp_find (n : Z) (l : list opt) : option bytes :=
  match l with
  | [] => None
  | (k, v) :: t => if k =? n then Some v else dp_find n t
  end.
Definition dp_has (n : Z) (l : list opt) : bool :=
  match dp_find n l with Some _ => true | None => false end.

(* coap_update_option on the first occurrence *)
Fixpoint dp_update (n : Z) (v : bytes) (l : list opt) : list opt :=
  match l with
  | [] => []
  | (k, w) :: t => if k =? n then (k, v) :: t else (k, w) :: dp_update n v t
  end.

(* coap_remove_option: first occurrence *)
Fixpoint dp_remove1 (n : Z) (l : list opt) : list opt :=
  match l with
  | [] => []
  | (k, w) :: t => if k =? n then t else (k, w) :: dp_remove1 n t
  end.

(* coap_decode_var_bytes *)
Definition dp_decode (v : bytes) : Z := fold_left (fun a b => a * 256 + b) v 0.

(* coap_encode_var_safe for values below 2^32: big-endian, no leading zero bytes *)
Definition dp_encode (x : Z) : bytes :=
  if x <=? 0 then []
  else if x <? 256 then [x]
  else if x <? 65536 then [x / 256; x mod 256]
  else if x <? 16777216 then [x / 65536; (x / 256) mod 256; x mod 256]
  else [(x / 16777216) mod 256; (x / 65536) mod 256; (x / 256) mod 256; x mod 256].

Definition dp_is_request (code : Z) : bool := (1 <=? code) && (code <? 32).
Definition dp_is_response (code : Z) : bool := (64 <=? code) && (code <? 192).

(* coap_check_code_class on a datagram transport: classes 1, 6 and 7 are invalid *)
Definition dp_bad_class (code : Z) : bool :=
  let c := nr_class code in (c =? 1) || (c =? 6) || (c =? 7) || (c <? 0) || (7 <? c).

(* resource->handler[code - 1] != NULL, including the bound check on the array of 7 *)
Definition dp_has_method (mask code : Z) : bool :=
  (1 <=? code) && (code <=? 7) && Z.testbit mask (code - 1).

(* ---- coap_opt_filter_t: 2 slots for numbers above 255, 6 for the others ---- *)
Record dp_filter := mkF { f_long : list Z; f_short : list Z }.
Definition dp_fempty : dp_filter := mkF [] [].
Definition dp_mem (n : Z) (l : list Z) : bool := existsb (Z.eqb n) l.
Definition dp_fget (f : dp_filter) (n : Z) : bool :=
  if 255 <? n then dp_mem n (f_long f) else dp_mem n (f_short f).
Definition dp_fset (f : dp_filter) (n : Z) : bool * dp_filter :=
  if dp_fget f n then (true, f)
  else if 255 <? n then
    if len (f_long f) <? 2 then (true, mkF (f_long f ++ [n]) (f_short f)) else (false, f)
  else
    if len (f_short f) <? 6 then (true, mkF (f_long f) (f_short f ++ [n])) else (false, f).
Definition dp_funset (f : dp_filter) (n : Z) : dp_filter :=
  mkF (filter (fun k => negb (k =? n)) (f_long f)) (filter (fun k => negb (k =? n)) (f_short f)).

(* ctx->known_options after the coap_register_option() calls *)
Definition dp_known_filter (known : list Z) : dp_filter :=
  fold_left (fun f n => snd (dp_fset f n)) known dp_fempty.

(* ---- coap_option_check_critical ---- *)

(* the critical options the switch statement knows *)
Definition dp_builtin_critical (n : Z) : bool :=
  match n with
  | 1 | 3 | 5 | 7 | 11 | 15 | 17 | 35 | 39 | 23 | 27 => true
  | _ => false
  end.

(* coap_option_check_repeatable *)
Definition dp_repeatable (n : Z) : bool :=
  match n with
  | 3 | 5 | 6 | 7 | 9 | 12 | 14 | 16 | 17 | 23 | 27 | 28 | 35 | 39 | 60 | 252 | 258 => false
  | _ => true
  end.

Inductive dp_crit_kind := CritKnown | CritUnknown | CritProxyFwd.

(* classification of one option number by the first half of the loop body.
   pctx: the PDU is a request, a proxy resource exists and Proxy-Uri or Proxy-Scheme is present *)
Definition dp_crit_kind_of (known : dp_filter) (pctx : bool) (n : Z) : dp_crit_kind :=
  if negb (Z.odd n) then CritKnown
  else if (n =? DP_Q_BLOCK1) || (n =? DP_Q_BLOCK2) then CritUnknown   (* block_mode has no TRY_Q_BLOCK *)
  else if dp_builtin_critical n then CritKnown
  else if dp_fget known n then CritKnown
  else if Z.even (n / 2) && pctx then CritProxyFwd
  else CritUnknown.

Record dp_cstate := mkCs { cs_ok : bool; cs_flt : dp_filter; cs_crit : bool }.

(* Block2 of a request with the M bit set: the new option value (M cleared, re-encoded) *)
Definition dp_block2_fix (v : bytes) : option bytes :=
  let x := dp_decode v in
  if (0 <? len v) && Z.testbit x 3 && negb (x mod 8 =? 7) then Some (dp_encode (x - 8)) else None.

(* one pass over the options; [last]: number of the previous option (-1 at the start) *)
Fixpoint dp_crit_loop (known : dp_filter) (pctx : bool) (l : list opt) (last : Z)
         (s : dp_cstate) : dp_cstate :=
  match l with
  | [] => s
  | (n, _) :: t =>
      let s1 :=
        match dp_crit_kind_of known pctx n with
        | CritKnown => s
        | CritProxyFwd => mkCs (cs_ok s) (cs_flt s) true
        | CritUnknown => mkCs false (snd (dp_fset (cs_flt s) n)) (cs_crit s)
        end in
      if (last =? n) && negb (dp_repeatable n) then
        let '(stored, f2) := dp_fset (cs_flt s1) n in
        let s2 := mkCs false f2 (cs_crit s1) in
        if stored then dp_crit_loop known pctx t n s2 else s2      (* break out of the loop *)
      else dp_crit_loop known pctx t n s1
  end.

(* the whole function: result state (the Block2 edit is described by dp_fix_block2 below).
   The Block2 edit happens when the scan reaches the first Block2 option; the scan then
   restarts if the encoded size changed.  Setting filter slots and flags is idempotent, so a
   restarted scan ends in the same state as a single scan over the edited list. *)
Definition dp_check_critical (cfg : dp_cfg) (req : msg) : dp_cstate :=
  let opts := m_opts req in
  let isreq := dp_is_request (m_code req) in
  let pctx := isreq && (match c_prx cfg with Some _ => true | None => false end) &&
              (dp_has DP_PROXY_URI opts || dp_has DP_PROXY_SCHEME opts) in
  let known := dp_known_filter (c_known cfg) in
  dp_crit_loop known pctx opts (-1) (mkCs true dp_fempty false).

(* options of the request after the Block2 M-bit clearing (done only if the scan reaches the
   first Block2 option, i.e. the loop was not left early before it) *)
Fixpoint dp_reaches (known : dp_filter) (pctx : bool) (l : list opt) (last : Z)
         (f : dp_filter) (target : Z) : bool :=
  match l with
  | [] => false
  | (n, _) :: t =>
      let f1 := match dp_crit_kind_of known pctx n with
                | CritUnknown => snd (dp_fset f n) | _ => f end in
      if (last =? n) && negb (dp_repeatable n) then
        let '(stored, f2) := dp_fset f1 n in
        if stored then dp_reaches known pctx t n f2 target else false
      else if n =? target then true
      else dp_reaches known pctx t n f1 target
  end.

Definition dp_fix_block2 (cfg : dp_cfg) (req : msg) : list opt :=
  let opts := m_opts req in
  let isreq := dp_is_request (m_code req) in
  let pctx := isreq && (match c_prx cfg with Some _ => true | None => false end) &&
              (dp_has DP_PROXY_URI opts || dp_has DP_PROXY_SCHEME opts) in
  if isreq && dp_reaches (dp_known_filter (c_known cfg)) pctx opts (-1) dp_fempty DP_BLOCK2 then
    match dp_find DP_BLOCK2 opts with
    | Some v => match dp_block2_fix v with
                | Some v' => dp_update DP_BLOCK2 v' opts
                | None => opts
                end
    | None => opts
    end
  else opts.

(* ---- messages the library builds itself ---- *)
Definition dp_empty (ty mid : Z) : msg := mkMsg ty 0 mid [] [] [].
(* coap_send_message_type_lkd(.., COAP_MESSAGE_RST): nothing when the message came in on a
   multicast address (RFC 7252 8.1) *)
Definition dp_rst (mc : bool) (req : msg) : list dp_ev :=
  if mc then [] else [EvTx false (dp_empty NR_RST (m_mid req))].
Definition dp_eack (req : msg) : dp_ev := EvTx false (dp_empty NR_ACK (m_mid req)).

Definition dp_resp_type (req : msg) : Z := if m_type req =? NR_CON then NR_ACK else NR_NON.

(* coap_new_error_response: token echoed, the request's options selected by the filter (minus
   Content-Format, Hop-Limit, OSCORE), diagnostic phrase as payload (not modelled: diag) *)
(* coap_add_option() refuses a second instance of a non-repeatable option number *)
Fixpoint dp_add_all (maxo : Z) (l : list opt) : list opt :=
  match l with
  | [] => []
  | (n, v) :: t =>
      if (n =? maxo) && negb (dp_repeatable n) then dp_add_all maxo t
      else (n, v) :: dp_add_all n t
  end.

Definition dp_error_opts (f : dp_filter) (opts : list opt) : list opt :=
  let f' := dp_funset (dp_funset (dp_funset f DP_CONTENT_FORMAT) DP_HOP_LIMIT) DP_OSCORE in
  dp_add_all 0 (filter (fun o => dp_fget f' (fst o)) opts).

Definition dp_error (req : msg) (code : Z) (f : dp_filter) : msg :=
  mkMsg (dp_resp_type req) code (m_mid req) (m_token req) (dp_error_opts f (m_opts req)) [].

(* ---- coap_get_uri_path / coap_get_query ----
   dp_unescaped_path / dp_unescaped_query: the tables of the source as read (reference values
   for c_unesc_path / c_unesc_query) ---- *)
Definition dp_unescaped_path (c : Z) : bool :=
  ((65 <=? c) && (c <=? 90)) || ((97 <=? c) && (c <=? 122)) || ((48 <=? c) && (c <=? 57)) ||
  (c =? 45) || (c =? 46) || (c =? 95) || (c =? 126) || (c =? 33) || (c =? 36) || (c =? 39) ||
  (c =? 40) || (c =? 41) || (c =? 42) || (c =? 43) || (c =? 44) || (c =? 59) || (c =? 61) ||
  (c =? 58) || (c =? 64) || (c =? 38).
Definition dp_unescaped_query (c : Z) : bool :=
  (dp_unescaped_path c && negb (c =? 38)) || (c =? 47) || (c =? 63).

Definition dp_hexdigit (d : Z) : Z := if d <? 10 then 48 + d else 55 + d.
Definition dp_escape (unesc : Z -> bool) (seg : bytes) : bytes :=
  flat_map (fun c => if unesc c then [c] else [37; dp_hexdigit (c / 16); dp_hexdigit (c mod 16)]) seg.

Fixpoint dp_join (sep : Z) (l : list bytes) : bytes :=
  match l with
  | [] => []
  | [x] => x
  | x :: t => x ++ sep :: dp_join sep t
  end.

Definition dp_values (n : Z) (opts : list opt) : list bytes :=
  map snd (filter (fun o => fst o =? n) opts).

Definition dp_uri_path (cfg : dp_cfg) (opts : list opt) : bytes :=
  dp_join 47 (map (dp_escape (c_unesc_path cfg)) (dp_values DP_URI_PATH opts)).
Definition dp_query (cfg : dp_cfg) (opts : list opt) : bytes :=
  dp_join 38 (map (dp_escape (c_unesc_query cfg)) (dp_values DP_URI_QUERY opts)).

(* ".well-known/core" *)
Definition dp_wellknown : bytes :=
  [46; 119; 101; 108; 108; 45; 107; 110; 111; 119; 110; 47; 99; 111; 114; 101].

Fixpoint dp_bytes_eqb (a b : bytes) : bool :=
  match a, b with
  | [], [] => true
  | x :: a', y :: b' => (x =? y) && dp_bytes_eqb a' b'
  | _, _ => false
  end.

Fixpoint dp_find_res (l : list dp_res) (path : bytes) : option dp_res :=
  match l with
  | [] => None
  | r :: t => if dp_bytes_eqb (r_path r) path then Some r else dp_find_res t path
  end.

(* ---- resource selection of handle_request() ---- *)
Inductive dp_target :=
| TRes (r : dp_res)                 (* a registered resource with exactly this path *)
| TProxy (mask flags : Z)
| TUnknown (mask flags : Z)
| TWellKnown                        (* the built-in /.well-known/core resource *)
| TNone.                            (* nothing: 4.04, or 2.02 for DELETE *)

Definition dp_unknown_takes (cfg : dp_cfg) (code : Z) (need_wk_flag : bool) : option (Z * Z) :=
  match c_unk cfg with
  | Some (mask, flags) =>
      if (negb need_wk_flag || nr_flag flags DP_F_WELLKNOWN) && dp_has_method mask code
      then Some (mask, flags) else None
  | None => None
  end.

Definition dp_lookup (cfg : dp_cfg) (is_proxy : bool) (code : Z) (path : bytes) : dp_target :=
  if is_proxy then
    match c_prx cfg with
    | Some (mask, flags, _) => TProxy mask flags
    | None => TNone
    end
  else
    match dp_find_res (c_res cfg) path with
    | Some r => TRes r
    | None =>
        match dp_unknown_takes cfg code true with
        | Some (m, f) => TUnknown m f
        | None =>
            if dp_bytes_eqb path dp_wellknown then TWellKnown
            else match dp_unknown_takes cfg code false with
                 | Some (m, f) => TUnknown m f
                 | None => TNone
                 end
        end
    end.

Definition dp_target_mask (t : dp_target) : Z :=
  match t with
  | TRes r => r_mask r | TProxy m _ => m | TUnknown m _ => m | TWellKnown => 1 | TNone => 0
  end.
Definition dp_target_flags (t : dp_target) : Z :=
  match t with
  | TRes r => r_flags r | TProxy _ f => f | TUnknown _ f => f
  | TWellKnown => NR_F_HAS_MCAST | TNone => 0
  end.
(* is_unknown == 0 && is_proxy_uri == 0 *)
Definition dp_target_plain (t : dp_target) : bool :=
  match t with TRes _ | TWellKnown => true | _ => false end.
Definition dp_target_rid (t : dp_target) : dp_rid :=
  match t with
  | TRes r => RRes (r_path r) | TProxy _ _ => RProxy | TUnknown _ _ => RUnknown
  | _ => RRes dp_wellknown
  end.

(* ---- the tail of handle_request(): skip_handler .. send ---- *)

(* [resp]: the prepared response; rflags: flags of [resource] (None = NULL); early: an Empty ACK
   has already been sent (proxy resource, CON).  Result: events. *)
Definition dp_finish (cfg : dp_cfg) (mc : bool) (req : msg) (rflags : option Z) (early : bool)
           (diag : bool) (resp : msg) : list dp_ev :=
  let rtype := if early && (m_type resp =? NR_ACK) then NR_CON else m_type resp in
  if early && (m_type resp =? NR_ACK) && (m_code resp =? 0) then []
  else
    let noresp := match dp_find DP_NORESPONSE (m_opts req) with
                  | Some v => Some (dp_decode v) | None => None end in
    let has_data := match m_payload resp with [] => false | _ => true end in
    match nr_fate_code noresp mc (c_mpr cfg) rflags (m_type req) rtype (m_code resp) has_data with
    | NrDropped => []
    | NrEmptyAck => [EvTx false (dp_empty NR_ACK (m_mid resp))]
    | NrSendAsIs =>
        let opts1 := if (2 <? nr_class (m_code resp)) && negb (m_code resp =? 141)
                     then dp_remove1 DP_BLOCK1 (m_opts resp) else m_opts resp in
        (* coap_send_internal() completes a 5.08 built by the library: Hop-Limit 255 and the
           local address as payload; the delayed multicast path does not pass there *)
        let opts2 := if diag && (m_code resp =? 168) && nr_immediate mc (c_mpr cfg) rflags
                     then opts1 ++ [(DP_HOP_LIMIT, [255])] else opts1 in
        [EvTx diag (mkMsg rtype (m_code resp) (m_mid resp) (m_token resp) opts2 (m_payload resp))]
    end.

(* fail_response: *)
Definition dp_fail (cfg : dp_cfg) (mc : bool) (req : msg) (rflags : option Z) (code : Z) : list dp_ev :=
  dp_finish cfg mc req rflags false true (dp_error req code dp_fempty).

(* coap_insert_option / coap_add_option on the response under construction: the option goes
   after the last option with a number <= n; a second instance of a non-repeatable number equal
   to the highest number present is refused *)
Fixpoint dp_insert (n : Z) (v : bytes) (l : list opt) : list opt :=
  match l with
  | [] => [(n, v)]
  | (k, w) :: t => if k <=? n then (k, w) :: dp_insert n v t else (n, v) :: (k, w) :: t
  end.
Definition dp_max_opt (l : list opt) : Z := fold_left (fun m o => Z.max m (fst o)) l 0.
Definition dp_add_opt (l : list opt) (o : opt) : list opt :=
  if (fst o =? dp_max_opt l) && negb (dp_repeatable (fst o)) then l
  else dp_insert (fst o) (snd o) l.

(* the Observe option of a GET / FETCH on an observable resource (RFC 7641): what
   handle_request() does with it before and after the handler *)
Inductive dp_obs := ObsNone | ObsRegister | ObsOther | ObsBlocked.
Definition dp_observe (t : dp_target) (req : msg) : dp_obs :=
  match t with
  | TRes r =>
      if r_obs r && ((m_code req =? 1) || (m_code req =? 5)) then
        match dp_find DP_OBSERVE (m_opts req) with
        | Some v =>
            if dp_decode v =? 0 then
              (* registration: a Block2 / Q-Block2 option makes it block-wise business *)
              if dp_has DP_BLOCK2 (m_opts req) || dp_has DP_Q_BLOCK2 (m_opts req) then ObsBlocked
              else ObsRegister
            else ObsOther
        | None => ObsNone
        end
      else ObsNone
  | _ => ObsNone
  end.

(* the options of the response after the handler has run: a new observer makes the response
   start with Observe = resource->observe (2 as long as nothing was notified), the handler's
   coap_add_option() calls add to that; Observe does not stay on anything but a 2.xx *)
Definition dp_resp_opts (obs : dp_obs) (code : Z) (hopts : list opt) : list opt :=
  let pre := match obs with ObsRegister => [(DP_OBSERVE, [2])] | _ => [] end in
  let ropts := fold_left dp_add_opt hopts pre in
  match obs with
  | ObsNone => ropts
  | _ => if nr_class code =? 2 then ropts else dp_remove1 DP_OBSERVE ropts
  end.

(* the request handler proper and what becomes of its response.  [req] is the request PDU as
   it is at that point (options already edited), [t] the selected resource. *)
Definition dp_invoke (cfg : dp_cfg) (h : dp_hreq -> dp_hresp) (mc : bool) (req : msg)
           (t : dp_target) : list dp_ev :=
  let rf := Some (dp_target_flags t) in
  let query := dp_query cfg (m_opts req) in
  let rty := dp_resp_type req in
  match t with
  | TWellKnown =>
      (* built-in handler; with a Block2 option in the request it serves the listing block-wise
         (coap_add_data_blocked_response): C09's subject, outside this model *)
      if dp_has DP_BLOCK2 (m_opts req) then [EvSkip]
      else dp_finish cfg mc req rf false false
             (mkMsg rty 69 (m_mid req) (m_token req) [(DP_CONTENT_FORMAT, [40])] (c_wk cfg query))
  | _ =>
      match dp_observe t req with
      | ObsBlocked => [EvSkip]
      | obs =>
          let early := match t with TProxy _ _ => m_type req =? NR_CON | _ => false end in
          let i := mkHreq (dp_target_rid t) (m_code req) req query in
          let r := h i in
          let ropts' := dp_resp_opts obs (hr_code r) (hr_opts r) in
          (if early then [dp_eack req] else []) ++ EvH i ::
          (if dp_bad_class (hr_code r) then []
           else if hr_code r =? 168 then [EvSkip]      (* 5.08 set by a handler: proxy business *)
           else dp_finish cfg mc req rf early false
                  (mkMsg rty (hr_code r) (m_mid req) (m_token req) ropts' (hr_payload r)))
      end
  end.

(* from the resource found to the end *)
Definition dp_run (cfg : dp_cfg) (h : dp_hreq -> dp_hresp) (mc : bool) (req : msg)
           (t : dp_target) : list dp_ev :=
  let code := m_code req in
  let fl := dp_target_flags t in
  let rf := Some fl in
  if nr_flag fl DP_F_OSCORE_ONLY then dp_fail cfg mc req rf 129
  else if dp_target_plain t && dp_has DP_IF_NONE_MATCH (m_opts req) then dp_fail cfg mc req rf 140
  else if negb (dp_has_method (dp_target_mask t) code) then dp_fail cfg mc req rf 133
  else if (code =? 5) && negb (dp_has DP_CONTENT_FORMAT (m_opts req)) then dp_fail cfg mc req rf 143
  else if c_mpr cfg && negb (nr_flag fl NR_F_HAS_MCAST) && mc then dp_fail cfg mc req rf 133
  else dp_invoke cfg h mc req t.

(* handle_request(): resource look-up and what follows *)
Definition dp_hr_lookup (cfg : dp_cfg) (h : dp_hreq -> dp_hresp) (mc : bool) (req : msg)
           (is_proxy : bool) : list dp_ev :=
  match dp_lookup cfg is_proxy (m_code req) (dp_uri_path cfg (m_opts req)) with
  | TNone => dp_fail cfg mc req None (if m_code req =? 4 then 66 else 132)
  | t => dp_run cfg h mc req t
  end.

(* handle_request() after the proxy block: Hop-Limit, then the look-up *)
Definition dp_hr_cont (cfg : dp_cfg) (h : dp_hreq -> dp_hresp) (mc : bool) (req : msg)
           (is_proxy skip_hop : bool) : list dp_ev :=
  let opts := m_opts req in
  let with_opts o := mkMsg (m_type req) (m_code req) (m_mid req) (m_token req) o (m_payload req) in
  if skip_hop then dp_hr_lookup cfg h mc (with_opts opts) is_proxy
  else match dp_find DP_HOP_LIMIT opts with
       | Some v =>
           let hl := dp_decode v in
           if hl =? 1 then dp_fail cfg mc req None 168
           else if (hl <? 1) || (255 <? hl) then dp_fail cfg mc req None 128
           else dp_hr_lookup cfg h mc (with_opts (dp_update DP_HOP_LIMIT (dp_encode (hl - 1)) opts)) is_proxy
       | None => dp_hr_lookup cfg h mc (with_opts opts) is_proxy
       end.

Definition dp_async_pending (cfg : dp_cfg) (req : msg) : bool :=
  existsb (dp_bytes_eqb (m_token req)) (c_async cfg).

(* handle_request() *)
Definition dp_handle_request (cfg : dp_cfg) (h : dp_hreq -> dp_hresp) (mc : bool) (crit : bool)
           (req : msg) : list dp_ev :=
  let opts := m_opts req in
  let code := m_code req in
  if mc && negb (m_type req =? NR_NON) then []
  else if dp_async_pending cfg req then
    (* "Retransmit async response": coap_send_ack_lkd() - an Empty ACK for a CON only *)
    (if m_type req =? NR_CON then [dp_eack req] else [])
  else
    let has_ps := dp_has DP_PROXY_SCHEME opts in
    if has_ps && negb (dp_has DP_URI_HOST opts) then dp_fail cfg mc req None 130
    else
      let has_pu := dp_has DP_PROXY_URI opts in
      if has_ps || has_pu then
        match c_prx cfg with
        | None => dp_fail cfg mc req None 165
        | Some (pmask, pflags, names) =>
            if (code <=? 7) && negb (dp_has_method pmask code) then dp_fail cfg mc req None 165
            else if has_pu then [EvSkip]          (* Proxy-Uri splitting: C16's subject *)
            else
              let host := match dp_find DP_URI_HOST opts with Some v => v | None => [] end in
              let mine :=
                (0 <? len host) && (0 <? len names) &&
                (match names with [[]] => true | _ => existsb (dp_bytes_eqb host) names end) in
              if mine then
                (* this server is the proxy endpoint named by Uri-Host *)
                if crit then dp_fail cfg mc req (Some pflags) 130
                else dp_hr_cont cfg h mc req false true
              else dp_hr_cont cfg h mc req true false
        end
      else dp_hr_cont cfg h mc req false false.

(* the OSCORE block of coap_dispatch(): an OSCORE option that passed the critical-option check
   (the application registered it) is handed to coap_oscore_decrypt_pdu(), which fails without
   an OSCORE context: the datagram is dropped.  No decryption is attempted for responses, nor
   for Proxy-Scheme requests whose Uri-Host is not one of the proxy resource's names. *)
Definition dp_oscore_drop (cfg : dp_cfg) (code : Z) (opts : list opt) : bool :=
  dp_has DP_OSCORE opts && negb (dp_is_response code) &&
  negb (dp_is_request code && dp_has DP_PROXY_SCHEME opts &&
        match dp_find DP_URI_HOST opts, c_prx cfg with
        | Some host, Some (_, _, names) =>
            (0 <? len host) && (0 <? len names) && negb (existsb (dp_bytes_eqb host) names)
        | _, _ => false
        end).

(* coap_dispatch() for a datagram that coap_pdu_parse() accepted *)
Definition dp_serve (cfg : dp_cfg) (h : dp_hreq -> dp_hresp) (mc : bool) (req : msg) : list dp_ev :=
  let ty := m_type req in
  let code := m_code req in
  if dp_bad_class code then (if ty =? NR_CON then dp_rst mc req else [])
  else
    let s := dp_check_critical cfg req in
    let opts1 := dp_fix_block2 cfg req in
    let req1 := mkMsg ty code (m_mid req) (m_token req) opts1 (m_payload req) in
    if negb (cs_ok s) then
      if ty =? NR_NON then dp_rst mc req
      else if ty =? NR_CON then
        if dp_is_request code then [EvTx true (dp_error req1 130 (cs_flt s))] else dp_rst mc req
      else []
    else
      if dp_oscore_drop cfg code opts1 then []
      else if (ty =? NR_ACK) || (ty =? NR_RST) then []
      else if dp_is_request code then
        if 8 <? len (m_token req) then dp_rst mc req      (* check_token_size, RFC 8974 2.2.2 *)
        else dp_handle_request cfg h mc (cs_crit s) req1
      else if dp_is_response code then
        (if ty =? NR_CON then [dp_eack req] else [])      (* handle_response, no handler *)
      else if code =? 0 then dp_rst mc req                (* ping *)
      else
        (if ty =? NR_CON then dp_rst mc req else []).

(* configurations and handler behaviours the model describes *)
Definition dp_skipped (out : list dp_ev) : bool :=
  existsb (fun e => match e with EvSkip => true | _ => false end) out.

(* C10 - consequences of the relation dp_allowed: the clauses of the property statement. *)
From LibcoapV Require Import Base.Tactics Base.Bytes Wire.OptCodec Wire.Pdu Server.NoResponse
  Server.NoResponseProofs Server.Dispatch Server.DispatchSpec Server.DispatchLemmas
  Server.DispatchProofs.
Local Open Scope Z_scope.

(* ---- shapes of what dp_finish can emit ---- *)

Lemma nr_empty_ack_is_ack : forall noresp mc mpr rf rq rtype code hd,
  nr_fate_code noresp mc mpr rf rq rtype code hd = NrEmptyAck -> rtype = NR_ACK.
Proof.
  intros noresp mc mpr rf rq rtype code hd. unfold nr_fate_code, nr_no_response.
  destruct (rtype =? NR_ACK) eqn:E; [intros _; lia|].
  rewrite ?andb_false_l.
  repeat match goal with
         | |- context [if ?b then _ else _] => destruct b
         | |- context [match ?x with Some _ => _ | None => _ end] => destruct x
         end; cbn; try discriminate.
Qed.

Definition dp_sent (rtype : Z) (diag : bool) (resp : msg) (opts' : list opt) : dp_ev :=
  EvTx diag (mkMsg rtype (m_code resp) (m_mid resp) (m_token resp) opts' (m_payload resp)).

Lemma finish_cases : forall cfg mc req rf early diag resp,
  let rtype := if early && (m_type resp =? NR_ACK) then NR_CON else m_type resp in
  let out := dp_finish cfg mc req rf early diag resp in
  out = [] \/
  (out = [EvTx false (dp_empty NR_ACK (m_mid resp))] /\ rtype = NR_ACK) \/
  (exists opts', out = [dp_sent rtype diag resp opts']).
Proof.
  intros. unfold out, dp_finish. fold rtype.
  destruct (early && (m_type resp =? NR_ACK) && (m_code resp =? 0)); [left; reflexivity|].
  match goal with |- context [nr_fate_code ?a ?b ?c ?d ?e ?f ?g ?i] =>
    destruct (nr_fate_code a b c d e f g i) eqn:Ef end.
  - right. right. eexists. reflexivity.
  - right. left. split; [reflexivity|]. eapply nr_empty_ack_is_ack. exact Ef.
  - left. reflexivity.
Qed.

(* ---- what a reply must look like ---- *)
Definition dp_is_empty (m : msg) : Prop :=
  m_code m = 0 /\ m_token m = [] /\ m_opts m = [] /\ m_payload m = [].

Record dp_reply_ok (req m : msg) : Prop := {
  ro_mid : m_mid m = m_mid req;
  ro_token : (dp_is_empty m /\ (m_type m = NR_ACK \/ m_type m = NR_RST)) \/ m_token m = m_token req;
  ro_ack : m_type m = NR_ACK -> m_type req = NR_CON;
  ro_con : m_type req = NR_CON -> m_type m = NR_ACK \/ m_type m = NR_RST \/ m_type m = NR_CON;
  ro_non : m_type req = NR_NON -> m_type m = NR_NON \/ m_type m = NR_RST }.

Lemma empty_ok : forall req ty, m_type req = NR_CON \/ (m_type req = NR_NON /\ ty = NR_RST) ->
  ty = NR_ACK \/ ty = NR_RST -> dp_reply_ok req (dp_empty ty (m_mid req)).
Proof.
  intros req ty Hr Ht. constructor; cbn [dp_empty m_mid m_type m_code m_token m_opts m_payload].
  - reflexivity.
  - left. split; [repeat split|exact Ht].
  - intros ->. destruct Hr as [H | [_ H]]; [exact H|]. unfold NR_ACK, NR_RST in H. discriminate.
  - intros _. destruct Ht; auto.
  - intros Hn. destruct Hr as [H | [_ H]]; [|auto]. unfold NR_CON, NR_NON in *. congruence.
Qed.

Lemma dp_err_eq_dec : forall a b : dp_err, {a = b} + {a <> b}.
Proof. decide equality. Qed.

Section Props.
  Variable cfg : dp_cfg.
  Variable h : dp_hreq -> dp_hresp.
  Variable mc : bool.
  Variable req : msg.
  Hypothesis Hty : 0 <= m_type req <= 3.

  Let ty := m_type req.
  Let code := m_code req.
  Let opts := m_opts req.

  Definition conn : Prop := ty = NR_CON \/ ty = NR_NON.

  (* every transmission of [out] is a well-formed reply to [req]; at most one is a direct reply
     (type other than CON), at most one more is a separate CON response after an Empty ACK *)
  Definition out_ok (out : list dp_ev) : Prop :=
    (length (dp_calls out) <= 1)%nat /\
    (dp_txs out = [] \/
     (exists a, dp_txs out = [a] /\ m_type a <> NR_CON /\ dp_reply_ok req a) \/
     (exists r, dp_txs out = [dp_empty NR_ACK (m_mid req); r] /\ ty = NR_CON /\
                m_type r = NR_CON /\ dp_reply_ok req r)).

  Lemma nil_ok : out_ok [].
  Proof. split; [cbn; lia|left; reflexivity]. Qed.
  Lemma nil_ok_skip : out_ok [EvSkip].
  Proof. split; [cbn; lia|left; reflexivity]. Qed.

  Lemma resp_type_cases : conn ->
    (ty = NR_CON /\ dp_resp_type req = NR_ACK) \/ (ty = NR_NON /\ dp_resp_type req = NR_NON).
  Proof.
    unfold conn, dp_resp_type. fold ty. unfold NR_CON, NR_NON, NR_ACK in *.
    intros [-> | ->]; cbn; auto.
  Qed.

  Lemma txs_app : forall a b, dp_txs (a ++ b) = dp_txs a ++ dp_txs b.
  Proof. intros. unfold dp_txs. apply flat_map_app. Qed.
  Lemma calls_app : forall a b, dp_calls (a ++ b) = dp_calls a ++ dp_calls b.
  Proof. intros. unfold dp_calls. apply flat_map_app. Qed.

  Lemma finish_calls : forall rq rf early diag resp,
    dp_calls (dp_finish cfg mc rq rf early diag resp) = [].
  Proof.
    intros. destruct (finish_cases cfg mc rq rf early diag resp) as [H | [[H _] | [o H]]];
      cbn zeta in H; rewrite H; reflexivity.
  Qed.

  (* a sent response of type ACK (to CON) / NON (to NON) / CON (separate) with the request's
     message id and token is a well-formed reply *)
  Lemma sent_ok : forall rtype c o p, conn ->
    (rtype = dp_resp_type req \/ (rtype = NR_CON /\ ty = NR_CON)) ->
    dp_reply_ok req (mkMsg rtype c (m_mid req) (m_token req) o p).
  Proof.
    intros rtype c o p Hc Hr.
    destruct (resp_type_cases Hc) as [[H1 H2] | [H1 H2]]; rewrite H2 in Hr;
      constructor; cbn [m_type m_mid m_token]; auto; fold ty; rewrite ?H1;
      unfold NR_CON, NR_NON, NR_ACK, NR_RST in *; intros; try lia.
  Qed.

  (* a response prepared for this request, finished without an early Empty ACK *)
  Lemma finish_ok : forall rq rf diag c o p, conn ->
    out_ok (dp_finish cfg mc rq rf false diag (mkMsg (dp_resp_type req) c (m_mid req) (m_token req) o p)).
  Proof.
    intros rq rf diag c o p Hc.
    pose proof (finish_cases cfg mc rq rf false diag
                  (mkMsg (dp_resp_type req) c (m_mid req) (m_token req) o p)) as H.
    cbn [andb m_type m_mid m_code m_token m_payload] in H. cbn zeta in H.
    destruct H as [-> | [[-> Ht] | [o' ->]]].
    - apply nil_ok.
    - split; [cbn; lia|]. right. left. eexists. split; [reflexivity|]. split.
      + cbn. unfold NR_ACK, NR_CON. discriminate.
      + apply empty_ok; [|left; reflexivity]. left.
        destruct (resp_type_cases Hc) as [[H1 _] | [_ H2]]; [exact H1|].
        rewrite H2 in Ht. unfold NR_NON, NR_ACK in Ht. discriminate.
    - split; [cbn; lia|]. right. left. eexists. split; [reflexivity|].
      unfold dp_sent. cbn [m_type m_code m_mid m_token m_payload]. split.
      + destruct (resp_type_cases Hc) as [[_ H2] | [_ H2]]; rewrite H2;
          unfold NR_ACK, NR_NON, NR_CON; discriminate.
      + apply sent_ok; auto.
  Qed.

  Lemma fail_ok : forall rf c, conn -> out_ok (dp_fail cfg mc req rf c).
  Proof. intros. unfold dp_fail, dp_error. apply finish_ok. assumption. Qed.

  Lemma reject_ok : forall x, conn -> In x (sp_reject mc req) -> out_ok x.
  Proof.
    intros x Hc. unfold sp_reject. destruct mc; cbn [In]; intros [<- | H]; try apply nil_ok.
    - contradiction.
    - split; [cbn; lia|]. right. left. eexists. split; [reflexivity|]. split.
      + cbn. unfold NR_RST, NR_CON. discriminate.
      + apply empty_ok; [|right; reflexivity]. destruct Hc as [Hc | Hc]; [left; exact Hc|right; auto].
    - destruct H as [<- | []]. apply nil_ok.
  Qed.

  Lemma eack_ok : ty = NR_CON -> out_ok [dp_eack req].
  Proof.
    intros Hc. split; [cbn; lia|]. right. left. eexists. split; [reflexivity|]. split.
    - cbn. unfold NR_ACK, NR_CON. discriminate.
    - apply empty_ok; [left; exact Hc|left; reflexivity].
  Qed.

  Lemma direct402_ok : conn -> out_ok [sp_err402_direct cfg req].
  Proof.
    intros Hc. split; [cbn; lia|]. right. left. eexists. split; [reflexivity|].
    unfold dp_error. cbn [m_type m_mid m_token].
    change (dp_resp_type (mkMsg (m_type req) (m_code req) (m_mid req) (m_token req)
                                (dp_fix_block2 cfg req) (m_payload req))) with (dp_resp_type req).
    split.
    - destruct (resp_type_cases Hc) as [[_ H2] | [_ H2]]; rewrite H2;
        unfold NR_ACK, NR_NON, NR_CON; discriminate.
    - apply sent_ok; auto.
  Qed.

  (* the handler's part *)
  Lemma after_handler_ok : forall rq i (early : bool) rf c o p, conn ->
    (early = true -> ty = NR_CON) ->
    out_ok ((if early then [dp_eack req] else []) ++ EvH i ::
            (if dp_bad_class c then []
             else if c =? 168 then [EvSkip]
             else dp_finish cfg mc rq rf early false
                    (mkMsg (dp_resp_type req) c (m_mid req) (m_token req) o p))).
  Proof.
    intros rq i early rf c o p Hc He.
    set (tail := if dp_bad_class c then []
                 else if c =? 168 then [EvSkip]
                 else dp_finish cfg mc rq rf early false
                        (mkMsg (dp_resp_type req) c (m_mid req) (m_token req) o p)).
    assert (Hcalls : dp_calls tail = []).
    { unfold tail. destruct (dp_bad_class c); [reflexivity|]. destruct (c =? 168); [reflexivity|].
      apply finish_calls. }
    destruct early.
    - (* proxy resource, Confirmable: Empty ACK first, the response becomes a separate CON *)
      specialize (He eq_refl).
      assert (Hrt : dp_resp_type req = NR_ACK).
      { destruct (resp_type_cases Hc) as [[_ H2] | [H1 _]]; [exact H2|].
        rewrite H1 in He. unfold NR_NON, NR_CON in He. discriminate. }
      split.
      + rewrite calls_app. change (dp_calls (EvH i :: tail)) with (i :: dp_calls tail).
        rewrite Hcalls. cbn. lia.
      + rewrite txs_app. change (dp_txs (EvH i :: tail)) with (dp_txs tail).
        change (dp_txs [dp_eack req]) with [dp_empty NR_ACK (m_mid req)]. cbn [app].
        assert (Ht : dp_txs tail = [] \/
                     exists o', dp_txs tail = [mkMsg NR_CON c (m_mid req) (m_token req) o' p]).
        { unfold tail. destruct (dp_bad_class c); [left; reflexivity|].
          destruct (c =? 168); [left; reflexivity|].
          pose proof (finish_cases cfg mc rq rf true false
                        (mkMsg (dp_resp_type req) c (m_mid req) (m_token req) o p)) as H.
          cbn [andb m_type m_mid m_code m_token m_payload] in H. cbn zeta in H.
          rewrite Hrt in H. change (NR_ACK =? NR_ACK) with true in H. cbv iota in H.
          destruct H as [H | [[_ H] | [o' H]]].
          - left. rewrite Hrt. rewrite H. reflexivity.
          - unfold NR_CON, NR_ACK in H. discriminate.
          - right. exists o'. rewrite Hrt. rewrite H. reflexivity. }
        destruct Ht as [-> | [o' ->]].
        * right. left. eexists. split; [reflexivity|]. split.
          -- cbn. unfold NR_ACK, NR_CON. discriminate.
          -- apply empty_ok; [left; exact He|left; reflexivity].
        * right. right. eexists. split; [reflexivity|]. split; [exact He|]. split; [reflexivity|].
          apply sent_ok; auto.
    - cbn [app]. split.
      + change (dp_calls (EvH i :: tail)) with (i :: dp_calls tail). rewrite Hcalls. cbn. lia.
      + change (dp_txs (EvH i :: tail)) with (dp_txs tail).
        unfold tail. destruct (dp_bad_class c); [left; reflexivity|].
        destruct (c =? 168); [left; reflexivity|].
        destruct (finish_ok rq rf false c o p Hc) as [_ Hs]. exact Hs.
  Qed.

  Lemma invoke_ok : forall o, conn ->
    out_ok (dp_invoke cfg h mc (sp_req_with req o) (sp_target cfg req)).
  Proof.
    intros o Hc. unfold dp_invoke.
    change (dp_resp_type (sp_req_with req o)) with (dp_resp_type req).
    change (m_mid (sp_req_with req o)) with (m_mid req).
    change (m_token (sp_req_with req o)) with (m_token req).
    change (m_type (sp_req_with req o)) with ty.
    destruct (sp_target cfg req) eqn:Et; cbv beta iota zeta;
      try (destruct (dp_observe _ _); try apply nil_ok_skip).
    all: try (apply (after_handler_ok _ _ false); [exact Hc|discriminate]).
    all: try (apply (after_handler_ok _ _ (ty =? NR_CON)); [exact Hc|]; intros E; unfold NR_CON in *; lia).
    destruct (dp_has DP_BLOCK2 (m_opts (sp_req_with req o))); [apply nil_ok_skip|apply finish_ok; exact Hc].
  Qed.

  (* ---- every allowed output is well-formed ---- *)
  Theorem allowed_ok : forall out, dp_allowed cfg h mc req out -> out_ok out.
  Proof.
    intros out. unfold dp_allowed, dp_allowed_outs. fold ty code.
    destruct ((ty =? NR_CON) || (ty =? NR_NON)) eqn:Ec; cbn [negb].
    2: { intros [<- | []]. apply nil_ok. }
    assert (Hc : conn). { unfold conn, NR_CON, NR_NON in *. lia. }
    destruct (dp_bad_class code); [apply reject_ok; exact Hc|].
    destruct (dp_is_response code).
    { intros H. apply in_app_or in H as [H | H]; [apply (reject_ok _ Hc H)|].
      destruct (ty =? NR_CON) eqn:E0; [|contradiction]. destruct H as [<- | []].
      apply eack_ok. unfold NR_CON in *. lia. }
    destruct (dp_is_request code); cbn [negb]; [|apply reject_ok; exact Hc].
    intros H.
    apply in_app_or in H; destruct H as [H | H];
      [|apply in_app_or in H; destruct H as [H | H];
        [|apply in_app_or in H; destruct H as [H | H];
          [|apply in_app_or in H; destruct H as [H | H];
            [|apply in_app_or in H; destruct H as [H | H];
              [|apply in_app_or in H; destruct H as [H | H]]]]]].
    - destruct (sp_oscore_drop cfg req); [|contradiction]. destruct H as [<- | []]. apply nil_ok.
    - destruct (sp_long_token req); [|contradiction]. apply (reject_ok _ Hc H).
    - destruct (mc && (ty =? NR_CON)); [|contradiction]. destruct H as [<- | []]. apply nil_ok.
    - destruct (sp_async cfg req); [|contradiction]. destruct H as [<- | H]; [apply nil_ok|].
      destruct (ty =? NR_CON) eqn:E0; [|contradiction]. destruct H as [<- | []].
      apply eack_ok. unfold NR_CON in *. lia.
    - destruct ((ty =? NR_NON) && sp_bad_options cfg req); [|contradiction]. apply (reject_ok _ Hc H).
    - apply in_flat_map in H as [e [_ H]].
      destruct (sp_applies cfg mc req e); [|contradiction].
      destruct e; cbn [sp_emit] in H;
        try (destruct H as [<- | []]; apply fail_ok; exact Hc).
      apply in_app_or in H as [H | H].
      + destruct (m_type req =? NR_CON); [|contradiction]. destruct H as [<- | []].
        apply direct402_ok. exact Hc.
      + apply in_app_or in H as [H | H].
        * destruct H as [<- | []]. apply fail_ok. exact Hc.
        * destruct (c_prx cfg) as [[[? ?] ?]|]; [|contradiction].
          destruct H as [<- | []]. apply fail_ok. exact Hc.
    - destruct (sp_blocked cfg mc req); [contradiction|].
      unfold sp_handler_outs in H. apply in_map_iff in H as [o [<- _]].
      apply invoke_ok. exact Hc.
  Qed.

  (* ---- clause 1: at most one direct reply; clause 2: token / message id / type ---- *)
  Definition is_direct (m : msg) : bool := negb (m_type m =? NR_CON).

  Theorem one_direct_reply : forall out, dp_allowed cfg h mc req out ->
    (length (filter is_direct (dp_txs out)) <= 1)%nat /\ (length (dp_txs out) <= 2)%nat /\
    (length (dp_calls out) <= 1)%nat.
  Proof.
    intros out H. destruct (allowed_ok out H) as [Hc [-> | [[a [-> [Ha _]]] | [r [-> [_ [Hr _]]]]]]].
    - cbn. lia.
    - cbn [filter]. destruct (is_direct a); cbn; lia.
    - cbn [filter]. unfold is_direct at 1. cbn [dp_empty m_type]. change (NR_ACK =? NR_CON) with false.
      cbn [negb]. unfold is_direct. rewrite Hr. change (NR_CON =? NR_CON) with true. cbn. lia.
  Qed.

  Theorem replies_well_formed : forall out m, dp_allowed cfg h mc req out ->
    In m (dp_txs out) -> dp_reply_ok req m.
  Proof.
    intros out m H Hin.
    destruct (allowed_ok out H) as [_ [E | [[a [E [_ Ha]]] | [r [E [Hc [_ Hr]]]]]]]; rewrite E in Hin.
    - contradiction.
    - destruct Hin as [<- | []]. exact Ha.
    - destruct Hin as [<- | [<- | []]]; [|exact Hr].
      apply empty_ok; [left; exact Hc|left; reflexivity].
  Qed.

  (* ---- the handler runs exactly when nothing blocks the request ---- *)
  Hypothesis Hconn : conn.
  Hypothesis Hcls : dp_bad_class code = false.
  Hypothesis Hreq : dp_is_request code = true.

  Lemma conn_b : (ty =? NR_CON) || (ty =? NR_NON) = true.
  Proof. unfold conn, NR_CON, NR_NON in *. lia. Qed.

  Lemma not_resp : dp_is_response code = false.
  Proof. unfold dp_is_request, dp_is_response in *. lia. Qed.

  Theorem unblocked_runs_handler : sp_blocked cfg mc req = false ->
    forall out, dp_allowed cfg h mc req out <-> In out (sp_handler_outs cfg h mc req).
  Proof.
    intros Hb out. unfold dp_allowed, dp_allowed_outs. fold ty code.
    rewrite conn_b, Hcls, not_resp, Hreq. cbn [negb].
    unfold sp_blocked in Hb. fold ty in Hb.
    apply orb_false_iff in Hb as [Hb Herr]. apply orb_false_iff in Hb as [Hb Has].
    apply orb_false_iff in Hb as [Hb Hmc]. apply orb_false_iff in Hb as [Hos Hlt].
    rewrite Hos, Hlt, Hmc, Has.
    assert (Hbad : (ty =? NR_NON) && sp_bad_options cfg req = false).
    { unfold dp_all_errs in Herr. cbn [existsb] in Herr. apply orb_false_iff in Herr as [H402 _].
      cbn [sp_applies] in H402. apply orb_false_iff in H402 as [H402 _].
      apply orb_false_iff in H402 as [H402 _]. rewrite H402. apply andb_false_r. }
    rewrite Hbad.
    assert (Hfm : flat_map (fun e => if sp_applies cfg mc req e then sp_emit cfg mc req e else [])
                           dp_all_errs = []).
    { unfold dp_all_errs in *. cbn [existsb] in Herr.
      repeat (apply orb_false_iff in Herr; destruct Herr as [?H Herr]).
      cbn [flat_map]. repeat match goal with H : sp_applies _ _ _ _ = false |- _ => rewrite H; clear H end.
      reflexivity. }
    rewrite Hfm. unfold sp_blocked. fold ty. rewrite Hos, Hlt, Hmc, Has, Herr. cbn [app orb].
    tauto.
  Qed.

  Lemma fail_calls : forall rf c, dp_calls (dp_fail cfg mc req rf c) = [].
  Proof. intros. unfold dp_fail. apply finish_calls. Qed.

  Lemma reject_calls : forall x, In x (sp_reject mc req) -> dp_calls x = [].
  Proof.
    intros x. unfold sp_reject. destruct mc; cbn [In]; intros H;
      repeat (destruct H as [<- | H]; [reflexivity|]); contradiction.
  Qed.

  Theorem blocked_no_handler : sp_blocked cfg mc req = true ->
    forall out, dp_allowed cfg h mc req out -> dp_calls out = [].
  Proof.
    intros Hb out. unfold dp_allowed, dp_allowed_outs. fold ty code.
    rewrite conn_b, Hcls, not_resp, Hreq, Hb. cbn [negb]. rewrite app_nil_r.
    intros H.
    apply in_app_or in H; destruct H as [H | H];
      [|apply in_app_or in H; destruct H as [H | H];
        [|apply in_app_or in H; destruct H as [H | H];
          [|apply in_app_or in H; destruct H as [H | H];
            [|apply in_app_or in H; destruct H as [H | H]]]]].
    - destruct (sp_oscore_drop cfg req); [|contradiction]. destruct H as [<- | []]. reflexivity.
    - destruct (sp_long_token req); [|contradiction]. apply (reject_calls _ H).
    - destruct (mc && (ty =? NR_CON)); [|contradiction]. destruct H as [<- | []]. reflexivity.
    - destruct (sp_async cfg req); [|contradiction]. destruct H as [<- | H]; [reflexivity|].
      destruct (ty =? NR_CON); [|contradiction]. destruct H as [<- | []]. reflexivity.
    - destruct ((ty =? NR_NON) && sp_bad_options cfg req); [|contradiction]. apply (reject_calls _ H).
    - apply in_flat_map in H as [e [_ H]].
      destruct (sp_applies cfg mc req e); [|contradiction].
      destruct e; cbn [sp_emit] in H;
        try (destruct H as [<- | []]; apply fail_calls).
      apply in_app_or in H as [H | H].
      + destruct (m_type req =? NR_CON); [|contradiction]. destruct H as [<- | []]. reflexivity.
      + apply in_app_or in H as [H | H].
        * destruct H as [<- | []]. apply fail_calls.
        * destruct (c_prx cfg) as [[[? ?] ?]|]; [|contradiction].
          destruct H as [<- | []]. apply fail_calls.
  Qed.

  (* ---- one rule at a time: when exactly one error condition applies (and nothing else
          blocks), the reply is the one prescribed for it ---- *)
  Theorem single_error_decides : forall e,
    sp_applies cfg mc req e = true ->
    (forall e', e' <> e -> sp_applies cfg mc req e' = false) ->
    sp_oscore_drop cfg req = false -> sp_long_token req = false -> mc && (ty =? NR_CON) = false ->
    sp_async cfg req = false ->
    forall out, dp_allowed cfg h mc req out ->
      In out (sp_emit cfg mc req e) \/
      (e = E402 /\ ty = NR_NON /\ sp_bad_options cfg req = true /\ In out (sp_reject mc req)).
  Proof.
    intros e He Hothers Hos Hlt Hmc Has out. unfold dp_allowed, dp_allowed_outs. fold ty code.
    rewrite conn_b, Hcls, not_resp, Hreq. cbn [negb]. rewrite Hos, Hlt, Hmc, Has. cbn [app].
    assert (Hb : sp_blocked cfg mc req = true).
    { unfold sp_blocked. apply orb_true_iff. right. apply existsb_exists. exists e.
      split; [destruct e; cbn; tauto|exact He]. }
    rewrite Hb, app_nil_r. intros H.
    apply in_app_or in H as [H | H].
    - destruct (ty =? NR_NON) eqn:E1; [|contradiction]. cbn [andb] in H.
      destruct (sp_bad_options cfg req) eqn:Eb; [|contradiction].
      right.
      assert (e = E402).
      { destruct e; try reflexivity;
          (assert (Hx : sp_applies cfg mc req E402 = false) by (apply Hothers; discriminate);
           cbn [sp_applies] in Hx; rewrite Eb in Hx; discriminate). }
      repeat split; auto. unfold NR_NON in *. lia.
    - left. apply in_flat_map in H as [e' [_ H]].
      destruct (sp_applies cfg mc req e') eqn:E'; [|contradiction].
      destruct (dp_err_eq_dec e' e) as [-> | Hne]; [exact H|].
      rewrite (Hothers e' Hne) in E'. discriminate.
  Qed.
End Props.

(* ---- what is set is what is sent, subject to the No-Response / multicast rules ---- *)
Definition dp_noresp_of (rq : msg) : option Z :=
  match dp_find DP_NORESPONSE (m_opts rq) with Some v => Some (dp_decode v) | None => None end.

(* the only edits between the prepared response and the wire: Block1 is dropped from an error
   response other than 4.13; a 5.08 built by the library and sent at once gets Hop-Limit 255 *)
Definition dp_sent_opts (diag : bool) (code : Z) (imm : bool) (o : list opt) : list opt :=
  let o1 := if (2 <? nr_class code) && negb (code =? 141) then dp_remove1 DP_BLOCK1 o else o in
  if diag && (code =? 168) && imm then o1 ++ [(DP_HOP_LIMIT, [255])] else o1.

Definition dp_has_data (m : msg) : bool := match m_payload m with [] => false | _ => true end.

Theorem finish_is_spec : forall cfg mc rq rf diag resp,
  nr_std_code (m_code resp) ->
  m_type resp = NR_ACK \/ m_type resp = NR_NON \/ m_type resp = NR_CON ->
  dp_finish cfg mc rq rf false diag resp =
  match nr_fate_spec (dp_noresp_of rq) mc (c_mpr cfg) rf (m_type resp) (m_code resp) (dp_has_data resp) with
  | NrDropped => []
  | NrEmptyAck => [EvTx false (dp_empty NR_ACK (m_mid resp))]
  | NrSendAsIs =>
      [EvTx diag (mkMsg (m_type resp) (m_code resp) (m_mid resp) (m_token resp)
                        (dp_sent_opts diag (m_code resp) (nr_immediate mc (c_mpr cfg) rf) (m_opts resp))
                        (m_payload resp))]
  end.
Proof.
  intros cfg mc rq rf diag resp Hc Ht. unfold dp_finish. cbn [andb].
  fold (dp_noresp_of rq). fold (dp_has_data resp).
  rewrite nr_fate_code_is_spec by assumption. reflexivity.
Qed.

Lemma dp_values_query_adj : forall cfg req, dp_query cfg (sp_adjusted cfg req) = dp_query cfg (m_opts req).
Proof.
  intros cfg req. unfold dp_query.
  assert (H : dp_values DP_URI_QUERY (sp_adjusted cfg req) = dp_values DP_URI_QUERY (m_opts req)).
  { unfold sp_adjusted, sp_fix_block2.
    assert (Hb : dp_values DP_URI_QUERY
                   (if dp_is_request (m_code req)
                    then match dp_find DP_BLOCK2 (m_opts req) with
                         | Some v => match dp_block2_fix v with
                                     | Some v' => dp_update DP_BLOCK2 v' (m_opts req)
                                     | None => m_opts req end
                         | None => m_opts req end
                    else m_opts req) = dp_values DP_URI_QUERY (m_opts req)).
    { destruct (dp_is_request (m_code req)); [|reflexivity].
      destruct (dp_find DP_BLOCK2 (m_opts req)); [|reflexivity].
      destruct (dp_block2_fix b); [|reflexivity]. apply dp_values_update_other. discriminate. }
    destruct (sp_mine cfg req); [exact Hb|].
    match goal with |- context [dp_find DP_HOP_LIMIT ?l] => destruct (dp_find DP_HOP_LIMIT l) end;
      [|exact Hb].
    rewrite dp_values_update_other by discriminate. exact Hb. }
  rewrite H. reflexivity.
Qed.

(* the request handed to the handler: same numbers of options in the same order; same values
   except for Block2 (M bit) and Hop-Limit (decrement); same type, code, id, token, payload *)
Theorem handler_sees_request : forall cfg req,
  map fst (sp_adjusted cfg req) = map fst (m_opts req) /\
  (forall n, n <> DP_BLOCK2 -> n <> DP_HOP_LIMIT ->
             dp_values n (sp_adjusted cfg req) = dp_values n (m_opts req)) /\
  dp_uri_path cfg (sp_adjusted cfg req) = dp_uri_path cfg (m_opts req) /\
  dp_query cfg (sp_adjusted cfg req) = dp_query cfg (m_opts req) /\
  m_payload (sp_req' cfg req) = m_payload req /\ m_token (sp_req' cfg req) = m_token req /\
  m_code (sp_req' cfg req) = m_code req /\ m_type (sp_req' cfg req) = m_type req /\
  m_mid (sp_req' cfg req) = m_mid req.
Proof.
  intros cfg req.
  assert (Hfix_fst : map fst (sp_fix_block2 req) = map fst (m_opts req)).
  { unfold sp_fix_block2. destruct (dp_is_request (m_code req)); [|reflexivity].
    destruct (dp_find DP_BLOCK2 (m_opts req)); [|reflexivity].
    destruct (dp_block2_fix b); [|reflexivity]. apply dp_update_fst. }
  assert (Hfix_val : forall n, n <> DP_BLOCK2 ->
            dp_values n (sp_fix_block2 req) = dp_values n (m_opts req)).
  { intros n Hn. unfold sp_fix_block2. destruct (dp_is_request (m_code req)); [|reflexivity].
    destruct (dp_find DP_BLOCK2 (m_opts req)); [|reflexivity].
    destruct (dp_block2_fix b); [|reflexivity]. apply dp_values_update_other. exact Hn. }
  split; [|split; [|split; [|split]]].
  - unfold sp_adjusted. destruct (sp_mine cfg req); [exact Hfix_fst|].
    destruct (dp_find DP_HOP_LIMIT (sp_fix_block2 req)); [|exact Hfix_fst].
    rewrite dp_update_fst. exact Hfix_fst.
  - intros n H1 H2. unfold sp_adjusted. destruct (sp_mine cfg req); [apply Hfix_val; exact H1|].
    destruct (dp_find DP_HOP_LIMIT (sp_fix_block2 req)); [|apply Hfix_val; exact H1].
    rewrite dp_values_update_other by exact H2. apply Hfix_val; exact H1.
  - apply adj_path.
  - apply dp_values_query_adj.
  - repeat split.
Qed.

(* exactly one invocation, of the handler registered on the selected resource for the
   request's method, with the request above and its reconstructed query *)
Theorem handler_call : forall cfg h mc req,
  sp_target cfg req <> TWellKnown ->
  dp_observe (sp_target cfg req) (sp_req' cfg req) <> ObsBlocked ->
  dp_calls (sp_handler_out cfg h mc req) =
  [mkHreq (dp_target_rid (sp_target cfg req)) (m_code req) (sp_req' cfg req)
          (dp_query cfg (m_opts req))].
Proof.
  intros cfg h mc req Hwk Hob. unfold sp_handler_out, dp_invoke.
  rewrite <- (dp_values_query_adj cfg req).
  change (m_opts (sp_req' cfg req)) with (sp_adjusted cfg req).
  change (m_code (sp_req' cfg req)) with (m_code req).
  assert (Htail : forall i (early : bool) rf c o p,
            dp_calls ((if early then [dp_eack (sp_req' cfg req)] else []) ++ EvH i ::
                      (if dp_bad_class c then [] else if c =? 168 then [EvSkip]
                       else dp_finish cfg mc (sp_req' cfg req) rf early false
                              (mkMsg (dp_resp_type (sp_req' cfg req)) c (m_mid (sp_req' cfg req))
                                     (m_token (sp_req' cfg req)) o p))) = [i]).
  { intros. rewrite calls_app. destruct early; cbn [dp_calls flat_map app];
      destruct (dp_bad_class c); try reflexivity; destruct (c =? 168); try reflexivity;
      fold (dp_calls (dp_finish cfg mc (sp_req' cfg req) rf true false
                        (mkMsg (dp_resp_type (sp_req' cfg req)) c (m_mid (sp_req' cfg req)) (m_token (sp_req' cfg req)) o p)));
      fold (dp_calls (dp_finish cfg mc (sp_req' cfg req) rf false false
                        (mkMsg (dp_resp_type (sp_req' cfg req)) c (m_mid (sp_req' cfg req)) (m_token (sp_req' cfg req)) o p)));
      rewrite finish_calls; reflexivity. }
  destruct (sp_target cfg req) eqn:Et; try congruence;
    destruct (dp_observe _ (sp_req' cfg req)) eqn:Eo; try congruence;
    first [apply (Htail _ false) | apply (Htail _ (m_type (sp_req' cfg req) =? NR_CON))].
Qed.

(* the built-in /.well-known/core resource: no application handler, a 2.05 with
   Content-Format 40 and the listing *)
Theorem wellknown_out : forall cfg h mc req,
  sp_target cfg req = TWellKnown -> dp_has DP_BLOCK2 (m_opts req) = false ->
  sp_handler_out cfg h mc req =
  dp_finish cfg mc (sp_req' cfg req) (Some NR_F_HAS_MCAST) false false
    (mkMsg (dp_resp_type req) 69 (m_mid req) (m_token req) [(DP_CONTENT_FORMAT, [40])]
           (c_wk cfg (dp_query cfg (m_opts req)))).
Proof.
  intros cfg h mc req Et Hb. unfold sp_handler_out, dp_invoke. rewrite Et.
  change (m_opts (sp_req' cfg req)) with (sp_adjusted cfg req).
  rewrite adj_has, Hb. rewrite dp_values_query_adj. reflexivity.
Qed.

(* the complete output when the handler runs on an ordinary or unknown resource *)
Theorem handler_out_is : forall cfg h mc req,
  (m_type req = NR_CON \/ m_type req = NR_NON) ->
  (match sp_target cfg req with TRes _ | TUnknown _ _ => True | _ => False end) ->
  let obs := dp_observe (sp_target cfg req) (sp_req' cfg req) in
  obs <> ObsBlocked ->
  let i := mkHreq (dp_target_rid (sp_target cfg req)) (m_code req) (sp_req' cfg req)
                  (dp_query cfg (m_opts req)) in
  let r := h i in
  nr_std_code (hr_code r) -> hr_code r <> 168 ->
  sp_handler_out cfg h mc req =
  EvH i ::
  match nr_fate_spec (dp_noresp_of req) mc (c_mpr cfg) (Some (dp_target_flags (sp_target cfg req)))
                     (dp_resp_type req) (hr_code r)
                     (match hr_payload r with [] => false | _ => true end) with
  | NrDropped => []
  | NrEmptyAck => [EvTx false (dp_empty NR_ACK (m_mid req))]
  | NrSendAsIs =>
      [EvTx false (mkMsg (dp_resp_type req) (hr_code r) (m_mid req) (m_token req)
                         (dp_sent_opts false (hr_code r) true (dp_resp_opts obs (hr_code r) (hr_opts r)))
                         (hr_payload r))]
  end.
Proof.
  intros cfg h mc req Hty Ht. cbv zeta.
  assert (Hq : dp_query cfg (m_opts (sp_req' cfg req)) = dp_query cfg (m_opts req))
    by apply dp_values_query_adj.
  assert (Hnr : dp_noresp_of (sp_req' cfg req) = dp_noresp_of req).
  { unfold dp_noresp_of. change (m_opts (sp_req' cfg req)) with (sp_adjusted cfg req).
    rewrite adj_find by discriminate. reflexivity. }
  assert (Hrt : dp_resp_type req = NR_ACK \/ dp_resp_type req = NR_NON \/ dp_resp_type req = NR_CON).
  { unfold dp_resp_type. destruct (m_type req =? NR_CON); auto. }
  unfold sp_handler_out, dp_invoke. rewrite Hq.
  change (m_code (sp_req' cfg req)) with (m_code req).
  change (dp_resp_type (sp_req' cfg req)) with (dp_resp_type req).
  change (m_mid (sp_req' cfg req)) with (m_mid req).
  change (m_token (sp_req' cfg req)) with (m_token req).
  destruct (sp_target cfg req) eqn:Et; try contradiction;
    destruct (dp_observe _ (sp_req' cfg req)) eqn:Eo; intros Hob; try congruence;
    cbv beta iota zeta; cbn [app];
    match goal with |- context [h ?x] => set (i := x); set (hr := h i) end;
    intros Hstd H168;
    (assert (Hbc : dp_bad_class (hr_code hr) = false)
       by (unfold dp_bad_class, nr_class; unfold nr_std_code in Hstd; lia));
    (assert (H168b : (hr_code hr =? 168) = false) by lia);
    rewrite Hbc, H168b;
    (rewrite finish_is_spec; [|exact Hstd|exact Hrt]);
    cbn [m_type m_code m_mid m_token m_opts m_payload]; rewrite Hnr; unfold dp_has_data;
    cbn [m_payload]; reflexivity.
Qed.

(* ---- resource look-up order ---- *)
Lemma dp_bytes_eqb_eq : forall a b, dp_bytes_eqb a b = true <-> a = b.
Proof.
  induction a as [|x a IH]; destruct b as [|y b]; cbn; split; intros H; try discriminate; auto.
  - apply andb_true_iff in H as [H1 H2]. apply Z.eqb_eq in H1. apply IH in H2. congruence.
  - inversion H; subst. rewrite Z.eqb_refl. cbn. apply IH. reflexivity.
Qed.

Lemma find_res_sound : forall l p r, dp_find_res l p = Some r -> In r l /\ r_path r = p.
Proof.
  induction l as [|x l IH]; intros p r; cbn; [discriminate|].
  destruct (dp_bytes_eqb (r_path x) p) eqn:E.
  - intros [= <-]. split; [left; reflexivity|]. apply dp_bytes_eqb_eq. exact E.
  - intros H. destruct (IH _ _ H). auto.
Qed.

Lemma find_res_none : forall l p, dp_find_res l p = None <-> (forall r, In r l -> r_path r <> p).
Proof.
  induction l as [|x l IH]; intros p; cbn.
  - split; [intros _ r []|reflexivity].
  - destruct (dp_bytes_eqb (r_path x) p) eqn:E.
    + split; [discriminate|]. intros H. exfalso. apply (H x); [left; reflexivity|].
      apply dp_bytes_eqb_eq. exact E.
    + rewrite IH. split.
      * intros H r [<- | Hr]; [|auto]. intros Hp. apply dp_bytes_eqb_eq in Hp. congruence.
      * intros H r Hr. apply H. right. exact Hr.
Qed.

(* a registered resource wins over everything else *)
Theorem lookup_registered : forall cfg code p r,
  dp_find_res (c_res cfg) p = Some r -> dp_lookup cfg false code p = TRes r.
Proof. intros. unfold dp_lookup. rewrite H. reflexivity. Qed.

(* nothing found <-> no resource of that path, not /.well-known/core, no unknown-resource
   handler for the method *)
Theorem lookup_none : forall cfg code p,
  dp_lookup cfg false code p = TNone <->
  (forall r, In r (c_res cfg) -> r_path r <> p) /\ p <> dp_wellknown /\
  dp_unknown_takes cfg code false = None.
Proof.
  intros cfg code p. unfold dp_lookup. rewrite <- find_res_none.
  destruct (dp_find_res (c_res cfg) p) eqn:Ef.
  - split; [discriminate|]. intros [H _]. discriminate.
  - assert (Hu : dp_unknown_takes cfg code false = None -> dp_unknown_takes cfg code true = None).
    { unfold dp_unknown_takes. destruct (c_unk cfg) as [[m f]|]; [|reflexivity].
      cbn [negb orb andb]. destruct (dp_has_method m code).
      - intros H. discriminate H.
      - intros _. now rewrite andb_false_r. }
    destruct (dp_unknown_takes cfg code true) as [[m f]|] eqn:E1.
    + split; [discriminate|]. intros [_ [_ H]]. discriminate (Hu H).
    + destruct (dp_bytes_eqb p dp_wellknown) eqn:Ew.
      * split; [discriminate|]. intros [_ [H _]]. apply dp_bytes_eqb_eq in Ew. contradiction.
      * destruct (dp_unknown_takes cfg code false) as [[m f]|] eqn:E2.
        -- split; [discriminate|]. intros [_ [_ H]]. discriminate.
        -- split; [|reflexivity]. intros _. repeat split; auto.
           intros Hp. apply dp_bytes_eqb_eq in Hp. congruence.
Qed.

(* /.well-known/core is answered by the library unless a resource of that name is registered or
   the unknown-resource handler asked for it (COAP_RESOURCE_HANDLE_WELLKNOWN_CORE) *)
Theorem lookup_wellknown : forall cfg code,
  dp_find_res (c_res cfg) dp_wellknown = None ->
  dp_unknown_takes cfg code true = None ->
  dp_lookup cfg false code dp_wellknown = TWellKnown.
Proof.
  intros cfg code H1 H2. unfold dp_lookup. rewrite H1, H2.
  assert (E : dp_bytes_eqb dp_wellknown dp_wellknown = true) by (apply dp_bytes_eqb_eq; reflexivity).
  rewrite E. reflexivity.
Qed.

(* ---- error replies built by handle_request(): the request's token and id, the given code,
        no options (except Hop-Limit on a 5.08 sent at once), subject to the same suppression
        rules ---- *)
Theorem error_reply_is : forall cfg mc req rf c,
  nr_std_code c ->
  dp_fail cfg mc req rf c =
  match nr_fate_spec (dp_noresp_of req) mc (c_mpr cfg) rf (dp_resp_type req) c false with
  | NrDropped => []
  | NrEmptyAck => [EvTx false (dp_empty NR_ACK (m_mid req))]
  | NrSendAsIs =>
      [EvTx true (mkMsg (dp_resp_type req) c (m_mid req) (m_token req)
                        (if (c =? 168) && nr_immediate mc (c_mpr cfg) rf then [(DP_HOP_LIMIT, [255])] else [])
                        [])]
  end.
Proof.
  intros cfg mc req rf c Hc. unfold dp_fail, dp_error. rewrite dp_error_opts_empty.
  rewrite finish_is_spec; cbn [m_type m_code m_mid m_token m_opts m_payload].
  - unfold dp_has_data. cbn [m_payload]. unfold dp_sent_opts. cbn [dp_remove1 andb app].
    destruct (nr_fate_spec _ _ _ _ _ _ _); try reflexivity.
    destruct ((2 <? nr_class c) && negb (c =? 141)); destruct ((c =? 168) && _); reflexivity.
  - exact Hc.
  - unfold dp_resp_type. destruct (m_type req =? NR_CON); auto.
Qed.

(* ---- the theorem on datagrams: whatever coap_pdu_parse() accepts ---- *)
From LibcoapV Require Import Wire.PduProofs Wire.ParseSound.

Theorem serve_datagram_allowed : forall cfg h mc bs req,
  wfb bs -> parse UDP bs = Some req -> dp_in_scope cfg h req ->
  dp_allowed cfg h mc req (dp_serve cfg h mc req).
Proof.
  intros cfg h mc bs req Hb Hp Hs.
  destruct (parse_sound_udp bs req Hb Hp) as [Hwf _].
  apply serve_allowed; [|apply (wf_type _ Hwf)|exact Hs].
  unfold dp_req_wf. destruct (wf_opts _ Hwf) as [Ho _].
  eapply Forall_impl; [|exact Ho]. intros o [H _]. lia.
Qed.

(* ---- non-vacuity: concrete servers and requests ---- *)
Definition ex_handler (_ : dp_hreq) : dp_hresp := mkHresp 69 [(12, [0])] [104; 105].
Definition ex_cfg : dp_cfg :=
  mkCfg true [] [mkRes [97] 1 8 true; mkRes [98] 3 0 false] (Some (4, 0)) None (fun _ => [60; 47; 97; 62])
        dp_unescaped_path dp_unescaped_query [].
Definition ex_get (ty : Z) (path : bytes) (extra : list opt) : msg :=
  mkMsg ty 1 4660 [170; 187] ((11, path) :: extra) [].

(* CON GET /a : the GET handler of /a runs once, piggybacked 2.05 with what it set *)
Example ex_handler_runs :
  dp_serve ex_cfg ex_handler false (ex_get 0 [97] []) =
  [EvH (mkHreq (RRes [97]) 1 (ex_get 0 [97] []) []);
   EvTx false (mkMsg 2 69 4660 [170; 187] [(12, [0])] [104; 105])] /\
  sp_blocked ex_cfg false (ex_get 0 [97] []) = false /\
  dp_in_scope ex_cfg ex_handler (ex_get 0 [97] []) /\
  (forall out, dp_allowed ex_cfg ex_handler false (ex_get 0 [97] []) out ->
               out = dp_serve ex_cfg ex_handler false (ex_get 0 [97] [])).
Proof.
  split; [vm_compute; reflexivity|]. split; [vm_compute; reflexivity|].
  split; [split; [discriminate|split; [intros i; vm_compute; discriminate|split; [intros H; vm_compute in H; discriminate|vm_compute; discriminate]]]|].
  intros out H. unfold dp_allowed in H. vm_compute in H. vm_compute.
  repeat (destruct H as [<- | H]; [reflexivity|]). contradiction.
Qed.

(* the rules of the statement on concrete requests *)
Example ex_rules :
  (* unknown critical option 13: 4.02 echoing it (CON), Reset (NON), nothing (NON, multicast) *)
  dp_serve ex_cfg ex_handler false (ex_get 0 [97] [(13, [1])]) =
    [EvTx true (mkMsg 2 130 4660 [170; 187] [(13, [1])] [])] /\
  dp_serve ex_cfg ex_handler false (ex_get 1 [97] [(13, [1])]) = [EvTx false (dp_empty 3 4660)] /\
  dp_serve ex_cfg ex_handler true (ex_get 1 [97] [(13, [1])]) = [] /\
  (* illegal repeat of Accept *)
  dp_serve ex_cfg ex_handler false (ex_get 0 [97] [(17, []); (17, [])]) =
    [EvTx true (mkMsg 2 130 4660 [170; 187] [(17, [])] [])] /\
  (* not found: 4.04; the unknown-resource handler takes PUT (mask 4 = method 3) *)
  dp_serve ex_cfg ex_handler false (ex_get 0 [122] []) =
    [EvTx true (mkMsg 2 132 4660 [170; 187] [] [])] /\
  dp_calls (dp_serve ex_cfg ex_handler false (mkMsg 0 3 1 [] [(11, [122])] [1])) =
    [mkHreq RUnknown 3 (mkMsg 0 3 1 [] [(11, [122])] [1]) []] /\
  (* DELETE on nothing: 2.02 *)
  dp_serve ex_cfg ex_handler false (mkMsg 0 4 1 [] [(11, [122])] []) =
    [EvTx true (mkMsg 2 66 1 [] [] [])] /\
  (* method not allowed *)
  dp_serve ex_cfg ex_handler false (mkMsg 0 2 1 [] [(11, [97])] []) =
    [EvTx true (mkMsg 2 133 1 [] [] [])] /\
  (* If-None-Match on an existing resource *)
  dp_serve ex_cfg ex_handler false (mkMsg 0 2 1 [] [(5, []); (11, [98])] []) =
    [EvTx true (mkMsg 2 140 1 [] [] [])] /\
  (* FETCH without Content-Format (a FETCH handler exists on /f) *)
  dp_serve (mkCfg false [] [mkRes [102] 16 0 false] None None (fun _ => []) dp_unescaped_path dp_unescaped_query []) ex_handler false
           (mkMsg 0 5 1 [] [(11, [102])] []) = [EvTx true (mkMsg 2 143 1 [] [] [])] /\
  (* proxy option without proxy support *)
  dp_serve ex_cfg ex_handler false (mkMsg 0 1 1 [] [(3, [104]); (11, [97]); (39, [99])] []) =
    [EvTx true (mkMsg 2 165 1 [] [] [])] /\
  (* Hop-Limit 1 / 0 *)
  dp_serve ex_cfg ex_handler false (mkMsg 0 1 1 [] [(11, [97]); (16, [1])] []) =
    [EvTx true (mkMsg 2 168 1 [] [(16, [255])] [])] /\
  dp_serve ex_cfg ex_handler false (mkMsg 0 1 1 [] [(11, [97]); (16, [0])] []) =
    [EvTx true (mkMsg 2 128 1 [] [] [])] /\
  (* invalid code class: Reset (CON), nothing (NON) *)
  dp_serve ex_cfg ex_handler false (mkMsg 0 33 7 [] [] []) = [EvTx false (dp_empty 3 7)] /\
  dp_serve ex_cfg ex_handler false (mkMsg 1 200 7 [] [] []) = [] /\
  (* No-Response 2 suppresses the 2.05: Empty ACK for CON, nothing for NON *)
  dp_txs (dp_serve ex_cfg ex_handler false (ex_get 0 [97] [(258, [2])])) = [dp_empty 2 4660] /\
  dp_txs (dp_serve ex_cfg ex_handler false (ex_get 1 [97] [(258, [2])])) = [] /\
  (* multicast: /a has multicast support, /b has not (4.05, suppressed) *)
  dp_txs (dp_serve ex_cfg ex_handler true (ex_get 1 [97] [])) =
    [mkMsg 1 69 4660 [170; 187] [(12, [0])] [104; 105]] /\
  dp_serve ex_cfg ex_handler true (ex_get 1 [98] []) = [].
Proof. vm_compute. repeat split. Qed.

(* ---- corollaries in the form used by Properties_C10.v ---- *)
Theorem single_error_reply : forall cfg h mc req,
  0 <= m_type req <= 3 -> conn req ->
  dp_bad_class (m_code req) = false -> dp_is_request (m_code req) = true ->
  forall e, e <> E402 -> sp_applies cfg mc req e = true ->
  (forall e', e' <> e -> sp_applies cfg mc req e' = false) ->
  sp_oscore_drop cfg req = false -> sp_long_token req = false ->
  mc && (m_type req =? NR_CON) = false -> sp_async cfg req = false ->
  forall out, dp_allowed cfg h mc req out ->
  out = dp_fail cfg mc req (sp_rflags cfg req e) (dp_err_code e).
Proof.
  intros cfg h mc req Hty Hc Hb Hq e Hne He Ho Hos Hlt Hmc Has out Ha.
  destruct (single_error_decides cfg h mc req Hty Hc Hb Hq e He Ho Hos Hlt Hmc Has out Ha) as [H | [H _]];
    [|contradiction].
  destruct e; try contradiction; cbn [sp_emit] in H; destruct H as [<- | []]; reflexivity.
Qed.

(* an unknown critical or illegally repeated option (and nothing else wrong):
   CON -> a 4.02 (built by coap_dispatch with the offending options echoed, or by
   handle_request); NON -> Reset or silence (or a NON 4.02) *)
Theorem bad_option_reply : forall cfg h mc req,
  0 <= m_type req <= 3 -> conn req ->
  dp_bad_class (m_code req) = false -> dp_is_request (m_code req) = true ->
  sp_applies cfg mc req E402 = true ->
  (forall e', e' <> E402 -> sp_applies cfg mc req e' = false) ->
  sp_oscore_drop cfg req = false -> sp_long_token req = false ->
  mc && (m_type req =? NR_CON) = false -> sp_async cfg req = false ->
  forall out, dp_allowed cfg h mc req out ->
  (m_type req = NR_CON /\ out = [sp_err402_direct cfg req]) \/
  (exists rf, out = dp_fail cfg mc req rf 130) \/
  (m_type req = NR_NON /\ sp_bad_options cfg req = true /\ In out (sp_reject mc req)).
Proof.
  intros cfg h mc req Hty Hc Hb Hq He Ho Hos Hlt Hmc Has out Ha.
  destruct (single_error_decides cfg h mc req Hty Hc Hb Hq E402 He Ho Hos Hlt Hmc Has out Ha)
    as [H | [_ [H1 [H2 H3]]]]; [|right; right; auto].
  cbn [sp_emit] in H. apply in_app_or in H as [H | H].
  - destruct (m_type req =? NR_CON) eqn:E; [|contradiction]. destruct H as [<- | []].
    left. split; [unfold NR_CON in *; lia|reflexivity].
  - right. left. apply in_app_or in H as [H | H].
    + destruct H as [<- | []]. eexists. reflexivity.
    + destruct (c_prx cfg) as [[[? ?] ?]|]; [|contradiction]. destruct H as [<- | []].
      eexists. reflexivity.
Qed.

(* invalid code class: Reset or nothing; never a Reset on multicast; ACK / RST typed messages
   are never answered *)
Theorem bad_class_rejected : forall cfg h mc req out,
  conn req -> dp_bad_class (m_code req) = true -> dp_allowed cfg h mc req out ->
  out = [] \/ (mc = false /\ out = [EvTx false (dp_empty NR_RST (m_mid req))]).
Proof.
  intros cfg h mc req out Hc Hb. unfold dp_allowed, dp_allowed_outs.
  assert (E : (m_type req =? NR_CON) || (m_type req =? NR_NON) = true).
  { unfold conn, NR_CON, NR_NON in *. lia. }
  rewrite E, Hb. cbn [negb]. unfold sp_reject. destruct mc; cbn [In]; intros H.
  - destruct H as [<- | []]. left. reflexivity.
  - destruct H as [<- | [<- | []]]; [right; auto|left; reflexivity].
Qed.

Theorem not_conn_silent : forall cfg h mc req out,
  m_type req = NR_ACK \/ m_type req = NR_RST -> dp_allowed cfg h mc req out -> out = [].
Proof.
  intros cfg h mc req out Ht. unfold dp_allowed, dp_allowed_outs.
  assert (E : (m_type req =? NR_CON) || (m_type req =? NR_NON) = false).
  { unfold NR_CON, NR_NON, NR_ACK, NR_RST in *. lia. }
  rewrite E. cbn [negb In]. intros [<- | []]. reflexivity.
Qed.

(* never a Reset in reply to a multicast message, whatever it contains *)
Theorem no_reset_on_multicast : forall cfg h req out m,
  0 <= m_type req <= 3 ->
  dp_allowed cfg h true req out -> In m (dp_txs out) -> m_type m <> NR_RST.
Proof.
  intros cfg h req out m Hty Ha Hin Hrst.
  (* every element of the enumeration, for mc = true *)
  unfold dp_allowed, dp_allowed_outs in Ha.
  destruct ((m_type req =? NR_CON) || (m_type req =? NR_NON)) eqn:Ec; cbn [negb] in Ha.
  2: { destruct Ha as [<- | []]. contradiction. }
  assert (Hrej : forall x, In x (sp_reject true req) -> dp_txs x = []).
  { unfold sp_reject. intros x [<- | []]. reflexivity. }
  assert (Hfin : forall rq rf early diag resp x,
            In x (dp_txs (dp_finish cfg true rq rf early diag resp)) -> m_type x <> NR_RST ->
            m_type resp <> NR_RST -> True) by auto.
  assert (Hfin2 : forall rq rf early diag resp,
            m_type resp <> NR_RST ->
            forall x, In x (dp_txs (dp_finish cfg true rq rf early diag resp)) -> m_type x <> NR_RST).
  { intros rq rf early diag resp Hr x Hx.
    destruct (finish_cases cfg true rq rf early diag resp) as [H | [[H _] | [o H]]];
      cbn zeta in H; rewrite H in Hx; cbn in Hx.
    - contradiction.
    - destruct Hx as [<- | []]. cbn. unfold NR_ACK, NR_RST. discriminate.
    - destruct Hx as [<- | []]. cbn [m_type].
      destruct (early && (m_type resp =? NR_ACK)); [unfold NR_CON, NR_RST; discriminate|exact Hr]. }
  assert (Hrt : forall r, dp_resp_type r <> NR_RST).
  { intros r. unfold dp_resp_type. destruct (m_type r =? NR_CON); unfold NR_ACK, NR_NON, NR_RST; discriminate. }
  assert (Hfin3 : forall rq rf early diag r c mid tok o p x,
            In x (dp_txs (dp_finish cfg true rq rf early diag (mkMsg (dp_resp_type r) c mid tok o p))) ->
            m_type x <> NR_RST).
  { intros rq rf early diag r c mid tok o p x Hx. eapply Hfin2; [|exact Hx]. cbn [m_type]. apply Hrt. }
  assert (Hfail : forall rf c x, In x (dp_txs (dp_fail cfg true req rf c)) -> m_type x <> NR_RST).
  { intros rf c. unfold dp_fail. apply Hfin2. unfold dp_error. cbn [m_type]. apply Hrt. }
  destruct (dp_bad_class (m_code req)); [rewrite (Hrej _ Ha) in Hin; contradiction|].
  destruct (dp_is_response (m_code req)).
  { apply in_app_or in Ha as [Ha | Ha]; [rewrite (Hrej _ Ha) in Hin; contradiction|].
    destruct (m_type req =? NR_CON); [|contradiction]. destruct Ha as [<- | []].
    destruct Hin as [<- | []]. cbn in Hrst. unfold NR_ACK, NR_RST in Hrst. discriminate. }
  destruct (dp_is_request (m_code req)); cbn [negb] in Ha;
    [|rewrite (Hrej _ Ha) in Hin; contradiction].
  apply in_app_or in Ha; destruct Ha as [Ha | Ha];
    [|apply in_app_or in Ha; destruct Ha as [Ha | Ha];
      [|apply in_app_or in Ha; destruct Ha as [Ha | Ha];
        [|apply in_app_or in Ha; destruct Ha as [Ha | Ha];
          [|apply in_app_or in Ha; destruct Ha as [Ha | Ha];
            [|apply in_app_or in Ha; destruct Ha as [Ha | Ha]]]]]].
  - destruct (sp_oscore_drop cfg req); [|contradiction]. destruct Ha as [<- | []]. contradiction.
  - destruct (sp_long_token req); [|contradiction]. rewrite (Hrej _ Ha) in Hin. contradiction.
  - destruct (true && (m_type req =? NR_CON)); [|contradiction]. destruct Ha as [<- | []]. contradiction.
  - destruct (sp_async cfg req); [|contradiction]. destruct Ha as [<- | Ha]; [contradiction|].
    destruct (m_type req =? NR_CON); [|contradiction]. destruct Ha as [<- | []].
    destruct Hin as [<- | []]. cbn in Hrst. unfold NR_ACK, NR_RST in Hrst. discriminate.
  - destruct ((m_type req =? NR_NON) && sp_bad_options cfg req); [|contradiction].
    rewrite (Hrej _ Ha) in Hin. contradiction.
  - apply in_flat_map in Ha as [e [_ Ha]].
    destruct (sp_applies cfg true req e); [|contradiction].
    destruct e; cbn [sp_emit] in Ha;
      try (destruct Ha as [<- | []]; exact (Hfail _ _ _ Hin Hrst)).
    apply in_app_or in Ha as [Ha | Ha].
    + destruct (m_type req =? NR_CON); [|contradiction]. destruct Ha as [<- | []].
      destruct Hin as [<- | []]. unfold dp_error in Hrst. cbn [m_type] in Hrst. exact (Hrt _ Hrst).
    + apply in_app_or in Ha as [Ha | Ha].
      * destruct Ha as [<- | []]. exact (Hfail _ _ _ Hin Hrst).
      * destruct (c_prx cfg) as [[[? ?] ?]|]; [|contradiction].
        destruct Ha as [<- | []]. exact (Hfail _ _ _ Hin Hrst).
  - destruct (sp_blocked cfg true req); [contradiction|].
    unfold sp_handler_outs in Ha. apply in_map_iff in Ha as [ov [<- _]].
    (* the handler's output: only dp_finish and the Empty ACK emit *)
    unfold dp_invoke in Hin.
    set (rq := sp_req_with req ov) in *.
    assert (Htail : forall i (early : bool) rf c o p,
      In m (dp_txs ((if early then [dp_eack rq] else []) ++ EvH i ::
              (if dp_bad_class c then [] else if c =? 168 then [EvSkip]
               else dp_finish cfg true rq rf early false
                      (mkMsg (dp_resp_type rq) c (m_mid rq) (m_token rq) o p)))) -> False).
    { intros i early rf c o p Hm. rewrite txs_app in Hm. apply in_app_or in Hm as [Hm | Hm].
      - destruct early; [|contradiction]. destruct Hm as [<- | []].
        cbn in Hrst. unfold NR_ACK, NR_RST in Hrst. discriminate.
      - change (dp_txs (EvH i :: ?t)) with (dp_txs t) in Hm.
        cbn [dp_txs flat_map app] in Hm.
        destruct (dp_bad_class c); [contradiction|]. destruct (c =? 168); [contradiction|].
        revert Hm. fold (dp_txs (dp_finish cfg true rq rf early false
                        (mkMsg (dp_resp_type rq) c (m_mid rq) (m_token rq) o p))).
        intros Hm. exact (Hfin3 _ _ _ _ _ _ _ _ _ _ _ Hm Hrst). }
    destruct (sp_target cfg req);
      try (destruct (dp_observe _ rq);
           first [exact (Htail _ false _ _ _ _ Hin)
                 | exact (Htail _ (m_type rq =? NR_CON) _ _ _ _ Hin)
                 | (cbn in Hin; contradiction)]).
    destruct (dp_has DP_BLOCK2 (m_opts rq)); [cbn in Hin; contradiction|].
    exact (Hfin3 _ _ _ _ _ _ _ _ _ _ _ Hin Hrst).
Qed.

(* ---- the options echoed in the 4.02 of coap_dispatch(): only options of the request, only
        offending ones (unknown critical, or a non-repeatable number), never Content-Format,
        Hop-Limit or OSCORE ---- *)
Lemma add_all_subset : forall l m o, In o (dp_add_all m l) -> In o l.
Proof.
  induction l as [|[n v] t IH]; intros m o; cbn [dp_add_all]; [tauto|].
  destruct ((n =? m) && negb (dp_repeatable n)).
  - intros H. right. eapply IH. exact H.
  - intros [<- | H]; [left; reflexivity|right; eapply IH; exact H].
Qed.

Lemma mem_filter_ne : forall n k l,
  dp_mem n (filter (fun j => negb (j =? k)) l) = true -> dp_mem n l = true /\ n <> k.
Proof.
  intros n k l. unfold dp_mem. induction l as [|j t IH]; cbn [filter existsb]; [discriminate|].
  destruct (j =? k) eqn:E; cbn [negb].
  - intros H. destruct (IH H) as [H1 H2]. split; [rewrite H1; apply orb_true_r|exact H2].
  - cbn [existsb]. intros H. apply orb_true_iff in H as [H | H].
    + split; [rewrite H; reflexivity|]. lia.
    + destruct (IH H) as [H1 H2]. split; [rewrite H1; apply orb_true_r|exact H2].
Qed.

Lemma fget_funset : forall f k n, dp_fget (dp_funset f k) n = true -> dp_fget f n = true /\ n <> k.
Proof.
  intros f k n. unfold dp_fget, dp_funset. cbn [f_long f_short].
  destruct (255 <? n); apply mem_filter_ne.
Qed.

Lemma mem_app_one : forall n k l, dp_mem n (l ++ [k]) = true -> dp_mem n l = true \/ n = k.
Proof.
  intros n k l. unfold dp_mem. rewrite existsb_app. cbn [existsb]. rewrite orb_false_r.
  intros H. apply orb_true_iff in H as [H | H]; [left; exact H|right; lia].
Qed.

Lemma fget_fset : forall f k n, dp_fget (snd (dp_fset f k)) n = true -> dp_fget f n = true \/ n = k.
Proof.
  intros f k n. unfold dp_fset.
  destruct (dp_fget f k); [cbn [snd]; auto|].
  destruct (255 <? k) eqn:Ek.
  - destruct (len (f_long f) <? 2); cbn [snd]; [|auto].
    unfold dp_fget. cbn [f_long f_short]. destruct (255 <? n); [apply mem_app_one|auto].
  - destruct (len (f_short f) <? 6); cbn [snd]; [|auto].
    unfold dp_fget. cbn [f_long f_short]. destruct (255 <? n); [auto|apply mem_app_one].
Qed.

Lemma crit_loop_flt : forall known pctx l last s n,
  dp_fget (cs_flt (dp_crit_loop known pctx l last s)) n = true ->
  dp_fget (cs_flt s) n = true \/ lm_unk known pctx n = true \/ dp_repeatable n = false.
Proof.
  induction l as [|[k v] t IH]; intros last s n; cbn [dp_crit_loop]; [auto|].
  set (s1 := match dp_crit_kind_of known pctx k with
             | CritKnown => s
             | CritUnknown => mkCs false (snd (dp_fset (cs_flt s) k)) (cs_crit s)
             | CritProxyFwd => mkCs (cs_ok s) (cs_flt s) true end).
  assert (Hs1 : dp_fget (cs_flt s1) n = true ->
                dp_fget (cs_flt s) n = true \/ lm_unk known pctx n = true).
  { unfold s1, lm_unk. destruct (dp_crit_kind_of known pctx k) eqn:EK; cbn [cs_flt]; auto.
    intros H. apply fget_fset in H as [H | ->]; [auto|]. right. rewrite EK. reflexivity. }
  destruct ((last =? k) && negb (dp_repeatable k)) eqn:Er.
  - destruct (dp_fset (cs_flt s1) k) as [stored f2] eqn:Ef.
    assert (Hf2 : dp_fget f2 n = true -> dp_fget (cs_flt s1) n = true \/ n = k).
    { intros H. replace f2 with (snd (dp_fset (cs_flt s1) k)) in H by (rewrite Ef; reflexivity).
      apply fget_fset. exact H. }
    assert (Hk : dp_repeatable k = false).
    { apply andb_true_iff in Er as [_ Er]. destruct (dp_repeatable k); [discriminate|reflexivity]. }
    destruct stored.
    + intros H. apply IH in H. cbn [cs_flt] in H. destruct H as [H | H]; [|auto].
      apply Hf2 in H as [H | ->]; [|auto]. apply Hs1 in H. tauto.
    + cbn [cs_flt]. intros H. apply Hf2 in H as [H | ->]; [|auto]. apply Hs1 in H. tauto.
  - intros H. apply IH in H. destruct H as [H | H]; [|auto]. apply Hs1 in H. tauto.
Qed.

Theorem echo_sound : forall cfg req o,
  In o (m_opts (match sp_err402_direct cfg req with EvTx _ m => m | _ => dp_empty 0 0 end)) ->
  In o (dp_fix_block2 cfg req) /\
  (sp_is_unknown cfg req (fst o) = true \/ dp_repeatable (fst o) = false) /\
  fst o <> DP_CONTENT_FORMAT /\ fst o <> DP_HOP_LIMIT /\ fst o <> DP_OSCORE.
Proof.
  intros cfg req o. unfold sp_err402_direct, dp_error. cbn [m_opts]. unfold dp_error_opts.
  intros H. apply add_all_subset in H. apply filter_In in H as [Hin Hf].
  apply fget_funset in Hf as [Hf H9]. apply fget_funset in Hf as [Hf H16].
  apply fget_funset in Hf as [Hf H12].
  split; [exact Hin|]. split; [|auto].
  unfold dp_check_critical in Hf. apply crit_loop_flt in Hf. cbn [cs_flt] in Hf.
  rewrite dp_fget_empty in Hf. destruct Hf as [Hf | [Hf | Hf]]; [discriminate|left|right; exact Hf].
  exact Hf.
Qed.

(* ---- the behaviour repaired by /repo 592fce7 is outside the relation: a Reset in reply to the
        multicast NON of corpus/C10/mcast_rst.case (unknown critical option 13) ---- *)
Example mcast_reset_refused :
  let req := mkMsg 1 1 4660 [] [(11, [97]); (13, [])] [] in
  dp_req_wf req /\ dp_in_scope ex_cfg ex_handler req /\
  ~ dp_allowed ex_cfg ex_handler true req [EvTx false (dp_empty NR_RST 4660)] /\
  dp_allowed ex_cfg ex_handler true req [] /\
  dp_allowed ex_cfg ex_handler false req [EvTx false (dp_empty NR_RST 4660)].
Proof.
  cbv zeta. split; [repeat constructor; cbn; lia|].
  split; [split; [discriminate|split; [intros i; vm_compute; discriminate|split; [intros H; vm_compute in H; discriminate|vm_compute; discriminate]]]|].
  split; [|split].
  - unfold dp_allowed. vm_compute. intros H.
    repeat (destruct H as [H | H]; [discriminate H|]). exact H.
  - unfold dp_allowed. vm_compute. auto.
  - unfold dp_allowed. vm_compute. auto.
Qed.

(* ---- every view of the request's options the relation lets the handler see: same option
        numbers in the same order, same values except Block2 / Hop-Limit, hence the same
        reconstructed path and query ---- *)
Theorem handler_views : forall cfg req o, In o (sp_views cfg req) ->
  map fst o = map fst (m_opts req) /\
  (forall n, n <> DP_BLOCK2 -> n <> DP_HOP_LIMIT -> dp_values n o = dp_values n (m_opts req)) /\
  dp_uri_path cfg o = dp_uri_path cfg (m_opts req) /\ dp_query cfg o = dp_query cfg (m_opts req).
Proof.
  intros cfg req o Hin.
  assert (Hmain : map fst o = map fst (m_opts req) /\
                  (forall n, n <> DP_BLOCK2 -> n <> DP_HOP_LIMIT ->
                             dp_values n o = dp_values n (m_opts req))).
  { assert (Hhop : forall l, map fst (sp_hop_dec l) = map fst l /\
               (forall n, n <> DP_HOP_LIMIT -> dp_values n (sp_hop_dec l) = dp_values n l)).
    { intros l. unfold sp_hop_dec. destruct (dp_find DP_HOP_LIMIT l); [|auto].
      split; [apply dp_update_fst|]. intros n Hn. apply dp_values_update_other. exact Hn. }
    destruct (handler_sees_request cfg req) as [Ha1 [Ha2 _]].
    assert (Hfix : map fst (sp_fix_block2 req) = map fst (m_opts req) /\
               (forall n, n <> DP_BLOCK2 -> dp_values n (sp_fix_block2 req) = dp_values n (m_opts req))).
    { unfold sp_fix_block2. destruct (dp_is_request (m_code req)); [|auto].
      destruct (dp_find DP_BLOCK2 (m_opts req)); [|auto]. destruct (dp_block2_fix b); [|auto].
      split; [apply dp_update_fst|]. intros n Hn. apply dp_values_update_other. exact Hn. }
    unfold sp_views in Hin. cbn [In] in Hin.
    destruct Hin as [<- | [<- | [<- | [<- | [<- | []]]]]].
    - auto.
    - auto.
    - destruct Hfix as [H1 H2]. split; [exact H1|]. intros n Hn _. apply H2. exact Hn.
    - destruct (Hhop (m_opts req)) as [H1 H2]. split; [exact H1|]. intros n _ Hn. apply H2. exact Hn.
    - destruct (Hhop (sp_fix_block2 req)) as [H1 H2]. destruct Hfix as [H3 H4].
      split; [rewrite H1; exact H3|]. intros n Hb Hh. rewrite H2 by exact Hh. apply H4. exact Hb. }
  destruct Hmain as [H1 H2]. split; [exact H1|]. split; [exact H2|].
  unfold dp_uri_path, dp_query. rewrite !H2 by discriminate. auto.
Qed.

(* ---- the look-up key keeps the segment structure: when the tables never copy the separator
        unescaped (what the check demands of the library's tables), an escaped Uri-Path option
        contains no '/' and an escaped Uri-Query option no '&' - a '/' inside ONE option can
        not make the request hit a multi-segment resource ---- *)
Definition dp_tables_ok (cfg : dp_cfg) : Prop :=
  c_unesc_path cfg 47 = false /\ c_unesc_path cfg 37 = false /\
  c_unesc_query cfg 38 = false /\ c_unesc_query cfg 37 = false.

Lemma escape_no_separator : forall unesc sep seg,
  wfb seg -> unesc sep = false -> sep = 47 \/ sep = 38 -> ~ In sep (dp_escape unesc seg).
Proof.
  intros unesc sep seg Hw Hu Hs. unfold dp_escape. intros Hin.
  apply in_flat_map in Hin as [c [Hc Hin]].
  assert (Hb : 0 <= c < 256). { unfold wfb in Hw. rewrite Forall_forall in Hw. apply Hw. exact Hc. }
  destruct (unesc c) eqn:E.
  - destruct Hin as [<- | []]. congruence.
  - unfold dp_hexdigit in Hin. cbn [In] in Hin.
    destruct (c / 16 <? 10) eqn:E1; destruct (c mod 16 <? 10) eqn:E2; lia.
Qed.

Theorem one_option_no_separator : forall cfg seg,
  dp_tables_ok cfg -> wfb seg ->
  ~ In 47 (dp_uri_path cfg [(DP_URI_PATH, seg)]) /\ ~ In 38 (dp_query cfg [(DP_URI_QUERY, seg)]).
Proof.
  intros cfg seg [H1 [_ [H3 _]]] Hw. unfold dp_uri_path, dp_query, dp_values.
  cbn [filter fst snd map dp_join]. change (DP_URI_PATH =? DP_URI_PATH) with true.
  change (DP_URI_QUERY =? DP_URI_QUERY) with true. cbn [filter fst snd map dp_join].
  split; apply escape_no_separator; auto.
Qed.

(* ---- a pending separate response: the repetition of the request is absorbed ---- *)
Example ex_async_absorbed :
  let cfg := mkCfg false [] [mkRes [97] 1 0 false] None None (fun _ => [])
                   dp_unescaped_path dp_unescaped_query [[49]] in
  dp_tables_ok cfg /\
  dp_serve cfg ex_handler false (mkMsg 1 1 7 [49] [(11, [97])] []) = [] /\
  dp_serve cfg ex_handler false (mkMsg 0 1 7 [49] [(11, [97])] []) = [EvTx false (dp_empty 2 7)] /\
  dp_allowed_outs cfg ex_handler false (mkMsg 1 1 7 [49] [(11, [97])] []) = [[]] /\
  dp_calls (dp_serve cfg ex_handler false (mkMsg 1 1 7 [50] [(11, [97])] [])) <> [].
Proof. cbv zeta. vm_compute. repeat split; discriminate. Qed.

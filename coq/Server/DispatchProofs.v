(* C10 - the transcribed dispatch function is within the relation of the property statement:
   for every configuration, handler behaviour, destination and request,
   dp_serve cfg h mc req  is one of  dp_allowed_outs cfg h mc req. *)
From LibcoapV Require Import Base.Tactics Base.Bytes Wire.OptCodec Wire.Pdu Server.NoResponse
  Server.Dispatch Server.DispatchSpec Server.DispatchLemmas.
Local Open Scope Z_scope.

Definition dp_req_wf (req : msg) : Prop := Forall (fun o : opt => 0 <= fst o) (m_opts req).

Section Main.
  Variable cfg : dp_cfg.
  Variable h : dp_hreq -> dp_hresp.
  Variable mc : bool.
  Variable req : msg.
  Hypothesis Hwf : dp_req_wf req.
  Hypothesis Hty : 0 <= m_type req <= 3.
  Hypothesis Hscope : dp_in_scope cfg h req.

  Let ty := m_type req.
  Let code := m_code req.
  Let opts := m_opts req.
  Let outs := dp_allowed_outs cfg h mc req.
  Let s := dp_check_critical cfg req.

  (* ---- the scan result in terms of the declarative predicates ---- *)
  Lemma scan_ok : cs_ok s = negb (sp_bad_options cfg req).
  Proof.
    unfold s, dp_check_critical.
    match goal with |- cs_ok (dp_crit_loop ?k ?p ?l ?la ?s0) = _ =>
      destruct (crit_loop_spec k p l la s0) as [H _]; cbn zeta in H; rewrite H end.
    cbn [cs_ok andb]. unfold sp_bad_options, sp_unknown_critical.
    rewrite lm_rep_from_sp_repeat.
    - rewrite negb_orb. reflexivity.
    - unfold dp_req_wf in Hwf. destruct (m_opts req) as [|[n v] t]; [exact I|].
      inversion Hwf; subst. cbn [fst] in *. lia.
  Qed.

  Lemma scan_crit : cs_ok s = true -> cs_crit s = sp_fwd_critical cfg req.
  Proof.
    intros Hok. pose proof scan_ok as Hs. rewrite Hok in Hs.
    unfold sp_bad_options in Hs. symmetry in Hs. apply negb_true_iff, orb_false_iff in Hs as [_ Hr].
    unfold s, dp_check_critical.
    match goal with |- cs_crit (dp_crit_loop ?k ?p ?l ?la ?s0) = _ =>
      destruct (crit_loop_spec k p l la s0) as [_ H]; cbn zeta in H; rewrite H end.
    - reflexivity.
    - rewrite lm_rep_from_sp_repeat; [exact Hr|].
      unfold dp_req_wf in Hwf. destruct (m_opts req) as [|[n v] t]; [exact I|].
      inversion Hwf; subst. cbn [fst] in *. lia.
  Qed.

  Lemma scan_block2 : cs_ok s = true -> dp_fix_block2 cfg req = sp_fix_block2 req.
  Proof.
    intros Hok. pose proof scan_ok as Hs. rewrite Hok in Hs.
    unfold sp_bad_options in Hs. symmetry in Hs. apply negb_true_iff, orb_false_iff in Hs as [_ Hr].
    unfold dp_fix_block2, sp_fix_block2.
    destruct (dp_is_request (m_code req)); [|reflexivity]. cbn [andb].
    rewrite reaches_spec.
    - rewrite existsb_fst_has. unfold dp_has.
      destruct (dp_find DP_BLOCK2 (m_opts req)); reflexivity.
    - rewrite lm_rep_from_sp_repeat; [exact Hr|].
      unfold dp_req_wf in Hwf. destruct (m_opts req) as [|[n v] t]; [exact I|].
      inversion Hwf; subst. cbn [fst] in *. lia.
  Qed.

  (* ---- the Block2 edit does not change what the checks look at ---- *)
  Lemma fix_has : forall n, dp_has n (sp_fix_block2 req) = dp_has n opts.
  Proof.
    intros n. unfold sp_fix_block2. fold opts.
    destruct (dp_is_request (m_code req)); [|reflexivity].
    destruct (dp_find DP_BLOCK2 opts); [|reflexivity].
    destruct (dp_block2_fix b); [|reflexivity]. apply dp_has_update.
  Qed.

  Lemma fix_find : forall n, n <> DP_BLOCK2 -> dp_find n (sp_fix_block2 req) = dp_find n opts.
  Proof.
    intros n Hn. unfold sp_fix_block2. fold opts.
    destruct (dp_is_request (m_code req)); [|reflexivity].
    destruct (dp_find DP_BLOCK2 opts); [|reflexivity].
    destruct (dp_block2_fix b); [|reflexivity]. apply dp_find_update_other. exact Hn.
  Qed.

  Lemma fix_path : dp_uri_path cfg (sp_fix_block2 req) = dp_uri_path cfg opts.
  Proof.
    unfold sp_fix_block2. fold opts.
    destruct (dp_is_request (m_code req)); [|reflexivity].
    destruct (dp_find DP_BLOCK2 opts); [|reflexivity].
    destruct (dp_block2_fix b); [|reflexivity]. apply dp_uri_path_update. discriminate.
  Qed.

  Lemma fix_oscore : dp_oscore_drop cfg code (sp_fix_block2 req) = sp_oscore_drop cfg req.
  Proof.
    unfold sp_oscore_drop, dp_oscore_drop. rewrite !fix_has.
    rewrite (fix_find DP_URI_HOST) by discriminate. reflexivity.
  Qed.

  (* ---- membership lemmas ---- *)
  Definition is_conn : Prop := (ty =? NR_CON) || (ty =? NR_NON) = true.

  Lemma outs_not_conn : (ty =? NR_CON) || (ty =? NR_NON) = false -> In [] outs.
  Proof. intros H. unfold outs, dp_allowed_outs. fold ty. rewrite H. left. reflexivity. Qed.

  Lemma rst_in_reject : In (dp_rst mc req) (sp_reject mc req).
  Proof. unfold dp_rst, sp_reject. destruct mc; left; reflexivity. Qed.

  Lemma nil_in_reject : In [] (sp_reject mc req).
  Proof. unfold sp_reject. destruct mc; [left|right; left]; reflexivity. Qed.

  Section Request.
    Hypothesis Hconn : is_conn.
    Hypothesis Hcls : dp_bad_class code = false.
    Hypothesis Hreq : dp_is_request code = true.

    Lemma not_response : dp_is_response code = false.
    Proof. unfold dp_is_request, dp_is_response in *. lia. Qed.

    Lemma outs_request :
      outs =
      (if sp_oscore_drop cfg req then [[]] else []) ++
      (if sp_long_token req then sp_reject mc req else []) ++
      (if mc && (ty =? NR_CON) then [[]] else []) ++
      (if sp_async cfg req then [] :: (if ty =? NR_CON then [[dp_eack req]] else []) else []) ++
      (if (ty =? NR_NON) && sp_bad_options cfg req then sp_reject mc req else []) ++
      flat_map (fun e => if sp_applies cfg mc req e then sp_emit cfg mc req e else []) dp_all_errs ++
      (if sp_blocked cfg mc req then [] else sp_handler_outs cfg h mc req).
    Proof.
      unfold outs, dp_allowed_outs. fold ty code. unfold is_conn in Hconn.
      rewrite Hconn, Hcls, not_response, Hreq. reflexivity.
    Qed.

    Lemma in_oscore : sp_oscore_drop cfg req = true -> In [] outs.
    Proof. intros H. rewrite outs_request, H. apply in_or_app. left. left. reflexivity. Qed.

    Lemma in_long : forall x, sp_long_token req = true -> In x (sp_reject mc req) -> In x outs.
    Proof.
      intros x H Hx. rewrite outs_request, H. apply in_or_app. right. apply in_or_app. left. exact Hx.
    Qed.

    Lemma in_mcast_con : mc && (ty =? NR_CON) = true -> In [] outs.
    Proof.
      intros H. rewrite outs_request, H. do 2 (apply in_or_app; right). apply in_or_app. left.
      left. reflexivity.
    Qed.

    Lemma in_async : forall x, sp_async cfg req = true ->
      In x ([] :: (if ty =? NR_CON then [[dp_eack req]] else [])) -> In x outs.
    Proof.
      intros x H Hx. rewrite outs_request, H. do 3 (apply in_or_app; right). apply in_or_app. left.
      exact Hx.
    Qed.

    Lemma in_non_bad : forall x, (ty =? NR_NON) && sp_bad_options cfg req = true ->
      In x (sp_reject mc req) -> In x outs.
    Proof.
      intros x H Hx. rewrite outs_request, H. do 4 (apply in_or_app; right). apply in_or_app. left.
      exact Hx.
    Qed.

    Lemma in_err : forall e x, sp_applies cfg mc req e = true -> In x (sp_emit cfg mc req e) ->
      In x outs.
    Proof.
      intros e x H Hx. rewrite outs_request. do 5 (apply in_or_app; right). apply in_or_app. left.
      apply in_flat_map. exists e. split; [destruct e; cbn; tauto|]. rewrite H. exact Hx.
    Qed.

    Lemma in_err_plain : forall e, e <> E402 -> sp_applies cfg mc req e = true ->
      In (dp_fail cfg mc req (sp_rflags cfg req e) (dp_err_code e)) outs.
    Proof.
      intros e Hne H. apply (in_err e); [exact H|]. destruct e; try congruence; left; reflexivity.
    Qed.

    Lemma in_handler : sp_blocked cfg mc req = false -> In (sp_handler_out cfg h mc req) outs.
    Proof.
      intros H. rewrite outs_request, H. do 6 (apply in_or_app; right). left. reflexivity.
    Qed.

    (* ---- the option edits do not change what the checks look at ---- *)
    Lemma adj_has : forall n, dp_has n (sp_adjusted cfg req) = dp_has n opts.
    Proof.
      intros n. unfold sp_adjusted. destruct (sp_mine cfg req); [apply fix_has|].
      destruct (dp_find DP_HOP_LIMIT (sp_fix_block2 req)); [|apply fix_has].
      rewrite dp_has_update. apply fix_has.
    Qed.

    Lemma adj_find : forall n, n <> DP_BLOCK2 -> n <> DP_HOP_LIMIT ->
      dp_find n (sp_adjusted cfg req) = dp_find n opts.
    Proof.
      intros n H1 H2. unfold sp_adjusted. destruct (sp_mine cfg req); [apply fix_find; exact H1|].
      destruct (dp_find DP_HOP_LIMIT (sp_fix_block2 req)); [|apply fix_find; exact H1].
      rewrite dp_find_update_other by exact H2. apply fix_find; exact H1.
    Qed.

    Lemma adj_path : dp_uri_path cfg (sp_adjusted cfg req) = dp_uri_path cfg opts.
    Proof.
      unfold sp_adjusted. destruct (sp_mine cfg req); [apply fix_path|].
      destruct (dp_find DP_HOP_LIMIT (sp_fix_block2 req)); [|apply fix_path].
      rewrite dp_uri_path_update by discriminate. apply fix_path.
    Qed.

    Lemma fail_adj : forall rf c,
      dp_fail cfg mc (sp_req' cfg req) rf c = dp_fail cfg mc req rf c.
    Proof.
      intros. apply dp_fail_indep; try reflexivity.
      unfold sp_req'. cbn [m_opts]. apply adj_find; discriminate.
    Qed.

    Lemma fail_fix : forall rf c,
      dp_fail cfg mc (mkMsg ty code (m_mid req) (m_token req) (sp_fix_block2 req) (m_payload req)) rf c
      = dp_fail cfg mc req rf c.
    Proof.
      intros. apply dp_fail_indep; try reflexivity.
      cbn [m_opts]. apply fix_find; discriminate.
    Qed.

    (* ---- from the resource found to the end ---- *)
    Lemma run_allowed :
      sp_found cfg req = true ->
      sp_oscore_drop cfg req = false -> sp_long_token req = false ->
      mc && (ty =? NR_CON) = false -> sp_async cfg req = false ->
      sp_applies cfg mc req E402 = false -> sp_applies cfg mc req E505 = false ->
      sp_applies cfg mc req E508 = false -> sp_applies cfg mc req E400 = false ->
      In (dp_run cfg h mc (sp_req' cfg req) (sp_target cfg req)) outs.
    Proof.
      intros Hf Hos Hlt Hmc Has H402 H505 H508 H400.
      assert (H404 : sp_applies cfg mc req E404 = false).
      { cbn [sp_applies]. rewrite Hf. cbn [negb]. now rewrite andb_false_r. }
      assert (H202 : sp_applies cfg mc req E202 = false).
      { cbn [sp_applies]. rewrite Hf. cbn [negb]. now rewrite andb_false_r. }
      unfold dp_run.
      replace (m_code (sp_req' cfg req)) with code by reflexivity.
      replace (m_opts (sp_req' cfg req)) with (sp_adjusted cfg req) by reflexivity.
      rewrite !adj_has. rewrite !fail_adj.
      set (t := sp_target cfg req).
      destruct (nr_flag (dp_target_flags t) DP_F_OSCORE_ONLY) eqn:E1.
      { replace (Some (dp_target_flags t)) with (sp_rflags cfg req E401)
          by (cbn [sp_rflags]; rewrite Hf; reflexivity).
        apply (in_err_plain E401); [discriminate|]. cbn [sp_applies]. fold t. rewrite Hf, E1. reflexivity. }
      destruct (dp_target_plain t && dp_has DP_IF_NONE_MATCH opts) eqn:E2.
      { replace (Some (dp_target_flags t)) with (sp_rflags cfg req E412)
          by (cbn [sp_rflags]; rewrite Hf; reflexivity).
        apply (in_err_plain E412); [discriminate|]. cbn [sp_applies]. exact E2. }
      destruct (negb (dp_has_method (dp_target_mask t) code)) eqn:E3.
      { replace (Some (dp_target_flags t)) with (sp_rflags cfg req E405)
          by (cbn [sp_rflags]; rewrite Hf; reflexivity).
        apply (in_err_plain E405); [discriminate|]. cbn [sp_applies]. fold t. fold code.
        rewrite Hf, E3. reflexivity. }
      destruct ((code =? 5) && negb (dp_has DP_CONTENT_FORMAT opts)) eqn:E4.
      { replace (Some (dp_target_flags t)) with (sp_rflags cfg req E415)
          by (cbn [sp_rflags]; rewrite Hf; reflexivity).
        apply (in_err_plain E415); [discriminate|]. cbn [sp_applies]. exact E4. }
      destruct (c_mpr cfg && negb (nr_flag (dp_target_flags t) NR_F_HAS_MCAST) && mc) eqn:E5.
      { replace (Some (dp_target_flags t)) with (sp_rflags cfg req E405)
          by (cbn [sp_rflags]; rewrite Hf; reflexivity).
        apply (in_err_plain E405); [discriminate|]. cbn [sp_applies]. fold t. fold code.
        rewrite Hf. cbn [andb]. apply orb_true_iff. right.
        destruct (c_mpr cfg), mc, (nr_flag (dp_target_flags t) NR_F_HAS_MCAST); cbn in *; congruence. }
      (* the handler runs *)
      change (dp_invoke cfg h mc (sp_req' cfg req) t) with (sp_handler_out cfg h mc req).
      apply in_handler. unfold sp_blocked. fold ty. rewrite Hos, Hlt, Hmc, Has. cbn [orb].
      unfold dp_all_errs. cbn [existsb]. rewrite H402, H505, H508, H400, H404, H202. cbn [orb].
      cbn [sp_applies]. fold t. fold code. fold opts. rewrite Hf, E1, E2, E3, E4. cbn [andb orb].
      rewrite orb_false_r.
      destruct (c_mpr cfg), mc, (nr_flag (dp_target_flags t) NR_F_HAS_MCAST); cbn in *; congruence.
    Qed.


    (* ---- look-up ---- *)
    Lemma lookup_allowed :
      sp_oscore_drop cfg req = false -> sp_long_token req = false ->
      mc && (ty =? NR_CON) = false -> sp_async cfg req = false ->
      sp_applies cfg mc req E402 = false -> sp_applies cfg mc req E505 = false ->
      sp_applies cfg mc req E508 = false -> sp_applies cfg mc req E400 = false ->
      (sp_forward cfg req = true -> sp_has_proxy cfg = true) ->
      In (dp_hr_lookup cfg h mc (sp_req' cfg req) (sp_forward cfg req)) outs.
    Proof.
      intros Hos Hlt Hmc Has H402 H505 H508 H400 Hfp.
      unfold dp_hr_lookup.
      replace (m_code (sp_req' cfg req)) with code by reflexivity.
      replace (m_opts (sp_req' cfg req)) with (sp_adjusted cfg req) by reflexivity.
      rewrite adj_path.
      change (dp_lookup cfg (sp_forward cfg req) code (dp_uri_path cfg opts)) with (sp_target cfg req).
      destruct (sp_target cfg req) eqn:Et.
      + rewrite <- Et. apply run_allowed; auto. unfold sp_found. now rewrite Et.
      + rewrite <- Et. apply run_allowed; auto. unfold sp_found. now rewrite Et.
      + rewrite <- Et. apply run_allowed; auto. unfold sp_found. now rewrite Et.
      + rewrite <- Et. apply run_allowed; auto. unfold sp_found. now rewrite Et.
      + (* nothing found *)
        rewrite fail_adj.
        assert (Hnf : sp_forward cfg req = false).
        { destruct (sp_forward cfg req) eqn:Ef; [|reflexivity].
          specialize (Hfp eq_refl). unfold sp_target, dp_lookup in Et. rewrite Ef in Et.
          unfold sp_has_proxy in Hfp. destruct (c_prx cfg) as [[[? ?] ?]|]; discriminate. }
        destruct (code =? 4) eqn:E4.
        * apply (in_err_plain E202); [discriminate|]. cbn [sp_applies]. unfold sp_found.
          rewrite Hnf, Et. fold code. rewrite E4. reflexivity.
        * apply (in_err_plain E404); [discriminate|]. cbn [sp_applies]. unfold sp_found.
          rewrite Hnf, Et. fold code. rewrite E4. reflexivity.
    Qed.

    Let req1 := mkMsg ty code (m_mid req) (m_token req) (sp_fix_block2 req) (m_payload req).

    (* ---- Hop-Limit ---- *)
    Lemma cont_allowed :
      sp_oscore_drop cfg req = false -> sp_long_token req = false ->
      mc && (ty =? NR_CON) = false -> sp_async cfg req = false ->
      sp_applies cfg mc req E402 = false -> sp_applies cfg mc req E505 = false ->
      (sp_forward cfg req = true -> sp_has_proxy cfg = true) ->
      In (dp_hr_cont cfg h mc req1 (sp_forward cfg req) (sp_mine cfg req)) outs.
    Proof.
      intros Hos Hlt Hmc Has H402 H505 Hfp.
      unfold dp_hr_cont, req1. cbn [m_opts m_code m_type m_mid m_token m_payload].
      pose proof (fix_find DP_HOP_LIMIT ltac:(discriminate)) as Hh.
      destruct (sp_mine cfg req) eqn:Em.
      - assert (Hadj : sp_fix_block2 req = sp_adjusted cfg req)
          by (unfold sp_adjusted; rewrite Em; reflexivity).
        rewrite Hadj. apply lookup_allowed; auto; cbn [sp_applies]; rewrite Em; reflexivity.
      - destruct (dp_find DP_HOP_LIMIT (sp_fix_block2 req)) as [v|] eqn:Ev.
        + cbn zeta. destruct (dp_decode v =? 1) eqn:E1.
          * rewrite fail_fix. apply (in_err_plain E508); [discriminate|].
            cbn [sp_applies]. unfold sp_hop. fold opts. rewrite <- Hh, Em, E1. reflexivity.
          * destruct ((dp_decode v <? 1) || (255 <? dp_decode v)) eqn:E2.
            -- rewrite fail_fix. apply (in_err_plain E400); [discriminate|].
               cbn [sp_applies]. unfold sp_hop. fold opts. rewrite <- Hh, Em, E2. reflexivity.
            -- assert (Hadj : dp_update DP_HOP_LIMIT (dp_encode (dp_decode v - 1)) (sp_fix_block2 req)
                              = sp_adjusted cfg req)
                 by (unfold sp_adjusted; rewrite Em, Ev; reflexivity).
               rewrite Hadj. apply lookup_allowed; auto; cbn [sp_applies]; unfold sp_hop; fold opts;
                 rewrite <- Hh, Em; cbn [negb andb]; assumption.
        + assert (Hadj : sp_fix_block2 req = sp_adjusted cfg req)
            by (unfold sp_adjusted; rewrite Em, Ev; reflexivity).
          rewrite Hadj. apply lookup_allowed; auto; cbn [sp_applies]; unfold sp_hop; fold opts;
            rewrite <- Hh, Em; reflexivity.
    Qed.

    (* ---- handle_request() ---- *)
    Lemma handle_allowed :
      cs_ok s = true -> sp_oscore_drop cfg req = false -> sp_long_token req = false ->
      In (dp_handle_request cfg h mc (sp_fwd_critical cfg req) req1) outs.
    Proof.
      intros Hok Hos Hlt.
      assert (Hbad : sp_bad_options cfg req = false).
      { pose proof scan_ok as H. rewrite Hok in H. destruct (sp_bad_options cfg req); [discriminate|reflexivity]. }
      pose proof cont_allowed as HC. unfold req1 in HC.
      unfold dp_handle_request, req1.
      cbn [m_opts m_code m_type m_mid m_token m_payload].
      rewrite !fix_has. rewrite (fix_find DP_URI_HOST) by discriminate.
      rewrite !fail_fix.
      destruct (mc && negb (ty =? NR_NON)) eqn:Emc.
      { apply in_mcast_con. unfold is_conn in Hconn.
        destruct mc, (ty =? NR_CON), (ty =? NR_NON); cbn in *; congruence. }
      assert (Hmc : mc && (ty =? NR_CON) = false).
      { unfold is_conn in Hconn.
        destruct mc; [|reflexivity]. cbn [andb negb] in *.
        destruct (ty =? NR_NON) eqn:E1; [|discriminate].
        destruct (ty =? NR_CON) eqn:E0; [|reflexivity].
        unfold NR_CON, NR_NON in *. apply Z.eqb_eq in E1. apply Z.eqb_eq in E0. congruence. }
      change (dp_async_pending cfg (mkMsg ty code (m_mid req) (m_token req) (sp_fix_block2 req) (m_payload req)))
        with (sp_async cfg req).
      destruct (sp_async cfg req) eqn:Has.
      { apply in_async; [exact Has|].
        change (dp_eack (mkMsg ty code (m_mid req) (m_token req) (sp_fix_block2 req) (m_payload req)))
          with (dp_eack req).
        destruct (ty =? NR_CON); [right; left; reflexivity|left; reflexivity]. }
      destruct (dp_has DP_PROXY_SCHEME opts && negb (dp_has DP_URI_HOST opts)) eqn:Eps.
      { apply (in_err E402).
        - cbn [sp_applies]. fold opts. rewrite Eps. now rewrite orb_true_r.
        - unfold sp_emit. apply in_or_app. right. left. reflexivity. }
      destruct (dp_has DP_PROXY_SCHEME opts || dp_has DP_PROXY_URI opts) eqn:Epx.
      2: { (* no proxy option *)
        apply orb_false_iff in Epx as [E39 E35].
        assert (Hm : sp_mine cfg req = false) by (unfold sp_mine; fold opts; rewrite E39; reflexivity).
        assert (Hf : sp_forward cfg req = false)
          by (unfold sp_forward, sp_proxy_req; fold opts; rewrite E39, E35; reflexivity).
        rewrite Hm, Hf in HC. apply HC; auto.
        - cbn [sp_applies]. fold opts. rewrite Hbad, Eps, Hm. reflexivity.
        - cbn [sp_applies]. unfold sp_proxy_req. fold opts. rewrite E39, E35. reflexivity.
        - discriminate. }
      assert (Hpr : sp_proxy_req req = true)
        by (unfold sp_proxy_req; fold opts; rewrite orb_comm; exact Epx).
      destruct (c_prx cfg) as [[[pmask pflags] names]|] eqn:Eprx.
      2: { apply (in_err_plain E505); [discriminate|]. cbn [sp_applies]. rewrite Hpr, Eprx. reflexivity. }
      destruct ((code <=? 7) && negb (dp_has_method pmask code)) eqn:Em.
      { apply (in_err_plain E505); [discriminate|]. cbn [sp_applies]. rewrite Hpr, Eprx. fold code.
        rewrite Em. reflexivity. }
      assert (H35 : dp_has DP_PROXY_URI opts = false).
      { destruct Hscope as [Hs _]. apply Hs. unfold sp_has_proxy. rewrite Eprx. reflexivity. }
      rewrite H35. rewrite H35 in Epx. rewrite orb_false_r in Epx.
      assert (H505 : sp_applies cfg mc req E505 = false).
      { cbn [sp_applies]. rewrite Hpr, Eprx. fold code. rewrite Em. reflexivity. }
      assert (Hhp : sp_forward cfg req = true -> sp_has_proxy cfg = true).
      { intros _. unfold sp_has_proxy. rewrite Eprx. reflexivity. }
      (* is this server the endpoint named by Uri-Host? *)
      assert (Hmine : sp_mine cfg req =
              ((0 <? len (match dp_find DP_URI_HOST opts with Some v => v | None => [] end)) &&
               (0 <? len names) &&
               (match names with
                | [[]] => true
                | _ => existsb (dp_bytes_eqb (match dp_find DP_URI_HOST opts with Some v => v | None => [] end)) names
                end))).
      { unfold sp_mine. fold opts. rewrite Epx, H35, Eprx. cbn [negb andb].
        destruct (dp_find DP_URI_HOST opts); reflexivity. }
      cbn zeta.
      match goal with |- In (if ?c then _ else _) _ =>
        assert (Hc : c = sp_mine cfg req) by (symmetry; exact Hmine); rewrite Hc; clear Hc end.
      rewrite ?fail_fix.
      destruct (sp_mine cfg req) eqn:Emi.
      - destruct (sp_fwd_critical cfg req) eqn:Efc.
        + apply (in_err E402).
          * cbn [sp_applies]. rewrite Emi, Efc. now rewrite orb_true_r.
          * unfold sp_emit. apply in_or_app. right. apply in_or_app. right. rewrite Eprx. left. reflexivity.
        + assert (Hf : sp_forward cfg req = false) by (unfold sp_forward; rewrite Emi, Hpr; reflexivity).
          rewrite Hf in HC. apply HC; auto; [|discriminate].
          cbn [sp_applies]. fold opts. rewrite Hbad, Eps, Emi, Efc. reflexivity.
      - assert (Hf : sp_forward cfg req = true) by (unfold sp_forward; rewrite Emi, Hpr; reflexivity).
        rewrite Hf in HC. apply HC; auto.
        cbn [sp_applies]. fold opts. rewrite Hbad, Eps, Emi. reflexivity.
    Qed.
  End Request.

  Lemma outs_bad : is_conn -> dp_bad_class code = true -> outs = sp_reject mc req.
  Proof.
    intros Hc Hb. unfold outs, dp_allowed_outs. fold ty code. unfold is_conn in Hc.
    rewrite Hc, Hb. reflexivity.
  Qed.

  Lemma outs_resp : is_conn -> dp_bad_class code = false -> dp_is_response code = true ->
    outs = sp_reject mc req ++ (if ty =? NR_CON then [[dp_eack req]] else []).
  Proof.
    intros Hc Hb Hr. unfold outs, dp_allowed_outs. fold ty code. unfold is_conn in Hc.
    rewrite Hc, Hb, Hr. reflexivity.
  Qed.

  Lemma outs_other : is_conn -> dp_bad_class code = false -> dp_is_response code = false ->
    dp_is_request code = false -> outs = sp_reject mc req.
  Proof.
    intros Hc Hb Hr Hq. unfold outs, dp_allowed_outs. fold ty code. unfold is_conn in Hc.
    rewrite Hc, Hb, Hr, Hq. reflexivity.
  Qed.

  (* a rejected message: whatever the code, a Reset-or-nothing is allowed for CON / NON *)
  Lemma reject_in_outs : forall x, is_conn -> dp_is_request code = false ->
    In x (sp_reject mc req) -> In x outs.
  Proof.
    intros x Hc Hq Hx.
    destruct (dp_bad_class code) eqn:Eb; [rewrite outs_bad; auto|].
    destruct (dp_is_response code) eqn:Er.
    - rewrite outs_resp by auto. apply in_or_app. left. exact Hx.
    - rewrite outs_other by auto. exact Hx.
  Qed.

  Theorem serve_allowed : In (dp_serve cfg h mc req) outs.
  Proof.
    unfold dp_serve. fold ty code.
    destruct ((ty =? NR_CON) || (ty =? NR_NON)) eqn:Econn.
    2: { (* ACK / RST: every branch yields nothing *)
      apply orb_false_iff in Econn as [E0 E1]. rewrite E0, E1.
      assert (Hn : In [] outs) by (apply outs_not_conn; rewrite E0, E1; reflexivity).
      destruct (dp_bad_class code); [exact Hn|].
      cbn zeta.
      destruct (negb (cs_ok (dp_check_critical cfg req))); [exact Hn|].
      destruct (dp_oscore_drop cfg code (dp_fix_block2 cfg req)); [exact Hn|].
      assert (Et : (ty =? NR_ACK) || (ty =? NR_RST) = true).
      { unfold NR_CON, NR_NON, NR_ACK, NR_RST, ty in *. lia. }
      rewrite Et. exact Hn. }
    assert (Hconn : is_conn) by exact Econn.
    destruct (dp_bad_class code) eqn:Ecls.
    { rewrite outs_bad by auto. destruct (ty =? NR_CON); [apply rst_in_reject|apply nil_in_reject]. }
    pose proof scan_ok as Hs1. pose proof scan_crit as Hs2. pose proof scan_block2 as Hs3.
    cbn zeta. fold s.
    destruct (cs_ok s) eqn:Eok; cbn [negb].
    - (* all options acceptable *)
      rewrite (Hs3 eq_refl). rewrite fix_oscore. rewrite (Hs2 eq_refl).
      destruct (sp_oscore_drop cfg req) eqn:Eos.
      { destruct (dp_is_request code) eqn:Eq; [apply in_oscore; auto|].
        apply reject_in_outs; auto. apply nil_in_reject. }
      destruct ((ty =? NR_ACK) || (ty =? NR_RST)) eqn:Ear.
      { exfalso. unfold NR_CON, NR_NON, NR_ACK, NR_RST in *.
        destruct (ty =? 0) eqn:A0; destruct (ty =? 1) eqn:A1; destruct (ty =? 2) eqn:A2;
          destruct (ty =? 3) eqn:A3; cbn in *; try discriminate;
          repeat match goal with H : (_ =? _) = true |- _ => apply Z.eqb_eq in H end; congruence. }
      destruct (dp_is_request code) eqn:Eq.
      + destruct (8 <? len (m_token req)) eqn:Elt.
        * apply in_long; auto. apply rst_in_reject.
        * apply handle_allowed; auto.
      + destruct (dp_is_response code) eqn:Er.
        * rewrite outs_resp by auto. apply in_or_app.
          destruct (ty =? NR_CON); [right; left; reflexivity|left; apply nil_in_reject].
        * apply reject_in_outs; auto.
          destruct (code =? 0); [apply rst_in_reject|].
          destruct (ty =? NR_CON); [apply rst_in_reject|apply nil_in_reject].
    - (* an unknown critical or illegally repeated option *)
      assert (Hbad : sp_bad_options cfg req = true) by (destruct (sp_bad_options cfg req); [reflexivity|discriminate]).
      destruct (ty =? NR_NON) eqn:E1.
      { destruct (dp_is_request code) eqn:Eq.
        - apply in_non_bad; auto; [rewrite E1, Hbad; reflexivity|apply rst_in_reject].
        - apply reject_in_outs; auto. apply rst_in_reject. }
      rewrite orb_false_r in Econn. rewrite Econn.
      destruct (dp_is_request code) eqn:Eq.
      + apply (in_err Hconn Ecls Eq E402).
        * cbn [sp_applies]. rewrite Hbad. reflexivity.
        * unfold sp_emit. fold ty. rewrite Econn. apply in_or_app. left. left.
          unfold sp_err402_direct. reflexivity.
      + apply reject_in_outs; auto. apply rst_in_reject.
  Qed.
End Main.

(* C07 - Each request concludes exactly once despite loss, duplication and delay.

   Objects (coq/Exchange/):
     Exchange.v   the client side of an exchange as libcoap implements it (handle_response,
                  the ACK/RST/NON/CON branches of coap_dispatch, the retransmission counter),
                  executable, run against the library on every check
     System.v     the closed system: that client + an abstract server with the response styles
                  of the quantifier (piggybacked; separate CON / NON at once; coap_register_async
                  with a CON / NON response; its own retransmission of CON responses) + a network
                  that loses, duplicates, delays, reorders.  A schedule is a list of ex_act.
     Spec.v       the property on observed client traces: ex_P_once, ex_P_token, ex_P_stops,
                  ex_P_conack, ex_P_dup, ex_P_non
     Accept.v     the acceptor accepts_c07 that judges the traces observed at the real library
   Statements only; proofs in Exchange/AcceptProofs.v, SystemProofs.v, GuardProofs.v, Refute.v,
   LiveProofs.v. *)
From LibcoapV Require Import Base.Tactics Exchange.Exchange Exchange.Accept Exchange.Spec
  Exchange.AcceptProofs Exchange.System Exchange.SystemProofs Exchange.GuardProofs
  Exchange.Refute Exchange.LiveProofs Exchange.ClientProofs.
Local Open Scope Z_scope.

(* The acceptor is sound: whatever produced the trace (the model, the real library under the
   scripted network), acceptance implies all six clauses of the property. *)
Theorem C07_acceptor_sound : forall t, accepts_c07 t = true -> ex_property t.
Proof. exact ex_accepts_sound. Qed.
Print Assumptions C07_acceptor_sound.

(* Safety that needs no hypothesis: for EVERY configuration of the system (server that
   re-processes retransmitted requests or not, exchanges pipelined behind stale datagrams or
   not, impatient give-up or not), every initial message id and EVERY schedule:
   the handler sees the token of a request that was sent (for a piggybacked response: of the
   request with that mid) ... *)
Theorem C07_handler_token : forall cf cmid0 smid0 acts,
  ex_P_token (ex_sys_trace cf (ex_sys_init cmid0 smid0) acts).
Proof. exact ex_system_token. Qed.
Print Assumptions C07_handler_token.

(* ... after a piggybacked, separate or Non-confirmable response for a token was handled (or
   its NACK given) no request with that token is transmitted again ... *)
Theorem C07_response_stops_rtx : forall cf cmid0 smid0 acts,
  ex_P_stops (ex_sys_trace cf (ex_sys_init cmid0 smid0) acts).
Proof. exact ex_system_stops. Qed.
Print Assumptions C07_response_stops_rtx.

(* ... every Confirmable response received is answered in the same step by exactly one ACK, or
   RST when the handler's verdict was FAIL, after the handler; a duplicate (the mid of the
   previously delivered response) is not delivered again and is answered as the first time ... *)
Theorem C07_con_acked : forall cf cmid0 smid0 acts,
  ex_P_conack (ex_sys_trace cf (ex_sys_init cmid0 smid0) acts) /\
  ex_P_dup (ex_sys_trace cf (ex_sys_init cmid0 smid0) acts).
Proof. exact ex_system_conack. Qed.
Print Assumptions C07_con_acked.

(* ... and a Non-confirmable response is delivered exactly once per datagram received. *)
Theorem C07_non_once : forall cf cmid0 smid0 acts,
  ex_P_non (ex_sys_trace cf (ex_sys_init cmid0 smid0) acts).
Proof. exact ex_system_non. Qed.
Print Assumptions C07_non_once.

(* The same three clauses hold for the client against ANY peer - every client state, every
   input sequence, no honesty assumption on the datagrams (scripted-peer tier of the check). *)
Theorem C07_client_con_acked : forall maxr c ins,
  ex_P_conack (snd (ex_cli_run maxr c ins)).
Proof. exact ex_client_conack. Qed.
Print Assumptions C07_client_con_acked.

Theorem C07_client_dup : forall maxr c ins, ex_P_dup (snd (ex_cli_run maxr c ins)).
Proof. exact ex_client_dup. Qed.
Print Assumptions C07_client_dup.

Theorem C07_client_non_once : forall maxr c ins, ex_P_non (snd (ex_cli_run maxr c ins)).
Proof. exact ex_client_non. Qed.
Print Assumptions C07_client_non_once.

(* The duplicate filter, exactly (formal content of the signature of finding C07-F1): for every
   client state and every input sequence, a Confirmable response with the mid of one that was
   delivered is delivered again only if a Confirmable response with another mid was delivered in
   between; a piggybacked response only if a piggybacked response with another mid was delivered,
   or a new request took that mid, in between. *)
Theorem C07_client_con_filter : forall maxr c ins t1 s k ok st a t2 k' ok' outs' t3,
  snd (ex_cli_run maxr c ins) =
    t1 ++ (ExRx (ExConR s k) ok, [ExResp 0 s k st; ExTx a]) :: t2 ++
    (ExRx (ExConR s k') ok', outs') :: t3 ->
  (forall o, In o t2 -> ex_delivers_kind 0 o = false) ->
  ex_delivers_kind 0 (ExRx (ExConR s k') ok', outs') = false.
Proof. exact ex_client_con_filter. Qed.
Print Assumptions C07_client_con_filter.

Theorem C07_client_ack_filter : forall maxr c ins t1 s k ok st t2 k' ok' outs' t3,
  snd (ex_cli_run maxr c ins) =
    t1 ++ (ExRx (ExAckR s k) ok, [ExResp 2 s k st]) :: t2 ++ (ExRx (ExAckR s k') ok', outs') :: t3 ->
  (forall o, In o t2 -> ex_delivers_kind 2 o = false /\ ex_sends_mid s o = false) ->
  outs' = [].
Proof. exact ex_client_ack_filter. Qed.
Print Assumptions C07_client_ack_filter.

(* "Never both, never twice".  Full-strength statement (all configurations):
     forall cf cmid0 smid0 acts, ex_P_once (ex_sys_trace cf (ex_sys_init cmid0 smid0) acts)
   is FALSE for the faithful model - see the three _refuted theorems below, each replayed on
   the real library (corpus/C07/f1_*.case, f2_*.case, f3_*.case; known findings C07-F1..F3).
   What holds, for every retransmission limit, all initial message ids and every schedule, is
   at-most-once under the three hypotheses of System.v: the server processes a request once,
   the application sends when no datagram of an earlier exchange is in flight, the give-up
   timer fires when nothing of the exchange is left.  Each hypothesis is necessary. *)
Theorem C07_at_most_once_under_hyps : forall maxr cmid0 smid0 acts,
  ex_P_once (ex_sys_trace (ex_cfg_guarded maxr) (ex_sys_init cmid0 smid0) acts).
Proof. exact ex_system_once. Qed.
Print Assumptions C07_at_most_once_under_hyps.

(* the whole property under the hypotheses *)
Theorem C07_property_under_hyps : forall maxr cmid0 smid0 acts,
  ex_property (ex_sys_trace (ex_cfg_guarded maxr) (ex_sys_init cmid0 smid0) acts).
Proof. exact ex_system_safe. Qed.
Print Assumptions C07_property_under_hyps.

(* ... and so is "the server's message ids do not wrap within the run" (finding C07-F5b): a
   separate Confirmable response with mid 7000 is delivered; 65535 exchanges answered by separate
   Non-confirmable responses follow; the next separate Confirmable response carries mid 7000 again:
   it is discarded as a duplicate (and acknowledged), the request is gone from the send queue -
   neither handler nor NACK.  Client model with an honest echoing peer; replayed on the real
   client on every run (exw 65535 100 1). *)
Theorem C07_concludes_refuted_peer_mid_wrap :
  ex_wrap_summary (ex_wrap_inputs_con (Z.to_nat 65535)) =
  ((ExRx (ExConR 7000 131073) true, [ExTx (ExAckE 7000)]), None).
Proof. exact ex_wrap_peer_refuted. Qed.
Print Assumptions C07_concludes_refuted_peer_mid_wrap.

(* the client's own message ids may wrap (after the fix of finding C07-F5a the hypothesis is not
   needed: C07_concludes has none on cmid0); the schedule that lost a request before the fix - a
   piggybacked exchange, 65535 exchanges answered separately, then the request that re-uses mid
   101 - now ends in the handler call *)
Theorem C07_own_mid_wrap_delivered :
  ex_wrap_summary (ex_wrap_inputs (Z.to_nat 65535)) =
  ((ExRx (ExAckR 101 131072) true, [ExResp 2 101 131072 131072]), None).
Proof. exact ex_wrap_own_delivered. Qed.
Print Assumptions C07_own_mid_wrap_delivered.

(* "forall schedule, accepts (run M schedule) = true": the acceptor that judges the real
   library's traces accepts every behaviour of the guarded model (it is not vacuous), and the
   same judge without clause 2 accepts every behaviour of every configuration *)
Theorem C07_model_accepted : forall maxr cmid0 smid0 acts,
  accepts_c07 (ex_sys_trace (ex_cfg_guarded maxr) (ex_sys_init cmid0 smid0) acts) = true.
Proof. exact ex_system_accepted. Qed.
Print Assumptions C07_model_accepted.

Theorem C07_model_accepted_lenient : forall cf cmid0 smid0 acts,
  ex_judge_lenient (ex_sys_trace cf (ex_sys_init cmid0 smid0) acts) = 0.
Proof. exact ex_system_lenient. Qed.
Print Assumptions C07_model_accepted_lenient.

(* without "the application sends when the network is quiet": a delayed duplicate of the
   previous exchange's response is delivered again after the next response overwrote the
   single-slot filter (last_ack_mid resp. last_con_mid) *)
Theorem C07_at_most_once_refuted_pipelined :
  exists acts k,
    ex_concl_count k (ex_sys_trace (Build_ex_cfg 4 true false true) (ex_sys_init 100 7000) acts) = 2%nat.
Proof. exact ex_once_refuted_quiet. Qed.
Print Assumptions C07_at_most_once_refuted_pipelined.

Theorem C07_at_most_once_refuted_pipelined_con :
  exists acts k,
    ex_concl_count k (ex_sys_trace (Build_ex_cfg 4 true false true) (ex_sys_init 100 7000) acts) = 2%nat.
Proof. exact ex_once_refuted_quiet_con. Qed.
Print Assumptions C07_at_most_once_refuted_pipelined_con.

(* without "the server processes a request once": a second separate response with a new mid *)
Theorem C07_at_most_once_refuted_reprocessing :
  exists acts k,
    ex_concl_count k (ex_sys_trace (Build_ex_cfg 4 false true true) (ex_sys_init 100 7000) acts) = 2%nat.
Proof. exact ex_once_refuted_dedup. Qed.
Print Assumptions C07_at_most_once_refuted_reprocessing.

(* without "give-up only when nothing is left": NACK, then the async response *)
Theorem C07_at_most_once_refuted_late_response :
  exists acts k,
    ex_concl_count k (ex_sys_trace (Build_ex_cfg 4 true true false) (ex_sys_init 100 7000) acts) = 2%nat.
Proof. exact ex_once_refuted_patient. Qed.
Print Assumptions C07_at_most_once_refuted_late_response.

(* "Never neither once the network is quiet".  Under the same three hypotheses and message ids
   of the server's session that do not wrap within the run (the client's own may), for every
   schedule: when the system is at rest (nothing in
   flight, no work at the server, empty send queue) every request the application sent was
   answered (response handler or NACK for its token), unless its response was irrecoverably lost -
   ex_lost_run collects the tokens whose Non-confirmable response the network dropped and those
   whose Confirmable response the server gave up on after max_retransmit + 1 transmissions.
   This is the property's fairness hypothesis ("not all MAX_RETRANSMIT+1 transmissions of one
   Confirmable lost"; a NON is sent once) made explicit; C07_concludes_needs_fairness shows it
   cannot be dropped. *)
Theorem C07_concludes : forall maxr cmid0 smid0 acts,
  0 <= smid0 -> smid0 + Z.of_nat (length acts) < 65536 ->
  let cf := ex_cfg_guarded maxr in
  let y0 := ex_sys_init cmid0 smid0 in
  let r := ex_sys_run cf y0 acts in
  ex_at_rest (fst r) = true ->
  forall mid k, ex_sent_req mid k (snd r) ->
    ex_answered k (snd r) \/ In k (ex_lost_run cf y0 acts).
Proof. exact ex_system_live. Qed.
Print Assumptions C07_concludes.

(* exactly once: with nothing irrecoverably lost, at rest every token was answered, and (by
   C07_at_most_once_under_hyps) concluded at most once *)
Theorem C07_exactly_once : forall maxr cmid0 smid0 acts,
  0 <= smid0 -> smid0 + Z.of_nat (length acts) < 65536 ->
  let cf := ex_cfg_guarded maxr in
  let y0 := ex_sys_init cmid0 smid0 in
  let r := ex_sys_run cf y0 acts in
  ex_at_rest (fst r) = true -> ex_lost_run cf y0 acts = [] ->
  forall mid k, ex_sent_req mid k (snd r) ->
    ex_answered k (snd r) /\ (ex_concl_count k (snd r) <= 1)%nat.
Proof. exact ex_system_exactly_once. Qed.
Print Assumptions C07_exactly_once.

(* the fairness hypothesis is needed: the NON response is lost, the empty ACK arrives, the
   system comes to rest and the token was never answered *)
Theorem C07_concludes_needs_fairness :
  exists acts,
    let r := ex_sys_run (ex_cfg_guarded 4) (ex_sys_init 100 7000) acts in
    ex_at_rest (fst r) = true /\ ex_sent_req 101 1 (snd r) /\
    ex_lost_run (ex_cfg_guarded 4) (ex_sys_init 100 7000) acts = [1] /\
    forall o out, In o (snd r) -> In out (snd o) -> ex_out_ends 1 out = false.
Proof. exact ex_live_needs_fairness. Qed.
Print Assumptions C07_concludes_needs_fairness.

(* the same with loss only and a server that answers at once: its retransmission of the separate
   response outlives the client's give-up *)
Theorem C07_at_most_once_refuted_late_retransmission :
  exists acts k,
    ex_concl_count k (ex_sys_trace (Build_ex_cfg 4 true true false) (ex_sys_init 100 7000) acts) = 2%nat.
Proof. exact ex_once_refuted_patient_loss. Qed.
Print Assumptions C07_at_most_once_refuted_late_retransmission.

(* non-vacuity: under the hypotheses exchanges do take place - a concrete schedule with a lost
   empty ACK, a retransmission, a duplicated separate response and a FAIL verdict yields one
   handler call for the token, one RST, then an ACK-less duplicate answered by RST again *)
Theorem C07_nonvacuous :
  let t := ex_sys_trace (ex_cfg_guarded 4) (ex_sys_init 100 7000)
             [ExASend 1; ExADelS 0; ExADropC 1; ExATimer; ExADupC 0; ExADelC 0 false;
              ExADelC 0 true; ExADelS 0; ExADelS 0; ExADelS 0] in
  ex_concl_count 1 t = 1%nat /\
  In (ExRx (ExConR 7001 1) false, [ExResp 0 7001 1 (-1); ExTx (ExRst 7001)]) t /\
  In (ExRx (ExConR 7001 1) true, [ExTx (ExRst 7001)]) t /\
  accepts_c07 t = true.
Proof. exact ex_nonvacuous. Qed.
Print Assumptions C07_nonvacuous.

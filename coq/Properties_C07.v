(* C07 - Each request concludes exactly once despite loss, duplication and delay.

   Objects (coq/Exchange/):
     Exchange.v   the client side of an exchange as libcoap implements it (handle_response,
                  the ACK/RST/NON/CON branches of coap_dispatch, the retransmission counter),
                  executable, run against the library on every check
     System.v     the closed system: that client + an abstract server with the response styles
                  of the quantifier (piggybacked; separate CON / NON at once; coap_register_async
                  with a CON / NON response; its own retransmission of CON responses) + a network
                  that loses, duplicates, delays, reorders.  A schedule is a list of ex_act.
     Spec.v       the property on observed client traces: ex_P_once, ex_P_token, ex_P_stops,
                  ex_P_conack, ex_P_dup, ex_P_non
     Accept.v     the acceptor accepts_c07 that judges the traces observed at the real library
   Statements only; proofs in Exchange/AcceptProofs.v, SystemProofs.v, GuardProofs.v, Refute.v,
   LiveProofs.v. *)
From LibcoapV Require Import Base.Tactics Exchange.Exchange Exchange.Accept Exchange.Spec
  Exchange.AcceptProofs Exchange.System Exchange.SystemProofs Exchange.GuardProofs
  Exchange.Refute.
Local Open Scope Z_scope.

(* The acceptor is sound: whatever produced the trace (the model, the real library under the
   scripted network), acceptance implies all six clauses of the property. *)
Theorem C07_acceptor_sound : forall t, accepts_c07 t = true -> ex_property t.
Proof. exact ex_accepts_sound. Qed.
Print Assumptions C07_acceptor_sound.

(* Safety that needs no hypothesis: for EVERY configuration of the system (server that
   re-processes retransmitted requests or not, exchanges pipelined behind stale datagrams or
   not, impatient give-up or not), every initial message id and EVERY schedule:
   the handler sees the token of a request that was sent (for a piggybacked response: of the
   request with that mid) ... *)
Theorem C07_handler_token : forall cf cmid0 smid0 acts,
  ex_P_token (ex_sys_trace cf (ex_sys_init cmid0 smid0) acts).
Proof. intros. apply (ex_system_local cf cmid0 smid0 acts). Qed.
Print Assumptions C07_handler_token.

(* ... after a piggybacked, separate or Non-confirmable response for a token was handled (or
   its NACK given) no request with that token is transmitted again ... *)
Theorem C07_response_stops_rtx : forall cf cmid0 smid0 acts,
  ex_P_stops (ex_sys_trace cf (ex_sys_init cmid0 smid0) acts).
Proof. intros. apply (ex_system_local cf cmid0 smid0 acts). Qed.
Print Assumptions C07_response_stops_rtx.

(* ... every Confirmable response received is answered in the same step by exactly one ACK, or
   RST when the handler's verdict was FAIL, after the handler; a duplicate (the mid of the
   previously delivered response) is not delivered again and is answered as the first time ... *)
Theorem C07_con_acked : forall cf cmid0 smid0 acts,
  ex_P_conack (ex_sys_trace cf (ex_sys_init cmid0 smid0) acts) /\
  ex_P_dup (ex_sys_trace cf (ex_sys_init cmid0 smid0) acts).
Proof.
  intros. split; apply (ex_system_local cf cmid0 smid0 acts).
Qed.
Print Assumptions C07_con_acked.

(* ... and a Non-confirmable response is delivered exactly once per datagram received. *)
Theorem C07_non_once : forall cf cmid0 smid0 acts,
  ex_P_non (ex_sys_trace cf (ex_sys_init cmid0 smid0) acts).
Proof. intros. apply (ex_system_local cf cmid0 smid0 acts). Qed.
Print Assumptions C07_non_once.

(* "Never both, never twice".  Full-strength statement (all configurations):
     forall cf cmid0 smid0 acts, ex_P_once (ex_sys_trace cf (ex_sys_init cmid0 smid0) acts)
   is FALSE for the faithful model - see the three _refuted theorems below, each replayed on
   the real library (corpus/C07/f1_*.case, f2_*.case, f3_*.case; known findings C07-F1..F3).
   What holds, for every retransmission limit, all initial message ids and every schedule, is
   at-most-once under the three hypotheses of System.v: the server processes a request once,
   the application sends when no datagram of an earlier exchange is in flight, the give-up
   timer fires when nothing of the exchange is left.  Each hypothesis is necessary. *)
Theorem C07_at_most_once_under_hyps : forall maxr cmid0 smid0 acts,
  ex_P_once (ex_sys_trace (ex_cfg_guarded maxr) (ex_sys_init cmid0 smid0) acts).
Proof. intros. apply (ex_system_safe maxr cmid0 smid0 acts). Qed.
Print Assumptions C07_at_most_once_under_hyps.

(* the whole property under the hypotheses *)
Theorem C07_property_under_hyps : forall maxr cmid0 smid0 acts,
  ex_property (ex_sys_trace (ex_cfg_guarded maxr) (ex_sys_init cmid0 smid0) acts).
Proof. exact ex_system_safe. Qed.
Print Assumptions C07_property_under_hyps.

(* without "the application sends when the network is quiet": a delayed duplicate of the
   previous exchange's response is delivered again after the next response overwrote the
   single-slot filter (last_ack_mid resp. last_con_mid) *)
Theorem C07_at_most_once_refuted_pipelined :
  exists acts k,
    ex_concl_count k (ex_sys_trace (Build_ex_cfg 4 true false true) (ex_sys_init 100 7000) acts) = 2%nat.
Proof. exact ex_once_refuted_quiet. Qed.
Print Assumptions C07_at_most_once_refuted_pipelined.

Theorem C07_at_most_once_refuted_pipelined_con :
  exists acts k,
    ex_concl_count k (ex_sys_trace (Build_ex_cfg 4 true false true) (ex_sys_init 100 7000) acts) = 2%nat.
Proof. exact ex_once_refuted_quiet_con. Qed.
Print Assumptions C07_at_most_once_refuted_pipelined_con.

(* without "the server processes a request once": a second separate response with a new mid *)
Theorem C07_at_most_once_refuted_reprocessing :
  exists acts k,
    ex_concl_count k (ex_sys_trace (Build_ex_cfg 4 false true true) (ex_sys_init 100 7000) acts) = 2%nat.
Proof. exact ex_once_refuted_dedup. Qed.
Print Assumptions C07_at_most_once_refuted_reprocessing.

(* without "give-up only when nothing is left": NACK, then the async response *)
Theorem C07_at_most_once_refuted_late_response :
  exists acts k,
    ex_concl_count k (ex_sys_trace (Build_ex_cfg 4 true true false) (ex_sys_init 100 7000) acts) = 2%nat.
Proof. exact ex_once_refuted_patient. Qed.
Print Assumptions C07_at_most_once_refuted_late_response.

(* non-vacuity: under the hypotheses exchanges do take place - a concrete schedule with a lost
   empty ACK, a retransmission, a duplicated separate response and a FAIL verdict yields one
   handler call for the token, one RST, then an ACK-less duplicate answered by RST again *)
Example C07_nonvacuous :
  let t := ex_sys_trace (ex_cfg_guarded 4) (ex_sys_init 100 7000)
             [ExASend 1; ExADelS 0; ExADropC 1; ExATimer; ExADupC 0; ExADelC 0 false;
              ExADelC 0 true; ExADelS 0; ExADelS 0; ExADelS 0] in
  ex_concl_count 1 t = 1%nat /\
  In (ExRx (ExConR 7001 1) false, [ExResp 0 7001 1 (-1); ExTx (ExRst 7001)]) t /\
  In (ExRx (ExConR 7001 1) true, [ExTx (ExRst 7001)]) t /\
  accepts_c07 t = true.
Proof. vm_compute. repeat split; auto 10. Qed.

(* C07 - placeholder while the proofs are being written *)
From LibcoapV Require Import Base.Tactics Exchange.Exchange Exchange.Accept.
Local Open Scope Z_scope.

Theorem C07_nonvacuous_piggybacked :
  accepts_c07 (snd (ex_cli_run 4 (ex_cli_init 100 0)
     [ExSend 0; ExTimer; ExRx (ExAckR 101 1) true; ExRx (ExAckR 101 1) true])) = true.
Proof. vm_compute. reflexivity. Qed.
Print Assumptions C07_nonvacuous_piggybacked.

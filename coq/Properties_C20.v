(* C20 - /.well-known/core lists exactly the registered resources in any window/filter.
   Statements only; models in Link/LinkFormat.v, proofs in Link/*Proofs.v, Link/LinkExamples.v.

   lf_print_link / lf_print_wellknown / lf_get_wellknown are the transcriptions of
   coap_print_link, coap_print_wellknown_lkd (with match(), the query split and the three
   printing macros as explicit state machines over (bytes stored, position, Offset, Result))
   and hnd_get_wellknown_lkd; lf_listing / lf_selected / lf_filter_spec / lf_window are the
   RFC 6690 specification.  LfOob = a read outside an object, LfFuel = loop bound exhausted:
   the theorems say that neither happens - for every table: there is no hypothesis on paths, attribute
   names or values. *)
From LibcoapV Require Import Base.Tactics Base.Bytes Link.LinkFormat Link.LinkProofs
  Link.FilterProofs Link.WellknownProofs Link.LinkExamples Link.LinkParse Link.LinkParseProofs.
Local Open Scope Z_scope.

(* one link, any (offset, buffer length): bytes stored = that window of "</path>;attr..;obs;osc",
   *len = length of the link, TRUNC rule, *offset decreased by what was consumed *)
Theorem C20_link_window : forall r len0 off,
  0 <= off -> 0 <= len0 <= lf_status_max ->
  lf_print_link r len0 off =
  (LfDone (len (lf_window off len0 (lf_link r))) (lf_trunc_spec off len0 (len (lf_link r))),
   lf_window off len0 (lf_link r),
   len (lf_link r),
   if 0 <? len0 then Z.max 0 (off - len (lf_link r)) else off).
Proof. exact lf_print_link_window. Qed.
Print Assumptions C20_link_window.

(* the listing: for every table, filter, offset and buffer length the bytes written are
   take buflen (drop offset listing) of the comma-joined links of the selected resources in
   registration order, the reported total is the length of that listing, the count in the
   status word is the number of bytes written, and the TRUNC bit follows lf_trunc_spec *)
Theorem C20_wellknown_window : forall rs filter off buflen,
  0 <= off -> 0 <= buflen <= lf_status_max ->
  lf_print_wellknown rs filter off buflen =
  LfVal {| lf_rstatus := LfDone (len (lf_window off buflen (lf_listing (lf_selected filter rs))))
                                (lf_trunc_spec off buflen (len (lf_listing (lf_selected filter rs))));
           lf_rbytes := lf_window off buflen (lf_listing (lf_selected filter rs));
           lf_rtotal := len (lf_listing (lf_selected filter rs)) |}.
Proof. exact lf_wellknown_window. Qed.
Print Assumptions C20_wellknown_window.

(* the same whatever bytes lie behind a path or an attribute value in its memory object
   (term = [0] for the library's copies, [] for exact-size strings handed over with the
   RELEASE flags): the code reads only inside [s, s + length) *)
Theorem C20_wellknown_window_any_storage : forall term rs filter off buflen,
  0 <= off -> 0 <= buflen <= lf_status_max ->
  lf_print_wellknown_g true term rs filter off buflen =
  LfVal {| lf_rstatus := LfDone (len (lf_window off buflen (lf_listing (lf_selected filter rs))))
                                (lf_trunc_spec off buflen (len (lf_listing (lf_selected filter rs))));
           lf_rbytes := lf_window off buflen (lf_listing (lf_selected filter rs));
           lf_rtotal := len (lf_listing (lf_selected filter rs)) |}.
Proof. exact lf_wellknown_window_term. Qed.
Print Assumptions C20_wellknown_window_any_storage.

(* for a non-empty buffer the truncation flag is set exactly when listing remains beyond the
   window; the number of bytes written in closed form *)
Theorem C20_trunc_rule : forall off buflen (l : bytes),
  0 <= off -> 0 < buflen ->
  lf_trunc_spec off buflen (len l) = (off + buflen <? len l) /\
  len (lf_window off buflen l) = Z.min buflen (Z.max 0 (len l - off)).
Proof. exact lf_trunc_rule. Qed.
Print Assumptions C20_trunc_rule.

(* the size probe of the GET handler: an empty buffer reports the exact total *)
Theorem C20_probe : forall rs filter off,
  0 <= off ->
  lf_print_wellknown rs filter off 0 =
  LfVal {| lf_rstatus := LfDone 0 (0 <? len (lf_listing (lf_selected filter rs)));
           lf_rbytes := [];
           lf_rtotal := len (lf_listing (lf_selected filter rs)) |}.
Proof. exact lf_wellknown_probe. Qed.
Print Assumptions C20_probe.

(* match() with in-bounds operands decides the RFC 6690 s.4.1 relation: equality, prefix when
   the pattern ended in '*', and for rt/if/rel the same on some space-separated token; no read
   outside the operands, loop bound never reached *)
Theorem C20_match_relation : forall text p prefix substring,
  lf_inb text -> lf_inb p ->
  lf_match true text (Some p) prefix substring =
  LfVal (if substring then existsb (lf_str_match prefix (lf_view p)) (lf_tokens (lf_view text))
         else lf_str_match prefix (lf_view p) (lf_view text)).
Proof. exact lf_match_ok. Qed.
Print Assumptions C20_match_relation.

(* the query split stays inside the query string, and the per-resource decision of
   coap_print_wellknown_lkd is lf_filter_spec: href / rt / if / rel / other attributes, exact,
   prefix '*', token-wise, quoted and unquoted and empty values *)
Theorem C20_filter_spec : forall term q r,
  exists f, lf_split_filter true q = LfVal f /\ lf_select true term f r = LfVal (lf_filter_spec q r).
Proof. exact lf_filter_spec_ok. Qed.
Print Assumptions C20_filter_spec.

(* what the relation means *)
Theorem C20_str_match_spec : forall prefix pat s,
  lf_str_match prefix pat s = true <-> (if prefix then exists t, s = pat ++ t else s = pat).
Proof. exact lf_str_match_spec. Qed.
Print Assumptions C20_str_match_spec.

Theorem C20_tokens_equations :
  lf_tokens [] = [] /\
  (forall a, ~ In 32 a -> a <> [] -> lf_tokens a = [a]) /\
  (forall a b, ~ In 32 a -> lf_tokens (a ++ 32 :: b) = a :: lf_tokens b).
Proof. exact lf_tokens_equations. Qed.
Print Assumptions C20_tokens_equations.

(* the GET handler (probe, full print into a buffer of the probed size) hands exactly the
   listing to the response *)
Theorem C20_get_equals_listing : forall rs query,
  len (lf_listing (lf_selected query rs)) <= lf_status_max ->
  lf_get_wellknown rs query = Lf205 (lf_listing (lf_selected query rs)).
Proof. exact lf_get_equals_listing. Qed.
Print Assumptions C20_get_equals_listing.

(* a block-wise GET with any Block2 size (blocks 0,1,2,.. until More is clear) reassembles to
   the body *)
Theorem C20_blockwise_reassembly : forall body szx,
  0 <= szx -> lf_reassemble (S (length body)) body szx 0 = Some body.
Proof. exact lf_reassemble_body. Qed.
Print Assumptions C20_blockwise_reassembly.

(* registration: coap_add_resource replaces a resource with the same path and appends;
   paths stay unique *)
Theorem C20_register : forall tbl r,
  (forall x, In x (lf_register tbl r) <-> x = r \/ (In x tbl /\ lf_path x <> lf_path r)) /\
  (NoDup (map lf_path tbl) -> NoDup (map lf_path (lf_register tbl r))) /\
  ((forall x, In x tbl -> lf_path x <> lf_path r) -> lf_register tbl r = tbl ++ [r]).
Proof. exact lf_register_props. Qed.
Print Assumptions C20_register.

(* the hypotheses are met by a non-trivial table (three resources, quoted rt with two tokens,
   observable, OSCORE-only, attribute without value): filters select what they should, and a
   16-byte window at offset 40 of the 113-byte listing is delivered with TRUNC *)
Theorem C20_nonvacuous :
  lf_table_ok lf_ex_table = true /\
  lf_selected (Some [114;116;61;115;101;110;115;111;114]) lf_ex_table = [lf_ex_temp] /\
  lf_selected (Some [114;116;61;115;101;110;115]) lf_ex_table = [] /\
  lf_selected (Some [114;116;61;115;101;110;115;42]) lf_ex_table = [lf_ex_temp] /\
  lf_selected (Some [104;114;101;102;61;47;115;101;110;115;111;114;115;47;42]) lf_ex_table
    = [lf_ex_temp; lf_ex_light] /\
  lf_selected (Some [99;116;61;52;48]) lf_ex_table = [lf_ex_light] /\
  lf_selected None lf_ex_table = lf_ex_table.
Proof. exact lf_ex_filter_token. Qed.
Print Assumptions C20_nonvacuous.

(* libcoap before the repairs (guard = false): the prefix comparison in match() ran over the
   end of a token - out of the object, or into the next token (a resource without a matching
   token was listed); the split read the byte behind a filter ending in '='.  The witnesses are
   replayed on the real code from corpus/C20. *)
Theorem C20_match_unguarded_refuted :
  (exists text pat, lf_inb text /\ lf_inb pat /\ lf_match false text (Some pat) true true = LfOob) /\
  (exists rs q, lf_table_ok rs = true /\ lf_selected (Some q) rs = [] /\
     exists r, lf_print_wellknown_g false [0] rs (Some q) 0 64 = LfVal r /\ lf_rtotal r <> 0).
Proof. exact lf_match_unguarded_refuted. Qed.
Print Assumptions C20_match_unguarded_refuted.

(* finding F20e, repaired: a value consisting of one double quote made the old code compute the
   length 1 - 2 in size_t and read far outside the value (segmentation fault on the real code) *)
Theorem C20_lone_quote_refuted :
  exists rs q, lf_table_ok rs = false /\
    lf_print_wellknown_g false [0] rs (Some q) 0 64 = LfOob /\
    lf_print_wellknown rs (Some q) 0 64 =
    LfVal {| lf_rstatus := LfDone 0 false; lf_rbytes := []; lf_rtotal := 0 |}.
Proof. exact lf_lone_quote_refuted. Qed.
Print Assumptions C20_lone_quote_refuted.

Theorem C20_split_unguarded_refuted :
  exists q, lf_split_filter false q = LfOob /\ exists f, lf_split_filter true q = LfVal f.
Proof. exact lf_split_unguarded_refuted. Qed.
Print Assumptions C20_split_unguarded_refuted.

(* the whole GET path: Uri-Query options -> coap_get_query (escaping) -> handler (decoding,
   probe, full print): the body is the listing restricted by the bytes of the request's
   Uri-Query options (joined by '&'; none: the full listing) *)
Theorem C20_handle_get : forall rs opts,
  Forall wfb opts ->
  len (lf_listing (lf_selected (lf_raw_query opts) rs)) <= lf_status_max ->
  lf_handle_get rs opts = Lf205 (lf_listing (lf_selected (lf_raw_query opts) rs)).
Proof. exact lf_handle_get_listing. Qed.
Print Assumptions C20_handle_get.

Theorem C20_raw_query_single : forall q, q <> [] -> lf_raw_query [q] = Some q.
Proof. exact lf_raw_query_single. Qed.
Print Assumptions C20_raw_query_single.

(* the handler's decoding is the inverse of coap_get_query's escaping *)
Theorem C20_unescape_escape : forall opts,
  Forall wfb opts ->
  lf_unescape_query (lf_join_amp (map lf_escape_query opts)) = lf_join_amp opts.
Proof. exact lf_unescape_join. Qed.
Print Assumptions C20_unescape_escape.

(* finding F20c, repaired: the handler used to filter with the escaped text - a filter value
   with a byte that coap_get_query escapes (hash, space, double quote, percent, ...) never
   matched; the witness on the old and on the repaired handler *)
Theorem C20_handle_get_escaped_refuted :
  exists rs q r, lf_table_ok rs = true /\ rs = [r] /\ lf_filter_spec q r = true /\
                 lf_handle_get_escaped rs [q] = Lf205 [] /\
                 lf_handle_get rs [q] = Lf205 (lf_link r).
Proof. exact lf_handle_get_escaped_refuted. Qed.
Print Assumptions C20_handle_get_escaped_refuted.

(* finding F20d, repaired: with block mode 0 (no COAP_BLOCK_USE_LIBCOAP) a listing longer than
   the room in one PDU was delivered cut, as a complete response (lf_handle_get_nolib is the
   old branch; now every request renders the listing and block n is lf_block body szx n, to
   which C20_blockwise_reassembly applies) *)
Theorem C20_handle_get_nolib_refuted :
  exists rs room, lf_table_ok rs = true /\
    lf_handle_get rs [] = Lf205 (lf_listing (lf_selected None rs)) /\
    exists b, lf_handle_get_nolib rs [] room = Lf205 b /\ len b < len (lf_listing (lf_selected None rs)).
Proof. exact lf_handle_get_nolib_refuted. Qed.
Print Assumptions C20_handle_get_nolib_refuted.

(* "lists exactly": reading the listing back with an RFC 6690 link-format reader (lf_parse:
   "<" "/" path ">" *( ";" name [ "=" ( quoted-string | token ) ] ) separated by ",") yields
   exactly the listed resources - path, every attribute with its value in order, and the
   obs / osc markers - whenever their texts are unambiguous link-format (lf_clean_res: no '>'
   in a path, no ';' ',' '=' in a name, values quoted without inner quote or free of ';' ',').
   Hence two such tables with the same listing list the same resources. *)
Theorem C20_listing_determines_table : forall rs,
  forallb lf_clean_res rs = true -> lf_parse (lf_listing rs) = Some (map lf_canon rs).
Proof. exact lf_parse_listing. Qed.
Print Assumptions C20_listing_determines_table.

Theorem C20_listing_injective : forall rs1 rs2,
  forallb lf_clean_res rs1 = true -> forallb lf_clean_res rs2 = true ->
  lf_listing rs1 = lf_listing rs2 -> map lf_canon rs1 = map lf_canon rs2.
Proof. exact lf_listing_injective. Qed.
Print Assumptions C20_listing_injective.

(* the concrete table of C20_nonvacuous is clean *)
Theorem C20_clean_nonvacuous : forallb lf_clean_res lf_ex_table = true.
Proof. exact lf_ex_clean. Qed.
Print Assumptions C20_clean_nonvacuous.

(* GET /.well-known/core reaches the built-in handler (to which C20_handle_get applies) exactly
   when no application resource has that path and no unknown-resource handler asked for it with
   COAP_RESOURCE_HANDLE_WELLKNOWN_CORE - an unknown-resource GET handler without the flag does
   not capture it (the selection is tied on live servers with such handlers) *)
Theorem C20_get_target : forall registered unk_get unk_flag,
  lf_wk_target registered unk_get unk_flag = LfToBuiltin <->
  registered = false /\ (unk_flag = false \/ unk_get = false).
Proof. exact lf_wk_target_builtin. Qed.
Print Assumptions C20_get_target.

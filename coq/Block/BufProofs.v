(* C09 layer 2: facts about the body buffer (memcpy at an offset, realloc, fresh storage). *)
From LibcoapV Require Import Base.Tactics Base.Bytes Base.BytesProofs Block.BlockOpt
  Block.BlockOptProofs Block.Slices Block.SlicesProofs Block.RecBlocks.
Local Open Scope Z_scope.

Lemma blk_get_app_l a b i : 0 <= i < len a -> blk_get (a ++ b) i = blk_get a i.
Proof. intros. unfold blk_get. apply app_nth1. unfold len in *. lia. Qed.

Lemma blk_get_app_r a b i : len a <= i -> blk_get (a ++ b) i = blk_get b (i - len a).
Proof.
  intros. pose proof (len_nonneg a). unfold blk_get. rewrite app_nth2 by (unfold len in *; lia).
  f_equal. unfold len in *. lia.
Qed.

Lemma blk_get_take n l i : 0 <= i < n -> blk_get (take n l) i = blk_get l i.
Proof. intros. unfold blk_get. apply blk_nth_take. lia. Qed.

Lemma blk_get_drop n l i : 0 <= n -> 0 <= i -> blk_get (drop n l) i = blk_get l (n + i).
Proof. intros. unfold blk_get. rewrite blk_nth_drop. f_equal. lia. Qed.

Lemma blk_ext (a b : bytes) : len a = len b ->
  (forall i, 0 <= i < len a -> blk_get a i = blk_get b i) -> a = b.
Proof.
  intros Hl H. apply (nth_ext a b 0 0); [unfold len in Hl; lia|].
  intros n Hn. specialize (H (Z.of_nat n)). unfold blk_get in H. rewrite Nat2Z.id in H.
  apply H. unfold len. lia.
Qed.

Lemma blk_get_slice_c body c k i : 0 < c -> 0 <= k -> 0 <= i < c ->
  blk_get (blk_slice_c body c k) i = blk_get body (k * c + i).
Proof. intros. unfold blk_get. apply blk_slice_c_nth; auto. Qed.

Lemma blk_len_write b off data : 0 <= off -> off + len data <= len b ->
  len (blk_write b off data) = len b.
Proof.
  intros. pose proof (len_nonneg data). unfold blk_write.
  rewrite !len_app, len_take, len_drop by lia. lia.
Qed.

Lemma blk_get_write b off data i : 0 <= off -> off + len data <= len b -> 0 <= i ->
  blk_get (blk_write b off data) i =
  if (off <=? i) && (i <? off + len data) then blk_get data (i - off) else blk_get b i.
Proof.
  intros Ho Hl Hi. pose proof (len_nonneg data). unfold blk_write.
  assert (Lt : len (take off b) = off) by (apply len_take; lia).
  destruct (off <=? i) eqn:E1; cbn [andb].
  - rewrite blk_get_app_r by lia. rewrite Lt.
    destruct (i <? off + len data) eqn:E2.
    + apply blk_get_app_l. lia.
    + rewrite blk_get_app_r by lia. rewrite blk_get_drop by lia. f_equal. lia.
  - rewrite blk_get_app_l by lia. apply blk_get_take. lia.
Qed.

Lemma blk_len_fill junk a n : len (blk_fill junk a n) = Z.max 0 n.
Proof. unfold blk_fill, blk_range_from, len. rewrite !map_length, seq_length. lia. Qed.

Lemma blk_len_resize_buf junk b n : 0 <= n -> len (blk_resize_buf junk b n) = n.
Proof.
  intros. unfold blk_resize_buf. destruct (n <=? len b) eqn:E.
  - apply len_take. lia.
  - rewrite len_app, blk_len_fill. lia.
Qed.

Lemma blk_get_resize_buf junk b n i : 0 <= i < len b -> i < n ->
  blk_get (blk_resize_buf junk b n) i = blk_get b i.
Proof.
  intros. unfold blk_resize_buf. destruct (n <=? len b) eqn:E.
  - apply blk_get_take. lia.
  - apply blk_get_app_l. lia.
Qed.

(* what coap_block_build_body does to the buffer, when it does not have to shrink it *)
Lemma blk_build_body_effect junk bo data off total :
  0 <= off -> 0 < len data -> off + len data <= total ->
  (forall b, bo = Some b -> total <= len b \/ len b <= off + len data) ->
  exists b', blk_build_body junk bo data off total = Some b' /\
    off + len data <= len b' /\
    (forall i, off <= i < off + len data -> blk_get b' i = blk_get data (i - off)) /\
    (forall b, bo = Some b -> len b <= len b' /\
       (total <= len b -> len b' = len b) /\ (len b < total -> len b' = off + len data) /\
       forall i, 0 <= i < len b -> ~ (off <= i < off + len data) -> blk_get b' i = blk_get b i) /\
    (bo = None -> len b' = total).
Proof.
  intros Ho Hd Ht Hb. unfold blk_build_body.
  destruct bo as [b|].
  - specialize (Hb b eq_refl).
    destruct ((off + len data <=? total) && (total <=? len b)) eqn:C.
    + exists (blk_write b off data).
      assert (Hl : off + len data <= len b) by lia.
      split; [reflexivity|]. rewrite blk_len_write by lia. split; [lia|]. split.
      * intros i Hi. rewrite blk_get_write by lia.
        destruct ((off <=? i) && (i <? off + len data)) eqn:E; [reflexivity|lia].
      * split; [|discriminate]. intros b0 Eb. inversion Eb; subst b0.
        split; [lia|]. split; [lia|]. split; [lia|]. intros i Hi Hn. rewrite blk_get_write by lia.
        destruct ((off <=? i) && (i <? off + len data)) eqn:E; [lia|reflexivity].
    + assert (Hs : len b <= off + len data) by lia.
      set (b1 := blk_resize_buf junk b (off + len data)).
      assert (L1 : len b1 = off + len data) by (apply blk_len_resize_buf; lia).
      exists (blk_write b1 off data). split; [reflexivity|].
      rewrite blk_len_write by lia. split; [lia|]. split.
      * intros i Hi. rewrite blk_get_write by lia.
        destruct ((off <=? i) && (i <? off + len data)) eqn:E; [reflexivity|lia].
      * split; [|discriminate]. intros b0 Eb. inversion Eb; subst b0.
        split; [lia|]. split; [lia|]. split; [lia|]. intros i Hi Hn. rewrite blk_get_write by lia.
        destruct ((off <=? i) && (i <? off + len data)) eqn:E; [lia|].
        apply blk_get_resize_buf; lia.
  - destruct (total =? 0) eqn:E0; [lia|].
    assert (Lf : len (blk_fill junk 0 total) = total) by (rewrite blk_len_fill; lia).
    rewrite Lf. destruct ((off + len data <=? total) && (total <=? total)) eqn:C; [|lia].
    exists (blk_write (blk_fill junk 0 total) off data). split; [reflexivity|].
    rewrite blk_len_write by lia. split; [lia|]. split.
    + intros i Hi. rewrite blk_get_write by lia.
      destruct ((off <=? i) && (i <? off + len data)) eqn:E; [reflexivity|lia].
    + split; [discriminate|]. intros _. exact Lf.
Qed.

(* C09 layer 1b: how a body is cut into blocks.
   slice k        = data[k*chunk .. min((k+1)*chunk, length))     (coap_add_block_b_data,
                    coap_add_data_large_internal: "rem = chunk; if (rem > length - num*chunk) ...")
   more k         = (offset + chunk) < length                      (block.m at every send site)
   nblocks        = (length + chunk - 1) / chunk                   (check_all_blocks_in argument)
   resize         = coap_handle_response_send_block, SZX lowered by the peer:
                    num' = ((offset + chunk) >> (szx' + 4)) - 1, offset' = num' * chunk'
   Definitions only; proofs are in SlicesProofs.v. *)
From Coq Require Import ZArith List Bool.
From LibcoapV Require Import Base.Bytes Block.BlockOpt.
Import ListNotations.
Local Open Scope Z_scope.

(* slice with an explicit chunk length c (c = blk_chunk szx in every use by the code) *)
Definition blk_slice_c (body : bytes) (c k : Z) : bytes := take c (drop (k * c) body).
Definition blk_more_c (n c k : Z) : bool := k * c + c <? n.
Definition blk_nblocks_c (n c : Z) : Z := (n + c - 1) / c.

Definition blk_slice (body : bytes) (szx k : Z) : bytes := blk_slice_c body (blk_chunk szx) k.
Definition blk_more (body : bytes) (szx k : Z) : bool := blk_more_c (len body) (blk_chunk szx) k.
Definition blk_nblocks (body : bytes) (szx : Z) : Z := blk_nblocks_c (len body) (blk_chunk szx).

(* 0, 1, ..., n-1 *)
Definition blk_range (n : Z) : list Z := map Z.of_nat (seq 0 (Z.to_nat n)).
(* a, a+1, ..., a+n-1 *)
Definition blk_range_from (a n : Z) : list Z := map (fun i => a + Z.of_nat i) (seq 0 (Z.to_nat n)).

(* SZX renegotiation by the receiver of a Block1 transfer (client side): the block that was
   just acknowledged started at [offset] with size [szx]; the peer answered with szx'.
   Result: (block number of the acknowledged data in the new unit, new szx). *)
Definition blk_resize (offset szx szx' : Z) : Z * Z :=
  if szx' =? szx then (offset / blk_chunk szx, szx)
  else if szx <? szx' then (offset / blk_chunk szx, szx)        (* increase: ignored *)
  else if (offset + blk_chunk szx) mod blk_chunk szx' =? 0
       then ((offset + blk_chunk szx) / blk_chunk szx' - 1, szx')
       else (offset / blk_chunk szx, szx).

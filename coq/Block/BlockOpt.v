(* C09 layer 1a: the Block1/Block2 option value  <->  (NUM, M, SZX).
   Transcribes coap_encode_var_safe (as used by every "re-encode the block option" site of
   coap_block.c), coap_opt_block_num, COAP_OPT_BLOCK_MORE, COAP_OPT_BLOCK_SZX and the
   non-BERT part of coap_get_block_b (src/coap_block.c:34-104, include/coap3/coap_block.h).
   Definitions only; proofs are in BlockOptProofs.v. *)
From Coq Require Import ZArith List Bool.
From LibcoapV Require Import Base.Bytes.
Import ListNotations.
Local Open Scope Z_scope.
Local Open Scope bool_scope.

(* coap_decode_var_bytes: n = (n << 8) + buf[i], in an unsigned int (32 bit) *)
Fixpoint blk_be_decode (acc : Z) (l : bytes) : Z :=
  match l with
  | [] => acc
  | b :: t => blk_be_decode ((acc * 256 + b) mod 4294967296) t
  end.

(* coap_encode_var_safe(buf, 4, val): minimal big-endian form, val = 0 gives no byte *)
Definition blk_encode_var (v : Z) : bytes :=
  if v <=? 0 then []
  else if v <? 256 then [v]
  else if v <? 65536 then [v / 256; v mod 256]
  else if v <? 16777216 then [v / 65536; (v / 256) mod 256; v mod 256]
  else [(v / 16777216) mod 256; (v / 65536) mod 256; (v / 256) mod 256; v mod 256].

(* (num << 4) | (m << 3) | szx   for m in {0,1}, szx in 0..7: the fields do not overlap *)
Definition blk_opt_word (num m szx : Z) : Z := num * 16 + m * 8 + szx.
Definition blk_opt_value (num m szx : Z) : bytes := blk_encode_var (blk_opt_word num m szx).

(* COAP_OPT_BLOCK_END_BYTE: last byte of the value, 0 for an empty value *)
Definition blk_end_byte (v : bytes) : Z := last v 0.

(* coap_opt_block_num *)
Definition blk_opt_num (v : bytes) : Z :=
  match v with
  | [] => 0
  | _ => ((blk_be_decode 0 (removelast v)) * 16) mod 4294967296 + (blk_end_byte v / 16) mod 16
  end.
Definition blk_opt_more (v : bytes) : Z := (blk_end_byte v / 8) mod 2.
Definition blk_opt_szx (v : bytes) : Z := blk_end_byte v mod 8.

(* coap_get_block_b on a datagram session (no BERT): Some (num, m, szx) | None = return 0 *)
Definition blk_get_block (v : bytes) : option (Z * Z * Z) :=
  if blk_opt_szx v =? 7 then None
  else if 1048575 <? blk_opt_num v then None
  else Some (blk_opt_num v, blk_opt_more v, blk_opt_szx v).

(* block->chunk_size = 1 << (szx + 4) *)
Definition blk_chunk (szx : Z) : Z := 2 ^ (szx + 4).

(* block size selection: coap_flsll(avail) - 5 (position of the highest set bit, 1-based,
   minus 5), capped at 6 - setup_block_b and coap_add_data_large_internal *)
Fixpoint blk_fls_fuel (fuel : nat) (x : Z) : Z :=
  match fuel with
  | O => 0
  | S f => if x <=? 0 then 0 else 1 + blk_fls_fuel f (x / 2)
  end.
Definition blk_fls (x : Z) : Z := blk_fls_fuel 64%nat x.
Definition blk_szx_for_avail (avail : Z) : Z := Z.min 6 (blk_fls avail - 5).

(* setup_block_b without BERT: given the wanted (num, szx), the space left in the PDU and
   the body length: None = "even the smallest block does not fit", else (num', szx', m) *)
Definition blk_setup (num szx avail total : Z) : option (Z * Z * Z) :=
  let start := num * blk_chunk szx in
  let c := blk_chunk szx in
  if (avail <? c) && (avail <=? total - start) then
    if avail <? 16 then None
    else
      let s' := blk_fls avail - 5 in
      let c' := blk_chunk s' in
      Some (num * 2 ^ (szx - s'), s', if c' <? total - start then 1 else 0)
  else Some (num, szx, if c <? total - start then 1 else 0).

(* C09 layer 1b proofs: the slices of a body tile it exactly. *)
From LibcoapV Require Import Base.Tactics Base.Bytes Base.BytesProofs Block.BlockOpt
  Block.BlockOptProofs Block.Slices.
Local Open Scope Z_scope.

(* ---------- take / drop facts over Z ---------- *)
Lemma blk_skipn_skipn {A} (x y : nat) (l : list A) : skipn x (skipn y l) = skipn (y + x) l.
Proof.
  revert l. induction y as [|y IH]; intros l; [reflexivity|].
  destruct l; cbn [skipn Nat.add]; [apply skipn_nil|apply IH].
Qed.

Lemma blk_drop_drop {A} a b (l : list A) : 0 <= a -> 0 <= b -> drop (a + b) l = drop b (drop a l).
Proof.
  intros. unfold drop. rewrite Z2Nat.inj_add by lia.
  symmetry. apply blk_skipn_skipn.
Qed.

Lemma blk_drop_0 {A} (l : list A) : drop 0 l = l.
Proof. reflexivity. Qed.

Lemma blk_len_take_le {A} n (l : list A) : len (take n l) <= len l.
Proof. unfold take, len. rewrite firstn_length. lia. Qed.

Lemma blk_len_take_min {A} n (l : list A) : 0 <= n -> len (take n l) = Z.min n (len l).
Proof. intros. unfold take, len. rewrite firstn_length. lia. Qed.

Lemma blk_len_drop_max {A} n (l : list A) : 0 <= n -> len (drop n l) = Z.max 0 (len l - n).
Proof. intros. unfold drop, len. rewrite skipn_length. lia. Qed.

Lemma blk_take_all {A} n (l : list A) : len l <= n -> take n l = l.
Proof. intros. unfold take. apply firstn_all2. unfold len in *. lia. Qed.

Lemma blk_drop_all {A} n (l : list A) : len l <= n -> drop n l = [].
Proof. intros. unfold drop. apply skipn_all2. unfold len in *. lia. Qed.

Lemma blk_nth_take {A} n i (l : list A) d : (i < Z.to_nat n)%nat -> nth i (take n l) d = nth i l d.
Proof.
  unfold take. revert i l. induction (Z.to_nat n) as [|k IH]; intros i l Hi; [lia|].
  destruct l; [destruct i; reflexivity|]. destruct i; cbn [firstn nth]; [reflexivity|].
  apply IH. lia.
Qed.

Lemma blk_nth_drop {A} n i (l : list A) d : nth i (drop n l) d = nth (Z.to_nat n + i) l d.
Proof.
  unfold drop. revert l. induction (Z.to_nat n) as [|k IH]; intros l; [reflexivity|].
  destruct l; cbn [skipn]; [destruct i; reflexivity|]. apply IH.
Qed.

(* ---------- ranges ---------- *)
Lemma blk_range_S n : 0 <= n -> blk_range (n + 1) = blk_range n ++ [n].
Proof.
  intros. unfold blk_range. replace (Z.to_nat (n + 1)) with (Z.to_nat n + 1)%nat by lia.
  rewrite seq_app, map_app. cbn [seq map]. rewrite Nat.add_0_l, Z2Nat.id by lia. reflexivity.
Qed.

Lemma blk_in_range n k : In k (blk_range n) <-> 0 <= k < n.
Proof.
  unfold blk_range. rewrite in_map_iff. split.
  - intros (i & <- & Hi). apply in_seq in Hi. lia.
  - intros H. exists (Z.to_nat k). split; [lia|]. apply in_seq. lia.
Qed.

Lemma blk_range_from_0 n : blk_range_from 0 n = blk_range n.
Proof. unfold blk_range_from, blk_range. apply map_ext. intros. lia. Qed.

Lemma blk_in_range_from a n k : In k (blk_range_from a n) <-> a <= k < a + n.
Proof.
  unfold blk_range_from. rewrite in_map_iff. split.
  - intros (i & <- & Hi). apply in_seq in Hi. lia.
  - intros H. exists (Z.to_nat (k - a)). split; [lia|]. apply in_seq. lia.
Qed.

Lemma blk_range_from_cons a n : 0 < n ->
  blk_range_from a n = a :: blk_range_from (a + 1) (n - 1).
Proof.
  intros. unfold blk_range_from.
  replace (Z.to_nat n) with (S (Z.to_nat (n - 1))) by lia.
  cbn [seq map]. f_equal; [lia|]. rewrite <- seq_shift, map_map. apply map_ext. intros. lia.
Qed.

(* ---------- tiling, for any chunk length c > 0 ---------- *)
(* the slices a, a+1, ..., a+n-1 concatenate to the bytes from a*c, provided they reach the end *)
Lemma blk_concat_from body c : 0 < c -> forall (n : nat) a, 0 <= a ->
  len body <= (a + Z.of_nat n) * c ->
  concat (map (blk_slice_c body c) (blk_range_from a (Z.of_nat n))) = drop (a * c) body.
Proof.
  intros Hc n. induction n as [|n IH]; intros a Ha Hl.
  - cbn. symmetry. apply blk_drop_all. change (Z.of_nat 0) with 0 in Hl.
    rewrite Z.add_0_r in Hl. exact Hl.
  - rewrite blk_range_from_cons by lia. cbn [map concat].
    replace (Z.of_nat (S n) - 1) with (Z.of_nat n) by lia.
    rewrite IH by (try lia; replace (a + 1 + Z.of_nat n) with (a + Z.of_nat (S n)) by lia; exact Hl).
    unfold blk_slice_c.
    replace ((a + 1) * c) with (a * c + c) by lia.
    rewrite blk_drop_drop by lia. apply take_drop.
Qed.

Lemma blk_nblocks_c_bounds n c : 0 < c -> 0 <= n ->
  let k := blk_nblocks_c n c in (k - 1) * c < n <= k * c \/ (n = 0 /\ k = 0).
Proof.
  intros Hc Hn k. unfold k, blk_nblocks_c. destruct (Z.eq_dec n 0) as [->|Hne]; [right|left].
  - split; [reflexivity|]. apply Z.div_small. lia.
  - pose proof (Z.div_mod (n + c - 1) c ltac:(lia)) as E.
    pose proof (Z.mod_pos_bound (n + c - 1) c Hc) as B.
    set (q := (n + c - 1) / c) in *. set (r := (n + c - 1) mod c) in *. nia.
Qed.

Lemma blk_nblocks_c_nonneg n c : 0 < c -> 0 <= n -> 0 <= blk_nblocks_c n c.
Proof. intros. unfold blk_nblocks_c. apply Z.div_pos; lia. Qed.

Theorem blk_slices_concat_c body c : 0 < c ->
  concat (map (blk_slice_c body c) (blk_range (blk_nblocks_c (len body) c))) = body.
Proof.
  intros Hc. pose proof (len_nonneg body) as Hl.
  pose proof (blk_nblocks_c_nonneg (len body) c Hc Hl) as Hk.
  rewrite <- blk_range_from_0.
  rewrite <- (Z2Nat.id (blk_nblocks_c (len body) c)) by lia.
  rewrite (blk_concat_from body c Hc _ 0) by
    (rewrite ?Z2Nat.id by lia; destruct (blk_nblocks_c_bounds (len body) c Hc Hl); lia).
  reflexivity.
Qed.

Lemma blk_slice_c_len body c k : 0 < c -> 0 <= k ->
  len (blk_slice_c body c k) = Z.max 0 (Z.min c (len body - k * c)).
Proof.
  intros. unfold blk_slice_c. rewrite blk_len_take_min, blk_len_drop_max by lia. lia.
Qed.

(* every byte of a slice is the body's byte at offset k*c + i: offsets are exactly k*c *)
Lemma blk_slice_c_nth body c k i d : 0 < c -> 0 <= k -> 0 <= i < c ->
  nth (Z.to_nat i) (blk_slice_c body c k) d = nth (Z.to_nat (k * c + i)) body d.
Proof.
  intros. unfold blk_slice_c. rewrite blk_nth_take by lia. rewrite blk_nth_drop.
  f_equal. lia.
Qed.

(* ---------- the statement for block sizes 16..1024 ---------- *)
Theorem blk_slices_concat body szx : 0 <= szx ->
  concat (map (blk_slice body szx) (blk_range (blk_nblocks body szx))) = body.
Proof. intros. apply blk_slices_concat_c. apply blk_chunk_pos. lia. Qed.

Theorem blk_slice_len_nonfinal body szx k : 0 <= szx ->
  0 <= k < blk_nblocks body szx - 1 -> len (blk_slice body szx k) = blk_chunk szx.
Proof.
  intros Hs Hk. pose proof (blk_chunk_pos szx Hs) as Hc. pose proof (len_nonneg body).
  unfold blk_slice. rewrite blk_slice_c_len by lia.
  unfold blk_nblocks in Hk.
  destruct (blk_nblocks_c_bounds (len body) (blk_chunk szx) Hc ltac:(lia)) as [B|B]; [|lia].
  set (c := blk_chunk szx) in *. set (K := blk_nblocks_c (len body) c) in *.
  assert ((k + 1) * c <= (K - 1) * c) by (apply Z.mul_le_mono_nonneg_r; lia). lia.
Qed.

Theorem blk_slice_len_final body szx : 0 <= szx -> 0 < len body ->
  1 <= len (blk_slice body szx (blk_nblocks body szx - 1)) <= blk_chunk szx /\
  (blk_nblocks body szx - 1) * blk_chunk szx + len (blk_slice body szx (blk_nblocks body szx - 1))
     = len body.
Proof.
  intros Hs Hl. pose proof (blk_chunk_pos szx Hs) as Hc.
  unfold blk_slice, blk_nblocks.
  destruct (blk_nblocks_c_bounds (len body) (blk_chunk szx) Hc ltac:(lia)) as [B|B]; [|lia].
  set (c := blk_chunk szx) in *. set (K := blk_nblocks_c (len body) c) in *.
  assert (1 <= K) by (destruct (Z_lt_le_dec K 1); [|lia];
                      assert (K * c <= 0 * c) by (apply Z.mul_le_mono_nonneg_r; lia); lia).
  rewrite blk_slice_c_len by lia. lia.
Qed.

(* the More bit of block k is set exactly when k is not the final block *)
Theorem blk_more_iff body szx k : 0 <= szx -> 0 <= k < blk_nblocks body szx ->
  (blk_more body szx k = true <-> k < blk_nblocks body szx - 1).
Proof.
  intros Hs Hk. pose proof (blk_chunk_pos szx Hs) as Hc. pose proof (len_nonneg body).
  unfold blk_more, blk_more_c, blk_nblocks in *.
  destruct (blk_nblocks_c_bounds (len body) (blk_chunk szx) Hc ltac:(lia)) as [B|B]; [|lia].
  set (c := blk_chunk szx) in *. set (K := blk_nblocks_c (len body) c) in *.
  rewrite Z.ltb_lt. split; intros H1.
  - destruct (Z_lt_le_dec k (K - 1)); [lia|]. assert (k = K - 1) by lia. subst k. lia.
  - assert ((k + 1) * c <= (K - 1) * c) by (apply Z.mul_le_mono_nonneg_r; lia). lia.
Qed.

(* byte i of block k is byte k*chunk + i of the body *)
Theorem blk_slice_offset body szx k i d : 0 <= szx -> 0 <= k -> 0 <= i < blk_chunk szx ->
  nth (Z.to_nat i) (blk_slice body szx k) d = nth (Z.to_nat (k * blk_chunk szx + i)) body d.
Proof. intros. apply blk_slice_c_nth; auto. apply blk_chunk_pos; lia. Qed.

(* a block beyond the last one is empty: nothing can be delivered past the body *)
Theorem blk_slice_beyond body szx k : 0 <= szx -> blk_nblocks body szx <= k ->
  blk_slice body szx k = [].
Proof.
  intros Hs Hk. pose proof (blk_chunk_pos szx Hs) as Hc. pose proof (len_nonneg body).
  unfold blk_slice, blk_slice_c, blk_nblocks in *.
  destruct (blk_nblocks_c_bounds (len body) (blk_chunk szx) Hc ltac:(lia)) as [B|B].
  - set (c := blk_chunk szx) in *. set (K := blk_nblocks_c (len body) c) in *.
    assert (K * c <= k * c) by (apply Z.mul_le_mono_nonneg_r; lia).
    rewrite blk_drop_all by lia. unfold take. apply firstn_nil.
  - destruct body; [|unfold len in *; cbn in *; lia]. unfold take, drop.
    rewrite skipn_nil, firstn_nil. reflexivity.
Qed.

(* ---------- SZX renegotiation ---------- *)
(* after the peer lowered SZX, the next block in the new unit starts exactly where the next
   block in the old unit would have started, so nothing is skipped or sent twice *)
Theorem blk_resize_offset offset szx szx' : 0 <= szx' -> 0 <= szx ->
  0 <= offset -> offset mod blk_chunk szx = 0 ->
  let '(num', s') := blk_resize offset szx szx' in
  (num' + 1) * blk_chunk s' = offset + blk_chunk szx /\ 0 <= num' /\
  (s' = szx' \/ (s' = szx /\ szx <= szx')).
Proof.
  intros Hs' Hs Ho Hm. unfold blk_resize.
  pose proof (blk_chunk_pos szx Hs) as Hc. pose proof (blk_chunk_pos szx' Hs') as Hc'.
  destruct (szx' =? szx) eqn:E1.
  { split; [|split; [|lia]]; lia. }
  destruct (szx <? szx') eqn:E2.
  { split; [|split; [|lia]]; lia. }
  assert (Hd := blk_chunk_divides szx' szx ltac:(lia)).
  assert (0 < 2 ^ (szx - szx')) by (apply Z.pow_pos_nonneg; lia).
  set (c := blk_chunk szx) in *. set (c' := blk_chunk szx') in *. set (q := 2 ^ (szx - szx')) in *.
  assert (Hz : (offset + c) mod c' = 0).
  { assert (offset = c * (offset / c)) by lia.
    replace (offset + c) with ((q * (offset / c) + q) * c') by nia.
    apply Z.mod_mul. lia. }
  rewrite Hz. cbn [Z.eqb]. split; [|split; [|lia]].
  - assert (offset + c = c' * ((offset + c) / c')) by lia. lia.
  - assert (c' <= offset + c) by nia.
    assert (1 <= (offset + c) / c') by (apply Z.div_le_lower_bound; lia). lia.
Qed.

(* hence: the blocks sent before the change (old size) followed by the blocks from num'+1
   on (new size) still concatenate to the body *)
Theorem blk_resize_tiles body szx szx' k : 0 <= szx' < szx ->
  0 <= k -> (k + 1) * blk_chunk szx <= len body ->
  let '(num', s') := blk_resize (k * blk_chunk szx) szx szx' in
  concat (map (blk_slice body szx) (blk_range (k + 1))) ++
  concat (map (blk_slice body s')
            (blk_range_from (num' + 1) (blk_nblocks body s' - (num' + 1)))) = body.
Proof.
  intros Hs Hk Hl.
  pose proof (blk_chunk_pos szx ltac:(lia)) as Hc.
  pose proof (blk_resize_offset (k * blk_chunk szx) szx szx' ltac:(lia) ltac:(lia) ltac:(nia)
                ltac:(apply Z.mod_mul; lia)) as R.
  destruct (blk_resize (k * blk_chunk szx) szx szx') as [num' s'].
  destruct R as (Eq & Hn & Hs').
  assert (Es : s' = szx') by lia. subst s'.
  pose proof (blk_chunk_pos szx' ltac:(lia)) as Hc'.
  pose proof (len_nonneg body) as Hlb.
  set (c := blk_chunk szx) in *. set (c' := blk_chunk szx') in *.
  (* first part: the first (k+1)*c bytes *)
  assert (P1 : concat (map (blk_slice body szx) (blk_range (k + 1))) = take ((k + 1) * c) body).
  { unfold blk_slice. fold c.
    pose (b1 := take ((k + 1) * c) body).
    assert (Lb1 : len b1 = (k + 1) * c) by (unfold b1; apply len_take; nia).
    assert (Same : forall j, 0 <= j < k + 1 -> blk_slice_c body c j = blk_slice_c b1 c j).
    { intros j Hj. unfold blk_slice_c, b1, take, drop.
      assert (j * c + c <= (k + 1) * c) by nia.
      rewrite skipn_firstn_comm. rewrite firstn_firstn. f_equal. nia. }
    rewrite (map_ext_in _ (blk_slice_c b1 c)).
    2:{ intros j Hj. apply blk_in_range in Hj. apply Same. lia. }
    change (take ((k + 1) * c) body) with b1.
    replace (k + 1) with (blk_nblocks_c (len b1) c).
    - apply blk_slices_concat_c. lia.
    - rewrite Lb1. unfold blk_nblocks_c.
      replace ((k + 1) * c + c - 1) with (c - 1 + (k + 1) * c) by lia.
      rewrite Z.div_add by lia. rewrite Z.div_small by lia. lia. }
  rewrite P1.
  (* second part: everything from (num'+1)*c' = (k+1)*c on *)
  unfold blk_slice, blk_nblocks. fold c'.
  set (K' := blk_nblocks_c (len body) c').
  assert (HK' : num' + 1 <= K').
  { unfold K', blk_nblocks_c.
    assert ((num' + 1) * c' <= len body + c' - 1) by lia.
    apply Z.div_le_lower_bound; lia. }
  assert (HB : len body <= K' * c').
  { destruct (blk_nblocks_c_bounds (len body) c' Hc' Hlb) as [B|B]; unfold K'; lia. }
  rewrite <- (Z2Nat.id (K' - (num' + 1))) by lia.
  rewrite (blk_concat_from body c' Hc' _ (num' + 1)) by
    (rewrite ?Z2Nat.id by lia; try lia;
     replace (num' + 1 + (K' - (num' + 1))) with K' by lia; exact HB).
  rewrite Eq. replace (k * c + c) with ((k + 1) * c) by lia. apply take_drop.
Qed.

(* non-vacuity: a 100-byte body in 32-byte blocks; and the boundary lengths *)
Example blk_slices_example :
  let body := map (fun i => Z.of_nat i mod 251) (seq 0 100) in
  blk_nblocks body 1 = 4 /\
  map (fun k => len (blk_slice body 1 k)) (blk_range 4) = [32; 32; 32; 4] /\
  map (blk_more body 1) (blk_range 4) = [true; true; true; false] /\
  blk_nblocks (firstn 96 body) 1 = 3 /\ blk_nblocks (firstn 97 body) 1 = 4 /\
  blk_nblocks (firstn 95 body) 1 = 3 /\
  blk_resize 64 2 0 = (7, 0) /\ blk_resize 64 2 3 = (1, 2).
Proof. vm_compute. repeat split. Qed.

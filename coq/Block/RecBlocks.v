(* C09 layer 2: the received-block ranges and body reassembly.
   Transcribes (src/coap_block.c) update_received_blocks, check_if_received_block,
   check_all_blocks_in over struct coap_rblock_t (include/coap3/coap_block_internal.h:
   COAP_RBLOCK_CNT = 4 ranges, of which at most COAP_RBLOCK_CNT-1 are ever used),
   coap_block_build_body, and the reassembly cores of coap_handle_request_put_block (server,
   Block1, COAP_BLOCK_SINGLE_BODY) and coap_handle_response_get_block (client, Block2,
   COAP_BLOCK_SINGLE_BODY).  Definitions only; proofs are in RecBlocksProofs.v. *)
From Coq Require Import ZArith List Bool.
From LibcoapV Require Import Base.Bytes Block.BlockOpt Block.Slices.
Import ListNotations.
Local Open Scope Z_scope.
Local Open Scope bool_scope.

Definition blk_rblock_cnt : Z := 4.

(* rec_blocks->range[0 .. used): the list has length [used] *)
Definition blk_ranges := list (Z * Z).

(* the set of block numbers a range list stands for *)
Definition blk_abs (r : blk_ranges) : list Z :=
  flat_map (fun be => blk_range_from (fst be) (snd be - fst be + 1)) r.

(* update_received_blocks: the for loop, one list cell per iteration; [used] is
   rec_blocks->used on entry.  None = "return 0" (too many losses). *)
Fixpoint blk_upd_loop (used : Z) (l : blk_ranges) (n : Z) : option blk_ranges :=
  match l with
  | [] => (* i == rec_blocks->used *)
      if used =? blk_rblock_cnt - 1 then None else Some [(n, n)]
  | (b, e) :: t =>
      if (b <=? n) && (n <=? e) then Some l
      else if n <? b then
        if n + 1 =? b then Some ((n, e) :: t)
        else if used =? blk_rblock_cnt - 1 then None
        else Some ((n, n) :: (b, e) :: t)
      else if n =? e + 1 then
        match t with
        | (b2, e2) :: t2 => if b2 =? n + 1 then Some ((b, e2) :: t2) else Some ((b, n) :: t)
        | [] => Some ((b, n) :: t)
        end
      else
        match blk_upd_loop used t n with
        | Some t' => Some ((b, e) :: t')
        | None => None
        end
  end.

Definition blk_update (r : blk_ranges) (n : Z) : option blk_ranges := blk_upd_loop (len r) r n.

(* check_if_received_block *)
Fixpoint blk_check_received (r : blk_ranges) (n : Z) : bool :=
  match r with
  | [] => false
  | (b, e) :: t => if n <? b then false else if n <=? e then true else blk_check_received t n
  end.

(* check_all_blocks_in: the loop (None = "return 0" inside the loop), then the final test *)
Fixpoint blk_all_in_loop (r : blk_ranges) (block : Z) : option Z :=
  match r with
  | [] => Some block
  | (b, e) :: t => if block <? b then None else blk_all_in_loop t (if block <? e then e else block)
  end.
Definition blk_check_all_in (r : blk_ranges) (total_blocks : Z) : bool :=
  match blk_all_in_loop r 0 with
  | None => false
  | Some block => negb (block + 1 <? total_blocks)
  end.

(* check_if_next_block (COAP_BLOCK_NOT_RANDOM_BLOCK1) *)
Definition blk_check_next (r : blk_ranges) (n : Z) : bool :=
  match r with
  | [] => n =? 0
  | _ => snd (last r (0, 0)) + 1 =? n
  end.

(* representation invariant: 0 <= begin <= end, ranges ascending, disjoint and not adjacent *)
Fixpoint blk_sorted_from (lo : Z) (r : blk_ranges) : Prop :=
  match r with
  | [] => True
  | (b, e) :: t => lo <= b /\ b <= e /\ blk_sorted_from (e + 2) t
  end.
Definition blk_inv (r : blk_ranges) : Prop := blk_sorted_from 0 r /\ len r <= blk_rblock_cnt - 1.

Fixpoint blk_sorted_fromb (lo : Z) (r : blk_ranges) : bool :=
  match r with
  | [] => true
  | (b, e) :: t => (lo <=? b) && (b <=? e) && blk_sorted_fromb (e + 2) t
  end.
Definition blk_invb (r : blk_ranges) : bool :=
  blk_sorted_fromb 0 r && (len r <=? blk_rblock_cnt - 1).

(* ------------------------------------------------------------------ body buffer *)
Definition blk_get (l : bytes) (i : Z) : Z := nth (Z.to_nat i) l 0.

(* memcpy(&body->s[off], data, len) *)
Definition blk_write (buf : bytes) (off : Z) (data : bytes) : bytes :=
  take off buf ++ data ++ drop (off + len data) buf.

(* fresh / grown storage is not initialised: its content is an arbitrary function of the index *)
Definition blk_fill (junk : Z -> Z) (a n : Z) : bytes := map junk (blk_range_from a n).

(* coap_resize_binary: realloc keeps the common prefix *)
Definition blk_resize_buf (junk : Z -> Z) (buf : bytes) (n : Z) : bytes :=
  if n <=? len buf then take n buf else buf ++ blk_fill junk (len buf) (n - len buf).

(* coap_block_build_body(body_data, length, data, offset, total), data != NULL, allocation
   succeeds.  None = NULL. *)
Definition blk_build_body (junk : Z -> Z) (body : option bytes) (data : bytes) (off total : Z)
  : option bytes :=
  let b0 := match body with
            | Some b => Some b
            | None => if total =? 0 then None else Some (blk_fill junk 0 total)
            end in
  match b0 with
  | None => None
  | Some b =>
      if (off + len data <=? total) && (total <=? len b) then Some (blk_write b off data)
      else Some (blk_write (blk_resize_buf junk b (off + len data)) off data)
  end.

(* ------------------------------------------------------------------ arrivals and receivers *)
(* one block message as the receiver sees it: decoded option, Size1/Size2 option, payload *)
Record blk_arr := { ba_num : Z; ba_m : Z; ba_szx : Z; ba_size : option Z; ba_data : bytes }.

(* lg_srcv / lg_crcv as far as reassembly goes *)
(* br_nomore = lg_srcv->no_more_seen: the final block (M = 0) has been seen (server only) *)
(* br_szx = lg_srcv->szx: the unit in which the server counts received blocks *)
Record blk_rcv := { br_rec : blk_ranges; br_total : Z; br_body : option bytes; br_nomore : bool;
                    br_szx : Z }.

Inductive blk_out :=
| BoContinue                  (* 2.31 / empty ACK / next block requested: nothing delivered *)
| BoReject                    (* 4.00 (server) / 4.02 (client): block of inconsistent size *)
| BoFail                      (* 4.08 "Too many missing blocks" / PARTIAL_BLOCK failure *)
| BoDeliver (body : bytes)    (* the application handler gets this body *)
| BoPass.                     (* not handled as part of a block-wise transfer *)

Definition blk_opt_z (o : option Z) : Z := match o with Some z => z | None => 0 end.

(* the "while (offset < saved_offset + length)" loop of the reassembly functions: the blocks
   n, n+1, ..., n+cnt-1 covered by one payload; (ranges, update_data) or None = refusal *)
Fixpoint blk_update_many (r : blk_ranges) (n : Z) (cnt : nat) : option (blk_ranges * bool) :=
  match cnt with
  | O => Some (r, false)
  | S c =>
      if blk_check_received r n then blk_update_many r (n + 1) c
      else match blk_update r n with
           | None => None
           | Some r' => match blk_update_many r' (n + 1) c with
                        | None => None
                        | Some (r'', _) => Some (r'', true)
                        end
           end
  end.

(* lg_srcv->szx at creation: a first block (NUM 0) larger than the configured maximum block
   size (COAP_BLOCK_MAX_SIZE_GET, 0 = not configured) is counted in the smaller unit *)
Definition blk_srv_init_szx (maxszx : Z) (a : blk_arr) : Z :=
  if (ba_num a =? 0) && negb (maxszx =? 0) && (maxszx <? ba_szx a) then maxszx else ba_szx a.

(* coap_handle_request_put_block, Block1, session->block_mode has COAP_BLOCK_SINGLE_BODY,
   no BERT/Q-Block1, one resource and Request-Tag (the lg_srcv lookup found [st] or nothing),
   same Content-Format; as repaired by /repo commits 06a7cfe (no_more_seen) and e2e5ed9 (a
   payload larger than lg_srcv->szx is recorded as the blocks of that size it covers; block
   numbers below 2^20, i.e. no wrap of the 20-bit field).
   Result: lg_srcv afterwards (None = none / freed) and the outcome. *)
Definition blk_srv_step (junk : Z -> Z) (maxszx : Z) (st : option blk_rcv) (a : blk_arr)
  : option blk_rcv * blk_out :=
  let chunk_a := blk_chunk (ba_szx a) in
  if (ba_num a =? 0) && (ba_m a =? 0) then (st, BoPass) else
  let data := if chunk_a <? len (ba_data a) then take chunk_a (ba_data a) else ba_data a in
  if (len (ba_data a) <=? chunk_a) && (ba_m a =? 1) && negb (len (ba_data a) =? chunk_a)
  then (st, BoReject) else
  let offset := ba_num a * chunk_a in
  let s0 := match st with
            | Some s => s
            | None => {| br_rec := []; br_total := blk_opt_z (ba_size a); br_body := None;
                        br_nomore := false; br_szx := blk_srv_init_szx maxszx a |}
            end in
  (* unit and first block number in that unit *)
  let u := if br_szx s0 <? ba_szx a then br_szx s0 else ba_szx a in
  let n0 := if br_szx s0 <? ba_szx a then ba_num a * 2 ^ (ba_szx a - br_szx s0) else ba_num a in
  let chunk := blk_chunk u in
  let cnt := Z.to_nat ((len data + chunk - 1) / chunk) in
  match blk_update_many (br_rec s0) n0 cnt with
  | None => (None, BoFail)                                      (* 4.08, goto free_lg_srcv *)
  | Some (r', update_data) =>
      let total' := if update_data && (br_total s0 <? offset + len data)
                    then offset + len data else br_total s0 in
      let body' := if update_data then blk_build_body junk (br_body s0) data offset total'
                   else br_body s0 in
      let allin := blk_check_all_in r' ((total' + chunk - 1) / chunk) in
      (* M set: the body is complete only if the final block was seen before (no_more_seen)
         and everything is in; M clear: complete if everything is in, else no_more_seen = 1 *)
      let complete := if ba_m a =? 1 then br_nomore s0 && allin else allin in
      if complete then
        (* give_app_data; the lg_srcv is released after the handler ran *)
        (None, BoDeliver (match body' with Some b => take total' b | None => [] end))
      else (Some {| br_rec := r'; br_total := total'; br_body := body';
                    br_nomore := if ba_m a =? 1 then br_nomore s0 else true;
                    br_szx := br_szx s0 |}, BoContinue)
  end.

(* coap_handle_response_get_block, Block2, COAP_BLOCK_SINGLE_BODY, no BERT/Q-Block2, the
   lg_crcv was found, 2.xx response, same ETag and Content-Format.  [st] = None stands for
   lg_crcv->initial.  After a delivery the lg_crcv is deleted (no Observe). *)
Definition blk_cli_step (junk : Z -> Z) (st : option blk_rcv) (a : blk_arr)
  : option blk_rcv * blk_out :=
  let chunk := blk_chunk (ba_szx a) in
  if negb ((ba_m a =? 1) || (0 <? len (ba_data a))) then (None, BoPass) else
  let data := if chunk <? len (ba_data a) then take chunk (ba_data a) else ba_data a in
  if (ba_m a =? 1) && negb (len data =? chunk) then (None, BoReject) else
  let offset := ba_num a * chunk in
  let size2 := let s := blk_opt_z (ba_size a) in
               if s <? offset + len data
               then (if ba_m a =? 1 then offset + len data + 1 else offset + len data)
               else s in
  let s0 := match st with
            | Some s => s
            | None => {| br_rec := []; br_total := size2; br_body := None; br_nomore := false;
                        br_szx := ba_szx a |}
            end in
  let total' := if br_total s0 <? size2 then size2 else br_total s0 in
  let upd :=
    if 0 <? len data then
      if blk_check_received (br_rec s0) (ba_num a) then Some (br_rec s0, false)
      else match blk_update (br_rec s0) (ba_num a) with
           | Some r' => Some (r', true)
           | None => None
           end
    else Some (br_rec s0, false) in
  match upd with
  | None => (* fail_resp: the lg_crcv stays (cached for a second), nothing was stored *)
      (Some {| br_rec := br_rec s0; br_total := total'; br_body := br_body s0; br_nomore := false;
               br_szx := br_szx s0 |}, BoFail)
  | Some (r', false) =>
      (Some {| br_rec := r'; br_total := total'; br_body := br_body s0; br_nomore := false;
               br_szx := br_szx s0 |}, BoContinue)
  | Some (r', true) =>
      let size2' := if size2 <? offset + len data then offset + len data else size2 in
      let body' := blk_build_body junk (br_body s0) data offset size2' in
      if (ba_m a =? 1) || negb (blk_check_all_in r' ((size2' + chunk - 1) / chunk)) then
        (Some {| br_rec := r'; br_total := total'; br_body := body'; br_nomore := false;
                 br_szx := br_szx s0 |}, BoContinue)
      else
        (None, BoDeliver (match body' with Some b => take (offset + len data) b | None => [] end))
  end.

(* a receiver run over a sequence of arrivals: outcomes in order *)
Fixpoint blk_run (step : option blk_rcv -> blk_arr -> option blk_rcv * blk_out)
         (st : option blk_rcv) (l : list blk_arr) : list blk_out :=
  match l with
  | [] => []
  | a :: t => let '(st', o) := step st a in o :: blk_run step st' t
  end.

(* the arrival that a correct sender produces for block k of [body] at size [szx] *)
Definition blk_arr_of (body : bytes) (szx : Z) (size : option Z) (k : Z) : blk_arr :=
  {| ba_num := k; ba_m := if blk_more body szx k then 1 else 0; ba_szx := szx;
     ba_size := size; ba_data := blk_slice body szx k |}.

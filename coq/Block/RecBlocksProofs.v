(* C09 layer 2 proofs: the range array represents a set of block numbers; reassembly of any
   arrival sequence consistent with one body delivers that body, and a further delivery needs a
   complete further copy of the transfer. *)
From LibcoapV Require Import Base.Tactics Base.Bytes Base.BytesProofs Block.BlockOpt
  Block.BlockOptProofs Block.Slices Block.SlicesProofs Block.RecBlocks.
Local Open Scope Z_scope.

(* ------------------------------------------------------------------ membership *)
Fixpoint blk_memP (r : blk_ranges) (k : Z) : Prop :=
  match r with
  | [] => False
  | (b, e) :: t => b <= k <= e \/ blk_memP t k
  end.

Lemma blk_abs_mem r k : In k (blk_abs r) <-> blk_memP r k.
Proof.
  unfold blk_abs. induction r as [|[b e] t IH]; cbn [flat_map blk_memP]; [tauto|].
  rewrite in_app_iff, IH, blk_in_range_from. cbn [fst snd]. intuition lia.
Qed.

Lemma blk_sorted_weaken lo lo' r : lo' <= lo -> blk_sorted_from lo r -> blk_sorted_from lo' r.
Proof. destruct r as [|[b e] t]; cbn; [tauto|]. intuition lia. Qed.

Lemma blk_sorted_mem_ge lo r k : blk_sorted_from lo r -> blk_memP r k -> lo <= k.
Proof.
  revert lo. induction r as [|[b e] t IH]; cbn; [tauto|]. intros lo (H1 & H2 & H3) [M|M]; [lia|].
  specialize (IH _ H3 M). lia.
Qed.

Lemma blk_sorted_in lo r b e : blk_sorted_from lo r -> In (b, e) r -> lo <= b <= e.
Proof.
  revert lo. induction r as [|[b2 e2] t IH]; cbn; [tauto|]. intros lo (H1 & H2 & H3) [HI|HI].
  - inversion HI; subst. lia.
  - specialize (IH _ H3 HI). lia.
Qed.

Lemma blk_sorted_fromb_spec lo r : blk_sorted_fromb lo r = true <-> blk_sorted_from lo r.
Proof.
  revert lo. induction r as [|[b e] t IH]; intros lo; cbn; [tauto|].
  rewrite !andb_true_iff, IH, !Z.leb_le. tauto.
Qed.

Lemma blk_invb_spec r : blk_invb r = true <-> blk_inv r.
Proof. unfold blk_invb, blk_inv. rewrite andb_true_iff, blk_sorted_fromb_spec, Z.leb_le. tauto. Qed.

(* ------------------------------------------------------------------ update_received_blocks *)
Lemma blk_upd_loop_spec used : forall l lo n, blk_sorted_from lo l -> lo <= n ->
  match blk_upd_loop used l n with
  | Some l' => blk_sorted_from lo l' /\ (forall k, blk_memP l' k <-> k = n \/ blk_memP l k) /\
               len l' <= len l + (if used =? blk_rblock_cnt - 1 then 0 else 1)
  | None => used = blk_rblock_cnt - 1 /\
            (forall b e, In (b, e) l -> n + 1 < b \/ e + 1 < n)
  end.
Proof.
  induction l as [|[b e] t IH]; intros lo n Hs Hn.
  - cbn [blk_upd_loop]. destruct (used =? blk_rblock_cnt - 1) eqn:E.
    + split; [lia|]. intros ? ? [].
    + cbn [blk_sorted_from blk_memP]. rewrite !len_cons, len_nil.
      split; [lia|]. split; [intros k; intuition lia | lia].
  - cbn [blk_sorted_from] in Hs. destruct Hs as (H1 & H2 & H3).
    cbn [blk_upd_loop].
    destruct ((b <=? n) && (n <=? e)) eqn:Ein.
    { cbn [blk_sorted_from blk_memP]. split; [tauto|]. split; [intros k; intuition lia|].
      destruct (used =? _); lia. }
    destruct (n <? b) eqn:Elt.
    { destruct (n + 1 =? b) eqn:Eadj.
      - cbn [blk_sorted_from blk_memP]. rewrite !len_cons.
        split; [intuition lia|]. split; [intros k; intuition lia|]. destruct (used =? _); lia.
      - destruct (used =? blk_rblock_cnt - 1) eqn:E.
        + split; [lia|]. intros b' e' [HI|HI].
          * inversion HI; subst. lia.
          * left. pose proof (blk_sorted_in _ _ _ _ H3 HI). lia.
        + cbn [blk_sorted_from blk_memP]. rewrite !len_cons.
          split; [intuition lia|]. split; [intros k; intuition lia|]. lia. }
    destruct (n =? e + 1) eqn:Enext.
    { destruct t as [|[b2 e2] t2].
      - cbn [blk_sorted_from blk_memP]. rewrite !len_cons, len_nil.
        split; [intuition lia|]. split; [intros k; intuition lia|]. destruct (used =? _); lia.
      - cbn [blk_sorted_from] in H3. destruct H3 as (G1 & G2 & G3).
        destruct (b2 =? n + 1) eqn:Em.
        + cbn [blk_sorted_from blk_memP]. rewrite !len_cons.
          split; [intuition lia|]. split; [intros k; intuition lia|]. destruct (used =? _); lia.
        + cbn [blk_sorted_from blk_memP]. rewrite !len_cons.
          split; [intuition lia|]. split; [intros k; intuition lia|]. destruct (used =? _); lia. }
    specialize (IH (e + 2) n H3 ltac:(lia)).
    destruct (blk_upd_loop used t n) as [t'|].
    + destruct IH as (I1 & I2 & I3). cbn [blk_sorted_from blk_memP]. rewrite !len_cons.
      split; [intuition lia|]. split; [|lia].
      intros k. rewrite I2. intuition lia.
    + destruct IH as (I1 & I2). split; [exact I1|].
      intros b' e' [HI|HI]; [inversion HI; subst; lia|]. apply I2; exact HI.
Qed.

(* the converse of the failure case: a refusal happens only when the array is full and the
   block is isolated; otherwise the update succeeds *)
Lemma blk_upd_loop_none used : forall l lo n, blk_sorted_from lo l -> lo <= n ->
  used = blk_rblock_cnt - 1 -> (forall b e, In (b, e) l -> n + 1 < b \/ e + 1 < n) ->
  blk_upd_loop used l n = None.
Proof.
  induction l as [|[b e] t IH]; intros lo n Hs Hn Hu Hiso.
  - cbn [blk_upd_loop]. subst used. reflexivity.
  - cbn [blk_sorted_from] in Hs. destruct Hs as (H1 & H2 & H3).
    pose proof (Hiso b e (or_introl eq_refl)) as Hbe.
    cbn [blk_upd_loop].
    destruct ((b <=? n) && (n <=? e)) eqn:Ein; [lia|].
    destruct (n <? b) eqn:Elt.
    { destruct (n + 1 =? b) eqn:Eadj; [lia|]. subst used. reflexivity. }
    destruct (n =? e + 1) eqn:Enext; [lia|].
    rewrite (IH (e + 2) n H3 ltac:(lia) Hu); [reflexivity|].
    intros b' e' HI. apply Hiso. right. exact HI.
Qed.

Theorem blk_update_inv r n : blk_inv r -> 0 <= n ->
  forall r', blk_update r n = Some r' -> blk_inv r'.
Proof.
  intros (Hs & Hl) Hn r' H. unfold blk_update in H.
  pose proof (blk_upd_loop_spec (len r) r 0 n Hs Hn) as S. rewrite H in S.
  destruct S as (S1 & S2 & S3). split; [exact S1|].
  destruct (len r =? blk_rblock_cnt - 1) eqn:E; lia.
Qed.

Theorem blk_update_mem r n : blk_inv r -> 0 <= n ->
  forall r', blk_update r n = Some r' ->
  forall k, In k (blk_abs r') <-> k = n \/ In k (blk_abs r).
Proof.
  intros (Hs & Hl) Hn r' H k. unfold blk_update in H.
  pose proof (blk_upd_loop_spec (len r) r 0 n Hs Hn) as S. rewrite H in S.
  destruct S as (S1 & S2 & S3). rewrite !blk_abs_mem. apply S2.
Qed.

(* the update is refused exactly when all COAP_RBLOCK_CNT-1 usable ranges are taken and the
   block neither lies in nor touches one of them *)
Theorem blk_update_none_iff r n : blk_inv r -> 0 <= n ->
  (blk_update r n = None <->
   len r = blk_rblock_cnt - 1 /\ forall b e, In (b, e) r -> n + 1 < b \/ e + 1 < n).
Proof.
  intros (Hs & Hl) Hn. unfold blk_update. split.
  - intros H. pose proof (blk_upd_loop_spec (len r) r 0 n Hs Hn) as S. rewrite H in S. exact S.
  - intros (H1 & H2). eapply blk_upd_loop_none; eauto.
Qed.

(* ------------------------------------------------------------------ check_if_received_block *)
Lemma blk_check_received_spec_from lo r n : blk_sorted_from lo r ->
  (blk_check_received r n = true <-> blk_memP r n).
Proof.
  revert lo. induction r as [|[b e] t IH]; intros lo Hs; cbn [blk_check_received blk_memP].
  - split; [discriminate|tauto].
  - cbn [blk_sorted_from] in Hs. destruct Hs as (H1 & H2 & H3).
    destruct (n <? b) eqn:E1.
    + split; [discriminate|]. intros [M|M]; [lia|].
      pose proof (blk_sorted_mem_ge _ _ _ H3 M). lia.
    + destruct (n <=? e) eqn:E2.
      * split; [intros _; left; lia|reflexivity].
      * rewrite (IH _ H3). intuition lia.
Qed.

Theorem blk_check_received_spec r n : blk_inv r ->
  (blk_check_received r n = true <-> In n (blk_abs r)).
Proof. intros (Hs & _). rewrite blk_abs_mem. eapply blk_check_received_spec_from; eauto. Qed.

(* ------------------------------------------------------------------ check_all_blocks_in *)
Lemma blk_check_all_in_shape r total : blk_sorted_from 0 r -> r <> [] ->
  (blk_check_all_in r total = true <-> exists e, r = [(0, e)] /\ total <= e + 1).
Proof.
  intros Hs Hne. destruct r as [|[b e] t]; [congruence|].
  cbn [blk_sorted_from] in Hs. destruct Hs as (H1 & H2 & H3).
  unfold blk_check_all_in. cbn [blk_all_in_loop].
  destruct (0 <? b) eqn:E1.
  { split; [discriminate|]. intros (e' & He & _). inversion He. lia. }
  assert (b = 0) by lia. subst b.
  assert ((if 0 <? e then e else 0) = e) as -> by (destruct (0 <? e) eqn:E; lia).
  destruct t as [|[b2 e2] t2].
  - cbn [blk_all_in_loop]. rewrite negb_true_iff, Z.ltb_ge. split.
    + intros H. exists e. split; [reflexivity|lia].
    + intros (e' & He & Ht). inversion He; subst. lia.
  - cbn [blk_sorted_from] in H3. destruct H3 as (G1 & G2 & G3). cbn [blk_all_in_loop].
    destruct (e <? b2) eqn:E2; [|lia]. split; [discriminate|].
    intros (e' & He & _). inversion He.
Qed.

(* The C function answers "all in" exactly when blocks 0 .. total-1 are all present, provided
   it is asked about a total that covers every recorded block (the callers pass
   ceil(total_len / chunk) with total_len >= end of every stored block) and at least one block
   is recorded (the callers record the current block first).  Outside these two conditions
   the function is not the set predicate - see blk_check_all_in_corners. *)
Theorem blk_check_all_in_spec r total : blk_inv r -> r <> [] ->
  (forall k, In k (blk_abs r) -> k < total) ->
  (blk_check_all_in r total = true <-> forall k, 0 <= k < total -> In k (blk_abs r)).
Proof.
  intros (Hs & _) Hne Hb. rewrite (blk_check_all_in_shape r total Hs Hne). split.
  - intros (e & -> & He) k Hk. rewrite blk_abs_mem. cbn [blk_memP]. left. lia.
  - intros H. destruct r as [|[b e] t]; [congruence|].
    cbn [blk_sorted_from] in Hs. destruct Hs as (H1 & H2 & H3).
    assert (Hbt : b < total) by (apply Hb; rewrite blk_abs_mem; cbn [blk_memP]; left; lia).
    pose proof (H 0 ltac:(lia)) as M0. rewrite blk_abs_mem in M0. cbn [blk_memP] in M0.
    assert (b = 0).
    { destruct M0 as [M0|M0]; [lia|]. pose proof (blk_sorted_mem_ge _ _ _ H3 M0). lia. }
    subst b.
    destruct t as [|[b2 e2] t2].
    + exists e. split; [reflexivity|].
      destruct (Z_le_gt_dec total (e + 1)); [assumption|]. exfalso.
      pose proof (H (e + 1) ltac:(lia)) as M. rewrite blk_abs_mem in M. cbn [blk_memP] in M. lia.
    + exfalso. cbn [blk_sorted_from] in H3. destruct H3 as (G1 & G2 & G3).
      assert (b2 < total) by (apply Hb; rewrite blk_abs_mem; cbn [blk_memP]; right; left; lia).
      pose proof (H (e + 1) ltac:(lia)) as M. rewrite blk_abs_mem in M. cbn [blk_memP] in M.
      destruct M as [M|[M|M]]; [lia|lia|].
      pose proof (blk_sorted_mem_ge _ _ _ G3 M). lia.
Qed.

Example blk_check_all_in_corners :
  blk_check_all_in [] 1 = true /\                   (* nothing recorded, one block expected *)
  blk_check_all_in [(0, 5); (8, 9)] 3 = false /\    (* 0,1,2 present, asked about 3 blocks *)
  blk_check_all_in [(0, 5)] 6 = true /\ blk_check_all_in [(0, 5)] 7 = false /\
  blk_check_all_in [(1, 5)] 6 = false.
Proof. vm_compute. repeat split. Qed.

(* non-vacuity for the range theorems: fill, merge, refuse *)
Example blk_update_examples :
  blk_update [] 4 = Some [(4, 4)] /\
  blk_update [(0, 1); (3, 3)] 2 = Some [(0, 3)] /\
  blk_update [(0, 1); (5, 5); (9, 9)] 3 = None /\
  blk_update [(0, 1); (5, 5); (9, 9)] 4 = Some [(0, 1); (4, 5); (9, 9)] /\
  blk_update [(0, 1); (5, 5); (9, 9)] 12 = None /\
  blk_update [(2, 2); (5, 5)] 0 = Some [(0, 0); (2, 2); (5, 5)] /\
  blk_inv [(0, 1); (5, 5); (9, 9)].
Proof. do 6 (split; [vm_compute; reflexivity|]). apply blk_invb_spec. vm_compute. reflexivity. Qed.

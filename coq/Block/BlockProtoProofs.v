(* C09 layer 3 proofs. *)
From LibcoapV Require Import Base.Tactics Base.Bytes Base.BytesProofs Block.BlockOpt
  Block.BlockOptProofs Block.Slices Block.SlicesProofs Block.RecBlocks Block.RecBlocksProofs
  Block.BufProofs Block.ReassemblyProofs Block.BlockProto.
Local Open Scope Z_scope.

(* ------------------------------------------------------------------ (A) the lg_srcv table *)
Lemma blk_rtag_match_refl a : blk_rtag_match a a = true.
Proof. destruct a; cbn; [apply Z.eqb_refl|reflexivity]. Qed.

Lemma blk_rtag_match_sym a b : blk_rtag_match a b = blk_rtag_match b a.
Proof. destruct a, b; cbn; try reflexivity. apply Z.eqb_sym. Qed.

Lemma blk_rtag_match_eq a b : blk_rtag_match a b = true -> a = b.
Proof. destruct a, b; cbn; try discriminate; [|reflexivity]. intros H. f_equal. lia. Qed.

Fixpoint blk_tab_uniq (t : blk_srv_tab) : Prop :=
  match t with
  | [] => True
  | (k, _) :: t' => blk_tab_find t' k = None /\ blk_tab_uniq t'
  end.

Lemma blk_find_remove_other t rt rt' : blk_rtag_match rt rt' = false ->
  blk_tab_find (blk_tab_remove t rt') rt = blk_tab_find t rt.
Proof.
  intros H. induction t as [|[k s] t IH]; cbn [blk_tab_remove blk_tab_find]; [reflexivity|].
  destruct (blk_rtag_match rt' k) eqn:E1.
  - apply blk_rtag_match_eq in E1. subst k. rewrite H. reflexivity.
  - cbn [blk_tab_find]. rewrite IH. reflexivity.
Qed.

Lemma blk_find_replace_other t rt rt' s' : blk_rtag_match rt rt' = false ->
  blk_tab_find (blk_tab_replace t rt' s') rt = blk_tab_find t rt.
Proof.
  intros H. induction t as [|[k s] t IH]; cbn [blk_tab_replace blk_tab_find]; [reflexivity|].
  destruct (blk_rtag_match rt' k) eqn:E1; cbn [blk_tab_find].
  - apply blk_rtag_match_eq in E1. subst k. rewrite H. reflexivity.
  - rewrite IH. reflexivity.
Qed.

Lemma blk_find_remove_same t rt : blk_tab_uniq t -> blk_tab_find (blk_tab_remove t rt) rt = None.
Proof.
  induction t as [|[k s] t IH]; cbn [blk_tab_remove blk_tab_find blk_tab_uniq]; [reflexivity|].
  intros (U1 & U2). destruct (blk_rtag_match rt k) eqn:E1.
  - apply blk_rtag_match_eq in E1. subst k. exact U1.
  - cbn [blk_tab_find]. rewrite E1. apply IH, U2.
Qed.

Lemma blk_find_replace_same t rt s' : blk_tab_find t rt <> None ->
  blk_tab_find (blk_tab_replace t rt s') rt = Some s'.
Proof.
  induction t as [|[k s] t IH]; cbn [blk_tab_replace blk_tab_find]; [congruence|].
  intros H. destruct (blk_rtag_match rt k) eqn:E1; cbn [blk_tab_find]; rewrite E1; [reflexivity|].
  apply IH, H.
Qed.

Lemma blk_uniq_remove t rt : blk_tab_uniq t -> blk_tab_uniq (blk_tab_remove t rt).
Proof.
  induction t as [|[k s] t IH]; cbn [blk_tab_remove blk_tab_uniq]; [tauto|].
  intros (U1 & U2). destruct (blk_rtag_match rt k) eqn:E1; [exact U2|].
  cbn [blk_tab_uniq]. split; [|apply IH, U2].
  rewrite blk_find_remove_other; [exact U1|]. rewrite blk_rtag_match_sym. exact E1.
Qed.

Lemma blk_uniq_replace t rt s' : blk_tab_uniq t -> blk_tab_uniq (blk_tab_replace t rt s').
Proof.
  induction t as [|[k s] t IH]; cbn [blk_tab_replace blk_tab_uniq]; [tauto|].
  intros (U1 & U2). destruct (blk_rtag_match rt k) eqn:E1; cbn [blk_tab_uniq].
  - split; assumption.
  - split; [|apply IH, U2].
    rewrite blk_find_replace_other; [exact U1|]. rewrite blk_rtag_match_sym. exact E1.
Qed.

(* Pass and Reject are decided before the lg_srcv is looked up: the state is not touched *)
Lemma blk_srv_step_pass_reject junk maxszx st a :
  (snd (blk_srv_step junk maxszx st a) = BoPass \/ snd (blk_srv_step junk maxszx st a) = BoReject) ->
  fst (blk_srv_step junk maxszx st a) = st.
Proof.
  unfold blk_srv_step.
  destruct ((ba_num a =? 0) && (ba_m a =? 0)); [intros _; reflexivity|].
  destruct ((len (ba_data a) <=? blk_chunk (ba_szx a)) && (ba_m a =? 1) &&
            negb (len (ba_data a) =? blk_chunk (ba_szx a))); [intros _; reflexivity|].
  match goal with |- context [blk_update_many ?r ?n ?c] => destruct (blk_update_many r n c) as [[r' upd]|] end.
  - match goal with |- context [if ?b then (None, BoDeliver _) else _] => destruct b end;
      cbn [fst snd]; intros [H|H]; discriminate.
  - cbn [fst snd]. intros [H|H]; discriminate.
Qed.

(* what one request does to the table entry of its own Request-Tag, and to the others *)
Lemma blk_srv_recv_entry junk maxszx tab r : blk_tab_uniq tab ->
  snd (blk_srv_recv junk maxszx tab r) =
    snd (blk_srv_step junk maxszx (blk_tab_find tab (rq_rtag r)) (rq_arr r)) /\
  blk_tab_find (fst (blk_srv_recv junk maxszx tab r)) (rq_rtag r) =
    fst (blk_srv_step junk maxszx (blk_tab_find tab (rq_rtag r)) (rq_arr r)) /\
  (forall rt, blk_rtag_match rt (rq_rtag r) = false ->
     blk_tab_find (fst (blk_srv_recv junk maxszx tab r)) rt = blk_tab_find tab rt) /\
  blk_tab_uniq (fst (blk_srv_recv junk maxszx tab r)).
Proof.
  intros U. unfold blk_srv_recv.
  pose proof (blk_srv_step_pass_reject junk maxszx (blk_tab_find tab (rq_rtag r)) (rq_arr r)) as PR.
  destruct (blk_srv_step junk maxszx (blk_tab_find tab (rq_rtag r)) (rq_arr r)) as [st' o] eqn:E.
  cbn [fst snd] in *.
  assert (Gen : forall tab', (tab' =
            match blk_tab_find tab (rq_rtag r), st' with
            | None, None => tab
            | None, Some s => (rq_rtag r, s) :: tab
            | Some _, None => blk_tab_remove tab (rq_rtag r)
            | Some _, Some s => blk_tab_replace tab (rq_rtag r) s
            end) ->
          blk_tab_find tab' (rq_rtag r) = st' /\
          (forall rt, blk_rtag_match rt (rq_rtag r) = false -> blk_tab_find tab' rt = blk_tab_find tab rt) /\
          blk_tab_uniq tab').
  { intros tab' ->. destruct (blk_tab_find tab (rq_rtag r)) as [s0|] eqn:F; destruct st' as [s1|].
    - split; [apply blk_find_replace_same; congruence|]. split; [|apply blk_uniq_replace, U].
      intros rt H. apply blk_find_replace_other, H.
    - split; [apply blk_find_remove_same, U|]. split; [|apply blk_uniq_remove, U].
      intros rt H. apply blk_find_remove_other, H.
    - split; [cbn [blk_tab_find]; rewrite blk_rtag_match_refl; reflexivity|]. split.
      + intros rt H. cbn [blk_tab_find]. rewrite H. reflexivity.
      + cbn [blk_tab_uniq]. split; assumption.
    - split; [exact F|]. split; [intros; reflexivity|exact U]. }
  assert (Same : (o = BoPass \/ o = BoReject) ->
            blk_tab_find tab (rq_rtag r) = st' /\
            (forall rt, blk_rtag_match rt (rq_rtag r) = false -> blk_tab_find tab rt = blk_tab_find tab rt) /\
            blk_tab_uniq tab).
  { intros H. rewrite (PR H). split; [reflexivity|]. split; [intros; reflexivity|exact U]. }
  destruct o.
  - destruct (blk_tab_find tab (rq_rtag r)) as [s0|] eqn:F; destruct st' as [s1|]; cbn [fst snd];
      (split; [reflexivity|]); apply Gen; rewrite ?F; reflexivity.
  - cbn [fst snd]. split; [reflexivity|]. apply Same. right. reflexivity.
  - destruct (blk_tab_find tab (rq_rtag r)) as [s0|] eqn:F; destruct st' as [s1|]; cbn [fst snd];
      (split; [reflexivity|]); apply Gen; rewrite ?F; reflexivity.
  - destruct (blk_tab_find tab (rq_rtag r)) as [s0|] eqn:F; destruct st' as [s1|]; cbn [fst snd];
      (split; [reflexivity|]); apply Gen; rewrite ?F; reflexivity.
  - cbn [fst snd]. split; [reflexivity|]. apply Same. left. reflexivity.
Qed.

Lemma blk_find_match tab a b : blk_rtag_match a b = true -> blk_tab_find tab a = blk_tab_find tab b.
Proof. intros H. apply blk_rtag_match_eq in H. subst. reflexivity. Qed.

(* the requests of one transfer see exactly what they would see if they were alone: the
   outcomes for Request-Tag t are the run of the reassembly core over t's requests only *)
Theorem blk_srv_recv_projection junk maxszx : forall l tab t, blk_tab_uniq tab ->
  map snd (filter (fun p => blk_rtag_match t (fst p)) (blk_srv_recv_run junk maxszx tab l)) =
  blk_run (blk_srv_step junk maxszx) (blk_tab_find tab t)
          (map rq_arr (filter (fun r => blk_rtag_match t (rq_rtag r)) l)).
Proof.
  induction l as [|r l IH]; intros tab t U; [reflexivity|].
  cbn [blk_srv_recv_run filter].
  pose proof (blk_srv_recv_entry junk maxszx tab r U) as S.
  destruct (blk_srv_recv junk maxszx tab r) as [tab' o].
  cbn [fst snd] in S. destruct S as (Eo & S2 & S3 & S4).
  cbn [filter fst].
  destruct (blk_rtag_match t (rq_rtag r)) eqn:M.
  - cbn [map snd blk_run]. rewrite (blk_find_match tab t (rq_rtag r) M).
    destruct (blk_srv_step junk maxszx (blk_tab_find tab (rq_rtag r)) (rq_arr r)) as [st' o'] eqn:E.
    cbn [fst snd] in *. f_equal; [exact Eo|].
    rewrite (IH tab' t S4). rewrite (blk_find_match tab' t (rq_rtag r) M), S2. reflexivity.
  - rewrite (IH tab' t S4). rewrite (S3 t M). reflexivity.
Qed.

(* Two concurrent uploads on one session and resource, told apart by their Request-Tags, do
   not mix: whatever the interleaving, loss and duplication, every body delivered for
   Request-Tag t is the body of transfer t, and is delivered no more often than any of its
   blocks arrived. *)
Theorem blk_srv_no_mix (bodies : Z -> bytes) (sizes : Z -> option Z) u junk maxszx l :
  0 <= u ->
  Forall (fun r => exists t s k, rq_rtag r = Some t /\
                    u <= s /\ 0 <= k < blk_nblocks (bodies t) s /\
                    rq_arr r = blk_arr_of (bodies t) s (sizes t) k /\
                    blk_srv_init_szx maxszx (rq_arr r) = u) l ->
  forall t, 0 < len (bodies t) -> sizes t = None \/ sizes t = Some (len (bodies t)) ->
  let outs := map snd (filter (fun p => blk_rtag_match (Some t) (fst p))
                         (blk_srv_recv_run junk maxszx [] l)) in
  Forall (fun o => match o with BoDeliver d => d = bodies t | BoReject => False | _ => True end) outs /\
  forall j, 0 <= j < blk_nblocks (bodies t) u ->
    blk_count_deliveries outs <=
    blk_count_cover u j (map rq_arr (filter (fun r => blk_rtag_match (Some t) (rq_rtag r)) l)).
Proof.
  intros Hu Hl t Ht Hsz outs. unfold outs. rewrite (blk_srv_recv_projection junk maxszx l [] (Some t) I).
  cbn [blk_tab_find].
  apply (blk_srv_reassembly (bodies t) u junk maxszx Hu Ht (sizes t)); [exact Hsz|].
  unfold rs_srv_arrivals. rewrite Forall_forall in *. intros a Ha.
  apply in_map_iff in Ha. destruct Ha as (r & <- & Hr). apply filter_In in Hr. destruct Hr as (Hr & M).
  destruct (Hl r Hr) as (t' & s & k & E1 & E2 & E3 & E4 & E5).
  rewrite E1 in M. cbn in M. assert (t' = t) by lia. subst t'.
  exists s, k. split; [exact E2|]. split; [exact E3|]. split; [exact E4|exact E5].
Qed.

(* Without Request-Tags the lookup cannot tell two uploads to one resource apart: their
   blocks go into one lg_srcv and the delivered "body" is a mixture.  (A libcoap client adds a
   Request-Tag to every Block1 transfer; this is what it protects against.) *)
Example blk_srv_mix_without_rtag :
  let b1 := map (fun i => Z.of_nat i) (seq 0 40) in
  let b2 := map (fun i => 100 + Z.of_nat i) (seq 0 40) in
  let rq b k := {| rq_rtag := None; rq_arr := blk_arr_of b 0 (Some 40) k |} in
  exists d, In (None, BoDeliver d)
              (blk_srv_recv_run (fun _ => 0) 0 [] [rq b1 0; rq b2 1; rq b1 2]) /\
            d <> b1 /\ d <> b2.
Proof.
  eexists. split.
  - vm_compute. right. right. left. reflexivity.
  - split; vm_compute; discriminate.
Qed.

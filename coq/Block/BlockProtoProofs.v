(* C09 layer 3 proofs. *)
From LibcoapV Require Import Base.Tactics Base.Bytes Base.BytesProofs Block.BlockOpt
  Block.BlockOptProofs Block.Slices Block.SlicesProofs Block.RecBlocks Block.RecBlocksProofs
  Block.BufProofs Block.ReassemblyProofs Block.BlockProto.
Local Open Scope Z_scope.

(* ------------------------------------------------------------------ (A) the lg_srcv table *)
Lemma blk_rtag_match_refl0 a : blk_rtag_match a a = true.
Proof. destruct a; cbn; [apply Z.eqb_refl|reflexivity]. Qed.

Lemma blk_rtag_match_sym0 a b : blk_rtag_match a b = blk_rtag_match b a.
Proof. destruct a, b; cbn; try reflexivity. apply Z.eqb_sym. Qed.

Lemma blk_rtag_match_eq0 a b : blk_rtag_match a b = true -> a = b.
Proof. destruct a, b; cbn; try discriminate; [|reflexivity]. intros H. f_equal. lia. Qed.

Lemma blk_key_match_refl a : blk_key_match a a = true.
Proof. unfold blk_key_match. rewrite blk_rtag_match_refl0, Z.eqb_refl. reflexivity. Qed.

Lemma blk_key_match_sym a b : blk_key_match a b = blk_key_match b a.
Proof. unfold blk_key_match. rewrite blk_rtag_match_sym0, Z.eqb_sym. reflexivity. Qed.

Lemma blk_key_match_eq a b : blk_key_match a b = true -> a = b.
Proof.
  unfold blk_key_match. intros H. apply andb_true_iff in H. destruct H as (H1 & H2).
  apply blk_rtag_match_eq0 in H1. destruct a, b; cbn [fst snd] in *. f_equal; [lia|exact H1].
Qed.

Fixpoint blk_tab_uniq (t : blk_srv_tab) : Prop :=
  match t with
  | [] => True
  | (k, _) :: t' => blk_tab_find t' k = None /\ blk_tab_uniq t'
  end.

Lemma blk_find_remove_other t rt rt' : blk_key_match rt rt' = false ->
  blk_tab_find (blk_tab_remove t rt') rt = blk_tab_find t rt.
Proof.
  intros H. induction t as [|[k s] t IH]; cbn [blk_tab_remove blk_tab_find]; [reflexivity|].
  destruct (blk_key_match rt' k) eqn:E1.
  - apply blk_key_match_eq in E1. subst k. rewrite H. reflexivity.
  - cbn [blk_tab_find]. rewrite IH. reflexivity.
Qed.

Lemma blk_find_replace_other t rt rt' s' : blk_key_match rt rt' = false ->
  blk_tab_find (blk_tab_replace t rt' s') rt = blk_tab_find t rt.
Proof.
  intros H. induction t as [|[k s] t IH]; cbn [blk_tab_replace blk_tab_find]; [reflexivity|].
  destruct (blk_key_match rt' k) eqn:E1; cbn [blk_tab_find].
  - apply blk_key_match_eq in E1. subst k. rewrite H. reflexivity.
  - rewrite IH. reflexivity.
Qed.

Lemma blk_find_remove_same t rt : blk_tab_uniq t -> blk_tab_find (blk_tab_remove t rt) rt = None.
Proof.
  induction t as [|[k s] t IH]; cbn [blk_tab_remove blk_tab_find blk_tab_uniq]; [reflexivity|].
  intros (U1 & U2). destruct (blk_key_match rt k) eqn:E1.
  - apply blk_key_match_eq in E1. subst k. exact U1.
  - cbn [blk_tab_find]. rewrite E1. apply IH, U2.
Qed.

Lemma blk_find_replace_same t rt s' : blk_tab_find t rt <> None ->
  blk_tab_find (blk_tab_replace t rt s') rt = Some s'.
Proof.
  induction t as [|[k s] t IH]; cbn [blk_tab_replace blk_tab_find]; [congruence|].
  intros H. destruct (blk_key_match rt k) eqn:E1; cbn [blk_tab_find]; rewrite E1; [reflexivity|].
  apply IH, H.
Qed.

Lemma blk_uniq_remove t rt : blk_tab_uniq t -> blk_tab_uniq (blk_tab_remove t rt).
Proof.
  induction t as [|[k s] t IH]; cbn [blk_tab_remove blk_tab_uniq]; [tauto|].
  intros (U1 & U2). destruct (blk_key_match rt k) eqn:E1; [exact U2|].
  cbn [blk_tab_uniq]. split; [|apply IH, U2].
  rewrite blk_find_remove_other; [exact U1|]. rewrite blk_key_match_sym. exact E1.
Qed.

Lemma blk_uniq_replace t rt s' : blk_tab_uniq t -> blk_tab_uniq (blk_tab_replace t rt s').
Proof.
  induction t as [|[k s] t IH]; cbn [blk_tab_replace blk_tab_uniq]; [tauto|].
  intros (U1 & U2). destruct (blk_key_match rt k) eqn:E1; cbn [blk_tab_uniq].
  - split; assumption.
  - split; [|apply IH, U2].
    rewrite blk_find_replace_other; [exact U1|]. rewrite blk_key_match_sym. exact E1.
Qed.

(* Pass and Reject are decided before the lg_srcv is looked up: the state is not touched *)
Lemma blk_srv_step_pass_reject junk maxszx st a :
  (snd (blk_srv_step junk maxszx st a) = BoPass \/ snd (blk_srv_step junk maxszx st a) = BoReject) ->
  fst (blk_srv_step junk maxszx st a) = st.
Proof.
  unfold blk_srv_step.
  destruct ((ba_num a =? 0) && (ba_m a =? 0)); [intros _; reflexivity|].
  destruct ((len (ba_data a) <=? blk_chunk (ba_szx a)) && (ba_m a =? 1) &&
            negb (len (ba_data a) =? blk_chunk (ba_szx a))); [intros _; reflexivity|].
  match goal with |- context [blk_update_many ?r ?n ?c] => destruct (blk_update_many r n c) as [[r' upd]|] end.
  - match goal with |- context [if ?b then (None, BoDeliver _) else _] => destruct b end;
      cbn [fst snd]; intros [H|H]; discriminate.
  - cbn [fst snd]. intros [H|H]; discriminate.
Qed.

(* what one request does to the table entry of its own Request-Tag, and to the others *)
Lemma blk_srv_recv_entry junk maxszx tab r : blk_tab_uniq tab ->
  snd (blk_srv_recv junk maxszx tab r) =
    snd (blk_srv_step junk maxszx (blk_tab_find tab (rq_key r)) (rq_arr r)) /\
  blk_tab_find (fst (blk_srv_recv junk maxszx tab r)) (rq_key r) =
    fst (blk_srv_step junk maxszx (blk_tab_find tab (rq_key r)) (rq_arr r)) /\
  (forall rt, blk_key_match rt (rq_key r) = false ->
     blk_tab_find (fst (blk_srv_recv junk maxszx tab r)) rt = blk_tab_find tab rt) /\
  blk_tab_uniq (fst (blk_srv_recv junk maxszx tab r)).
Proof.
  intros U. unfold blk_srv_recv.
  pose proof (blk_srv_step_pass_reject junk maxszx (blk_tab_find tab (rq_key r)) (rq_arr r)) as PR.
  destruct (blk_srv_step junk maxszx (blk_tab_find tab (rq_key r)) (rq_arr r)) as [st' o] eqn:E.
  cbn [fst snd] in *.
  assert (Gen : forall tab', (tab' =
            match blk_tab_find tab (rq_key r), st' with
            | None, None => tab
            | None, Some s => (rq_key r, s) :: tab
            | Some _, None => blk_tab_remove tab (rq_key r)
            | Some _, Some s => blk_tab_replace tab (rq_key r) s
            end) ->
          blk_tab_find tab' (rq_key r) = st' /\
          (forall rt, blk_key_match rt (rq_key r) = false -> blk_tab_find tab' rt = blk_tab_find tab rt) /\
          blk_tab_uniq tab').
  { intros tab' ->. destruct (blk_tab_find tab (rq_key r)) as [s0|] eqn:F; destruct st' as [s1|].
    - split; [apply blk_find_replace_same; congruence|]. split; [|apply blk_uniq_replace, U].
      intros rt H. apply blk_find_replace_other, H.
    - split; [apply blk_find_remove_same, U|]. split; [|apply blk_uniq_remove, U].
      intros rt H. apply blk_find_remove_other, H.
    - split; [cbn [blk_tab_find]; rewrite blk_key_match_refl; reflexivity|]. split.
      + intros rt H. cbn [blk_tab_find]. rewrite H. reflexivity.
      + cbn [blk_tab_uniq]. split; assumption.
    - split; [exact F|]. split; [intros; reflexivity|exact U]. }
  assert (Same : (o = BoPass \/ o = BoReject) ->
            blk_tab_find tab (rq_key r) = st' /\
            (forall rt, blk_key_match rt (rq_key r) = false -> blk_tab_find tab rt = blk_tab_find tab rt) /\
            blk_tab_uniq tab).
  { intros H. rewrite (PR H). split; [reflexivity|]. split; [intros; reflexivity|exact U]. }
  destruct o.
  - destruct (blk_tab_find tab (rq_key r)) as [s0|] eqn:F; destruct st' as [s1|]; cbn [fst snd];
      (split; [reflexivity|]); apply Gen; rewrite ?F; reflexivity.
  - cbn [fst snd]. split; [reflexivity|]. apply Same. right. reflexivity.
  - destruct (blk_tab_find tab (rq_key r)) as [s0|] eqn:F; destruct st' as [s1|]; cbn [fst snd];
      (split; [reflexivity|]); apply Gen; rewrite ?F; reflexivity.
  - destruct (blk_tab_find tab (rq_key r)) as [s0|] eqn:F; destruct st' as [s1|]; cbn [fst snd];
      (split; [reflexivity|]); apply Gen; rewrite ?F; reflexivity.
  - cbn [fst snd]. split; [reflexivity|]. apply Same. left. reflexivity.
Qed.

Lemma blk_find_match tab a b : blk_key_match a b = true -> blk_tab_find tab a = blk_tab_find tab b.
Proof. intros H. apply blk_key_match_eq in H. subst. reflexivity. Qed.

(* the requests of one transfer see exactly what they would see if they were alone: the
   outcomes for Request-Tag t are the run of the reassembly core over t's requests only *)
Theorem blk_srv_recv_projection junk maxszx : forall l tab t, blk_tab_uniq tab ->
  map snd (filter (fun p => blk_key_match t (fst p)) (blk_srv_recv_run junk maxszx tab l)) =
  blk_run (blk_srv_step junk maxszx) (blk_tab_find tab t)
          (map rq_arr (filter (fun r => blk_key_match t (rq_key r)) l)).
Proof.
  induction l as [|r l IH]; intros tab t U; [reflexivity|].
  cbn [blk_srv_recv_run filter].
  pose proof (blk_srv_recv_entry junk maxszx tab r U) as S.
  destruct (blk_srv_recv junk maxszx tab r) as [tab' o].
  cbn [fst snd] in S. destruct S as (Eo & S2 & S3 & S4).
  cbn [filter fst].
  destruct (blk_key_match t (rq_key r)) eqn:M.
  - cbn [map snd blk_run]. rewrite (blk_find_match tab t (rq_key r) M).
    destruct (blk_srv_step junk maxszx (blk_tab_find tab (rq_key r)) (rq_arr r)) as [st' o'] eqn:E.
    cbn [fst snd] in *. f_equal; [exact Eo|].
    rewrite (IH tab' t S4). rewrite (blk_find_match tab' t (rq_key r) M), S2. reflexivity.
  - rewrite (IH tab' t S4). rewrite (S3 t M). reflexivity.
Qed.

(* Two concurrent uploads on one session and resource, told apart by their Request-Tags, do
   not mix: whatever the interleaving, loss and duplication, every body delivered for
   Request-Tag t is the body of transfer t, and is delivered no more often than any of its
   blocks arrived. *)
Theorem blk_srv_no_mix (bodies : Z -> bytes) (sizes : Z -> option Z) u junk maxszx res l :
  0 <= u ->
  Forall (fun r => exists t s k, rq_rtag r = Some t /\ rq_res r = res /\
                    u <= s /\ 0 <= k < blk_nblocks (bodies t) s /\
                    rq_arr r = blk_arr_of (bodies t) s (sizes t) k /\
                    blk_srv_init_szx maxszx (rq_arr r) = u) l ->
  forall t, 0 < len (bodies t) -> sizes t = None \/ sizes t = Some (len (bodies t)) ->
  let outs := map snd (filter (fun p => blk_key_match (res, Some t) (fst p))
                         (blk_srv_recv_run junk maxszx [] l)) in
  Forall (fun o => match o with BoDeliver d => d = bodies t | BoReject => False | _ => True end) outs /\
  forall j, 0 <= j < blk_nblocks (bodies t) u ->
    blk_count_deliveries outs <=
    blk_count_cover u j (map rq_arr (filter (fun r => blk_key_match (res, Some t) (rq_key r)) l)).
Proof.
  intros Hu Hl t Ht Hsz outs. unfold outs. rewrite (blk_srv_recv_projection junk maxszx l [] (res, Some t) I).
  cbn [blk_tab_find].
  apply (blk_srv_reassembly (bodies t) u junk maxszx Hu Ht (sizes t)); [exact Hsz|].
  unfold rs_srv_arrivals. rewrite Forall_forall in *. intros a Ha.
  apply in_map_iff in Ha. destruct Ha as (r & <- & Hr). apply filter_In in Hr. destruct Hr as (Hr & M).
  destruct (Hl r Hr) as (t' & s & k & E1 & Er & E2 & E3 & E4 & E5).
  unfold blk_key_match, rq_key in M. cbn [fst snd] in M. rewrite E1 in M. cbn [blk_rtag_match] in M.
  assert (t' = t) by lia. subst t'.
  exists s, k. split; [exact E2|]. split; [exact E3|]. split; [exact E4|exact E5].
Qed.

(* Without Request-Tags the lookup cannot tell two uploads to one resource apart: their
   blocks go into one lg_srcv and the delivered "body" is a mixture.  (A libcoap client adds a
   Request-Tag to every Block1 transfer; this is what it protects against.) *)
Example blk_srv_mix_without_rtag :
  let b1 := map (fun i => Z.of_nat i) (seq 0 40) in
  let b2 := map (fun i => 100 + Z.of_nat i) (seq 0 40) in
  let rq b k := {| rq_res := 1; rq_rtag := None; rq_arr := blk_arr_of b 0 (Some 40) k |} in
  exists d, In ((1, None), BoDeliver d)
              (blk_srv_recv_run (fun _ => 0) 0 [] [rq b1 0; rq b2 1; rq b1 2]) /\
            d <> b1 /\ d <> b2.
Proof.
  eexists. split.
  - vm_compute. right. right. left. reflexivity.
  - split; vm_compute; discriminate.
Qed.

(* ------------------------------------------------------------------ (B) Block2 client, ETag *)
Section Epochs.
  Variable bodies : Z -> bytes.          (* the representation that goes with each ETag *)
  Variable sizes : Z -> option Z.        (* Size2 option sent with it (absent or exact) *)
  Variable szx : Z.
  Variable junk : Z -> Z.
  Hypothesis Hszx : 0 <= szx.

  Definition ep_ok (e : Z) : Prop :=
    0 < len (bodies e) /\ (sizes e = None \/ sizes e = Some (len (bodies e))).

  (* a block response as a server produces it for the representation with ETag e *)
  Definition ep_arrival (r : blk_rsp) : Prop :=
    exists e k, rs_etag r = Some e /\ ep_ok e /\ 0 <= k < blk_nblocks (bodies e) szx /\
                rs_arr r = blk_arr_of (bodies e) szx (sizes e) k.

  Definition ep_inv (c : blk_crcv) : Prop :=
    match cr_st c with
    | None => True
    | Some s => exists e seen, cr_etag c = Some e /\ ep_ok e /\
                               rs_cli_inv (bodies e) szx (sizes e) (Some s) seen
    end.

  Lemma ep_step c r : ep_inv c -> ep_arrival r ->
    let '(c', o, _) := blk_cli_recv junk c r in
    ep_inv c' /\
    match o with
    | BoDeliver d => exists e, rs_etag r = Some e /\ d = bodies e
    | BoReject | BoPass => False
    | _ => True
    end.
  Proof.
    intros Hinv (e & k & Ee & (Hb & Hsz) & Hk & Ea).
    destruct (blk_slice_facts (bodies e) szx k Hszx Hb Hk) as (F1 & F2 & F3 & F4).
    unfold blk_cli_recv. rewrite Ea, Ee.
    cbn [blk_arr_of ba_num ba_m ba_szx ba_size ba_data].
    set (d := blk_slice (bodies e) szx k) in *.
    set (m := if blk_more (bodies e) szx k then 1 else 0).
    destruct (negb ((m =? 1) || (0 <? len d))) eqn:Epass.
    { destruct (0 <? len d) eqn:X; [|lia]. rewrite orb_true_r in Epass. discriminate. }
    destruct (blk_chunk szx <? len d) eqn:Eov; [lia|].
    destruct ((m =? 1) && negb (len d =? blk_chunk szx)) eqn:Erej.
    { unfold m in Erej. destruct (blk_more (bodies e) szx k) eqn:Mm; [|lia].
      destruct (F3 eq_refl). lia. }
    fold (blk_arr_of (bodies e) szx (sizes e) k).
    destruct (cr_restart c && negb (k =? 0)) eqn:Erst.
    { split; [exact Hinv|exact I]. }
    destruct (cr_st c) as [s|] eqn:Est.
    - (* transfer in progress *)
      unfold ep_inv in Hinv. rewrite Est in Hinv.
      destruct Hinv as (e' & seen & Ec & (Hb' & Hsz') & Hi).
      rewrite Ec. cbn [blk_etag_eq].
      destruct (e =? e') eqn:Eeq.
      + assert (e' = e) by lia. subst e'.
        pose proof (rs_cli_step (bodies e) szx junk Hszx Hb (sizes e) (Some s) seen k Hsz Hi Hk) as S.
        destruct (blk_cli_step junk (Some s) (blk_arr_of (bodies e) szx (sizes e) k)) as [st' o].
        destruct o as [| | |dd|]; try (destruct S; fail).
        * destruct S as (S & _). split; [|exact I]. unfold ep_inv. cbn [cr_st cr_etag].
          destruct st' as [s'|]; [|exact I]. exists e, (k :: seen). split; [reflexivity|]. split; [split; assumption|]. exact S.
        * destruct S as (S & _). split; [|exact I]. unfold ep_inv. cbn [cr_st cr_etag].
          destruct st' as [s'|]; [|exact I]. exists e, seen. split; [reflexivity|]. split; [split; assumption|]. exact S.
        * destruct S as (-> & -> & _). split; [exact I|]. exists e. split; reflexivity.
      + (* a different ETag: restart, the block is not used *)
        split; [exact I|exact I].
    - (* initial: this block's ETag becomes the reference *)
      cbn [blk_etag_eq]. rewrite Z.eqb_refl.
      pose proof (rs_cli_step (bodies e) szx junk Hszx Hb (sizes e) None [] k Hsz eq_refl Hk) as S.
      destruct (blk_cli_step junk None (blk_arr_of (bodies e) szx (sizes e) k)) as [st' o].
      destruct o as [| | |dd|]; try (destruct S; fail).
      * destruct S as (S & _). split; [|exact I]. unfold ep_inv. cbn [cr_st cr_etag].
        destruct st' as [s'|]; [|exact I]. exists e, [k]. split; [reflexivity|]. split; [split; assumption|]. exact S.
      * destruct S as (S & _). split; [|exact I]. unfold ep_inv. cbn [cr_st cr_etag].
        destruct st' as [s'|]; [|exact I]. exists e, []. split; [reflexivity|]. split; [split; assumption|]. exact S.
      * destruct S as (-> & -> & _). split; [exact I|]. exists e. split; reflexivity.
  Qed.

  (* Whatever mixture of blocks of different representations reaches the client - in any
     order, with duplicates and gaps - a body it delivers is one of the representations,
     complete and unmixed: that of the ETag of the block that completed it. *)
  Theorem blk_cli_epochs l : Forall ep_arrival l -> forall c, ep_inv c ->
    Forall (fun o => match o with
                     | BoDeliver d => exists e, ep_ok e /\ d = bodies e
                     | BoReject | BoPass => False
                     | _ => True
                     end) (blk_cli_recv_run junk c l).
  Proof.
    induction 1 as [|r l Hr Hl IH]; intros c Hc; cbn [blk_cli_recv_run]; [constructor|].
    pose proof (ep_step c r Hc Hr) as S.
    destruct (blk_cli_recv junk c r) as [[c' o] rs]. destruct S as (S1 & S2).
    constructor; [|apply IH, S1].
    destruct o; try exact S2. destruct S2 as (e & E1 & E2).
    destruct Hr as (e' & k & Ee & Hok & _). rewrite Ee in E1. inversion E1; subst e'.
    exists e. split; assumption.
  Qed.
End Epochs.

(* ------------------------------------------------------------------ (C)/(D) closed loops *)
Section Lossless.
  Variable body : bytes.
  Variable szx : Z.
  Variable junk : Z -> Z.
  Variable size : option Z.
  Hypothesis Hszx : 0 <= szx.
  Hypothesis Hbody : 0 < len body.
  Hypothesis Hsize : size = None \/ size = Some (len body).

  Let c := blk_chunk szx.
  Let L := len body.
  Let K := blk_nblocks body szx.

  Lemma ll_K_bounds : 0 < c /\ (K - 1) * c < L <= K * c /\ 1 <= K.
  Proof.
    pose proof (blk_chunk_pos szx Hszx) as Hc. fold c in Hc. split; [exact Hc|].
    destruct (blk_nblocks_c_bounds L c Hc ltac:(unfold L; lia)) as [B|B]; [|unfold L in *; lia].
    change (blk_nblocks_c L c) with K in B. split; [exact B|].
    destruct (Z_lt_le_dec K 1); [|lia].
    assert (K * c <= 0 * c) by (apply Z.mul_le_mono_nonneg_r; lia). unfold L in *. lia.
  Qed.

  Lemma ll_more j : 0 <= j < K -> (blk_more body szx j = true <-> j < K - 1).
  Proof. intros. apply blk_more_iff; assumption. Qed.

  (* ---------------- Block2 *)
  Lemma ll_cli_recv_same (cst : blk_crcv) e k : 0 <= k < K ->
    (cr_st cst = None \/ cr_etag cst = Some e) -> cr_restart cst = false ->
    blk_cli_recv junk cst {| rs_etag := Some e; rs_arr := blk_arr_of body szx size k |} =
    ({| cr_etag := Some e; cr_st := fst (blk_cli_step junk (cr_st cst) (blk_arr_of body szx size k));
        cr_restart := false |},
     snd (blk_cli_step junk (cr_st cst) (blk_arr_of body szx size k)), false).
  Proof.
    intros Hk Hst Hrs.
    destruct (blk_slice_facts body szx k Hszx Hbody Hk) as (F1 & F2 & F3 & F4).
    unfold blk_cli_recv. cbn [rs_arr rs_etag].
    cbn [blk_arr_of ba_num ba_m ba_szx ba_size ba_data].
    set (d := blk_slice body szx k) in *.
    set (m := if blk_more body szx k then 1 else 0).
    destruct (negb ((m =? 1) || (0 <? len d))) eqn:Epass.
    { destruct (0 <? len d) eqn:X; [|lia]. rewrite orb_true_r in Epass. discriminate. }
    destruct (blk_chunk szx <? len d) eqn:Eov; [lia|].
    destruct ((m =? 1) && negb (len d =? blk_chunk szx)) eqn:Erej.
    { unfold m in Erej. destruct (blk_more body szx k) eqn:Mm; [|lia]. destruct (F3 eq_refl). lia. }
    fold (blk_arr_of body szx size k). rewrite Hrs. cbn [andb].
    assert (R : match cr_st cst with None => Some e | Some _ => cr_etag cst end = Some e).
    { destruct (cr_st cst); [destruct Hst as [X|X]; [discriminate|exact X]|reflexivity]. }
    rewrite R. cbn [blk_etag_eq]. rewrite Z.eqb_refl.
    destruct (blk_cli_step junk (cr_st cst) (blk_arr_of body szx size k)) as [st' o]. reflexivity.
  Qed.

  Lemma ll_b2_follow e : forall (n : nat) j (cst : blk_crcv) (extra : nat),
    0 <= j -> j + Z.of_nat n = K - 1 ->
    (cr_st cst = None \/ cr_etag cst = Some e) -> cr_restart cst = false ->
    blk_run (blk_cli_step junk) (cr_st cst)
      (map (blk_arr_of body szx size) (blk_range_from j (Z.of_nat (S n))))
      = repeat BoContinue n ++ [BoDeliver body] ->
    blk_b2_loop (S n + extra) junk body szx size (Some e) cst j
      = repeat BoContinue n ++ [BoDeliver body].
  Proof.
    induction n as [|n IH]; intros j cst extra Hj Hn Hst Hrs Hrun.
    - cbn [Nat.add blk_b2_loop]. rewrite ll_cli_recv_same by (try assumption; lia).
      rewrite blk_range_from_cons in Hrun by lia. cbn [map blk_run] in Hrun.
      destruct (blk_cli_step junk (cr_st cst) (blk_arr_of body szx size j)) as [st' o].
      cbn [fst snd repeat app] in *. pose proof (f_equal (fun l => hd BoPass l) Hrun) as Ho; cbn [hd] in Ho;
      pose proof (f_equal (@tl _) Hrun) as Hrest; cbn [tl] in Hrest; subst o. reflexivity.
    - cbn [Nat.add blk_b2_loop]. rewrite ll_cli_recv_same by (try assumption; lia).
      rewrite blk_range_from_cons in Hrun by lia. cbn [map blk_run] in Hrun.
      destruct (blk_cli_step junk (cr_st cst) (blk_arr_of body szx size j)) as [st' o].
      cbn [fst snd repeat app] in *. pose proof (f_equal (fun l => hd BoPass l) Hrun) as Ho; cbn [hd] in Ho;
      pose proof (f_equal (@tl _) Hrun) as Hrest; cbn [tl] in Hrest; subst o.
      cbn [blk_arr_of ba_m].
      assert (Mm : blk_more body szx j = true) by (apply ll_more; lia). rewrite Mm.
      cbn [Z.eqb Pos.eqb]. f_equal.
      replace (Z.of_nat (S (S n)) - 1) with (Z.of_nat (S n)) in Hrest by lia.
      exact (IH (j + 1) {| cr_etag := Some e; cr_st := st'; cr_restart := false |} extra
               ltac:(lia) ltac:(lia) (or_intror eq_refl) eq_refl Hrest).
  Qed.

  (* Block2 without loss: the client asks for block after block; exactly one delivery, of the
     body, and nothing else *)
  Theorem blk_b2_lossless e :
    blk_b2_loop (Z.to_nat K) junk body szx size (Some e)
      {| cr_etag := None; cr_st := None; cr_restart := false |} 0
    = repeat BoContinue (Z.to_nat (K - 1)) ++ [BoDeliver body].
  Proof.
    destruct ll_K_bounds as (Hc & B & K1).
    replace (Z.to_nat K) with (S (Z.to_nat (K - 1)) + 0)%nat by lia.
    apply ll_b2_follow; [lia|lia|left; reflexivity|reflexivity|].
    cbn [cr_st]. replace (Z.of_nat (S (Z.to_nat (K - 1)))) with K by lia.
    rewrite blk_range_from_0. apply blk_cli_inorder; assumption.
  Qed.

  (* ---------------- Block1 *)
  Variable maxszx : Z.

  Lemma ll_resp_szx j : 0 <= j ->
    blk_srv_init_szx maxszx (blk_arr_of body szx size 0) = szx ->
    blk_srv_resp_szx maxszx j szx = szx.
  Proof.
    intros Hj Hcfg. unfold blk_srv_resp_szx, blk_srv_init_szx in *.
    cbn [blk_arr_of ba_num ba_szx] in Hcfg. rewrite Z.eqb_refl in Hcfg. cbn [andb] in Hcfg.
    destruct (j =? 0); cbn [andb]; [|reflexivity].
    destruct (negb (maxszx =? 0)); cbn [andb] in *; [|reflexivity].
    destruct (maxszx <? szx) eqn:E; [lia|reflexivity].
  Qed.

  Lemma ll_b1_follow : blk_srv_init_szx maxszx (blk_arr_of body szx size 0) = szx ->
    forall (n : nat) j srv (extra : nat),
    0 <= j -> j + Z.of_nat n = K - 1 ->
    blk_run (blk_srv_step junk maxszx) srv
      (map (blk_arr_of body szx size) (blk_range_from j (Z.of_nat (S n))))
      = repeat BoContinue n ++ [BoDeliver body] ->
    blk_b1_loop (S n + extra) junk maxszx body size
      {| sn_szx := szx; sn_last := j - 1; sn_off := j * c |} srv j szx
      = repeat BoContinue n ++ [BoDeliver body].
  Proof.
    intros Hcfg. destruct ll_K_bounds as (Hc & B & K1).
    induction n as [|n IH]; intros j srv extra Hj Hn Hrun.
    - cbn [Nat.add blk_b1_loop].
      rewrite blk_range_from_cons in Hrun by lia. cbn [map blk_run] in Hrun.
      destruct (blk_srv_step junk maxszx srv (blk_arr_of body szx size j)) as [st' o].
      cbn [repeat app] in *. pose proof (f_equal (fun l => hd BoPass l) Hrun) as Ho; cbn [hd] in Ho;
      pose proof (f_equal (@tl _) Hrun) as Hrest; cbn [tl] in Hrest; subst o. reflexivity.
    - cbn [Nat.add blk_b1_loop].
      rewrite blk_range_from_cons in Hrun by lia. cbn [map blk_run] in Hrun.
      destruct (blk_srv_step junk maxszx srv (blk_arr_of body szx size j)) as [st' o].
      cbn [repeat app] in *. pose proof (f_equal (fun l => hd BoPass l) Hrun) as Ho; cbn [hd] in Ho;
      pose proof (f_equal (@tl _) Hrun) as Hrest; cbn [tl] in Hrest; subst o.
      rewrite (ll_resp_szx j Hj Hcfg).
      unfold blk_snd_ack. cbn [sn_szx sn_last sn_off]. rewrite Z.eqb_refl.
      destruct (j <=? j - 1) eqn:E1; [lia|].
      fold c. fold L.
      assert (E2 : ((j + 1) * c <? L) = true).
      { assert ((j + 1) * c <= (K - 1) * c) by (apply Z.mul_le_mono_nonneg_r; lia). lia. }
      rewrite E2. f_equal.
      replace (Z.of_nat (S (S n)) - 1) with (Z.of_nat (S n)) in Hrest by lia.
      pose proof (IH (j + 1) st' extra ltac:(lia) ltac:(lia) Hrest) as G.
      replace (j + 1 - 1) with j in G by lia. exact G.
  Qed.

  (* Block1 without loss, client and server agreeing on the block size from the start *)
  Theorem blk_b1_lossless : 2 <= K ->
    blk_srv_init_szx maxszx (blk_arr_of body szx size 0) = szx ->
    blk_b1_loop (Z.to_nat K) junk maxszx body size
      {| sn_szx := szx; sn_last := -1; sn_off := 0 |} None 0 szx
    = repeat BoContinue (Z.to_nat (K - 1)) ++ [BoDeliver body].
  Proof.
    intros HK Hcfg.
    replace (Z.to_nat K) with (S (Z.to_nat (K - 1)) + 0)%nat by lia.
    change (-1) with (0 - 1). replace 0 with (0 * c) at 3 by lia.
    apply (ll_b1_follow Hcfg); [lia|lia|].
    replace (Z.of_nat (S (Z.to_nat (K - 1)))) with K by lia.
    rewrite blk_range_from_0. apply blk_srv_inorder; assumption.
  Qed.

  (* Block1 without loss when the server's maximum block size [szx] is below the size s0 of
     the client's first block: the 2.31 carries the smaller size, the client recomputes the
     block number (blk_snd_ack = coap_handle_response_send_block) and continues in the
     server's size; exactly one delivery, of the body *)
  Theorem blk_b1_lossless_renegotiated s0 : szx < s0 ->
    blk_srv_init_szx maxszx (blk_arr_of body s0 size 0) = szx ->
    let q := 2 ^ (s0 - szx) in q < K ->
    blk_b1_loop (Z.to_nat K) junk maxszx body size
      {| sn_szx := s0; sn_last := -1; sn_off := 0 |} None 0 s0
    = repeat BoContinue (Z.to_nat (K - q)) ++ [BoDeliver body].
  Proof.
    intros Hs0 Hcfg q Hq. destruct ll_K_bounds as (Hc & B & K1).
    assert (Hq1 : 1 <= q) by (assert (0 < q) by (apply Z.pow_pos_nonneg; lia); lia).
    pose proof (blk_srv_inorder_renegotiated body szx junk maxszx Hszx Hbody size s0 Hsize Hs0 Hcfg Hq)
      as Hrun.
    fold K in Hrun. fold q in Hrun. cbn [blk_run] in Hrun.
    replace (Z.to_nat K) with (S (Z.to_nat (K - 1))) by lia. cbn [blk_b1_loop].
    destruct (blk_srv_step junk maxszx None (blk_arr_of body s0 size 0)) as [st' o].
    replace (Z.to_nat (K - q)) with (S (Z.to_nat (K - q - 1))) in * by lia.
    cbn [repeat app] in *. pose proof (f_equal (fun l => hd BoPass l) Hrun) as Ho; cbn [hd] in Ho;
      pose proof (f_equal (@tl _) Hrun) as Hrest; cbn [tl] in Hrest; subst o.
    (* the server's 2.31 asks for its own size *)
    assert (Emax : maxszx = szx /\ maxszx <> 0).
    { unfold blk_srv_init_szx in Hcfg. cbn [blk_arr_of ba_num ba_szx] in Hcfg.
      rewrite Z.eqb_refl in Hcfg. cbn [andb] in Hcfg.
      destruct (negb (maxszx =? 0)) eqn:E1; destruct (maxszx <? s0) eqn:E2; cbn [andb] in Hcfg; lia. }
    assert (Er : blk_srv_resp_szx maxszx 0 s0 = szx).
    { unfold blk_srv_resp_szx. rewrite Z.eqb_refl. cbn [andb].
      destruct Emax as (E1 & E2). destruct (negb (maxszx =? 0)) eqn:X; [|lia]. cbn [andb].
      destruct (maxszx <? s0) eqn:Y; lia. }
    rewrite Er. unfold blk_snd_ack. cbn [sn_szx sn_last sn_off].
    destruct (szx =? s0) eqn:X1; [lia|]. destruct (s0 <? szx) eqn:X2; [lia|].
    assert (Ecs : blk_chunk s0 = q * c).
    { unfold c, q. rewrite (blk_chunk_divides szx s0) by lia. lia. }
    fold c. rewrite Ecs. rewrite Z.add_0_l.
    rewrite Z.mod_mul by lia. rewrite Z.eqb_refl. rewrite Z.div_mul by lia.
    destruct (q - 1 <=? -1) eqn:X3; [lia|].
    replace ((q - 1 + 1) * c) with (q * c) by lia. fold L.
    assert (E2 : (q * c <? L) = true).
    { assert (q * c <= (K - 1) * c) by (apply Z.mul_le_mono_nonneg_r; lia). lia. }
    fold c. replace (q - 1 + 1) with q by lia. rewrite E2. f_equal.
    (* from here on: the unit phase *)
    assert (Hcfg0 : blk_srv_init_szx maxszx (blk_arr_of body szx size 0) = szx).
    { unfold blk_srv_init_szx. cbn [blk_arr_of ba_num ba_szx]. rewrite Z.eqb_refl. cbn [andb].
      destruct Emax as (E1 & E3). destruct (negb (maxszx =? 0)); cbn [andb]; [|reflexivity].
      destruct (maxszx <? szx) eqn:Y; lia. }
    replace (Z.to_nat (K - 1)) with (S (Z.to_nat (K - q - 1)) + Z.to_nat (q - 1))%nat by lia.
    replace (Z.of_nat (S (Z.to_nat (K - q - 1)))) with (K - q) in * by lia.
    pose proof (ll_b1_follow Hcfg0 (Z.to_nat (K - q - 1)) q st' (Z.to_nat (q - 1)) ltac:(lia) ltac:(lia)) as F.
    replace (Z.of_nat (S (Z.to_nat (K - q - 1)))) with (K - q) in F by lia.
    exact (F Hrest).
  Qed.
End Lossless.

(* ------------------------------------------------------------------ (E) expiry timers *)
(* events in time order, every event less than [wait] after the previous progress *)
Fixpoint blk_tev_paced (wait last : Z) (l : list blk_tev) : Prop :=
  match l with
  | [] => True
  | TvProgress t :: l' => last <= t < last + wait /\ blk_tev_paced wait t l'
  | TvCheck t :: l' => last <= t < last + wait /\ blk_tev_paced wait last l'
  end.

(* state is kept while the transfer makes progress: if every block follows the previous one
   within MAX_TRANSMIT_WAIT (which the message layer guarantees for an exchange that is not
   abandoned), no run of the timeout function deletes the state, however long the whole
   transfer takes *)
Theorem blk_timed_kept wait : forall l last, blk_tev_paced wait last l ->
  fst (blk_timed_run wait true last l) = true.
Proof.
  induction l as [|[t|t] l IH]; intros last Hp; cbn [blk_timed_run blk_tev_paced] in *.
  - reflexivity.
  - destruct Hp as (H1 & H2). apply IH, H2.
  - destruct Hp as (H1 & H2). destruct (last + wait <=? t) eqn:E; [lia|]. cbn [andb negb]. apply IH, H2.
Qed.

(* without the refresh the same paced transfer is cut off once it lasts longer than [wait] *)
Theorem blk_timed_norefresh_refuted :
  exists l, blk_tev_paced 93 0 l /\ fst (blk_timed_run_norefresh 93 true 0 l) = false.
Proof.
  exists [TvProgress 40; TvCheck 41; TvProgress 80; TvCheck 81; TvProgress 120; TvCheck 121].
  split; [cbn; lia|vm_compute; reflexivity].
Qed.

(* ------------------------------------------------------------------ (F) Block2 server table *)
Definition blk_xtab_ok (bodies : Z -> bytes) (t : blk_xtab) : Prop :=
  Forall (fun x => xm_body x = bodies (xm_key x)) t.

Lemma blk_xtab_find_ok bodies t k x : blk_xtab_ok bodies t -> blk_xtab_find t k = Some x ->
  xm_key x = k /\ xm_body x = bodies k.
Proof.
  induction t as [|y t IH]; cbn [blk_xtab_find]; [discriminate|].
  intros Hok. inversion Hok as [|? ? Hy Ht]; subst.
  destruct (xm_key y =? k) eqn:E; [|apply IH, Ht].
  intros H. inversion H; subst. split; [lia|]. rewrite Hy. f_equal. lia.
Qed.

Lemma blk_xtab_remove_ok bodies t k : blk_xtab_ok bodies t -> blk_xtab_ok bodies (blk_xtab_remove t k).
Proof.
  induction t as [|y t IH]; cbn [blk_xtab_remove]; [tauto|].
  intros Hok. inversion Hok as [|? ? Hy Ht]; subst.
  destruct (xm_key y =? k); [exact Ht|]. constructor; [exact Hy|apply IH, Ht].
Qed.

(* what a response may carry: a block of the body that belongs to the REQUEST's key - never of a
   body stored for another query / Request-Tag; and at the offset the request named whenever the
   requested size is within the server's maximum *)
Definition blk_gresp_ok (bodies : Z -> bytes) (maxszx : Z) (g : blk_greq) (r : blk_gresp) : Prop :=
  match r with
  | GrError _ => True
  | GrBlock num m szx data =>
      exists s, data = blk_slice_c (bodies (gq_key g)) (blk_chunk s) num /\ num = gq_num g /\
                ((maxszx = 0 \/ gq_szx g <= maxszx) -> gq_num g <> 0 -> s = gq_szx g /\ szx = gq_szx g)
  end.

Lemma blk_srv2_recv_ok bodies maxszx t g : blk_xtab_ok bodies t ->
  blk_xtab_ok bodies (fst (blk_srv2_recv bodies maxszx t g)) /\
  blk_gresp_ok bodies maxszx g (snd (blk_srv2_recv bodies maxszx t g)).
Proof.
  intros Hok.
  assert (App : blk_xtab_ok bodies (fst (blk_srv2_app bodies maxszx t g)) /\
                blk_gresp_ok bodies maxszx g (snd (blk_srv2_app bodies maxszx t g))).
  { unfold blk_srv2_app.
    destruct (negb (gq_num g =? 0) && (len (bodies (gq_key g)) <=? gq_num g * blk_chunk (gq_szx g)));
      cbn [fst snd]; [split; [exact Hok|exact I]|].
    pose proof (blk_xtab_remove_ok bodies t (gq_key g) Hok) as Hr.
    set (s := if negb (maxszx =? 0) && (maxszx <? gq_szx g) then maxszx else gq_szx g).
    destruct (negb (gq_num g =? 0)) eqn:En; cbn [fst snd].
    - split; [exact Hr|]. exists s. split; [reflexivity|]. split; [reflexivity|].
      intros Hm _. split; [|reflexivity]. unfold s.
      destruct (negb (maxszx =? 0) && (maxszx <? gq_szx g)) eqn:E; [lia|reflexivity].
    - assert (gq_num g = 0) as E0 by lia.
      destruct (blk_chunk s <? len (bodies (gq_key g))) eqn:Ec; cbn [fst snd].
      + split; [constructor; [reflexivity|exact Hr]|]. exists s. split; [reflexivity|].
        split; [lia|]. intros _ X. lia.
      + split; [exact Hr|]. exists s. split; [|split; [lia|intros _ X; lia]].
        unfold blk_slice_c. rewrite Z.mul_0_l. unfold drop. cbn [Z.to_nat skipn].
        symmetry. apply blk_take_all. lia. }
  unfold blk_srv2_recv. destruct (gq_num g =? 0) eqn:E0; [exact App|].
  destruct (blk_xtab_find t (gq_key g)) as [x|] eqn:Ef; [|exact App].
  destruct (blk_xtab_find_ok bodies t (gq_key g) x Hok Ef) as (Ek & Eb).
  destruct (negb (gq_szx g =? xm_szx x)) eqn:Es; cbn [fst snd]; [split; [exact Hok|exact I]|].
  destruct (len (xm_body x) <=? gq_num g * blk_chunk (xm_szx x)); cbn [fst snd];
    [split; [exact Hok|exact I]|].
  split; [exact Hok|]. exists (xm_szx x). rewrite Eb. split; [reflexivity|]. split; [reflexivity|].
  intros _ _. split; lia.
Qed.

(* Downloads of one resource that differ in the query (or Request-Tag), interleaved in any way,
   restarted, continued after the stored body is gone: every block the server sends in reply to
   a request is cut from the body of THAT request's key *)
Theorem blk_srv2_no_mix bodies maxszx : forall l t, blk_xtab_ok bodies t ->
  Forall (fun gr => blk_gresp_ok bodies maxszx (fst gr) (snd gr)) (blk_srv2_run bodies maxszx t l).
Proof.
  induction l as [|g l IH]; intros t Hok; cbn [blk_srv2_run]; [constructor|].
  pose proof (blk_srv2_recv_ok bodies maxszx t g Hok) as (H1 & H2).
  destruct (blk_srv2_recv bodies maxszx t g) as [t' r]. cbn [fst snd] in *.
  constructor; [exact H2|apply IH, H1].
Qed.

(* ... and the single-block path does cut at the wrong place when the server's maximum block
   size is below the requested one (random access to block NUM > 0 without a stored body):
   the option says block 1 of size 64, the payload is bytes 32..63 *)
Example blk_srv2_single_block_quirk :
  let body := map (fun i => Z.of_nat i) (seq 0 200) in
  snd (blk_srv2_recv (fun _ => body) 1 [] {| gq_key := 0; gq_num := 1; gq_szx := 2 |})
  = GrBlock 1 1 2 (map (fun i => Z.of_nat i) (seq 32 32)).
Proof. vm_compute. reflexivity. Qed.

(* C09 layer 3: the protocol around the reassembly cores.
   (A) Block1 server with several transfers in progress on one session and resource: the
       lg_srcv list and its lookup by Request-Tag (coap_handle_request_put_block, "locate the
       lg_srcv"), creation by LL_PREPEND, release after delivery / failure.
   (B) Block2 client: the ETag check of coap_handle_response_get_block in front of the
       reassembly core (first block fixes the ETag; a different ETag restarts the transfer and
       the block is not used; a block without ETag after one with ETag is refused).
   (C) Block1 sender: coap_handle_response_send_block (size renegotiation, duplicate-2.31
       filter as repaired by /repo commit 958a2dc, next block) and the closed loop of sender
       and server when no datagram is lost, duplicated or reordered.
   (D) Block2 closed loop without loss.
   Definitions only; proofs are in BlockProtoProofs.v. *)
From Coq Require Import ZArith List Bool.
From LibcoapV Require Import Base.Bytes Block.BlockOpt Block.Slices Block.RecBlocks.
Import ListNotations.
Local Open Scope Z_scope.
Local Open Scope bool_scope.

(* ------------------------------------------------------------------ (A) Block1 server table *)
(* a request as the lookup sees it: the resource it is for, its Request-Tag, the block *)
Record blk_req := { rq_res : Z; rq_rtag : option Z; rq_arr : blk_arr }.

(* the key of an lg_srcv: (resource, Request-Tag) *)
Definition blk_key := (Z * option Z)%type.
Definition rq_key (r : blk_req) : blk_key := (rq_res r, rq_rtag r).

(* session->lg_srcv: (key, state), newest first *)
Definition blk_srv_tab := list (blk_key * blk_rcv).

(* "if (rtag_opt || lg_srcv->rtag_set == 1) { both set and equal, else continue }" *)
Definition blk_rtag_match (a b : option Z) : bool :=
  match a, b with
  | None, None => true
  | Some x, Some y => x =? y
  | _, _ => false
  end.
(* ... "if (resource == lg_srcv->resource) break;" *)
Definition blk_key_match (a b : blk_key) : bool :=
  blk_rtag_match (snd a) (snd b) && (fst a =? fst b).

Fixpoint blk_tab_find (t : blk_srv_tab) (rt : blk_key) : option blk_rcv :=
  match t with
  | [] => None
  | (k, s) :: t' => if blk_key_match rt k then Some s else blk_tab_find t' rt
  end.

Fixpoint blk_tab_remove (t : blk_srv_tab) (rt : blk_key) : blk_srv_tab :=
  match t with
  | [] => []
  | (k, s) :: t' => if blk_key_match rt k then t' else (k, s) :: blk_tab_remove t' rt
  end.

Fixpoint blk_tab_replace (t : blk_srv_tab) (rt : blk_key) (s' : blk_rcv) : blk_srv_tab :=
  match t with
  | [] => []
  | (k, s) :: t' => if blk_key_match rt k then (k, s') :: t'
                    else (k, s) :: blk_tab_replace t' rt s'
  end.

Definition blk_srv_recv (junk : Z -> Z) (maxszx : Z) (t : blk_srv_tab) (r : blk_req)
  : blk_srv_tab * blk_out :=
  let cur := blk_tab_find t (rq_key r) in
  let '(st', o) := blk_srv_step junk maxszx cur (rq_arr r) in
  match o with
  | BoPass | BoReject => (t, o)                       (* decided before the lookup *)
  | _ =>
      match cur, st' with
      | None, None => (t, o)                           (* created and released at once *)
      | None, Some s => ((rq_key r, s) :: t, o)       (* LL_PREPEND *)
      | Some _, None => (blk_tab_remove t (rq_key r), o)
      | Some _, Some s => (blk_tab_replace t (rq_key r) s, o)
      end
  end.

Fixpoint blk_srv_recv_run (junk : Z -> Z) (maxszx : Z) (t : blk_srv_tab) (l : list blk_req)
  : list (blk_key * blk_out) :=
  match l with
  | [] => []
  | r :: l' => let '(t', o) := blk_srv_recv junk maxszx t r in
               (rq_key r, o) :: blk_srv_recv_run junk maxszx t' l'
  end.

(* ------------------------------------------------------------------ (B) Block2 client, ETag *)
Record blk_rsp := { rs_etag : option Z; rs_arr : blk_arr }.
(* lg_crcv: the ETag taken from the first block (None = etag_set 0), reassembly state
   (None = lg_crcv->initial) *)
(* cr_restart: lg_crcv->initial == 2, the request was restarted from block 0 after an ETag change
   and block 0 of the new representation has not arrived yet (/repo commit after c7934ae) *)
Record blk_crcv := { cr_etag : option Z; cr_st : option blk_rcv; cr_restart : bool }.

Definition blk_etag_eq (a b : option Z) : bool :=
  match a, b with
  | Some x, Some y => x =? y
  | _, _ => false
  end.

(* result: lg_crcv afterwards, outcome, "a restart request (block 0) was sent" *)
Definition blk_cli_recv (junk : Z -> Z) (c : blk_crcv) (r : blk_rsp)
  : blk_crcv * blk_out * bool :=
  let a := rs_arr r in
  let chunk := blk_chunk (ba_szx a) in
  let data := if chunk <? len (ba_data a) then take chunk (ba_data a) else ba_data a in
  if negb ((ba_m a =? 1) || (0 <? len (ba_data a))) then
    ({| cr_etag := None; cr_st := None; cr_restart := false |}, BoPass, false)
  else if (ba_m a =? 1) && negb (len data =? chunk) then
    ({| cr_etag := None; cr_st := None; cr_restart := false |}, BoReject, false)
  else if cr_restart c && negb (ba_num a =? 0) then
    (* a late block of the pass that was given up: not used, the restart stays pending *)
    (c, BoContinue, false)
  else
    (* if (lg_crcv->initial): take this block's ETag as the reference *)
    let ref_etag := match cr_st c with None => rs_etag r | Some _ => cr_etag c end in
    match rs_etag r with
    | Some _ =>
        if blk_etag_eq (rs_etag r) ref_etag then
          let '(st', o) := blk_cli_step junk (cr_st c) a in
          ({| cr_etag := ref_etag; cr_st := st'; cr_restart := false |}, o, false)
        else (* body changed: initial = 2, body freed, request block 0 again; skip *)
          ({| cr_etag := ref_etag; cr_st := None; cr_restart := true |}, BoContinue, true)
    | None =>
        match ref_etag with
        | Some _ => (c, BoFail, false)             (* "Not all blocks have ETag option" *)
        | None =>
            let '(st', o) := blk_cli_step junk (cr_st c) a in
            ({| cr_etag := None; cr_st := st'; cr_restart := false |}, o, false)
        end
    end.

Fixpoint blk_cli_recv_run (junk : Z -> Z) (c : blk_crcv) (l : list blk_rsp) : list blk_out :=
  match l with
  | [] => []
  | r :: l' => let '(c', o, _) := blk_cli_recv junk c r in o :: blk_cli_recv_run junk c' l'
  end.

(* ------------------------------------------------------------------ (C) Block1 sender *)
(* lg_xmit: blk_size, last_block (-1: none acknowledged), offset *)
Record blk_snd := { sn_szx : Z; sn_last : Z; sn_off : Z }.

(* coap_handle_response_send_block on a 2.31 carrying Block1 (num, szx') for a body of
   [length] bytes: new lg_xmit and the block to send next (num, szx) if any *)
Definition blk_snd_ack (length : Z) (s : blk_snd) (num szx' : Z) : blk_snd * option (Z * Z) :=
  let chunk := blk_chunk (sn_szx s) in
  let '(num1, szx1, off1) :=
    if szx' =? sn_szx s then (num, sn_szx s, sn_off s)
    else if sn_szx s <? szx' then (num, sn_szx s, sn_off s)          (* increase: ignored *)
    else if (sn_off s + chunk) mod blk_chunk szx' =? 0 then
      let n := (sn_off s + chunk) / blk_chunk szx' - 1 in (n, szx', n * blk_chunk szx')
    else (num, sn_szx s, sn_off s) in
  if num1 <=? sn_last s then
    ({| sn_szx := szx1; sn_last := sn_last s; sn_off := off1 |}, None)  (* duplicate / stale 2.31 *)
  else
    let off2 := (num1 + 1) * blk_chunk szx1 in
    ({| sn_szx := szx1; sn_last := num1; sn_off := off2 |},
     if off2 <? length then Some (num1 + 1, szx1) else None).

(* SZX in the 2.31 of the server: forced down for block 0 when a maximum is configured *)
Definition blk_srv_resp_szx (maxszx num szx : Z) : Z :=
  if (num =? 0) && negb (maxszx =? 0) && (maxszx <? szx) then maxszx else szx.

(* the closed loop without loss: the client sends block (num, szx); the server handles it;
   on "continue" the client processes the 2.31 and sends the next block *)
Fixpoint blk_b1_loop (fuel : nat) (junk : Z -> Z) (maxszx : Z) (body : bytes) (size : option Z)
         (snd : blk_snd) (srv : option blk_rcv) (num szx : Z) : list blk_out :=
  match fuel with
  | O => []
  | S f =>
      let '(srv', o) := blk_srv_step junk maxszx srv (blk_arr_of body szx size num) in
      match o with
      | BoContinue =>
          let '(snd', nxt) := blk_snd_ack (len body) snd num (blk_srv_resp_szx maxszx num szx) in
          match nxt with
          | Some (num', szx') => o :: blk_b1_loop f junk maxszx body size snd' srv' num' szx'
          | None => [o]
          end
      | _ => [o]
      end
  end.

(* ------------------------------------------------------------------ (D) Block2 closed loop *)
(* the server serves block num of the body from its lg_xmit; the client reassembles and asks
   for num+1 while More is set *)
Fixpoint blk_b2_loop (fuel : nat) (junk : Z -> Z) (body : bytes) (szx : Z) (size : option Z)
         (etag : option Z) (c : blk_crcv) (num : Z) : list blk_out :=
  match fuel with
  | O => []
  | S f =>
      let a := blk_arr_of body szx size num in
      let '(c', o, _) := blk_cli_recv junk c {| rs_etag := etag; rs_arr := a |} in
      match o with
      | BoContinue => if ba_m a =? 1 then o :: blk_b2_loop f junk body szx size etag c' (num + 1)
                      else [o]
      | _ => [o]
      end
  end.

(* ------------------------------------------------------------------ (E) expiry timers *)
(* coap_block_check_lg_xmit_timeouts / coap_block_check_lg_crcv_timeouts, client side: the
   transfer state carries the time of the last progress (lg_xmit->last_sent is set when the next
   Block1 request is sent; lg_crcv->last_used when a new Block2 block is accepted - the latter
   since /repo commit b2162dc) and is deleted by the periodic check when
   last + MAX_TRANSMIT_WAIT <= now. *)
Inductive blk_tev :=
| TvProgress (t : Z)      (* a block was sent / accepted at time t *)
| TvCheck (t : Z).        (* the timeout function ran at time t *)

Definition blk_tev_time (e : blk_tev) : Z := match e with TvProgress t | TvCheck t => t end.

(* (alive, last) after the events; a deleted state stays deleted *)
Fixpoint blk_timed_run (wait : Z) (alive : bool) (last : Z) (l : list blk_tev) : bool * Z :=
  match l with
  | [] => (alive, last)
  | TvProgress t :: l' => blk_timed_run wait alive (if alive then t else last) l'
  | TvCheck t :: l' => blk_timed_run wait (alive && negb (last + wait <=? t)) last l'
  end.

(* the same without the refresh (what the server side does for lg_srcv and its lg_xmit, and
   what the client did for lg_crcv before b2162dc): only the creation time counts *)
Fixpoint blk_timed_run_norefresh (wait : Z) (alive : bool) (last : Z) (l : list blk_tev) : bool * Z :=
  match l with
  | [] => (alive, last)
  | TvProgress t :: l' => blk_timed_run_norefresh wait alive last l'
  | TvCheck t :: l' => blk_timed_run_norefresh wait (alive && negb (last + wait <=? t)) last l'
  end.

(* ------------------------------------------------------------------ (F) Block2 server table *)
(* session->lg_xmit entries for responses: coap_find_lg_xmit_response matches on resource,
   request method, Uri-Query and Request-Tag - one abstract key here; the stored body and the
   block size it is served with.  A GET with Block2 NUM 0 (or without a stored body) goes to
   the application, which answers through coap_add_data_large_response with the body that
   belongs to the request's key; NUM > 0 with a stored body is served by
   coap_handle_request_send_block from the lg_xmit. *)
Record blk_xmit := { xm_key : Z; xm_body : bytes; xm_szx : Z }.
Definition blk_xtab := list blk_xmit.
Record blk_greq := { gq_key : Z; gq_num : Z; gq_szx : Z }.
Inductive blk_gresp :=
| GrBlock (num m szx : Z) (data : bytes)      (* 2.05 with Block2 num/m/szx *)
| GrError (code : Z).                         (* 4.00 = 128, 5.00 = 160 *)

Fixpoint blk_xtab_find (t : blk_xtab) (k : Z) : option blk_xmit :=
  match t with
  | [] => None
  | x :: t' => if xm_key x =? k then Some x else blk_xtab_find t' k
  end.

Fixpoint blk_xtab_remove (t : blk_xtab) (k : Z) : blk_xtab :=
  match t with
  | [] => []
  | x :: t' => if xm_key x =? k then t' else x :: blk_xtab_remove t' k
  end.

(* the application handler: coap_add_data_large_response_lkd + coap_add_data_large_internal
   for a response, plenty of room in the PDU; maxszx = COAP_BLOCK_MAX_SIZE_GET (0 = not set) *)
Definition blk_srv2_app (bodies : Z -> bytes) (maxszx : Z) (t : blk_xtab) (g : blk_greq)
  : blk_xtab * blk_gresp :=
  let body := bodies (gq_key g) in
  let c := blk_chunk (gq_szx g) in
  if negb (gq_num g =? 0) && (len body <=? gq_num g * c) then (t, GrError 128)   (* illegal block *)
  else
    let t1 := blk_xtab_remove t (gq_key g) in       (* an older stored body for the key is freed *)
    let s := if negb (maxszx =? 0) && (maxszx <? gq_szx g) then maxszx else gq_szx g in
    if negb (gq_num g =? 0) then
      (* "App is defining a single block to send": no lg_xmit; the option keeps the requested
         SZX and the More bit computed for it, the data is cut with the (possibly smaller)
         block size s *)
      (t1, GrBlock (gq_num g) (if c <? len body - gq_num g * c then 1 else 0) (gq_szx g)
                   (blk_slice_c body (blk_chunk s) (gq_num g)))
    else if blk_chunk s <? len body then
      ({| xm_key := gq_key g; xm_body := body; xm_szx := s |} :: t1,
       GrBlock 0 1 s (blk_slice body s 0))
    else (t1, GrBlock 0 0 s body).

(* coap_handle_request_send_block in front of it *)
Definition blk_srv2_recv (bodies : Z -> bytes) (maxszx : Z) (t : blk_xtab) (g : blk_greq)
  : blk_xtab * blk_gresp :=
  if gq_num g =? 0 then blk_srv2_app bodies maxszx t g          (* "get a fresh copy of the data" *)
  else
    match blk_xtab_find t (gq_key g) with
    | None => blk_srv2_app bodies maxszx t g
    | Some x =>
        if negb (gq_szx g =? xm_szx x) then (t, GrError 128)    (* changing block size: 4.00 *)
        else
          let c := blk_chunk (xm_szx x) in
          if len (xm_body x) <=? gq_num g * c then (t, GrError 160)
          else (t, GrBlock (gq_num g) (if gq_num g * c + c <? len (xm_body x) then 1 else 0)
                           (xm_szx x) (blk_slice (xm_body x) (xm_szx x) (gq_num g)))
    end.

Fixpoint blk_srv2_run (bodies : Z -> bytes) (maxszx : Z) (t : blk_xtab) (l : list blk_greq)
  : list (blk_greq * blk_gresp) :=
  match l with
  | [] => []
  | g :: l' => let '(t', r) := blk_srv2_recv bodies maxszx t g in
               (g, r) :: blk_srv2_run bodies maxszx t' l'
  end.

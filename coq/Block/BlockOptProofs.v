(* C09 layer 1a proofs: option value <-> (NUM, M, SZX) round trip. *)
From LibcoapV Require Import Base.Tactics Base.Bytes Base.BytesProofs Block.BlockOpt.
Local Open Scope Z_scope.

Lemma blk_chunk_pos szx : 0 <= szx -> 0 < blk_chunk szx.
Proof. intros. unfold blk_chunk. apply Z.pow_pos_nonneg; lia. Qed.

Lemma blk_chunk_values szx : 0 <= szx <= 6 ->
  blk_chunk szx = 16 \/ blk_chunk szx = 32 \/ blk_chunk szx = 64 \/ blk_chunk szx = 128 \/
  blk_chunk szx = 256 \/ blk_chunk szx = 512 \/ blk_chunk szx = 1024.
Proof.
  intros H. unfold blk_chunk.
  assert (szx = 0 \/ szx = 1 \/ szx = 2 \/ szx = 3 \/ szx = 4 \/ szx = 5 \/ szx = 6) as C by lia.
  destruct C as [-> | [-> | [-> | [-> | [-> | [-> | ->]]]]]]; vm_compute; tauto.
Qed.

Lemma blk_chunk_range szx : 0 <= szx <= 6 -> 16 <= blk_chunk szx <= 1024.
Proof. intros H. destruct (blk_chunk_values szx H) as [E|[E|[E|[E|[E|[E|E]]]]]]; rewrite E; lia. Qed.

Lemma blk_chunk_double szx : 0 <= szx -> blk_chunk (szx + 1) = 2 * blk_chunk szx.
Proof.
  intros. unfold blk_chunk. replace (szx + 1 + 4) with (Z.succ (szx + 4)) by lia.
  rewrite Z.pow_succ_r by lia. reflexivity.
Qed.

(* a smaller block size divides a larger one *)
Lemma blk_chunk_divides s' s : 0 <= s' <= s ->
  blk_chunk s = blk_chunk s' * 2 ^ (s - s').
Proof.
  intros H. unfold blk_chunk. rewrite <- Z.pow_add_r by lia. f_equal. lia.
Qed.

Lemma blk_encode_var_wfb v : 0 <= v < 4294967296 -> wfb (blk_encode_var v).
Proof.
  intros H. unfold blk_encode_var.
  repeat case_if; repeat (apply Forall_cons || apply Forall_nil); unfold is_byte; lia.
Qed.

Lemma blk_encode_var_len v : 0 <= v < 16777216 -> len (blk_encode_var v) <= 3.
Proof.
  intros H. unfold blk_encode_var. repeat case_if; unfold len; cbn [length]; lia.
Qed.

(* the option value carries exactly the three fields *)
Theorem blk_opt_roundtrip num m szx :
  0 <= num < 1048576 -> 0 <= m <= 1 -> 0 <= szx <= 6 ->
  blk_get_block (blk_opt_value num m szx) = Some (num, m, szx).
Proof.
  intros Hn Hm Hs.
  assert (Hw : 0 <= blk_opt_word num m szx < 16777216) by (unfold blk_opt_word; lia).
  unfold blk_get_block, blk_opt_value, blk_encode_var.
  remember (blk_opt_word num m szx) as w eqn:Ew. unfold blk_opt_word in Ew.
  destruct (w <=? 0) eqn:E0.
  { assert (num = 0 /\ m = 0 /\ szx = 0) as (-> & -> & ->) by lia. reflexivity. }
  destruct (w <? 256) eqn:E1.
  { unfold blk_opt_szx, blk_opt_num, blk_opt_more, blk_end_byte.
    cbn [last removelast blk_be_decode].
    assert (w mod 8 = szx) as -> by lia.
    assert ((w / 8) mod 2 = m) as -> by lia.
    assert (0 * 16 mod 4294967296 + (w / 16) mod 16 = num) as -> by lia.
    destruct (szx =? 7) eqn:E7; [lia|]. destruct (1048575 <? num) eqn:E8; [lia|]. reflexivity. }
  destruct (w <? 65536) eqn:E2.
  { unfold blk_opt_szx, blk_opt_num, blk_opt_more, blk_end_byte.
    cbn [last removelast blk_be_decode].
    assert ((w mod 256) mod 8 = szx) as -> by lia.
    assert ((w mod 256 / 8) mod 2 = m) as -> by lia.
    assert ((0 * 256 + w / 256) mod 4294967296 * 16 mod 4294967296 + (w mod 256 / 16) mod 16 = num)
      as -> by lia.
    destruct (szx =? 7) eqn:E7; [lia|]. destruct (1048575 <? num) eqn:E8; [lia|]. reflexivity. }
  destruct (w <? 16777216) eqn:E3; [|lia].
  unfold blk_opt_szx, blk_opt_num, blk_opt_more, blk_end_byte.
  cbn [last removelast blk_be_decode].
  assert ((w mod 256) mod 8 = szx) as -> by lia.
  assert ((w mod 256 / 8) mod 2 = m) as -> by lia.
  assert (((0 * 256 + w / 65536) mod 4294967296 * 256 + (w / 256) mod 256) mod 4294967296 * 16
            mod 4294967296 + (w mod 256 / 16) mod 16 = num) as -> by lia.
  destruct (szx =? 7) eqn:E7; [lia|]. destruct (1048575 <? num) eqn:E8; [lia|]. reflexivity.
Qed.

Theorem blk_opt_value_len num m szx :
  0 <= num < 1048576 -> 0 <= m <= 1 -> 0 <= szx <= 6 ->
  len (blk_opt_value num m szx) <= 3 /\ wfb (blk_opt_value num m szx).
Proof.
  intros. unfold blk_opt_value. split.
  - apply blk_encode_var_len. unfold blk_opt_word. lia.
  - apply blk_encode_var_wfb. unfold blk_opt_word. lia.
Qed.

(* what the decoder accepts is in range: NUM at most 20 bits, SZX at most 6, M one bit *)
Theorem blk_get_block_range v num m szx :
  wfb v -> blk_get_block v = Some (num, m, szx) ->
  0 <= num < 1048576 /\ 0 <= m <= 1 /\ 0 <= szx <= 6.
Proof.
  intros Hv. unfold blk_get_block.
  destruct (blk_opt_szx v =? 7) eqn:E7; [discriminate|].
  destruct (1048575 <? blk_opt_num v) eqn:E8; [discriminate|].
  intros H. inversion H; subst; clear H.
  assert (He : 0 <= blk_end_byte v < 256).
  { unfold blk_end_byte. destruct v as [|x v]; [cbn; lia|].
    assert (In (last (x :: v) 0) (x :: v)) as Hin.
    { destruct (exists_last (l := x :: v)) as (l' & a & E); [discriminate|].
      rewrite E. rewrite last_last. apply in_or_app. right. left. reflexivity. }
    unfold wfb in Hv. rewrite Forall_forall in Hv. apply Hv in Hin. exact Hin. }
  unfold blk_opt_more, blk_opt_szx in *.
  assert (0 <= blk_opt_num v).
  { unfold blk_opt_num. destruct v; [lia|]. lia. }
  lia.
Qed.

(* decoding is canonical: a value the decoder accepts re-encodes to the same fields (the
   encoder drops leading zero bytes only) *)
Theorem blk_get_block_reencode v num m szx :
  wfb v -> blk_get_block v = Some (num, m, szx) ->
  blk_get_block (blk_opt_value num m szx) = Some (num, m, szx).
Proof.
  intros Hv H. apply blk_get_block_range in H; auto.
  destruct H as (Hn & Hm & Hs). apply blk_opt_roundtrip; auto.
Qed.

(* non-vacuity: the largest number and size, More set, is a 3-byte value *)
Example blk_opt_example :
  blk_opt_value 1048575 1 6 = [255; 255; 254] /\
  blk_get_block [255; 255; 254] = Some (1048575, 1, 6) /\
  blk_get_block [255; 255; 255] = None /\            (* SZX 7 = BERT: refused on UDP *)
  blk_get_block [16; 0; 0; 6] = None /\              (* NUM = 2^20: refused *)
  blk_opt_value 0 0 0 = [] /\ blk_get_block [] = Some (0, 0, 0).
Proof. vm_compute. repeat split. Qed.

(* block size selection *)
Lemma blk_fls_fuel_bounds f x : 0 < x -> x < 2 ^ Z.of_nat f ->
  2 ^ (blk_fls_fuel f x - 1) <= x < 2 ^ (blk_fls_fuel f x) /\ 1 <= blk_fls_fuel f x.
Proof.
  revert x. induction f as [|f IH]; intros x Hx Hlt.
  - cbn in Hlt. lia.
  - cbn [blk_fls_fuel]. destruct (x <=? 0) eqn:E; [lia|].
    destruct (Z.eq_dec x 1) as [->|Hne].
    + replace (1 / 2) with 0 by reflexivity.
      destruct f; cbn [blk_fls_fuel]; cbn; lia.
    + assert (Hh : 0 < x / 2) by lia.
      assert (Hlt' : x / 2 < 2 ^ Z.of_nat f).
      { rewrite Nat2Z.inj_succ, Z.pow_succ_r in Hlt by lia. lia. }
      destruct (IH (x / 2) Hh Hlt') as ((L & U) & P).
      set (k := blk_fls_fuel f (x / 2)) in *.
      replace (1 + k - 1) with (Z.succ (k - 1)) by lia.
      replace (1 + k) with (Z.succ k) by lia.
      rewrite !Z.pow_succ_r by lia. lia.
Qed.

(* the selected block fits the space and is the largest that does (up to the cap 1024) *)
Theorem blk_szx_for_avail_fits avail :
  16 <= avail < 2 ^ 63 ->
  let s := blk_szx_for_avail avail in
  0 <= s <= 6 /\ blk_chunk s <= avail /\ (s < 6 -> avail < blk_chunk (s + 1)).
Proof.
  intros H s. unfold s, blk_szx_for_avail, blk_fls.
  assert (Hb := blk_fls_fuel_bounds 64 avail ltac:(lia)
                  ltac:(change (Z.of_nat 64) with 64; assert (2^63 < 2^64) by (vm_compute; reflexivity); lia)).
  destruct Hb as ((L & U) & P).
  set (k := blk_fls_fuel 64 avail) in *.
  assert (5 <= k).
  { destruct (Z_lt_le_dec k 5); [|lia].
    assert (2 ^ k <= 2 ^ 4) by (apply Z.pow_le_mono_r; lia). change (2 ^ 4) with 16 in *. lia. }
  unfold blk_chunk.
  destruct (Z_le_gt_dec 6 (k - 5)).
  - rewrite Z.min_l by lia. split; [lia|]. split; [|lia].
    assert (2 ^ (6 + 4) <= 2 ^ (k - 1)) by (apply Z.pow_le_mono_r; lia). lia.
  - rewrite Z.min_r by lia. split; [lia|]. split.
    + replace (k - 5 + 4) with (k - 1) by lia. lia.
    + intros _. replace (k - 5 + 1 + 4) with k by lia. lia.
Qed.

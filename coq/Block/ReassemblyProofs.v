(* C09 layer 2: the reassembly theorem.  For ANY arrival sequence (any order, duplicates,
   gaps) of blocks that are the slices of one body at one block size:
     - whatever the receiver hands to the application is that body;
     - a block of inconsistent size is never produced by such a sender (no reject);
     - the number of deliveries is at most the number of times any single block arrived:
       a second delivery needs a complete second copy of the transfer.
   Proved for the server side (Block1, coap_handle_request_put_block) and the client side
   (Block2, coap_handle_response_get_block), single-body mode, for every content of
   uninitialised storage. *)
From LibcoapV Require Import Base.Tactics Base.Bytes Base.BytesProofs Block.BlockOpt
  Block.BlockOptProofs Block.Slices Block.SlicesProofs Block.RecBlocks Block.RecBlocksProofs
  Block.BufProofs.
Local Open Scope Z_scope.

Definition blk_is_delivery (o : blk_out) : bool :=
  match o with BoDeliver _ | BoPass => true | _ => false end.
Definition blk_count_deliveries (l : list blk_out) : Z := len (filter blk_is_delivery l).
Definition blk_count_num (k : Z) (l : list blk_arr) : Z :=
  len (filter (fun a => ba_num a =? k) l).

Section Reassembly.
  Variable body : bytes.
  Variable szx : Z.
  Variable junk : Z -> Z.
  Hypothesis Hszx : 0 <= szx.
  Hypothesis Hbody : 0 < len body.

  Let c := blk_chunk szx.
  Let L := len body.
  Let K := blk_nblocks body szx.

  Lemma rs_c_pos : 0 < c.
  Proof. apply blk_chunk_pos; exact Hszx. Qed.

  Lemma rs_K_bounds : (K - 1) * c < L <= K * c /\ 1 <= K.
  Proof.
    pose proof rs_c_pos as Hc.
    destruct (blk_nblocks_c_bounds L c Hc ltac:(unfold L; lia)) as [B|B]; [|unfold L in *; lia].
    fold (blk_nblocks_c L c) in B.
    assert (K = blk_nblocks_c L c) as EK by reflexivity. rewrite <- EK in B.
    split; [exact B|]. destruct (Z_lt_le_dec K 1); [|lia].
    assert (K * c <= 0 * c) by (apply Z.mul_le_mono_nonneg_r; lia). unfold L in *. lia.
  Qed.

  Lemma rs_K_eq : (L + c - 1) / c = K.
  Proof. reflexivity. Qed.

  Lemma rs_slice_len k : 0 <= k < K ->
    let d := blk_slice body szx k in
    1 <= len d <= c /\ k * c + len d <= L /\ len d = Z.min c (L - k * c) /\
    (blk_more body szx k = true -> len d = c) /\
    (blk_more body szx k = false -> k = K - 1 /\ k * c + len d = L).
  Proof.
    intros Hk d. pose proof rs_c_pos as Hc. destruct rs_K_bounds as (B & K1).
    assert (Ld : len d = Z.max 0 (Z.min c (L - k * c))).
    { unfold d, blk_slice. apply blk_slice_c_len; lia. }
    assert ((k + 1) * c <= K * c) by (apply Z.mul_le_mono_nonneg_r; lia).
    assert (k * c <= (K - 1) * c) by (apply Z.mul_le_mono_nonneg_r; lia).
    pose proof (blk_more_iff body szx k Hszx Hk) as M. fold K in M.
    split; [lia|]. split; [lia|]. split; [lia|]. split.
    - intros Hm. apply M in Hm.
      assert ((k + 1) * c <= (K - 1) * c) by (apply Z.mul_le_mono_nonneg_r; lia). lia.
    - intros Hm. assert (~ k < K - 1) by (intros X; apply M in X; congruence).
      assert (k = K - 1) by lia. subst k. split; [reflexivity|]. lia.
  Qed.

  Lemma rs_idx i : 0 <= i < L -> 0 <= i / c < K.
  Proof.
    intros Hi. pose proof rs_c_pos as Hc. destruct rs_K_bounds as (B & K1).
    split; [apply Z.div_pos; lia|]. apply Z.div_lt_upper_bound; lia.
  Qed.

  Lemma rs_idx_block i k : 0 <= i -> (i / c = k <-> k * c <= i < k * c + c).
  Proof.
    intros Hi. pose proof rs_c_pos as Hc. split.
    - intros <-. pose proof (Z.div_mod i c ltac:(lia)). pose proof (Z.mod_pos_bound i c Hc). lia.
    - intros H. symmetry. apply (Z.div_unique i c k (i - k * c)); lia.
  Qed.

  (* "the stored bytes of every recorded block are the body's" *)
  Definition rs_good (r : blk_ranges) (b : bytes) : Prop :=
    forall i, 0 <= i < L -> blk_memP r (i / c) -> i < len b /\ blk_get b i = blk_get body i.

  (* storing block k into the buffer keeps the recorded blocks good *)
  Lemma rs_store r r' bo k total :
    0 <= k < K ->
    (forall j, blk_memP r' j <-> j = k \/ blk_memP r j) ->
    (forall b, bo = Some b -> rs_good r b) ->
    (bo = None -> r = []) ->
    k * c + len (blk_slice body szx k) <= total ->
    (forall b, bo = Some b -> total <= len b \/ len b <= k * c + len (blk_slice body szx k)) ->
    exists b', blk_build_body junk bo (blk_slice body szx k) (k * c) total = Some b' /\
      rs_good r' b' /\ k * c + len (blk_slice body szx k) <= len b' /\
      (forall b, bo = Some b -> len b <= len b' /\ (total <= len b -> len b' = len b) /\
         (len b < total -> len b' = k * c + len (blk_slice body szx k))) /\
      (bo = None -> len b' = total).
  Proof.
    intros Hk Hm Hg Hn Ht Hb. pose proof rs_c_pos as Hc.
    destruct (rs_slice_len k Hk) as (S1 & S2 & S3 & S4 & S5).
    set (d := blk_slice body szx k) in *.
    destruct (blk_build_body_effect junk bo d (k * c) total ltac:(nia) ltac:(lia) Ht Hb)
      as (b' & E & E1 & E2 & E3 & E4).
    exists b'. split; [exact E|]. split; [|split; [exact E1|split; [|exact E4]]].
    - intros i Hi Mi. apply Hm in Mi.
      destruct (Z.eq_dec (i / c) k) as [Ek|Nk].
      + apply rs_idx_block in Ek; [|lia].
        assert (i < k * c + len d) by lia. split; [lia|].
        rewrite E2 by lia. unfold d, blk_slice. rewrite blk_get_slice_c by lia. f_equal. lia.
      + destruct Mi as [Mi|Mi]; [congruence|].
        destruct bo as [b|].
        * destruct (Hg b eq_refl i Hi Mi) as (G1 & G2).
          destruct (E3 b eq_refl) as (F1 & F2 & F2' & F3). split; [lia|].
          rewrite F3; [exact G2|lia|]. intros X. apply Nk. apply rs_idx_block; lia.
        * rewrite (Hn eq_refl) in Mi. destruct Mi.
    - intros b Eb. destruct (E3 b Eb) as (F1 & F2 & F2' & F3). split; [assumption|split; assumption].
  Qed.

  (* all blocks recorded and all good: the first L bytes are the body *)
  Lemma rs_complete r b : rs_good r b -> (forall j, 0 <= j < K -> blk_memP r j) ->
    take L b = body.
  Proof.
    intros Hg Ha. destruct rs_K_bounds as (B & K1).
    assert (Lb : L <= len b).
    { destruct (Hg (L - 1) ltac:(lia)) as (G & _); [apply Ha; apply rs_idx; lia|]. lia. }
    apply blk_ext.
    - rewrite len_take; [reflexivity|lia].
    - intros i Hi. rewrite len_take in Hi by lia. rewrite blk_get_take by lia.
      apply Hg; [lia|]. apply Ha. apply rs_idx. lia.
  Qed.

  (* ---------------------------------------------------------------- server (Block1) *)
  Definition rs_end (j : Z) : Z := j * c + len (blk_slice body szx j).

  Definition rs_srv_inv (size : option Z) (st : option blk_rcv) (seen : list Z) : Prop :=
    match st with
    | None => seen = []
    | Some s =>
        blk_inv (br_rec s) /\ br_rec s <> [] /\
        (forall j, blk_memP (br_rec s) j <-> In j seen) /\
        (forall j, In j seen -> 0 <= j < K) /\
        (size = Some L -> br_total s = L) /\ br_total s <= L /\
        (forall j, blk_memP (br_rec s) j -> rs_end j <= br_total s) /\
        (br_nomore s = true <-> blk_memP (br_rec s) (K - 1)) /\
        exists b, br_body s = Some b /\ len b = br_total s /\ rs_good (br_rec s) b
    end.

  Lemma rs_all_in_iff r : blk_inv r -> r <> [] -> (forall j, blk_memP r j -> 0 <= j < K) ->
    (blk_check_all_in r ((L + c - 1) / c) = true <-> forall j, 0 <= j < K -> blk_memP r j).
  Proof.
    intros Hi Hne Hr. rewrite rs_K_eq.
    rewrite (blk_check_all_in_spec r K Hi Hne).
    - split; intros H j Hj; apply blk_abs_mem; apply H; exact Hj.
    - intros j Hj. apply blk_abs_mem in Hj. apply Hr in Hj. lia.
  Qed.

  Lemma rs_update_nonempty r k r' : blk_update r k = Some r' -> blk_inv r -> 0 <= k -> r' <> [].
  Proof.
    intros H Hi Hk E. subst r'.
    pose proof (blk_update_mem r k Hi Hk [] H k) as M. cbn in M. tauto.
  Qed.

  Lemma rs_end_last : rs_end (K - 1) = L.
  Proof.
    destruct rs_K_bounds as (B & K1). unfold rs_end.
    destruct (blk_slice_len_final body szx Hszx Hbody) as (_ & E). exact E.
  Qed.

  Lemma rs_srv_step size st seen k :
    size = None \/ size = Some L ->
    rs_srv_inv size st seen -> 0 <= k < K ->
    let '(st', o) := blk_srv_step junk st (blk_arr_of body szx size k) in
    match o with
    | BoDeliver d => d = body /\ st' = None /\ (forall j, 0 <= j < K -> In j (k :: seen))
    | BoPass => K = 1 /\ blk_slice body szx k = body /\ st' = st
    | BoContinue => rs_srv_inv size st' (k :: seen) /\ ~ (forall j, 0 <= j < K -> In j (k :: seen))
    | BoFail => st' = None /\ exists s, st = Some s /\ blk_update (br_rec s) k = None
    | BoReject => False
    end.
  Proof.
    intros Hsz Hinv Hk. pose proof rs_c_pos as Hc. destruct rs_K_bounds as (B & K1).
    destruct (rs_slice_len k Hk) as (S1 & S2 & S3 & S4 & S5).
    unfold blk_srv_step. cbn [blk_arr_of ba_num ba_m ba_szx ba_size ba_data].
    fold c. set (d := blk_slice body szx k) in *.
    set (m := if blk_more body szx k then 1 else 0).
    destruct ((k =? 0) && (m =? 0)) eqn:Epass.
    { assert (k = 0) by lia. subst k.
      assert (Mf : blk_more body szx 0 = false) by (unfold m in Epass; destruct (blk_more body szx 0); [lia|reflexivity]).
      destruct (S5 Mf) as (EK & EL). split; [lia|]. split; [|reflexivity].
      apply blk_ext; [fold L; lia|]. intros i Hi. unfold d, blk_slice. fold c.
      rewrite blk_get_slice_c by lia. f_equal. }
    destruct (c <? len d) eqn:Eov; [lia|].
    destruct ((len d <=? c) && (m =? 1) && negb (len d =? c)) eqn:Erej.
    { unfold m in Erej. destruct (blk_more body szx k) eqn:Mm; [|lia].
      specialize (S4 eq_refl). lia. }
    destruct (0 <? len d) eqn:Epos; [|lia].
    assert (Hm1 : (m =? 1) = true -> k <> K - 1).
    { intros Em Ek. unfold m in Em. destruct (blk_more body szx k) eqn:Mm; [|lia].
      apply (blk_more_iff body szx k Hszx Hk) in Mm. fold K in Mm. lia. }
    assert (Hm0 : (m =? 1) = false -> k = K - 1).
    { intros Em. unfold m in Em. destruct (blk_more body szx k) eqn:Mm; [lia|].
      destruct (S5 eq_refl). assumption. }
    assert (Hend : rs_end k = k * c + len d) by reflexivity.
    (* the lg_srcv in use *)
    set (s0 := match st with
               | Some s => s
               | None => {| br_rec := []; br_total := blk_opt_z size; br_body := None;
                            br_nomore := false |}
               end).
    assert (I0 : blk_inv (br_rec s0) /\ (forall j, blk_memP (br_rec s0) j <-> In j seen) /\
                 (forall j, In j seen -> 0 <= j < K) /\
                 (size = Some L -> br_total s0 = L) /\ 0 <= br_total s0 <= L /\
                 (forall j, blk_memP (br_rec s0) j -> rs_end j <= br_total s0) /\
                 (br_nomore s0 = true <-> blk_memP (br_rec s0) (K - 1)) /\
                 (forall b, br_body s0 = Some b -> len b = br_total s0 /\ rs_good (br_rec s0) b) /\
                 (br_body s0 = None -> br_rec s0 = []) /\
                 (br_rec s0 <> [] -> exists b, br_body s0 = Some b)).
    { unfold s0. destruct st as [s|]; cbn [rs_srv_inv] in Hinv.
      - destruct Hinv as (A1 & A2 & A3 & A4 & A5 & A5' & A5'' & A5n & b & A6 & A7 & A8).
        split; [exact A1|]. split; [exact A3|]. split; [exact A4|]. split; [exact A5|].
        split; [pose proof (len_nonneg b); lia|]. split; [exact A5''|]. split; [exact A5n|].
        split; [|split].
        + intros b0 Eb. rewrite A6 in Eb. inversion Eb; subst. split; assumption.
        + intros X. rewrite A6 in X. discriminate.
        + intros _. exists b. exact A6.
      - subst seen. cbn [br_rec br_total br_body br_nomore].
        split. { split; [exact I|]. cbn. unfold blk_rblock_cnt. lia. }
        split. { intros j. cbn. tauto. }
        split. { intros j []. }
        split. { intros ->. reflexivity. }
        split. { destruct Hsz as [->| ->]; cbn [blk_opt_z]; unfold L in *; lia. }
        split. { intros j []. }
        split. { cbn. split; [discriminate|tauto]. }
        split; [discriminate|]. split; [reflexivity|]. intros X. congruence. }
    destruct I0 as (J1 & J2 & J3 & J4 & J4' & J4e & J4n & J5 & J6 & J7).
    destruct (blk_check_received (br_rec s0) k) eqn:Erecv.
    - (* duplicate of a recorded block: nothing changes *)
      cbn [andb].
      apply (blk_check_received_spec _ _ J1) in Erecv. apply blk_abs_mem in Erecv.
      assert (Hne : br_rec s0 <> []) by (intros X; rewrite X in Erecv; destruct Erecv).
      destruct (J7 Hne) as (b & Eb). destruct (J5 b Eb) as (Lb & Gb).
      assert (Hr : forall j, blk_memP (br_rec s0) j -> 0 <= j < K) by (intros j Hj; apply J3, J2, Hj).
      assert (Hlast : blk_memP (br_rec s0) (K - 1) -> br_total s0 = L).
      { intros X. apply J4e in X. rewrite rs_end_last in X. lia. }
      set (allin := blk_check_all_in (br_rec s0) ((br_total s0 + c - 1) / c)).
      destruct (if m =? 1 then br_nomore s0 && allin else allin) eqn:Ecomp.
      + assert (Et : br_total s0 = L /\ allin = true).
        { destruct (m =? 1) eqn:Em.
          - apply andb_true_iff in Ecomp. destruct Ecomp as (N1 & N2). split; [|exact N2].
            apply Hlast, J4n, N1.
          - split; [|exact Ecomp]. apply Hlast. rewrite <- (Hm0 eq_refl). exact Erecv. }
        destruct Et as (Et & Eall). unfold allin in Eall. rewrite Et in Eall.
        pose proof (proj1 (rs_all_in_iff _ J1 Hne Hr) Eall) as Eall'. rewrite Eb, Et.
        split; [apply (rs_complete _ _ Gb Eall')|]. split; [reflexivity|].
        intros j Hj. right. apply J2. apply Eall'. exact Hj.
      + split.
        2:{ intros Hall.
            assert (Hall' : forall j, 0 <= j < K -> blk_memP (br_rec s0) j).
            { intros j Hj. apply J2. destruct (Hall j Hj) as [<-|X]; [apply J2; exact Erecv|exact X]. }
            assert (Et : br_total s0 = L) by (apply Hlast, Hall'; lia).
            assert (Eall : allin = true).
            { unfold allin. rewrite Et. apply (rs_all_in_iff _ J1 Hne Hr). exact Hall'. }
            rewrite Eall in Ecomp. destruct (m =? 1) eqn:Em; [|discriminate].
            rewrite andb_true_r in Ecomp.
            assert (br_nomore s0 = true) by (apply J4n, Hall'; lia). congruence. }
        cbn [rs_srv_inv br_rec br_total br_body br_nomore].
        split; [exact J1|]. split; [exact Hne|]. split.
        { intros j. rewrite J2. cbn [In]. split; [tauto|]. intros [<-|X]; [apply J2; exact Erecv|exact X]. }
        split. { intros j [<-|X]; [lia|apply J3; exact X]. }
        split; [exact J4|]. split; [lia|]. split; [exact J4e|]. split.
        { destruct (m =? 1) eqn:Em; [exact J4n|]. rewrite <- (Hm0 eq_refl).
          split; [intros _; exact Erecv|reflexivity]. }
        exists b. auto.
    - destruct (blk_update (br_rec s0) k) as [r'|] eqn:Eupd.
      2:{ split; [reflexivity|]. destruct st as [s|].
          - exists s. split; [reflexivity|exact Eupd].
          - exfalso. unfold s0 in Eupd. cbn [br_rec] in Eupd. vm_compute in Eupd. discriminate. }
      cbn [andb].
      set (total' := if br_total s0 <? k * c + len d then k * c + len d else br_total s0).
      assert (Ht' : br_total s0 <= total' <= L /\ k * c + len d <= total' /\
                    (size = Some L -> total' = L) /\
                    (total' = br_total s0 \/ (br_total s0 < total' /\ total' = k * c + len d))).
      { unfold total'. destruct (br_total s0 <? k * c + len d) eqn:X.
        - split; [lia|]. split; [lia|]. split; [intros Z0; specialize (J4 Z0); lia|]. right. lia.
        - split; [lia|]. split; [lia|]. split; [exact J4|]. left. reflexivity. }
      destruct Ht' as (T1 & T2 & T3 & T4).
      assert (K0 : 0 <= k) by lia.
      assert (Hmem : forall j, blk_memP r' j <-> j = k \/ blk_memP (br_rec s0) j).
      { intros j. rewrite <- !blk_abs_mem. apply (blk_update_mem _ _ J1 K0 _ Eupd). }
      assert (Hi' : blk_inv r') by (apply (blk_update_inv _ _ J1 K0 _ Eupd)).
      assert (Hne' : r' <> []) by (apply (rs_update_nonempty _ _ _ Eupd J1); lia).
      destruct (rs_store (br_rec s0) r' (br_body s0) k total' Hk Hmem
                  ltac:(intros b Eb; apply J5; exact Eb) J6 ltac:(fold d; lia)
                  ltac:(intros b Eb; fold d; destruct (J5 b Eb) as (X & _); lia))
        as (b' & Eb' & Gb' & Lb' & Mb' & Nb').
      fold d in Eb'. rewrite Eb'.
      assert (Lb : len b' = total').
      { destruct (br_body s0) as [b|] eqn:Eb.
        - destruct (Mb' b eq_refl) as (_ & X & Y). destruct (J5 b eq_refl) as (Z0 & _).
          fold d in Y. destruct T4 as [T4|(T4 & T5)]; [rewrite X; lia|rewrite Y; lia].
        - apply Nb'. reflexivity. }
      assert (Hr : forall j, blk_memP r' j -> 0 <= j < K).
      { intros j Hj. apply Hmem in Hj. destruct Hj as [->|Hj]; [lia|apply J3, J2, Hj]. }
      assert (He' : forall j, blk_memP r' j -> rs_end j <= total').
      { intros j Hj. apply Hmem in Hj. destruct Hj as [->|Hj]; [lia|]. apply J4e in Hj. lia. }
      assert (Hlast : blk_memP r' (K - 1) -> total' = L).
      { intros X. apply He' in X. rewrite rs_end_last in X. lia. }
      set (allin := blk_check_all_in r' ((total' + c - 1) / c)).
      destruct (if m =? 1 then br_nomore s0 && allin else allin) eqn:Ecomp.
      + assert (Et : total' = L /\ allin = true).
        { destruct (m =? 1) eqn:Em.
          - apply andb_true_iff in Ecomp. destruct Ecomp as (N1 & N2). split; [|exact N2].
            apply Hlast, Hmem. right. apply J4n, N1.
          - split; [|exact Ecomp]. apply Hlast, Hmem. left. symmetry. apply Hm0. reflexivity. }
        destruct Et as (Et & Eall). unfold allin in Eall. rewrite Et in Eall.
        pose proof (proj1 (rs_all_in_iff _ Hi' Hne' Hr) Eall) as Eall'. rewrite Et.
        split; [apply (rs_complete _ _ Gb' Eall')|]. split; [reflexivity|].
        intros j Hj. specialize (Eall' j Hj). apply Hmem in Eall'. cbn [In].
        destruct Eall' as [->|X]; [left; reflexivity|right; apply J2; exact X].
      + split.
        2:{ intros Hall.
            assert (Hall' : forall j, 0 <= j < K -> blk_memP r' j).
            { intros j Hj. apply Hmem. destruct (Hall j Hj) as [<-|X]; [left; reflexivity|right; apply J2; exact X]. }
            assert (Et : total' = L) by (apply Hlast, Hall'; lia).
            assert (Eall : allin = true).
            { unfold allin. rewrite Et. apply (rs_all_in_iff _ Hi' Hne' Hr). exact Hall'. }
            rewrite Eall in Ecomp. destruct (m =? 1) eqn:Em; [|discriminate].
            rewrite andb_true_r in Ecomp.
            assert (X : blk_memP r' (K - 1)) by (apply Hall'; lia). apply Hmem in X.
            destruct X as [X|X]; [specialize (Hm1 eq_refl); lia|].
            assert (br_nomore s0 = true) by (apply J4n, X). congruence. }
        cbn [rs_srv_inv br_rec br_total br_body br_nomore].
        split; [exact Hi'|]. split; [exact Hne'|]. split.
        { intros j. rewrite Hmem, J2. cbn [In]. intuition. }
        split. { intros j [<-|X]; [lia|apply J3; exact X]. }
        split; [exact T3|]. split; [lia|]. split; [exact He'|]. split.
        { destruct (m =? 1) eqn:Em.
          - rewrite J4n, Hmem. specialize (Hm1 eq_refl). intuition lia.
          - split; [intros _; apply Hmem; left; symmetry; apply Hm0; reflexivity|reflexivity]. }
        exists b'. auto.
  Qed.

  Definition rs_ok_out (o : blk_out) : Prop :=
    match o with
    | BoDeliver d => d = body
    | BoReject => False
    | _ => True
    end.

  Definition rs_arrivals (size : option Z) (l : list blk_arr) : Prop :=
    Forall (fun a => exists k, 0 <= k < K /\ a = blk_arr_of body szx size k) l.

  Lemma rs_count_num_cons a l j :
    blk_count_num j (a :: l) = (if ba_num a =? j then 1 else 0) + blk_count_num j l.
  Proof.
    unfold blk_count_num. cbn [filter]. destruct (ba_num a =? j); [rewrite len_cons|]; lia.
  Qed.

  Lemma rs_count_deliveries_cons o l :
    blk_count_deliveries (o :: l) = (if blk_is_delivery o then 1 else 0) + blk_count_deliveries l.
  Proof.
    unfold blk_count_deliveries. cbn [filter]. destruct (blk_is_delivery o); [rewrite len_cons|]; lia.
  Qed.

  Lemma rs_srv_run size l : size = None \/ size = Some L -> rs_arrivals size l ->
    forall st seen, rs_srv_inv size st seen ->
    Forall rs_ok_out (blk_run (blk_srv_step junk) st l) /\
    forall j, 0 <= j < K ->
      blk_count_deliveries (blk_run (blk_srv_step junk) st l)
      <= blk_count_num j l + (if existsb (Z.eqb j) seen then 1 else 0).
  Proof.
    intros Hsz. induction 1 as [|a l (k & Hk & ->) Hl IH]; intros st seen Hinv.
    - cbn [blk_run]. split; [constructor|]. intros j Hj. unfold blk_count_deliveries, blk_count_num.
      cbn. destruct (existsb _ _); lia.
    - cbn [blk_run]. pose proof (rs_srv_step size st seen k Hsz Hinv Hk) as S.
      destruct (blk_srv_step junk st (blk_arr_of body szx size k)) as [st' o].
      assert (Ex : forall j, (if existsb (Z.eqb j) (k :: seen) then 1 else 0) <=
                        (if k =? j then 1 else 0) + (if existsb (Z.eqb j) seen then 1 else 0)).
      { intros j. cbn [existsb]. destruct (j =? k) eqn:E1; destruct (k =? j) eqn:E2; try lia;
        cbn [orb]; destruct (existsb _ _); lia. }
      destruct o as [| | |d|].
      + (* continue *)
        destruct S as (S & _). destruct (IH st' (k :: seen) S) as (I1 & I2). split; [constructor; [exact I|exact I1]|].
        intros j Hj. rewrite rs_count_deliveries_cons, rs_count_num_cons.
        cbn [blk_is_delivery blk_arr_of ba_num]. specialize (I2 j Hj). specialize (Ex j). lia.
      + destruct S.
      + destruct S as (-> & _). destruct (IH None [] eq_refl) as (I1 & I2). split; [constructor; [exact I|exact I1]|].
        intros j Hj. rewrite rs_count_deliveries_cons, rs_count_num_cons.
        cbn [blk_is_delivery blk_arr_of ba_num]. specialize (I2 j Hj). cbn [existsb] in I2.
        destruct (k =? j); destruct (existsb _ _); lia.
      + destruct S as (-> & -> & Hall).
        destruct (IH None [] eq_refl) as (I1 & I2). split; [constructor; [reflexivity|exact I1]|].
        intros j Hj. rewrite rs_count_deliveries_cons, rs_count_num_cons.
        cbn [blk_is_delivery blk_arr_of ba_num]. specialize (I2 j Hj). cbn [existsb] in I2.
        specialize (Hall j Hj). cbn [In] in Hall.
        destruct (k =? j) eqn:E1.
        * destruct (existsb _ _); lia.
        * destruct Hall as [X|X]; [lia|].
          assert (existsb (Z.eqb j) seen = true) as ->.
          { apply existsb_exists. exists j. split; [exact X|lia]. }
          lia.
      + destruct S as (EK & Eb & ->).
        destruct (IH st seen Hinv) as (I1 & I2). split; [constructor; [exact I|exact I1]|].
        intros j Hj. rewrite rs_count_deliveries_cons, rs_count_num_cons.
        cbn [blk_is_delivery blk_arr_of ba_num]. specialize (I2 j Hj).
        assert (k = j) by lia. subst j. rewrite Z.eqb_refl. lia.
  Qed.

  (* the reassembly theorem, server side; the Size1 option may be absent or exact *)
  Theorem blk_srv_reassembly size l : size = None \/ size = Some L -> rs_arrivals size l ->
    Forall rs_ok_out (blk_run (blk_srv_step junk) None l) /\
    forall j, 0 <= j < K ->
      blk_count_deliveries (blk_run (blk_srv_step junk) None l) <= blk_count_num j l.
  Proof.
    intros Hsz Hl. destruct (rs_srv_run size l Hsz Hl None [] eq_refl) as (A & B). split; [exact A|].
    intros j Hj. specialize (B j Hj). cbn [existsb] in B. lia.
  Qed.

  (* ---------------------------------------------------------------- client (Block2) *)
  Definition rs_cli_inv (size : option Z) (st : option blk_rcv) (seen : list Z) : Prop :=
    match st with
    | None => seen = []
    | Some s =>
        blk_inv (br_rec s) /\ br_rec s <> [] /\
        (forall j, blk_memP (br_rec s) j <-> In j seen) /\
        (forall j, In j seen -> 0 <= j < K) /\
        exists b, br_body s = Some b /\ rs_good (br_rec s) b /\ (size = Some L -> L <= len b)
    end.

  Lemma rs_cli_step size st seen k :
    size = None \/ size = Some L ->
    rs_cli_inv size st seen -> 0 <= k < K ->
    let '(st', o) := blk_cli_step junk st (blk_arr_of body szx size k) in
    match o with
    | BoDeliver d => d = body /\ st' = None /\ (forall j, 0 <= j < K -> In j (k :: seen))
    | BoContinue => rs_cli_inv size st' (k :: seen) /\
                    (k = K - 1 -> ~ In k seen -> ~ (forall j, 0 <= j < K -> In j (k :: seen)))
    | BoFail => rs_cli_inv size st' seen /\ exists s, st = Some s /\ blk_update (br_rec s) k = None
    | BoPass | BoReject => False
    end.
  Proof.
    intros Hsz Hinv Hk. pose proof rs_c_pos as Hc. destruct rs_K_bounds as (B & K1).
    destruct (rs_slice_len k Hk) as (S1 & S2 & S3 & S4 & S5).
    unfold blk_cli_step. cbn [blk_arr_of ba_num ba_m ba_szx ba_size ba_data].
    fold c. set (d := blk_slice body szx k) in *.
    set (m := if blk_more body szx k then 1 else 0).
    destruct (negb ((m =? 1) || (0 <? len d))) eqn:Epass.
    { destruct (0 <? len d) eqn:X; [|lia]. rewrite orb_true_r in Epass. discriminate. }
    destruct (c <? len d) eqn:Eov; [lia|].
    destruct ((m =? 1) && negb (len d =? c)) eqn:Erej.
    { unfold m in Erej. destruct (blk_more body szx k) eqn:Mm; [|lia].
      specialize (S4 eq_refl). lia. }
    (* size2 as computed from this message *)
    set (size2 := if blk_opt_z size <? k * c + len d
                  then (if m =? 1 then k * c + len d + 1 else k * c + len d)
                  else blk_opt_z size).
    assert (Hs2 : k * c + len d <= size2 /\
                  (size = Some L -> size2 = L) /\
                  (size = None -> size2 <= k * c + len d + 1) /\
                  (m = 0 -> size2 = L /\ k * c + len d = L /\ k = K - 1)).
    { unfold size2. destruct Hsz as [->| ->]; cbn [blk_opt_z].
      - destruct (0 <? k * c + len d) eqn:X; [|lia].
        split; [destruct (m =? 1); lia|]. split; [discriminate|]. split; [destruct (m =? 1); lia|].
        intros Hm. unfold m in Hm. destruct (blk_more body szx k) eqn:Mm; [lia|].
        destruct (S5 eq_refl). cbn. lia.
      - destruct (L <? k * c + len d) eqn:X; [lia|].
        split; [lia|]. split; [reflexivity|]. split; [discriminate|].
        intros Hm. unfold m in Hm. destruct (blk_more body szx k) eqn:Mm; [lia|].
        destruct (S5 eq_refl). lia. }
    destruct Hs2 as (T1 & T2 & T3 & T4).
    set (s0 := match st with
               | Some s => s
               | None => {| br_rec := []; br_total := size2; br_body := None; br_nomore := false |}
               end).
    assert (I0 : blk_inv (br_rec s0) /\ (forall j, blk_memP (br_rec s0) j <-> In j seen) /\
                 (forall j, In j seen -> 0 <= j < K) /\
                 (forall b, br_body s0 = Some b -> rs_good (br_rec s0) b /\ (size = Some L -> L <= len b)) /\
                 (br_body s0 = None -> br_rec s0 = []) /\
                 (br_rec s0 <> [] -> exists b, br_body s0 = Some b) /\
                 (st = None -> br_rec s0 = [])).
    { unfold s0. destruct st as [s|]; cbn [rs_cli_inv] in Hinv.
      - destruct Hinv as (A1 & A2 & A3 & A4 & b & A6 & A7 & A8).
        split; [exact A1|]. split; [exact A3|]. split; [exact A4|].
        split; [|split; [|split]].
        + intros b0 Eb. rewrite A6 in Eb. inversion Eb; subst. split; assumption.
        + intros X. rewrite A6 in X. discriminate.
        + intros _. exists b. exact A6.
        + discriminate.
      - subst seen. cbn [br_rec br_total br_body].
        split. { split; [exact I|]. cbn. unfold blk_rblock_cnt. lia. }
        split. { intros j. cbn. tauto. }
        split. { intros j []. }
        split; [discriminate|]. split; [reflexivity|]. split; [intros X; congruence|reflexivity]. }
    destruct I0 as (J1 & J2 & J3 & J5 & J6 & J7 & J8).
    destruct (0 <? len d) eqn:Epos; [|lia].
    set (total' := if br_total s0 <? size2 then size2 else br_total s0).
    destruct (blk_check_received (br_rec s0) k) eqn:Erecv.
    - (* duplicate: skipped *)
      apply (blk_check_received_spec _ _ J1) in Erecv. apply blk_abs_mem in Erecv.
      assert (Hne : br_rec s0 <> []) by (intros X; rewrite X in Erecv; destruct Erecv).
      destruct (J7 Hne) as (b & Eb). destruct (J5 b Eb) as (Gb & Lb).
      split. 2:{ intros _ Hn. exfalso. apply Hn. apply J2. exact Erecv. }
      cbn [rs_cli_inv br_rec br_total br_body].
      split; [exact J1|]. split; [exact Hne|]. split.
      { intros j. rewrite J2. cbn [In]. split; [tauto|]. intros [<-|X]; [apply J2; exact Erecv|exact X]. }
      split. { intros j [<-|X]; [lia|apply J3; exact X]. }
      exists b. auto.
    - destruct (blk_update (br_rec s0) k) as [r'|] eqn:Eupd.
      + assert (K0 : 0 <= k) by lia.
        assert (Hmem : forall j, blk_memP r' j <-> j = k \/ blk_memP (br_rec s0) j).
        { intros j. rewrite <- !blk_abs_mem. apply (blk_update_mem _ _ J1 K0 _ Eupd). }
        assert (Hi' : blk_inv r') by (apply (blk_update_inv _ _ J1 K0 _ Eupd)).
        assert (Hne' : r' <> []) by (apply (rs_update_nonempty _ _ _ Eupd J1); lia).
        assert (Es2 : (if size2 <? k * c + len d then k * c + len d else size2) = size2)
          by (destruct (size2 <? k * c + len d) eqn:X; lia).
        rewrite Es2.
        destruct (rs_store (br_rec s0) r' (br_body s0) k size2 Hk Hmem
                    ltac:(intros b Eb; apply J5; exact Eb) J6 ltac:(fold d; lia)
                    ltac:(intros b Eb; fold d; destruct (J5 b Eb) as (_ & X);
                          destruct Hsz as [Z0|Z0]; [specialize (T3 Z0); lia|
                          specialize (X Z0); specialize (T2 Z0); lia]))
          as (b' & Eb' & Gb' & Lb' & Mb' & Nb').
        fold d in Eb'. rewrite Eb'.
        assert (Lsz : size = Some L -> L <= len b').
        { intros Z0. destruct (br_body s0) as [b|] eqn:Eb.
          - destruct (Mb' b eq_refl) as (X & _ & _). destruct (J5 b eq_refl) as (_ & Y).
            specialize (Y Z0). lia.
          - rewrite (Nb' eq_refl). rewrite (T2 Z0). lia. }
        assert (Hr : forall j, blk_memP r' j -> 0 <= j < K).
        { intros j Hj. apply Hmem in Hj. destruct Hj as [->|Hj]; [lia|apply J3, J2, Hj]. }
        assert (Cont : rs_cli_inv size
                  (Some {| br_rec := r'; br_total := total'; br_body := Some b'; br_nomore := false |})
                  (k :: seen)).
        { cbn [rs_cli_inv br_rec br_total br_body].
          split; [exact Hi'|]. split; [exact Hne'|]. split.
          { intros j. rewrite Hmem, J2. cbn [In]. intuition. }
          split. { intros j [<-|X]; [lia|apply J3; exact X]. }
          exists b'. auto. }
        destruct (m =? 1) eqn:Em; cbn [orb].
        { split; [exact Cont|]. intros Ek. exfalso. unfold m in Em.
          destruct (blk_more body szx k) eqn:Mm; [|lia].
          apply (blk_more_iff body szx k Hszx Hk) in Mm. fold K in Mm. lia. }
        assert (m = 0) as Hm0 by (unfold m in *; destruct (blk_more body szx k); lia).
        destruct (T4 Hm0) as (U1 & U2 & U3).
        rewrite U1. destruct (blk_check_all_in r' ((L + c - 1) / c)) eqn:Eall; cbn [negb].
        2:{ split; [exact Cont|]. intros _ _ Hall.
            assert (blk_check_all_in r' ((L + c - 1) / c) = true); [|congruence].
            apply (rs_all_in_iff _ Hi' Hne' Hr). intros j Hj. apply Hmem.
            destruct (Hall j Hj) as [<-|X]; [left; reflexivity|right; apply J2; exact X]. }
        pose proof (proj1 (rs_all_in_iff _ Hi' Hne' Hr) Eall) as Eall'.
        rewrite U2. split; [apply (rs_complete _ _ Gb' Eall')|]. split; [reflexivity|].
        intros j Hj. specialize (Eall' j Hj). apply Hmem in Eall'. cbn [In].
        destruct Eall' as [->|X]; [left; reflexivity|right; apply J2; exact X].
      + (* too many gaps: the state is kept as it was *)
        destruct st as [s|].
        * split; [|exists s; split; [reflexivity|exact Eupd]].
          cbn [rs_cli_inv] in Hinv. destruct Hinv as (A1 & A2 & A3 & A4 & b & A6 & A7 & A8).
          cbn [rs_cli_inv br_rec br_total br_body]. unfold s0.
          split; [exact A1|]. split; [exact A2|]. split; [exact A3|]. split; [exact A4|].
          exists b. auto.
        * exfalso. rewrite (J8 eq_refl) in Eupd. vm_compute in Eupd. discriminate.
  Qed.

  Lemma rs_cli_run size l : size = None \/ size = Some L -> rs_arrivals size l ->
    forall st seen, rs_cli_inv size st seen ->
    Forall rs_ok_out (blk_run (blk_cli_step junk) st l) /\
    forall j, 0 <= j < K ->
      blk_count_deliveries (blk_run (blk_cli_step junk) st l)
      <= blk_count_num j l + (if existsb (Z.eqb j) seen then 1 else 0).
  Proof.
    intros Hsz. induction 1 as [|a l (k & Hk & ->) Hl IH]; intros st seen Hinv.
    - cbn [blk_run]. split; [constructor|]. intros j Hj. unfold blk_count_deliveries, blk_count_num.
      cbn. destruct (existsb _ _); lia.
    - cbn [blk_run]. pose proof (rs_cli_step size st seen k Hsz Hinv Hk) as S.
      destruct (blk_cli_step junk st (blk_arr_of body szx size k)) as [st' o].
      assert (Ex : forall j, (if existsb (Z.eqb j) (k :: seen) then 1 else 0) <=
                        (if k =? j then 1 else 0) + (if existsb (Z.eqb j) seen then 1 else 0)).
      { intros j. cbn [existsb]. destruct (j =? k) eqn:E1; destruct (k =? j) eqn:E2; try lia;
        cbn [orb]; destruct (existsb _ _); lia. }
      destruct o as [| | |d|].
      + destruct S as (S & _). destruct (IH st' (k :: seen) S) as (I1 & I2). split; [constructor; [exact I|exact I1]|].
        intros j Hj. rewrite rs_count_deliveries_cons, rs_count_num_cons.
        cbn [blk_is_delivery blk_arr_of ba_num]. specialize (I2 j Hj). specialize (Ex j). lia.
      + destruct S.
      + destruct S as (S & _). destruct (IH st' seen S) as (I1 & I2). split; [constructor; [exact I|exact I1]|].
        intros j Hj. rewrite rs_count_deliveries_cons, rs_count_num_cons.
        cbn [blk_is_delivery blk_arr_of ba_num]. specialize (I2 j Hj).
        destruct (k =? j); lia.
      + destruct S as (-> & -> & Hall).
        destruct (IH None [] eq_refl) as (I1 & I2). split; [constructor; [reflexivity|exact I1]|].
        intros j Hj. rewrite rs_count_deliveries_cons, rs_count_num_cons.
        cbn [blk_is_delivery blk_arr_of ba_num]. specialize (I2 j Hj). cbn [existsb] in I2.
        specialize (Hall j Hj). cbn [In] in Hall.
        destruct (k =? j) eqn:E1.
        * destruct (existsb _ _); lia.
        * destruct Hall as [X|X]; [lia|].
          assert (existsb (Z.eqb j) seen = true) as ->.
          { apply existsb_exists. exists j. split; [exact X|lia]. }
          lia.
      + destruct S.
  Qed.

  (* the reassembly theorem, client side; the Size2 option may be absent or exact *)
  Theorem blk_cli_reassembly size l : size = None \/ size = Some L -> rs_arrivals size l ->
    Forall rs_ok_out (blk_run (blk_cli_step junk) None l) /\
    forall j, 0 <= j < K ->
      blk_count_deliveries (blk_run (blk_cli_step junk) None l) <= blk_count_num j l.
  Proof.
    intros Hsz Hl. destruct (rs_cli_run size l Hsz Hl None [] eq_refl) as (A & B). split; [exact A|].
    intros j Hj. specialize (B j Hj). cbn [existsb] in B. lia.
  Qed.
  (* ---------------------------------------------------------------- in-order completeness *)
  Lemma rs_contig r j : blk_inv r -> 0 < j -> (forall x, blk_memP r x <-> 0 <= x < j) ->
    r = [(0, j - 1)].
  Proof.
    intros Hi Hj Hm.
    assert (Hne : r <> []) by (intros ->; destruct (proj2 (Hm 0) ltac:(lia))).
    assert (A : blk_check_all_in r j = true).
    { apply (blk_check_all_in_spec r j Hi Hne).
      - intros k Hk. apply blk_abs_mem, Hm in Hk. lia.
      - intros k Hk. apply blk_abs_mem, Hm. exact Hk. }
    destruct Hi as (Hs & _).
    apply (blk_check_all_in_shape r j Hs Hne) in A. destruct A as (e & -> & He).
    assert (e < j) by (assert (X : blk_memP [(0, e)] e) by (cbn [blk_memP]; left;
                        destruct Hs as (? & ? & _); lia); apply Hm in X; lia).
    f_equal. f_equal. lia.
  Qed.

  Lemma rs_mem_nonempty r : blk_sorted_from 0 r -> r <> [] -> exists x, blk_memP r x.
  Proof.
    destruct r as [|[b e] t]; [congruence|]. intros (H1 & H2 & _) _. exists b. cbn. left. lia.
  Qed.

  Lemma rs_range_from_step j : 0 <= j < K ->
    blk_range_from j (K - j) = j :: blk_range_from (j + 1) (K - (j + 1)).
  Proof. intros. rewrite blk_range_from_cons by lia. f_equal. f_equal. lia. Qed.

  Lemma rs_srv_inorder_from size : size = None \/ size = Some L -> 2 <= K ->
    forall (n : nat) j st seen,
    Z.of_nat (S n) = K - j -> 0 <= j ->
    rs_srv_inv size st seen -> (forall x, In x seen <-> 0 <= x < j) ->
    blk_run (blk_srv_step junk) st
      (map (blk_arr_of body szx size) (blk_range_from j (K - j)))
    = repeat BoContinue n ++ [BoDeliver body].
  Proof.
    intros Hsz HK. induction n as [|n IH]; intros j st seen Hn Hj Hinv Hseen.
    - assert (j = K - 1) by lia. subst j.
      rewrite rs_range_from_step by lia. replace (K - (K - 1 + 1)) with 0 by lia.
      cbn [blk_range_from Z.to_nat seq map blk_run repeat app].
      pose proof (rs_srv_step size st seen (K - 1) Hsz Hinv ltac:(lia)) as S.
      destruct (blk_srv_step junk st (blk_arr_of body szx size (K - 1))) as [st' o].
      destruct o as [| | |d|].
      + destruct S as (_ & S). exfalso. apply S. intros x Hx. cbn [In].
        destruct (Z.eq_dec x (K - 1)); [left; lia|right; apply Hseen; lia].
      + destruct S.
      + exfalso. destruct S as (_ & s & -> & Eu). cbn [rs_srv_inv] in Hinv.
        destruct Hinv as (A1 & A2 & A3 & _).
        assert (R : br_rec s = [(0, K - 1 - 1)]).
        { apply rs_contig; [exact A1|lia|]. intros x. rewrite A3. apply Hseen. }
        apply (blk_update_none_iff _ _ A1) in Eu; [|lia]. rewrite R in Eu.
        destruct Eu as (Eu & _). vm_compute in Eu. discriminate.
      + destruct S as (-> & _). reflexivity.
      + destruct S as (S & _). lia.
    - assert (Hjk : 0 <= j < K - 1) by lia.
      rewrite rs_range_from_step by lia. cbn [map blk_run repeat app].
      pose proof (rs_srv_step size st seen j Hsz Hinv ltac:(lia)) as S.
      destruct (blk_srv_step junk st (blk_arr_of body szx size j)) as [st' o].
      destruct o as [| | |d|].
      + destruct S as (S & _). f_equal.
        apply (IH (j + 1) st' (j :: seen)); [lia|lia|exact S|].
        intros x. cbn [In]. rewrite Hseen. lia.
      + destruct S.
      + exfalso. destruct S as (_ & s & -> & Eu). cbn [rs_srv_inv] in Hinv.
        destruct Hinv as (A1 & A2 & A3 & _).
        destruct (Z.eq_dec j 0) as [->|Hj0].
        * destruct (rs_mem_nonempty _ (proj1 A1) A2) as (x & Hx). apply A3, Hseen in Hx. lia.
        * assert (R : br_rec s = [(0, j - 1)]).
          { apply rs_contig; [exact A1|lia|]. intros x. rewrite A3. apply Hseen. }
          apply (blk_update_none_iff _ _ A1) in Eu; [|lia]. rewrite R in Eu.
          destruct Eu as (Eu & _). vm_compute in Eu. discriminate.
      + exfalso. destruct S as (_ & _ & S). specialize (S (K - 1) ltac:(lia)). cbn [In] in S.
        destruct S as [S|S]; [lia|]. apply Hseen in S. lia.
      + destruct S as (S & _). lia.
  Qed.

  (* every block once, in order: K-1 continuations and then exactly one delivery of the body *)
  Theorem blk_srv_inorder size : size = None \/ size = Some L -> 2 <= K ->
    blk_run (blk_srv_step junk) None (map (blk_arr_of body szx size) (blk_range K))
    = repeat BoContinue (Z.to_nat (K - 1)) ++ [BoDeliver body].
  Proof.
    intros Hsz HK. rewrite <- blk_range_from_0. replace K with (K - 0) at 1 by lia.
    apply (rs_srv_inorder_from size Hsz HK (Z.to_nat (K - 1)) 0 None []); [lia|lia|reflexivity|].
    intros x. cbn [In]. lia.
  Qed.

  Lemma rs_cli_inorder_from size : size = None \/ size = Some L -> forall (n : nat) j st seen,
    Z.of_nat (S n) = K - j -> 0 <= j ->
    rs_cli_inv size st seen -> (forall x, In x seen <-> 0 <= x < j) ->
    blk_run (blk_cli_step junk) st
      (map (blk_arr_of body szx size) (blk_range_from j (K - j)))
    = repeat BoContinue n ++ [BoDeliver body].
  Proof.
    intros Hsz. destruct rs_K_bounds as (_ & K1).
    induction n as [|n IH]; intros j st seen Hn Hj Hinv Hseen.
    - assert (j = K - 1) by lia. subst j.
      rewrite rs_range_from_step by lia. replace (K - (K - 1 + 1)) with 0 by lia.
      cbn [blk_range_from Z.to_nat seq map blk_run repeat app].
      pose proof (rs_cli_step size st seen (K - 1) Hsz Hinv ltac:(lia)) as S.
      destruct (blk_cli_step junk st (blk_arr_of body szx size (K - 1))) as [st' o].
      destruct o as [| | |d|].
      + destruct S as (_ & S). exfalso. apply S; [reflexivity| |].
        * intros X. apply Hseen in X. lia.
        * intros x Hx. cbn [In].
          destruct (Z.eq_dec x (K - 1)); [left; lia|right; apply Hseen; lia].
      + destruct S.
      + exfalso. destruct S as (_ & s & -> & Eu). cbn [rs_cli_inv] in Hinv.
        destruct Hinv as (A1 & A2 & A3 & _).
        destruct (Z.eq_dec (K - 1) 0) as [E0|Hj0].
        * destruct (rs_mem_nonempty _ (proj1 A1) A2) as (x & Hx). apply A3, Hseen in Hx. lia.
        * assert (R : br_rec s = [(0, K - 1 - 1)]).
          { apply rs_contig; [exact A1|lia|]. intros x. rewrite A3. apply Hseen. }
          apply (blk_update_none_iff _ _ A1) in Eu; [|lia]. rewrite R in Eu.
          destruct Eu as (Eu & _). vm_compute in Eu. discriminate.
      + destruct S as (-> & _). reflexivity.
      + destruct S.
    - assert (Hjk : 0 <= j < K - 1) by lia.
      rewrite rs_range_from_step by lia. cbn [map blk_run repeat app].
      pose proof (rs_cli_step size st seen j Hsz Hinv ltac:(lia)) as S.
      destruct (blk_cli_step junk st (blk_arr_of body szx size j)) as [st' o].
      destruct o as [| | |d|].
      + destruct S as (S & _). f_equal.
        apply (IH (j + 1) st' (j :: seen)); [lia|lia|exact S|].
        intros x. cbn [In]. rewrite Hseen. lia.
      + destruct S.
      + exfalso. destruct S as (_ & s & -> & Eu). cbn [rs_cli_inv] in Hinv.
        destruct Hinv as (A1 & A2 & A3 & _).
        destruct (Z.eq_dec j 0) as [->|Hj0].
        * destruct (rs_mem_nonempty _ (proj1 A1) A2) as (x & Hx). apply A3, Hseen in Hx. lia.
        * assert (R : br_rec s = [(0, j - 1)]).
          { apply rs_contig; [exact A1|lia|]. intros x. rewrite A3. apply Hseen. }
          apply (blk_update_none_iff _ _ A1) in Eu; [|lia]. rewrite R in Eu.
          destruct Eu as (Eu & _). vm_compute in Eu. discriminate.
      + exfalso. destruct S as (_ & _ & S). specialize (S (K - 1) ltac:(lia)). cbn [In] in S.
        destruct S as [S|S]; [lia|]. apply Hseen in S. lia.
      + destruct S.
  Qed.

  Theorem blk_cli_inorder size : size = None \/ size = Some L ->
    blk_run (blk_cli_step junk) None (map (blk_arr_of body szx size) (blk_range K))
    = repeat BoContinue (Z.to_nat (K - 1)) ++ [BoDeliver body].
  Proof.
    intros Hsz. destruct rs_K_bounds as (_ & K1).
    rewrite <- blk_range_from_0. replace K with (K - 0) at 1 by lia.
    apply (rs_cli_inorder_from size Hsz (Z.to_nat (K - 1)) 0 None []); [lia|lia|reflexivity|].
    intros x. cbn [In]. lia.
  Qed.
End Reassembly.

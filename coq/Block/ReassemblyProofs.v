(* C09 layer 2: the reassembly theorem.  For ANY arrival sequence (any order, duplicates,
   gaps) of blocks that are slices of one body:
     - whatever the receiver hands to the application is that body;
     - a block of inconsistent size is never produced by such a sender (no reject);
     - the number of deliveries is at most the number of times any single block arrived:
       a second delivery needs a complete second copy of the transfer.
   Proved for the server side (Block1, coap_handle_request_put_block, including a first block
   that is larger than the server's block size and is counted in the server's unit) and the
   client side (Block2, coap_handle_response_get_block), single-body mode, for every content
   of uninitialised storage. *)
From LibcoapV Require Import Base.Tactics Base.Bytes Base.BytesProofs Block.BlockOpt
  Block.BlockOptProofs Block.Slices Block.SlicesProofs Block.RecBlocks Block.RecBlocksProofs
  Block.BufProofs.
Local Open Scope Z_scope.

Definition blk_is_delivery (o : blk_out) : bool :=
  match o with BoDeliver _ | BoPass => true | _ => false end.
Definition blk_count_deliveries (l : list blk_out) : Z := len (filter blk_is_delivery l).
Definition blk_count_num (k : Z) (l : list blk_arr) : Z :=
  len (filter (fun a => ba_num a =? k) l).
(* does the payload of arrival [a] cover block j of size [u]? *)
Definition blk_covers (u : Z) (a : blk_arr) (j : Z) : bool :=
  let n0 := ba_num a * 2 ^ (ba_szx a - u) in
  (n0 <=? j) && (j <? n0 + (len (ba_data a) + blk_chunk u - 1) / blk_chunk u).
Definition blk_count_cover (u j : Z) (l : list blk_arr) : Z :=
  len (filter (fun a => blk_covers u a j) l).

(* facts about one slice, for any block size *)
Lemma blk_slice_facts body s k : 0 <= s -> 0 < len body -> 0 <= k < blk_nblocks body s ->
  let d := blk_slice body s k in let c := blk_chunk s in
  1 <= len d <= c /\ k * c + len d <= len body /\
  (blk_more body s k = true -> len d = c /\ (k + 1) * c < len body) /\
  (blk_more body s k = false -> k * c + len d = len body /\ k = blk_nblocks body s - 1).
Proof.
  intros Hs Hb Hk d c. pose proof (blk_chunk_pos s Hs) as Hc. fold c in Hc.
  set (L := len body) in *. set (K := blk_nblocks body s) in *.
  destruct (blk_nblocks_c_bounds L c Hc ltac:(lia)) as [B|B]; [|lia].
  change (blk_nblocks_c L c) with K in B.
  assert (Ld : len d = Z.max 0 (Z.min c (L - k * c))).
  { unfold d, blk_slice. apply blk_slice_c_len; lia. }
  assert ((k + 1) * c <= K * c) by (apply Z.mul_le_mono_nonneg_r; lia).
  assert (k * c <= (K - 1) * c) by (apply Z.mul_le_mono_nonneg_r; lia).
  pose proof (blk_more_iff body s k Hs Hk) as M. fold K in M.
  split; [lia|]. split; [lia|]. split.
  - intros Hm. apply M in Hm.
    assert ((k + 1) * c <= (K - 1) * c) by (apply Z.mul_le_mono_nonneg_r; lia). lia.
  - intros Hm. assert (~ k < K - 1) by (intros X; apply M in X; congruence).
    assert (k = K - 1) by lia. subst k. split; [lia|reflexivity].
Qed.

(* update_received_blocks applied to the blocks n .. n+cnt-1 covered by one payload *)
Lemma blk_update_many_spec : forall (cnt : nat) r n, blk_inv r -> 0 <= n ->
  match blk_update_many r n cnt with
  | Some (r', upd) =>
      blk_inv r' /\ (forall j, blk_memP r' j <-> n <= j < n + Z.of_nat cnt \/ blk_memP r j) /\
      (upd = false -> r' = r)
  | None => exists r1 j, n <= j < n + Z.of_nat cnt /\ blk_inv r1 /\ blk_update r1 j = None /\
                         (forall x, blk_memP r1 x <-> n <= x < j \/ blk_memP r x)
  end.
Proof.
  induction cnt as [|cnt IH]; intros r n Hi Hn.
  - cbn [blk_update_many]. split; [exact Hi|]. split; [|reflexivity]. intros j. intuition lia.
  - cbn [blk_update_many].
    destruct (blk_check_received r n) eqn:Ec.
    + apply (blk_check_received_spec _ _ Hi) in Ec. apply blk_abs_mem in Ec.
      specialize (IH r (n + 1) Hi ltac:(lia)).
      destruct (blk_update_many r (n + 1) cnt) as [[r' upd]|].
      * destruct IH as (I1 & I2 & I3). split; [exact I1|]. split; [|exact I3].
        intros j. rewrite I2. split; [intros [X|X]; [left; lia|right; exact X]|].
        intros [X|X]; [|right; exact X].
        destruct (Z.eq_dec j n) as [->|]; [right; exact Ec|left; lia].
      * destruct IH as (r1 & j & J1 & J2 & J3 & J4). exists r1, j. split; [lia|].
        split; [exact J2|]. split; [exact J3|]. intros x. rewrite J4.
        split; [intros [X|X]; [left; lia|right; exact X]|].
        intros [X|X]; [|right; exact X].
        destruct (Z.eq_dec x n) as [->|]; [right; exact Ec|left; lia].
    + destruct (blk_update r n) as [r1|] eqn:Eu.
      * pose proof (blk_update_inv r n Hi Hn r1 Eu) as Hi1.
        assert (M1 : forall j, blk_memP r1 j <-> j = n \/ blk_memP r j).
        { intros j. rewrite <- !blk_abs_mem. apply (blk_update_mem r n Hi Hn r1 Eu). }
        specialize (IH r1 (n + 1) Hi1 ltac:(lia)).
        destruct (blk_update_many r1 (n + 1) cnt) as [[r' upd]|].
        -- destruct IH as (I1 & I2 & I3). split; [exact I1|]. split; [|discriminate].
           intros j. rewrite I2, M1. intuition lia.
        -- destruct IH as (r2 & j & J1 & J2 & J3 & J4). exists r2, j. split; [lia|].
           split; [exact J2|]. split; [exact J3|]. intros x. rewrite J4, M1. intuition lia.
      * exists r, n. split; [lia|]. split; [exact Hi|]. split; [exact Eu|]. intros x. intuition lia.
Qed.

Section Reassembly.
  Variable body : bytes.
  Variable szx : Z.
  Variable junk : Z -> Z.
  Variable maxszx : Z.
  Hypothesis Hszx : 0 <= szx.
  Hypothesis Hbody : 0 < len body.

  Let c := blk_chunk szx.
  Let L := len body.
  Let K := blk_nblocks body szx.

  Lemma rs_c_pos : 0 < c.
  Proof. apply blk_chunk_pos; exact Hszx. Qed.

  Lemma rs_K_bounds : (K - 1) * c < L <= K * c /\ 1 <= K.
  Proof.
    pose proof rs_c_pos as Hc.
    destruct (blk_nblocks_c_bounds L c Hc ltac:(unfold L; lia)) as [B|B]; [|unfold L in *; lia].
    fold (blk_nblocks_c L c) in B.
    assert (K = blk_nblocks_c L c) as EK by reflexivity. rewrite <- EK in B.
    split; [exact B|]. destruct (Z_lt_le_dec K 1); [|lia].
    assert (K * c <= 0 * c) by (apply Z.mul_le_mono_nonneg_r; lia). unfold L in *. lia.
  Qed.

  Lemma rs_K_eq : (L + c - 1) / c = K.
  Proof. reflexivity. Qed.

  Lemma rs_slice_len k : 0 <= k < K ->
    let d := blk_slice body szx k in
    1 <= len d <= c /\ k * c + len d <= L /\ len d = Z.min c (L - k * c) /\
    (blk_more body szx k = true -> len d = c) /\
    (blk_more body szx k = false -> k = K - 1 /\ k * c + len d = L).
  Proof.
    intros Hk d. pose proof rs_c_pos as Hc. destruct rs_K_bounds as (B & K1).
    assert (Ld : len d = Z.max 0 (Z.min c (L - k * c))).
    { unfold d, blk_slice. apply blk_slice_c_len; lia. }
    assert ((k + 1) * c <= K * c) by (apply Z.mul_le_mono_nonneg_r; lia).
    assert (k * c <= (K - 1) * c) by (apply Z.mul_le_mono_nonneg_r; lia).
    pose proof (blk_more_iff body szx k Hszx Hk) as M. fold K in M.
    split; [lia|]. split; [lia|]. split; [lia|]. split.
    - intros Hm. apply M in Hm.
      assert ((k + 1) * c <= (K - 1) * c) by (apply Z.mul_le_mono_nonneg_r; lia). lia.
    - intros Hm. assert (~ k < K - 1) by (intros X; apply M in X; congruence).
      assert (k = K - 1) by lia. subst k. split; [reflexivity|]. lia.
  Qed.

  Lemma rs_idx i : 0 <= i < L -> 0 <= i / c < K.
  Proof.
    intros Hi. pose proof rs_c_pos as Hc. destruct rs_K_bounds as (B & K1).
    split; [apply Z.div_pos; lia|]. apply Z.div_lt_upper_bound; lia.
  Qed.

  Lemma rs_idx_block i k : 0 <= i -> (i / c = k <-> k * c <= i < k * c + c).
  Proof.
    intros Hi. pose proof rs_c_pos as Hc. split.
    - intros <-. pose proof (Z.div_mod i c ltac:(lia)). pose proof (Z.mod_pos_bound i c Hc). lia.
    - intros H. symmetry. apply (Z.div_unique i c k (i - k * c)); lia.
  Qed.

  (* "the stored bytes of every recorded block are the body's" *)
  Definition rs_good (r : blk_ranges) (b : bytes) : Prop :=
    forall i, 0 <= i < L -> blk_memP r (i / c) -> i < len b /\ blk_get b i = blk_get body i.

  (* storing the payload [d] (bytes off .. off+len d of the body) which covers the blocks
     n0 .. n0+cnt-1 keeps the recorded blocks good *)
  Lemma rs_store r r' bo (d : bytes) off n0 cnt total :
    0 <= off -> 1 <= len d -> off + len d <= L ->
    (forall i, 0 <= i < len d -> blk_get d i = blk_get body (off + i)) ->
    (forall i, 0 <= i < L -> n0 <= i / c < n0 + cnt -> off <= i < off + len d) ->
    (forall j, blk_memP r' j <-> n0 <= j < n0 + cnt \/ blk_memP r j) ->
    (forall b, bo = Some b -> rs_good r b) ->
    (bo = None -> r = []) ->
    off + len d <= total ->
    (forall b, bo = Some b -> total <= len b \/ len b <= off + len d) ->
    exists b', blk_build_body junk bo d off total = Some b' /\
      rs_good r' b' /\ off + len d <= len b' /\
      (forall b, bo = Some b -> len b <= len b' /\ (total <= len b -> len b' = len b) /\
         (len b < total -> len b' = off + len d)) /\
      (bo = None -> len b' = total).
  Proof.
    intros Ho Hd1 HdL Hd Hcov Hm Hg Hn Ht Hb. pose proof rs_c_pos as Hc.
    destruct (blk_build_body_effect junk bo d off total Ho ltac:(lia) Ht Hb)
      as (b' & E & E1 & E2 & E3 & E4).
    exists b'. split; [exact E|]. split; [|split; [exact E1|split; [|exact E4]]].
    - intros i Hi Mi.
      destruct (Z_le_gt_dec off i) as [G1|G1]; [destruct (Z_lt_le_dec i (off + len d)) as [G2|G2]|].
      + split; [lia|]. rewrite E2 by lia. rewrite Hd by lia. f_equal. lia.
      + apply Hm in Mi. destruct Mi as [Mi|Mi]; [specialize (Hcov i Hi Mi); lia|].
        destruct bo as [b|]; [|rewrite (Hn eq_refl) in Mi; destruct Mi].
        destruct (Hg b eq_refl i Hi Mi) as (G3 & G4).
        destruct (E3 b eq_refl) as (F1 & F2 & F2' & F3). split; [lia|].
        rewrite F3; [exact G4|lia|lia].
      + apply Hm in Mi. destruct Mi as [Mi|Mi]; [specialize (Hcov i Hi Mi); lia|].
        destruct bo as [b|]; [|rewrite (Hn eq_refl) in Mi; destruct Mi].
        destruct (Hg b eq_refl i Hi Mi) as (G3 & G4).
        destruct (E3 b eq_refl) as (F1 & F2 & F2' & F3). split; [lia|].
        rewrite F3; [exact G4|lia|lia].
    - intros b Eb. destruct (E3 b Eb) as (F1 & F2 & F2' & F3). split; [assumption|split; assumption].
  Qed.

  (* all blocks recorded and all good: the first L bytes are the body *)
  Lemma rs_complete r b : rs_good r b -> (forall j, 0 <= j < K -> blk_memP r j) ->
    take L b = body.
  Proof.
    intros Hg Ha. destruct rs_K_bounds as (B & K1).
    assert (Lb : L <= len b).
    { destruct (Hg (L - 1) ltac:(lia)) as (G & _); [apply Ha; apply rs_idx; lia|]. lia. }
    apply blk_ext.
    - rewrite len_take; [reflexivity|lia].
    - intros i Hi. rewrite len_take in Hi by lia. rewrite blk_get_take by lia.
      apply Hg; [lia|]. apply Ha. apply rs_idx. lia.
  Qed.

  (* ---------------------------------------------------------------- server (Block1) *)
  Definition rs_end (j : Z) : Z := j * c + len (blk_slice body szx j).

  Lemma rs_end_eq j : 0 <= j < K -> rs_end j = Z.min ((j + 1) * c) L.
  Proof.
    intros Hj. pose proof rs_c_pos as Hc. destruct rs_K_bounds as (B & K1).
    unfold rs_end, blk_slice. fold c. rewrite blk_slice_c_len by lia. fold L.
    assert (j * c <= (K - 1) * c) by (apply Z.mul_le_mono_nonneg_r; lia). lia.
  Qed.

  Lemma rs_end_last : rs_end (K - 1) = L.
  Proof. destruct rs_K_bounds as (B & K1). rewrite rs_end_eq by lia. lia. Qed.

  (* an arrival: block k of the body at size s >= szx (the receiver's unit) *)
  Lemma rs_arr_facts s k : szx <= s -> 0 <= k < blk_nblocks body s ->
    let q := 2 ^ (s - szx) in let d := blk_slice body s k in let off := k * blk_chunk s in
    let n0 := k * q in let cnt := (len d + c - 1) / c in
    blk_chunk s = q * c /\ 1 <= q /\ off = n0 * c /\ 0 <= n0 /\ 1 <= len d <= blk_chunk s /\
    off + len d <= L /\ 1 <= cnt /\ n0 + cnt <= K /\
    (forall i, 0 <= i < len d -> blk_get d i = blk_get body (off + i)) /\
    (forall i, 0 <= i < L -> n0 <= i / c < n0 + cnt -> off <= i < off + len d) /\
    (forall j, n0 <= j < n0 + cnt -> rs_end j <= off + len d) /\
    (blk_more body s k = true -> len d = blk_chunk s /\ n0 + cnt < K) /\
    (blk_more body s k = false -> off + len d = L /\ n0 + cnt = K).
  Proof.
    intros Hs Hk q d off n0 cnt. pose proof rs_c_pos as Hc. destruct rs_K_bounds as (B & K1).
    assert (Hq : 0 < q) by (apply Z.pow_pos_nonneg; lia).
    assert (Ecs : blk_chunk s = q * c).
    { unfold c, q. rewrite (blk_chunk_divides szx s) by lia. lia. }
    destruct (blk_slice_facts body s k ltac:(lia) Hbody Hk) as (F1 & F2 & F3 & F4).
    fold d in F1, F2, F3, F4. fold L in F2, F3, F4.
    assert (Eoff : off = n0 * c) by (unfold off, n0; rewrite Ecs; lia).
    assert (Hn0 : 0 <= n0) by (unfold n0; nia).
    assert (Hoff : 0 <= off) by (rewrite Eoff; nia).
    assert (Hcnt : (cnt - 1) * c < len d <= cnt * c).
    { unfold cnt. pose proof (Z.div_mod (len d + c - 1) c ltac:(lia)).
      pose proof (Z.mod_pos_bound (len d + c - 1) c Hc). nia. }
    assert (Hcnt1 : 1 <= cnt) by nia.
    assert (Hgetd : forall i, 0 <= i < len d -> blk_get d i = blk_get body (off + i)).
    { intros i Hi. unfold d, blk_slice, off. apply blk_get_slice_c; [apply blk_chunk_pos|lia|]; lia. }
    assert (Hmore : blk_more body s k = true -> len d = blk_chunk s /\ n0 + cnt < K).
    { intros Hm. destruct (F3 Hm) as (G1 & G2). split; [exact G1|].
      assert (cnt = q) by (rewrite G1, Ecs in Hcnt; nia).
      assert ((n0 + cnt) * c < L) by (rewrite Ecs in G2; unfold n0; nia).
      destruct (Z_lt_le_dec (n0 + cnt) K); [assumption|].
      assert (K * c <= (n0 + cnt) * c) by (apply Z.mul_le_mono_nonneg_r; lia). lia. }
    assert (Hfin : blk_more body s k = false -> off + len d = L /\ n0 + cnt = K).
    { intros Hm. destruct (F4 Hm) as (G1 & G2). split; [exact G1|].
      assert ((n0 + cnt - 1) * c < L <= (n0 + cnt) * c) by (unfold off in *; nia).
      destruct (Z.lt_trichotomy (n0 + cnt) K) as [X|[X|X]]; [|exact X|].
      - assert ((n0 + cnt) * c <= (K - 1) * c) by (apply Z.mul_le_mono_nonneg_r; lia). lia.
      - assert (K * c <= (n0 + cnt - 1) * c) by (apply Z.mul_le_mono_nonneg_r; lia). lia. }
    assert (HK : n0 + cnt <= K).
    { destruct (blk_more body s k); [destruct (Hmore eq_refl)|destruct (Hfin eq_refl)]; lia. }
    split; [exact Ecs|]. split; [lia|]. split; [exact Eoff|]. split; [exact Hn0|].
    split; [exact F1|]. split; [exact F2|]. split; [exact Hcnt1|]. split; [exact HK|].
    split; [exact Hgetd|]. split; [|split; [|split; [exact Hmore|exact Hfin]]].
    - intros i Hi Hr. assert (n0 * c <= i) by
        (pose proof (Z.div_mod i c ltac:(lia)); pose proof (Z.mod_pos_bound i c Hc); nia).
      split; [lia|].
      assert (i < (n0 + cnt) * c) by
        (pose proof (Z.div_mod i c ltac:(lia)); pose proof (Z.mod_pos_bound i c Hc); nia).
      destruct (blk_more body s k) eqn:Mm.
      + destruct (Hmore eq_refl) as (G1 & G2).
        assert (cnt * c <= len d).
        { assert (cnt - 1 < q) by (rewrite G1, Ecs in Hcnt; nia). rewrite G1, Ecs. nia. }
        nia.
      + destruct (Hfin eq_refl) as (G1 & G2). lia.
    - intros j Hj. rewrite rs_end_eq by lia.
      destruct (blk_more body s k) eqn:Mm.
      + destruct (Hmore eq_refl) as (G1 & G2).
        assert (cnt * c <= len d).
        { assert (cnt - 1 < q) by (rewrite G1, Ecs in Hcnt; nia). rewrite G1, Ecs. nia. }
        assert ((j + 1) * c <= (n0 + cnt) * c) by (apply Z.mul_le_mono_nonneg_r; lia). nia.
      + destruct (Hfin eq_refl) as (G1 & G2). lia.
  Qed.

  Definition rs_srv_inv (size : option Z) (st : option blk_rcv) (seen : list Z) : Prop :=
    match st with
    | None => seen = []
    | Some s =>
        blk_inv (br_rec s) /\ br_rec s <> [] /\
        (forall j, blk_memP (br_rec s) j <-> In j seen) /\
        (forall j, In j seen -> 0 <= j < K) /\
        (size = Some L -> br_total s = L) /\ br_total s <= L /\
        (forall j, blk_memP (br_rec s) j -> rs_end j <= br_total s) /\
        (br_nomore s = true <-> blk_memP (br_rec s) (K - 1)) /\ br_szx s = szx /\
        exists b, br_body s = Some b /\ len b = br_total s /\ rs_good (br_rec s) b
    end.

  Lemma rs_all_in_iff r : blk_inv r -> r <> [] -> (forall j, blk_memP r j -> 0 <= j < K) ->
    (blk_check_all_in r ((L + c - 1) / c) = true <-> forall j, 0 <= j < K -> blk_memP r j).
  Proof.
    intros Hi Hne Hr. rewrite rs_K_eq.
    rewrite (blk_check_all_in_spec r K Hi Hne).
    - split; intros H j Hj; apply blk_abs_mem; apply H; exact Hj.
    - intros j Hj. apply blk_abs_mem in Hj. apply Hr in Hj. lia.
  Qed.

  Lemma rs_update_nonempty r k r' : blk_update r k = Some r' -> blk_inv r -> 0 <= k -> r' <> [].
  Proof.
    intros H Hi Hk E. subst r'.
    pose proof (blk_update_mem r k Hi Hk [] H k) as M. cbn in M. tauto.
  Qed.

  (* the blocks (in the receiver's unit) that an arrival covers *)
  Definition rs_cover (s k : Z) : list Z :=
    blk_range_from (k * 2 ^ (s - szx)) ((len (blk_slice body s k) + c - 1) / c).

  Definition rs_srv_arrival (size : option Z) (a : blk_arr) (s k : Z) : Prop :=
    szx <= s /\ 0 <= k < blk_nblocks body s /\ a = blk_arr_of body s size k /\
    blk_srv_init_szx maxszx a = szx.

  Lemma rs_srv_step size st seen a s k :
    size = None \/ size = Some L ->
    rs_srv_inv size st seen -> rs_srv_arrival size a s k ->
    let '(st', o) := blk_srv_step junk maxszx st a in
    match o with
    | BoDeliver d => d = body /\ st' = None /\
                     (forall j, 0 <= j < K -> In j (rs_cover s k ++ seen))
    | BoPass => blk_nblocks body s = 1 /\ ba_data a = body /\ st' = st /\
                (forall j, 0 <= j < K -> In j (rs_cover s k))
    | BoContinue => rs_srv_inv size st' (rs_cover s k ++ seen) /\
                    ~ (forall j, 0 <= j < K -> In j (rs_cover s k ++ seen))
    | BoFail => st' = None /\ exists r1 j, blk_inv r1 /\ len r1 = blk_rblock_cnt - 1 /\
                  (forall x, blk_memP r1 x <-> (In x (rs_cover s k) /\ x < j) \/ In x seen)
    | BoReject => False
    end.
  Proof.
    intros Hsz Hinv (Hs & Hk & -> & Hinit). pose proof rs_c_pos as Hc. destruct rs_K_bounds as (B & K1).
    destruct (rs_arr_facts s k Hs Hk) as (Ecs & Hq & Eoff & Hn0 & F1 & F2 & Hcnt1 & HK & Hgetd & Hcov & Hend & Hmore & Hfin).
    assert (Hcover : forall j, In j (rs_cover s k) <->
              k * 2 ^ (s - szx) <= j < k * 2 ^ (s - szx) + (len (blk_slice body s k) + c - 1) / c).
    { intros j. unfold rs_cover. apply blk_in_range_from. }
    unfold blk_srv_step in *. cbn [blk_arr_of ba_num ba_m ba_szx ba_size ba_data] in *.
    set (d := blk_slice body s k) in *. set (q := 2 ^ (s - szx)) in *.
    set (cs := blk_chunk s) in *. set (n0 := k * q) in *. set (off := k * cs) in *.
    set (cnt := (len d + c - 1) / c) in *.
    set (m := if blk_more body s k then 1 else 0).
    destruct ((k =? 0) && (m =? 0)) eqn:Epass.
    { assert (k = 0) by lia. subst k.
      assert (Mf : blk_more body s 0 = false) by (unfold m in Epass; destruct (blk_more body s 0); [lia|reflexivity]).
      destruct (blk_slice_facts body s 0 ltac:(lia) Hbody Hk) as (_ & _ & _ & G).
      destruct (G Mf) as (G1 & G2). split; [lia|]. split; [|split; [reflexivity|]].
      2:{ intros j Hj. apply Hcover. destruct (Hfin Mf) as (_ & X). fold q n0 d cnt. unfold n0 in *. lia. }
      fold d in G1. fold L in G1.
      apply blk_ext; [fold L; lia|]. intros i Hi. rewrite Hgetd by lia. unfold off. f_equal; try lia. }
    destruct (cs <? len d) eqn:Eov; [lia|].
    destruct ((len d <=? cs) && (m =? 1) && negb (len d =? cs)) eqn:Erej.
    { unfold m in Erej. destruct (blk_more body s k) eqn:Mm; [|lia].
      destruct (Hmore eq_refl). lia. }
    assert (Hm1 : (m =? 1) = true -> n0 + cnt < K /\ len d = cs).
    { intros Em. unfold m in Em. destruct (blk_more body s k) eqn:Mm; [|lia].
      destruct (Hmore eq_refl). split; assumption. }
    assert (Hm0 : (m =? 1) = false -> n0 + cnt = K /\ off + len d = L).
    { intros Em. unfold m in Em. destruct (blk_more body s k) eqn:Mm; [lia|].
      destruct (Hfin eq_refl). split; assumption. }
    (* the lg_srcv in use *)
    set (s0 := match st with
               | Some s1 => s1
               | None => {| br_rec := []; br_total := blk_opt_z size; br_body := None;
                            br_nomore := false;
                            br_szx := blk_srv_init_szx maxszx (blk_arr_of body s size k) |}
               end).
    assert (I0 : blk_inv (br_rec s0) /\ (forall j, blk_memP (br_rec s0) j <-> In j seen) /\
                 (forall j, In j seen -> 0 <= j < K) /\
                 (size = Some L -> br_total s0 = L) /\ 0 <= br_total s0 <= L /\
                 (forall j, blk_memP (br_rec s0) j -> rs_end j <= br_total s0) /\
                 (br_nomore s0 = true <-> blk_memP (br_rec s0) (K - 1)) /\ br_szx s0 = szx /\
                 (forall b, br_body s0 = Some b -> len b = br_total s0 /\ rs_good (br_rec s0) b) /\
                 (br_body s0 = None -> br_rec s0 = []) /\
                 (br_rec s0 <> [] -> exists b, br_body s0 = Some b)).
    { unfold s0. destruct st as [s1|]; cbn [rs_srv_inv] in Hinv.
      - destruct Hinv as (A1 & A2 & A3 & A4 & A5 & A5' & A5'' & A5n & A5s & b & A6 & A7 & A8).
        split; [exact A1|]. split; [exact A3|]. split; [exact A4|]. split; [exact A5|].
        split; [pose proof (len_nonneg b); lia|]. split; [exact A5''|]. split; [exact A5n|].
        split; [exact A5s|]. split; [|split].
        + intros b0 Eb. rewrite A6 in Eb. inversion Eb; subst. split; assumption.
        + intros X. rewrite A6 in X. discriminate.
        + intros _. exists b. exact A6.
      - subst seen. cbn [br_rec br_total br_body br_nomore br_szx].
        split. { split; [exact I|]. cbn. unfold blk_rblock_cnt. lia. }
        split. { intros j. cbn. tauto. }
        split. { intros j []. }
        split. { intros ->. reflexivity. }
        split. { destruct Hsz as [->| ->]; cbn [blk_opt_z]; unfold L in *; lia. }
        split. { intros j []. }
        split. { cbn. split; [discriminate|tauto]. }
        split; [exact Hinit|].
        split; [discriminate|]. split; [reflexivity|]. intros X. congruence. }
    destruct I0 as (J1 & J2 & J3 & J4 & J4' & J4e & J4n & J4s & J5 & J6 & J7).
    rewrite J4s.
    assert (Eu : (if szx <? s then szx else s) = szx) by (destruct (szx <? s) eqn:X; lia).
    assert (En : (if szx <? s then k * 2 ^ (s - szx) else k) = n0).
    { destruct (szx <? s) eqn:X; [reflexivity|]. assert (s = szx) by lia. subst s.
      unfold n0, q. rewrite Z.sub_diag. change (2 ^ 0) with 1. lia. }
    rewrite Eu, En. fold c. fold cnt.
    pose proof (blk_update_many_spec (Z.to_nat cnt) (br_rec s0) n0 J1 Hn0) as US.
    rewrite Z2Nat.id in US by lia.
    destruct (blk_update_many (br_rec s0) n0 (Z.to_nat cnt)) as [[r' upd]|].
    2:{ split; [reflexivity|]. destruct US as (r1 & j & U1 & U2 & U3 & U4).
        apply (blk_update_none_iff _ _ U2) in U3; [|lia]. destruct U3 as (U3 & U5).
        exists r1, j. split; [exact U2|]. split; [exact U3|].
        intros x. rewrite U4, Hcover, J2. fold q n0 d cnt. intuition lia. }
    destruct US as (Hi' & Hmem & Hupd).
    assert (Hr : forall j, blk_memP r' j -> 0 <= j < K).
    { intros j Hj. apply Hmem in Hj. destruct Hj as [Hj|Hj]; [lia|apply J3, J2, Hj]. }
    assert (Hne' : r' <> []).
    { intros X. assert (Y : blk_memP r' n0) by (apply Hmem; left; lia). rewrite X in Y. destruct Y. }
    assert (Hseen' : forall j, blk_memP r' j <-> In j (rs_cover s k ++ seen)).
    { intros j. rewrite Hmem, in_app_iff, Hcover, J2. fold q n0 d cnt. tauto. }
    assert (Hrange' : forall j, In j (rs_cover s k ++ seen) -> 0 <= j < K).
    { intros j Hj. apply Hr, Hseen', Hj. }
    (* total length and body after this block *)
    set (total' := if upd && (br_total s0 <? off + len d) then off + len d else br_total s0).
    set (body' := if upd then blk_build_body junk (br_body s0) d off total' else br_body s0).
    assert (Post : br_total s0 <= total' <= L /\ (size = Some L -> total' = L) /\
                   (forall j, blk_memP r' j -> rs_end j <= total') /\
                   exists b', body' = Some b' /\ len b' = total' /\ rs_good r' b').
    { destruct upd.
      - cbn [andb] in total'.
        assert (T : br_total s0 <= total' <= L /\ off + len d <= total' /\
                    (size = Some L -> total' = L) /\
                    (total' = br_total s0 \/ (br_total s0 < total' /\ total' = off + len d))).
        { unfold total'. destruct (br_total s0 <? off + len d) eqn:X.
          - split; [lia|]. split; [lia|]. split; [intros Z0; specialize (J4 Z0); lia|]. right. lia.
          - split; [lia|]. split; [lia|]. split; [exact J4|]. left. reflexivity. }
        destruct T as (T1 & T2 & T3 & T4).
        destruct (rs_store (br_rec s0) r' (br_body s0) d off n0 cnt total'
                    ltac:(rewrite Eoff; nia) ltac:(lia) F2 Hgetd Hcov Hmem
                    ltac:(intros b Eb; apply J5; exact Eb) J6 T2
                    ltac:(intros b Eb; destruct (J5 b Eb) as (X & _); lia))
          as (b' & Eb' & Gb' & Lb' & Mb' & Nb').
        split; [exact T1|]. split; [exact T3|]. split.
        + intros j Hj. apply Hmem in Hj. destruct Hj as [Hj|Hj]; [specialize (Hend j Hj); lia|].
          apply J4e in Hj. lia.
        + exists b'. split; [exact Eb'|]. split; [|exact Gb'].
          destruct (br_body s0) as [b|] eqn:Eb.
          * destruct (Mb' b eq_refl) as (_ & X & Y). destruct (J5 b eq_refl) as (Z0 & _).
            destruct T4 as [T4|(T4 & T5)]; [rewrite X; lia|rewrite Y; lia].
          * apply Nb'. reflexivity.
      - cbn [andb] in total'. specialize (Hupd eq_refl). subst r'.
        destruct (J7 Hne') as (b & Eb). destruct (J5 b Eb) as (Lb & Gb).
        split; [unfold total'; lia|]. split; [exact J4|]. split; [exact J4e|].
        exists b. auto. }
    destruct Post as (T1 & T3 & He' & b' & Eb' & Lb & Gb').
    fold total'. fold body'. rewrite Eb'.
    assert (Hlast : blk_memP r' (K - 1) -> total' = L).
    { intros X. apply He' in X. rewrite rs_end_last in X. lia. }
    set (allin := blk_check_all_in r' ((total' + c - 1) / c)).
    destruct (if m =? 1 then br_nomore s0 && allin else allin) eqn:Ecomp.
    - assert (Et : total' = L /\ allin = true).
      { destruct (m =? 1) eqn:Em.
        - apply andb_true_iff in Ecomp. destruct Ecomp as (N1 & N2). split; [|exact N2].
          apply Hlast, Hmem. right. apply J4n, N1.
        - split; [|exact Ecomp]. apply Hlast, Hmem. left. destruct (Hm0 eq_refl). lia. }
      destruct Et as (Et & Eall). unfold allin in Eall. rewrite Et in Eall.
      pose proof (proj1 (rs_all_in_iff _ Hi' Hne' Hr) Eall) as Eall'. rewrite Et.
      split; [apply (rs_complete _ _ Gb' Eall')|]. split; [reflexivity|].
      intros j Hj. apply Hseen', Eall', Hj.
    - split.
      2:{ intros Hall.
          assert (Hall' : forall j, 0 <= j < K -> blk_memP r' j) by (intros j Hj; apply Hseen', Hall, Hj).
          assert (Et : total' = L) by (apply Hlast, Hall'; lia).
          assert (Eall : allin = true).
          { unfold allin. rewrite Et. apply (rs_all_in_iff _ Hi' Hne' Hr). exact Hall'. }
          rewrite Eall in Ecomp. destruct (m =? 1) eqn:Em; [|discriminate].
          rewrite andb_true_r in Ecomp.
          assert (X : blk_memP r' (K - 1)) by (apply Hall'; lia). apply Hmem in X.
          destruct X as [X|X]; [destruct (Hm1 eq_refl); lia|].
          assert (br_nomore s0 = true) by (apply J4n, X). congruence. }
      cbn [rs_srv_inv br_rec br_total br_body br_nomore br_szx].
      split; [exact Hi'|]. split; [exact Hne'|]. split; [exact Hseen'|]. split; [exact Hrange'|].
      split; [exact T3|]. split; [lia|]. split; [exact He'|]. split.
      { destruct (m =? 1) eqn:Em.
        - rewrite J4n, Hmem. destruct (Hm1 eq_refl). intuition lia.
        - split; [intros _; apply Hmem; left; destruct (Hm0 eq_refl); lia|reflexivity]. }
      split; [first [exact J4s|reflexivity]|]. exists b'. auto.
  Qed.

  Definition rs_ok_out (o : blk_out) : Prop :=
    match o with
    | BoDeliver d => d = body
    | BoReject => False
    | _ => True
    end.

  Definition rs_srv_arrivals (size : option Z) (l : list blk_arr) : Prop :=
    Forall (fun a => exists s k, rs_srv_arrival size a s k) l.

  Lemma rs_count_num_cons a l j :
    blk_count_num j (a :: l) = (if ba_num a =? j then 1 else 0) + blk_count_num j l.
  Proof.
    unfold blk_count_num. cbn [filter]. destruct (ba_num a =? j); [rewrite len_cons|]; lia.
  Qed.

  Lemma rs_count_cover_cons a l j :
    blk_count_cover szx j (a :: l) = (if blk_covers szx a j then 1 else 0) + blk_count_cover szx j l.
  Proof.
    unfold blk_count_cover. cbn [filter]. destruct (blk_covers szx a j); [rewrite len_cons|]; lia.
  Qed.

  Lemma rs_count_deliveries_cons o l :
    blk_count_deliveries (o :: l) = (if blk_is_delivery o then 1 else 0) + blk_count_deliveries l.
  Proof.
    unfold blk_count_deliveries. cbn [filter]. destruct (blk_is_delivery o); [rewrite len_cons|]; lia.
  Qed.

  Lemma rs_covers_iff size a s k j : rs_srv_arrival size a s k ->
    (blk_covers szx a j = true <-> In j (rs_cover s k)).
  Proof.
    intros (Hs & Hk & -> & _). unfold blk_covers, rs_cover.
    cbn [blk_arr_of ba_num ba_szx ba_data]. fold c. rewrite blk_in_range_from. lia.
  Qed.

  Lemma rs_seen_bit (cov seen : list Z) j (b : bool) : (b = true <-> In j cov) ->
    (if existsb (Z.eqb j) (cov ++ seen) then 1 else 0) <=
    (if b then 1 else 0) + (if existsb (Z.eqb j) seen then 1 else 0).
  Proof.
    intros Hb. rewrite existsb_app.
    destruct (existsb (Z.eqb j) cov) eqn:E1; cbn [orb]; [|destruct b; destruct (existsb _ seen); lia].
    apply existsb_exists in E1. destruct E1 as (x & Hx & Ex). assert (x = j) by lia. subst x.
    apply Hb in Hx. subst b. destruct (existsb _ seen); lia.
  Qed.

  Lemma rs_srv_run size l : size = None \/ size = Some L -> rs_srv_arrivals size l ->
    forall st seen, rs_srv_inv size st seen ->
    Forall rs_ok_out (blk_run (blk_srv_step junk maxszx) st l) /\
    forall j, 0 <= j < K ->
      blk_count_deliveries (blk_run (blk_srv_step junk maxszx) st l)
      <= blk_count_cover szx j l + (if existsb (Z.eqb j) seen then 1 else 0).
  Proof.
    intros Hsz. induction 1 as [|a l (s & k & Ha) Hl IH]; intros st seen Hinv.
    - cbn [blk_run]. split; [constructor|]. intros j Hj. unfold blk_count_deliveries, blk_count_cover.
      cbn. destruct (existsb _ _); lia.
    - cbn [blk_run]. pose proof (rs_srv_step size st seen a s k Hsz Hinv Ha) as S.
      destruct (blk_srv_step junk maxszx st a) as [st' o].
      pose proof (fun j => rs_seen_bit (rs_cover s k) seen j (blk_covers szx a j)
                             (rs_covers_iff size a s k j Ha)) as Ex.
      destruct o as [| | |d|].
      + destruct S as (S & _). destruct (IH st' (rs_cover s k ++ seen) S) as (I1 & I2).
        split; [constructor; [exact I|exact I1]|].
        intros j Hj. rewrite rs_count_deliveries_cons, rs_count_cover_cons.
        cbn [blk_is_delivery]. specialize (I2 j Hj). specialize (Ex j). lia.
      + destruct S.
      + destruct S as (-> & _). destruct (IH None [] eq_refl) as (I1 & I2).
        split; [constructor; [exact I|exact I1]|].
        intros j Hj. rewrite rs_count_deliveries_cons, rs_count_cover_cons.
        cbn [blk_is_delivery]. specialize (I2 j Hj). cbn [existsb] in I2.
        destruct (blk_covers szx a j); destruct (existsb _ _); lia.
      + destruct S as (-> & -> & Hall).
        destruct (IH None [] eq_refl) as (I1 & I2). split; [constructor; [reflexivity|exact I1]|].
        intros j Hj. rewrite rs_count_deliveries_cons, rs_count_cover_cons.
        cbn [blk_is_delivery]. specialize (I2 j Hj). cbn [existsb] in I2.
        specialize (Hall j Hj). apply in_app_iff in Hall.
        destruct (blk_covers szx a j) eqn:E1.
        * destruct (existsb _ _); lia.
        * destruct Hall as [X|X]; [apply (rs_covers_iff size a s k j Ha) in X; congruence|].
          assert (existsb (Z.eqb j) seen = true) as ->.
          { apply existsb_exists. exists j. split; [exact X|lia]. }
          lia.
      + destruct S as (EK & Eb & -> & Hall).
        destruct (IH st seen Hinv) as (I1 & I2). split; [constructor; [exact I|exact I1]|].
        intros j Hj. rewrite rs_count_deliveries_cons, rs_count_cover_cons.
        cbn [blk_is_delivery]. specialize (I2 j Hj).
        assert (blk_covers szx a j = true) as -> by (apply (rs_covers_iff size a s k j Ha), Hall, Hj).
        lia.
  Qed.

  (* the reassembly theorem, server side; the Size1 option may be absent or exact *)
  Theorem blk_srv_reassembly size l : size = None \/ size = Some L -> rs_srv_arrivals size l ->
    Forall rs_ok_out (blk_run (blk_srv_step junk maxszx) None l) /\
    forall j, 0 <= j < K ->
      blk_count_deliveries (blk_run (blk_srv_step junk maxszx) None l) <= blk_count_cover szx j l.
  Proof.
    intros Hsz Hl. destruct (rs_srv_run size l Hsz Hl None [] eq_refl) as (A & B). split; [exact A|].
    intros j Hj. specialize (B j Hj). cbn [existsb] in B. lia.
  Qed.

  (* single-block form of rs_store (block k at the receiver's own size) *)
  Lemma rs_store1 r r' bo k total :
    0 <= k < K ->
    (forall j, blk_memP r' j <-> j = k \/ blk_memP r j) ->
    (forall b, bo = Some b -> rs_good r b) ->
    (bo = None -> r = []) ->
    k * c + len (blk_slice body szx k) <= total ->
    (forall b, bo = Some b -> total <= len b \/ len b <= k * c + len (blk_slice body szx k)) ->
    exists b', blk_build_body junk bo (blk_slice body szx k) (k * c) total = Some b' /\
      rs_good r' b' /\ k * c + len (blk_slice body szx k) <= len b' /\
      (forall b, bo = Some b -> len b <= len b' /\ (total <= len b -> len b' = len b) /\
         (len b < total -> len b' = k * c + len (blk_slice body szx k))) /\
      (bo = None -> len b' = total).
  Proof.
    intros Hk Hm Hg Hn Ht Hb. pose proof rs_c_pos as Hc.
    destruct (rs_slice_len k Hk) as (S1 & S2 & S3 & S4 & S5).
    assert (A1 : 0 <= k * c) by nia.
    assert (A2 : 1 <= len (blk_slice body szx k)) by lia.
    assert (A3 : forall i, 0 <= i < len (blk_slice body szx k) ->
                 blk_get (blk_slice body szx k) i = blk_get body (k * c + i)).
    { intros i Hi. unfold blk_slice. fold c. apply blk_get_slice_c; lia. }
    assert (A4 : forall i, 0 <= i < L -> k <= i / c < k + 1 ->
                 k * c <= i < k * c + len (blk_slice body szx k)).
    { intros i Hi Hr. assert (E : i / c = k) by lia. apply rs_idx_block in E; lia. }
    assert (A5 : forall j, blk_memP r' j <-> k <= j < k + 1 \/ blk_memP r j).
    { intros j. rewrite Hm. intuition lia. }
    exact (rs_store r r' bo (blk_slice body szx k) (k * c) k 1 total A1 A2 S2 A3 A4 A5 Hg Hn Ht Hb).
  Qed.

  Lemma rs_cover_unit k : 0 <= k < K -> rs_cover szx k = [k].
  Proof.
    intros Hk. pose proof rs_c_pos as Hc. destruct (rs_slice_len k Hk) as (S1 & _).
    unfold rs_cover. rewrite Z.sub_diag. change (2 ^ 0) with 1.
    assert (((len (blk_slice body szx k) + c - 1) / c) = 1) as ->.
    { symmetry. apply (Z.div_unique_pos _ c 1 (len (blk_slice body szx k) - 1)).
      - lia.
      - ring. }
    unfold blk_range_from. change (Z.to_nat 1) with 1%nat. cbn [seq map].
    change (Z.of_nat 0) with 0. f_equal. ring.
  Qed.

  Lemma rs_unit_arrival size k : 0 <= k < K -> (k = 0 -> blk_srv_init_szx maxszx (blk_arr_of body szx size 0) = szx) ->
    rs_srv_arrival size (blk_arr_of body szx size k) szx k.
  Proof.
    intros Hk H0. split; [lia|]. split; [exact Hk|]. split; [reflexivity|].
    destruct (Z.eq_dec k 0) as [->|Hne]; [apply H0; reflexivity|].
    unfold blk_srv_init_szx. cbn [blk_arr_of ba_num ba_szx].
    destruct (k =? 0) eqn:E; [lia|]. reflexivity.
  Qed.
  (* ---------------------------------------------------------------- client (Block2) *)
  Definition rs_cli_inv (size : option Z) (st : option blk_rcv) (seen : list Z) : Prop :=
    match st with
    | None => seen = []
    | Some s =>
        blk_inv (br_rec s) /\ br_rec s <> [] /\
        (forall j, blk_memP (br_rec s) j <-> In j seen) /\
        (forall j, In j seen -> 0 <= j < K) /\
        exists b, br_body s = Some b /\ rs_good (br_rec s) b /\ (size = Some L -> L <= len b)
    end.

  Lemma rs_cli_step size st seen k :
    size = None \/ size = Some L ->
    rs_cli_inv size st seen -> 0 <= k < K ->
    let '(st', o) := blk_cli_step junk st (blk_arr_of body szx size k) in
    match o with
    | BoDeliver d => d = body /\ st' = None /\ (forall j, 0 <= j < K -> In j (k :: seen))
    | BoContinue => rs_cli_inv size st' (k :: seen) /\
                    (k = K - 1 -> ~ In k seen -> ~ (forall j, 0 <= j < K -> In j (k :: seen)))
    | BoFail => rs_cli_inv size st' seen /\ exists s, st = Some s /\ blk_update (br_rec s) k = None
    | BoPass | BoReject => False
    end.
  Proof.
    intros Hsz Hinv Hk. pose proof rs_c_pos as Hc. destruct rs_K_bounds as (B & K1).
    destruct (rs_slice_len k Hk) as (S1 & S2 & S3 & S4 & S5).
    unfold blk_cli_step. cbn [blk_arr_of ba_num ba_m ba_szx ba_size ba_data].
    fold c. set (d := blk_slice body szx k) in *.
    set (m := if blk_more body szx k then 1 else 0).
    destruct (negb ((m =? 1) || (0 <? len d))) eqn:Epass.
    { destruct (0 <? len d) eqn:X; [|lia]. rewrite orb_true_r in Epass. discriminate. }
    destruct (c <? len d) eqn:Eov; [lia|].
    destruct ((m =? 1) && negb (len d =? c)) eqn:Erej.
    { unfold m in Erej. destruct (blk_more body szx k) eqn:Mm; [|lia].
      specialize (S4 eq_refl). lia. }
    (* size2 as computed from this message *)
    set (size2 := if blk_opt_z size <? k * c + len d
                  then (if m =? 1 then k * c + len d + 1 else k * c + len d)
                  else blk_opt_z size).
    assert (Hs2 : k * c + len d <= size2 /\
                  (size = Some L -> size2 = L) /\
                  (size = None -> size2 <= k * c + len d + 1) /\
                  (m = 0 -> size2 = L /\ k * c + len d = L /\ k = K - 1)).
    { unfold size2. destruct Hsz as [->| ->]; cbn [blk_opt_z].
      - destruct (0 <? k * c + len d) eqn:X; [|lia].
        split; [destruct (m =? 1); lia|]. split; [discriminate|]. split; [destruct (m =? 1); lia|].
        intros Hm. unfold m in Hm. destruct (blk_more body szx k) eqn:Mm; [lia|].
        destruct (S5 eq_refl). cbn. lia.
      - destruct (L <? k * c + len d) eqn:X; [lia|].
        split; [lia|]. split; [reflexivity|]. split; [discriminate|].
        intros Hm. unfold m in Hm. destruct (blk_more body szx k) eqn:Mm; [lia|].
        destruct (S5 eq_refl). lia. }
    destruct Hs2 as (T1 & T2 & T3 & T4).
    set (s0 := match st with
               | Some s => s
               | None => {| br_rec := []; br_total := size2; br_body := None; br_nomore := false;
                            br_szx := szx |}
               end).
    assert (I0 : blk_inv (br_rec s0) /\ (forall j, blk_memP (br_rec s0) j <-> In j seen) /\
                 (forall j, In j seen -> 0 <= j < K) /\
                 (forall b, br_body s0 = Some b -> rs_good (br_rec s0) b /\ (size = Some L -> L <= len b)) /\
                 (br_body s0 = None -> br_rec s0 = []) /\
                 (br_rec s0 <> [] -> exists b, br_body s0 = Some b) /\
                 (st = None -> br_rec s0 = [])).
    { unfold s0. destruct st as [s|]; cbn [rs_cli_inv] in Hinv.
      - destruct Hinv as (A1 & A2 & A3 & A4 & b & A6 & A7 & A8).
        split; [exact A1|]. split; [exact A3|]. split; [exact A4|].
        split; [|split; [|split]].
        + intros b0 Eb. rewrite A6 in Eb. inversion Eb; subst. split; assumption.
        + intros X. rewrite A6 in X. discriminate.
        + intros _. exists b. exact A6.
        + discriminate.
      - subst seen. cbn [br_rec br_total br_body].
        split. { split; [exact I|]. cbn. unfold blk_rblock_cnt. lia. }
        split. { intros j. cbn. tauto. }
        split. { intros j []. }
        split; [discriminate|]. split; [reflexivity|]. split; [intros X; congruence|reflexivity]. }
    destruct I0 as (J1 & J2 & J3 & J5 & J6 & J7 & J8).
    destruct (0 <? len d) eqn:Epos; [|lia].
    set (total' := if br_total s0 <? size2 then size2 else br_total s0).
    destruct (blk_check_received (br_rec s0) k) eqn:Erecv.
    - (* duplicate: skipped *)
      apply (blk_check_received_spec _ _ J1) in Erecv. apply blk_abs_mem in Erecv.
      assert (Hne : br_rec s0 <> []) by (intros X; rewrite X in Erecv; destruct Erecv).
      destruct (J7 Hne) as (b & Eb). destruct (J5 b Eb) as (Gb & Lb).
      split. 2:{ intros _ Hn. exfalso. apply Hn. apply J2. exact Erecv. }
      cbn [rs_cli_inv br_rec br_total br_body br_nomore br_szx].
      split; [exact J1|]. split; [exact Hne|]. split.
      { intros j. rewrite J2. cbn [In]. split; [tauto|]. intros [<-|X]; [apply J2; exact Erecv|exact X]. }
      split. { intros j [<-|X]; [lia|apply J3; exact X]. }
      exists b. auto.
    - destruct (blk_update (br_rec s0) k) as [r'|] eqn:Eupd.
      + assert (K0 : 0 <= k) by lia.
        assert (Hmem : forall j, blk_memP r' j <-> j = k \/ blk_memP (br_rec s0) j).
        { intros j. rewrite <- !blk_abs_mem. apply (blk_update_mem _ _ J1 K0 _ Eupd). }
        assert (Hi' : blk_inv r') by (apply (blk_update_inv _ _ J1 K0 _ Eupd)).
        assert (Hne' : r' <> []) by (apply (rs_update_nonempty _ _ _ Eupd J1); lia).
        assert (Es2 : (if size2 <? k * c + len d then k * c + len d else size2) = size2)
          by (destruct (size2 <? k * c + len d) eqn:X; lia).
        rewrite Es2.
        destruct (rs_store1 (br_rec s0) r' (br_body s0) k size2 Hk Hmem
                    ltac:(intros b Eb; apply J5; exact Eb) J6 ltac:(fold d; lia)
                    ltac:(intros b Eb; fold d; destruct (J5 b Eb) as (_ & X);
                          destruct Hsz as [Z0|Z0]; [specialize (T3 Z0); lia|
                          specialize (X Z0); specialize (T2 Z0); lia]))
          as (b' & Eb' & Gb' & Lb' & Mb' & Nb').
        fold d in Eb'. rewrite Eb'.
        assert (Lsz : size = Some L -> L <= len b').
        { intros Z0. destruct (br_body s0) as [b|] eqn:Eb.
          - destruct (Mb' b eq_refl) as (X & _ & _). destruct (J5 b eq_refl) as (_ & Y).
            specialize (Y Z0). lia.
          - rewrite (Nb' eq_refl). rewrite (T2 Z0). lia. }
        assert (Hr : forall j, blk_memP r' j -> 0 <= j < K).
        { intros j Hj. apply Hmem in Hj. destruct Hj as [->|Hj]; [lia|apply J3, J2, Hj]. }
        assert (Cont : rs_cli_inv size
                  (Some {| br_rec := r'; br_total := total'; br_body := Some b'; br_nomore := false;
                           br_szx := br_szx s0 |}) (k :: seen)).
        { cbn [rs_cli_inv br_rec br_total br_body br_nomore br_szx].
          split; [exact Hi'|]. split; [exact Hne'|]. split.
          { intros j. rewrite Hmem, J2. cbn [In]. intuition. }
          split. { intros j [<-|X]; [lia|apply J3; exact X]. }
          exists b'. auto. }
        destruct (m =? 1) eqn:Em; cbn [orb].
        { split; [exact Cont|]. intros Ek. exfalso. unfold m in Em.
          destruct (blk_more body szx k) eqn:Mm; [|lia].
          apply (blk_more_iff body szx k Hszx Hk) in Mm. fold K in Mm. lia. }
        assert (m = 0) as Hm0 by (unfold m in *; destruct (blk_more body szx k); lia).
        destruct (T4 Hm0) as (U1 & U2 & U3).
        rewrite U1. destruct (blk_check_all_in r' ((L + c - 1) / c)) eqn:Eall; cbn [negb].
        2:{ split; [exact Cont|]. intros _ _ Hall.
            assert (blk_check_all_in r' ((L + c - 1) / c) = true); [|congruence].
            apply (rs_all_in_iff _ Hi' Hne' Hr). intros j Hj. apply Hmem.
            destruct (Hall j Hj) as [<-|X]; [left; reflexivity|right; apply J2; exact X]. }
        pose proof (proj1 (rs_all_in_iff _ Hi' Hne' Hr) Eall) as Eall'.
        rewrite U2. split; [apply (rs_complete _ _ Gb' Eall')|]. split; [reflexivity|].
        intros j Hj. specialize (Eall' j Hj). apply Hmem in Eall'. cbn [In].
        destruct Eall' as [->|X]; [left; reflexivity|right; apply J2; exact X].
      + (* too many gaps: the state is kept as it was *)
        destruct st as [s|].
        * split; [|exists s; split; [reflexivity|exact Eupd]].
          cbn [rs_cli_inv] in Hinv. destruct Hinv as (A1 & A2 & A3 & A4 & b & A6 & A7 & A8).
          cbn [rs_cli_inv br_rec br_total br_body br_nomore br_szx]. unfold s0.
          split; [exact A1|]. split; [exact A2|]. split; [exact A3|]. split; [exact A4|].
          exists b. auto.
        * exfalso. rewrite (J8 eq_refl) in Eupd. vm_compute in Eupd. discriminate.
  Qed.

  Definition rs_arrivals (size : option Z) (l : list blk_arr) : Prop :=
    Forall (fun a => exists k, 0 <= k < K /\ a = blk_arr_of body szx size k) l.

  Lemma rs_cli_run size l : size = None \/ size = Some L -> rs_arrivals size l ->
    forall st seen, rs_cli_inv size st seen ->
    Forall rs_ok_out (blk_run (blk_cli_step junk) st l) /\
    forall j, 0 <= j < K ->
      blk_count_deliveries (blk_run (blk_cli_step junk) st l)
      <= blk_count_num j l + (if existsb (Z.eqb j) seen then 1 else 0).
  Proof.
    intros Hsz. induction 1 as [|a l (k & Hk & ->) Hl IH]; intros st seen Hinv.
    - cbn [blk_run]. split; [constructor|]. intros j Hj. unfold blk_count_deliveries, blk_count_num.
      cbn. destruct (existsb _ _); lia.
    - cbn [blk_run]. pose proof (rs_cli_step size st seen k Hsz Hinv Hk) as S.
      destruct (blk_cli_step junk st (blk_arr_of body szx size k)) as [st' o].
      assert (Ex : forall j, (if existsb (Z.eqb j) (k :: seen) then 1 else 0) <=
                        (if k =? j then 1 else 0) + (if existsb (Z.eqb j) seen then 1 else 0)).
      { intros j. cbn [existsb]. destruct (j =? k) eqn:E1; destruct (k =? j) eqn:E2; try lia;
        cbn [orb]; destruct (existsb _ _); lia. }
      destruct o as [| | |d|].
      + destruct S as (S & _). destruct (IH st' (k :: seen) S) as (I1 & I2). split; [constructor; [exact I|exact I1]|].
        intros j Hj. rewrite rs_count_deliveries_cons, rs_count_num_cons.
        cbn [blk_is_delivery blk_arr_of ba_num]. specialize (I2 j Hj). specialize (Ex j). lia.
      + destruct S.
      + destruct S as (S & _). destruct (IH st' seen S) as (I1 & I2). split; [constructor; [exact I|exact I1]|].
        intros j Hj. rewrite rs_count_deliveries_cons, rs_count_num_cons.
        cbn [blk_is_delivery blk_arr_of ba_num]. specialize (I2 j Hj).
        destruct (k =? j); lia.
      + destruct S as (-> & -> & Hall).
        destruct (IH None [] eq_refl) as (I1 & I2). split; [constructor; [reflexivity|exact I1]|].
        intros j Hj. rewrite rs_count_deliveries_cons, rs_count_num_cons.
        cbn [blk_is_delivery blk_arr_of ba_num]. specialize (I2 j Hj). cbn [existsb] in I2.
        specialize (Hall j Hj). cbn [In] in Hall.
        destruct (k =? j) eqn:E1.
        * destruct (existsb _ _); lia.
        * destruct Hall as [X|X]; [lia|].
          assert (existsb (Z.eqb j) seen = true) as ->.
          { apply existsb_exists. exists j. split; [exact X|lia]. }
          lia.
      + destruct S.
  Qed.

  (* the reassembly theorem, client side; the Size2 option may be absent or exact *)
  Theorem blk_cli_reassembly size l : size = None \/ size = Some L -> rs_arrivals size l ->
    Forall rs_ok_out (blk_run (blk_cli_step junk) None l) /\
    forall j, 0 <= j < K ->
      blk_count_deliveries (blk_run (blk_cli_step junk) None l) <= blk_count_num j l.
  Proof.
    intros Hsz Hl. destruct (rs_cli_run size l Hsz Hl None [] eq_refl) as (A & B). split; [exact A|].
    intros j Hj. specialize (B j Hj). cbn [existsb] in B. lia.
  Qed.
  (* ---------------------------------------------------------------- in-order completeness *)
  Lemma rs_contig r j : blk_inv r -> 0 < j -> (forall x, blk_memP r x <-> 0 <= x < j) ->
    r = [(0, j - 1)].
  Proof.
    intros Hi Hj Hm.
    assert (Hne : r <> []) by (intros ->; destruct (proj2 (Hm 0) ltac:(lia))).
    assert (A : blk_check_all_in r j = true).
    { apply (blk_check_all_in_spec r j Hi Hne).
      - intros k Hk. apply blk_abs_mem, Hm in Hk. lia.
      - intros k Hk. apply blk_abs_mem, Hm. exact Hk. }
    destruct Hi as (Hs & _).
    apply (blk_check_all_in_shape r j Hs Hne) in A. destruct A as (e & -> & He).
    assert (e < j) by (assert (X : blk_memP [(0, e)] e) by (cbn [blk_memP]; left;
                        destruct Hs as (? & ? & _); lia); apply Hm in X; lia).
    f_equal. f_equal. lia.
  Qed.

  Lemma rs_mem_nonempty r : blk_sorted_from 0 r -> r <> [] -> exists x, blk_memP r x.
  Proof.
    destruct r as [|[b e] t]; [congruence|]. intros (H1 & H2 & _) _. exists b. cbn. left. lia.
  Qed.

  Lemma rs_range_from_step j : 0 <= j < K ->
    blk_range_from j (K - j) = j :: blk_range_from (j + 1) (K - (j + 1)).
  Proof. intros. rewrite blk_range_from_cons by lia. f_equal. f_equal. lia. Qed.

  Lemma rs_contig_len r hi : blk_inv r -> (forall x, blk_memP r x <-> 0 <= x < hi) -> len r <= 1.
  Proof.
    intros Hi Hm. destruct (Z_lt_le_dec 0 hi) as [Hh|Hh].
    - rewrite (rs_contig r hi Hi Hh Hm). cbn. lia.
    - destruct r as [|[b e] t]; [cbn; lia|]. exfalso.
      destruct Hi as ((X1 & X2 & _) & _).
      assert (Y : blk_memP ((b, e) :: t) b) by (cbn; left; lia). apply Hm in Y. lia.
  Qed.

  Lemma rs_srv_inorder_from size : size = None \/ size = Some L ->
    blk_srv_init_szx maxszx (blk_arr_of body szx size 0) = szx ->
    forall (n : nat) j st seen,
    Z.of_nat (S n) = K - j -> 0 <= j ->
    rs_srv_inv size st seen -> (forall x, In x seen <-> 0 <= x < j) ->
    (j = 0 -> 2 <= K) ->
    blk_run (blk_srv_step junk maxszx) st
      (map (blk_arr_of body szx size) (blk_range_from j (K - j)))
    = repeat BoContinue n ++ [BoDeliver body].
  Proof.
    intros Hsz Hcfg. destruct rs_K_bounds as (_ & K1).
    assert (NoFail : forall seen j j' r1, (forall x, In x seen <-> 0 <= x < j) -> 0 <= j ->
              blk_inv r1 -> len r1 = blk_rblock_cnt - 1 ->
              (forall x, blk_memP r1 x <-> (In x [j] /\ x < j') \/ In x seen) -> False).
    { intros seen j j' r1 Hseen Hj U1 U2 U3.
      assert (len r1 <= 1); [|unfold blk_rblock_cnt in U2; lia].
      apply (rs_contig_len r1 (if j <? j' then j + 1 else j) U1).
      intros x. rewrite U3, Hseen. cbn [In]. destruct (j <? j') eqn:E; lia. }
    induction n as [|n IH]; intros j st seen Hn Hj Hinv Hseen H2.
    - assert (j = K - 1) by lia. subst j.
      rewrite rs_range_from_step by lia. replace (K - (K - 1 + 1)) with 0 by lia.
      cbn [blk_range_from Z.to_nat seq map blk_run repeat app].
      assert (Ha : rs_srv_arrival size (blk_arr_of body szx size (K - 1)) szx (K - 1))
        by (apply rs_unit_arrival; [lia|intros _; exact Hcfg]).
      pose proof (rs_srv_step size st seen _ szx (K - 1) Hsz Hinv Ha) as S.
      rewrite rs_cover_unit in S by lia.
      destruct (blk_srv_step junk maxszx st (blk_arr_of body szx size (K - 1))) as [st' o].
      destruct o as [| | |d|].
      + destruct S as (_ & S). exfalso. apply S. intros x Hx. cbn [In app].
        destruct (Z.eq_dec x (K - 1)); [left; lia|right; apply Hseen; lia].
      + destruct S.
      + exfalso. destruct S as (_ & r1 & j' & U1 & U2 & U3). eapply (NoFail seen (K - 1)); eauto; lia.
      + destruct S as (-> & _). reflexivity.
      + exfalso. destruct S as (S & _). fold K in S. specialize (H2 ltac:(lia)). lia.
    - assert (Hjk : 0 <= j < K - 1) by lia.
      rewrite rs_range_from_step by lia. cbn [map blk_run repeat app].
      assert (Ha : rs_srv_arrival size (blk_arr_of body szx size j) szx j)
        by (apply rs_unit_arrival; [lia|intros _; exact Hcfg]).
      pose proof (rs_srv_step size st seen _ szx j Hsz Hinv Ha) as S.
      rewrite rs_cover_unit in S by lia.
      destruct (blk_srv_step junk maxszx st (blk_arr_of body szx size j)) as [st' o].
      destruct o as [| | |d|].
      + destruct S as (S & _). f_equal.
        apply (IH (j + 1) st' (j :: seen)); [lia|lia|exact S| |lia].
        intros x. cbn [In]. rewrite Hseen. lia.
      + destruct S.
      + exfalso. destruct S as (_ & r1 & j' & U1 & U2 & U3). eapply (NoFail seen j); eauto; lia.
      + exfalso. destruct S as (_ & _ & S). specialize (S (K - 1) ltac:(lia)). cbn [In app] in S.
        destruct S as [S|S]; [lia|]. apply Hseen in S. lia.
      + exfalso. destruct S as (S & _). fold K in S. lia.
  Qed.

  (* every block once, in order: K-1 continuations and then exactly one delivery of the body *)
  Theorem blk_srv_inorder size : size = None \/ size = Some L -> 2 <= K ->
    blk_srv_init_szx maxszx (blk_arr_of body szx size 0) = szx ->
    blk_run (blk_srv_step junk maxszx) None (map (blk_arr_of body szx size) (blk_range K))
    = repeat BoContinue (Z.to_nat (K - 1)) ++ [BoDeliver body].
  Proof.
    intros Hsz HK Hcfg. rewrite <- blk_range_from_0. replace K with (K - 0) at 1 by lia.
    apply (rs_srv_inorder_from size Hsz Hcfg (Z.to_nat (K - 1)) 0 None []); [lia|lia|reflexivity| |lia].
    intros x. cbn [In]. lia.
  Qed.

  (* the size negotiation of commit e2e5ed9: the first block arrives with a larger size s0, the
     server counts it as the 2^(s0-szx) blocks of its own size that it covers, the client goes
     on from there in the server's size: still exactly one delivery, of the body *)
  Theorem blk_srv_inorder_renegotiated size s0 : size = None \/ size = Some L -> szx < s0 ->
    blk_srv_init_szx maxszx (blk_arr_of body s0 size 0) = szx ->
    let q := 2 ^ (s0 - szx) in q < K ->
    blk_run (blk_srv_step junk maxszx) None
      (blk_arr_of body s0 size 0 :: map (blk_arr_of body szx size) (blk_range_from q (K - q)))
    = repeat BoContinue (Z.to_nat (K - q)) ++ [BoDeliver body].
  Proof.
    intros Hsz Hs0 Hcfg q Hq. pose proof rs_c_pos as Hc. destruct rs_K_bounds as (B & K1).
    assert (Hq1 : 1 <= q) by (assert (0 < q) by (apply Z.pow_pos_nonneg; lia); lia).
    assert (Hk0 : 0 <= 0 < blk_nblocks body s0).
    { destruct (blk_nblocks_c_bounds L (blk_chunk s0) (blk_chunk_pos s0 ltac:(lia)) ltac:(unfold L; lia)) as [X|X];
        [|unfold L in *; lia].
      change (blk_nblocks_c L (blk_chunk s0)) with (blk_nblocks body s0) in X.
      pose proof (blk_chunk_pos s0 ltac:(lia)). split; [lia|].
      destruct (Z_lt_le_dec 0 (blk_nblocks body s0)); [assumption|]. unfold L in *. nia. }
    assert (Ha : rs_srv_arrival size (blk_arr_of body s0 size 0) s0 0).
    { split; [lia|]. split; [exact Hk0|]. split; [reflexivity|exact Hcfg]. }
    destruct (rs_arr_facts s0 0 ltac:(lia) Hk0) as (Ecs & _ & _ & _ & F1 & F2 & Hcnt1 & HK & _ & _ & _ & Hmore & Hfin).
    fold q in Ecs, HK, Hmore, Hfin.
    (* the first block is not the whole body, so it is a full block covering 0 .. q-1 *)
    assert (Hcov : rs_cover s0 0 = blk_range_from 0 q).
    { unfold rs_cover. fold q. rewrite Z.mul_0_l. f_equal.
      destruct (blk_more body s0 0) eqn:Mm.
      - destruct (Hmore eq_refl) as (G1 & _). rewrite G1, Ecs.
        symmetry. apply (Z.div_unique_pos _ c q (c - 1)); [lia|ring].
      - destruct (Hfin eq_refl) as (_ & G2).
        set (cnt := (len (blk_slice body s0 0) + c - 1) / c) in *.
        assert (X : (cnt - 1) * c < len (blk_slice body s0 0)).
        { unfold cnt. pose proof (Z.div_mod (len (blk_slice body s0 0) + c - 1) c ltac:(lia)).
          pose proof (Z.mod_pos_bound (len (blk_slice body s0 0) + c - 1) c Hc). nia. }
        rewrite Ecs in F1. exfalso. nia. }
    cbn [blk_run].
    pose proof (rs_srv_step size None [] _ s0 0 Hsz eq_refl Ha) as S. rewrite Hcov, app_nil_r in S.
    destruct (blk_srv_step junk maxszx None (blk_arr_of body s0 size 0)) as [st' o].
    assert (Hin : forall x, In x (blk_range_from 0 q) <-> 0 <= x < q)
      by (intros x; rewrite blk_in_range_from; lia).
    replace (Z.to_nat (K - q)) with (Datatypes.S (Z.to_nat (K - q - 1))) by lia. cbn [repeat app].
    destruct o as [| | |d|].
    - destruct S as (S & _). f_equal.
      apply (rs_srv_inorder_from size Hsz) with (seen := blk_range_from 0 q); [|lia|lia|exact S|exact Hin|lia].
      clear - Hcfg Hs0. unfold blk_srv_init_szx in *. cbn [blk_arr_of ba_num ba_szx] in *.
      rewrite Z.eqb_refl in *. cbn [andb] in *.
      destruct (negb (maxszx =? 0)) eqn:E1; destruct (maxszx <? s0) eqn:E2; cbn [andb] in *; try lia.
      destruct (maxszx <? szx) eqn:E3; lia.
    - destruct S.
    - exfalso. destruct S as (_ & r1 & j' & U1 & U2 & U3).
      assert (len r1 <= 1); [|unfold blk_rblock_cnt in U2; lia].
      apply (rs_contig_len r1 (Z.min q j') U1). intros x. rewrite U3, Hin. cbn [In]. lia.
    - exfalso. destruct S as (_ & _ & S). specialize (S (K - 1) ltac:(lia)). apply Hin in S. lia.
    - exfalso. destruct S as (_ & _ & _ & S). specialize (S (K - 1) ltac:(lia)). apply Hin in S. lia.
  Qed.

  Lemma rs_cli_inorder_from size : size = None \/ size = Some L -> forall (n : nat) j st seen,
    Z.of_nat (S n) = K - j -> 0 <= j ->
    rs_cli_inv size st seen -> (forall x, In x seen <-> 0 <= x < j) ->
    blk_run (blk_cli_step junk) st
      (map (blk_arr_of body szx size) (blk_range_from j (K - j)))
    = repeat BoContinue n ++ [BoDeliver body].
  Proof.
    intros Hsz. destruct rs_K_bounds as (_ & K1).
    induction n as [|n IH]; intros j st seen Hn Hj Hinv Hseen.
    - assert (j = K - 1) by lia. subst j.
      rewrite rs_range_from_step by lia. replace (K - (K - 1 + 1)) with 0 by lia.
      cbn [blk_range_from Z.to_nat seq map blk_run repeat app].
      pose proof (rs_cli_step size st seen (K - 1) Hsz Hinv ltac:(lia)) as S.
      destruct (blk_cli_step junk st (blk_arr_of body szx size (K - 1))) as [st' o].
      destruct o as [| | |d|].
      + destruct S as (_ & S). exfalso. apply S; [reflexivity| |].
        * intros X. apply Hseen in X. lia.
        * intros x Hx. cbn [In].
          destruct (Z.eq_dec x (K - 1)); [left; lia|right; apply Hseen; lia].
      + destruct S.
      + exfalso. destruct S as (_ & s & -> & Eu). cbn [rs_cli_inv] in Hinv.
        destruct Hinv as (A1 & A2 & A3 & _).
        destruct (Z.eq_dec (K - 1) 0) as [E0|Hj0].
        * destruct (rs_mem_nonempty _ (proj1 A1) A2) as (x & Hx). apply A3, Hseen in Hx. lia.
        * assert (R : br_rec s = [(0, K - 1 - 1)]).
          { apply rs_contig; [exact A1|lia|]. intros x. rewrite A3. apply Hseen. }
          apply (blk_update_none_iff _ _ A1) in Eu; [|lia]. rewrite R in Eu.
          destruct Eu as (Eu & _). vm_compute in Eu. discriminate.
      + destruct S as (-> & _). reflexivity.
      + destruct S.
    - assert (Hjk : 0 <= j < K - 1) by lia.
      rewrite rs_range_from_step by lia. cbn [map blk_run repeat app].
      pose proof (rs_cli_step size st seen j Hsz Hinv ltac:(lia)) as S.
      destruct (blk_cli_step junk st (blk_arr_of body szx size j)) as [st' o].
      destruct o as [| | |d|].
      + destruct S as (S & _). f_equal.
        apply (IH (j + 1) st' (j :: seen)); [lia|lia|exact S|].
        intros x. cbn [In]. rewrite Hseen. lia.
      + destruct S.
      + exfalso. destruct S as (_ & s & -> & Eu). cbn [rs_cli_inv] in Hinv.
        destruct Hinv as (A1 & A2 & A3 & _).
        destruct (Z.eq_dec j 0) as [->|Hj0].
        * destruct (rs_mem_nonempty _ (proj1 A1) A2) as (x & Hx). apply A3, Hseen in Hx. lia.
        * assert (R : br_rec s = [(0, j - 1)]).
          { apply rs_contig; [exact A1|lia|]. intros x. rewrite A3. apply Hseen. }
          apply (blk_update_none_iff _ _ A1) in Eu; [|lia]. rewrite R in Eu.
          destruct Eu as (Eu & _). vm_compute in Eu. discriminate.
      + exfalso. destruct S as (_ & _ & S). specialize (S (K - 1) ltac:(lia)). cbn [In] in S.
        destruct S as [S|S]; [lia|]. apply Hseen in S. lia.
      + destruct S.
  Qed.

  Theorem blk_cli_inorder size : size = None \/ size = Some L ->
    blk_run (blk_cli_step junk) None (map (blk_arr_of body szx size) (blk_range K))
    = repeat BoContinue (Z.to_nat (K - 1)) ++ [BoDeliver body].
  Proof.
    intros Hsz. destruct rs_K_bounds as (_ & K1).
    rewrite <- blk_range_from_0. replace K with (K - 0) at 1 by lia.
    apply (rs_cli_inorder_from size Hsz (Z.to_nat (K - 1)) 0 None []); [lia|lia|reflexivity|].
    intros x. cbn [In]. lia.
  Qed.
End Reassembly.

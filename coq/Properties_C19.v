(* C19 - (D)TLS sessions exchange application data only after an authenticated handshake.

   Model: coq/Tls/Gate.v (the session gate of libcoap for DTLS: coap_send_pdu, the delay queue,
   coap_session_connected, coap_session_disconnected_lkd, coap_session_mfree,
   coap_handle_dgram_for_proto, coap_dtls_* of src/coap_gnutls.c, the PSK callbacks, the
   ClientHello pre-filter).  The TLS library is an oracle (tg_oracle: the values returned by the
   k-th gnutls_handshake / gnutls_record_send / gnutls_record_recv / gnutls_dtls_cookie_verify
   call); every theorem quantifies over all oracles and all event sequences.  The only fact
   assumed about GnuTLS is the named hypothesis of the theorems that mention credentials:
   gnutls_handshake returns success only if both ends presented the same key.
   Statements only; proofs in Tls/GateProofs.v. *)
From LibcoapV Require Import Base.Tactics Base.Bytes Tls.Gate Tls.GateProofs Tls.GateNack Tls.GateFifo
  Tls.GateMisc Tls.GateTcp Tls.GateTcpProofs Tls.GateTcpNack.
Local Open Scope Z_scope.

(* On a DTLS session the session layer never writes cleartext to the socket: for every oracle,
   session type, NSTART and event sequence (sends before/during/after the handshake, received
   datagrams of any content incl. cleartext CoAP, timeouts, retransmissions, release). *)
Theorem C19_no_clear : forall O t n evs s' tr b,
  tg_steps O (tg_new_session TgDtls t n) evs = (s', tr) -> ~ In (OWireClear b) (tg_outs tr).
Proof. exact tg_no_clear. Qed.
Print Assumptions C19_no_clear.

(* Nothing is handed to CoAP dispatch (ODeliver) and nothing the application sent is handed
   to the TLS record layer (OTlsTx) before a gnutls_handshake call returned GNUTLS_E_SUCCESS. *)
Theorem C19_gate : forall O t n evs s' tr l1 x l2,
  tg_steps O (tg_new_session TgDtls t n) evs = (s', tr) ->
  tg_outs tr = l1 ++ x :: l2 -> tg_is_app x = true -> In (OHs 0) l1.
Proof. exact tg_gate. Qed.
Print Assumptions C19_gate.

(* ESTABLISHED is entered only after such a success *)
Theorem C19_established_after_success : forall O t n evs s' tr,
  tg_steps O (tg_new_session TgDtls t n) evs = (s', tr) ->
  ts_state s' = TgEstablished -> In (OHs 0) (tg_outs tr).
Proof. exact tg_established_after_success. Qed.
Print Assumptions C19_established_after_success.

(* With GnuTLS's contract as the hypothesis: if the configured credentials do not match (key
   differs, identity unknown to the server, hint rejected by the client, SNI rejected), the
   session is never ESTABLISHED and no application data moves in either direction. *)
Theorem C19_mismatch_never_established : forall O cc sc,
  (forall k, or_hs O k = 0 -> tg_creds_match cc sc = true) ->
  forall t n evs s' tr,
  tg_creds_match cc sc = false ->
  tg_steps O (tg_new_session TgDtls t n) evs = (s', tr) ->
  ts_state s' <> TgEstablished /\ (forall x, In x (tg_outs tr) -> tg_is_app x = false).
Proof. exact tg_mismatch_never_established. Qed.
Print Assumptions C19_mismatch_never_established.

(* do_gnutls_handshake reports "established" exactly for GNUTLS_E_SUCCESS *)
Theorem C19_handshake_map : forall sa code,
  (fst (fst (tg_do_handshake sa code)) =? 1) = (code =? 0).
Proof. exact tg_do_handshake_ret. Qed.
Print Assumptions C19_handshake_map.

(* ---- handshake failed or session released first: every queued Confirmable gets exactly one
   NACK and is never transmitted.  Client session, events of the application and the network
   (tg_app_only excludes only messages originated by the stack itself), any oracle whose
   handshake calls never succeed - which GnuTLS's contract gives for credentials that do not
   match (C19_never_ok_of_mismatch). *)
Theorem C19_never_ok_of_mismatch : forall O cc sc,
  (forall k, or_hs O k = 0 -> tg_creds_match cc sc = true) ->
  tg_creds_match cc sc = false -> forall k, or_hs O k <> 0.
Proof. exact tg_never_ok_of_mismatch. Qed.
Print Assumptions C19_never_ok_of_mismatch.

(* conservation, in output order: accepted Confirmables = NACKed ones followed by those still
   queued; and nothing is handed to the record layer *)
Theorem C19_nack_conservation : forall O, (forall k, or_hs O k <> 0) ->
  forall n evs s' tr,
  Forall tg_app_only evs ->
  tg_steps O (tg_new_session TgDtls TgClient n) evs = (s', tr) ->
  tg_dcon_ids (tg_outs tr) = tg_nack_ids (tg_outs tr) ++ tg_qcon_ids s' /\
  (forall i c, ~ In (OTlsTx i c) (tg_outs tr)).
Proof. exact tg_nack_conservation. Qed.
Print Assumptions C19_nack_conservation.

(* with pairwise distinct message ids: exactly one NACK for each accepted Confirmable that is
   no longer queued, none while it is queued *)
Theorem C19_failed_nacks_once : forall O, (forall k, or_hs O k <> 0) ->
  forall n evs s' tr,
  Forall tg_app_only evs ->
  tg_steps O (tg_new_session TgDtls TgClient n) evs = (s', tr) ->
  NoDup (tg_dcon_ids (tg_outs tr)) ->
  forall i, In i (tg_dcon_ids (tg_outs tr)) ->
  (In i (tg_qcon_ids s') /\ count_occ Z.eq_dec (tg_nack_ids (tg_outs tr)) i = 0%nat) \/
  (~ In i (tg_qcon_ids s') /\ count_occ Z.eq_dec (tg_nack_ids (tg_outs tr)) i = 1%nat).
Proof. exact tg_failed_nacks_once. Qed.
Print Assumptions C19_failed_nacks_once.

(* the NoDup hypothesis above follows from pairwise distinct ids of the submitted messages *)
Theorem C19_distinct_ids : forall O, (forall k, or_hs O k <> 0) ->
  forall n evs s' tr,
  Forall tg_app_only evs ->
  tg_steps O (tg_new_session TgDtls TgClient n) evs = (s', tr) ->
  NoDup (tg_send_ids evs) -> NoDup (tg_dcon_ids (tg_outs tr)).
Proof. exact tg_distinct_ids. Qed.
Print Assumptions C19_distinct_ids.

(* at the latest when the handshake is abandoned or the session released (both close the
   socket) nothing is queued any more and every accepted Confirmable has been NACKed *)
Theorem C19_closed_all_nacked : forall O, (forall k, or_hs O k <> 0) ->
  forall n evs s' tr,
  Forall tg_app_only evs ->
  tg_steps O (tg_new_session TgDtls TgClient n) evs = (s', tr) ->
  ts_sock s' = false ->
  ts_delayq s' = [] /\ tg_dcon_ids (tg_outs tr) = tg_nack_ids (tg_outs tr).
Proof. exact tg_closed_all_nacked. Qed.
Print Assumptions C19_closed_all_nacked.

(* ---- success: while the session is not disconnected (no NACK reported) and not freed, the
   messages handed to the record layer out of the delay queue, followed by those still queued,
   are exactly the messages accepted into the queue, in submission order (hence each once). *)
Theorem C19_success_flush : forall O t n evs s' tr,
  Forall tg_fifo_ev evs ->
  tg_steps O (tg_new_session TgDtls t n) evs = (s', tr) ->
  ts_freed s' = false -> tg_nonack (tg_outs tr) = true ->
  tg_flushed tr ++ tg_ids (ts_delayq s') = tg_delayed tr.
Proof. exact tg_success_flush. Qed.
Print Assumptions C19_success_flush.

(* progress: if the record layer accepts every message, coap_session_connected (called when the
   handshake completes and whenever an acknowledgement frees an NSTART slot) leaves the session
   ESTABLISHED with a delay queue that is empty or held back by NSTART only *)
Theorem C19_connected_progress : forall O, (forall k, 0 < or_tx O k) ->
  forall s s' o,
  ts_proto s = TgDtls -> ts_tls s = true -> ts_tls_est s = true -> ts_type s <> TgHello ->
  tg_connected O s = (s', o) ->
  ts_state s' = TgEstablished /\ tg_head_blocked s'.
Proof. exact tg_connected_progress'. Qed.
Print Assumptions C19_connected_progress.

(* ---- the acceptor used by the check on implementation traces is sound: an accepted trace is
   the model's trace for its events and TLS return values, so all theorems above apply to it *)
Theorem C19_accepts_sound : forall O tr s,
  tg_accepts O s tr = true -> snd (tg_steps O s (map fst tr)) = tr.
Proof. exact tg_accepts_sound. Qed.
Print Assumptions C19_accepts_sound.

Theorem C19_accepts_snap_accepts : forall O tr s,
  tg_accepts_snap O s tr = true -> tg_accepts O s (map fst tr) = true.
Proof. exact tg_accepts_snap_accepts. Qed.
Print Assumptions C19_accepts_snap_accepts.

(* ---- ClientHello pre-filter: only a datagram of >= 14 bytes whose first byte is 22 and whose
   14th is 1 opens a session; a CoAP version-1 header never does *)
Theorem C19_prefilter_spec : forall d,
  tg_prefilter d = PreNewHello <-> (14 <= len d /\ nth 0 d 0 = 22 /\ nth 13 d 0 = 1).
Proof. exact tg_prefilter_spec. Qed.
Print Assumptions C19_prefilter_spec.
Theorem C19_prefilter_drops_coap : forall d,
  64 <= nth 0 d 0 < 128 -> tg_prefilter d = PreDrop.
Proof. exact tg_prefilter_drops_coap. Qed.
Print Assumptions C19_prefilter_drops_coap.

(* ---- what "matching credentials" means in terms of what libcoap hands to GnuTLS *)
Theorem C19_creds_match_spec : forall c s,
  tg_creds_match c s = true <->
  exists h sk i ck,
    tg_server_sni s (tg_sni_sent (cc_sni c)) = Some (h, sk) /\
    tg_client_choice c (tg_hint_seen h) = Some (i, ck) /\
    tg_server_key s sk i = Some ck.
Proof. exact tg_creds_match_spec. Qed.
Print Assumptions C19_creds_match_spec.
Theorem C19_creds_default : forall c s,
  cc_ih c = None -> sc_ids s = None -> sc_snis s = None ->
  (tg_creds_match c s = true <-> cc_key c = sc_key s /\ sc_key s <> []).
Proof. exact tg_creds_default. Qed.
Print Assumptions C19_creds_default.
Theorem C19_creds_unknown_identity : forall c s t,
  sc_ids s = Some t -> sc_snis s = None -> cc_ih c = None ->
  tg_lookup (tg_cstr (cc_id c)) t = None -> tg_creds_match c s = false.
Proof. exact tg_creds_unknown_identity. Qed.
Print Assumptions C19_creds_unknown_identity.
Theorem C19_creds_hint_rejected : forall c s t,
  sc_snis s = None -> cc_ih c = Some t -> tg_lookup (tg_hint_seen (sc_hint s)) t = None ->
  tg_creds_match c s = false.
Proof. exact tg_creds_hint_rejected. Qed.
Print Assumptions C19_creds_hint_rejected.

(* SNI: the per-context cache of post_client_hello_gnutls_psk is transparent for every history
   of handshakes, and a match means "the key configured for exactly the name sent" *)
Theorem C19_sni_cache_transparent : forall (cache table : list (list Z * (list Z * list Z))) name,
  tg_cache_ok cache table ->
  fst (tg_sni_cached cache table name) = tg_lookup_ci name table /\
  tg_cache_ok (snd (tg_sni_cached cache table name)) table.
Proof. exact (@tg_sni_cache_transparent (list Z * list Z)). Qed.
Print Assumptions C19_sni_cache_transparent.
Theorem C19_creds_sni_exact : forall c s t,
  sc_snis s = Some t -> sc_ids s = None -> cc_ih c = None ->
  tg_creds_match c s = true ->
  exists h k, tg_lookup_ci (match tg_sni_sent (cc_sni c) with Some n => n | None => [] end) t = Some (h, k) /\
              cc_key c = k.
Proof. exact tg_creds_sni_exact. Qed.
Print Assumptions C19_creds_sni_exact.

(* ---- non-vacuity: concrete runs (a success with NSTART = 1 and three queued messages, a
   failure with two NACKs, an oracle that never succeeds, UDP does write cleartext) *)
Theorem C19_example_success :
  let '(s', tr) := tg_steps tg_ex_oracle_ok (tg_new_session TgDtls TgClient 1) tg_ex_events in
  ts_state s' = TgEstablished /\ tg_flushed tr = [1; 2; 3] /\ tg_delayed tr = [1; 2; 3] /\
  ts_delayq s' = [] /\ tg_nonack (tg_outs tr) = true /\
  In (ODeliver 2 1) (tg_outs tr) /\ In (ODeliver 2 3) (tg_outs tr).
Proof. exact tg_ex_success. Qed.
Print Assumptions C19_example_success.
Theorem C19_example_failure :
  let '(s', tr) := tg_steps tg_ex_oracle_bad (tg_new_session TgDtls TgClient 1) tg_ex_events in
  ts_state s' = TgNone /\ tg_nack_ids (tg_outs tr) = [1; 3] /\ tg_dcon_ids (tg_outs tr) = [1; 3] /\
  tg_tx_ids (tg_outs tr) = [] /\ ts_delayq s' = [] /\ ts_sock s' = false.
Proof. exact tg_ex_failure. Qed.
Print Assumptions C19_example_failure.
Theorem C19_example_never_ok : forall k, or_hs tg_ex_oracle_bad k <> 0.
Proof. exact tg_ex_bad_never_ok. Qed.
Print Assumptions C19_example_never_ok.
Theorem C19_example_udp_clear :
  let '(_, tr) := tg_steps tg_ex_oracle_ok (tg_new_session TgUdp TgClient 1)
                           [EConnect; ESend (tg_m 1 true) true] in
  In (OWireClear [64; 2; 0; 1]) (tg_outs tr).
Proof. exact tg_ex_udp_clear. Qed.
Print Assumptions C19_example_udp_clear.

(* ==================================================================================================
   TLS over TCP: the session machine CONNECTING -> HANDSHAKE -> CSM -> ESTABLISHED (Tls/GateTcp.v:
   coap_connect_session / coap_new_server_session, coap_tls_establish, coap_session_send_csm,
   handle_signaling, coap_client_delay_first, coap_send_pdu, coap_session_connected,
   coap_tls_read / coap_tls_write, coap_read_session, coap_session_disconnected_lkd,
   coap_session_mfree), same oracle. c = client session / server session. *)

Theorem C19_tcp_no_clear : forall O c evs s' tr b,
  tgt_steps O (tgt_new_session c) evs = (s', tr) -> ~ In (OWireClear b) (tgt_outs tr).
Proof. exact tgt_no_clear. Qed.
Print Assumptions C19_tcp_no_clear.

(* nothing is dispatched and nothing is handed to the record layer before gnutls_handshake
   succeeded; no application message (anything but the CSM) before the session was declared
   connected *)
Theorem C19_tcp_gate : forall O c evs s' tr l1 x l2,
  tgt_steps O (tgt_new_session c) evs = (s', tr) -> tgt_outs tr = l1 ++ x :: l2 ->
  (tg_is_app x = true -> In (OHs 0) l1) /\
  (tgt_is_apptx x = true -> In (OEvent tg_EV_SESSION_CONNECTED) l1).
Proof. exact tgt_gate. Qed.
Print Assumptions C19_tcp_gate.

(* ESTABLISHED needs the handshake success AND the connected declaration ... *)
Theorem C19_tcp_established_after : forall O c evs s' tr,
  tgt_steps O (tgt_new_session c) evs = (s', tr) -> tt_state s' = TgEstablished ->
  In (OHs 0) (tgt_outs tr) /\ In (OEvent tg_EV_SESSION_CONNECTED) (tgt_outs tr).
Proof. exact tgt_established_after. Qed.
Print Assumptions C19_tcp_established_after.

(* ... which only the peer's CSM or the CSM time-out of coap_client_delay_first make *)
Theorem C19_tcp_connected_only_by : forall O s e s' o,
  tgt_step O s e = (s', o) -> In (OEvent tg_EV_SESSION_CONNECTED) o ->
  e = TDispatch 3 \/ e = TFirstTimeout.
Proof. exact tgt_connected_only_by. Qed.
Print Assumptions C19_tcp_connected_only_by.

Theorem C19_tcp_mismatch_never_established : forall O cc sc,
  (forall k, or_hs O k = 0 -> tg_creds_match cc sc = true) ->
  forall c evs s' tr,
  tg_creds_match cc sc = false ->
  tgt_steps O (tgt_new_session c) evs = (s', tr) ->
  tt_state s' <> TgEstablished /\ (forall x, In x (tgt_outs tr) -> tg_is_app x = false).
Proof. exact tgt_mismatch_never_established. Qed.
Print Assumptions C19_tcp_mismatch_never_established.

(* failure: every message the application got queued is NACKed exactly once or is still queued
   (conservation, in order; count form in Tls/GateTcpNack.v), nothing reaches the record layer,
   and once the socket is closed (handshake failed / session released) nothing is queued *)
Theorem C19_tcp_nack_conservation : forall O, (forall k, or_hs O k <> 0) ->
  forall evs s' tr,
  Forall tgt_app_only evs -> tgt_steps O (tgt_new_session true) evs = (s', tr) ->
  tg_dcon_ids (tgt_outs tr) = tg_nack_ids (tgt_outs tr) ++ tgt_qcon_ids s' /\
  (forall i c, ~ In (OTlsTx i c) (tgt_outs tr)) /\ tt_state s' <> TgEstablished.
Proof. exact tgt_nack_conservation. Qed.
Print Assumptions C19_tcp_nack_conservation.
Theorem C19_tcp_nack_count : forall O, (forall k, or_hs O k <> 0) ->
  forall evs s' tr i,
  Forall tgt_app_only evs -> tgt_steps O (tgt_new_session true) evs = (s', tr) ->
  count_occ Z.eq_dec (tg_dcon_ids (tgt_outs tr)) i =
  (count_occ Z.eq_dec (tg_nack_ids (tgt_outs tr)) i + count_occ Z.eq_dec (tgt_qcon_ids s') i)%nat.
Proof. exact tgt_nack_count. Qed.
Print Assumptions C19_tcp_nack_count.
Theorem C19_tcp_closed_all_nacked : forall O, (forall k, or_hs O k <> 0) ->
  forall evs s' tr,
  Forall tgt_app_only evs -> tgt_steps O (tgt_new_session true) evs = (s', tr) ->
  tt_sock s' = false ->
  tt_delayq s' = [] /\ tg_dcon_ids (tgt_outs tr) = tg_nack_ids (tgt_outs tr).
Proof. exact tgt_closed_all_nacked. Qed.
Print Assumptions C19_tcp_closed_all_nacked.

(* success: FIFO flush *)
Theorem C19_tcp_success_flush : forall O c evs s' tr,
  Forall tgt_fifo_ev evs -> tgt_steps O (tgt_new_session c) evs = (s', tr) ->
  tt_freed s' = false -> tg_nonack (tgt_outs tr) = true ->
  tgt_flushed tr ++ tg_ids (tt_delayq s') = tgt_delayed tr.
Proof. exact tgt_success_flush. Qed.
Print Assumptions C19_tcp_success_flush.

Theorem C19_tcp_accepts_sound : forall O tr s,
  tgt_accepts O s tr = true -> snd (tgt_steps O s (map (fun x => fst (fst x)) tr)) = map fst tr.
Proof. exact tgt_accepts_sound. Qed.
Print Assumptions C19_tcp_accepts_sound.

(* concrete runs: queued during connection set-up and flushed in order after the CSM exchange;
   failed handshake with two NACKs; a request dispatched in state CSM (libcoap does not look at
   the session state when it dispatches: delivery needs the handshake, not ESTABLISHED); the CSM
   time-out declares the session connected without the peer's CSM *)
Theorem C19_tcp_example_success :
  let '(s', tr) := tgt_steps tgt_ex_ok (tgt_new_session true)
      [TConnect; TConnected true; TFirstTimeout; TSend (tgt_m 1) true; TSend (tgt_m 2) true;
       TRead; TRead; TDispatch 3; TSend (tgt_m 3) true] in
  tt_state s' = TgEstablished /\ tgt_flushed tr = [1; 2] /\ tgt_delayed tr = [1; 2] /\
  tt_delayq s' = [] /\ tg_nonack (tgt_outs tr) = true /\
  In (OTlsTx 3 40) (tgt_outs tr) /\ In (OTlsTx tgt_CSM_ID 40) (tgt_outs tr).
Proof. exact tgt_ex_success. Qed.
Print Assumptions C19_tcp_example_success.
Theorem C19_tcp_example_failure :
  let '(s', tr) := tgt_steps tg_ex_oracle_bad (tgt_new_session true)
      [TConnect; TConnected true; TFirstTimeout; TSend (tgt_m 1) true; TSend (tgt_m 2) true;
       TRead; TSend (tgt_m 3) true] in
  tt_state s' = TgNone /\ tg_nack_ids (tgt_outs tr) = [1; 2] /\ tg_dcon_ids (tgt_outs tr) = [1; 2] /\
  tgt_txok_ids (tgt_outs tr) = [] /\ tt_delayq s' = [] /\ tt_sock s' = false.
Proof. exact tgt_ex_failure. Qed.
Print Assumptions C19_tcp_example_failure.
Theorem C19_tcp_example_deliver_in_csm :
  let '(s', tr) := tgt_steps tgt_ex_ok (tgt_new_session false) [TAccept; TRead; TDispatch 1] in
  tt_state s' = TgCsm /\ In (ODeliver 1 0) (tgt_outs tr).
Proof. exact tgt_ex_deliver_in_csm. Qed.
Print Assumptions C19_tcp_example_deliver_in_csm.
Theorem C19_tcp_example_csm_timeout :
  let '(s', tr) := tgt_steps tgt_ex_ok (tgt_new_session true)
      [TConnect; TConnected true; TRead; TFirstTimeout; TSend (tgt_m 1) true] in
  tt_state s' = TgEstablished /\ In (OTlsTx 1 40) (tgt_outs tr) /\
  ~ In (ODeliver 3 0) (tgt_outs tr).
Proof. exact tgt_ex_csm_timeout. Qed.
Print Assumptions C19_tcp_example_csm_timeout.

(* C19 - (D)TLS sessions exchange application data only after an authenticated handshake.

   Model: coq/Tls/Gate.v (the session gate of libcoap for DTLS: coap_send_pdu, the delay queue,
   coap_session_connected, coap_session_disconnected_lkd, coap_session_mfree,
   coap_handle_dgram_for_proto, coap_dtls_* of src/coap_gnutls.c, the PSK callbacks, the
   ClientHello pre-filter).  The TLS library is an oracle (tg_oracle: the values returned by the
   k-th gnutls_handshake / gnutls_record_send / gnutls_record_recv / gnutls_dtls_cookie_verify
   call); every theorem quantifies over all oracles and all event sequences.  The only fact
   assumed about GnuTLS is the named hypothesis of the theorems that mention credentials:
   gnutls_handshake returns success only if both ends presented the same key.
   Statements only; proofs in Tls/GateProofs.v. *)
From LibcoapV Require Import Base.Tactics Base.Bytes Tls.Gate Tls.GateProofs.
Local Open Scope Z_scope.

(* On a DTLS session the session layer never writes cleartext to the socket: for every oracle,
   session type, NSTART and event sequence (sends before/during/after the handshake, received
   datagrams of any content incl. cleartext CoAP, timeouts, retransmissions, release). *)
Theorem C19_no_clear : forall O t n evs s' tr b,
  tg_steps O (tg_new_session TgDtls t n) evs = (s', tr) -> ~ In (OWireClear b) (tg_outs tr).
Proof. exact tg_no_clear. Qed.
Print Assumptions C19_no_clear.

(* Nothing is handed to CoAP dispatch (ODeliver) and nothing the application sent is handed
   to the TLS record layer (OTlsTx) before a gnutls_handshake call returned GNUTLS_E_SUCCESS. *)
Theorem C19_gate : forall O t n evs s' tr l1 x l2,
  tg_steps O (tg_new_session TgDtls t n) evs = (s', tr) ->
  tg_outs tr = l1 ++ x :: l2 -> tg_is_app x = true -> In (OHs 0) l1.
Proof. exact tg_gate. Qed.
Print Assumptions C19_gate.

(* ESTABLISHED is entered only after such a success *)
Theorem C19_established_after_success : forall O t n evs s' tr,
  tg_steps O (tg_new_session TgDtls t n) evs = (s', tr) ->
  ts_state s' = TgEstablished -> In (OHs 0) (tg_outs tr).
Proof. exact tg_established_after_success. Qed.
Print Assumptions C19_established_after_success.

(* With GnuTLS's contract as the hypothesis: if the configured credentials do not match (key
   differs, identity unknown to the server, hint rejected by the client, SNI rejected), the
   session is never ESTABLISHED and no application data moves in either direction. *)
Theorem C19_mismatch_never_established : forall O cc sc,
  (forall k, or_hs O k = 0 -> tg_creds_match cc sc = true) ->
  forall t n evs s' tr,
  tg_creds_match cc sc = false ->
  tg_steps O (tg_new_session TgDtls t n) evs = (s', tr) ->
  ts_state s' <> TgEstablished /\ (forall x, In x (tg_outs tr) -> tg_is_app x = false).
Proof. exact tg_mismatch_never_established. Qed.
Print Assumptions C19_mismatch_never_established.

(* do_gnutls_handshake reports "established" exactly for GNUTLS_E_SUCCESS *)
Theorem C19_handshake_map : forall sa code,
  (fst (fst (tg_do_handshake sa code)) =? 1) = (code =? 0).
Proof. exact tg_do_handshake_ret. Qed.
Print Assumptions C19_handshake_map.

(* C13 - the global lock of libcoap (src/coap_threadsafe.c, include/coap3/coap_threadsafe_internal.h)
   as a small-step interleaving semantics.  Definitions only; proofs are in LockProofs.v.

   What is transcribed by hand (and compared with the compiled C functions on every run by the
   deterministic schedule driver harness/h_lock.c):
     lk_lock_func   = coap_lock_lock_func   (non-RECURSIVE_CHECK variant; the decision taken is the
                      same in the RECURSIVE_CHECK variant, which only adds trylock + diagnostics)
     lk_unlock_func = coap_lock_unlock_func
   What is NOT written by hand but regenerated from the source tree on every run
   (Gen/LockConfig.v, written by tools/regen_lock.py): the operation sequence of every lock macro
   (coap_lock_callback, coap_lock_callback_ret, coap_lock_callback_release,
   coap_lock_callback_ret_release, the COAP_API wrapper pattern lock; _lkd(); unlock, and the
   unlock; wait; lock of coap_io_process), whether the lock functions are compiled in, and what
   coap_threadsafe_is_supported() returns. *)
From Coq Require Import ZArith List Bool.
Import ListNotations.
Local Open Scope Z_scope.

(* ------------------------------------------------------------------ configuration (form T) *)

(* one primitive step of a macro body, in source order; LkMFunc is the position of the wrapped
   expression (the application callback / the _lkd function / the wait) *)
Inductive lk_mop := LkMInc | LkMDec | LkMUnlock | LkMLock | LkMFunc.

(* the four callback macros and the unlock-around-wait of coap_io_process *)
Inductive lk_kind := LkKeep | LkKeepRet | LkRel | LkRelRet | LkWait.

Record lk_cfg := {
  lk_compiled : bool;          (* coap_lock_lock_func/coap_lock_unlock_func exist in the library *)
  lk_reports : bool;           (* coap_threadsafe_is_supported() != 0 *)
  lk_m_api : list lk_mop;      (* COAP_API wrapper: coap_lock_lock(c,return); FUNC; coap_lock_unlock(c) *)
  lk_m_keep : list lk_mop;     (* coap_lock_callback(c,FUNC) *)
  lk_m_keepret : list lk_mop;  (* coap_lock_callback_ret(r,c,FUNC) *)
  lk_m_rel : list lk_mop;      (* coap_lock_callback_release(c,FUNC,failed) *)
  lk_m_relret : list lk_mop;   (* coap_lock_callback_ret_release(r,c,FUNC,failed) *)
  lk_m_wait : list lk_mop;     (* coap_lock_unlock(c); select/epoll_wait; coap_lock_lock(c,..) *)
  lk_api_ok : bool;            (* every COAP_API function locks on entry, unlocks on every return *)
  lk_cb_ok : bool              (* every application-callback invocation goes through a macro *)
}.

Definition lk_macro (c : lk_cfg) (k : lk_kind) : list lk_mop :=
  match k with
  | LkKeep => lk_m_keep c
  | LkKeepRet => lk_m_keepret c
  | LkRel => lk_m_rel c
  | LkRelRet => lk_m_relret c
  | LkWait => lk_m_wait c
  end.

Definition lk_mop_eqb (a b : lk_mop) : bool :=
  match a, b with
  | LkMInc, LkMInc | LkMDec, LkMDec | LkMUnlock, LkMUnlock | LkMLock, LkMLock
  | LkMFunc, LkMFunc => true
  | _, _ => false
  end.

Fixpoint lk_mops_eqb (a b : list lk_mop) : bool :=
  match a, b with
  | [], [] => true
  | x :: a', y :: b' => lk_mop_eqb x y && lk_mops_eqb a' b'
  | _, _ => false
  end.

Definition lk_canon_api : list lk_mop := [LkMLock; LkMFunc; LkMUnlock].
Definition lk_canon_keep : list lk_mop := [LkMInc; LkMFunc; LkMDec].
Definition lk_canon_rel : list lk_mop := [LkMUnlock; LkMFunc; LkMLock].

(* the configuration the positive theorems are about *)
Definition lk_canon : lk_cfg :=
  {| lk_compiled := true; lk_reports := true;
     lk_m_api := lk_canon_api;
     lk_m_keep := lk_canon_keep; lk_m_keepret := lk_canon_keep;
     lk_m_rel := lk_canon_rel; lk_m_relret := lk_canon_rel; lk_m_wait := lk_canon_rel;
     lk_api_ok := true; lk_cb_ok := true |}.

(* "locking is compiled in, the capability query says so, every macro is balanced (one increment
   before and one decrement after the callback; unlock before and lock after), wrappers and
   call sites follow the discipline" *)
Definition lk_cfg_wf (c : lk_cfg) : bool :=
  lk_compiled c && eqb (lk_reports c) (lk_compiled c) && lk_api_ok c && lk_cb_ok c &&
  lk_mops_eqb (lk_m_api c) lk_canon_api &&
  lk_mops_eqb (lk_m_keep c) lk_canon_keep && lk_mops_eqb (lk_m_keepret c) lk_canon_keep &&
  lk_mops_eqb (lk_m_rel c) lk_canon_rel && lk_mops_eqb (lk_m_relret c) lk_canon_rel &&
  lk_mops_eqb (lk_m_wait c) lk_canon_rel.

(* ------------------------------------------------------------------ programs *)

(* What an application thread does: a sequence of public API calls.  Each call runs library code
   (its body) under the lock; the body touches library state (LkWork) and invokes application
   callbacks through one of the macros; the callback is again a sequence of API calls made by
   the same thread (re-entry).  LkWait with an empty callback is the unlock/wait/lock of
   coap_io_process. Finite programs = the callbacks terminate. *)
Inductive lk_calls :=
| LkDone
| LkCall (body : lk_items) (next : lk_calls)
with lk_items :=
| LkRet
| LkWork (next : lk_items)
| LkCb (k : lk_kind) (app : lk_calls) (next : lk_items).

(* flat instruction stream of one thread; the tag of lock/unlock records which macro it came
   from (API wrapper or callback macro) and has no effect on the lock *)
Inductive lk_tag := LkTApi | LkTCb.
Inductive lk_op :=
| LkLock (g : lk_tag)      (* coap_lock_lock_func() *)
| LkUnlock (g : lk_tag)    (* coap_lock_unlock_func() *)
| LkInc                    (* global_lock.in_callback++ *)
| LkDec                    (* global_lock.in_callback-- *)
| LkWb                     (* an access to library state begins *)
| LkWe.                    (* ... and ends *)

Definition lk_expand (g : lk_tag) (m : list lk_mop) (inner : list lk_op) : list lk_op :=
  flat_map (fun x => match x with
                     | LkMInc => [LkInc]
                     | LkMDec => [LkDec]
                     | LkMUnlock => [LkUnlock g]
                     | LkMLock => [LkLock g]
                     | LkMFunc => inner
                     end) m.

Fixpoint lk_flat (c : lk_cfg) (p : lk_calls) : list lk_op :=
  match p with
  | LkDone => []
  | LkCall b n => lk_expand LkTApi (lk_m_api c) (lk_flat_items c b) ++ lk_flat c n
  end
with lk_flat_items (c : lk_cfg) (b : lk_items) : list lk_op :=
  match b with
  | LkRet => []
  | LkWork n => LkWb :: LkWe :: lk_flat_items c n
  | LkCb k app n => lk_expand LkTCb (lk_macro c k) (lk_flat c app) ++ lk_flat_items c n
  end.

(* callback nesting depth (bounds in_callback and lock_count, see lk_counters_bounded) *)
Fixpoint lk_depth (p : lk_calls) : Z :=
  match p with
  | LkDone => 0
  | LkCall b n => Z.max (lk_depth_items b) (lk_depth n)
  end
with lk_depth_items (b : lk_items) : Z :=
  match b with
  | LkRet => 0
  | LkWork n => lk_depth_items n
  | LkCb _ app n => Z.max (1 + lk_depth app) (lk_depth_items n)
  end.

(* ------------------------------------------------------------------ the lock *)

(* global_lock: the mutex (held or not), pid (0 = nobody), in_callback, lock_count.
   Counters are unbounded integers; the theorems show they stay within [0, nesting depth],
   so the uint32_t of the C code does not wrap for nesting depths below 2^32. *)
Record lk_lock := { lk_held : bool; lk_pid : Z; lk_incb : Z; lk_cnt : Z }.

Definition lk_lock0 : lk_lock := {| lk_held := false; lk_pid := 0; lk_incb := 0; lk_cnt := 0 |}.

(* coap_lock_lock_func() called by thread t: None = the caller waits in coap_mutex_lock() *)
Definition lk_lock_func (t : Z) (l : lk_lock) : option lk_lock :=
  if negb (lk_incb l =? 0) && (lk_pid l =? t) then
    Some {| lk_held := lk_held l; lk_pid := lk_pid l; lk_incb := lk_incb l;
            lk_cnt := lk_cnt l + 1 |}
  else if lk_held l then None
  else Some {| lk_held := true; lk_pid := t; lk_incb := lk_incb l; lk_cnt := lk_cnt l |}.

(* the COAP_THREAD_RECURSIVE_CHECK variant of coap_lock_lock_func (default of the autoconf build):
   trylock first; if that fails and the caller itself is the holder, re-entry from a callback is
   counted, a recursive call outside a callback is the "Thread Deadlock" the variant reports (the
   caller then waits on itself); otherwise wait for the holder.  Same decisions as lk_lock_func
   on every lock state in which "mutex free" implies in_callback = 0 (LockProofs.lk_rc_same,
   all reachable states: lk_rc_same_reachable). *)
Definition lk_lock_func_rc (t : Z) (l : lk_lock) : option lk_lock :=
  if lk_held l then
    if lk_pid l =? t then
      if negb (lk_incb l =? 0) then
        Some {| lk_held := lk_held l; lk_pid := lk_pid l; lk_incb := lk_incb l;
                lk_cnt := lk_cnt l + 1 |}
      else None
    else None
  else Some {| lk_held := true; lk_pid := t; lk_incb := lk_incb l; lk_cnt := lk_cnt l |}.

(* coap_lock_unlock_func() (the assert on the caller's pid is compiled out with NDEBUG) *)
Definition lk_unlock_func (l : lk_lock) : lk_lock :=
  if negb (lk_incb l =? 0) then
    {| lk_held := lk_held l; lk_pid := lk_pid l; lk_incb := lk_incb l; lk_cnt := lk_cnt l - 1 |}
  else {| lk_held := false; lk_pid := 0; lk_incb := lk_incb l; lk_cnt := lk_cnt l |}.

Definition lk_exec (t : Z) (o : lk_op) (l : lk_lock) : option lk_lock :=
  match o with
  | LkLock _ => lk_lock_func t l
  | LkUnlock _ => Some (lk_unlock_func l)
  | LkInc => Some {| lk_held := lk_held l; lk_pid := lk_pid l; lk_incb := lk_incb l + 1;
                     lk_cnt := lk_cnt l |}
  | LkDec => Some {| lk_held := lk_held l; lk_pid := lk_pid l; lk_incb := lk_incb l - 1;
                     lk_cnt := lk_cnt l |}
  | LkWb | LkWe => Some l
  end.

(* ------------------------------------------------------------------ threads and steps *)

Record lk_state := { lk_l : lk_lock; lk_thr : list (list lk_op) }.

(* thread number i (position in lk_thr) has the non-zero id i+1 *)
Definition lk_tid (i : nat) : Z := Z.of_nat i + 1.

Fixpoint lk_upd {A} (l : list A) (i : nat) (x : A) : list A :=
  match l, i with
  | [], _ => []
  | _ :: tl, O => x :: tl
  | h :: tl, S j => h :: lk_upd tl j x
  end.

(* thread i executes its next instruction; None: it has finished, does not exist, or waits *)
Definition lk_step (i : nat) (s : lk_state) : option lk_state :=
  match nth_error (lk_thr s) i with
  | Some (o :: rest) =>
      match lk_exec (lk_tid i) o (lk_l s) with
      | Some l' => Some {| lk_l := l'; lk_thr := lk_upd (lk_thr s) i rest |}
      | None => None
      end
  | _ => None
  end.

Definition lk_init (progs : list (list lk_op)) : lk_state :=
  {| lk_l := lk_lock0; lk_thr := progs |}.

Inductive lk_reach (s0 : lk_state) : lk_state -> Prop :=
| lk_reach_refl : lk_reach s0 s0
| lk_reach_step : forall s i s', lk_reach s0 s -> lk_step i s = Some s' -> lk_reach s0 s'.

(* run a schedule (a scheduled thread that cannot move is skipped) *)
Fixpoint lk_run (sched : list nat) (s : lk_state) : lk_state :=
  match sched with
  | [] => s
  | i :: tl => match lk_step i s with Some s' => lk_run tl s' | None => lk_run tl s end
  end.

(* ------------------------------------------------------------------ observations *)

(* thread i is in the middle of an access to library state *)
Definition lk_accessing (s : lk_state) (i : nat) : Prop :=
  exists rest, nth_error (lk_thr s) i = Some (LkWe :: rest).

Definition lk_accessingb (s : lk_state) (i : nat) : bool :=
  match nth_error (lk_thr s) i with Some (LkWe :: _) => true | _ => false end.

Definition lk_all_done (s : lk_state) : Prop := Forall (fun p => p = []) (lk_thr s).

Definition lk_all_doneb (s : lk_state) : bool :=
  forallb (fun p => match p with [] => true | _ => false end) (lk_thr s).

Definition lk_enabledb (s : lk_state) (i : nat) : bool :=
  match lk_step i s with Some _ => true | None => false end.

(* nobody can move although somebody has work left *)
Definition lk_stuckb (s : lk_state) : bool :=
  negb (lk_all_doneb s) &&
  forallb (fun i => negb (lk_enabledb s i)) (seq 0 (length (lk_thr s))).

Definition lk_lock_eqb (a b : lk_lock) : bool :=
  eqb (lk_held a) (lk_held b) && (lk_pid a =? lk_pid b) && (lk_incb a =? lk_incb b) &&
  (lk_cnt a =? lk_cnt b).

(* the boolean form of the property on one observed state (the implementation-only oracle
   evaluates exactly this on what the C code did):
   1 = two threads access library state at once, 2 = nobody can move but work is left,
   3 = everybody has returned but the lock is not back in its initial state, 0 = fine *)
Definition lk_two_accessb (s : lk_state) : bool :=
  let n := length (lk_thr s) in
  existsb (fun i => existsb (fun j => negb (Nat.eqb i j) && lk_accessingb s i && lk_accessingb s j)
                            (seq 0 n)) (seq 0 n).

Definition lk_verdict (s : lk_state) : Z :=
  if lk_two_accessb s then 1
  else if lk_stuckb s then 2
  else if lk_all_doneb s && negb (lk_lock_eqb (lk_l s) lk_lock0) then 3
  else 0.

(* ------------------------------------------------------------------ well-bracketed programs *)

(* The shape of a thread's instruction stream, checked by a stack machine: a frame is an API call
   in progress (FCall), a stay-locked callback (FKeep), an unlocking callback or wait (FRel), or
   an access to library state (FWork).  Application code (top of stack empty / FKeep / FRel) may
   only call the API; library code (top FCall) may access state, invoke callbacks, or return. *)
Inductive lk_frame := FCall | FKeep | FRel | FWork.
Definition lk_stack := list lk_frame.

Definition lk_sstep (k : lk_stack) (o : lk_op) : option lk_stack :=
  match o with
  | LkLock LkTApi =>
      match k with
      | [] | FKeep :: _ | FRel :: _ => Some (FCall :: k)
      | _ => None
      end
  | LkUnlock LkTApi => match k with FCall :: r => Some r | _ => None end
  | LkWb => match k with FCall :: _ => Some (FWork :: k) | _ => None end
  | LkWe => match k with FWork :: r => Some r | _ => None end
  | LkInc => match k with FCall :: _ => Some (FKeep :: k) | _ => None end
  | LkDec => match k with FKeep :: r => Some r | _ => None end
  | LkUnlock LkTCb => match k with FCall :: _ => Some (FRel :: k) | _ => None end
  | LkLock LkTCb => match k with FRel :: r => Some r | _ => None end
  end.

Fixpoint lk_srun (k : lk_stack) (p : list lk_op) : option lk_stack :=
  match p with
  | [] => Some k
  | o :: tl => match lk_sstep k o with Some k' => lk_srun k' tl | None => None end
  end.

(* a complete thread program: starts and ends in application code outside any call *)
Definition lk_wfprog (p : list lk_op) : bool :=
  match lk_srun [] p with Some [] => true | _ => false end.

(* ------------------------------------------------------------------ historical configurations *)

(* the macro as it was before /repo commit 0dc3221: two increments, one decrement *)
Definition lk_cfg_double_inc : lk_cfg :=
  {| lk_compiled := true; lk_reports := true;
     lk_m_api := lk_canon_api;
     lk_m_keep := lk_canon_keep; lk_m_keepret := [LkMInc; LkMInc; LkMFunc; LkMDec];
     lk_m_rel := lk_canon_rel; lk_m_relret := lk_canon_rel; lk_m_wait := lk_canon_rel;
     lk_api_ok := true; lk_cb_ok := true |}.

(* the CMake build before /repo commit b19334a: COAP_THREAD_SAFE defined as the token ON, so every
   "#if COAP_THREAD_SAFE" is false (all macros reduce to FUNC) while "#ifdef" is true *)
Definition lk_cfg_cmake_on : lk_cfg :=
  {| lk_compiled := false; lk_reports := true;
     lk_m_api := [LkMFunc];
     lk_m_keep := [LkMFunc]; lk_m_keepret := [LkMFunc];
     lk_m_rel := [LkMFunc]; lk_m_relret := [LkMFunc]; lk_m_wait := [LkMFunc];
     lk_api_ok := true; lk_cb_ok := true |}.

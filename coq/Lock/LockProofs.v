(* C13 - proofs about the lock model of LockModel.v: the invariant that ties every thread's
   position in its (well-bracketed) program to the state of global_lock, and from it mutual
   exclusion, re-entry, full release and absence of deadlock for any number of threads. *)
From LibcoapV Require Import Base.Tactics Lock.LockModel.
Local Open Scope Z_scope.

Ltac lk_fin := repeat split; auto; try lia; try (intros; discriminate); try (intros; subst; discriminate); try (intros; congruence).

(* ------------------------------------------------------------------ stacks and views *)

(* a frame sits only on the frame that can open it *)
Fixpoint lk_stack_ok (k : lk_stack) : bool :=
  match k with
  | [] => true
  | FCall :: r => match r with [] | FKeep :: _ | FRel :: _ => lk_stack_ok r | _ => false end
  | _ :: r => match r with FCall :: _ => lk_stack_ok r | _ => false end
  end.

(* what the thread's own history implies for the lock: (does it hold the mutex, its in_callback,
   its lock_count) - the lock operations replayed on the frames from the outermost inwards *)
Fixpoint lk_view (k : lk_stack) : bool * Z * Z :=
  match k with
  | [] => (false, 0, 0)
  | FCall :: r => let '(h, i, c) := lk_view r in
                  if negb (i =? 0) then (h, i, c + 1) else (true, i, c)
  | FKeep :: r => let '(h, i, c) := lk_view r in (h, i + 1, c)
  | FRel :: r => let '(h, i, c) := lk_view r in
                 if negb (i =? 0) then (h, i, c - 1) else (false, i, c)
  | FWork :: r => lk_view r
  end.

Definition lk_holds (k : lk_stack) : bool := fst (fst (lk_view k)).

Definition lk_mk (t i c : Z) : lk_lock :=
  {| lk_held := true; lk_pid := t; lk_incb := i; lk_cnt := c |}.

Lemma lk_view_props : forall k h i c,
  lk_stack_ok k = true -> lk_view k = (h, i, c) ->
  0 <= i /\ 0 <= c /\ (h = false -> i = 0) /\ (i = 0 -> c = 0) /\
  (match k with FCall :: _ | FKeep :: _ | FWork :: _ => h = true | _ => True end) /\
  (match k with
   | FKeep :: _ => 1 <= i
   | FRel :: _ => h = true -> 1 <= i
   | FCall :: _ => i <> 0 -> 1 <= c
   | _ => True end).
Proof.
  induction k as [|f r IH]; intros h i c OK V.
  - cbn in V. injection V as Hh Hi Hc. subst h i c. lk_fin.
  - destruct (lk_view r) as [[h0 i0] c0] eqn:VR.
    assert (OKr : lk_stack_ok r = true).
    { destruct f; cbn in OK; destruct r as [|f2 r2]; try discriminate; auto;
        destruct f2; try discriminate; auto. }
    specialize (IH h0 i0 c0 OKr eq_refl).
    destruct IH as (I0 & C0 & HF & IC & TOP & POS).
    destruct f; cbn [lk_view] in V; rewrite VR in V.
    + (* FCall *)
      destruct (i0 =? 0) eqn:E; cbn in V; injection V as Hh Hi Hc; subst h i c.
      * lk_fin.
      * assert (h0 = true) by (destruct h0; auto; specialize (HF eq_refl); lia).
        subst h0. lk_fin.
    + (* FKeep : sits on FCall, whose view holds *)
      injection V as Hh Hi Hc; subst h i c.
      destruct r as [|f2 r2]; [discriminate|]. destruct f2; try discriminate.
      lk_fin.
    + (* FRel *)
      destruct r as [|f2 r2]; [discriminate|]. destruct f2; try discriminate.
      destruct (i0 =? 0) eqn:E; cbn in V; injection V as Hh Hi Hc; subst h i c.
      * lk_fin.
      * assert (1 <= c0) by (apply POS; lia). lk_fin.
    + (* FWork *)
      destruct r as [|f2 r2]; [discriminate|]. destruct f2; try discriminate.
      injection V as Hh Hi Hc; subst h i c. lk_fin.
Qed.

Lemma lk_stack_ok_tail : forall f r, lk_stack_ok (f :: r) = true -> lk_stack_ok r = true.
Proof.
  intros f r OK. destruct f; cbn in OK; destruct r as [|f2 r2]; try discriminate; auto;
    destruct f2; try discriminate; auto.
Qed.

Lemma lk_sstep_ok : forall k o k',
  lk_stack_ok k = true -> lk_sstep k o = Some k' -> lk_stack_ok k' = true.
Proof.
  intros k o k' OK S.
  destruct o as [g|g| | | |]; try destruct g; cbn in S;
    destruct k as [|f r]; try discriminate; try destruct f; try discriminate;
    injection S as <-; auto; try (eapply lk_stack_ok_tail; eauto; fail).
Qed.

(* ------------------------------------------------------------------ one thread, one step *)

(* A: the thread that owns the mutex is never refused, and afterwards the lock is again what
   its new frame stack says (or completely free). *)
Lemma lk_owner_step : forall k o k' t i c,
  lk_stack_ok k = true -> lk_sstep k o = Some k' -> lk_view k = (true, i, c) ->
  exists l', lk_exec t o (lk_mk t i c) = Some l' /\
    ((exists i' c', lk_view k' = (true, i', c') /\ l' = lk_mk t i' c') \/
     (lk_holds k' = false /\ l' = lk_lock0)).
Proof.
  intros k o k' t i c OK S V.
  pose proof (lk_view_props k true i c OK V) as (I0 & C0 & _ & IC & TOP & POS).
  destruct o as [g|g| | | |]; try destruct g; cbn in S;
    destruct k as [|f r]; try discriminate; try destruct f; try discriminate;
    injection S as <-.
  - (* Lock Api inside a keep callback *)
    unfold lk_exec, lk_lock_func, lk_mk; cbn [lk_incb lk_pid lk_held lk_cnt].
    assert (E : (i =? 0) = false) by lia. rewrite E, Z.eqb_refl. cbn [negb andb].
    eexists; split; [reflexivity|]. left. exists i, (c + 1). split; auto.
    cbn [lk_view] in *. destruct (lk_view r) as [[h0 i0] c0]. injection V as -> <- <-.
    replace (i0 + 1 =? 0) with false by lia. reflexivity.
  - (* Lock Api inside a release callback that is itself inside a keep callback *)
    specialize (POS eq_refl).
    unfold lk_exec, lk_lock_func, lk_mk; cbn [lk_incb lk_pid lk_held lk_cnt].
    assert (E : (i =? 0) = false) by lia. rewrite E, Z.eqb_refl. cbn [negb andb].
    eexists; split; [reflexivity|]. left. exists i, (c + 1). split; auto.
    change (lk_view (FCall :: FRel :: r)) with
      (let '(h, i, c) := lk_view (FRel :: r) in if negb (i =? 0) then (h, i, c + 1) else (true, i, c)).
    rewrite V, E. reflexivity.
  - (* Lock Cb : the re-lock that ends a release callback *)
    specialize (POS eq_refl).
    unfold lk_exec, lk_lock_func, lk_mk; cbn [lk_incb lk_pid lk_held lk_cnt].
    assert (E : (i =? 0) = false) by lia. rewrite E, Z.eqb_refl. cbn [negb andb].
    eexists; split; [reflexivity|]. left. exists i, (c + 1). split; auto.
    cbn [lk_view] in V. destruct (lk_view r) as [[h0 i0] c0].
    destruct (i0 =? 0) eqn:E0; cbn [negb] in V; [discriminate|].
    assert (h0 = true /\ i0 = i /\ c0 = c + 1) as (-> & -> & ->)
      by (repeat split; try congruence; assert (c0 - 1 = c) by congruence; lia).
    reflexivity.
  - (* Unlock Api : return from an API call *)
    unfold lk_exec, lk_unlock_func, lk_mk; cbn [lk_incb lk_pid lk_held lk_cnt].
    eexists; split; [reflexivity|].
    pose proof (lk_stack_ok_tail _ _ OK) as OKr.
    cbn [lk_view] in V. destruct (lk_view r) as [[h0 i0] c0] eqn:V'.
    pose proof (lk_view_props r h0 i0 c0 OKr V') as (_ & _ & HF' & IC' & _ & P).
    destruct (i0 =? 0) eqn:E0; cbn [negb] in V.
    + (* outermost lock: really released *)
      assert (i = i0 /\ c = c0) as [-> ->] by (split; congruence).
      right. rewrite E0. cbn [negb].
      assert (i0 = 0) by lia. subst i0. rewrite (IC' eq_refl) in *.
      split; [|reflexivity]. unfold lk_holds. rewrite V'. cbn [fst].
      (* r is [] or a release frame with in_callback = 0 (a keep frame would have >= 1) *)
      destruct r as [|f2 r2]; [cbn in V'; congruence|].
      destruct f2; cbn in OK; try discriminate.
      * lia.
      * destruct h0; auto. specialize (P eq_refl). lia.
    + assert (h0 = true /\ i = i0 /\ c = c0 + 1) as (-> & -> & ->)
        by (repeat split; congruence).
      left. rewrite E0. cbn [negb]. exists i0, c0. split; auto.
      f_equal. lia.
  - (* Unlock Cb : a release callback / wait begins *)
    unfold lk_exec, lk_unlock_func, lk_mk; cbn [lk_incb lk_pid lk_held lk_cnt].
    eexists; split; [reflexivity|].
    unfold lk_holds.
    change (lk_view (FRel :: FCall :: r)) with
      (let '(h, i, c) := lk_view (FCall :: r) in if negb (i =? 0) then (h, i, c - 1) else (false, i, c)).
    rewrite V. destruct (i =? 0) eqn:E; cbn [negb].
    + right. split; [reflexivity|]. assert (i = 0) by lia. subst. rewrite (IC eq_refl). reflexivity.
    + left. exists i, (c - 1). split; auto.
  - (* Inc *)
    eexists; split; [reflexivity|]. left. exists (i + 1), c. split; auto.
    change (lk_view (FKeep :: FCall :: r)) with
      (let '(h, i, c) := lk_view (FCall :: r) in (h, i + 1, c)). rewrite V. reflexivity.
  - (* Dec *)
    eexists; split; [reflexivity|]. left.
    cbn [lk_view] in V. destruct (lk_view r) as [[h0 i0] c0] eqn:V'.
    assert (h0 = true /\ i = i0 + 1 /\ c = c0) as (-> & -> & ->) by (repeat split; congruence).
    exists i0, c0. split; auto.
    unfold lk_mk. cbn [lk_exec lk_incb lk_held lk_pid lk_cnt]. f_equal. lia.
  - (* Wb *)
    eexists; split; [reflexivity|]. left. exists i, c. split; auto.
  - (* We *)
    eexists; split; [reflexivity|]. left. exists i, c. split; auto.
Qed.

(* B: a thread that does not hold the mutex can only be about to take it; when it gets it, the
   lock is exactly (held, in_callback = 0, lock_count = 0). *)
Lemma lk_waiter_step : forall k o k',
  lk_stack_ok k = true -> lk_sstep k o = Some k' -> lk_holds k = false ->
  (exists g, o = LkLock g) /\ lk_view k' = (true, 0, 0).
Proof.
  intros k o k' OK S H. unfold lk_holds in H.
  destruct (lk_view k) as [[h i] c] eqn:V. cbn [fst] in H. subst h.
  pose proof (lk_view_props k false i c OK V) as (_ & _ & HF & IC & TOP & _).
  specialize (HF eq_refl). subst i. specialize (IC eq_refl). subst c.
  destruct o as [g|g| | | |]; try destruct g; cbn in S;
    destruct k as [|f r]; try discriminate; try destruct f; try discriminate;
    injection S as <-.
  - split; [eexists; reflexivity|]. reflexivity.
  - split; [eexists; reflexivity|].
    change (lk_view (FCall :: FRel :: r)) with
      (let '(h, i, c) := lk_view (FRel :: r) in if negb (i =? 0) then (h, i, c + 1) else (true, i, c)).
    rewrite V. reflexivity.
  - split; [eexists; reflexivity|].
    pose proof (lk_stack_ok_tail _ _ OK) as OKr.
    cbn [lk_view] in V. destruct (lk_view r) as [[h0 i0] c0] eqn:V'.
    pose proof (lk_view_props r h0 i0 c0 OKr V') as (_ & _ & _ & IC' & TOP' & _).
    destruct r as [|f2 r2]; [discriminate|]. destruct f2; try discriminate.
    destruct (i0 =? 0) eqn:E; cbn [negb] in V.
    + assert (i0 = 0 /\ c0 = 0) as [-> ->] by (split; congruence). rewrite TOP'. reflexivity.
    + rewrite TOP' in V. discriminate.
Qed.

Lemma lk_lock_free : forall t g, lk_exec t (LkLock g) lk_lock0 = Some (lk_mk t 0 0).
Proof. reflexivity. Qed.

Lemma lk_lock_blocked : forall t g t0 i c, t <> t0 -> lk_exec t (LkLock g) (lk_mk t0 i c) = None.
Proof.
  intros. unfold lk_exec, lk_lock_func, lk_mk; cbn [lk_incb lk_pid lk_held lk_cnt].
  replace (t0 =? t) with false by lia. rewrite andb_false_r. reflexivity.
Qed.

(* ------------------------------------------------------------------ list update *)

Lemma lk_upd_length : forall A (l : list A) i x, length (lk_upd l i x) = length l.
Proof. induction l; destruct i; cbn; auto. Qed.

Lemma lk_upd_same : forall A (l : list A) i x y,
  nth_error l i = Some y -> nth_error (lk_upd l i x) i = Some x.
Proof. induction l; destruct i; cbn; intros; try discriminate; eauto. Qed.

Lemma lk_upd_other : forall A (l : list A) i j x,
  j <> i -> nth_error (lk_upd l i x) j = nth_error l j.
Proof.
  induction l; destruct i, j; cbn; intros; auto; try congruence.
Qed.

Lemma lk_tid_inj : forall i j, lk_tid i = lk_tid j -> i = j.
Proof. unfold lk_tid; intros; lia. Qed.

Lemma lk_srun_cons : forall k o p r,
  lk_srun k (o :: p) = Some r -> exists k', lk_sstep k o = Some k' /\ lk_srun k' p = Some r.
Proof. intros k o p r H. cbn in H. destruct (lk_sstep k o); [eauto|discriminate]. Qed.

(* ------------------------------------------------------------------ the invariant *)

Definition lk_thr_ok (stk : nat -> lk_stack) (thr : list (list lk_op)) : Prop :=
  forall i p, nth_error thr i = Some p ->
    lk_stack_ok (stk i) = true /\ lk_srun (stk i) p = Some [].

Definition lk_lock_ok (stk : nat -> lk_stack) (n : nat) (l : lk_lock) : Prop :=
  (l = lk_lock0 /\ forall j, (j < n)%nat -> lk_holds (stk j) = false) \/
  (exists i ii cc, (i < n)%nat /\ lk_view (stk i) = (true, ii, cc) /\
     l = lk_mk (lk_tid i) ii cc /\
     forall j, (j < n)%nat -> j <> i -> lk_holds (stk j) = false).

Definition lk_inv (s : lk_state) : Prop :=
  exists stk, lk_thr_ok stk (lk_thr s) /\ lk_lock_ok stk (length (lk_thr s)) (lk_l s).

Lemma lk_inv_init : forall progs,
  Forall (fun p => lk_wfprog p = true) progs -> lk_inv (lk_init progs).
Proof.
  intros progs W. exists (fun _ => []). split.
  - intros i p N. split; auto.
    rewrite Forall_forall in W. specialize (W p (nth_error_In _ _ N)).
    unfold lk_wfprog in W. destruct (lk_srun [] p) as [[|]|]; try discriminate. reflexivity.
  - left. split; auto.
Qed.

(* one step, with the frame stacks made explicit: only the moving thread's stack changes, by the
   bracket-checker step of the executed instruction *)
Lemma lk_inv_step_stk : forall s i s' stk,
  lk_thr_ok stk (lk_thr s) -> lk_lock_ok stk (length (lk_thr s)) (lk_l s) ->
  lk_step i s = Some s' ->
  exists o rest k',
    nth_error (lk_thr s) i = Some (o :: rest) /\ lk_sstep (stk i) o = Some k' /\
    lk_thr s' = lk_upd (lk_thr s) i rest /\
    lk_thr_ok (fun j => if Nat.eqb j i then k' else stk j) (lk_thr s') /\
    lk_lock_ok (fun j => if Nat.eqb j i then k' else stk j) (length (lk_thr s')) (lk_l s').
Proof.
  intros s i s' stk TO LO ST. unfold lk_step in ST.
  destruct (nth_error (lk_thr s) i) as [[|o rest]|] eqn:N; try discriminate.
  destruct (lk_exec (lk_tid i) o (lk_l s)) as [l'|] eqn:EX; try discriminate.
  injection ST as <-. cbn [lk_l lk_thr].
  destruct (TO i _ N) as (OKi & RUN).
  destruct (lk_srun_cons _ _ _ _ RUN) as (k' & SS & RUN').
  assert (ILT : (i < length (lk_thr s))%nat) by (apply nth_error_Some; congruence).
  exists o, rest, k'. split; [reflexivity|]. split; [exact SS|]. split; [reflexivity|]. split.
  - intros j p Nj. destruct (Nat.eqb_spec j i) as [->|NE].
    + rewrite (lk_upd_same _ _ _ _ _ N) in Nj. injection Nj as <-.
      split; auto. eapply lk_sstep_ok; eauto.
    + rewrite lk_upd_other in Nj by auto. apply TO; auto.
  - rewrite lk_upd_length.
    destruct LO as [(L0 & NH)|(i0 & ii & cc & I0 & V0 & L0 & NH)].
    + (* the lock is free: i takes it *)
      destruct (lk_waiter_step _ _ _ OKi SS (NH i ILT)) as ((g & ->) & V').
      rewrite L0, lk_lock_free in EX. injection EX as <-.
      right. exists i, 0, 0. rewrite Nat.eqb_refl. repeat split; auto.
      intros j J NE. destruct (Nat.eqb_spec j i); [contradiction|]. auto.
    + destruct (Nat.eq_dec i i0) as [->|NE].
      * (* the owner moves *)
        destruct (lk_owner_step _ _ _ (lk_tid i0) _ _ OKi SS V0) as (l'' & EX' & R).
        rewrite L0, EX' in EX. injection EX as <-.
        destruct R as [(i' & c' & V' & ->)|(H' & ->)].
        -- right. exists i0, i', c'. rewrite Nat.eqb_refl. repeat split; auto.
           intros j J NE. destruct (Nat.eqb_spec j i0); [contradiction|]. auto.
        -- left. split; auto. intros j J. destruct (Nat.eqb_spec j i0); auto.
      * (* somebody else: it can only be waiting for the lock, and is refused *)
        destruct (lk_waiter_step _ _ _ OKi SS (NH i ILT NE)) as ((g & ->) & _).
        rewrite L0, lk_lock_blocked in EX; [discriminate|].
        intro E. apply lk_tid_inj in E. contradiction.
Qed.

Lemma lk_inv_step : forall s i s', lk_inv s -> lk_step i s = Some s' -> lk_inv s'.
Proof.
  intros s i s' (stk & TO & LO) ST.
  destruct (lk_inv_step_stk _ _ _ _ TO LO ST) as (o & rest & k' & _ & _ & _ & TO' & LO').
  eexists; split; eauto.
Qed.

Lemma lk_inv_reach : forall progs s,
  Forall (fun p => lk_wfprog p = true) progs -> lk_reach (lk_init progs) s -> lk_inv s.
Proof.
  intros progs s W R. induction R; [apply lk_inv_init; auto|eapply lk_inv_step; eauto].
Qed.

(* ------------------------------------------------------------------ consequences *)

Section Reachable.
Variable progs : list (list lk_op).
Hypothesis progs_wf : Forall (fun p => lk_wfprog p = true) progs.

(* a thread in the middle of an access to library state owns the mutex *)
Lemma lk_access_owns : forall s i,
  lk_reach (lk_init progs) s -> lk_accessing s i ->
  lk_held (lk_l s) = true /\ lk_pid (lk_l s) = lk_tid i.
Proof.
  intros s i R (rest & N).
  destruct (lk_inv_reach _ _ progs_wf R) as (stk & TO & LO).
  destruct (TO i _ N) as (OKi & RUN).
  destruct (lk_srun_cons _ _ _ _ RUN) as (k' & SS & _).
  assert (ILT : (i < length (lk_thr s))%nat) by (apply nth_error_Some; congruence).
  assert (H : lk_holds (stk i) = true).
  { cbn in SS. destruct (stk i) as [|f r] eqn:E; try discriminate. destruct f; try discriminate.
    unfold lk_holds. destruct (lk_view (FWork :: r)) as [[h ii] cc] eqn:V.
    pose proof (lk_view_props _ _ _ _ OKi V) as (_ & _ & _ & _ & TOP & _). cbn. auto. }
  destruct LO as [(L0 & NH)|(i0 & ii & cc & I0 & V0 & L0 & NH)].
  - rewrite (NH i ILT) in H. discriminate.
  - destruct (Nat.eq_dec i i0) as [->|NE].
    + rewrite L0. split; reflexivity.
    + rewrite (NH i ILT NE) in H. discriminate.
Qed.

(* mutual exclusion: never two threads inside an access to library state *)
Theorem lk_mutex : forall s i j,
  lk_reach (lk_init progs) s -> lk_accessing s i -> lk_accessing s j -> i = j.
Proof.
  intros s i j R Ai Aj.
  destruct (lk_access_owns s i R Ai) as (_ & Pi).
  destruct (lk_access_owns s j R Aj) as (_ & Pj).
  apply lk_tid_inj. congruence.
Qed.

(* a thread that owns the mutex is never refused, whatever it does next (in particular a nested
   API call made from a callback); and it always has something left to do *)
Theorem lk_owner_runs : forall s i,
  lk_reach (lk_init progs) s -> lk_held (lk_l s) = true -> lk_pid (lk_l s) = lk_tid i ->
  exists s', lk_step i s = Some s'.
Proof.
  intros s i R H P.
  destruct (lk_inv_reach _ _ progs_wf R) as (stk & TO & LO).
  destruct LO as [(L0 & NH)|(i0 & ii & cc & I0 & V0 & L0 & NH)].
  - rewrite L0 in H. discriminate.
  - rewrite L0 in P. cbn in P. apply lk_tid_inj in P. subst i0.
    destruct (nth_error (lk_thr s) i) as [p|] eqn:N.
    2:{ apply nth_error_None in N. lia. }
    destruct (TO i _ N) as (OKi & RUN).
    destruct p as [|o rest].
    + cbn in RUN. injection RUN as E. rewrite E in V0. discriminate.
    + destruct (lk_srun_cons _ _ _ _ RUN) as (k' & SS & _).
      destruct (lk_owner_step _ _ _ (lk_tid i) _ _ OKi SS V0) as (l'' & EX' & _).
      unfold lk_step. rewrite N, L0, EX'. eauto.
Qed.

(* whenever the mutex is free, the whole lock is back in its initial state *)
Theorem lk_free_is_initial : forall s,
  lk_reach (lk_init progs) s -> lk_held (lk_l s) = false -> lk_l s = lk_lock0.
Proof.
  intros s R H.
  destruct (lk_inv_reach _ _ progs_wf R) as (stk & TO & LO).
  destruct LO as [(L0 & NH)|(i0 & ii & cc & I0 & V0 & L0 & NH)]; auto.
  rewrite L0 in H. discriminate.
Qed.

(* the counters never go below zero (no wrap of the unsigned C counters), and lock_count is
   only used while in_callback is non-zero *)
Theorem lk_counters_nonneg : forall s,
  lk_reach (lk_init progs) s ->
  0 <= lk_incb (lk_l s) /\ 0 <= lk_cnt (lk_l s) /\ (lk_incb (lk_l s) = 0 -> lk_cnt (lk_l s) = 0).
Proof.
  intros s R.
  destruct (lk_inv_reach _ _ progs_wf R) as (stk & TO & LO).
  destruct LO as [(L0 & NH)|(i0 & ii & cc & I0 & V0 & L0 & NH)].
  - rewrite L0. cbn. lia.
  - rewrite L0. cbn.
    destruct (nth_error (lk_thr s) i0) as [p|] eqn:N.
    2:{ apply nth_error_None in N. lia. }
    destruct (TO i0 _ N) as (OKi & _).
    pose proof (lk_view_props _ _ _ _ OKi V0) as (A & B & _ & C & _). auto.
Qed.

(* no deadlock: unless every thread has returned, some thread can move *)
Theorem lk_progress : forall s,
  lk_reach (lk_init progs) s -> lk_all_doneb s = false -> exists i s', lk_step i s = Some s'.
Proof.
  intros s R ND.
  destruct (lk_held (lk_l s)) eqn:H.
  - destruct (lk_inv_reach _ _ progs_wf R) as (stk & TO & LO).
    destruct LO as [(L0 & NH)|(i0 & ii & cc & I0 & V0 & L0 & NH)].
    + rewrite L0 in H. discriminate.
    + exists i0. apply lk_owner_runs; auto. rewrite L0. reflexivity.
  - pose proof (lk_free_is_initial s R H) as L0.
    destruct (lk_inv_reach _ _ progs_wf R) as (stk & TO & LO).
    destruct LO as [(_ & NH)|(i0 & ii & cc & I0 & V0 & L0' & NH)].
    2:{ rewrite L0' in H. discriminate. }
    unfold lk_all_doneb in ND.
    assert (EX : exists p, In p (lk_thr s) /\ p <> []).
    { clear -ND. induction (lk_thr s) as [|p tl IH]; [discriminate|].
      cbn in ND. destruct p as [|o r].
      - destruct (IH ND) as (q & I & Q). exists q. split; auto. right; auto.
      - exists (o :: r). split; [left; auto|discriminate]. }
    destruct EX as (p & I & NE). destruct (In_nth_error _ _ I) as (i & N).
    destruct p as [|o rest]; [congruence|].
    destruct (TO i _ N) as (OKi & RUN).
    destruct (lk_srun_cons _ _ _ _ RUN) as (k' & SS & _).
    assert (ILT : (i < length (lk_thr s))%nat) by (apply nth_error_Some; congruence).
    destruct (lk_waiter_step _ _ _ OKi SS (NH i ILT)) as ((g & ->) & _).
    exists i. unfold lk_step. rewrite N, L0, lk_lock_free. eauto.
Qed.

(* "no thread blocks forever once the others return": the last thread standing always runs *)
Theorem lk_last_thread_runs : forall s i o rest,
  lk_reach (lk_init progs) s ->
  nth_error (lk_thr s) i = Some (o :: rest) ->
  (forall j, j <> i -> nth_error (lk_thr s) j = Some [] \/ nth_error (lk_thr s) j = None) ->
  exists s', lk_step i s = Some s'.
Proof.
  intros s i o rest R N OTH.
  assert (ND : lk_all_doneb s = false).
  { unfold lk_all_doneb. apply not_true_is_false. intro A.
    rewrite forallb_forall in A. specialize (A _ (nth_error_In _ _ N)). discriminate. }
  destruct (lk_progress s R ND) as (j & s' & ST).
  destruct (Nat.eq_dec j i) as [->|NE]; [eauto|].
  unfold lk_step in ST. destruct (OTH j NE) as [E|E]; rewrite E in ST; discriminate.
Qed.

End Reachable.

(* ------------------------------------------------------------------ every call completes *)

Definition lk_total (s : lk_state) : nat :=
  fold_right (fun p a => (length p + a)%nat) 0%nat (lk_thr s).

Lemma lk_total_upd : forall (thr : list (list lk_op)) i o rest,
  nth_error thr i = Some (o :: rest) ->
  S (fold_right (fun p a => (length p + a)%nat) 0%nat (lk_upd thr i rest)) =
  fold_right (fun p a => (length p + a)%nat) 0%nat thr.
Proof.
  induction thr as [|p tl IH]; intros i o rest N; destruct i; cbn in *; try discriminate.
  - injection N as ->. cbn. lia.
  - rewrite <- (IH _ _ _ N). lia.
Qed.

Lemma lk_step_total : forall i s s', lk_step i s = Some s' -> S (lk_total s') = lk_total s.
Proof.
  intros i s s' ST. unfold lk_step in ST.
  destruct (nth_error (lk_thr s) i) as [[|o rest]|] eqn:N; try discriminate.
  destruct (lk_exec (lk_tid i) o (lk_l s)); try discriminate.
  injection ST as <-. unfold lk_total. cbn [lk_thr]. eapply lk_total_upd; eauto.
Qed.

Lemma lk_total_zero_done : forall s, lk_total s = 0%nat -> lk_all_doneb s = true.
Proof.
  intros s. unfold lk_total, lk_all_doneb. induction (lk_thr s) as [|p tl IH]; cbn; auto.
  destruct p; cbn; [auto|discriminate].
Qed.

Lemma lk_reach_trans_step : forall s0 s i s',
  lk_reach s0 s -> lk_step i s = Some s' -> lk_reach s0 s'.
Proof. intros; eapply lk_reach_step; eauto. Qed.

Section Completes.
Variable progs : list (list lk_op).
Hypothesis progs_wf : Forall (fun p => lk_wfprog p = true) progs.

(* from every reachable state there is a schedule that lets every thread return, and whenever
   all threads have returned the lock is in its initial state.  Every step consumes one
   instruction, so together with lk_progress: every maximal execution is finite and ends with
   all calls completed (no deadlock and no livelock). *)
Theorem lk_completes : forall s,
  lk_reach (lk_init progs) s ->
  exists sched, lk_reach (lk_init progs) (lk_run sched s) /\
                lk_all_doneb (lk_run sched s) = true.
Proof.
  intros s R. remember (lk_total s) as n eqn:T. revert s R T.
  induction n as [|n IH]; intros s R T.
  - exists []. cbn. split; auto. apply lk_total_zero_done; auto.
  - destruct (lk_all_doneb s) eqn:D.
    + exists []. cbn. auto.
    + destruct (lk_progress progs progs_wf s R D) as (i & s' & ST).
      pose proof (lk_step_total _ _ _ ST) as T'.
      destruct (IH s' (lk_reach_trans_step _ _ _ _ R ST)) as (sched & R' & D'); [lia|].
      exists (i :: sched). cbn [lk_run]. rewrite ST. auto.
Qed.

Theorem lk_done_released : forall s,
  lk_reach (lk_init progs) s -> lk_all_doneb s = true -> lk_l s = lk_lock0.
Proof.
  intros s R D.
  destruct (lk_held (lk_l s)) eqn:H; [|apply (lk_free_is_initial progs progs_wf); auto].
  destruct (lk_inv_reach _ _ progs_wf R) as (stk & TO & LO).
  destruct LO as [(L0 & NH)|(i0 & ii & cc & I0 & V0 & L0 & NH)]; auto.
  destruct (nth_error (lk_thr s) i0) as [p|] eqn:N.
  2:{ apply nth_error_None in N. lia. }
  destruct (TO i0 _ N) as (_ & RUN).
  unfold lk_all_doneb in D. rewrite forallb_forall in D.
  specialize (D _ (nth_error_In _ _ N)). destruct p; [|discriminate].
  cbn in RUN. injection RUN as E. rewrite E in V0. discriminate.
Qed.

(* the number of steps of any execution is bounded by the size of the programs *)
Theorem lk_steps_bounded : forall s,
  lk_reach (lk_init progs) s -> (lk_total s <= lk_total (lk_init progs))%nat.
Proof.
  intros s R. induction R; auto. pose proof (lk_step_total _ _ _ H). lia.
Qed.

End Completes.

(* ------------------------------------------------------------------ structured programs *)

Scheme lk_calls_mut := Induction for lk_calls Sort Prop
with lk_items_mut := Induction for lk_items Sort Prop.
Combined Scheme lk_prog_mutind from lk_calls_mut, lk_items_mut.

Definition lk_appmode (k : lk_stack) : bool :=
  match k with [] | FKeep :: _ | FRel :: _ => true | _ => false end.

Lemma lk_srun_app : forall p q k,
  lk_srun k (p ++ q) = match lk_srun k p with Some k' => lk_srun k' q | None => None end.
Proof.
  induction p as [|o p IH]; intros q k; cbn; auto.
  destruct (lk_sstep k o); auto.
Qed.

(* the canonical flattening is balanced: application code returns to the frame it started in *)
Lemma lk_flat_balanced :
  (forall p k, lk_appmode k = true -> lk_srun k (lk_flat lk_canon p) = Some k) /\
  (forall b k, lk_srun (FCall :: k) (lk_flat_items lk_canon b) = Some (FCall :: k)).
Proof.
  apply lk_prog_mutind.
  - intros k A. reflexivity.
  - intros b IHb n IHn k A. cbn [lk_flat lk_canon lk_m_api lk_canon_api lk_expand flat_map].
    rewrite app_nil_r. rewrite <- !app_assoc. cbn [app].
    assert (S1 : forall q, lk_srun k (LkLock LkTApi :: q) = lk_srun (FCall :: k) q).
    { intros q. destruct k as [|f r]; auto. destruct f; auto; discriminate. }
    rewrite S1. rewrite lk_srun_app. fold lk_canon. rewrite IHb. cbn [lk_srun lk_sstep].
    apply IHn; auto.
  - intros k. reflexivity.
  - intros n IHn k. cbn [lk_flat_items lk_srun lk_sstep]. apply IHn.
  - intros kd ap IHa n IHn k.
    destruct kd; cbn [lk_flat_items lk_macro lk_canon lk_m_keep lk_m_keepret lk_m_rel lk_m_relret
                       lk_m_wait lk_canon_keep lk_canon_rel lk_expand flat_map];
      rewrite app_nil_r; rewrite <- !app_assoc; cbn [app]; cbn [lk_srun lk_sstep];
      rewrite lk_srun_app; fold lk_canon; rewrite IHa by reflexivity; cbn [lk_srun lk_sstep];
      apply IHn.
Qed.

Lemma lk_flat_wf : forall p, lk_wfprog (lk_flat lk_canon p) = true.
Proof.
  intros p. unfold lk_wfprog. rewrite (proj1 lk_flat_balanced p []); auto.
Qed.

Lemma lk_mops_eqb_eq : forall a b, lk_mops_eqb a b = true -> a = b.
Proof.
  induction a as [|x a IH]; destruct b as [|y b]; cbn; intros H; try discriminate; auto.
  apply andb_true_iff in H. destruct H as [E H]. f_equal; auto.
  destruct x, y; cbn in E; try discriminate; auto.
Qed.

(* a configuration that passes lk_cfg_wf expands every program exactly like the canonical one *)
Lemma lk_cfg_wf_macros : forall c, lk_cfg_wf c = true ->
  lk_m_api c = lk_canon_api /\ lk_m_keep c = lk_canon_keep /\ lk_m_keepret c = lk_canon_keep /\
  lk_m_rel c = lk_canon_rel /\ lk_m_relret c = lk_canon_rel /\ lk_m_wait c = lk_canon_rel /\
  lk_compiled c = true /\ lk_reports c = true /\ lk_api_ok c = true /\ lk_cb_ok c = true.
Proof.
  intros c W. unfold lk_cfg_wf in W. repeat (apply andb_true_iff in W; destruct W as [W ?]).
  repeat match goal with H : lk_mops_eqb _ _ = true |- _ => apply lk_mops_eqb_eq in H end.
  destruct (lk_compiled c); [|discriminate].
  destruct (lk_reports c); [|discriminate]. repeat split; auto.
Qed.

Lemma lk_flat_cfg : forall c, lk_cfg_wf c = true ->
  (forall p, lk_flat c p = lk_flat lk_canon p) /\
  (forall b, lk_flat_items c b = lk_flat_items lk_canon b).
Proof.
  intros c W. destruct (lk_cfg_wf_macros c W) as (A & K & KR & R & RR & WT & _).
  apply lk_prog_mutind.
  - reflexivity.
  - intros b IHb n IHn. cbn [lk_flat]. rewrite A, IHb, IHn. reflexivity.
  - reflexivity.
  - intros n IHn. cbn [lk_flat_items]. rewrite IHn. reflexivity.
  - intros kd ap IHa n IHn. cbn [lk_flat_items]. rewrite IHa, IHn.
    destruct kd; cbn [lk_macro]; rewrite ?K, ?KR, ?R, ?RR, ?WT; reflexivity.
Qed.

Lemma lk_flat_all_wf : forall c progs, lk_cfg_wf c = true ->
  Forall (fun p => lk_wfprog p = true) (map (lk_flat c) progs).
Proof.
  intros c progs W. apply Forall_forall. intros p I. apply in_map_iff in I.
  destruct I as (q & <- & _). rewrite (proj1 (lk_flat_cfg c W)). apply lk_flat_wf.
Qed.

(* a thread whose remaining program is a sequence of complete API calls is outside any call:
   it does not own the lock *)
Lemma lk_outside_not_owner : forall c progs s i rest,
  lk_cfg_wf c = true ->
  lk_reach (lk_init (map (lk_flat c) progs)) s ->
  nth_error (lk_thr s) i = Some (lk_flat c rest) ->
  lk_pid (lk_l s) <> lk_tid i.
Proof.
  intros c progs s i rest W R N.
  destruct (lk_inv_reach _ _ (lk_flat_all_wf c progs W) R) as (stk & TO & LO).
  destruct (TO i _ N) as (OKi & RUN).
  rewrite (proj1 (lk_flat_cfg c W)) in RUN.
  assert (E : stk i = []).
  { destruct (lk_appmode (stk i)) eqn:A.
    - rewrite (proj1 lk_flat_balanced rest _ A) in RUN. congruence.
    - destruct rest as [|b n].
      + cbn in RUN. congruence.
      + cbn [lk_flat lk_canon lk_m_api lk_canon_api lk_expand flat_map] in RUN.
        cbn in RUN. destruct (stk i) as [|f r]; [discriminate|].
        destruct f; try discriminate. }
  destruct LO as [(L0 & NH)|(i0 & ii & cc & I0 & V0 & L0 & NH)].
  - rewrite L0. cbn. unfold lk_tid. lia.
  - rewrite L0. cbn. intro P. apply lk_tid_inj in P. subst i0. rewrite E in V0. discriminate.
Qed.

(* ------------------------------------------------------------------ the theorems per configuration *)

Lemma lk_run_reach : forall s0 sched s, lk_reach s0 s -> lk_reach s0 (lk_run sched s).
Proof.
  induction sched as [|i tl IH]; intros s R; cbn; auto.
  destruct (lk_step i s) eqn:ST; auto. apply IH. eapply lk_reach_step; eauto.
Qed.

Section PerConfig.
Variable c : lk_cfg.
Hypothesis c_wf : lk_cfg_wf c = true.
Variable progs : list lk_calls.
Let init := lk_init (map (lk_flat c) progs).
Let wf := lk_flat_all_wf c progs c_wf.

Theorem lk_cfg_mutex : forall s i j,
  lk_reach init s -> lk_accessing s i -> lk_accessing s j -> i = j.
Proof. exact (lk_mutex _ wf). Qed.

Theorem lk_cfg_access_owns : forall s i,
  lk_reach init s -> lk_accessing s i ->
  lk_held (lk_l s) = true /\ lk_pid (lk_l s) = lk_tid i.
Proof. exact (lk_access_owns _ wf). Qed.

Theorem lk_cfg_reentry : forall s i,
  lk_reach init s -> lk_held (lk_l s) = true -> lk_pid (lk_l s) = lk_tid i ->
  exists s', lk_step i s = Some s'.
Proof. exact (lk_owner_runs _ wf). Qed.

Theorem lk_cfg_released : forall s,
  lk_reach init s ->
  (forall i rest, nth_error (lk_thr s) i = Some (lk_flat c rest) -> lk_pid (lk_l s) <> lk_tid i) /\
  (lk_held (lk_l s) = false -> lk_l s = lk_lock0) /\
  (lk_all_doneb s = true -> lk_l s = lk_lock0).
Proof.
  intros s R. split; [|split].
  - intros i rest N. eapply lk_outside_not_owner; eauto.
  - apply (lk_free_is_initial _ wf); auto.
  - apply (lk_done_released _ wf); auto.
Qed.

Theorem lk_cfg_no_deadlock : forall s,
  lk_reach init s -> lk_all_doneb s = false -> exists i s', lk_step i s = Some s'.
Proof. exact (lk_progress _ wf). Qed.

Theorem lk_cfg_completes : forall s,
  lk_reach init s ->
  (lk_total s <= lk_total init)%nat /\
  exists sched, lk_reach init (lk_run sched s) /\ lk_all_doneb (lk_run sched s) = true /\
                lk_l (lk_run sched s) = lk_lock0.
Proof.
  intros s R. split; [apply (lk_steps_bounded _ s R)|].
  destruct (lk_completes _ wf s R) as (sched & R' & D).
  exists sched. repeat split; auto. apply (lk_done_released _ wf); auto.
Qed.

Theorem lk_cfg_last_thread_runs : forall s i o rest,
  lk_reach init s ->
  nth_error (lk_thr s) i = Some (o :: rest) ->
  (forall j, j <> i -> nth_error (lk_thr s) j = Some [] \/ nth_error (lk_thr s) j = None) ->
  exists s', lk_step i s = Some s'.
Proof. exact (lk_last_thread_runs _ wf). Qed.

Theorem lk_cfg_counters : forall s,
  lk_reach init s ->
  0 <= lk_incb (lk_l s) /\ 0 <= lk_cnt (lk_l s) /\ (lk_incb (lk_l s) = 0 -> lk_cnt (lk_l s) = 0).
Proof. exact (lk_counters_nonneg _ wf). Qed.

End PerConfig.

(* ------------------------------------------------------------------ witnesses *)

(* one API call that touches library state *)
Definition lk_ex_work : lk_calls := LkCall (LkWork LkRet) LkDone.
(* one API call whose body runs an event handler (coap_lock_callback_ret) and then touches state *)
Definition lk_ex_event : lk_calls := LkCall (LkCb LkKeepRet LkDone (LkWork LkRet)) LkDone.

(* before /repo commit 0dc3221: thread 0 makes one call that runs an event handler and returns;
   the mutex stays locked; thread 1's first call then waits for ever *)
Theorem lk_double_inc_refuted :
  exists progs sched,
    let s := lk_run sched (lk_init (map (lk_flat lk_cfg_double_inc) progs)) in
    nth_error (lk_thr s) 0 = Some [] /\ lk_held (lk_l s) = true /\
    lk_stuckb s = true /\ lk_verdict s = 2.
Proof.
  exists [lk_ex_event; lk_ex_work], [0; 0; 0; 0; 0; 0; 0; 1; 1]%nat.
  vm_compute. repeat split; reflexivity.
Qed.

(* before /repo commit b19334a: no locking is compiled in although support is reported; two
   threads are inside library state at the same time *)
Theorem lk_cmake_on_refuted :
  lk_reports lk_cfg_cmake_on = true /\
  exists progs sched,
    let s := lk_run sched (lk_init (map (lk_flat lk_cfg_cmake_on) progs)) in
    lk_accessingb s 0 = true /\ lk_accessingb s 1 = true /\ lk_verdict s = 1.
Proof.
  split; [reflexivity|].
  exists [lk_ex_work; lk_ex_work], [0; 1]%nat. vm_compute. repeat split; reflexivity.
Qed.

Theorem lk_historical_cfgs_rejected :
  lk_cfg_wf lk_cfg_double_inc = false /\ lk_cfg_wf lk_cfg_cmake_on = false /\
  lk_cfg_wf lk_canon = true.
Proof. repeat split; reflexivity. Qed.

(* non-vacuity: three threads; thread 0 is two callbacks deep (event handler -> send -> pong
   handler -> send), in_callback = 2, lock_count = 2, accessing library state; thread 1 waits
   for the lock; thread 2 sits in coap_io_process's wait with the lock released ... *)
Definition lk_ex_nested : lk_calls :=
  LkCall (LkCb LkKeepRet
            (LkCall (LkCb LkKeep (LkCall (LkWork LkRet) LkDone) (LkWork LkRet)) LkDone)
            (LkWork LkRet)) LkDone.
Definition lk_ex_io : lk_calls :=
  LkCall (LkCb LkWait LkDone
         (LkCb LkRel (LkCall (LkWork LkRet) LkDone) (LkWork LkRet))) LkDone.

Theorem lk_nonvacuous :
  let progs := [lk_ex_nested; lk_ex_work; lk_ex_io] in
  lk_cfg_wf lk_canon = true /\
  exists sched,
    let s := lk_run sched (lk_init (map (lk_flat lk_canon) progs)) in
    lk_reach (lk_init (map (lk_flat lk_canon) progs)) s /\
    lk_l s = lk_mk (lk_tid 0) 2 2 /\ lk_accessingb s 0 = true /\
    lk_enabledb s 1 = false /\ lk_enabledb s 0 = true /\ lk_verdict s = 0.
Proof.
  split; [reflexivity|].
  exists [2; 2; 0; 0; 0; 0; 0; 0; 1]%nat. split; [apply lk_run_reach; constructor|].
  vm_compute. repeat split; reflexivity.
Qed.

(* ------------------------------------------------------------------ the unlocked read in coap_lock_lock_func *)

(* coap_lock_lock_func evaluates "global_lock.in_callback && coap_thread_pid == global_lock.pid"
   BEFORE it has the mutex (finding C13-F3: ThreadSanitizer reports these reads).  The model's
   lk_lock_func takes the decision atomically.  This is justified here: while thread i stands
   in front of a lock call, whatever the other threads do between its read of in_callback, its
   read of pid and the moment it acts, the decision is the one the atomic version takes - if i
   is the re-entering owner nobody else can move at all, otherwise pid never becomes i's id. *)

Inductive lk_others (i : nat) : lk_state -> lk_state -> Prop :=
| lk_others_refl : forall s, lk_others i s s
| lk_others_step : forall s j s' s'', j <> i -> lk_step j s = Some s' ->
                   lk_others i s' s'' -> lk_others i s s''.

Definition lk_reentry_test (i : nat) (x y : lk_state) : bool :=
  negb (lk_incb (lk_l x) =? 0) && (lk_pid (lk_l y) =? lk_tid i).

Lemma lk_step_pid : forall j s s',
  lk_step j s = Some s' ->
  lk_pid (lk_l s') = lk_pid (lk_l s) \/ lk_pid (lk_l s') = 0 \/ lk_pid (lk_l s') = lk_tid j.
Proof.
  intros j s s' ST. unfold lk_step in ST.
  destruct (nth_error (lk_thr s) j) as [[|o rest]|]; try discriminate.
  destruct (lk_exec (lk_tid j) o (lk_l s)) as [l'|] eqn:EX; try discriminate.
  injection ST as <-. cbn [lk_l].
  destruct o; cbn in EX.
  - unfold lk_lock_func in EX.
    destruct (negb (lk_incb (lk_l s) =? 0) && (lk_pid (lk_l s) =? lk_tid j)).
    + injection EX as <-. auto.
    + destruct (lk_held (lk_l s)); [discriminate|]. injection EX as <-. auto.
  - injection EX as <-. unfold lk_unlock_func.
    destruct (negb (lk_incb (lk_l s) =? 0)); cbn; auto.
  - injection EX as <-. auto.
  - injection EX as <-. auto.
  - injection EX as <-. auto.
  - injection EX as <-. auto.
Qed.

Lemma lk_others_pid : forall i s s',
  lk_others i s s' -> lk_pid (lk_l s) <> lk_tid i -> lk_pid (lk_l s') <> lk_tid i.
Proof.
  intros i s s' O. induction O as [|s j s' s'' NE ST O IH]; auto.
  intros P. apply IH.
  destruct (lk_step_pid _ _ _ ST) as [E|[E|E]]; rewrite E; auto.
  - unfold lk_tid. lia.
  - intro F. apply lk_tid_inj in F. contradiction.
Qed.

Section RacyRead.
Variable progs : list (list lk_op).
Hypothesis progs_wf : Forall (fun p => lk_wfprog p = true) progs.

(* while a thread owns the mutex no other thread can take a step *)
Lemma lk_owner_excludes : forall s i j,
  lk_reach (lk_init progs) s -> lk_pid (lk_l s) = lk_tid i -> j <> i -> lk_step j s = None.
Proof.
  intros s i j R P NE.
  destruct (lk_inv_reach _ _ progs_wf R) as (stk & TO & LO).
  destruct LO as [(L0 & NH)|(i0 & ii & cc & I0 & V0 & L0 & NH)].
  - rewrite L0 in P. cbn in P. unfold lk_tid in P. lia.
  - rewrite L0 in P. cbn in P. apply lk_tid_inj in P. subst i0.
    unfold lk_step. destruct (nth_error (lk_thr s) j) as [[|o rest]|] eqn:N; auto.
    destruct (TO j _ N) as (OKj & RUN).
    destruct (lk_srun_cons _ _ _ _ RUN) as (k' & SS & _).
    assert (JLT : (j < length (lk_thr s))%nat) by (apply nth_error_Some; congruence).
    destruct (lk_waiter_step _ _ _ OKj SS (NH j JLT NE)) as ((g & ->) & _).
    rewrite L0, lk_lock_blocked; auto.
    intro F. apply lk_tid_inj in F. contradiction.
Qed.

Theorem lk_racy_read_safe : forall s s1 s2 i,
  lk_reach (lk_init progs) s -> lk_others i s s1 -> lk_others i s1 s2 ->
  lk_reentry_test i s1 s2 = lk_reentry_test i s s /\
  lk_reentry_test i s2 s2 = lk_reentry_test i s s /\
  (lk_reentry_test i s s = true -> s1 = s /\ s2 = s).
Proof.
  intros s s1 s2 i R O1 O2.
  destruct (Z.eq_dec (lk_pid (lk_l s)) (lk_tid i)) as [P|P].
  - (* i owns the mutex: nobody else moves *)
    assert (E1 : s1 = s).
    { inversion O1 as [|x j s' s'' NE ST O]; subst; auto.
      rewrite (lk_owner_excludes s i j R P NE) in ST. discriminate. }
    subst s1.
    assert (E2 : s2 = s).
    { inversion O2 as [|x j s' s'' NE ST O]; subst; auto.
      rewrite (lk_owner_excludes s i j R P NE) in ST. discriminate. }
    subst s2. auto.
  - (* i does not own it: pid never becomes i's id, the test stays false *)
    pose proof (lk_others_pid _ _ _ O1 P) as P1.
    pose proof (lk_others_pid _ _ _ O2 P1) as P2.
    unfold lk_reentry_test.
    replace (lk_pid (lk_l s) =? lk_tid i) with false by lia.
    replace (lk_pid (lk_l s2) =? lk_tid i) with false by lia.
    rewrite !andb_false_r. repeat split; auto; discriminate.
Qed.

End RacyRead.

(* ------------------------------------------------------------------ the RECURSIVE_CHECK variant *)

Lemma lk_rc_same : forall t l,
  (lk_held l = false -> lk_incb l = 0) -> lk_lock_func_rc t l = lk_lock_func t l.
Proof.
  intros t l H. unfold lk_lock_func_rc, lk_lock_func.
  destruct (lk_held l) eqn:HL.
  - destruct (lk_pid l =? t); destruct (negb (lk_incb l =? 0)); reflexivity.
  - rewrite (H eq_refl). reflexivity.
Qed.

(* on every reachable state both variants of coap_lock_lock_func take the same decision for
   every caller: all theorems hold for a build with COAP_THREAD_RECURSIVE_CHECK as well *)
Theorem lk_rc_same_reachable : forall progs,
  Forall (fun p => lk_wfprog p = true) progs -> forall s t,
  lk_reach (lk_init progs) s -> lk_lock_func_rc t (lk_l s) = lk_lock_func t (lk_l s).
Proof.
  intros progs W s t R. apply lk_rc_same. intros H.
  rewrite (lk_free_is_initial progs W s R H). reflexivity.
Qed.

(* a state in which no thread can move is one in which every thread has returned: every
   maximal execution (finite by lk_steps_bounded) ends with all calls completed and, by
   lk_done_released, with the lock in its initial state *)
Theorem lk_quiescent_is_done : forall progs,
  Forall (fun p => lk_wfprog p = true) progs -> forall s,
  lk_reach (lk_init progs) s -> (forall i, lk_step i s = None) ->
  lk_all_doneb s = true /\ lk_l s = lk_lock0.
Proof.
  intros progs W s R Q.
  destruct (lk_all_doneb s) eqn:D.
  - split; auto. apply (lk_done_released progs W); auto.
  - destruct (lk_progress progs W s R D) as (i & s' & ST). rewrite Q in ST. discriminate.
Qed.

(* C13 - proofs about the lock model of LockModel.v: the invariant that ties every thread's
   position in its (well-bracketed) program to the state of global_lock, and from it mutual
   exclusion, re-entry, full release and absence of deadlock for any number of threads. *)
From LibcoapV Require Import Base.Tactics Lock.LockModel.
Local Open Scope Z_scope.

Ltac lk_fin := repeat split; auto; try lia; try (intros; discriminate); try (intros; subst; discriminate); try (intros; congruence).

(* ------------------------------------------------------------------ stacks and views *)

(* a frame sits only on the frame that can open it *)
Fixpoint lk_stack_ok (k : lk_stack) : bool :=
  match k with
  | [] => true
  | FCall :: r => match r with [] | FKeep :: _ | FRel :: _ => lk_stack_ok r | _ => false end
  | _ :: r => match r with FCall :: _ => lk_stack_ok r | _ => false end
  end.

(* what the thread's own history implies for the lock: (does it hold the mutex, its in_callback,
   its lock_count) - the lock operations replayed on the frames from the outermost inwards *)
Fixpoint lk_view (k : lk_stack) : bool * Z * Z :=
  match k with
  | [] => (false, 0, 0)
  | FCall :: r => let '(h, i, c) := lk_view r in
                  if negb (i =? 0) then (h, i, c + 1) else (true, i, c)
  | FKeep :: r => let '(h, i, c) := lk_view r in (h, i + 1, c)
  | FRel :: r => let '(h, i, c) := lk_view r in
                 if negb (i =? 0) then (h, i, c - 1) else (false, i, c)
  | FWork :: r => lk_view r
  end.

Definition lk_holds (k : lk_stack) : bool := fst (fst (lk_view k)).

Definition lk_mk (t i c : Z) : lk_lock :=
  {| lk_held := true; lk_pid := t; lk_incb := i; lk_cnt := c |}.

Lemma lk_view_props : forall k h i c,
  lk_stack_ok k = true -> lk_view k = (h, i, c) ->
  0 <= i /\ 0 <= c /\ (h = false -> i = 0) /\ (i = 0 -> c = 0) /\
  (match k with FCall :: _ | FKeep :: _ | FWork :: _ => h = true | _ => True end) /\
  (match k with
   | FKeep :: _ => 1 <= i
   | FRel :: _ => h = true -> 1 <= i
   | FCall :: _ => i <> 0 -> 1 <= c
   | _ => True end).
Proof.
  induction k as [|f r IH]; intros h i c OK V.
  - cbn in V. injection V as Hh Hi Hc. subst h i c. lk_fin.
  - destruct (lk_view r) as [[h0 i0] c0] eqn:VR.
    assert (OKr : lk_stack_ok r = true).
    { destruct f; cbn in OK; destruct r as [|f2 r2]; try discriminate; auto;
        destruct f2; try discriminate; auto. }
    specialize (IH h0 i0 c0 OKr eq_refl).
    destruct IH as (I0 & C0 & HF & IC & TOP & POS).
    destruct f; cbn [lk_view] in V; rewrite VR in V.
    + (* FCall *)
      destruct (i0 =? 0) eqn:E; cbn in V; injection V as Hh Hi Hc; subst h i c.
      * lk_fin.
      * assert (h0 = true) by (destruct h0; auto; specialize (HF eq_refl); lia).
        subst h0. lk_fin.
    + (* FKeep : sits on FCall, whose view holds *)
      injection V as Hh Hi Hc; subst h i c.
      destruct r as [|f2 r2]; [discriminate|]. destruct f2; try discriminate.
      lk_fin.
    + (* FRel *)
      destruct r as [|f2 r2]; [discriminate|]. destruct f2; try discriminate.
      destruct (i0 =? 0) eqn:E; cbn in V; injection V as Hh Hi Hc; subst h i c.
      * lk_fin.
      * assert (1 <= c0) by (apply POS; lia). lk_fin.
    + (* FWork *)
      destruct r as [|f2 r2]; [discriminate|]. destruct f2; try discriminate.
      injection V as Hh Hi Hc; subst h i c. lk_fin.
Qed.

Lemma lk_stack_ok_tail : forall f r, lk_stack_ok (f :: r) = true -> lk_stack_ok r = true.
Proof.
  intros f r OK. destruct f; cbn in OK; destruct r as [|f2 r2]; try discriminate; auto;
    destruct f2; try discriminate; auto.
Qed.

Lemma lk_sstep_ok : forall k o k',
  lk_stack_ok k = true -> lk_sstep k o = Some k' -> lk_stack_ok k' = true.
Proof.
  intros k o k' OK S.
  destruct o as [g|g| | | |]; try destruct g; cbn in S;
    destruct k as [|f r]; try discriminate; try destruct f; try discriminate;
    injection S as <-; auto; try (eapply lk_stack_ok_tail; eauto; fail).
Qed.

(* ------------------------------------------------------------------ one thread, one step *)

(* A: the thread that owns the mutex is never refused, and afterwards the lock is again what
   its new frame stack says (or completely free). *)
Lemma lk_owner_step : forall k o k' t i c,
  lk_stack_ok k = true -> lk_sstep k o = Some k' -> lk_view k = (true, i, c) ->
  exists l', lk_exec t o (lk_mk t i c) = Some l' /\
    ((exists i' c', lk_view k' = (true, i', c') /\ l' = lk_mk t i' c') \/
     (lk_holds k' = false /\ l' = lk_lock0)).
Proof.
  intros k o k' t i c OK S V.
  pose proof (lk_view_props k true i c OK V) as (I0 & C0 & _ & IC & TOP & POS).
  destruct o as [g|g| | | |]; try destruct g; cbn in S;
    destruct k as [|f r]; try discriminate; try destruct f; try discriminate;
    injection S as <-.
  - (* Lock Api inside a keep callback *)
    unfold lk_exec, lk_lock_func, lk_mk; cbn [lk_incb lk_pid lk_held lk_cnt].
    assert (E : (i =? 0) = false) by lia. rewrite E, Z.eqb_refl. cbn [negb andb].
    eexists; split; [reflexivity|]. left. exists i, (c + 1). split; auto.
    cbn [lk_view] in *. destruct (lk_view r) as [[h0 i0] c0]. injection V as -> <- <-.
    replace (i0 + 1 =? 0) with false by lia. reflexivity.
  - (* Lock Api inside a release callback that is itself inside a keep callback *)
    specialize (POS eq_refl).
    unfold lk_exec, lk_lock_func, lk_mk; cbn [lk_incb lk_pid lk_held lk_cnt].
    assert (E : (i =? 0) = false) by lia. rewrite E, Z.eqb_refl. cbn [negb andb].
    eexists; split; [reflexivity|]. left. exists i, (c + 1). split; auto.
    change (lk_view (FCall :: FRel :: r)) with
      (let '(h, i, c) := lk_view (FRel :: r) in if negb (i =? 0) then (h, i, c + 1) else (true, i, c)).
    rewrite V, E. reflexivity.
  - (* Lock Cb : the re-lock that ends a release callback *)
    specialize (POS eq_refl).
    unfold lk_exec, lk_lock_func, lk_mk; cbn [lk_incb lk_pid lk_held lk_cnt].
    assert (E : (i =? 0) = false) by lia. rewrite E, Z.eqb_refl. cbn [negb andb].
    eexists; split; [reflexivity|]. left. exists i, (c + 1). split; auto.
    cbn [lk_view] in V. destruct (lk_view r) as [[h0 i0] c0].
    destruct (i0 =? 0) eqn:E0; cbn [negb] in V; [discriminate|].
    assert (h0 = true /\ i0 = i /\ c0 = c + 1) as (-> & -> & ->)
      by (repeat split; try congruence; assert (c0 - 1 = c) by congruence; lia).
    reflexivity.
  - (* Unlock Api : return from an API call *)
    unfold lk_exec, lk_unlock_func, lk_mk; cbn [lk_incb lk_pid lk_held lk_cnt].
    eexists; split; [reflexivity|].
    pose proof (lk_stack_ok_tail _ _ OK) as OKr.
    cbn [lk_view] in V. destruct (lk_view r) as [[h0 i0] c0] eqn:V'.
    pose proof (lk_view_props r h0 i0 c0 OKr V') as (_ & _ & HF' & IC' & _ & P).
    destruct (i0 =? 0) eqn:E0; cbn [negb] in V.
    + (* outermost lock: really released *)
      assert (i = i0 /\ c = c0) as [-> ->] by (split; congruence).
      right. rewrite E0. cbn [negb].
      assert (i0 = 0) by lia. subst i0. rewrite (IC' eq_refl) in *.
      split; [|reflexivity]. unfold lk_holds. rewrite V'. cbn [fst].
      (* r is [] or a release frame with in_callback = 0 (a keep frame would have >= 1) *)
      destruct r as [|f2 r2]; [cbn in V'; congruence|].
      destruct f2; cbn in OK; try discriminate.
      * lia.
      * destruct h0; auto. specialize (P eq_refl). lia.
    + assert (h0 = true /\ i = i0 /\ c = c0 + 1) as (-> & -> & ->)
        by (repeat split; congruence).
      left. rewrite E0. cbn [negb]. exists i0, c0. split; auto.
      f_equal. lia.
  - (* Unlock Cb : a release callback / wait begins *)
    unfold lk_exec, lk_unlock_func, lk_mk; cbn [lk_incb lk_pid lk_held lk_cnt].
    eexists; split; [reflexivity|].
    unfold lk_holds.
    change (lk_view (FRel :: FCall :: r)) with
      (let '(h, i, c) := lk_view (FCall :: r) in if negb (i =? 0) then (h, i, c - 1) else (false, i, c)).
    rewrite V. destruct (i =? 0) eqn:E; cbn [negb].
    + right. split; [reflexivity|]. assert (i = 0) by lia. subst. rewrite (IC eq_refl). reflexivity.
    + left. exists i, (c - 1). split; auto.
  - (* Inc *)
    eexists; split; [reflexivity|]. left. exists (i + 1), c. split; auto.
    change (lk_view (FKeep :: FCall :: r)) with
      (let '(h, i, c) := lk_view (FCall :: r) in (h, i + 1, c)). rewrite V. reflexivity.
  - (* Dec *)
    eexists; split; [reflexivity|]. left.
    cbn [lk_view] in V. destruct (lk_view r) as [[h0 i0] c0] eqn:V'.
    assert (h0 = true /\ i = i0 + 1 /\ c = c0) as (-> & -> & ->) by (repeat split; congruence).
    exists i0, c0. split; auto.
    unfold lk_mk. cbn [lk_exec lk_incb lk_held lk_pid lk_cnt]. f_equal. lia.
  - (* Wb *)
    eexists; split; [reflexivity|]. left. exists i, c. split; auto.
  - (* We *)
    eexists; split; [reflexivity|]. left. exists i, c. split; auto.
Qed.

(* B: a thread that does not hold the mutex can only be about to take it; when it gets it, the
   lock is exactly (held, in_callback = 0, lock_count = 0). *)
Lemma lk_waiter_step : forall k o k',
  lk_stack_ok k = true -> lk_sstep k o = Some k' -> lk_holds k = false ->
  (exists g, o = LkLock g) /\ lk_view k' = (true, 0, 0).
Proof.
  intros k o k' OK S H. unfold lk_holds in H.
  destruct (lk_view k) as [[h i] c] eqn:V. cbn [fst] in H. subst h.
  pose proof (lk_view_props k false i c OK V) as (_ & _ & HF & IC & TOP & _).
  specialize (HF eq_refl). subst i. specialize (IC eq_refl). subst c.
  destruct o as [g|g| | | |]; try destruct g; cbn in S;
    destruct k as [|f r]; try discriminate; try destruct f; try discriminate;
    injection S as <-.
  - split; [eexists; reflexivity|]. reflexivity.
  - split; [eexists; reflexivity|].
    change (lk_view (FCall :: FRel :: r)) with
      (let '(h, i, c) := lk_view (FRel :: r) in if negb (i =? 0) then (h, i, c + 1) else (true, i, c)).
    rewrite V. reflexivity.
  - split; [eexists; reflexivity|].
    pose proof (lk_stack_ok_tail _ _ OK) as OKr.
    cbn [lk_view] in V. destruct (lk_view r) as [[h0 i0] c0] eqn:V'.
    pose proof (lk_view_props r h0 i0 c0 OKr V') as (_ & _ & _ & IC' & TOP' & _).
    destruct r as [|f2 r2]; [discriminate|]. destruct f2; try discriminate.
    destruct (i0 =? 0) eqn:E; cbn [negb] in V.
    + assert (i0 = 0 /\ c0 = 0) as [-> ->] by (split; congruence). rewrite TOP'. reflexivity.
    + rewrite TOP' in V. discriminate.
Qed.

Lemma lk_lock_free : forall t g, lk_exec t (LkLock g) lk_lock0 = Some (lk_mk t 0 0).
Proof. reflexivity. Qed.

Lemma lk_lock_blocked : forall t g t0 i c, t <> t0 -> lk_exec t (LkLock g) (lk_mk t0 i c) = None.
Proof.
  intros. unfold lk_exec, lk_lock_func, lk_mk; cbn [lk_incb lk_pid lk_held lk_cnt].
  replace (t0 =? t) with false by lia. rewrite andb_false_r. reflexivity.
Qed.

(* ------------------------------------------------------------------ list update *)

Lemma lk_upd_length : forall A (l : list A) i x, length (lk_upd l i x) = length l.
Proof. induction l; destruct i; cbn; auto. Qed.

Lemma lk_upd_same : forall A (l : list A) i x y,
  nth_error l i = Some y -> nth_error (lk_upd l i x) i = Some x.
Proof. induction l; destruct i; cbn; intros; try discriminate; eauto. Qed.

Lemma lk_upd_other : forall A (l : list A) i j x,
  j <> i -> nth_error (lk_upd l i x) j = nth_error l j.
Proof.
  induction l; destruct i, j; cbn; intros; auto; try congruence.
Qed.

Lemma lk_tid_inj : forall i j, lk_tid i = lk_tid j -> i = j.
Proof. unfold lk_tid; intros; lia. Qed.

Lemma lk_srun_cons : forall k o p r,
  lk_srun k (o :: p) = Some r -> exists k', lk_sstep k o = Some k' /\ lk_srun k' p = Some r.
Proof. intros k o p r H. cbn in H. destruct (lk_sstep k o); [eauto|discriminate]. Qed.

(* ------------------------------------------------------------------ the invariant *)

Definition lk_thr_ok (stk : nat -> lk_stack) (thr : list (list lk_op)) : Prop :=
  forall i p, nth_error thr i = Some p ->
    lk_stack_ok (stk i) = true /\ lk_srun (stk i) p = Some [].

Definition lk_lock_ok (stk : nat -> lk_stack) (n : nat) (l : lk_lock) : Prop :=
  (l = lk_lock0 /\ forall j, (j < n)%nat -> lk_holds (stk j) = false) \/
  (exists i ii cc, (i < n)%nat /\ lk_view (stk i) = (true, ii, cc) /\
     l = lk_mk (lk_tid i) ii cc /\
     forall j, (j < n)%nat -> j <> i -> lk_holds (stk j) = false).

Definition lk_inv (s : lk_state) : Prop :=
  exists stk, lk_thr_ok stk (lk_thr s) /\ lk_lock_ok stk (length (lk_thr s)) (lk_l s).

Lemma lk_inv_init : forall progs,
  Forall (fun p => lk_wfprog p = true) progs -> lk_inv (lk_init progs).
Proof.
  intros progs W. exists (fun _ => []). split.
  - intros i p N. split; auto.
    rewrite Forall_forall in W. specialize (W p (nth_error_In _ _ N)).
    unfold lk_wfprog in W. destruct (lk_srun [] p) as [[|]|]; try discriminate. reflexivity.
  - left. split; auto.
Qed.

Lemma lk_inv_step : forall s i s', lk_inv s -> lk_step i s = Some s' -> lk_inv s'.
Proof.
  intros s i s' (stk & TO & LO) ST. unfold lk_step in ST.
  destruct (nth_error (lk_thr s) i) as [[|o rest]|] eqn:N; try discriminate.
  destruct (lk_exec (lk_tid i) o (lk_l s)) as [l'|] eqn:EX; try discriminate.
  injection ST as <-. unfold lk_inv. cbn [lk_l lk_thr].
  destruct (TO i _ N) as (OKi & RUN).
  destruct (lk_srun_cons _ _ _ _ RUN) as (k' & SS & RUN').
  assert (ILT : (i < length (lk_thr s))%nat) by (apply nth_error_Some; congruence).
  exists (fun j => if Nat.eqb j i then k' else stk j). split.
  - intros j p Nj. destruct (Nat.eqb_spec j i) as [->|NE].
    + rewrite (lk_upd_same _ _ _ _ _ N) in Nj. injection Nj as <-.
      split; auto. eapply lk_sstep_ok; eauto.
    + rewrite lk_upd_other in Nj by auto. apply TO; auto.
  - rewrite lk_upd_length.
    destruct LO as [(L0 & NH)|(i0 & ii & cc & I0 & V0 & L0 & NH)].
    + (* the lock is free: i takes it *)
      destruct (lk_waiter_step _ _ _ OKi SS (NH i ILT)) as ((g & ->) & V').
      rewrite L0, lk_lock_free in EX. injection EX as <-.
      right. exists i, 0, 0. rewrite Nat.eqb_refl. repeat split; auto.
      intros j J NE. destruct (Nat.eqb_spec j i); [contradiction|]. auto.
    + destruct (Nat.eq_dec i i0) as [->|NE].
      * (* the owner moves *)
        destruct (lk_owner_step _ _ _ (lk_tid i0) _ _ OKi SS V0) as (l'' & EX' & R).
        rewrite L0, EX' in EX. injection EX as <-.
        destruct R as [(i' & c' & V' & ->)|(H' & ->)].
        -- right. exists i0, i', c'. rewrite Nat.eqb_refl. repeat split; auto.
           intros j J NE. destruct (Nat.eqb_spec j i0); [contradiction|]. auto.
        -- left. split; auto. intros j J. destruct (Nat.eqb_spec j i0); auto.
      * (* somebody else: it can only be waiting for the lock, and is refused *)
        destruct (lk_waiter_step _ _ _ OKi SS (NH i ILT NE)) as ((g & ->) & _).
        rewrite L0, lk_lock_blocked in EX; [discriminate|].
        intro E. apply lk_tid_inj in E. contradiction.
Qed.

Lemma lk_inv_reach : forall progs s,
  Forall (fun p => lk_wfprog p = true) progs -> lk_reach (lk_init progs) s -> lk_inv s.
Proof.
  intros progs s W R. induction R; [apply lk_inv_init; auto|eapply lk_inv_step; eauto].
Qed.

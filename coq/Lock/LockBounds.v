(* C13 - upper bounds for the counters of global_lock: in_callback and lock_count never exceed
   the maximal frame-stack height of the programs (hence, for structured programs, twice the
   callback nesting depth plus two).  With LockProofs.lk_counters_nonneg this shows that the
   uint32_t counters of the C code hold exactly the model's values for every program nested less
   than 2^31 deep: no wrap-around. *)
From LibcoapV Require Import Base.Tactics Lock.LockModel Lock.LockProofs.
Local Open Scope Z_scope.

Definition lk_hgt (k : lk_stack) : Z := Z.of_nat (length k).

(* highest frame stack seen while the bracket checker runs p from k *)
Fixpoint lk_peak (k : lk_stack) (p : list lk_op) : Z :=
  match p with
  | [] => lk_hgt k
  | o :: tl => match lk_sstep k o with
               | Some k' => Z.max (lk_hgt k) (lk_peak k' tl)
               | None => lk_hgt k
               end
  end.

Lemma lk_peak_ge : forall p k, lk_hgt k <= lk_peak k p.
Proof. destruct p; intros; cbn; [lia|]. destruct (lk_sstep k l); lia. Qed.

Lemma lk_view_le_hgt : forall k h i c, lk_view k = (h, i, c) -> i <= lk_hgt k /\ c <= lk_hgt k.
Proof.
  induction k as [|f r IH]; intros h i c V.
  - cbn in V. injection V as _ <- <-. unfold lk_hgt. cbn. lia.
  - destruct (lk_view r) as [[h0 i0] c0] eqn:VR. destruct (IH _ _ _ eq_refl) as [A B].
    unfold lk_hgt in *. cbn [length]. rewrite Nat2Z.inj_succ.
    destruct f; cbn [lk_view] in V; rewrite VR in V.
    + destruct (negb (i0 =? 0)); injection V as _ <- <-; lia.
    + injection V as _ <- <-; lia.
    + destruct (negb (i0 =? 0)); injection V as _ <- <-; lia.
    + injection V as _ <- <-; lia.
Qed.

Section Bounded.
Variable progs : list (list lk_op).
Hypothesis progs_wf : Forall (fun p => lk_wfprog p = true) progs.
Variable D : Z.
Hypothesis D_nonneg : 0 <= D.
Hypothesis progs_peak : Forall (fun p => lk_peak [] p <= D) progs.

Definition lk_inv_b (s : lk_state) : Prop :=
  exists stk, lk_thr_ok stk (lk_thr s) /\ lk_lock_ok stk (length (lk_thr s)) (lk_l s) /\
    forall i p, nth_error (lk_thr s) i = Some p -> lk_peak (stk i) p <= D.

Lemma lk_inv_b_reach : forall s, lk_reach (lk_init progs) s -> lk_inv_b s.
Proof.
  intros s R. induction R as [|s i s' R IH ST].
  - exists (fun _ => []). split; [|split].
    + intros i p N. split; auto.
      rewrite Forall_forall in progs_wf. specialize (progs_wf p (nth_error_In _ _ N)).
      unfold lk_wfprog in progs_wf. destruct (lk_srun [] p) as [[|]|]; try discriminate. reflexivity.
    + left. split; auto.
    + intros i p N. rewrite Forall_forall in progs_peak. apply progs_peak.
      eapply nth_error_In; eauto.
  - destruct IH as (stk & TO & LO & PK).
    destruct (lk_inv_step_stk _ _ _ _ TO LO ST) as (o & rest & k' & N & SS & TH & TO' & LO').
    eexists; split; [exact TO'|]. split; [exact LO'|].
    intros j p Nj. rewrite TH in Nj. destruct (Nat.eqb_spec j i) as [->|NE].
    + rewrite (lk_upd_same _ _ _ _ _ N) in Nj. injection Nj as <-.
      specialize (PK i _ N). cbn [lk_peak] in PK. rewrite SS in PK. lia.
    + rewrite lk_upd_other in Nj by auto. apply PK; auto.
Qed.

Theorem lk_counters_bounded : forall s,
  lk_reach (lk_init progs) s ->
  0 <= lk_incb (lk_l s) <= D /\ 0 <= lk_cnt (lk_l s) <= D.
Proof.
  intros s R.
  pose proof (lk_counters_nonneg progs progs_wf s R) as (A & B & _).
  destruct (lk_inv_b_reach s R) as (stk & TO & LO & PK).
  destruct LO as [(L0 & NH)|(i0 & ii & cc & I0 & V0 & L0 & NH)].
  - rewrite L0 in *. cbn in *.
    lia.
  - rewrite L0 in *. cbn in *.
    destruct (nth_error (lk_thr s) i0) as [p|] eqn:N.
    2:{ apply nth_error_None in N. lia. }
    specialize (PK i0 p N). pose proof (lk_peak_ge p (stk i0)).
    destruct (lk_view_le_hgt _ _ _ _ V0). lia.
Qed.

End Bounded.

(* ------------------------------------------------------------------ structured programs *)

(* frame-stack height a structured program needs: one frame per call, per callback, per access *)
Fixpoint lk_height (p : lk_calls) : Z :=
  match p with
  | LkDone => 0
  | LkCall b n => Z.max (1 + lk_height_items b) (lk_height n)
  end
with lk_height_items (b : lk_items) : Z :=
  match b with
  | LkRet => 0
  | LkWork n => Z.max 1 (lk_height_items n)
  | LkCb _ ap n => Z.max (1 + lk_height ap) (lk_height_items n)
  end.

Lemma lk_height_nonneg :
  (forall p, 0 <= lk_height p) /\ (forall b, 0 <= lk_height_items b).
Proof. apply lk_prog_mutind; intros; cbn [lk_height lk_height_items]; lia. Qed.

Lemma lk_peak_app : forall p q k,
  lk_peak k (p ++ q) = match lk_srun k p with
                       | Some k' => Z.max (lk_peak k p) (lk_peak k' q)
                       | None => lk_peak k p
                       end.
Proof.
  induction p as [|o p IH]; intros q k.
  - cbn. pose proof (lk_peak_ge q k). lia.
  - cbn [app lk_peak lk_srun]. destruct (lk_sstep k o) as [k1|]; auto.
    rewrite IH. destruct (lk_srun k1 p); lia.
Qed.

Lemma lk_hgt_cons : forall f k, lk_hgt (f :: k) = 1 + lk_hgt k.
Proof. intros. unfold lk_hgt. cbn [length]. lia. Qed.

Lemma lk_flat_peak :
  (forall p k, lk_appmode k = true -> lk_peak k (lk_flat lk_canon p) <= lk_hgt k + lk_height p) /\
  (forall b k, lk_peak (FCall :: k) (lk_flat_items lk_canon b)
               <= lk_hgt (FCall :: k) + lk_height_items b).
Proof.
  destruct lk_height_nonneg as [HP HI].
  apply lk_prog_mutind.
  - intros k A. cbn. lia.
  - intros b IHb n IHn k A.
    cbn [lk_flat lk_canon lk_m_api lk_canon_api lk_expand flat_map lk_height].
    rewrite app_nil_r. rewrite <- !app_assoc. cbn [app].
    assert (S1 : lk_sstep k (LkLock LkTApi) = Some (FCall :: k)).
    { destruct k as [|f r]; auto. destruct f; auto; discriminate. }
    cbn [lk_peak]. rewrite S1. fold lk_canon.
    rewrite lk_peak_app. rewrite (proj2 lk_flat_balanced b k).
    cbn [lk_peak lk_sstep].
    specialize (IHb k). specialize (IHn k A). specialize (HI b). specialize (HP n).
    rewrite lk_hgt_cons in *. lia.
  - intros k. cbn. lia.
  - intros n IHn k. cbn [lk_flat_items lk_peak lk_sstep lk_height_items].
    specialize (IHn k). specialize (HI n). rewrite !lk_hgt_cons in *. lia.
  - intros kd ap IHa n IHn k.
    specialize (IHn k). specialize (HI n). specialize (HP ap).
    destruct kd; cbn [lk_flat_items lk_macro lk_canon lk_m_keep lk_m_keepret lk_m_rel lk_m_relret
                       lk_m_wait lk_canon_keep lk_canon_rel lk_expand flat_map lk_height_items];
      rewrite app_nil_r; rewrite <- !app_assoc; cbn [app]; cbn [lk_peak lk_sstep];
      rewrite lk_peak_app; fold lk_canon;
      match goal with |- context [lk_srun (?f :: FCall :: k) (lk_flat lk_canon ap)] =>
        rewrite (proj1 lk_flat_balanced ap (f :: FCall :: k) eq_refl) end; cbn [lk_peak lk_sstep];
      match goal with |- context [lk_peak (?f :: FCall :: k) (lk_flat lk_canon ap)] =>
        specialize (IHa (f :: FCall :: k) eq_refl) end;
      rewrite !lk_hgt_cons in *; lia.
Qed.

(* the counters are bounded by the height of the programs, for every configuration that passes
   lk_cfg_wf *)
Theorem lk_cfg_counters_bounded : forall c, lk_cfg_wf c = true ->
  forall (progs : list lk_calls) D s,
  0 <= D -> Forall (fun p => lk_height p <= D) progs ->
  lk_reach (lk_init (map (lk_flat c) progs)) s ->
  0 <= lk_incb (lk_l s) <= D /\ 0 <= lk_cnt (lk_l s) <= D.
Proof.
  intros c W progs D s D0 H R.
  apply (lk_counters_bounded (map (lk_flat c) progs) (lk_flat_all_wf c progs W) D D0); auto.
  apply Forall_forall. intros p I. apply in_map_iff in I. destruct I as (q & <- & IQ).
  rewrite (proj1 (lk_flat_cfg c W)).
  rewrite Forall_forall in H. specialize (H q IQ).
  pose proof (proj1 lk_flat_peak q [] eq_refl). unfold lk_hgt in *. cbn in *. lia.
Qed.

(* non-vacuity / tightness: the nested example reaches in_callback = 2 = lock_count with
   height 6 *)
Example lk_height_example : lk_height lk_ex_nested = 6.
Proof. reflexivity. Qed.

(* C06 - Confirmable messages are retransmitted on schedule and end in one outcome.
   Statements only; the proofs are in Sched/*Proofs.v.  Models: Sched/FixedPoint.v
   (coap_calc_timeout), Sched/SendQueue.v (coap_insert_node, coap_pop_next,
   coap_remove_from_queue, coap_adjust_basetime), Sched/Retransmit.v (coap_send of a CON,
   coap_wait_ack, coap_retransmit, the retransmit loop and wait computation of
   coap_io_prepare_io, ACK / RST branches of coap_dispatch). *)
From LibcoapV Require Import Base.Tactics Sched.FixedPoint Sched.FixedPointProofs
  Sched.SendQueue Sched.SendQueueProofs Sched.Retransmit Sched.RetransmitProofs
  Sched.RetransmitTimeProofs Sched.RetransmitSpacingProofs Sched.RetransmitProvenanceProofs.
From Coq Require Import Sorting.Permutation.
Local Open Scope Z_scope.

(* ---------------------------------------------------------------- T is drawn from the range *)
(* For every random byte and ALL settings the setters accept (integer part 1..65535, fraction
   0..999): lo <= T <= hi where lo / hi are ACK_TIMEOUT and ACK_TIMEOUT * ACK_RANDOM_FACTOR
   computed from the settings quantised to 1/64 s; the distance of lo / hi from the unquantised
   values in ms is bounded explicitly; r = 0 gives lo, r = 255 gives hi (factor <= 3.0); T is the
   exact fixed-point value unless that exceeds UINT_MAX ticks (then UINT_MAX, 49.7 days). *)
Theorem C06_timeout_range : forall at_ip at_fp arf_ip arf_fp r,
  fp_setting_ok at_ip at_fp -> fp_setting_ok arf_ip arf_fp -> 0 <= r <= 255 ->
  let A := fp_Q at_ip at_fp in
  let F := fp_Q arf_ip arf_fp in
  let T := fp_calc_timeout at_ip at_fp arf_ip arf_fp r in
  fp_lo A <= T <= fp_hi A F /\
  fp_ms at_ip at_fp - 8 <= fp_lo A <= fp_ms at_ip at_fp + 8 /\
  1000 * fp_hi A F <= (fp_ms at_ip at_fp + 8) * (fp_ms arf_ip arf_fp + 8) + 8313 /\
  fp_calc_timeout at_ip at_fp arf_ip arf_fp 0 = fp_lo A /\
  (F <= 192 -> fp_calc_timeout at_ip at_fp arf_ip arf_fp 255 = fp_hi A F) /\
  T = Z.min (fp_calc_plain A F r) fp_uint_max.
Proof. exact fp_timeout_range. Qed.
Print Assumptions C06_timeout_range.

(* settings with fractions that are multiples of 1/8 (representable in Q.6): the lower end is
   exactly ACK_TIMEOUT, the upper end ACK_TIMEOUT * ACK_RANDOM_FACTOR up to 8.4 ms of rounding *)
Theorem C06_timeout_range_exact : forall at_ip at_fp arf_ip arf_fp r,
  fp_setting_ok at_ip at_fp -> fp_setting_ok arf_ip arf_fp -> 0 <= r <= 255 ->
  at_fp mod 125 = 0 -> arf_fp mod 125 = 0 ->
  let T := fp_calc_timeout at_ip at_fp arf_ip arf_fp r in
  fp_ms at_ip at_fp <= T /\
  1000 * T <= fp_ms at_ip at_fp * fp_ms arf_ip arf_fp + 8313 /\
  fp_calc_timeout at_ip at_fp arf_ip arf_fp 0 = fp_ms at_ip at_fp.
Proof. exact fp_timeout_range_exact. Qed.
Print Assumptions C06_timeout_range_exact.

(* the defaults 2.0 / 1.5: T in [2000, 3000] ms for every byte, both ends taken *)
Theorem C06_timeout_default : forall r, 0 <= r <= 255 ->
  2000 <= fp_calc_timeout 2 0 1 500 r <= 3000.
Proof. exact fp_timeout_default. Qed.
Print Assumptions C06_timeout_default.

Theorem C06_timeout_default_ends :
  fp_calc_timeout 2 0 1 500 0 = 2000 /\ fp_calc_timeout 2 0 1 500 255 = 3000.
Proof. exact fp_timeout_default_ends. Qed.
Print Assumptions C06_timeout_default_ends.

(* the hypothesis is exactly what coap_session_set_ack_timeout / _ack_random_factor accept *)
Theorem C06_setting_ok_nonvacuous :
  fp_setting_ok 2 0 /\ fp_setting_ok 1 500 /\
  (forall ip fp, fp_setting_ok ip fp <-> (0 < ip < 65536 /\ 0 <= fp < 1000)).
Proof. exact fp_setting_ok_nonvacuous. Qed.
Print Assumptions C06_setting_ok_nonvacuous.

(* Before /repo ca7875d the Q.6 values were cast to uint16_t:
   ACK_TIMEOUT = 1024.000 s gave T = 0 (finding F06-4, fixed; replay `calcrow 1024 0 1 500`);
   where nothing wrapped the old and the new function agree. *)
Theorem C06_timeout_range_old_refuted : exists at_ip at_fp arf_ip arf_fp r,
  fp_setting_ok at_ip at_fp /\ fp_setting_ok arf_ip arf_fp /\ 0 <= r <= 255 /\
  fp_calc_timeout_old at_ip at_fp arf_ip arf_fp r < fp_ms at_ip at_fp - 8.
Proof. exact fp_timeout_range_old_refuted. Qed.
Print Assumptions C06_timeout_range_old_refuted.

Theorem C06_timeout_old_agrees : forall at_ip at_fp arf_ip arf_fp r,
  fp_setting_ok at_ip at_fp -> fp_setting_ok arf_ip arf_fp -> 0 <= r <= 255 ->
  fp_Qraw at_ip at_fp < 65536 -> fp_Qraw arf_ip arf_fp < 65536 ->
  fp_calc_timeout_old at_ip at_fp arf_ip arf_fp r = fp_calc_timeout at_ip at_fp arf_ip arf_fp r.
Proof. exact fp_calc_old_eq. Qed.
Print Assumptions C06_timeout_old_agrees.

(* ---------------------------------------------------------------- the send queue, every queue *)
(* insertion = ordered insertion on absolute deadlines ... *)
Theorem C06_queue_insert : forall q base t n,
  sq_abs base (sq_insert q t n) = sq_spec_insert (base + t) n (sq_abs base q).
Proof. exact sq_abs_insert. Qed.
Print Assumptions C06_queue_insert.

(* ... which keeps the order, adds exactly the new entry, changes no other deadline, and puts
   the new entry behind all entries that are not later (FIFO among equal deadlines) *)
Theorem C06_queue_insert_ordered : forall l d n, sq_sorted l ->
  sq_sorted (sq_spec_insert d n l) /\
  Permutation ((d, n) :: l) (sq_spec_insert d n l) /\
  exists l1 l2, l = l1 ++ l2 /\ sq_spec_insert d n l = l1 ++ (d, n) :: l2 /\
    Forall (fun e => fst e <= d) l1 /\ Forall (fun e => d < fst e) l2.
Proof.
  exact (fun l d n S => conj (sq_spec_insert_sorted l d n S)
                             (conj (sq_spec_insert_perm l d n) (sq_spec_insert_stable l d n S))).
Qed.
Print Assumptions C06_queue_insert_ordered.

(* queues built by the three operations are well-formed, and well-formed queues are sorted *)
Theorem C06_queue_sorted : forall q base, sq_wf q -> sq_sorted (sq_abs base q).
Proof. exact sq_abs_sorted. Qed.
Print Assumptions C06_queue_sorted.

Theorem C06_queue_wf_preserved :
  (forall q t n, sq_wf q -> sq_wf (sq_insert q t n)) /\
  (forall q e q', sq_wf q -> sq_pop q = Some (e, q') -> sq_wf q') /\
  (forall q s m e q', sq_wf q -> sq_remove q s m = Some (e, q') -> sq_wf q').
Proof. exact (conj sq_insert_wf (conj sq_pop_wf sq_remove_wf')). Qed.
Print Assumptions C06_queue_wf_preserved.

(* pop takes the earliest entry and leaves the other deadlines alone *)
Theorem C06_queue_pop : forall q base t n q',
  sq_pop q = Some ((t, n), q') ->
  sq_abs base q = (base + t, n) :: sq_abs base q' /\
  (sq_wf q -> Forall (fun e => base + t <= fst e) (sq_abs base q')).
Proof.
  exact (fun q base t n q' H => conj (sq_abs_pop q base t n q' H)
                                     (fun W => sq_pop_min q base t n q' W H)).
Qed.
Print Assumptions C06_queue_pop.

(* removal by (session, mid) takes exactly the first matching node, the others keep deadline
   and place; nothing matches <-> nothing happens *)
Theorem C06_queue_remove : forall q base s m,
  (forall t n q', sq_remove q s m = Some ((t, n), q') ->
     exists l1 l2 d, sq_abs base q = l1 ++ (d, n) :: l2 /\ sq_abs base q' = l1 ++ l2 /\
       sq_match s m n = true /\ Forall (fun x => sq_match s m (snd x) = false) l1) /\
  (sq_remove q s m = None <-> Forall (fun x => sq_match s m (snd x) = false) (sq_abs base q)).
Proof.
  exact (fun q base s m => conj (fun t n q' H => sq_remove_others q base s m t n q' H)
                                (sq_remove_none_iff q base s m)).
Qed.
Print Assumptions C06_queue_remove.

(* coap_cancel_all_messages / coap_cancel_session_messages (cancel by session + token, by session):
   exactly the matching nodes disappear, every other node keeps its deadline and place *)
Theorem C06_queue_cancel : forall p q base,
  sq_abs base (snd (sq_cancel p q)) = filter (fun e => negb (p (snd e))) (sq_abs base q) /\
  fst (sq_cancel p q) = filter p (map snd q).
Proof. exact sq_abs_cancel. Qed.
Print Assumptions C06_queue_cancel.

(* as the two functions were before /repo f424a16 (plain unlinking) this failed: the nodes behind
   a cancelled one - of any session - became due earlier (finding F06-1, fixed) *)
Theorem C06_queue_cancel_prefix_refuted : exists p q base,
  sq_wf q /\
  sq_abs base (snd (sq_cancel_nobump p q)) <> filter (fun e => negb (p (snd e))) (sq_abs base q).
Proof. exact sq_cancel_nobump_shifts. Qed.
Print Assumptions C06_queue_cancel_prefix_refuted.

(* coap_adjust_basetime: moving the base backwards keeps every deadline ... *)
Theorem C06_adjust_basetime_back : forall base q now c b' q',
  now <= base -> sq_adjust_basetime base q now = (c, b', q') ->
  c = 0 /\ b' = now /\ sq_abs b' q' = sq_abs base q.
Proof. exact sq_adjust_back. Qed.
Print Assumptions C06_adjust_basetime_back.

(* ... moving it forwards does not (finding K06-2; the function has no caller in the library,
   the retransmission path sets the base time only when the queue is empty) *)
Theorem C06_adjust_basetime_refuted : exists base q now c b' q',
  sq_wf q /\ base < now /\ sq_adjust_basetime base q now = (c, b', q') /\
  Forall (fun e => now < fst e) (sq_abs base q) /\
  sq_abs b' q' <> sq_abs base q.
Proof. exact sq_adjust_shifts_deadline. Qed.
Print Assumptions C06_adjust_basetime_refuted.

(* ---------------------------------------------------------------- the schedule *)
(* coap_send at t0 on an idle context, nobody answers, punctual driver: transmissions of the same
   bytes exactly at t0 + T (2^j - 1), j = 0 .. MAX_RETRANSMIT, then exactly one NACK
   TOO_MANY_RETRIES at t0 + T (2^(MAX_RETRANSMIT+1) - 1); afterwards the queue is empty and the
   reported wait is 0.  T = coap_calc_timeout(settings, r) is computed once. *)
Theorem C06_schedule : forall t0 base0 k s m b cfg r fuel ns tbl0,
  let T := fp_calc_timeout (rc_at_ip cfg) (rc_at_fp cfg) (rc_arf_ip cfg) (rc_arf_fp cfg) r in
  let mx := rc_max cfg in
  1 <= T -> 1 <= mx <= 255 -> T * 2 ^ mx < 4294967296 -> (Z.to_nat mx + 1 < fuel)%nat ->
  (* the session is idle: NSTART ns, no Confirmable in flight, none waiting *)
  1 <= ns -> rt_sget s tbl0 = rt_mk_sinfo ns 0 [] ->
  let (st1, o1) := rt_send (rt_mk_state t0 base0 [] k tbl0) s m b cfg r in
  let (st2, o2) := rt_punctual fuel st1 in
  filter rt_is_tx_nack (o1 ++ o2) =
    map (fun j => RoTx (rt_sched_time t0 T j) k s b (Z.of_nat j) T) (seq 0 (S (Z.to_nat mx))) ++
    [RoNack (rt_sched_time t0 T (S (Z.to_nat mx))) k s rt_NACK_TOO_MANY_RETRIES m mx mx] /\
  rs_q st2 = [] /\ rs_now st2 = rt_sched_time t0 T (S (Z.to_nat mx)) /\
  (exists o', o2 = o' ++ [RoWait (rs_now st2) 0 (-1)]).
Proof. exact rt_schedule. Qed.
Print Assumptions C06_schedule.

(* The same law for EVERY driver and every traffic (ticks at any times, late or early, other
   messages, answers of the peer): transmission number i of a message carries retransmit
   counter i, and transmission i+1 comes with the same T, never earlier than T * 2^i after
   transmission i ... *)
Theorem C06_spacing : forall t0 nst evs u,
  rt_nst_ok nst -> Forall rt_ev_ok evs ->
  let tr := snd (rt_run (rt_init t0 nst) evs) in
  forall i t c T, nth_error (rt_tproj u tr) i = Some (t, c, T) ->
    c = Z.of_nat i /\
    forall t' c' T', nth_error (rt_tproj u tr) (S i) = Some (t', c', T') ->
      T' = T /\ t + T * 2 ^ Z.of_nat i <= t'.
Proof. exact rt_spacing. Qed.
Print Assumptions C06_spacing.

(* ... the deadline of every queued message is its last transmission + T * 2^retransmit_cnt
   (C06_wait_sound: a prepare call leaves nothing behind that is due, so the retransmission
   happens at the first prepare call or datagram arrival at or after that deadline) ... *)
Theorem C06_deadline_law : forall t0 nst evs d n,
  rt_nst_ok nst -> Forall rt_ev_ok evs ->
  let st := fst (rt_run (rt_init t0 nst) evs) in
  let tr := snd (rt_run (rt_init t0 nst) evs) in
  In (d, n) (sq_abs (rs_base st) (rs_q st)) ->
  exists l t, rt_tproj (qn_uid n) tr = l ++ [(t, qn_cnt n, qn_timeout n)] /\
              d = t + qn_timeout n * 2 ^ qn_cnt n.
Proof. exact rt_deadline_law. Qed.
Print Assumptions C06_deadline_law.

(* ... giving up is never early either: a NACK TOO_MANY_RETRIES comes no sooner than T * 2^cnt
   after the last transmission (cnt = MAX_RETRANSMIT by C06_one_outcome) ... *)
Theorem C06_giveup_not_early : forall t0 nst evs tr1 t u s m c mx tr2,
  rt_nst_ok nst -> Forall rt_ev_ok evs ->
  snd (rt_run (rt_init t0 nst) evs) = tr1 ++ RoNack t u s rt_NACK_TOO_MANY_RETRIES m c mx :: tr2 ->
  exists l tl T, rt_tproj u tr1 = l ++ [(tl, c, T)] /\ tl + T * 2 ^ c <= t.
Proof. exact rt_giveup_not_early. Qed.
Print Assumptions C06_giveup_not_early.

(* ... a Confirmable that finds no free NSTART slot waits: it has not been transmitted; its
   timeout is computed THEN (coap_session_delay_pdu: the second place where the byte is drawn) from
   the same settings, and when a slot is released it goes out and is from there on subject to
   C06_spacing / C06_deadline_law / C06_tx_provenance like every other message ... *)
Theorem C06_held_not_sent : forall t0 nst evs n,
  rt_nst_ok nst -> Forall rt_ev_ok evs ->
  let st := fst (rt_run (rt_init t0 nst) evs) in
  let tr := snd (rt_run (rt_init t0 nst) evs) in
  In n (rt_held (rs_sess st)) -> rt_tproj (qn_uid n) tr = [].
Proof. exact rt_held_not_sent. Qed.
Print Assumptions C06_held_not_sent.

Theorem C06_T_drawn_when_held : forall st s m b cfg r,
  let si := rt_sget s (rs_sess st) in
  si_nstart si <= si_active si ->
  existsb (fun n => qn_mid n =? m) (si_hold si) = false ->
  let st' := fst (rt_send st s m b cfg r) in
  snd (rt_send st s m b cfg r) = [RoSent m] /\ rs_q st' = rs_q st /\
  si_hold (rt_sget s (rs_sess st')) =
    si_hold si ++ [sq_mk_node (rs_uid st) s m (-1)
                     (fp_calc_timeout (rc_at_ip cfg) (rc_at_fp cfg) (rc_arf_ip cfg) (rc_arf_fp cfg) r)
                     (rc_max cfg) b].
Proof. exact rt_send_held_spec. Qed.
Print Assumptions C06_T_drawn_when_held.

(* ... and T is computed once, from the session's settings and one random byte, when the
   message is accepted *)
Theorem C06_T_drawn_once : forall st s m b cfg r,
  si_active (rt_sget s (rs_sess st)) < si_nstart (rt_sget s (rs_sess st)) ->
  snd (rt_send st s m b cfg r) =
  [RoTx (rs_now st) (rs_uid st) s b 0
        (fp_calc_timeout (rc_at_ip cfg) (rc_at_fp cfg) (rc_arf_ip cfg) (rc_arf_fp cfg) r);
   RoSent m].
Proof. exact rt_send_free_spec. Qed.
Print Assumptions C06_T_drawn_once.

(* Every datagram of every trace is the unchanged byte string of a submitted message, sent on the
   session it was submitted on, scheduled with T = coap_calc_timeout(that session's settings, the
   byte drawn at submission) - so (C06_timeout_range) every T of every trace lies in
   [ACK_TIMEOUT, ACK_TIMEOUT * ACK_RANDOM_FACTOR] of its session, at Q.6 resolution. *)
Theorem C06_tx_provenance : forall t0 nst evs t u s b c T,
  In (RoTx t u s b c T) (snd (rt_run (rt_init t0 nst) evs)) ->
  exists m cfg r, In (RtSend s m b cfg r) evs /\ T = rt_cfg_T cfg r.
Proof. exact rt_tx_provenance. Qed.
Print Assumptions C06_tx_provenance.

Theorem C06_tx_timeout_in_range : forall t0 nst evs t u s b c T,
  (forall s' m b' cfg r, In (RtSend s' m b' cfg r) evs ->
     fp_setting_ok (rc_at_ip cfg) (rc_at_fp cfg) /\ fp_setting_ok (rc_arf_ip cfg) (rc_arf_fp cfg) /\
     0 <= r <= 255) ->
  In (RoTx t u s b c T) (snd (rt_run (rt_init t0 nst) evs)) ->
  exists m cfg r, In (RtSend s m b cfg r) evs /\
    fp_lo (fp_Q (rc_at_ip cfg) (rc_at_fp cfg)) <= T <=
    fp_hi (fp_Q (rc_at_ip cfg) (rc_at_fp cfg)) (fp_Q (rc_arf_ip cfg) (rc_arf_fp cfg)) /\
    fp_ms (rc_at_ip cfg) (rc_at_fp cfg) - 8 <= T /\
    1000 * T <= (fp_ms (rc_at_ip cfg) (rc_at_fp cfg) + 8) * (fp_ms (rc_arf_ip cfg) (rc_arf_fp cfg) + 8) + 8313.
Proof. exact rt_tx_timeout_in_range. Qed.
Print Assumptions C06_tx_timeout_in_range.

(* ---------------------------------------------------------------- one outcome *)
(* For every event sequence - any number of messages and sessions, ACK / RST at any time,
   repeated, for unknown ids, any tick times - and every message u: its history is empty (never
   accepted), or transmissions of the same bytes only (then it is still queued and was sent
   retransmit_cnt + 1 <= max_retransmit + 1 times), or transmissions of the same bytes followed by
   exactly one outcome: removed by an ACK, or one NACK call with reason RST, or one with reason
   TOO_MANY_RETRIES after exactly max_retransmit retransmissions. *)
Theorem C06_one_outcome : forall t0 nst evs u,
  rt_nst_ok nst -> Forall rt_ev_ok evs ->
  let (st, tr) := rt_run (rt_init t0 nst) evs in
  rt_shape (rt_proj u tr) /\
  (* pending = queued or waiting for an NSTART slot (counter -1: not transmitted yet) *)
  (forall n, In n (rt_live st) -> qn_uid n = u ->
     rt_proj u tr = repeat (PTx (qn_bytes n)) (Z.to_nat (qn_cnt n + 1)) /\
     -1 <= qn_cnt n <= qn_max n) /\
  (~ In u (map qn_uid (rt_live st)) -> rt_proj u tr = [] \/ rt_closed (rt_proj u tr)).
Proof. exact rt_one_outcome. Qed.
Print Assumptions C06_one_outcome.

(* after its outcome a message never appears again, whatever happens later *)
Theorem C06_nothing_after_outcome : forall t0 nst e1 e2 u,
  rt_nst_ok nst -> Forall rt_ev_ok (e1 ++ e2) ->
  rt_closed (rt_proj u (snd (rt_run (rt_init t0 nst) e1))) ->
  rt_proj u (snd (rt_run (rt_init t0 nst) (e1 ++ e2))) = rt_proj u (snd (rt_run (rt_init t0 nst) e1)).
Proof. exact rt_nothing_after_outcome. Qed.
Print Assumptions C06_nothing_after_outcome.

(* an ACK / RST with another mid or from another session changes nothing for a message *)
Theorem C06_unknown_ack_rst : forall st s m,
  sq_remove (rs_q st) s m = None ->
  rt_step st (RtAck s m) = rt_fire_all st /\
  rt_step st (RtRst s m) =
    (fst (rt_fire_all st), RoNackNoPdu (rs_now st) s rt_NACK_RST m :: snd (rt_fire_all st)).
Proof. exact rt_unknown_ack_rst. Qed.
Print Assumptions C06_unknown_ack_rst.

Theorem C06_known_ack_rst : forall st s m t n q',
  sq_remove (rs_q st) s m = Some ((t, n), q') ->
  qn_sess n = s /\ qn_mid n = m /\
  (exists l1 l2 d, sq_abs (rs_base st) (rs_q st) = l1 ++ (d, n) :: l2 /\
                   sq_abs (rs_base st) q' = l1 ++ l2 /\
                   Forall (fun x => sq_match s m (snd x) = false) l1) /\
  (* the freed NSTART slot goes to a waiting message of that session (if any), then a prepare *)
  rt_step st (RtAck s m) =
    (let (st1, o1) := rt_free_slot (rt_set_q st q') s in
     let (st2, o2) := rt_fire_all st1 in
     (st2, RoAcked (rs_now st) (qn_uid n) :: o1 ++ o2)) /\
  rt_step st (RtRst s m) =
    (let (st1, o1) := rt_free_slot (rt_set_q st q') s in
     let (st2, o2) := rt_fire_all st1 in
     (st2, o1 ++ RoNack (rs_now st) (qn_uid n) (qn_sess n) rt_NACK_RST (qn_mid n) (qn_cnt n) (qn_max n) :: o2)).
Proof. exact rt_known_ack_rst. Qed.
Print Assumptions C06_known_ack_rst.

(* coap_session_disconnected (reason other than ICMP_ISSUE): exactly the messages of that session
   leave the queue, one NACK call each, in queue order; every message of every other session keeps
   its deadline and place (this is C06_queue_cancel at work); covered by C06_one_outcome too *)
Theorem C06_disconnect : forall st s reason,
  let (st', o) := rt_disconnect st s reason in
  sq_abs (rs_base st') (rs_q st') =
    filter (fun e => negb (rt_sess_match s (snd e))) (sq_abs (rs_base st) (rs_q st)) /\
  rs_now st' = rs_now st /\
  (* first the messages of the session that wait for a slot, then its queued ones *)
  let rm := si_hold (rt_sget s (rs_sess st)) ++ filter (rt_sess_match s) (rt_nodes (rs_q st)) in
  o = match rm with
      | [] => [RoNackNoPdu (rs_now st) s reason 0]
      | _ => map (rt_nack_of (rs_now st) reason) rm
      end /\
  si_hold (rt_sget s (rs_sess st')) = [] /\ si_active (rt_sget s (rs_sess st')) = 0.
Proof. exact rt_disconnect_spec. Qed.
Print Assumptions C06_disconnect.

(* as the function was before the repair, the first queued message of the session got two NACK
   calls (finding F06-3, fixed) *)
Theorem C06_disconnect_old_refuted : exists st s reason u,
  reason <> rt_NACK_TOO_MANY_RETRIES /\ reason <> rt_NACK_ICMP_ISSUE /\
  rt_proj u (snd (rt_disconnect_old st s reason)) = [PNack reason 0 4; PNack reason 0 4].
Proof. exact rt_disconnect_old_double_nack. Qed.
Print Assumptions C06_disconnect_old_refuted.

(* coap_delete_node on a node that is still linked into the queue (inside the library: the delayed
   multicast response that has just been sent): only that node leaves, all other messages keep
   deadline and place (finding F06-5, fixed in /repo 99e3a61: LL_DELETE alone lost the node's time) *)
Theorem C06_delete_linked_node : forall st s m,
  (forall t n q', sq_remove (rs_q st) s m = Some ((t, n), q') ->
     rt_delete st s m = (rt_set_q st q', [RoAcked (rs_now st) (qn_uid n)]) /\
     exists l1 l2 d, sq_abs (rs_base st) (rs_q st) = l1 ++ (d, n) :: l2 /\
                     sq_abs (rs_base st) q' = l1 ++ l2) /\
  (sq_remove (rs_q st) s m = None -> rt_delete st s m = (st, [])).
Proof. exact rt_delete_spec. Qed.
Print Assumptions C06_delete_linked_node.

(* ---------------------------------------------------------------- the reported wait *)
(* In every reachable state a prepare call fires everything that is due (its loop bound is never
   hit) and reports 0 iff nothing is pending, else the distance to the earliest pending deadline,
   cut to 32 bits - never more than that distance. *)
Theorem C06_wait_sound : forall t0 nst evs,
  rt_nst_ok nst -> Forall rt_ev_ok evs ->
  let st := fst (rt_run (rt_init t0 nst) evs) in
  let (st', o) := rt_tick st in
  exists o' w hd, o = o' ++ [RoWait (rs_now st) w hd] /\ ~ In RoFuel o' /\
                  rs_now st' = rs_now st /\ rt_wait_ok st' w hd.
Proof. exact rt_wait_sound. Qed.
Print Assumptions C06_wait_sound.

(* a Confirmable accepted at the start of a prepare call (an Observe notification generated by
   coap_check_notify inside coap_io_prepare_io) is covered by the wait that very call reports *)
Theorem C06_wait_after_accept : forall st s m b cfg r,
  rt_tinv st -> 1 <= rc_max cfg <= 255 ->
  let st1 := fst (rt_send st s m b cfg r) in
  let (st', o) := rt_tick st1 in
  exists o' w hd, o = o' ++ [RoWait (rs_now st1) w hd] /\ ~ In RoFuel o' /\
                  rs_now st' = rs_now st1 /\ rt_wait_ok st' w hd.
Proof. exact rt_wait_after_accept. Qed.
Print Assumptions C06_wait_after_accept.

(* coap_io_process (the library's own loop, epoll build, no datagram arriving): fires what is
   due, sleeps never longer than the reported wait - hence never past the earliest pending
   deadline - and "for ever" only when nothing is pending and the caller allowed it; afterwards
   again nothing due is left; returns the time it slept *)
Theorem C06_io_process_sound : forall st tmo,
  rt_tinv st -> 0 <= tmo < 4294967296 ->
  let (st', o) := rt_io_process st tmo in
  exists st1 o1 w hd o3,
    rt_fire_all st = (st1, o1) /\ rt_wait st1 = (w, hd) /\ rt_wait_ok st1 w hd /\
    let et := rt_epoll_timeout w tmo in
    o = o1 ++ RoEpoll (rs_now st) et :: o3 ++ [RoIoRet (rs_now st') (rs_now st' - rs_now st)] /\
    ~ In RoFuel o /\ rt_due st' = false /\ rt_tinv st' /\
    rs_now st' = rs_now st + (if 0 <? et then et else 0) /\
    (et = -1 -> w = 0 /\ tmo = rt_IO_WAIT) /\ (0 < w < 2147483648 -> 0 <= et <= w).
Proof. exact rt_io_process_sound. Qed.
Print Assumptions C06_io_process_sound.

Theorem C06_loop_bound : forall evs st, Forall rt_ev_ok evs -> rt_tinv st ->
  rt_tinv (fst (rt_run st evs)) /\ ~ In RoFuel (snd (rt_run st evs)).
Proof. exact rt_run_tinv. Qed.
Print Assumptions C06_loop_bound.

(* Sessions/Client.v - lifetime of client sessions (C12): created with one reference that belongs
   to the application, released objects as soon as the count reaches 0
   (coap_session_release_lkd: "if (session->ref == 0 && session->type == CLIENT)
   coap_session_free(session)"), no idle state, no events.
   coap_free_context_lkd first deletes the send queue (every queue node drops its reference,
   which may already release a session the application has let go) and then releases every
   session still in context->sessions once.
   Definitions only; proofs in Sessions/ClientProofs.v. *)
From LibcoapV Require Import Base.Tactics Sessions.Sessions.
Local Open Scope Z_scope.

Record sec_sess := mkCSess {
  cs_id : Z;
  cs_ref : Z;
  cs_holders : list Z      (* se_h_app / se_h_lib *)
}.

Inductive sec_ev := CNew (sid : Z) | CFree (sid : Z).

Record sec_st := mkCSt {
  ct_tbl : list sec_sess;     (* context->sessions *)
  ct_next : Z;
  ct_log : list sec_ev;       (* chronological *)
  ct_alive : bool;
  ct_left : list sec_sess     (* not released by coap_free_context *)
}.

Inductive sec_op :=
| COpNew                     (* coap_new_client_session *)
| COpAdd (sid h : Z)
| COpRem (sid h : Z)
| COpFreeContext.

Definition sec_init : sec_st := mkCSt [] 1 [] true [].

Fixpoint sec_get (sid : Z) (tbl : list sec_sess) : option sec_sess :=
  match tbl with
  | [] => None
  | s :: r => if cs_id s =? sid then Some s else sec_get sid r
  end.

Fixpoint sec_upd (sid : Z) (f : sec_sess -> sec_sess) (tbl : list sec_sess) : list sec_sess :=
  match tbl with
  | [] => []
  | s :: r => if cs_id s =? sid then f s :: r else s :: sec_upd sid f r
  end.

Fixpoint sec_del (sid : Z) (tbl : list sec_sess) : list sec_sess :=
  match tbl with
  | [] => []
  | s :: r => if cs_id s =? sid then r else s :: sec_del sid r
  end.

Definition sec_add_holder (h : Z) (s : sec_sess) : sec_sess :=
  mkCSess (cs_id s) (cs_ref s + 1) (h :: cs_holders s).

Definition sec_rem_holder (h : Z) (s : sec_sess) : sec_sess :=
  mkCSess (cs_id s) (if 0 <? cs_ref s then cs_ref s - 1 else cs_ref s)
          (se_remove1 h (cs_holders s)).

(* release: decrement; at 0 the object is released on the spot *)
Definition sec_release (st : sec_st) (sid h : Z) : sec_st :=
  match sec_get sid (ct_tbl st) with
  | None => st
  | Some s =>
      let s' := sec_rem_holder h s in
      if cs_ref s' =? 0
      then mkCSt (sec_del sid (ct_tbl st)) (ct_next st) (ct_log st ++ [CFree sid])
                 (ct_alive st) (ct_left st)
      else mkCSt (sec_upd sid (sec_rem_holder h) (ct_tbl st)) (ct_next st) (ct_log st)
                 (ct_alive st) (ct_left st)
  end.

(* teardown of one session: the queue nodes go first; if that does not release it, the context
   drops one (application) reference *)
Definition sec_keep_app (s : sec_sess) : list Z := filter (fun h => h =? se_h_app) (cs_holders s).

Fixpoint sec_teardown (tbl : list sec_sess) : list sec_sess * list sec_ev :=
  match tbl with
  | [] => ([], [])
  | s :: r =>
      let (k, ev) := sec_teardown r in
      let keep := sec_keep_app s in
      let ref1 := cs_ref s - (Z.of_nat (length (cs_holders s)) - Z.of_nat (length keep)) in
      if ref1 <=? 1 then (k, CFree (cs_id s) :: ev)
      else (mkCSess (cs_id s) (ref1 - 1) (se_remove1 se_h_app keep) :: k, ev)
  end.

Definition sec_step (st : sec_st) (op : sec_op) : sec_st :=
  match op with
  | COpNew =>
      mkCSt (ct_tbl st ++ [mkCSess (ct_next st) 1 [se_h_app]]) (ct_next st + 1)
            (ct_log st ++ [CNew (ct_next st)]) (ct_alive st) (ct_left st)
  | COpAdd sid h =>
      mkCSt (sec_upd sid (sec_add_holder h) (ct_tbl st)) (ct_next st) (ct_log st)
            (ct_alive st) (ct_left st)
  | COpRem sid h => sec_release st sid h
  | COpFreeContext =>
      let (k, ev) := sec_teardown (ct_tbl st) in
      mkCSt [] (ct_next st) (ct_log st ++ ev) false (ct_left st ++ k)
  end.

Definition sec_op_ok (st : sec_st) (op : sec_op) : bool :=
  ct_alive st &&
  match op with
  | COpNew => true
  | COpAdd sid _ => match sec_get sid (ct_tbl st) with Some _ => true | None => false end
  | COpRem sid h => match sec_get sid (ct_tbl st) with
                    | Some s => se_has h (cs_holders s)
                    | None => false
                    end
  | COpFreeContext => true
  end.

Fixpoint sec_run (st : sec_st) (ops : list sec_op) : option sec_st :=
  match ops with
  | [] => Some st
  | op :: r => if sec_op_ok st op then sec_run (sec_step st op) r else None
  end.

(* events of one step *)
Definition sec_new_events (st : sec_st) (op : sec_op) : list sec_ev :=
  match op with
  | COpNew => [CNew (ct_next st)]
  | COpAdd _ _ => []
  | COpRem sid h =>
      match sec_get sid (ct_tbl st) with
      | Some s => if cs_ref (sec_rem_holder h s) =? 0 then [CFree sid] else []
      | None => []
      end
  | COpFreeContext => snd (sec_teardown (ct_tbl st))
  end.

(* Sessions/Sessions.v - model of the server-session table of one datagram endpoint (C12).

   Mirrors, for a UDP endpoint (every session has type COAP_SESSION_TYPE_SERVER):
     coap_endpoint_get_session   src/coap_session.c  (lookup on the address hash key, idle
                                 accounting, eviction of the oldest idle session when
                                 max_idle_sessions is reached, creation + SERVER_SESSION_NEW)
     coap_session_reference_lkd / coap_session_release_lkd / coap_session_free
     the idle scan of coap_io_prepare_io_lkd   src/coap_io.c
     coap_free_context_lkd -> coap_free_endpoint_lkd   src/coap_net.c, src/coap_session.c
   A peer is a key (remote address+port, local port, protocol - what coap_make_addr_hash puts
   into coap_addr_hash_t) abstracted to a number; time is in ticks (1000 per second).
   The table is kept in insertion order: that is the iteration order of the uthash table
   (HASH_ADD appends to the application-order list, HASH_DELETE keeps the order of the rest).

   Definitions only (always compiles); proofs in Sessions/SessionsProofs.v. *)
From LibcoapV Require Import Base.Tactics.
Local Open Scope Z_scope.

(* who holds a reference *)
Definition se_h_app : Z := 1.   (* the application: coap_session_reference() *)
Definition se_h_lib : Z := 2.   (* the library: queue node (coap_wait_ack), observer
                                   (coap_add_observer), async entry (coap_register_async),
                                   temporary reference of an I/O loop *)

Definition se_state_none : Z := 0.          (* COAP_SESSION_STATE_NONE *)
Definition se_state_established : Z := 4.   (* COAP_SESSION_STATE_ESTABLISHED *)
Definition se_state_csm : Z := 3.           (* COAP_SESSION_STATE_CSM *)

Record se_sess := mkSess {
  ss_id : Z;               (* identity (serial number of creation) *)
  ss_key : Z;              (* the peer *)
  ss_ref : Z;              (* session->ref *)
  ss_holders : list Z;     (* who holds the references (specification state) *)
  ss_last : Z;             (* session->last_rx_tx *)
  ss_state : Z;            (* session->state *)
  ss_dq : bool             (* session->delayqueue == NULL *)
}.

Inductive se_ev :=
| SeNew (sid key : Z)      (* COAP_EVENT_SERVER_SESSION_NEW *)
| SeDel (sid : Z)          (* COAP_EVENT_SERVER_SESSION_DEL *)
| SeFree (sid : Z)         (* coap_session_free: the object is released *)
| SeRx (key sid : Z).      (* a datagram from [key] is handed to session [sid] *)

Record se_st := mkSt {
  st_tbl : list se_sess;     (* endpoint->sessions, iteration order *)
  st_next : Z;               (* next identity *)
  st_log : list se_ev;       (* chronological *)
  st_alive : bool;           (* context not yet freed *)
  st_leaked : list se_sess   (* sessions left behind by coap_free_context *)
}.

Record se_cfg := mkCfg {
  cf_timeout : Z;            (* context->session_timeout, seconds; 0 = default *)
  cf_max_idle : Z            (* context->max_idle_sessions; 0 = no limit *)
}.

Inductive se_op :=
| OpRx (key now : Z)         (* coap_endpoint_get_session for a datagram from key *)
| OpRxV (key now victim : Z) (* the same for a new peer, the session evicted because of the idle
                                limit being named: when several idle sessions are equally old
                                the property does not say which of them goes *)
| OpAccept (key now : Z)     (* coap_new_server_session: a stream connection is accepted; key
                                names the connection *)
| OpAdd (sid h : Z)          (* holder h takes a reference on sid *)
| OpRem (sid h : Z)          (* holder h releases its reference *)
| OpDq (sid : Z) (empty : bool)   (* the delay queue of sid becomes empty / non-empty *)
| OpTouch (sid now : Z)      (* a datagram was sent on sid: last_rx_tx := now *)
| OpState (sid state : Z)    (* session->state changes (disconnect of a non-UDP session) *)
| OpPrepare (now : Z)        (* idle scan of coap_io_prepare_io_lkd *)
| OpFreeContext.             (* coap_free_context *)

Definition se_init : se_st := mkSt [] 1 [] true [].

Definition se_default_timeout : Z := 300.    (* COAP_DEFAULT_SESSION_TIMEOUT *)
Definition se_ticks_per_second : Z := 1000.  (* COAP_TICKS_PER_SECOND *)

Definition se_timeout_ticks (c : se_cfg) : Z :=
  (if 0 <? cf_timeout c then cf_timeout c else se_default_timeout) * se_ticks_per_second.

(* ------------------------------------------------------------------ table helpers *)
Fixpoint se_find (key : Z) (tbl : list se_sess) : option se_sess :=
  match tbl with
  | [] => None
  | s :: r => if ss_key s =? key then Some s else se_find key r
  end.

Fixpoint se_get (sid : Z) (tbl : list se_sess) : option se_sess :=
  match tbl with
  | [] => None
  | s :: r => if ss_id s =? sid then Some s else se_get sid r
  end.

Fixpoint se_upd (sid : Z) (f : se_sess -> se_sess) (tbl : list se_sess) : list se_sess :=
  match tbl with
  | [] => []
  | s :: r => if ss_id s =? sid then f s :: r else s :: se_upd sid f r
  end.

Fixpoint se_del (sid : Z) (tbl : list se_sess) : list se_sess :=
  match tbl with
  | [] => []
  | s :: r => if ss_id s =? sid then r else s :: se_del sid r
  end.

Fixpoint se_remove1 (h : Z) (l : list Z) : list Z :=
  match l with
  | [] => []
  | x :: r => if x =? h then r else x :: se_remove1 h r
  end.

Fixpoint se_has (h : Z) (l : list Z) : bool :=
  match l with
  | [] => false
  | x :: r => if x =? h then true else se_has h r
  end.

Definition se_set_last (now : Z) (s : se_sess) : se_sess :=
  mkSess (ss_id s) (ss_key s) (ss_ref s) (ss_holders s) now (ss_state s) (ss_dq s).
Definition se_set_dq (b : bool) (s : se_sess) : se_sess :=
  mkSess (ss_id s) (ss_key s) (ss_ref s) (ss_holders s) (ss_last s) (ss_state s) b.
Definition se_set_state (x : Z) (s : se_sess) : se_sess :=
  mkSess (ss_id s) (ss_key s) (ss_ref s) (ss_holders s) (ss_last s) x (ss_dq s).
Definition se_add_holder (h : Z) (s : se_sess) : se_sess :=
  mkSess (ss_id s) (ss_key s) (ss_ref s + 1) (h :: ss_holders s) (ss_last s) (ss_state s) (ss_dq s).
(* coap_session_release_lkd: if (ref > 0) --ref *)
Definition se_rem_holder (h : Z) (s : se_sess) : se_sess :=
  mkSess (ss_id s) (ss_key s) (if 0 <? ss_ref s then ss_ref s - 1 else ss_ref s)
         (se_remove1 h (ss_holders s)) (ss_last s) (ss_state s) (ss_dq s).

(* ------------------------------------------------------------------ coap_endpoint_get_session *)
(* "session->ref == 0 && session->delayqueue == NULL" (type is SERVER throughout) *)
Definition se_idle (s : se_sess) : bool := (ss_ref s =? 0) && ss_dq s.

Fixpoint se_count_idle (tbl : list se_sess) : Z :=
  match tbl with
  | [] => 0
  | s :: r => (if se_idle s then 1 else 0) + se_count_idle r
  end.

(* "if (oldest==NULL || session->last_rx_tx < oldest->last_rx_tx) oldest = session":
   the first idle session in iteration order with the smallest last_rx_tx *)
Fixpoint se_oldest_from (cur : option se_sess) (tbl : list se_sess) : option se_sess :=
  match tbl with
  | [] => cur
  | s :: r =>
      if se_idle s then
        match cur with
        | None => se_oldest_from (Some s) r
        | Some o => if ss_last s <? ss_last o then se_oldest_from (Some s) r
                    else se_oldest_from cur r
        end
      else se_oldest_from cur r
  end.
Definition se_oldest (tbl : list se_sess) : option se_sess := se_oldest_from None tbl.

Definition se_new_sess (sid key now : Z) : se_sess :=
  mkSess sid key 0 [] now se_state_established true.

(* the session the code evicts: "max_idle_sessions > 0 && num_idle >= max_idle_sessions" -> oldest *)
Definition se_rx_evict (c : se_cfg) (tbl : list se_sess) : option se_sess :=
  if (0 <? cf_max_idle c) && (cf_max_idle c <=? se_count_idle tbl) then se_oldest tbl else None.

(* a new peer arrives and [evict] is pushed out *)
Definition se_rx_new (st : se_st) (key now : Z) (evict : option se_sess) : se_st :=
  let tbl1 := match evict with Some o => se_del (ss_id o) (st_tbl st) | None => st_tbl st end in
  let ev1 := match evict with Some o => [SeDel (ss_id o); SeFree (ss_id o)] | None => [] end in
  let sid := st_next st in
  mkSt (tbl1 ++ [se_new_sess sid key now]) (sid + 1)
       (st_log st ++ ev1 ++ [SeNew sid key; SeRx key sid]) (st_alive st) (st_leaked st).

Definition se_rx_hit (st : se_st) (s : se_sess) (key now : Z) : se_st :=
  mkSt (se_upd (ss_id s) (se_set_last now) (st_tbl st)) (st_next st)
       (st_log st ++ [SeRx key (ss_id s)]) (st_alive st) (st_leaked st).

Definition se_rx (c : se_cfg) (st : se_st) (key now : Z) : se_st :=
  match se_find key (st_tbl st) with
  | Some s => se_rx_hit st s key now
  | None => se_rx_new st key now (se_rx_evict c (st_tbl st))
  end.

(* coap_accept_endpoint -> coap_new_server_session: no lookup, no eviction; the session starts
   with ref 0 and waits for the peer's CSM *)
Definition se_accept (st : se_st) (key now : Z) : se_st :=
  let sid := st_next st in
  mkSt (st_tbl st ++ [mkSess sid key 0 [] now se_state_csm true]) (sid + 1)
       (st_log st ++ [SeNew sid key]) (st_alive st) (st_leaked st).

(* what the property allows as the victim: the limit is reached, the session is idle and no
   idle session is older *)
Definition se_valid_victim (c : se_cfg) (tbl : list se_sess) (o : se_sess) : bool :=
  (0 <? cf_max_idle c) && (cf_max_idle c <=? se_count_idle tbl) && se_idle o &&
  forallb (fun s => negb (se_idle s) || (ss_last o <=? ss_last s)) tbl.

Definition se_rx_victim (c : se_cfg) (st : se_st) (key now victim : Z) : se_st :=
  match se_find key (st_tbl st) with
  | Some s => se_rx_hit st s key now
  | None => se_rx_new st key now (se_get victim (st_tbl st))
  end.

(* ------------------------------------------------------------------ coap_io_prepare_io_lkd *)
(* "s->ref == 0 && s->delayqueue == NULL &&
    (s->last_rx_tx + session_timeout <= now || s->state == COAP_SESSION_STATE_NONE)" *)
Definition se_expired (c : se_cfg) (now : Z) (s : se_sess) : bool :=
  se_idle s && ((ss_last s + se_timeout_ticks c <=? now) || (ss_state s =? se_state_none)).

Fixpoint se_scan (c : se_cfg) (now : Z) (tbl : list se_sess) : list se_sess * list se_ev :=
  match tbl with
  | [] => ([], [])
  | s :: r =>
      let (k, ev) := se_scan c now r in
      if se_expired c now s then (k, SeDel (ss_id s) :: SeFree (ss_id s) :: ev)
      else (s :: k, ev)
  end.

Definition se_prepare (c : se_cfg) (st : se_st) (now : Z) : se_st :=
  let (k, ev) := se_scan c now (st_tbl st) in
  mkSt k (st_next st) (st_log st ++ ev) (st_alive st) (st_leaked st).

(* ------------------------------------------------------------------ coap_free_context_lkd *)
(* coap_delete_all_resources (observers), coap_delete_all(sendqueue), coap_delete_all_async
   run first and drop every reference the library holds; what is left belongs to the
   application *)
Definition se_drop_lib (s : se_sess) : se_sess :=
  let keep := filter (fun h => h =? se_h_app) (ss_holders s) in
  mkSess (ss_id s) (ss_key s)
         (ss_ref s - (Z.of_nat (length (ss_holders s)) - Z.of_nat (length keep)))
         keep (ss_last s) (ss_state s) (ss_dq s).

(* coap_free_endpoint_lkd: "if (session->ref == 0) { SERVER_SESSION_DEL; coap_session_free }" *)
Fixpoint se_teardown (tbl : list se_sess) : list se_sess * list se_ev :=
  match tbl with
  | [] => ([], [])
  | s :: r =>
      let (k, ev) := se_teardown r in
      if ss_ref s =? 0 then (k, SeDel (ss_id s) :: SeFree (ss_id s) :: ev)
      else (s :: k, ev)
  end.

Definition se_free_context (st : se_st) : se_st :=
  let (k, ev) := se_teardown (map se_drop_lib (st_tbl st)) in
  mkSt [] (st_next st) (st_log st ++ ev) false (st_leaked st ++ k).

(* ------------------------------------------------------------------ one operation *)
Definition se_step (c : se_cfg) (st : se_st) (op : se_op) : se_st :=
  match op with
  | OpRx key now => se_rx c st key now
  | OpRxV key now v => se_rx_victim c st key now v
  | OpAccept key now => se_accept st key now
  | OpAdd sid h => mkSt (se_upd sid (se_add_holder h) (st_tbl st)) (st_next st) (st_log st)
                        (st_alive st) (st_leaked st)
  | OpRem sid h => mkSt (se_upd sid (se_rem_holder h) (st_tbl st)) (st_next st) (st_log st)
                        (st_alive st) (st_leaked st)
  | OpDq sid b => mkSt (se_upd sid (se_set_dq b) (st_tbl st)) (st_next st) (st_log st)
                       (st_alive st) (st_leaked st)
  | OpTouch sid now => mkSt (se_upd sid (se_set_last now) (st_tbl st)) (st_next st) (st_log st)
                            (st_alive st) (st_leaked st)
  | OpState sid x => mkSt (se_upd sid (se_set_state x) (st_tbl st)) (st_next st) (st_log st)
                          (st_alive st) (st_leaked st)
  | OpPrepare now => se_prepare c st now
  | OpFreeContext => se_free_context st
  end.

(* Preconditions of the API (what a caller may do): the context is alive; a session that is
   named is in the table (using a released session is exactly what the property forbids the
   library to force on its callers); a holder only releases a reference it holds. *)
Definition se_live (sid : Z) (st : se_st) : bool :=
  match se_get sid (st_tbl st) with Some _ => true | None => false end.

Definition se_op_ok (c : se_cfg) (st : se_st) (op : se_op) : bool :=
  st_alive st &&
  match op with
  | OpRx _ _ => true
  | OpRxV key _ v =>
      match se_find key (st_tbl st), se_get v (st_tbl st) with
      | None, Some o => se_valid_victim c (st_tbl st) o
      | _, _ => false
      end
  | OpAccept key _ => match se_find key (st_tbl st) with None => true | Some _ => false end
  | OpAdd sid _ => se_live sid st
  | OpRem sid h => match se_get sid (st_tbl st) with
                   | Some s => se_has h (ss_holders s)
                   | None => false
                   end
  | OpDq sid _ => se_live sid st
  | OpTouch sid _ => se_live sid st
  | OpState sid _ => se_live sid st
  | OpPrepare _ => true
  | OpFreeContext => true
  end.

(* run a history; None when a precondition is violated *)
Fixpoint se_run (c : se_cfg) (st : se_st) (ops : list se_op) : option se_st :=
  match ops with
  | [] => Some st
  | op :: r => if se_op_ok c st op then se_run c (se_step c st op) r else None
  end.

(* ------------------------------------------------------------------ event-log monitor
   Executable acceptor for the event log of an endpoint (run on the model's log in the proofs
   and on the log observed at the implementation in the check). *)
Record se_mon := mkMon {
  mo_live : list (Z * Z);     (* (sid, key) of the sessions that exist *)
  mo_max : Z;                 (* largest identity seen *)
  mo_pending : option Z       (* a SESSION_DEL event whose free must follow immediately *)
}.

Fixpoint se_mon_has_sid (sid : Z) (l : list (Z * Z)) : bool :=
  match l with
  | [] => false
  | (s, _) :: r => if s =? sid then true else se_mon_has_sid sid r
  end.
Fixpoint se_mon_has_key (key : Z) (l : list (Z * Z)) : bool :=
  match l with
  | [] => false
  | (_, k) :: r => if k =? key then true else se_mon_has_key key r
  end.
Fixpoint se_mon_has (sid key : Z) (l : list (Z * Z)) : bool :=
  match l with
  | [] => false
  | (s, k) :: r => if (s =? sid) && (k =? key) then true else se_mon_has sid key r
  end.
Fixpoint se_mon_del (sid : Z) (l : list (Z * Z)) : list (Z * Z) :=
  match l with
  | [] => []
  | (s, k) :: r => if s =? sid then r else (s, k) :: se_mon_del sid r
  end.

Definition se_mon_step (m : se_mon) (e : se_ev) : option se_mon :=
  match mo_pending m with
  | Some p =>
      match e with
      | SeFree s => if s =? p then Some (mkMon (mo_live m) (mo_max m) None) else None
      | _ => None
      end
  | None =>
      match e with
      | SeNew s k =>
          if (mo_max m <? s) && negb (se_mon_has_key k (mo_live m))
          then Some (mkMon ((s, k) :: mo_live m) s None) else None
      | SeDel s =>
          if se_mon_has_sid s (mo_live m)
          then Some (mkMon (se_mon_del s (mo_live m)) (mo_max m) (Some s)) else None
      | SeFree _ => None
      | SeRx k s => if se_mon_has s k (mo_live m) then Some m else None
      end
  end.

Fixpoint se_mon_run (m : se_mon) (log : list se_ev) : option se_mon :=
  match log with
  | [] => Some m
  | e :: r => match se_mon_step m e with Some m' => se_mon_run m' r | None => None end
  end.

Definition se_mon_init : se_mon := mkMon [] 0 None.

(* the log is acceptable so far *)
Definition se_log_ok (log : list se_ev) : bool :=
  match se_mon_run se_mon_init log with
  | Some m => match mo_pending m with None => true | Some _ => false end
  | None => false
  end.

(* ... and nothing is left (after coap_free_context with no application reference) *)
Definition se_log_closed (log : list se_ev) : bool :=
  match se_mon_run se_mon_init log with
  | Some m => match mo_pending m, mo_live m with None, [] => true | _, _ => false end
  | None => false
  end.

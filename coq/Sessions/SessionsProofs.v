(* Sessions/SessionsProofs.v - invariants of the session-table model and what they imply. *)
From LibcoapV Require Import Base.Tactics Sessions.Sessions.
Local Open Scope Z_scope.

Definition se_pair (s : se_sess) : Z * Z := (ss_id s, ss_key s).

(* split conjunctions only (never introduces hypotheses) *)
Ltac splits := repeat match goal with |- _ /\ _ => split end.

(* ------------------------------------------------------------------ table lemmas *)
Lemma se_get_In : forall sid tbl s, se_get sid tbl = Some s -> In s tbl /\ ss_id s = sid.
Proof.
  induction tbl as [|x r IH]; cbn [se_get]; intros s H; [discriminate|].
  destruct (Z.eqb_spec (ss_id x) sid).
  - inversion H; subst. split; [left; reflexivity | reflexivity].
  - destruct (IH s H). split; [right|]; auto.
Qed.

Lemma se_get_none : forall sid tbl, se_get sid tbl = None -> forall s, In s tbl -> ss_id s <> sid.
Proof.
  induction tbl as [|x r IH]; cbn [se_get In]; intros H s Hin; [tauto|].
  destruct (Z.eqb_spec (ss_id x) sid); [discriminate|].
  destruct Hin as [E|Hin]; [subst; auto | apply IH; auto].
Qed.

Lemma se_get_some_of_In : forall sid tbl s, In s tbl -> ss_id s = sid -> exists s', se_get sid tbl = Some s'.
Proof.
  intros sid tbl s Hin E. destruct (se_get sid tbl) eqn:G; [eauto|].
  exfalso. eapply se_get_none; eauto.
Qed.

Lemma se_find_In : forall key tbl s, se_find key tbl = Some s -> In s tbl /\ ss_key s = key.
Proof.
  induction tbl as [|x r IH]; cbn [se_find]; intros s H; [discriminate|].
  destruct (Z.eqb_spec (ss_key x) key).
  - inversion H; subst. split; [left; reflexivity | reflexivity].
  - destruct (IH s H). split; [right|]; auto.
Qed.

Lemma se_find_none : forall key tbl, se_find key tbl = None -> forall s, In s tbl -> ss_key s <> key.
Proof.
  induction tbl as [|x r IH]; cbn [se_find In]; intros H s Hin; [tauto|].
  destruct (Z.eqb_spec (ss_key x) key); [discriminate|].
  destruct Hin as [E|Hin]; [subst; auto | apply IH; auto].
Qed.

Lemma se_upd_map : forall (A : Type) (g : se_sess -> A) sid f tbl,
  (forall s, g (f s) = g s) -> map g (se_upd sid f tbl) = map g tbl.
Proof.
  intros A g sid f tbl Hg. induction tbl as [|x r IH]; cbn [se_upd map]; [reflexivity|].
  destruct (ss_id x =? sid); cbn [map]; [rewrite Hg | rewrite IH]; reflexivity.
Qed.

Lemma se_upd_forall : forall (P : se_sess -> Prop) sid f tbl,
  Forall P tbl ->
  (forall s, se_get sid tbl = Some s -> P s -> P (f s)) ->
  Forall P (se_upd sid f tbl).
Proof.
  intros P sid f tbl. induction tbl as [|x r IH]; cbn [se_upd se_get]; intros HF Hf; [constructor|].
  inversion HF; subst.
  destruct (Z.eqb_spec (ss_id x) sid).
  - constructor; auto.
  - constructor; auto.
Qed.

Lemma se_upd_In : forall sid f tbl s, In s (se_upd sid f tbl) ->
  In s tbl \/ exists s0, se_get sid tbl = Some s0 /\ s = f s0.
Proof.
  induction tbl as [|x r IH]; cbn [se_upd se_get In]; intros s H; [tauto|].
  destruct (Z.eqb_spec (ss_id x) sid); cbn [In] in H.
  - destruct H as [E|H]; [right; eauto | left; auto].
  - destruct H as [E|H]; [left; auto|]. destruct (IH s H) as [H1|H1]; [left; auto | right; auto].
Qed.

Lemma se_del_In : forall sid tbl s, In s (se_del sid tbl) -> In s tbl.
Proof.
  induction tbl as [|x r IH]; cbn [se_del In]; intros s H; [tauto|].
  destruct (ss_id x =? sid); cbn [In] in *; intuition.
Qed.

Lemma se_del_sub : forall (A : Type) (g : se_sess -> A) sid tbl,
  NoDup (map g tbl) -> NoDup (map g (se_del sid tbl)).
Proof.
  intros A g sid tbl. induction tbl as [|x r IH]; cbn [se_del map]; intros H; auto.
  inversion H; subst. destruct (ss_id x =? sid); auto.
  cbn [map]. constructor; auto.
  intro Hin. apply H2. rewrite in_map_iff in *. destruct Hin as (y & E & Hy).
  exists y. split; auto. eapply se_del_In; eauto.
Qed.

Lemma se_del_notin : forall sid tbl, NoDup (map ss_id tbl) ->
  forall s, In s (se_del sid tbl) -> ss_id s <> sid.
Proof.
  induction tbl as [|x r IH]; cbn [se_del map]; intros ND s H; [inversion H|].
  inversion ND; subst. destruct (Z.eqb_spec (ss_id x) sid).
  - intro E. apply H2. rewrite in_map_iff. exists s. split; [congruence | auto].
  - cbn [In] in H. destruct H as [E|H]; [subst; auto | apply IH; auto].
Qed.

Lemma se_del_other : forall sid tbl s, In s tbl -> ss_id s <> sid -> In s (se_del sid tbl).
Proof.
  induction tbl as [|x r IH]; cbn [se_del In]; intros s H Hne; [tauto|].
  destruct (Z.eqb_spec (ss_id x) sid); destruct H as [E|H]; subst; cbn [In]; auto; congruence.
Qed.

Lemma se_has_In : forall h l, se_has h l = true <-> In h l.
Proof.
  induction l as [|x r IH]; cbn [se_has In]; [split; [discriminate|tauto]|].
  destruct (Z.eqb_spec x h); [split; auto|].
  rewrite IH. split; [auto | intros [E|E]; [congruence|auto]].
Qed.

Lemma se_remove1_length : forall h l, se_has h l = true ->
  Z.of_nat (length (se_remove1 h l)) = Z.of_nat (length l) - 1.
Proof.
  induction l as [|x r IH]; cbn [se_has se_remove1 length]; intros H; [discriminate|].
  destruct (Z.eqb_spec x h); [lia|]. cbn [length]. rewrite Nat2Z.inj_succ, IH; auto. lia.
Qed.

Lemma se_remove1_In : forall h x l, In x (se_remove1 h l) -> In x l.
Proof.
  induction l as [|y r IH]; cbn [se_remove1 In]; [tauto|].
  destruct (y =? h); cbn [In]; intuition.
Qed.

(* ------------------------------------------------------------------ oldest idle *)
Lemma se_oldest_from_spec : forall tbl cur o,
  se_oldest_from cur tbl = Some o ->
  (match cur with Some c => se_idle c = true | None => True end) ->
  se_idle o = true /\
  (In o tbl \/ cur = Some o) /\
  (forall s, In s tbl -> se_idle s = true -> ss_last o <= ss_last s) /\
  (match cur with Some c => ss_last o <= ss_last c | None => True end).
Proof.
  induction tbl as [|x r IH]; cbn [se_oldest_from]; intros cur o H Hc.
  - subst cur. repeat split; auto; [intros s []| lia].
  - destruct (se_idle x) eqn:Ix.
    + destruct cur as [c|].
      * destruct (Z.ltb_spec (ss_last x) (ss_last c)).
        -- destruct (IH (Some x) o H Ix) as (A & B & C & D). repeat split; auto.
           ++ destruct B as [B|B]; [left; right; auto | inversion B; subst; left; left; auto].
           ++ intros s [E|Hs] Is; [subst; auto | apply C; auto].
           ++ lia.
        -- destruct (IH (Some c) o H Hc) as (A & B & C & D). repeat split; auto.
           ++ destruct B as [B|B]; [left; right; auto | right; auto].
           ++ intros s [E|Hs] Is; [subst; lia | apply C; auto].
      * destruct (IH (Some x) o H Ix) as (A & B & C & D). repeat split; auto.
        -- destruct B as [B|B]; [left; right; auto | inversion B; subst; left; left; auto].
        -- intros s [E|Hs] Is; [subst; auto | apply C; auto].
    + destruct (IH cur o H Hc) as (A & B & C & D). repeat split; auto.
      * destruct B as [B|B]; [left; right; auto | right; auto].
      * intros s [E|Hs] Is; [subst; congruence | apply C; auto].
Qed.

Lemma se_oldest_spec : forall tbl o, se_oldest tbl = Some o ->
  In o tbl /\ se_idle o = true /\ (forall s, In s tbl -> se_idle s = true -> ss_last o <= ss_last s).
Proof.
  intros tbl o H. destruct (se_oldest_from_spec tbl None o H I) as (A & B & C & _).
  destruct B as [B|B]; [|discriminate]. auto.
Qed.

Lemma se_oldest_from_some : forall tbl cur, cur <> None -> se_oldest_from cur tbl <> None.
Proof.
  induction tbl as [|x r IH]; cbn [se_oldest_from]; intros cur Hc; auto.
  destruct (se_idle x); [|auto]. destruct cur as [c|]; [|apply IH; discriminate].
  destruct (ss_last x <? ss_last c); apply IH; discriminate.
Qed.

Lemma se_oldest_exists : forall tbl, 0 < se_count_idle tbl -> exists o, se_oldest tbl = Some o.
Proof.
  unfold se_oldest. induction tbl as [|x r IH]; cbn [se_count_idle se_oldest_from]; intros H; [lia|].
  destruct (se_idle x).
  - destruct (se_oldest_from (Some x) r) eqn:E; [eauto|].
    exfalso. eapply se_oldest_from_some; [|exact E]. discriminate.
  - apply IH. lia.
Qed.

Lemma se_count_idle_nonneg : forall tbl, 0 <= se_count_idle tbl.
Proof. induction tbl as [|x r IH]; cbn [se_count_idle]; [lia|]. destruct (se_idle x); lia. Qed.

(* ------------------------------------------------------------------ sweeps (scan, teardown) *)
Fixpoint se_sweep_ev (p : se_sess -> bool) (tbl : list se_sess) : list se_ev :=
  match tbl with
  | [] => []
  | s :: r => if p s then SeDel (ss_id s) :: SeFree (ss_id s) :: se_sweep_ev p r
              else se_sweep_ev p r
  end.

Lemma se_scan_sweep : forall c now tbl,
  se_scan c now tbl = (filter (fun s => negb (se_expired c now s)) tbl,
                       se_sweep_ev (se_expired c now) tbl).
Proof.
  induction tbl as [|x r IH]; cbn [se_scan filter se_sweep_ev]; [reflexivity|].
  rewrite IH. destruct (se_expired c now x); reflexivity.
Qed.

Lemma se_teardown_sweep : forall tbl,
  se_teardown tbl = (filter (fun s => negb (ss_ref s =? 0)) tbl,
                     se_sweep_ev (fun s => ss_ref s =? 0) tbl).
Proof.
  induction tbl as [|x r IH]; cbn [se_teardown filter se_sweep_ev]; [reflexivity|].
  rewrite IH. destruct (ss_ref x =? 0); reflexivity.
Qed.

Lemma se_sweep_free_iff : forall p tbl sid,
  In (SeFree sid) (se_sweep_ev p tbl) <-> exists s, In s tbl /\ ss_id s = sid /\ p s = true.
Proof.
  induction tbl as [|x r IH]; cbn [se_sweep_ev In]; intros sid.
  - split; [tauto | intros (s & [] & _)].
  - destruct (p x) eqn:Px; cbn [In].
    + rewrite IH. split.
      * intros [E|[E|(s & Hs & E1 & E2)]]; [discriminate | inversion E; subst; eauto | eauto].
      * intros (s & [E|Hs] & E1 & E2); [subst; auto | right; right; eauto].
    + rewrite IH. split.
      * intros (s & Hs & E1 & E2); eauto.
      * intros (s & [E|Hs] & E1 & E2); [subst; congruence | eauto].
Qed.

(* ------------------------------------------------------------------ the events of one step *)
Definition se_new_events (c : se_cfg) (st : se_st) (op : se_op) : list se_ev :=
  match op with
  | OpRx key now =>
      match se_find key (st_tbl st) with
      | Some s => [SeRx key (ss_id s)]
      | None =>
          (match se_rx_evict c (st_tbl st) with
           | Some o => [SeDel (ss_id o); SeFree (ss_id o)]
           | None => []
           end) ++ [SeNew (st_next st) key; SeRx key (st_next st)]
      end
  | OpRxV key now v =>
      match se_find key (st_tbl st) with
      | Some s => [SeRx key (ss_id s)]
      | None =>
          (match se_get v (st_tbl st) with
           | Some o => [SeDel (ss_id o); SeFree (ss_id o)]
           | None => []
           end) ++ [SeNew (st_next st) key; SeRx key (st_next st)]
      end
  | OpAccept key now => [SeNew (st_next st) key]
  | OpPrepare now => se_sweep_ev (se_expired c now) (st_tbl st)
  | OpFreeContext => se_sweep_ev (fun s => ss_ref s =? 0) (map se_drop_lib (st_tbl st))
  | _ => []
  end.

Lemma se_step_log : forall c st op,
  st_log (se_step c st op) = st_log st ++ se_new_events c st op.
Proof.
  intros c st op. destruct op; cbn [se_step se_new_events st_log]; try (rewrite app_nil_r; reflexivity).
  - unfold se_rx, se_rx_hit, se_rx_new. destruct (se_find key (st_tbl st)); cbn [st_log]; [reflexivity|].
    destruct (se_rx_evict c (st_tbl st)); reflexivity.
  - unfold se_rx_victim, se_rx_hit, se_rx_new. destruct (se_find key (st_tbl st)); cbn [st_log]; [reflexivity|].
    destruct (se_get victim (st_tbl st)); reflexivity.
  - reflexivity.
  - unfold se_prepare. rewrite se_scan_sweep. reflexivity.
  - unfold se_free_context. rewrite se_teardown_sweep. reflexivity.
Qed.

(* ------------------------------------------------------------------ monitor lemmas *)
Lemma se_mon_has_iff : forall sid key l, se_mon_has sid key l = true <-> In (sid, key) l.
Proof.
  induction l as [|[s k] r IH]; cbn [se_mon_has In]; [split; [discriminate|tauto]|].
  destruct (Z.eqb_spec s sid); destruct (Z.eqb_spec k key); cbn [andb]; subst.
  - split; auto.
  - rewrite IH. split; [auto | intros [E|E]; [inversion E; congruence | auto]].
  - rewrite IH. split; [auto | intros [E|E]; [inversion E; congruence | auto]].
  - rewrite IH. split; [auto | intros [E|E]; [inversion E; congruence | auto]].
Qed.

Lemma se_mon_has_sid_iff : forall sid l, se_mon_has_sid sid l = true <-> In sid (map fst l).
Proof.
  induction l as [|[s k] r IH]; cbn [se_mon_has_sid map In fst]; [split; [discriminate|tauto]|].
  destruct (Z.eqb_spec s sid); [split; auto|].
  rewrite IH. split; [auto | intros [E|E]; [congruence | auto]].
Qed.

Lemma se_mon_has_key_iff : forall key l, se_mon_has_key key l = true <-> In key (map snd l).
Proof.
  induction l as [|[s k] r IH]; cbn [se_mon_has_key map In snd]; [split; [discriminate|tauto]|].
  destruct (Z.eqb_spec k key); [split; auto|].
  rewrite IH. split; [auto | intros [E|E]; [congruence | auto]].
Qed.

Lemma se_mon_del_In : forall sid l a b, NoDup (map fst l) ->
  (In (a, b) (se_mon_del sid l) <-> In (a, b) l /\ a <> sid).
Proof.
  induction l as [|[s k] r IH]; cbn [se_mon_del map fst In]; intros a b ND; [tauto|].
  inversion ND; subst.
  destruct (Z.eqb_spec s sid).
  - subst. split.
    + intros H. split; [right; auto|]. intro E. subst. apply H1.
      rewrite in_map_iff. exists (sid, b). auto.
    + intros [[E|H] Hne]; [inversion E; congruence | auto].
  - cbn [In]. rewrite IH; auto. split.
    + intros [E|[H Hne]]; [inversion E; subst; split; auto | split; auto].
    + intros [[E|H] Hne]; [left; auto | right; auto].
Qed.

Lemma se_mon_del_fst : forall sid l x, In x (map fst (se_mon_del sid l)) -> In x (map fst l).
Proof.
  induction l as [|[s k] r IH]; cbn [se_mon_del map fst In]; intros x H; [tauto|].
  destruct (s =? sid); cbn [map fst In] in *; intuition.
Qed.

Lemma se_mon_del_snd : forall sid l x, In x (map snd (se_mon_del sid l)) -> In x (map snd l).
Proof.
  induction l as [|[s k] r IH]; cbn [se_mon_del map snd In]; intros x H; [tauto|].
  destruct (s =? sid); cbn [map snd In] in *; intuition.
Qed.

Lemma se_mon_del_nodup_fst : forall sid l, NoDup (map fst l) -> NoDup (map fst (se_mon_del sid l)).
Proof.
  induction l as [|[s k] r IH]; cbn [se_mon_del map fst]; intros ND; auto.
  inversion ND; subst. destruct (s =? sid); auto.
  cbn [map fst]. constructor; auto. intro H. apply H1. eapply se_mon_del_fst; eauto.
Qed.

Lemma se_mon_del_nodup_snd : forall sid l, NoDup (map snd l) -> NoDup (map snd (se_mon_del sid l)).
Proof.
  induction l as [|[s k] r IH]; cbn [se_mon_del map snd]; intros ND; auto.
  inversion ND; subst. destruct (s =? sid); auto.
  cbn [map snd]. constructor; auto. intro H. apply H1. eapply se_mon_del_snd; eauto.
Qed.

Lemma se_mon_run_app : forall l1 l2 m,
  se_mon_run m (l1 ++ l2) =
  match se_mon_run m l1 with Some m1 => se_mon_run m1 l2 | None => None end.
Proof.
  induction l1 as [|e r IH]; intros l2 m; cbn [app se_mon_run]; [reflexivity|].
  destruct (se_mon_step m e); [apply IH | reflexivity].
Qed.

(* ------------------------------------------------------------------ the invariant *)
Definition se_mon_rel (st : se_st) (m : se_mon) : Prop :=
  mo_pending m = None /\ mo_max m < st_next st /\ NoDup (map fst (mo_live m)) /\
  (forall a b, In (a, b) (mo_live m) <->
               In (a, b) (map se_pair (st_tbl st) ++ map se_pair (st_leaked st))).

Definition se_inv (st : se_st) : Prop :=
  NoDup (map ss_key (st_tbl st)) /\
  NoDup (map ss_id (st_tbl st)) /\
  (1 <= st_next st /\ Forall (fun s => 1 <= ss_id s < st_next st) (st_tbl st)) /\
  Forall (fun s => ss_ref s = Z.of_nat (length (ss_holders s))) (st_tbl st) /\
  (st_alive st = true -> st_leaked st = []) /\
  exists m, se_mon_run se_mon_init (st_log st) = Some m /\ se_mon_rel st m.

Lemma se_inv_init : se_inv se_init.
Proof.
  unfold se_inv, se_init. cbn. repeat split; try constructor; try lia.
  exists se_mon_init. split; [reflexivity|]. unfold se_mon_rel, se_mon_init. cbn.
  repeat split; try constructor; try lia; tauto.
Qed.

(* operations that rewrite one session in place *)
Lemma se_inv_upd : forall st sid f,
  se_inv st ->
  (forall s, ss_id (f s) = ss_id s) -> (forall s, ss_key (f s) = ss_key s) ->
  (forall s, se_get sid (st_tbl st) = Some s ->
             ss_ref s = Z.of_nat (length (ss_holders s)) ->
             ss_ref (f s) = Z.of_nat (length (ss_holders (f s)))) ->
  se_inv (mkSt (se_upd sid f (st_tbl st)) (st_next st) (st_log st) (st_alive st) (st_leaked st)).
Proof.
  intros st sid f (Hk & Hi & (Hn & Hr) & Hh & Hl & m & Hm & Hrel) Fid Fkey Fref.
  unfold se_inv. cbn [st_tbl st_next st_log st_alive st_leaked].
  rewrite (se_upd_map _ ss_key), (se_upd_map _ ss_id); auto.
  repeat split; auto.
  - apply se_upd_forall; auto. intros s _ H. rewrite Fid. exact H.
  - apply se_upd_forall; auto.
  - exists m. split; auto. unfold se_mon_rel in *. cbn [st_tbl st_next st_leaked].
    rewrite (se_upd_map _ se_pair); auto.
    intros s. unfold se_pair. rewrite Fid, Fkey. reflexivity.
Qed.

Lemma se_sweep_mon : forall p tbl m,
  mo_pending m = None -> NoDup (map fst (mo_live m)) ->
  (forall s, In s tbl -> In (se_pair s) (mo_live m)) -> NoDup (map ss_id tbl) ->
  exists m', se_mon_run m (se_sweep_ev p tbl) = Some m' /\ mo_pending m' = None /\
             mo_max m' = mo_max m /\ NoDup (map fst (mo_live m')) /\
             (forall a b, In (a, b) (mo_live m') <->
                          In (a, b) (mo_live m) /\
                          ~ (exists s, In s tbl /\ p s = true /\ ss_id s = a)).
Proof.
  induction tbl as [|x r IH]; intros m Hp ND Hin NDi; cbn [se_sweep_ev].
  - exists m. cbn [se_mon_run]. splits; auto.
    intros a b. split.
    + intros H; split; auto. intros (s & [] & _).
    + tauto.
  - inversion NDi as [|? ? Hx NDr]; subst.
    destruct (p x) eqn:Px.
    + cbn [se_mon_run]. unfold se_mon_step at 1. rewrite Hp.
      assert (Hs: se_mon_has_sid (ss_id x) (mo_live m) = true).
      { apply se_mon_has_sid_iff. rewrite in_map_iff. exists (se_pair x).
        split; [reflexivity | apply Hin; left; reflexivity]. }
      rewrite Hs. unfold se_mon_step at 1. cbn [mo_pending]. rewrite Z.eqb_refl.
      cbn [mo_live mo_max].
      set (m2 := mkMon (se_mon_del (ss_id x) (mo_live m)) (mo_max m) None).
      destruct (IH m2) as (m' & R & P' & Mx & ND' & Hiff); auto.
      * apply se_mon_del_nodup_fst; auto.
      * intros s Hs'. cbn [m2 mo_live]. unfold se_pair. apply se_mon_del_In; auto.
        split; [apply (Hin s); right; auto|].
        intro E. apply Hx. rewrite in_map_iff. exists s. auto.
      * exists m'. splits; auto.
        intros a b. split.
        -- intros H. apply Hiff in H. destruct H as [H1 H2]. cbn [m2 mo_live] in H1.
           apply se_mon_del_In in H1; auto. destruct H1 as [H1 Hne]. split; auto.
           intros (s & [E|Hs'] & Ps & Es); [subst; auto | apply H2; eauto].
        -- intros [H1 H2]. apply Hiff. split.
           ++ cbn [m2 mo_live]. apply se_mon_del_In; auto. split; auto.
              intro E. apply H2. exists x. split; [left; auto | auto].
           ++ intros (s & Hs' & Ps & Es). apply H2. exists s. split; [right; auto | auto].
    + destruct (IH m) as (m' & R & P' & Mx & ND' & Hiff); auto.
      * intros s Hs'. apply Hin. right; auto.
      * exists m'. splits; auto.
        intros a b. split.
        -- intros H. apply Hiff in H. destruct H as [H1 H2]. split; auto.
           intros (s & [E|Hs'] & Ps & Es); [subst; congruence | apply H2; eauto].
        -- intros [H1 H2]. apply Hiff. split; auto.
           intros (s & Hs' & Ps & Es). apply H2. exists s. split; [right; auto | auto].
Qed.

Lemma se_pair_in_map : forall a b tbl,
  In (a, b) (map se_pair tbl) <-> exists s, In s tbl /\ ss_id s = a /\ ss_key s = b.
Proof.
  intros. rewrite in_map_iff. unfold se_pair. split.
  - intros (s & E & H). inversion E; subst. eauto.
  - intros (s & H & E1 & E2). exists s. subst. auto.
Qed.

Lemma se_nodup_id_unique : forall tbl s1 s2,
  NoDup (map ss_id tbl) -> In s1 tbl -> In s2 tbl -> ss_id s1 = ss_id s2 -> s1 = s2.
Proof.
  induction tbl as [|x r IH]; cbn [map In]; intros s1 s2 ND H1 H2 E; [tauto|].
  inversion ND; subst.
  destruct H1 as [H1|H1]; destruct H2 as [H2|H2]; subst; auto.
  - exfalso. apply H3. rewrite in_map_iff. exists s2. auto.
  - exfalso. apply H3. rewrite in_map_iff. exists s1. auto.
Qed.

Lemma se_nodup_key_unique : forall tbl s1 s2,
  NoDup (map ss_key tbl) -> In s1 tbl -> In s2 tbl -> ss_key s1 = ss_key s2 -> s1 = s2.
Proof.
  induction tbl as [|x r IH]; cbn [map In]; intros s1 s2 ND H1 H2 E; [tauto|].
  inversion ND; subst.
  destruct H1 as [H1|H1]; destruct H2 as [H2|H2]; subst; auto.
  - exfalso. apply H3. rewrite in_map_iff. exists s2. auto.
  - exfalso. apply H3. rewrite in_map_iff. exists s1. auto.
Qed.

Lemma se_filter_nodup : forall (A : Type) (g : se_sess -> A) q tbl,
  NoDup (map g tbl) -> NoDup (map g (filter q tbl)).
Proof.
  intros A g q tbl. induction tbl as [|x r IH]; cbn [filter map]; intros ND; auto.
  inversion ND; subst. destruct (q x); auto. cbn [map]. constructor; auto.
  intro H. apply H1. rewrite in_map_iff in *. destruct H as (y & E & Hy).
  exists y. split; auto. apply filter_In in Hy. tauto.
Qed.

(* idle scan *)
Lemma se_inv_prepare : forall c st now, st_alive st = true -> se_inv st -> se_inv (se_prepare c st now).
Proof.
  intros c st now Ha (Hk & Hi & (Hn & Hr) & Hh & Hl & m & Hm & Hp & Hmx & ND & Hiff).
  unfold se_prepare. rewrite se_scan_sweep. unfold se_inv.
  cbn [st_tbl st_next st_log st_alive st_leaked].
  assert (Hl0 := Hl Ha). rewrite Hl0 in *. cbn [map] in Hiff.
  assert (Hiff0: forall a b, In (a, b) (mo_live m) <-> In (a, b) (map se_pair (st_tbl st))).
  { intros a b. rewrite Hiff, app_nil_r. tauto. }
  clear Hiff. rename Hiff0 into Hiff.
  splits.
  - apply se_filter_nodup; auto.
  - apply se_filter_nodup; auto.
  - exact Hn.
  - rewrite Forall_forall in *. intros s Hs. apply filter_In in Hs. apply Hr. tauto.
  - rewrite Forall_forall in *. intros s Hs. apply filter_In in Hs. apply Hh. tauto.
  - auto.
  - destruct (se_sweep_mon (se_expired c now) (st_tbl st) m) as (m' & R & P' & Mx & ND' & Hiff'); auto.
    { intros s Hs. unfold se_pair. apply Hiff. apply se_pair_in_map. eauto. }
    exists m'. rewrite se_mon_run_app, Hm. split; auto.
    unfold se_mon_rel. cbn [st_tbl st_next st_leaked map].
    splits; auto; try lia.
    intros a b. rewrite app_nil_r. split.
    + intros H. apply Hiff' in H. destruct H as [H1 H2]. apply Hiff in H1.
      apply se_pair_in_map in H1. destruct H1 as (s & Hs & E1 & E2).
      apply se_pair_in_map. exists s. splits; auto. apply filter_In. split; auto.
      destruct (se_expired c now s) eqn:Ex; auto. exfalso. apply H2. eauto.
    + intros H. apply se_pair_in_map in H. destruct H as (s & Hs & E1 & E2).
      apply filter_In in Hs. destruct Hs as [Hs Hq]. apply Hiff'. split.
      * apply Hiff. apply se_pair_in_map. eauto.
      * intros (s' & Hs' & Ps' & Es'). assert (s' = s).
        { apply (se_nodup_id_unique (st_tbl st)); auto. congruence. }
        subst s'. rewrite Ps' in Hq. discriminate.
Qed.

Lemma se_nodup_snoc : forall (l : list Z) x, NoDup l -> ~ In x l -> NoDup (l ++ [x]).
Proof.
  induction l as [|y r IH]; cbn [app]; intros x ND Hx.
  - constructor; [intros [] | constructor].
  - inversion ND; subst. constructor.
    + rewrite in_app_iff. cbn [In]. intros [H|[H|[]]]; [auto | subst; apply Hx; left; auto].
    + apply IH; auto. intro H. apply Hx. right; auto.
Qed.

(* a datagram for an existing session *)
Lemma se_inv_log_rx : forall tbl next log alive leaked key sid,
  se_inv (mkSt tbl next log alive leaked) ->
  In (sid, key) (map se_pair tbl) ->
  se_inv (mkSt tbl next (log ++ [SeRx key sid]) alive leaked).
Proof.
  intros tbl next log alive leaked key sid (Hk & Hi & (Hn & Hr) & Hh & Hl & m & Hm & Hrel) Hin.
  unfold se_inv in *. cbn [st_tbl st_next st_log st_alive st_leaked] in *.
  splits; auto.
  exists m. split; auto. rewrite se_mon_run_app, Hm. cbn [se_mon_run].
  destruct Hrel as (Hp & Hmx & ND & Hiff). cbn [st_tbl st_leaked] in Hiff.
  unfold se_mon_step. rewrite Hp.
  assert (se_mon_has sid key (mo_live m) = true) as ->; [|reflexivity].
  apply se_mon_has_iff. apply Hiff. apply in_or_app. left. exact Hin.
Qed.

Lemma se_inv_rx_hit : forall st s key now,
  se_inv st -> se_find key (st_tbl st) = Some s -> se_inv (se_rx_hit st s key now).
Proof.
  intros st s key now Hinv Hf. unfold se_rx_hit.
  apply se_find_In in Hf. destruct Hf as [Hs Hk].
  apply se_inv_log_rx.
  - apply (se_inv_upd st (ss_id s) (se_set_last now)); auto.
  - cbn [st_tbl]. rewrite (se_upd_map _ se_pair); [|reflexivity].
    apply se_pair_in_map. eauto.
Qed.

Lemma se_inv_rx_new : forall st key now ev,
  st_alive st = true -> se_inv st -> se_find key (st_tbl st) = None ->
  (forall o, ev = Some o -> In o (st_tbl st)) ->
  se_inv (se_rx_new st key now ev).
Proof.
  intros st key now ev Ha Hinv Hf Hev. unfold se_rx_new.
  - (* new peer *)
    destruct Hinv as (Hk & Hi & (Hn & Hr) & Hh & Hl & m & Hm & Hp & Hmx & ND & Hiff).
    assert (Hl0 := Hl Ha). rewrite Hl0 in Hiff. cbn [map] in Hiff.
    assert (Hiff0: forall a b, In (a, b) (mo_live m) <-> In (a, b) (map se_pair (st_tbl st))).
    { intros a b. rewrite Hiff, app_nil_r. tauto. }
    clear Hiff. rename Hiff0 into Hiff.
    cbv zeta.
    set (tbl1 := match ev with Some o => se_del (ss_id o) (st_tbl st) | None => st_tbl st end).
    set (ev1 := match ev with Some o => [SeDel (ss_id o); SeFree (ss_id o)] | None => [] end).
    assert (Hsub: forall s, In s tbl1 -> In s (st_tbl st)).
    { intros s. unfold tbl1. destruct ev; [apply se_del_In | auto]. }
    assert (Hk1: NoDup (map ss_key tbl1)).
    { unfold tbl1. destruct ev; [apply se_del_sub|]; auto. }
    assert (Hi1: NoDup (map ss_id tbl1)).
    { unfold tbl1. destruct ev; [apply se_del_sub|]; auto. }
    (* the monitor after the optional eviction *)
    assert (Hmon1: exists m1, se_mon_run m ev1 = Some m1 /\ mo_pending m1 = None /\
                              mo_max m1 = mo_max m /\ NoDup (map fst (mo_live m1)) /\
                              (forall a b, In (a, b) (mo_live m1) <-> In (a, b) (map se_pair tbl1))).
    { unfold ev1, tbl1. destruct ev as [o|] eqn:Eev.
      - pose proof (Hev o eq_refl) as Ho.
        cbn [se_mon_run]. unfold se_mon_step at 1. rewrite Hp.
        assert (se_mon_has_sid (ss_id o) (mo_live m) = true) as ->.
        { apply se_mon_has_sid_iff. rewrite in_map_iff. exists (se_pair o). split; [reflexivity|].
          apply Hiff. apply se_pair_in_map. eauto. }
        unfold se_mon_step at 1. cbn [mo_pending]. rewrite Z.eqb_refl. cbn [mo_live mo_max].
        eexists. split; [reflexivity|]. cbn [mo_pending mo_max mo_live].
        splits; auto.
        + apply se_mon_del_nodup_fst; auto.
        + intros a b. rewrite se_mon_del_In; auto. rewrite Hiff, !se_pair_in_map. split.
          * intros [(s & Hs & E1 & E2) Hne]. exists s. splits; auto.
            apply se_del_other; auto. congruence.
          * intros (s & Hs & E1 & E2). split.
            -- exists s. splits; auto; try (eapply se_del_In; eauto).
            -- subst a. apply (se_del_notin (ss_id o) (st_tbl st) Hi s Hs).
      - exists m. cbn [se_mon_run]. splits; auto. }
    destruct Hmon1 as (m1 & Hr1 & Hp1 & Hmx1 & ND1 & Hiff1).
    unfold se_inv. cbn [st_tbl st_next st_log st_alive st_leaked].
    splits.
    + rewrite map_app. cbn [map]. unfold se_new_sess at 1. cbn [ss_key].
      apply se_nodup_snoc; auto. rewrite in_map_iff. intros (s & E & Hs).
      eapply se_find_none; eauto.
    + rewrite map_app. cbn [map]. unfold se_new_sess at 1. cbn [ss_id].
      apply se_nodup_snoc; auto. rewrite in_map_iff. intros (s & E & Hs).
      rewrite Forall_forall in Hr. specialize (Hr s (Hsub s Hs)). lia.
    + lia.
    + apply Forall_app. split.
      * rewrite Forall_forall in *. intros s Hs. specialize (Hr s (Hsub s Hs)). lia.
      * constructor; [|constructor]. unfold se_new_sess. cbn [ss_id]. lia.
    + apply Forall_app. split.
      * rewrite Forall_forall in *. intros s Hs. apply Hh. auto.
      * constructor; [|constructor]. reflexivity.
    + auto.
    + assert (Hnk: se_mon_has_key key (mo_live m1) = false).
      { destruct (se_mon_has_key key (mo_live m1)) eqn:E; auto.
        apply se_mon_has_key_iff in E. rewrite in_map_iff in E. destruct E as ([a b] & E & Hin).
        cbn [snd] in E. subst b. apply Hiff1 in Hin. apply se_pair_in_map in Hin.
        destruct Hin as (s & Hs & _ & E2). exfalso. eapply se_find_none; eauto. }
      exists (mkMon ((st_next st, key) :: mo_live m1) (st_next st) None). split.
      * rewrite se_mon_run_app, Hm. rewrite se_mon_run_app, Hr1. cbn [se_mon_run].
        unfold se_mon_step at 1. rewrite Hp1.
        assert (mo_max m1 <? st_next st = true) as -> by lia.
        rewrite Hnk. cbn [andb negb]. unfold se_mon_step. cbn [mo_pending mo_live se_mon_has].
        rewrite !Z.eqb_refl. cbn [andb]. reflexivity.
      * unfold se_mon_rel. cbn [mo_pending mo_max mo_live st_next st_tbl st_leaked].
        splits; auto; try lia.
        -- cbn [map fst]. constructor; auto. rewrite in_map_iff. intros ([a b] & E & Hin).
           cbn [fst] in E. subst a. apply Hiff1 in Hin. apply se_pair_in_map in Hin.
           destruct Hin as (s & Hs & E1 & _). rewrite Forall_forall in Hr.
           specialize (Hr s (Hsub s Hs)). lia.
        -- intros a b. rewrite Hl0. cbn [map]. rewrite app_nil_r, map_app, in_app_iff.
           cbn [In map]. rewrite <- Hiff1. unfold se_pair, se_new_sess. cbn [ss_id ss_key].
           split; [intros [E|H]; [right; left; auto | left; auto]
                  | intros [H|[E|[]]]; [right; auto | left; auto]].
Qed.

Lemma se_inv_accept : forall st key now,
  st_alive st = true -> se_inv st -> se_find key (st_tbl st) = None -> se_inv (se_accept st key now).
Proof.
  intros st key now Ha (Hk & Hi & (Hn & Hr) & Hh & Hl & m & Hm & Hp & Hmx & ND & Hiff) Hf.
  assert (Hl0 := Hl Ha). rewrite Hl0 in Hiff. cbn [map] in Hiff.
  assert (Hiff0: forall a b, In (a, b) (mo_live m) <-> In (a, b) (map se_pair (st_tbl st))).
  { intros a b. rewrite Hiff, app_nil_r. tauto. }
  clear Hiff. rename Hiff0 into Hiff.
  unfold se_accept, se_inv. cbn [st_tbl st_next st_log st_alive st_leaked].
  splits.
  - rewrite map_app. cbn [map ss_key]. apply se_nodup_snoc; auto.
    rewrite in_map_iff. intros (s & E & Hs). eapply se_find_none; eauto.
  - rewrite map_app. cbn [map ss_id]. apply se_nodup_snoc; auto.
    rewrite in_map_iff. intros (s & E & Hs). rewrite Forall_forall in Hr. specialize (Hr s Hs). lia.
  - lia.
  - apply Forall_app. split.
    + rewrite Forall_forall in *. intros s Hs. specialize (Hr s Hs). lia.
    + constructor; [|constructor]. cbn [ss_id]. lia.
  - apply Forall_app. split; auto.
  - auto.
  - assert (Hnk: se_mon_has_key key (mo_live m) = false).
    { destruct (se_mon_has_key key (mo_live m)) eqn:E; auto.
      apply se_mon_has_key_iff in E. rewrite in_map_iff in E. destruct E as ([a b] & E & Hin).
      cbn [snd] in E. subst b. apply Hiff in Hin. apply se_pair_in_map in Hin.
      destruct Hin as (s & Hs & _ & E2). exfalso. eapply se_find_none; eauto. }
    exists (mkMon ((st_next st, key) :: mo_live m) (st_next st) None). split.
    + rewrite se_mon_run_app, Hm. cbn [se_mon_run]. unfold se_mon_step. rewrite Hp.
      assert (mo_max m <? st_next st = true) as -> by lia.
      rewrite Hnk. reflexivity.
    + unfold se_mon_rel. cbn [mo_pending mo_max mo_live st_next st_tbl st_leaked].
      splits; auto; try lia.
      * cbn [map fst]. constructor; auto. rewrite in_map_iff. intros ([a b] & E & Hin).
        cbn [fst] in E. subst a. apply Hiff in Hin. apply se_pair_in_map in Hin.
        destruct Hin as (s & Hs & E1 & _). rewrite Forall_forall in Hr. specialize (Hr s Hs). lia.
      * intros a b. rewrite Hl0. cbn [map]. rewrite app_nil_r, map_app, in_app_iff.
        cbn [In map]. rewrite <- Hiff. unfold se_pair. cbn [ss_id ss_key].
        split; [intros [E|H]; [right; left; auto | left; auto]
               | intros [H|[E|[]]]; [right; auto | left; auto]].
Qed.

Lemma se_drop_lib_pair : forall s, se_pair (se_drop_lib s) = se_pair s.
Proof. reflexivity. Qed.

(* what coap_free_context leaves behind *)
Definition se_dead_inv (st : se_st) : Prop :=
  st_tbl st = [] /\ st_alive st = false /\
  exists m, se_mon_run se_mon_init (st_log st) = Some m /\ se_mon_rel st m.

Lemma se_dead_free_context : forall st, st_alive st = true -> se_inv st -> se_dead_inv (se_free_context st).
Proof.
  intros st Ha (Hk & Hi & (Hn & Hr) & Hh & Hl & m & Hm & Hp & Hmx & ND & Hiff).
  assert (Hl0 := Hl Ha). rewrite Hl0 in Hiff. cbn [map] in Hiff.
  assert (Hiff0: forall a b, In (a, b) (mo_live m) <-> In (a, b) (map se_pair (st_tbl st))).
  { intros a b. rewrite Hiff, app_nil_r. tauto. }
  clear Hiff. rename Hiff0 into Hiff.
  unfold se_free_context. rewrite se_teardown_sweep. unfold se_dead_inv.
  cbn [st_tbl st_alive st_log st_leaked st_next]. splits; auto.
  set (tbl' := map se_drop_lib (st_tbl st)).
  assert (Hids: map ss_id tbl' = map ss_id (st_tbl st)).
  { unfold tbl'. rewrite map_map. reflexivity. }
  assert (Hpairs: map se_pair tbl' = map se_pair (st_tbl st)).
  { unfold tbl'. rewrite map_map. reflexivity. }
  destruct (se_sweep_mon (fun s => ss_ref s =? 0) tbl' m) as (m' & R & P' & Mx & ND' & Hiff'); auto.
  { intros s Hs. unfold se_pair. apply Hiff. rewrite <- Hpairs. apply se_pair_in_map. eauto. }
  { rewrite Hids. exact Hi. }
  exists m'. rewrite se_mon_run_app, Hm. split; auto.
  unfold se_mon_rel. cbn [st_tbl st_next st_leaked map app]. rewrite Hl0. cbn [app].
  splits; auto; try lia.
  intros a b. split.
  - intros H. apply Hiff' in H. destruct H as [H1 H2]. apply Hiff in H1. rewrite <- Hpairs in H1.
    apply se_pair_in_map in H1. destruct H1 as (s & Hs & E1 & E2).
    apply se_pair_in_map. exists s. splits; auto. apply filter_In. split; auto.
    destruct (ss_ref s =? 0) eqn:Ex; auto. exfalso. apply H2. eauto.
  - intros H. apply se_pair_in_map in H. destruct H as (s & Hs & E1 & E2).
    apply filter_In in Hs. destruct Hs as [Hs Hq]. apply Hiff'. split.
    + apply Hiff. rewrite <- Hpairs. apply se_pair_in_map. eauto.
    + intros (s' & Hs' & Ps' & Es'). assert (s' = s).
      { apply (se_nodup_id_unique tbl'); auto; [rewrite Hids; auto | congruence]. }
      subst s'. rewrite Ps' in Hq. discriminate.
Qed.

(* every operation that is allowed keeps the invariant (or ends the history) *)
Lemma se_step_inv : forall c st op,
  se_inv st -> se_op_ok c st op = true ->
  match op with
  | OpFreeContext => se_dead_inv (se_step c st op)
  | _ => se_inv (se_step c st op) /\ st_alive (se_step c st op) = true
  end.
Proof.
  intros c st op Hinv Hok. unfold se_op_ok in Hok. apply andb_true_iff in Hok.
  destruct Hok as [Ha Hok].
  destruct op; cbn [se_step].
  - unfold se_rx. destruct (se_find key (st_tbl st)) as [s|] eqn:Hf.
    + split; [apply se_inv_rx_hit; auto | exact Ha].
    + split; [|exact Ha]. apply se_inv_rx_new; auto.
      intros o Eo. unfold se_rx_evict in Eo.
      destruct ((0 <? cf_max_idle c) && (cf_max_idle c <=? se_count_idle (st_tbl st))); [|discriminate].
      apply se_oldest_spec in Eo. tauto.
  - unfold se_rx_victim. destruct (se_find key (st_tbl st)) as [s|] eqn:Hf; [discriminate|].
    split; [|exact Ha]. apply se_inv_rx_new; auto.
    intros o Eo. apply se_get_In in Eo. tauto.
  - split; [|exact Ha]. apply se_inv_accept; auto.
    destruct (se_find key (st_tbl st)); [discriminate | reflexivity].
  - split; [|exact Ha]. apply se_inv_upd; auto.
    intros s _ E. cbn [se_add_holder ss_ref ss_holders length]. rewrite Nat2Z.inj_succ. lia.
  - split; [|exact Ha]. apply se_inv_upd; auto.
    intros s G E. rewrite G in Hok. cbn [se_rem_holder ss_ref ss_holders].
    rewrite (se_remove1_length _ _ Hok).
    assert (0 < Z.of_nat (length (ss_holders s))).
    { destruct (ss_holders s); [discriminate | cbn [length]; lia]. }
    destruct (Z.ltb_spec 0 (ss_ref s)); lia.
  - split; [|exact Ha]. apply se_inv_upd; auto.
  - split; [|exact Ha]. apply se_inv_upd; auto.
  - split; [|exact Ha]. apply se_inv_upd; auto.
  - split; [apply se_inv_prepare; auto|]. unfold se_prepare.
    destruct (se_scan c now (st_tbl st)). exact Ha.
  - apply se_dead_free_context; auto.
Qed.

(* reachable states *)
Lemma se_run_dead : forall c st ops st', st_alive st = false -> se_run c st ops = Some st' -> st' = st.
Proof.
  intros c st ops st' Ha. destruct ops as [|op r]; cbn [se_run]; [congruence|].
  unfold se_op_ok. rewrite Ha. cbn. discriminate.
Qed.

Lemma se_run_inv : forall c ops st st',
  se_inv st -> st_alive st = true -> se_run c st ops = Some st' ->
  (se_inv st' /\ st_alive st' = true) \/
  (se_dead_inv st' /\ exists st0, se_inv st0 /\ st_alive st0 = true /\ st' = se_free_context st0).
Proof.
  induction ops as [|op r IH]; intros st st' Hinv Ha H; cbn [se_run] in H.
  - inversion H; subst. left; auto.
  - destruct (se_op_ok c st op) eqn:Hok; [|discriminate].
    pose proof (se_step_inv c st op Hinv Hok) as Hs.
    destruct op;
      try (destruct Hs as [Hs1 Hs2]; apply (IH _ _ Hs1 Hs2 H); fail).
    (* OpFreeContext *)
    assert (st_alive (se_step c st OpFreeContext) = false) by (apply Hs).
    apply se_run_dead in H; auto. subst st'. right. split; auto.
    exists st. auto.
Qed.

Lemma se_reachable : forall c ops st,
  se_run c se_init ops = Some st ->
  (se_inv st /\ st_alive st = true) \/
  (se_dead_inv st /\ exists st0, se_inv st0 /\ st_alive st0 = true /\ st = se_free_context st0).
Proof.
  intros c ops st H. apply (se_run_inv c ops se_init st se_inv_init eq_refl H).
Qed.

(* a prefix of a run is a run *)
Lemma se_run_app : forall c ops1 ops2 st st',
  se_run c st (ops1 ++ ops2) = Some st' ->
  exists st1, se_run c st ops1 = Some st1 /\ se_run c st1 ops2 = Some st'.
Proof.
  induction ops1 as [|op r IH]; intros ops2 st st' H; cbn [app se_run] in *.
  - eauto.
  - destruct (se_op_ok c st op); [|discriminate]. apply IH; auto.
Qed.

(* ================================================================== the monitor is sound
   What acceptance of a log by se_log_ok / se_log_closed means, for an arbitrary log. *)
Definition se_mwf (m : se_mon) : Prop :=
  NoDup (map fst (mo_live m)) /\ NoDup (map snd (mo_live m)) /\
  Forall (fun p => fst p <= mo_max m) (mo_live m).

Lemma se_mwf_init : se_mwf se_mon_init.
Proof. unfold se_mwf, se_mon_init. cbn. splits; constructor. Qed.

Lemma se_mon_del_sub : forall sid l p, In p (se_mon_del sid l) -> In p l.
Proof.
  induction l as [|[s k] r IH]; cbn [se_mon_del In]; intros p H; [tauto|].
  destruct (s =? sid); cbn [In] in *; intuition.
Qed.

Lemma se_mon_step_wf : forall m e m', se_mwf m -> se_mon_step m e = Some m' ->
  se_mwf m' /\ mo_max m <= mo_max m'.
Proof.
  intros m e m' (N1 & N2 & F) H. unfold se_mon_step in H.
  destruct (mo_pending m) as [p|].
  - destruct e; try discriminate. destruct (sid =? p); [|discriminate].
    inversion H; subst. cbn. split; [unfold se_mwf; cbn; auto | lia].
  - destruct e as [s k | s | s | k s].
    + destruct (Z.ltb_spec (mo_max m) s); cbn [andb] in H; [|discriminate].
      destruct (se_mon_has_key k (mo_live m)) eqn:Hk; cbn [negb] in H; [discriminate|].
      inversion H; subst. cbn [mo_max mo_live]. split; [|lia].
      unfold se_mwf. cbn [mo_live mo_max map fst snd]. splits.
      * constructor; auto. rewrite in_map_iff. intros ([a b] & E & Hin). cbn [fst] in E. subst a.
        rewrite Forall_forall in F. specialize (F _ Hin). cbn [fst] in F. lia.
      * constructor; auto. intro Hin. apply se_mon_has_key_iff in Hin. congruence.
      * constructor; [cbn; lia|]. eapply Forall_impl; [|exact F]. cbn. intros; lia.
    + destruct (se_mon_has_sid s (mo_live m)); [|discriminate]. inversion H; subst.
      cbn [mo_max mo_live]. split; [|lia]. unfold se_mwf. cbn [mo_live mo_max]. splits.
      * apply se_mon_del_nodup_fst; auto.
      * apply se_mon_del_nodup_snd; auto.
      * rewrite Forall_forall in *. intros p Hp. apply F. eapply se_mon_del_sub; eauto.
    + discriminate.
    + destruct (se_mon_has s k (mo_live m)); [|discriminate]. inversion H; subst.
      split; [unfold se_mwf; auto | lia].
Qed.

Lemma se_mon_run_wf : forall l m m', se_mwf m -> se_mon_run m l = Some m' ->
  se_mwf m' /\ mo_max m <= mo_max m'.
Proof.
  induction l as [|e r IH]; intros m m' W H; cbn [se_mon_run] in H.
  - inversion H; subst. split; [auto | lia].
  - destruct (se_mon_step m e) as [m1|] eqn:S; [|discriminate].
    destruct (se_mon_step_wf _ _ _ W S) as [W1 L1].
    destruct (IH _ _ W1 H) as [W' L']. split; [auto | lia].
Qed.

(* a run through  pre ++ e :: post  passes through the states around e *)
Lemma se_mon_run_split : forall pre e post m m',
  se_mon_run m (pre ++ e :: post) = Some m' ->
  exists m0 m1, se_mon_run m pre = Some m0 /\ se_mon_step m0 e = Some m1 /\
                se_mon_run m1 post = Some m'.
Proof.
  intros pre e post m m' H. rewrite se_mon_run_app in H.
  destruct (se_mon_run m pre) as [m0|]; [|discriminate]. cbn [se_mon_run] in H.
  destruct (se_mon_step m0 e) as [m1|] eqn:S; [|discriminate]. eauto.
Qed.

(* a session that is gone never comes back *)
Definition se_gone (s : Z) (m : se_mon) : Prop := s <= mo_max m /\ ~ In s (map fst (mo_live m)).

Lemma se_gone_step : forall s m e m', se_gone s m -> se_mon_step m e = Some m' -> se_gone s m'.
Proof.
  intros s m e m' [G1 G2] H. unfold se_mon_step in H.
  destruct (mo_pending m) as [p|].
  - destruct e; try discriminate. destruct (sid =? p); [|discriminate]. inversion H; subst.
    split; auto.
  - destruct e as [s' k | s' | s' | k s'].
    + destruct (Z.ltb_spec (mo_max m) s'); cbn [andb] in H; [|discriminate].
      destruct (se_mon_has_key k (mo_live m)); cbn [negb] in H; [discriminate|].
      inversion H; subst. unfold se_gone. cbn [mo_max mo_live map fst In]. split; [lia|].
      intros [E|E]; [lia | auto].
    + destruct (se_mon_has_sid s' (mo_live m)); [|discriminate]. inversion H; subst.
      unfold se_gone. cbn [mo_max mo_live]. split; auto.
      intro Hin. apply G2. eapply se_mon_del_fst; eauto.
    + discriminate.
    + destruct (se_mon_has s' k (mo_live m)); [|discriminate]. inversion H; subst. split; auto.
Qed.

Lemma se_gone_run : forall l s m m', se_gone s m -> se_mon_run m l = Some m' -> se_gone s m'.
Proof.
  induction l as [|e r IH]; intros s m m' G H; cbn [se_mon_run] in H.
  - inversion H; subst; auto.
  - destruct (se_mon_step m e) as [m1|] eqn:S; [|discriminate].
    eapply IH; [eapply se_gone_step; eauto | eauto].
Qed.

(* a live session stays live (with its peer) until its DEL *)
Lemma se_live_persist : forall l m m' s k,
  se_mwf m -> se_mon_run m l = Some m' -> In (s, k) (mo_live m) -> ~ In (SeDel s) l ->
  In (s, k) (mo_live m').
Proof.
  induction l as [|e r IH]; intros m m' s k W H Hin Hnd; cbn [se_mon_run] in H.
  - inversion H; subst; auto.
  - destruct (se_mon_step m e) as [m1|] eqn:S; [|discriminate].
    destruct (se_mon_step_wf _ _ _ W S) as [W1 _].
    apply (IH m1 m' s k W1 H); [|intro; apply Hnd; right; auto].
    unfold se_mon_step in S. destruct (mo_pending m) as [p|].
    + destruct e; try discriminate. destruct (sid =? p); [|discriminate]. inversion S; subst. auto.
    + destruct e as [s' k' | s' | s' | k' s'].
      * destruct ((mo_max m <? s') && negb (se_mon_has_key k' (mo_live m))); [|discriminate].
        inversion S; subst. right; auto.
      * destruct (se_mon_has_sid s' (mo_live m)); [|discriminate]. inversion S; subst.
        cbn [mo_live]. apply se_mon_del_In; [apply W|]. split; auto.
        intro E. apply Hnd. left. congruence.
      * discriminate.
      * destruct (se_mon_has s' k' (mo_live m)); [|discriminate]. inversion S; subst. auto.
Qed.

(* whoever is live was announced by a SESSION_NEW *)
Lemma se_live_origin : forall l m m' s k,
  se_mon_run m l = Some m' -> In (s, k) (mo_live m') -> In (s, k) (mo_live m) \/ In (SeNew s k) l.
Proof.
  induction l as [|e r IH]; intros m m' s k H Hin; cbn [se_mon_run] in H.
  - inversion H; subst; auto.
  - destruct (se_mon_step m e) as [m1|] eqn:S; [|discriminate].
    destruct (IH m1 m' s k H Hin) as [H1|H1]; [|right; right; auto].
    unfold se_mon_step in S. destruct (mo_pending m) as [p|].
    + destruct e; try discriminate. destruct (sid =? p); [|discriminate]. inversion S; subst. auto.
    + destruct e as [s' k' | s' | s' | k' s'].
      * destruct ((mo_max m <? s') && negb (se_mon_has_key k' (mo_live m))); [|discriminate].
        inversion S; subst. cbn [mo_live In] in H1.
        destruct H1 as [E|H1]; [inversion E; subst; right; left; auto | left; auto].
      * destruct (se_mon_has_sid s' (mo_live m)); [|discriminate]. inversion S; subst.
        left. eapply se_mon_del_sub; eauto.
      * discriminate.
      * destruct (se_mon_has s' k' (mo_live m)); [|discriminate]. inversion S; subst. auto.
Qed.

(* after an accepted DEL the session is gone *)
Lemma se_del_gone : forall m s m1, se_mwf m -> se_mon_step m (SeDel s) = Some m1 -> se_gone s m1.
Proof.
  intros m s m1 (N1 & N2 & F) S. unfold se_mon_step in S.
  destruct (mo_pending m); [discriminate|].
  destruct (se_mon_has_sid s (mo_live m)) eqn:Hs; [|discriminate]. inversion S; subst.
  unfold se_gone. cbn [mo_max mo_live]. split.
  - apply se_mon_has_sid_iff in Hs. rewrite in_map_iff in Hs. destruct Hs as ([a b] & E & Hin).
    cbn [fst] in E. subst a. rewrite Forall_forall in F. apply (F _ Hin).
  - rewrite in_map_iff. intros ([a b] & E & Hin). cbn [fst] in E. subst a.
    apply se_mon_del_In in Hin; auto. tauto.
Qed.

Lemma se_del_in_gone : forall l m m' s,
  se_mwf m -> se_mon_run m l = Some m' -> In (SeDel s) l -> se_gone s m'.
Proof.
  intros l m m' s W H Hin. apply in_split in Hin. destruct Hin as (pre & post & E). subst l.
  apply se_mon_run_split in H. destruct H as (m0 & m1 & R0 & S & R1).
  destruct (se_mon_run_wf _ _ _ W R0) as [W0 _].
  eapply se_gone_run; [eapply se_del_gone; eauto | eauto].
Qed.

Lemma se_ev_eq_dec : forall a b : se_ev, {a = b} + {a <> b}.
Proof. decide equality; apply Z.eq_dec. Qed.

Section MonitorSound.
  Variable log : list se_ev.
  Hypothesis Hok : se_log_ok log = true.

  Lemma se_ok_run : exists m, se_mon_run se_mon_init log = Some m /\ mo_pending m = None.
  Proof.
    unfold se_log_ok in Hok. destruct (se_mon_run se_mon_init log) as [m|]; [|discriminate].
    exists m. split; auto. destruct (mo_pending m); [discriminate | reflexivity].
  Qed.

  (* exactly one SESSION_NEW per session: never two *)
  Lemma se_ok_new_once : forall l1 s k1 l2 k2 l3,
    log = l1 ++ SeNew s k1 :: l2 ++ SeNew s k2 :: l3 -> False.
  Proof.
    intros l1 s k1 l2 k2 l3 E. destruct se_ok_run as (m & R & _). rewrite E in R.
    apply se_mon_run_split in R. destruct R as (m0 & m1 & R0 & S1 & R1).
    apply se_mon_run_split in R1. destruct R1 as (m2 & m3 & R2 & S2 & R3).
    destruct (se_mon_run_wf _ _ _ se_mwf_init R0) as [W0 _].
    destruct (se_mon_step_wf _ _ _ W0 S1) as [W1 _].
    destruct (se_mon_run_wf _ _ _ W1 R2) as [W2 L2].
    unfold se_mon_step in S1, S2.
    destruct (mo_pending m0); [discriminate|]. destruct (mo_pending m2); [discriminate|].
    destruct (Z.ltb_spec (mo_max m0) s); cbn [andb] in S1; [|discriminate].
    destruct (negb (se_mon_has_key k1 (mo_live m0))); [|discriminate]. inversion S1; subst m1.
    cbn [mo_max] in L2.
    destruct (Z.ltb_spec (mo_max m2) s); cbn [andb] in S2; [|discriminate]. lia.
  Qed.

  (* at most one SESSION_DEL per session *)
  Lemma se_ok_del_once : forall l1 s l2 l3,
    log = l1 ++ SeDel s :: l2 ++ SeDel s :: l3 -> False.
  Proof.
    intros l1 s l2 l3 E. destruct se_ok_run as (m & R & _). rewrite E in R.
    apply se_mon_run_split in R. destruct R as (m0 & m1 & R0 & S1 & R1).
    apply se_mon_run_split in R1. destruct R1 as (m2 & m3 & R2 & S2 & R3).
    destruct (se_mon_run_wf _ _ _ se_mwf_init R0) as [W0 _].
    pose proof (se_del_gone _ _ _ W0 S1) as G1.
    pose proof (se_gone_run _ _ _ _ G1 R2) as [_ G2].
    unfold se_mon_step in S2. destruct (mo_pending m2); [discriminate|].
    destruct (se_mon_has_sid s (mo_live m2)) eqn:Hs; [|discriminate].
    apply se_mon_has_sid_iff in Hs. contradiction.
  Qed.

  (* SESSION_DEL is announced for an existing session and the release follows immediately *)
  Lemma se_ok_del_then_free : forall pre s rest,
    log = pre ++ SeDel s :: rest ->
    (exists rest', rest = SeFree s :: rest') /\ (exists k, In (SeNew s k) pre).
  Proof.
    intros pre s rest E. destruct se_ok_run as (m & R & Pn). rewrite E in R.
    apply se_mon_run_split in R. destruct R as (m0 & m1 & R0 & S & R1).
    assert (Hs := S). unfold se_mon_step in Hs. destruct (mo_pending m0); [discriminate|].
    destruct (se_mon_has_sid s (mo_live m0)) eqn:Hh; [|discriminate]. inversion Hs; subst m1. clear Hs.
    split.
    - destruct rest as [|e rest'].
      + cbn in R1. inversion R1; subst m. cbn in Pn. discriminate.
      + cbn [se_mon_run] in R1. unfold se_mon_step at 1 in R1. cbn [mo_pending] in R1.
        destruct e; try discriminate. destruct (Z.eqb_spec sid s); [subst; eauto | discriminate].
    - apply se_mon_has_sid_iff in Hh. rewrite in_map_iff in Hh. destruct Hh as ([a k] & Ea & Hin).
      cbn [fst] in Ea. subst a. exists k.
      destruct (se_live_origin _ _ _ _ _ R0 Hin) as [H|H]; [inversion H | exact H].
  Qed.

  (* a release happens only right after the SESSION_DEL of the same session *)
  Lemma se_ok_free_after_del : forall pre s rest,
    log = pre ++ SeFree s :: rest -> exists pre', pre = pre' ++ [SeDel s].
  Proof.
    intros pre s rest E. destruct se_ok_run as (m & R & _). rewrite E in R.
    apply se_mon_run_split in R. destruct R as (m0 & m1 & R0 & S & _).
    assert (Hp: mo_pending m0 = Some s).
    { unfold se_mon_step in S. destruct (mo_pending m0) as [p|]; [|discriminate].
      destruct (Z.eqb_spec s p); [subst; auto | discriminate]. }
    clear S. destruct pre as [|e0 pre0] using rev_ind.
    - cbn in R0. inversion R0; subst m0. discriminate.
    - clear IHpre0. rewrite se_mon_run_app in R0.
      destruct (se_mon_run se_mon_init pre0) as [ma|]; [|discriminate]. cbn [se_mon_run] in R0.
      destruct (se_mon_step ma e0) as [mb|] eqn:S; [|discriminate]. inversion R0; subst mb.
      unfold se_mon_step in S. destruct (mo_pending ma) as [p|] eqn:Pa.
      + destruct e0; try discriminate. destruct (sid =? p); [|discriminate].
        inversion S; subst m0. discriminate.
      + destruct e0 as [s' k' | s' | s' | k' s'].
        * destruct ((mo_max ma <? s') && negb (se_mon_has_key k' (mo_live ma))); [|discriminate].
          inversion S; subst m0. discriminate.
        * destruct (se_mon_has_sid s' (mo_live ma)); [|discriminate]. inversion S; subst m0.
          cbn in Hp. inversion Hp; subst. eauto.
        * discriminate.
        * destruct (se_mon_has s' k' (mo_live ma)); [|discriminate]. inversion S; subst m0.
          congruence.
  Qed.

  (* a datagram is handled by a session that was created for that very peer and still exists *)
  Lemma se_ok_rx_live : forall pre k s post,
    log = pre ++ SeRx k s :: post -> In (SeNew s k) pre /\ ~ In (SeDel s) pre.
  Proof.
    intros pre k s post E. destruct se_ok_run as (m & R & _). rewrite E in R.
    apply se_mon_run_split in R. destruct R as (m0 & m1 & R0 & S & _).
    assert (Hin: In (s, k) (mo_live m0)).
    { unfold se_mon_step in S. destruct (mo_pending m0); [discriminate|].
      destruct (se_mon_has s k (mo_live m0)) eqn:Hh; [|discriminate].
      apply se_mon_has_iff; auto. }
    split.
    - destruct (se_live_origin _ _ _ _ _ R0 Hin) as [H|H]; [inversion H | exact H].
    - intro Hd. destruct (se_del_in_gone _ _ _ _ se_mwf_init R0 Hd) as [_ G].
      apply G. rewrite in_map_iff. exists (s, k). auto.
  Qed.

  (* different peers, different sessions: one session never serves two peers *)
  Lemma se_ok_rx_injective : forall k1 k2 s,
    In (SeRx k1 s) log -> In (SeRx k2 s) log -> k1 = k2.
  Proof.
    assert (Hord: forall l1 k1 s l2 k2 l3, log = l1 ++ SeRx k1 s :: l2 ++ SeRx k2 s :: l3 -> k1 = k2).
    { intros l1 k1 s l2 k2 l3 E. destruct se_ok_run as (m & R & _). rewrite E in R.
      apply se_mon_run_split in R. destruct R as (m0 & m1 & R0 & S1 & R1).
      apply se_mon_run_split in R1. destruct R1 as (m2 & m3 & R2 & S2 & _).
      destruct (se_mon_run_wf _ _ _ se_mwf_init R0) as [W0 _].
      unfold se_mon_step in S1, S2.
      destruct (mo_pending m0); [discriminate|]. destruct (mo_pending m2); [discriminate|].
      destruct (se_mon_has s k1 (mo_live m0)) eqn:H1; [|discriminate]. inversion S1; subst m1.
      destruct (se_mon_has s k2 (mo_live m2)) eqn:H2; [|discriminate].
      apply se_mon_has_iff in H1. apply se_mon_has_iff in H2.
      destruct (se_mon_run_wf _ _ _ W0 R2) as [W2 _].
      destruct (in_dec se_ev_eq_dec (SeDel s) l2) as [Hd|Hd].
      - destruct (se_del_in_gone _ _ _ _ W0 R2 Hd) as [_ G]. exfalso. apply G.
        rewrite in_map_iff. exists (s, k2). auto.
      - pose proof (se_live_persist _ _ _ _ _ W0 R2 H1 Hd) as H1'.
        destruct W2 as (N1 & _ & _).
        clear - N1 H1' H2. induction (mo_live m2) as [|[a b] r IH]; [inversion H2|].
        cbn [map fst] in N1. inversion N1; subst.
        destruct H1' as [E1|E1]; destruct H2 as [E2|E2].
        + congruence.
        + inversion E1; subst. exfalso. apply H1. rewrite in_map_iff. exists (s, k2). auto.
        + inversion E2; subst. exfalso. apply H1. rewrite in_map_iff. exists (s, k1). auto.
        + auto. }
    intros k1 k2 s H1 H2.
    apply in_split in H1. destruct H1 as (l1 & l2 & E1).
    rewrite E1 in H2. apply in_app_or in H2. destruct H2 as [H2|[H2|H2]].
    - apply in_split in H2. destruct H2 as (a & b & E2). subst l1.
      symmetry. apply (Hord a k2 s b k1 l2). rewrite E1, <- app_assoc. reflexivity.
    - inversion H2; auto.
    - apply in_split in H2. destruct H2 as (a & b & E2). subst l2.
      apply (Hord l1 k1 s a k2 b). exact E1.
  Qed.

  (* same peer, same session, for as long as that session exists *)
  Lemma se_ok_rx_functional : forall l1 k s1 l2 s2 l3,
    log = l1 ++ SeRx k s1 :: l2 ++ SeRx k s2 :: l3 -> ~ In (SeDel s1) l2 -> s1 = s2.
  Proof.
    intros l1 k s1 l2 s2 l3 E Hd. destruct se_ok_run as (m & R & _). rewrite E in R.
    apply se_mon_run_split in R. destruct R as (m0 & m1 & R0 & S1 & R1).
    apply se_mon_run_split in R1. destruct R1 as (m2 & m3 & R2 & S2 & _).
    destruct (se_mon_run_wf _ _ _ se_mwf_init R0) as [W0 _].
    unfold se_mon_step in S1, S2.
    destruct (mo_pending m0); [discriminate|]. destruct (mo_pending m2); [discriminate|].
    destruct (se_mon_has s1 k (mo_live m0)) eqn:H1; [|discriminate]. inversion S1; subst m1.
    destruct (se_mon_has s2 k (mo_live m2)) eqn:H2; [|discriminate].
    apply se_mon_has_iff in H1. apply se_mon_has_iff in H2.
    pose proof (se_live_persist _ _ _ _ _ W0 R2 H1 Hd) as H1'.
    destruct (se_mon_run_wf _ _ _ W0 R2) as [(_ & N2 & _) _].
    clear - N2 H1' H2. induction (mo_live m2) as [|[a b] r IH]; [inversion H2|].
    cbn [map snd] in N2. inversion N2; subst.
    destruct H1' as [E1|E1]; destruct H2 as [E2|E2].
    - congruence.
    - inversion E1; subst. exfalso. apply H1. rewrite in_map_iff. exists (s2, k). auto.
    - inversion E2; subst. exfalso. apply H1. rewrite in_map_iff. exists (s1, k). auto.
    - auto.
  Qed.
End MonitorSound.

(* nothing is left: every session that was announced has been deleted (and released) *)
Lemma se_closed_all_deleted : forall log s k,
  se_log_closed log = true -> In (SeNew s k) log -> In (SeDel s) log /\ In (SeFree s) log.
Proof.
  intros log s k Hc Hin.
  assert (Hok: se_log_ok log = true).
  { unfold se_log_closed in Hc. unfold se_log_ok.
    destruct (se_mon_run se_mon_init log) as [m|]; [|discriminate].
    destruct (mo_pending m); [discriminate | reflexivity]. }
  assert (Hd: In (SeDel s) log).
  { unfold se_log_closed in Hc. destruct (se_mon_run se_mon_init log) as [m|] eqn:R; [|discriminate].
    destruct (mo_pending m); [discriminate|]. destruct (mo_live m) eqn:El; [|discriminate].
    apply in_split in Hin. destruct Hin as (pre & post & E). subst log.
    destruct (in_dec se_ev_eq_dec (SeDel s) post) as [H|H].
    - apply in_or_app. right. right. exact H.
    - exfalso. apply se_mon_run_split in R. destruct R as (m0 & m1 & R0 & S & R1).
      destruct (se_mon_run_wf _ _ _ se_mwf_init R0) as [W0 _].
      destruct (se_mon_step_wf _ _ _ W0 S) as [W1 _].
      assert (In (s, k) (mo_live m1)).
      { unfold se_mon_step in S. destruct (mo_pending m0); [discriminate|].
        destruct ((mo_max m0 <? s) && negb (se_mon_has_key k (mo_live m0))); [|discriminate].
        inversion S; subst. left; auto. }
      pose proof (se_live_persist _ _ _ _ _ W1 R1 H0 H) as Hl. rewrite El in Hl. inversion Hl. }
  split; auto.
  apply in_split in Hd. destruct Hd as (pre & rest & E).
  destruct (se_ok_del_then_free log Hok pre s rest E) as [(rest' & Er) _].
  subst. apply in_or_app. right. right. left. reflexivity.
Qed.

(* ================================================================== theorems about every history *)

(* the model's own event log is accepted by the monitor *)
Theorem se_run_log_ok : forall c ops st,
  se_run c se_init ops = Some st -> se_log_ok (st_log st) = true.
Proof.
  intros c ops st H. unfold se_log_ok.
  destruct (se_reachable c ops st H) as [[Hinv _] | [(_ & _ & m & Hm & Hp & _) _]].
  - destruct Hinv as (_ & _ & _ & _ & _ & m & Hm & Hp & _). rewrite Hm, Hp. reflexivity.
  - rewrite Hm, Hp. reflexivity.
Qed.

(* ref = number of holders, in every reachable state *)
Theorem se_ref_counts_holders : forall c ops st s,
  se_run c se_init ops = Some st -> In s (st_tbl st) ->
  ss_ref s = Z.of_nat (length (ss_holders s)).
Proof.
  intros c ops st s H Hin.
  destruct (se_reachable c ops st H) as [[Hinv _] | [(Ht & _) _]].
  - destruct Hinv as (_ & _ & _ & Hh & _). rewrite Forall_forall in Hh. auto.
  - rewrite Ht in Hin. inversion Hin.
Qed.

(* one session per peer, one peer per session, identities never reused *)
Theorem se_table_injective : forall c ops st s1 s2,
  se_run c se_init ops = Some st -> In s1 (st_tbl st) -> In s2 (st_tbl st) ->
  (ss_key s1 = ss_key s2 <-> s1 = s2) /\ (ss_id s1 = ss_id s2 <-> s1 = s2).
Proof.
  intros c ops st s1 s2 H H1 H2.
  destruct (se_reachable c ops st H) as [[Hinv _] | [(Ht & _) _]];
    [|rewrite Ht in H1; inversion H1].
  destruct Hinv as (Hk & Hi & _).
  split; split; try (intros; subst; reflexivity).
  - intros E. eapply se_nodup_key_unique; eauto.
  - intros E. eapply se_nodup_id_unique; eauto.
Qed.

Lemma se_holders_nil : forall s, ss_ref s = Z.of_nat (length (ss_holders s)) -> ss_ref s = 0 ->
  ss_holders s = [].
Proof. intros s E E0. destruct (ss_holders s); [reflexivity | cbn [length] in E; lia]. Qed.

Lemma se_idle_true : forall s, se_idle s = true -> ss_ref s = 0 /\ ss_dq s = true.
Proof.
  intros s H. unfold se_idle in H. apply andb_true_iff in H. destruct H as [H1 H2].
  split; [lia | exact H2].
Qed.

(* a session is released only when the reclaim rule says so; in particular never while it
   has a holder *)
Theorem se_reclaim_rule : forall c ops st op sid,
  se_run c se_init ops = Some st -> se_op_ok c st op = true ->
  In (SeFree sid) (se_new_events c st op) ->
  exists s, In s (st_tbl st) /\ ss_id s = sid /\
    match op with
    | OpPrepare now =>
        ss_ref s = 0 /\ ss_holders s = [] /\ ss_dq s = true /\
        (ss_last s + se_timeout_ticks c <= now \/ ss_state s = se_state_none)
    | OpRx key now =>
        se_find key (st_tbl st) = None /\
        0 < cf_max_idle c <= se_count_idle (st_tbl st) /\
        ss_ref s = 0 /\ ss_holders s = [] /\ ss_dq s = true /\
        (forall s', In s' (st_tbl st) -> se_idle s' = true -> ss_last s <= ss_last s')
    | OpRxV key now v =>
        v = sid /\ se_find key (st_tbl st) = None /\
        0 < cf_max_idle c <= se_count_idle (st_tbl st) /\
        ss_ref s = 0 /\ ss_holders s = [] /\ ss_dq s = true /\
        (forall s', In s' (st_tbl st) -> se_idle s' = true -> ss_last s <= ss_last s')
    | OpFreeContext => ~ In se_h_app (ss_holders s)
    | _ => False
    end.
Proof.
  intros c ops st op sid H Hok Hin.
  assert (Href: forall s, In s (st_tbl st) -> ss_ref s = Z.of_nat (length (ss_holders s))).
  { intros s Hs. eapply se_ref_counts_holders; eauto. }
  destruct op; cbn [se_new_events] in Hin; try (inversion Hin; fail).
  - (* OpRx *)
    destruct (se_find key (st_tbl st)) eqn:Hf.
    + cbn [In] in Hin. destruct Hin as [E|[]]. discriminate.
    + unfold se_rx_evict in Hin.
      destruct (Z.ltb_spec 0 (cf_max_idle c)); cbn [andb] in Hin.
      * destruct (Z.leb_spec (cf_max_idle c) (se_count_idle (st_tbl st))).
        -- destruct (se_oldest (st_tbl st)) as [o|] eqn:Ho.
           ++ cbn [app In] in Hin.
              destruct Hin as [E|[E|[E|[E|[]]]]]; try discriminate. inversion E; subst sid.
              apply se_oldest_spec in Ho. destruct Ho as (Hi & Hidle & Hmin).
              destruct (se_idle_true o Hidle) as [R0 Dq].
              exists o. splits; auto. apply se_holders_nil; auto.
           ++ cbn [app In] in Hin. destruct Hin as [E|[E|[]]]; discriminate.
        -- cbn [app In] in Hin. destruct Hin as [E|[E|[]]]; discriminate.
      * cbn [app In] in Hin. destruct Hin as [E|[E|[]]]; discriminate.
  - (* OpRxV *)
    unfold se_op_ok in Hok. apply andb_true_iff in Hok. destruct Hok as [_ Hok].
    destruct (se_find key (st_tbl st)) eqn:Hf; [discriminate|].
    destruct (se_get victim (st_tbl st)) as [o|] eqn:Hg; [|discriminate].
    cbn [app In] in Hin. destruct Hin as [E|[E|[E|[E|[]]]]]; try discriminate. inversion E; subst sid.
    destruct (se_get_In _ _ _ Hg) as [Ho Eid].
    unfold se_valid_victim in Hok. repeat rewrite andb_true_iff in Hok.
    destruct Hok as [[[L1 L2] Hidle] Hall].
    destruct (se_idle_true o Hidle) as [R0 Dq].
    exists o. splits; auto; try lia.
    + apply se_holders_nil; auto.
    + intros s' Hs' Is'. rewrite forallb_forall in Hall. specialize (Hall s' Hs').
      rewrite Is' in Hall. cbn [negb orb] in Hall. lia.
  - (* OpAccept *)
    destruct Hin as [E|[]]. discriminate.
  - (* OpPrepare *)
    apply se_sweep_free_iff in Hin. destruct Hin as (s & Hs & E & Ex).
    exists s. splits; auto; unfold se_expired in Ex; apply andb_true_iff in Ex; destruct Ex as [Ei Et];
      destruct (se_idle_true s Ei) as [R0 Dq]; auto.
    + apply se_holders_nil; auto.
    + apply orb_true_iff in Et. destruct Et as [Et|Et]; [left; lia | right; unfold se_state_none in *; lia].
  - (* OpFreeContext *)
    apply se_sweep_free_iff in Hin. destruct Hin as (s' & Hs' & E & Ex).
    rewrite in_map_iff in Hs'. destruct Hs' as (s & Ed & Hs). subst s'.
    exists s. splits; auto.
    intro Happ. cbn [se_drop_lib ss_ref] in Ex. rewrite (Href s Hs) in Ex.
    assert (0 < Z.of_nat (length (filter (fun h => h =? se_h_app) (ss_holders s)))).
    { assert (In se_h_app (filter (fun h => h =? se_h_app) (ss_holders s))).
      { apply filter_In. split; [exact Happ | apply Z.eqb_refl]. }
      destruct (filter (fun h => h =? se_h_app) (ss_holders s)); [inversion H0 | cbn [length]; lia]. }
    lia.
Qed.

(* the scan reclaims exactly the sessions the rule names *)
Theorem se_prepare_complete : forall c st now s,
  In s (st_tbl st) ->
  (se_expired c now s = true ->
     In (SeDel (ss_id s)) (se_new_events c st (OpPrepare now)) /\
     In (SeFree (ss_id s)) (se_new_events c st (OpPrepare now))) /\
  (se_expired c now s = false -> In s (st_tbl (se_step c st (OpPrepare now)))) /\
  (forall s', In s' (st_tbl (se_step c st (OpPrepare now))) ->
              In s' (st_tbl st) /\ se_expired c now s' = false).
Proof.
  intros c st now s Hs. cbn [se_new_events se_step]. unfold se_prepare. rewrite se_scan_sweep.
  cbn [st_tbl]. splits.
  - intros Ex. assert (Hf: In (SeFree (ss_id s)) (se_sweep_ev (se_expired c now) (st_tbl st))).
    { apply se_sweep_free_iff. eauto. }
    split; auto. clear Hf. induction (st_tbl st) as [|x r IH]; [inversion Hs|].
    cbn [se_sweep_ev]. destruct Hs as [E|Hs].
    + subst x. rewrite Ex. left; auto.
    + destruct (se_expired c now x); [right; right|]; auto.
  - intros Ex. apply filter_In. split; auto. rewrite Ex. reflexivity.
  - intros s' Hs'. apply filter_In in Hs'. destruct Hs' as [H1 H2]. split; auto.
    destruct (se_expired c now s'); [discriminate | reflexivity].
Qed.

(* the idle limit: when it is reached a new peer pushes out the oldest idle session, and
   only then *)
Theorem se_evict_complete : forall c st key now,
  se_find key (st_tbl st) = None ->
  (0 < cf_max_idle c <= se_count_idle (st_tbl st) ->
     exists o, se_oldest (st_tbl st) = Some o /\
       se_new_events c st (OpRx key now) =
       [SeDel (ss_id o); SeFree (ss_id o); SeNew (st_next st) key; SeRx key (st_next st)]) /\
  (~ (0 < cf_max_idle c <= se_count_idle (st_tbl st)) ->
     se_new_events c st (OpRx key now) = [SeNew (st_next st) key; SeRx key (st_next st)]).
Proof.
  intros c st key now Hf. cbn [se_new_events]. rewrite Hf. unfold se_rx_evict. split.
  - intros [H1 H2]. destruct (se_oldest_exists (st_tbl st)) as (o & Ho); [lia|].
    exists o. split; auto.
    assert (0 <? cf_max_idle c = true) as -> by lia.
    assert (cf_max_idle c <=? se_count_idle (st_tbl st) = true) as -> by lia.
    cbn [andb]. rewrite Ho. reflexivity.
  - intros Hn.
    destruct (Z.ltb_spec 0 (cf_max_idle c)); cbn [andb]; [|reflexivity].
    destruct (Z.leb_spec (cf_max_idle c) (se_count_idle (st_tbl st))); [lia | reflexivity].
Qed.

(* same peer -> same session, as long as that session has not been released *)
Theorem se_rx_same_session : forall c ops st key sid now,
  se_run c se_init ops = Some st -> st_alive st = true ->
  In (SeRx key sid) (st_log st) -> ~ In (SeDel sid) (st_log st) ->
  se_new_events c st (OpRx key now) = [SeRx key sid].
Proof.
  intros c ops st key sid now H Ha Hrx Hnd.
  destruct (se_reachable c ops st H) as [[Hinv _] | [(_ & Hd & _) _]]; [|congruence].
  destruct Hinv as (Hk & Hi & _ & _ & Hl & m & Hm & Hp & _ & ND & Hiff).
  rewrite (Hl Ha) in Hiff. cbn [map] in Hiff.
  apply in_split in Hrx. destruct Hrx as (pre & post & E). rewrite E in Hm.
  apply se_mon_run_split in Hm. destruct Hm as (m0 & m1 & R0 & S & R1).
  destruct (se_mon_run_wf _ _ _ se_mwf_init R0) as [W0 _].
  assert (Hin: In (sid, key) (mo_live m0)).
  { unfold se_mon_step in S. destruct (mo_pending m0); [discriminate|].
    destruct (se_mon_has sid key (mo_live m0)) eqn:Hh; [|discriminate].
    apply se_mon_has_iff; auto. }
  assert (m1 = m0).
  { unfold se_mon_step in S. destruct (mo_pending m0); [discriminate|].
    destruct (se_mon_has sid key (mo_live m0)); [|discriminate]. inversion S; auto. }
  subst m1.
  assert (Hl': In (sid, key) (mo_live m)).
  { apply (se_live_persist post m0 m sid key W0 R1 Hin).
    intro Hd. apply Hnd. rewrite E. apply in_or_app. right. right. exact Hd. }
  apply Hiff in Hl'. rewrite app_nil_r in Hl'. apply se_pair_in_map in Hl'.
  destruct Hl' as (s & Hs & E1 & E2).
  cbn [se_new_events].
  destruct (se_find key (st_tbl st)) as [s'|] eqn:Hf.
  - apply se_find_In in Hf. destruct Hf as [Hs' Ek'].
    assert (s' = s).
    { apply (se_nodup_key_unique (st_tbl st)); auto. congruence. }
    subst s'. rewrite E1. reflexivity.
  - exfalso. eapply se_find_none; eauto.
Qed.

(* coap_free_context: nothing stays in the endpoint; with no application reference
   outstanding nothing is left behind at all and every session got its DEL + release *)
Lemma se_filter_app_count : forall l : list Z,
  (Z.of_nat (length l) - (Z.of_nat (length l) -
     Z.of_nat (length (filter (fun h => h =? se_h_app) l))) =? 0) = negb (se_has se_h_app l).
Proof.
  induction l as [|h r IH]; cbn [filter se_has length]; [reflexivity|].
  destruct (Z.eqb_spec h se_h_app).
  - cbn [length negb]. rewrite !Nat2Z.inj_succ. apply Z.eqb_neq. lia.
  - rewrite Nat2Z.inj_succ. rewrite <- IH. f_equal. lia.
Qed.

Lemma se_drop_lib_ref : forall s, ss_ref s = Z.of_nat (length (ss_holders s)) ->
  (ss_ref (se_drop_lib s) =? 0) = negb (se_has se_h_app (ss_holders s)).
Proof.
  intros s E. cbn [se_drop_lib ss_ref]. rewrite E. apply se_filter_app_count.
Qed.

Theorem se_teardown_empty : forall c ops st,
  se_run c se_init ops = Some st -> se_op_ok c st OpFreeContext = true ->
  let st' := se_step c st OpFreeContext in
  st_tbl st' = [] /\ st_alive st' = false /\
  (forall s, In s (st_leaked st') ->
     exists s0, In s0 (st_tbl st) /\ ss_id s0 = ss_id s /\ In se_h_app (ss_holders s0)) /\
  ((forall s, In s (st_tbl st) -> ~ In se_h_app (ss_holders s)) ->
     st_leaked st' = [] /\ se_log_closed (st_log st') = true).
Proof.
  intros c ops st H Hok. cbn zeta.
  unfold se_op_ok in Hok. apply andb_true_iff in Hok. destruct Hok as [Ha _].
  destruct (se_reachable c ops st H) as [[Hinv _] | [(_ & Hd & _) _]]; [|congruence].
  pose proof (se_dead_free_context st Ha Hinv) as (Ht & Hal & m & Hm & Hp & _ & _ & Hiff).
  destruct Hinv as (_ & _ & _ & Hh & Hl & _).
  cbn [se_step]. splits; auto.
  - intros s Hs. unfold se_free_context in Hs. rewrite se_teardown_sweep in Hs.
    cbn [st_leaked] in Hs. rewrite (Hl Ha) in Hs. cbn [app] in Hs.
    apply filter_In in Hs. destruct Hs as [Hs Hr]. rewrite in_map_iff in Hs.
    destruct Hs as (s0 & E & Hs0). subst s. exists s0. splits; auto.
    rewrite Forall_forall in Hh. rewrite (se_drop_lib_ref s0 (Hh s0 Hs0)) in Hr.
    rewrite negb_involutive in Hr. apply se_has_In. exact Hr.
  - intros Hno.
    assert (Hlk: st_leaked (se_free_context st) = []).
    { unfold se_free_context. rewrite se_teardown_sweep. cbn [st_leaked]. rewrite (Hl Ha). cbn [app].
      rewrite Forall_forall in Hh.
      induction (st_tbl st) as [|x r IH]; cbn [map filter]; [reflexivity|].
      rewrite (se_drop_lib_ref x (Hh x (or_introl eq_refl))).
      assert (se_has se_h_app (ss_holders x) = false) as ->.
      { destruct (se_has se_h_app (ss_holders x)) eqn:E; auto.
        apply se_has_In in E. exfalso. apply (Hno x); [left; auto | exact E]. }
      cbn [negb]. apply IH.
      - intros s Hs. apply Hh. right; auto.
      - intros s Hs. apply Hno. right; auto. }
    split; auto. unfold se_log_closed. rewrite Hm, Hp.
    rewrite Ht, Hlk in Hiff. cbn [map app] in Hiff.
    destruct (mo_live m) as [|[a b] r]; [reflexivity|].
    exfalso. apply (Hiff a b). left; reflexivity.
Qed.

(* ------------------------------------------------------------------ non-vacuity and witnesses *)
Definition se_example_cfg : se_cfg := mkCfg 2 2.

(* three peers with an idle limit of two, an application reference, a queue node, a timeout
   and the teardown *)
Definition se_example_ops : list se_op :=
  [OpRx 10 1000; OpRx 11 1001; OpAdd 1 se_h_app; OpAdd 2 se_h_lib; OpRx 12 1002;
   OpRx 13 1003; OpRx 10 1500; OpRem 2 se_h_lib; OpPrepare 3002; OpPrepare 3003;
   OpRem 1 se_h_app; OpPrepare 9000; OpRx 11 9001; OpFreeContext].

Example se_example_run :
  match se_run se_example_cfg se_init se_example_ops with
  | Some st =>
      st_log st =
      [SeNew 1 10; SeRx 10 1; SeNew 2 11; SeRx 11 2; SeNew 3 12; SeRx 12 3;
       SeNew 4 13; SeRx 13 4; SeRx 10 1; SeDel 2; SeFree 2; SeDel 3; SeFree 3; SeDel 4; SeFree 4;
       SeDel 1; SeFree 1; SeNew 5 11; SeRx 11 5; SeDel 5; SeFree 5] /\
      st_leaked st = [] /\ se_log_closed (st_log st) = true
  | None => False
  end.
Proof. vm_compute. repeat split; reflexivity. Qed.

(* the idle limit pushes out the oldest idle session *)
Example se_example_evict :
  match se_run (mkCfg 300 2) se_init [OpRx 10 1000; OpRx 11 1001; OpRx 12 1002] with
  | Some st => st_log st = [SeNew 1 10; SeRx 10 1; SeNew 2 11; SeRx 11 2; SeDel 1; SeFree 1;
                            SeNew 3 12; SeRx 12 3]
  | None => False
  end.
Proof. vm_compute. reflexivity. Qed.

(* coap_free_context while the application holds a reference leaves the session behind:
   "everything is released" does not hold for that history (libcoap behaves like this) *)
Theorem se_teardown_with_app_reference_refuted :
  exists ops st, se_run se_example_cfg se_init ops = Some st /\ st_alive st = false /\
                 st_leaked st <> [] /\ se_log_closed (st_log st) = false.
Proof.
  exists [OpRx 10 1000; OpAdd 1 se_h_app; OpFreeContext].
  eexists. split; [vm_compute; reflexivity|]. cbn. repeat split; discriminate.
Qed.

(* ------------------------------------------------------------------ summary statements *)
(* what an accepted event log guarantees (any log: the model's or the implementation's) *)
Definition se_log_bracketed (log : list se_ev) : Prop :=
  (* never two SESSION_NEW for one session *)
  (forall l1 s k1 l2 k2 l3, log = l1 ++ SeNew s k1 :: l2 ++ SeNew s k2 :: l3 -> False) /\
  (* never two SESSION_DEL for one session *)
  (forall l1 s l2 l3, log = l1 ++ SeDel s :: l2 ++ SeDel s :: l3 -> False) /\
  (* SESSION_DEL comes after the session's SESSION_NEW and the release follows at once *)
  (forall pre s rest, log = pre ++ SeDel s :: rest ->
     (exists rest', rest = SeFree s :: rest') /\ (exists k, In (SeNew s k) pre)) /\
  (* a release happens only right after the SESSION_DEL of that session *)
  (forall pre s rest, log = pre ++ SeFree s :: rest -> exists pre', pre = pre' ++ [SeDel s]).

Definition se_log_injective (log : list se_ev) : Prop :=
  (* a datagram is handled by a session created for its peer that still exists *)
  (forall pre k s post, log = pre ++ SeRx k s :: post -> In (SeNew s k) pre /\ ~ In (SeDel s) pre) /\
  (* different peers -> different sessions *)
  (forall k1 k2 s, In (SeRx k1 s) log -> In (SeRx k2 s) log -> k1 = k2) /\
  (* same peer -> same session while that session exists *)
  (forall l1 k s1 l2 s2 l3, log = l1 ++ SeRx k s1 :: l2 ++ SeRx k s2 :: l3 ->
     ~ In (SeDel s1) l2 -> s1 = s2).

Theorem se_log_ok_sound : forall log,
  se_log_ok log = true -> se_log_bracketed log /\ se_log_injective log.
Proof.
  intros log Hok. split; [unfold se_log_bracketed | unfold se_log_injective]; splits.
  - apply se_ok_new_once; auto.
  - apply se_ok_del_once; auto.
  - apply se_ok_del_then_free; auto.
  - apply se_ok_free_after_del; auto.
  - apply se_ok_rx_live; auto.
  - apply se_ok_rx_injective; auto.
  - apply se_ok_rx_functional; auto.
Qed.

Theorem se_events_bracketed : forall c ops st,
  se_run c se_init ops = Some st -> se_log_bracketed (st_log st).
Proof. intros c ops st H. apply se_log_ok_sound. eapply se_run_log_ok; eauto. Qed.

Theorem se_functional_injective : forall c ops st,
  se_run c se_init ops = Some st ->
  se_log_injective (st_log st) /\
  (forall s1 s2, In s1 (st_tbl st) -> In s2 (st_tbl st) ->
     (ss_key s1 = ss_key s2 <-> s1 = s2) /\ (ss_id s1 = ss_id s2 <-> s1 = s2)).
Proof.
  intros c ops st H. split.
  - apply se_log_ok_sound. eapply se_run_log_ok; eauto.
  - intros s1 s2. eapply se_table_injective; eauto.
Qed.

(* the session the code evicts (first of the oldest idle ones in iteration order) is one of the
   victims the property allows; OpRxV with that victim is the same step *)
Theorem se_evict_is_valid : forall c tbl o,
  se_rx_evict c tbl = Some o -> se_valid_victim c tbl o = true.
Proof.
  intros c tbl o H. unfold se_rx_evict in H. unfold se_valid_victim.
  destruct ((0 <? cf_max_idle c) && (cf_max_idle c <=? se_count_idle tbl)) eqn:E; [|discriminate].
  apply se_oldest_spec in H. destruct H as (Hin & Hidle & Hmin).
  cbn [andb]. rewrite Hidle. cbn [andb]. apply forallb_forall. intros s Hs.
  destruct (se_idle s) eqn:Is; cbn [negb orb]; [|reflexivity].
  specialize (Hmin s Hs Is). lia.
Qed.

Theorem se_rx_victim_same : forall c st key now o,
  NoDup (map ss_id (st_tbl st)) ->
  se_find key (st_tbl st) = None -> se_rx_evict c (st_tbl st) = Some o ->
  se_step c st (OpRxV key now (ss_id o)) = se_step c st (OpRx key now).
Proof.
  intros c st key now o ND Hf He. cbn [se_step]. unfold se_rx_victim, se_rx. rewrite Hf, He.
  assert (Ho: In o (st_tbl st)).
  { unfold se_rx_evict in He.
    destruct ((0 <? cf_max_idle c) && (cf_max_idle c <=? se_count_idle (st_tbl st))); [|discriminate].
    apply se_oldest_spec in He. tauto. }
  destruct (se_get_some_of_In (ss_id o) (st_tbl st) o Ho eq_refl) as (o' & G). rewrite G.
  destruct (se_get_In _ _ _ G) as [Ho' E].
  rewrite (se_nodup_id_unique (st_tbl st) o' o ND Ho' Ho E). reflexivity.
Qed.

(* Sessions/ClientProofs.v - client sessions: released exactly when the last holder leaves. *)
From LibcoapV Require Import Base.Tactics Sessions.Sessions Sessions.SessionsProofs Sessions.Client.
Local Open Scope Z_scope.

Fixpoint sec_news (log : list sec_ev) : list Z :=
  match log with
  | [] => []
  | CNew s :: r => s :: sec_news r
  | CFree _ :: r => sec_news r
  end.
Fixpoint sec_frees (log : list sec_ev) : list Z :=
  match log with
  | [] => []
  | CNew _ :: r => sec_frees r
  | CFree s :: r => s :: sec_frees r
  end.

Lemma sec_news_app : forall a b, sec_news (a ++ b) = sec_news a ++ sec_news b.
Proof. induction a as [|[s|s] r IH]; intros b; cbn; [reflexivity | rewrite IH; reflexivity | apply IH]. Qed.
Lemma sec_frees_app : forall a b, sec_frees (a ++ b) = sec_frees a ++ sec_frees b.
Proof. induction a as [|[s|s] r IH]; intros b; cbn; [reflexivity | apply IH | rewrite IH; reflexivity]. Qed.
Lemma sec_news_In : forall log s, In s (sec_news log) <-> In (CNew s) log.
Proof.
  induction log as [|[x|x] r IH]; intros s; cbn [sec_news In]; [tauto | |].
  - rewrite IH. split; [intros [E|E]; [left; congruence | right; auto]
                       | intros [E|E]; [left; congruence | right; auto]].
  - rewrite IH. split; [auto | intros [E|E]; [discriminate | auto]].
Qed.
Lemma sec_frees_In : forall log s, In s (sec_frees log) <-> In (CFree s) log.
Proof.
  induction log as [|[x|x] r IH]; intros s; cbn [sec_frees In]; [tauto | |].
  - rewrite IH. split; [auto | intros [E|E]; [discriminate | auto]].
  - rewrite IH. split; [intros [E|E]; [left; congruence | right; auto]
                       | intros [E|E]; [left; congruence | right; auto]].
Qed.

(* table lemmas *)
Lemma sec_get_In : forall sid tbl s, sec_get sid tbl = Some s -> In s tbl /\ cs_id s = sid.
Proof.
  induction tbl as [|x r IH]; cbn [sec_get]; intros s H; [discriminate|].
  destruct (Z.eqb_spec (cs_id x) sid).
  - inversion H; subst. split; [left; reflexivity | reflexivity].
  - destruct (IH s H). split; [right|]; auto.
Qed.
Lemma sec_get_none : forall sid tbl, sec_get sid tbl = None -> forall s, In s tbl -> cs_id s <> sid.
Proof.
  induction tbl as [|x r IH]; cbn [sec_get In]; intros H s Hin; [tauto|].
  destruct (Z.eqb_spec (cs_id x) sid); [discriminate|].
  destruct Hin as [E|Hin]; [subst; auto | apply IH; auto].
Qed.
Lemma sec_upd_ids : forall sid f tbl, (forall s, cs_id (f s) = cs_id s) ->
  map cs_id (sec_upd sid f tbl) = map cs_id tbl.
Proof.
  intros sid f tbl Hf. induction tbl as [|x r IH]; cbn [sec_upd map]; [reflexivity|].
  destruct (cs_id x =? sid); cbn [map]; [rewrite Hf | rewrite IH]; reflexivity.
Qed.
Lemma sec_upd_forall : forall (P : sec_sess -> Prop) sid f tbl,
  Forall P tbl -> (forall s, sec_get sid tbl = Some s -> P s -> P (f s)) ->
  Forall P (sec_upd sid f tbl).
Proof.
  intros P sid f tbl. induction tbl as [|x r IH]; cbn [sec_upd sec_get]; intros HF Hf; [constructor|].
  inversion HF; subst. destruct (Z.eqb_spec (cs_id x) sid); constructor; auto.
Qed.
Lemma sec_del_In : forall sid tbl s, In s (sec_del sid tbl) -> In s tbl.
Proof.
  induction tbl as [|x r IH]; cbn [sec_del In]; intros s H; [tauto|].
  destruct (cs_id x =? sid); cbn [In] in *; intuition.
Qed.
Lemma sec_del_nodup : forall sid tbl, NoDup (map cs_id tbl) -> NoDup (map cs_id (sec_del sid tbl)).
Proof.
  induction tbl as [|x r IH]; cbn [sec_del map]; intros H; auto.
  inversion H; subst. destruct (cs_id x =? sid); auto. cbn [map]. constructor; auto.
  intro Hin. apply H2. rewrite in_map_iff in *. destruct Hin as (y & E & Hy).
  exists y. split; auto. eapply sec_del_In; eauto.
Qed.
Lemma sec_del_notin : forall sid tbl, NoDup (map cs_id tbl) ->
  forall s, In s (sec_del sid tbl) -> cs_id s <> sid.
Proof.
  induction tbl as [|x r IH]; cbn [sec_del map]; intros ND s H; [inversion H|].
  inversion ND; subst. destruct (Z.eqb_spec (cs_id x) sid).
  - intro E. apply H2. rewrite in_map_iff. exists s. split; [congruence | auto].
  - cbn [In] in H. destruct H as [E|H]; [subst; auto | apply IH; auto].
Qed.
Lemma sec_del_other : forall sid tbl s, In s tbl -> cs_id s <> sid -> In s (sec_del sid tbl).
Proof.
  induction tbl as [|x r IH]; cbn [sec_del In]; intros s H Hne; [tauto|].
  destruct (Z.eqb_spec (cs_id x) sid); destruct H as [E|H]; subst; cbn [In]; auto; congruence.
Qed.

(* ------------------------------------------------------------------ invariant *)
Definition sec_good (s : sec_sess) : Prop :=
  cs_ref s = Z.of_nat (length (cs_holders s)) /\ 1 <= cs_ref s.

Definition sec_inv (st : sec_st) : Prop :=
  ct_alive st = true /\ ct_left st = [] /\ 1 <= ct_next st /\
  NoDup (map cs_id (ct_tbl st)) /\
  Forall sec_good (ct_tbl st) /\
  NoDup (sec_news (ct_log st)) /\ NoDup (sec_frees (ct_log st)) /\
  (forall sid, In sid (sec_news (ct_log st)) -> 1 <= sid < ct_next st) /\
  (forall sid, In sid (sec_frees (ct_log st)) -> In sid (sec_news (ct_log st))) /\
  (forall sid, In sid (map cs_id (ct_tbl st)) <->
               In sid (sec_news (ct_log st)) /\ ~ In sid (sec_frees (ct_log st))).

Lemma sec_inv_init : sec_inv sec_init.
Proof.
  unfold sec_inv, sec_init. cbn. splits; try constructor; try lia; try tauto.
Qed.

Lemma sec_nodup_snoc : forall (l : list Z) x, NoDup l -> ~ In x l -> NoDup (l ++ [x]).
Proof. exact se_nodup_snoc. Qed.

Lemma sec_nodup_app : forall (l1 l2 : list Z),
  NoDup l1 -> NoDup l2 -> (forall x, In x l1 -> ~ In x l2) -> NoDup (l1 ++ l2).
Proof.
  induction l1 as [|y l IH]; intros l2 N1 N2 Hd; cbn [app]; auto.
  inversion N1; subst. constructor.
  - rewrite in_app_iff. intros [H|H]; [auto | apply (Hd y); [left; auto | auto]].
  - apply IH; auto. intros x Hx. apply Hd. right; auto.
Qed.

Lemma sec_step_inv : forall st op, sec_inv st -> sec_op_ok st op = true ->
  match op with COpFreeContext => True | _ => sec_inv (sec_step st op) end.
Proof.
  intros st op (Ha & Hl & Hn & ND & HG & N1 & N2 & Hr & Hs & Hiff) Hok.
  unfold sec_op_ok in Hok. rewrite Ha in Hok. cbn [andb] in Hok.
  destruct op; cbn [sec_step]; auto.
  - (* new *)
    unfold sec_inv. cbn [ct_tbl ct_next ct_log ct_alive ct_left].
    rewrite map_app, sec_news_app, sec_frees_app. cbn [map cs_id sec_news sec_frees].
    rewrite app_nil_r.
    assert (Hfresh: ~ In (ct_next st) (sec_news (ct_log st))).
    { intro H. apply Hr in H. lia. }
    splits; auto; try lia.
    + apply sec_nodup_snoc; auto. intro H. apply Hiff in H. tauto.
    + apply Forall_app. split; auto. constructor; [|constructor]. unfold sec_good. cbn. lia.
    + apply sec_nodup_snoc; auto.
    + intros sid H. apply in_app_or in H. destruct H as [H|[H|[]]]; [apply Hr in H; lia | lia].
    + intros sid H. apply in_or_app. left. auto.
    + intros sid. rewrite !in_app_iff. cbn [In]. rewrite Hiff. split.
      * intros [[H1 H2]|[E|[]]]; [tauto|]. subst sid. split; [auto|].
        intro H. apply Hs in H. contradiction.
      * intros [[H|[E|[]]] H2]; [left; tauto | right; auto].
  - (* add *)
    unfold sec_inv. cbn [ct_tbl ct_next ct_log ct_alive ct_left].
    rewrite sec_upd_ids; [|reflexivity]. splits; auto.
    apply sec_upd_forall; auto. intros s _ [E1 E2]. unfold sec_good, sec_add_holder. cbn.
    rewrite Zpos_P_of_succ_nat. lia.
  - (* release *)
    unfold sec_release. destruct (sec_get sid (ct_tbl st)) as [s|] eqn:G; [|discriminate].
    destruct (sec_get_In _ _ _ G) as [Hin Eid].
    rewrite Forall_forall in HG. destruct (HG s Hin) as [Er Ep].
    assert (Hrm: cs_ref (sec_rem_holder h s) = Z.of_nat (length (cs_holders (sec_rem_holder h s)))).
    { unfold sec_rem_holder. cbn [cs_ref cs_holders]. rewrite (se_remove1_length _ _ Hok).
      destruct (Z.ltb_spec 0 (cs_ref s)); lia. }
    destruct (Z.eqb_spec (cs_ref (sec_rem_holder h s)) 0) as [E0|E0].
    + unfold sec_inv. cbn [ct_tbl ct_next ct_log ct_alive ct_left].
      rewrite sec_news_app, sec_frees_app. cbn [sec_news sec_frees]. rewrite app_nil_r.
      assert (Hlive: In sid (map cs_id (ct_tbl st))).
      { rewrite in_map_iff. exists s. auto. }
      apply Hiff in Hlive. destruct Hlive as [Hnew Hnf].
      splits; auto.
      * apply sec_del_nodup; auto.
      * rewrite Forall_forall. intros x Hx. apply HG. eapply sec_del_In; eauto.
      * apply sec_nodup_snoc; auto.
      * intros x H. apply in_app_or in H. destruct H as [H|[H|[]]]; [auto | subst; auto].
      * intros x. rewrite in_app_iff. cbn [In]. split.
        -- intros H. rewrite in_map_iff in H. destruct H as (y & Ey & Hy).
           pose proof (sec_del_notin sid (ct_tbl st) ND y Hy) as Hne.
           assert (In x (map cs_id (ct_tbl st))).
           { rewrite in_map_iff. exists y. split; auto. eapply sec_del_In; eauto. }
           apply Hiff in H. destruct H as [H1 H2]. split; auto.
           intros [H3|[H3|[]]]; [auto | subst; congruence].
        -- intros [H1 H2]. assert (In x (map cs_id (ct_tbl st))).
           { apply Hiff. split; auto. }
           rewrite in_map_iff in H. destruct H as (y & Ey & Hy). rewrite in_map_iff. exists y.
           split; auto. apply sec_del_other; auto. intro E. apply H2. right. left. congruence.
    + unfold sec_inv. cbn [ct_tbl ct_next ct_log ct_alive ct_left].
      rewrite sec_upd_ids; [|reflexivity]. splits; auto.
      apply sec_upd_forall; [rewrite Forall_forall; auto|].
      intros s' G' _. rewrite G in G'. inversion G'; subst s'. split; auto.
      unfold sec_rem_holder in *. cbn [cs_ref cs_holders] in *.
      destruct (Z.ltb_spec 0 (cs_ref s)); lia.
Qed.

Lemma sec_run_dead : forall st ops st', ct_alive st = false -> sec_run st ops = Some st' -> st' = st.
Proof.
  intros st ops st' Ha. destruct ops as [|op r]; cbn [sec_run]; [congruence|].
  unfold sec_op_ok. rewrite Ha. cbn. discriminate.
Qed.

Lemma sec_reachable : forall ops st st', sec_inv st -> sec_run st ops = Some st' ->
  sec_inv st' \/ exists st0, sec_inv st0 /\ st' = sec_step st0 COpFreeContext.
Proof.
  induction ops as [|op r IH]; intros st st' Hinv H; cbn [sec_run] in H.
  - inversion H; subst. left; auto.
  - destruct (sec_op_ok st op) eqn:Hok; [|discriminate].
    pose proof (sec_step_inv st op Hinv Hok) as Hs.
    destruct op; try (apply (IH _ _ Hs H); fail).
    assert (ct_alive (sec_step st COpFreeContext) = false).
    { cbn [sec_step]. destruct (sec_teardown (ct_tbl st)). reflexivity. }
    apply sec_run_dead in H; auto. subst st'. right. exists st. auto.
Qed.

(* ------------------------------------------------------------------ theorems *)
(* in every reachable state a client session in the table is referenced, and ref = |holders| *)
Theorem sec_ref_counts_holders : forall ops st s,
  sec_run sec_init ops = Some st -> In s (ct_tbl st) ->
  cs_ref s = Z.of_nat (length (cs_holders s)) /\ 1 <= cs_ref s.
Proof.
  intros ops st s H Hin. destruct (sec_reachable ops sec_init st sec_inv_init H) as [Hinv | (st0 & _ & E)].
  - destruct Hinv as (_ & _ & _ & _ & HG & _). rewrite Forall_forall in HG. apply HG; auto.
  - subst st. cbn [sec_step] in Hin. destruct (sec_teardown (ct_tbl st0)). cbn in Hin. inversion Hin.
Qed.

Lemma sec_teardown_free : forall tbl sid,
  In (CFree sid) (snd (sec_teardown tbl)) ->
  exists s, In s tbl /\ cs_id s = sid /\
    cs_ref s - (Z.of_nat (length (cs_holders s)) - Z.of_nat (length (sec_keep_app s))) <= 1.
Proof.
  induction tbl as [|x r IH]; cbn [sec_teardown]; intros sid H; [inversion H|].
  destruct (sec_teardown r) as [k ev] eqn:T. cbn [snd] in IH.
  destruct (Z.leb_spec (cs_ref x - (Z.of_nat (length (cs_holders x)) - Z.of_nat (length (sec_keep_app x)))) 1).
  - cbn [snd In] in H. destruct H as [E|H].
    + inversion E; subst. exists x. splits; auto. left; auto.
    + destruct (IH sid H) as (s & Hs & E1 & E2). exists s. splits; auto. right; auto.
  - cbn [snd] in H. destruct (IH sid H) as (s & Hs & E1 & E2). exists s. splits; auto. right; auto.
Qed.

(* a client session is released only when its last holder leaves (or, at teardown, when the
   application holds no reference beyond the one the context consumes): never while held *)
Theorem sec_free_rule : forall ops st op sid,
  sec_run sec_init ops = Some st -> sec_op_ok st op = true ->
  In (CFree sid) (sec_new_events st op) ->
  exists s, In s (ct_tbl st) /\ cs_id s = sid /\
    match op with
    | COpRem sid' h => sid' = sid /\ cs_holders s = [h]
    | COpFreeContext => (length (sec_keep_app s) <= 1)%nat
    | _ => False
    end.
Proof.
  intros ops st op sid H Hok Hin.
  assert (HG: forall s, In s (ct_tbl st) -> cs_ref s = Z.of_nat (length (cs_holders s)) /\ 1 <= cs_ref s).
  { intros s Hs. eapply sec_ref_counts_holders; eauto. }
  destruct op; cbn [sec_new_events] in Hin.
  - destruct Hin as [E|[]]. discriminate.
  - inversion Hin.
  - destruct (sec_get sid0 (ct_tbl st)) as [s|] eqn:G; [|inversion Hin].
    destruct (Z.eqb_spec (cs_ref (sec_rem_holder h s)) 0); [|inversion Hin].
    destruct Hin as [E|[]]. inversion E; subst sid0.
    destruct (sec_get_In _ _ _ G) as [Hs Eid]. exists s. splits; auto.
    unfold sec_op_ok in Hok. apply andb_true_iff in Hok. destruct Hok as [_ Hok]. rewrite G in Hok.
    destruct (HG s Hs) as [Er Ep]. unfold sec_rem_holder in e. cbn [cs_ref] in e.
    assert (cs_ref s = 1) by (destruct (Z.ltb_spec 0 (cs_ref s)); lia).
    destruct (cs_holders s) as [|a [|b t]] eqn:Eh; cbn [length] in Er; try lia.
    cbn [se_has] in Hok. destruct (Z.eqb_spec a h); [subst; reflexivity | discriminate].
  - apply sec_teardown_free in Hin. destruct Hin as (s & Hs & E1 & E2).
    exists s. splits; auto. destruct (HG s Hs) as [Er _]. lia.
Qed.

(* ... and it is released as soon as that happens: no idle client sessions *)
Theorem sec_freed_at_zero : forall st sid h s,
  sec_get sid (ct_tbl st) = Some s -> cs_ref s = Z.of_nat (length (cs_holders s)) ->
  NoDup (map cs_id (ct_tbl st)) ->
  (cs_holders s = [h] ->
     sec_new_events st (COpRem sid h) = [CFree sid] /\
     forall s', In s' (ct_tbl (sec_step st (COpRem sid h))) -> cs_id s' <> sid) /\
  (se_has h (cs_holders s) = true -> (2 <= length (cs_holders s))%nat ->
     sec_new_events st (COpRem sid h) = [] /\
     exists s', In s' (ct_tbl (sec_step st (COpRem sid h))) /\ cs_id s' = sid /\
                cs_ref s' = cs_ref s - 1).
Proof.
  intros st sid h s G Er ND. cbn [sec_new_events sec_step]. unfold sec_release. rewrite G. split.
  - intros Eh. unfold sec_rem_holder. cbn [cs_ref]. rewrite Er, Eh. cbn [length].
    cbn. split; [reflexivity|]. intros s' Hs'. eapply sec_del_notin; eauto.
  - intros Hh Hlen.
    assert (E: (cs_ref (sec_rem_holder h s) =? 0) = false).
    { unfold sec_rem_holder. cbn [cs_ref]. destruct (Z.ltb_spec 0 (cs_ref s)); lia. }
    rewrite E. split; [reflexivity|]. cbn [ct_tbl].
    exists (sec_rem_holder h s). splits.
    + clear - G. induction (ct_tbl st) as [|x r IH]; cbn [sec_get sec_upd] in *; [discriminate|].
      destruct (cs_id x =? sid).
      * inversion G; subst. cbn [In]. left. reflexivity.
      * cbn [In]. right. auto.
    + destruct (sec_get_In _ _ _ G). auto.
    + unfold sec_rem_holder. cbn [cs_ref]. assert (0 <? cs_ref s = true) as -> by lia. reflexivity.
Qed.

Lemma sec_step_log : forall st op,
  ct_log (sec_step st op) = ct_log st ++ sec_new_events st op.
Proof.
  intros st op. destruct op; cbn [sec_step sec_new_events ct_log]; try (rewrite app_nil_r; reflexivity).
  - reflexivity.
  - unfold sec_release. destruct (sec_get sid (ct_tbl st)) as [s|]; [|rewrite app_nil_r; reflexivity].
    destruct (cs_ref (sec_rem_holder h s) =? 0); cbn [ct_log]; [reflexivity | rewrite app_nil_r; reflexivity].
  - destruct (sec_teardown (ct_tbl st)); reflexivity.
Qed.

Lemma sec_teardown_events : forall tbl, NoDup (map cs_id tbl) ->
  sec_news (snd (sec_teardown tbl)) = [] /\
  NoDup (sec_frees (snd (sec_teardown tbl))) /\
  (forall sid, In sid (sec_frees (snd (sec_teardown tbl))) -> In sid (map cs_id tbl)).
Proof.
  induction tbl as [|x r IH]; cbn [sec_teardown]; intros ND.
  - cbn. splits; [reflexivity | constructor | tauto].
  - inversion ND; subst. destruct (IH H2) as (A & B & C). destruct (sec_teardown r) as [k ev].
    cbn [snd] in *.
    destruct (cs_ref x - (Z.of_nat (length (cs_holders x)) - Z.of_nat (length (sec_keep_app x))) <=? 1);
      cbn [snd sec_frees sec_news map In].
    + splits; auto. constructor; auto.
      intros sid [E|E]; auto.
    + splits; auto.
Qed.

(* every session is announced once and released at most once, and only after it was created *)
Theorem sec_log_bracketed : forall ops st,
  sec_run sec_init ops = Some st ->
  NoDup (sec_news (ct_log st)) /\ NoDup (sec_frees (ct_log st)) /\
  (forall sid, In (CFree sid) (ct_log st) -> In (CNew sid) (ct_log st)).
Proof.
  intros ops st H.
  destruct (sec_reachable ops sec_init st sec_inv_init H) as [Hinv | (st0 & Hinv & E)].
  - destruct Hinv as (_ & _ & _ & _ & _ & N1 & N2 & _ & Hs & _). splits; auto.
    intros sid Hf. apply sec_news_In. apply Hs. apply sec_frees_In. auto.
  - subst st. destruct Hinv as (_ & _ & _ & ND & _ & N1 & N2 & _ & Hs & Hiff).
    rewrite sec_step_log. cbn [sec_new_events].
    destruct (sec_teardown_events (ct_tbl st0) ND) as (A & B & C).
    rewrite sec_news_app, sec_frees_app, A, app_nil_r. splits; auto.
    + (* frees stay distinct: what the teardown releases was still in the table *)
      assert (Hdisj: forall x, In x (sec_frees (ct_log st0)) ->
                               ~ In x (sec_frees (snd (sec_teardown (ct_tbl st0))))).
      { intros x H1 H2. apply C in H2. apply Hiff in H2. tauto. }
      apply sec_nodup_app; auto.
    + intros sid Hf. apply sec_news_In. apply sec_frees_In in Hf. rewrite sec_frees_app in Hf.
      rewrite sec_news_app, A, app_nil_r.
      apply in_app_or in Hf. destruct Hf as [Hf|Hf]; [apply Hs; auto|].
      apply C in Hf. apply Hiff in Hf. tauto.
Qed.

(* teardown: nothing stays in the context; what is left behind are sessions on which the
   application holds more than one reference; otherwise every session ever created is released *)
Lemma sec_teardown_left : forall tbl s,
  In s (fst (sec_teardown tbl)) ->
  exists s0, In s0 tbl /\ cs_id s0 = cs_id s /\
    1 < cs_ref s0 - (Z.of_nat (length (cs_holders s0)) - Z.of_nat (length (sec_keep_app s0))).
Proof.
  induction tbl as [|x r IH]; cbn [sec_teardown]; intros s H; [inversion H|].
  destruct (sec_teardown r) as [k ev] eqn:T. cbn [fst] in IH.
  destruct (Z.leb_spec (cs_ref x - (Z.of_nat (length (cs_holders x)) - Z.of_nat (length (sec_keep_app x)))) 1).
  - cbn [fst] in H. destruct (IH s H) as (s0 & A & B & C). exists s0. splits; auto. right; auto.
  - cbn [fst In] in H. destruct H as [E|H].
    + subst s. exists x. splits; auto. left; auto.
    + destruct (IH s H) as (s0 & A & B & C). exists s0. splits; auto. right; auto.
Qed.

Lemma sec_teardown_all_freed : forall tbl,
  (forall s, In s tbl ->
     cs_ref s - (Z.of_nat (length (cs_holders s)) - Z.of_nat (length (sec_keep_app s))) <= 1) ->
  fst (sec_teardown tbl) = [] /\
  forall s, In s tbl -> In (cs_id s) (sec_frees (snd (sec_teardown tbl))).
Proof.
  induction tbl as [|x r IH]; cbn [sec_teardown]; intros H.
  - cbn. split; [reflexivity | tauto].
  - destruct IH as [A B]; [intros s Hs; apply H; right; auto|].
    destruct (sec_teardown r) as [k ev]. cbn [fst snd] in *.
    assert (cs_ref x - (Z.of_nat (length (cs_holders x)) - Z.of_nat (length (sec_keep_app x))) <=? 1 = true) as ->.
    { specialize (H x (or_introl eq_refl)). lia. }
    cbn [fst snd sec_frees]. split; auto.
    intros s [E|Hs]; [subst; left; auto | right; auto].
Qed.

Theorem sec_teardown_empty : forall ops st,
  sec_run sec_init ops = Some st -> sec_op_ok st COpFreeContext = true ->
  let st' := sec_step st COpFreeContext in
  ct_tbl st' = [] /\ ct_alive st' = false /\
  (forall s, In s (ct_left st') ->
     exists s0, In s0 (ct_tbl st) /\ cs_id s0 = cs_id s /\ (2 <= length (sec_keep_app s0))%nat) /\
  ((forall s, In s (ct_tbl st) -> (length (sec_keep_app s) <= 1)%nat) ->
     ct_left st' = [] /\
     forall sid, In (CNew sid) (ct_log st') -> In (CFree sid) (ct_log st')).
Proof.
  intros ops st H Hok. cbn zeta.
  unfold sec_op_ok in Hok. apply andb_true_iff in Hok. destruct Hok as [Ha _].
  destruct (sec_reachable ops sec_init st sec_inv_init H) as [Hinv | (st0 & _ & E)].
  2:{ subst st. cbn [sec_step] in Ha. destruct (sec_teardown (ct_tbl st0)). discriminate. }
  destruct Hinv as (_ & Hl & _ & ND & HG & _ & _ & _ & Hs & Hiff).
  rewrite Forall_forall in HG.
  assert (Hlog := sec_step_log st COpFreeContext). cbn [sec_new_events] in Hlog.
  cbn [sec_step] in *. destruct (sec_teardown (ct_tbl st)) as [k ev] eqn:T.
  cbn [ct_tbl ct_alive ct_left ct_log snd] in *. rewrite Hl. cbn [app]. splits; auto.
  - intros s Hk. destruct (sec_teardown_left (ct_tbl st) s) as (s0 & A & B & C); [rewrite T; auto|].
    exists s0. splits; auto. destruct (HG s0 A) as [Er _]. lia.
  - intros Hno. destruct (sec_teardown_all_freed (ct_tbl st)) as [A B].
    { intros s Hs'. destruct (HG s Hs') as [Er _]. specialize (Hno s Hs'). lia. }
    rewrite T in A, B. cbn [fst snd] in A, B. split; auto.
    intros sid Hn. apply sec_news_In in Hn. rewrite sec_news_app in Hn.
    destruct (sec_teardown_events (ct_tbl st) ND) as (Nn & _ & _). rewrite T in Nn. cbn [snd] in Nn.
    rewrite Nn, app_nil_r in Hn.
    apply sec_frees_In. rewrite sec_frees_app. apply in_or_app.
    destruct (in_dec Z.eq_dec sid (sec_frees (ct_log st))) as [Hf|Hf]; [left; auto|].
    right. assert (In sid (map cs_id (ct_tbl st))) by (apply Hiff; auto).
    rewrite in_map_iff in H0. destruct H0 as (s & Es & Hs'). subst sid. apply B. auto.
Qed.

(* non-vacuity: request in flight while the application lets go; teardown with one reference *)
Example sec_example_run :
  match sec_run sec_init [COpNew; COpNew; COpAdd 1 se_h_lib; COpRem 1 se_h_app; COpAdd 2 se_h_app;
                          COpRem 1 se_h_lib; COpNew; COpRem 2 se_h_app; COpFreeContext] with
  | Some st => ct_log st = [CNew 1; CNew 2; CFree 1; CNew 3; CFree 2; CFree 3] /\ ct_left st = []
  | None => False
  end.
Proof. vm_compute. split; reflexivity. Qed.

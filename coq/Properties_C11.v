(* C11 - Observe: registered observers get fresh, ordered notifications until cancelled.
   Statements only; proofs in Observe/ObserveProofs.v (model invariants), Observe/SimProofs.v
   (every history of the model is accepted), Observe/AcceptProofs.v (what acceptance means),
   Observe/Witness.v (concrete histories).

   Model: Observe/Observe.v, transcribed from coap_resource.c / coap_net.c / coap_cache.c.
   A history is a list of (op, outputs).  The acceptor Observe/Accept.v is extracted and judges
   the implementation's histories on every run; C11_model_accepted says that for ALL op
   sequences the model's history is accepted, the other theorems say what acceptance means.
   ac_go c st tr = Some st' : the acceptor runs tr from st without rejecting and ends in st';
   ac_entry st r s t        : the acceptor's record of observer (resource r, session s, token t);
   ac_keep c r s t st tr    : tr is accepted from st and (r, s, t) stays registered throughout;
                              the result carries the number of ObOpChange r in tr. *)
From LibcoapV Require Import Base.Tactics Observe.Observe Observe.Accept Observe.ObserveProofs
  Observe.SimProofs Observe.AcceptProofs Observe.Witness Observe.ModelCorollaries Observe.RefProofs.
Local Open Scope Z_scope.

(* ---------------------------------------------------------------- the model *)

(* a re-registration replaces rather than duplicates: in every reachable state of the model no
   two subscriptions of a resource share (session, token) or (session, cache key) *)
Theorem C11_reregister_replaces : forall p modes ops r,
  In r (obst_res (fst (ob_run p (ob_init modes) ops))) ->
  NoDup (map (fun x => (obsb_sess x, obsb_tok x)) (obrs_subs r)) /\
  NoDup (map (fun x => (obsb_sess x, obsb_key x)) (obrs_subs r)).
Proof. exact ob_no_duplicates. Qed.
Print Assumptions C11_reregister_replaces.

(* while a notification is held back the pending flags persist (dirty subscription =>
   partiallydirty resource => observe_pending), so the next coap_check_notify looks at it again *)
Theorem C11_pending_flags_persist : forall p modes ops st,
  st = fst (ob_run p (ob_init modes) ops) ->
  (forall r x, In r (obst_res st) -> In x (obrs_subs r) -> obsb_dirty x = true -> obrs_pdirty r = true) /\
  (forall r, In r (obst_res st) -> obrs_dirty r = true \/ obrs_pdirty r = true -> obst_pending st = true) /\
  (forall r, In r (obst_res st) -> 0 <= obrs_obs r < 16777216).
Proof. exact ob_pending_flags_persist. Qed.
Print Assumptions C11_pending_flags_persist.

(* for every op sequence (clients, application, network, NSTART accounting and initial counters
   all arbitrary) the history of the model passes the acceptor *)
Theorem C11_model_accepted : forall p modes ops,
  0 <= obpr_max_non p -> obpr_max_fail p <= 1 ->
  ac_accepts (ac_mk_cf (map fst modes) (obpr_nstart p) (obpr_max_non p) false)
             (snd (ob_run p (ob_init modes) ops)) = true.
Proof. exact ob_model_accepted. Qed.
Print Assumptions C11_model_accepted.

(* the session stays alive while it has observers: the references held through subscriptions
   (taken in coap_add_observer, released on every path that frees a subscription) equal the number
   of the session's subscriptions in every reachable state, so they are positive while it has one
   (coap_io_prepare_io reclaims only sessions with ref = 0; the tie compares session->ref) *)
Theorem C11_session_pinned : forall p modes ops s st,
  st = fst (ob_run p (ob_init modes) ops) ->
  (ob_ca_get (obst_ref st) s = ob_count_sess s (obst_res st)) /\
  (forall r x, In r (obst_res st) -> In x (obrs_subs r) -> obsb_sess x = s -> 0 < ob_ca_get (obst_ref st) s).
Proof. exact ob_session_pinned. Qed.
Print Assumptions C11_session_pinned.

(* in the model's own terms: after Observe:1 / session loss / resource deletion nothing (no
   notification, error response, 4.04) is sent to the observer until it registers again *)
Theorem C11_model_silent_after_cancel : forall p modes pre mid r s t o,
  0 <= obpr_max_non p -> obpr_max_fail p <= 1 ->
  (forall op, In op mid -> ~ ob_is_register r s t op) ->
  forall e out,
    In e (snd (ob_run p (fst (ob_run p (ob_init modes) (pre ++ [ObOpCancel r s t o]))) mid)) -> In out (snd e) ->
    ac_out_key out <> Some (r, s, t).
Proof. exact ob_model_silent_after_cancel. Qed.
Print Assumptions C11_model_silent_after_cancel.

Theorem C11_model_silent_after_session_lost : forall p modes pre mid r s t,
  0 <= obpr_max_non p -> obpr_max_fail p <= 1 ->
  (forall op, In op mid -> ~ ob_is_register r s t op) ->
  forall e out,
    In e (snd (ob_run p (fst (ob_run p (ob_init modes) (pre ++ [ObOpSessionLost s]))) mid)) -> In out (snd e) ->
    ac_out_key out <> Some (r, s, t).
Proof. exact ob_model_silent_after_session_lost. Qed.
Print Assumptions C11_model_silent_after_session_lost.

Theorem C11_model_silent_after_delete : forall p modes pre mid r s t ca,
  0 <= obpr_max_non p -> obpr_max_fail p <= 1 ->
  (forall op, In op mid -> ~ ob_is_register r s t op) ->
  forall e out,
    In e (snd (ob_run p (fst (ob_run p (ob_init modes) (pre ++ [ObOpDeleteResource r ca]))) mid)) -> In out (snd e) ->
    ac_out_key out <> Some (r, s, t).
Proof. exact ob_model_silent_after_delete. Qed.
Print Assumptions C11_model_silent_after_delete.

(* how the theorems below apply to an accepted history (e.g. the model's, by C11_model_accepted):
   the acceptor runs through every prefix from its well-formed initial state and on through the rest *)
Theorem C11_accepted_runs : forall c t1 t2,
  ac_accepts c (t1 ++ t2) = true ->
  ac_wf (acas_res (ac_init c)) /\
  exists st1 st2, ac_go c (ac_init c) t1 = Some st1 /\ ac_wf (acas_res st1) /\ ac_go c st1 t2 = Some st2.
Proof. exact ac_accepts_go. Qed.
Print Assumptions C11_accepted_runs.

(* ---------------------------------------------------------------- no notification after de-registration *)

(* while (r, s, t) is not registered and does not register again, an accepted history sends it
   nothing: no notification, no error response, no 4.04 *)
Theorem C11_after_cancel_none : forall c r s t tr st st',
  ac_wf (acas_res st) -> ac_go c st tr = Some st' -> ac_reg st r s t = false ->
  (forall e, In e tr -> ~ ac_registers e r s t) ->
  (forall e out, In e tr -> In out (snd e) -> ac_out_key out <> Some (r, s, t)) /\
  ac_reg st' r s t = false.
Proof. exact ac_none_while_unregistered. Qed.
Print Assumptions C11_after_cancel_none.

(* what is sent always goes to somebody registered before that entry of the history *)
Theorem C11_outputs_to_registered : forall c st op outs st' out r s t,
  ac_step c st (op, outs) = AcOk st' -> In out outs -> ac_out_key out = Some (r, s, t) ->
  exists o, ac_entry st r s t = Some o.
Proof. exact ac_step_out_registered. Qed.
Print Assumptions C11_outputs_to_registered.

(* the de-registration events of the property, each leaving the observer unregistered *)
Theorem C11_dereg_observe1 : forall c st r s t o outs st',
  ac_wf (acas_res st) -> ac_step c st (ObOpCancel r s t o, outs) = AcOk st' -> ac_reg st' r s t = false.
Proof. exact ac_dereg_cancel. Qed.
Print Assumptions C11_dereg_observe1.

Theorem C11_dereg_rst_of_confirmable : forall c st s k outs st' f r,
  ac_wf (acas_res st) -> ac_step c st (ObOpRst s k, outs) = AcOk st' ->
  ob_fl_find s k (acas_fl st) = Some f -> ac_reg st' r s (obfl_tok f) = false.
Proof. exact ac_dereg_rst_inflight. Qed.
Print Assumptions C11_dereg_rst_of_confirmable.

Theorem C11_dereg_rst_of_latest : forall c st s k outs st' r t q,
  ac_wf (acas_res st) -> ac_step c st (ObOpRst s k, outs) = AcOk st' ->
  ob_fl_find s k (acas_fl st) = None -> ac_entry st r s t = Some q -> acao_lastk q = k ->
  (forall r' t' q', ac_entry st r' s t' = Some q' -> acao_lastk q' = k -> r' = r /\ t' = t) ->
  ac_reg st' r s t = false.
Proof. exact ac_dereg_rst_latest. Qed.
Print Assumptions C11_dereg_rst_of_latest.

Theorem C11_dereg_failed_confirmable : forall c st s k outs st' f r,
  ac_wf (acas_res st) -> ac_step c st (ObOpConFailed s k, outs) = AcOk st' ->
  ob_fl_find s k (acas_fl st) = Some f -> ac_reg st' r s (obfl_tok f) = false.
Proof. exact ac_dereg_giveup. Qed.
Print Assumptions C11_dereg_failed_confirmable.

Theorem C11_dereg_error_response : forall c st ca outs st' k r s t con,
  ac_wf (acas_res st) -> ac_step c st (ObOpIoStep ca, outs) = AcOk st' ->
  In (ObErr k r s t con) outs -> ac_reg st' r s t = false.
Proof. exact ac_dereg_error. Qed.
Print Assumptions C11_dereg_error_response.

Theorem C11_dereg_error_at_registration : forall c st r s t o st',
  ac_wf (acas_res st) -> ac_step c st (ObOpRegister r s t o, [ObRegResp r s t None]) = AcOk st' ->
  ac_reg st' r s t = false.
Proof. exact ac_dereg_failed_registration. Qed.
Print Assumptions C11_dereg_error_at_registration.

Theorem C11_dereg_session_lost : forall c st s outs st' r t,
  ac_step c st (ObOpSessionLost s, outs) = AcOk st' -> ac_reg st' r s t = false.
Proof. exact ac_dereg_lost. Qed.
Print Assumptions C11_dereg_session_lost.

Theorem C11_dereg_resource_deleted : forall c st r ca outs st' s t,
  ac_wf (acas_res st) -> ac_step c st (ObOpDeleteResource r ca, outs) = AcOk st' -> ac_reg st' r s t = false.
Proof. exact ac_dereg_deleted. Qed.
Print Assumptions C11_dereg_resource_deleted.

(* the property as stated ("Reset in reply to a notification"): with accf_strict an RST for ANY
   notification of the current registration de-registers ... *)
Theorem C11_dereg_rst_any_strict : forall c st s k outs st' n q,
  accf_strict c = true -> ac_wf (acas_res st) -> ac_step c st (ObOpRst s k, outs) = AcOk st' ->
  ac_sent_find k (acas_sent st) = Some n -> acsn_s n = s ->
  ac_entry st (acsn_r n) s (acsn_t n) = Some q -> acao_since q <= k ->
  ac_reg st' (acsn_r n) s (acsn_t n) = false.
Proof. exact ac_dereg_rst_strict. Qed.
Print Assumptions C11_dereg_rst_any_strict.

(* ... which the model (= libcoap) does not do for an RST that answers an older notification:
   a history of the model that the strict acceptor rejects (known finding F-C11-2) *)
Theorem C11_rst_stale_refuted :
  exists ops, ac_accepts (w_cfg true) (snd (ob_run w_p (ob_init [(0, 2)]) ops)) = false /\
              ac_accepts (w_cfg false) (snd (ob_run w_p (ob_init [(0, 2)]) ops)) = true.
Proof. exact w_stale_rst_refuted. Qed.
Print Assumptions C11_rst_stale_refuted.

(* an observer appears only through an accepted registration *)
Theorem C11_only_register_adds : forall c st op outs st' r s t,
  ac_wf (acas_res st) -> ac_step c st (op, outs) = AcOk st' ->
  ac_reg st r s t = false -> ac_reg st' r s t = true -> ac_registers (op, outs) r s t.
Proof. exact ac_step_adds. Qed.
Print Assumptions C11_only_register_adds.

(* ---------------------------------------------------------------- fresh, ordered Observe values *)

(* two messages with an Observe value (notification or registration response) to one
   registration, n changes of the resource in between: v2 = v1 + n (mod 2^24) *)
Theorem C11_increasing : forall c st0 e1 st1 mid st2 n e2 st3 r s t v1 v2,
  ac_wf (acas_res st0) ->
  ac_step c st0 e1 = AcOk st1 -> ac_message e1 r s t v1 -> ac_reg st1 r s t = true ->
  ac_keep c r s t st1 mid = Some (st2, n) ->
  ac_step c st2 e2 = AcOk st3 -> ac_message e2 r s t v2 ->
  0 <= n /\ v2 = (v1 + n) mod ob_M.
Proof. exact ac_values_track_changes. Qed.
Print Assumptions C11_increasing.

(* hence RFC 7641 freshness ((v2 - v1) mod 2^24 in 1 .. 2^23-1) whenever between 1 and 2^23-1
   changes lie between them - the stated hypothesis on the number of changes *)
Theorem C11_fresh : forall v1 v2 n,
  0 <= v1 < ob_M -> v2 = (v1 + n) mod ob_M -> 1 <= n < 8388608 ->
  1 <= (v2 - v1) mod ob_M < 8388608.
Proof. exact ac_values_fresh. Qed.
Print Assumptions C11_fresh.

(* and between two consecutive notifications (no message to the observer in between) at least one
   change does lie: a notification never repeats the previous one's value *)
Theorem C11_strictly_increasing : forall c st0 ca1 outs1 st1 mid st2 n ca2 outs2 st3 r s t k1 v1 c1 k2 v2 c2,
  ac_wf (acas_res st0) ->
  ac_step c st0 (ObOpIoStep ca1, outs1) = AcOk st1 -> In (ObNotify k1 r s t v1 c1) outs1 ->
  ac_reg st1 r s t = true ->
  ac_keep c r s t st1 mid = Some (st2, n) ->
  (forall e, In e mid -> ac_msg_free (fst e) (snd e) r s t) ->
  ac_step c st2 (ObOpIoStep ca2, outs2) = AcOk st3 -> In (ObNotify k2 r s t v2 c2) outs2 ->
  1 <= n /\ v2 = (v1 + n) mod ob_M.
Proof. exact ac_notifications_differ. Qed.
Print Assumptions C11_strictly_increasing.

(* ---------------------------------------------------------------- the latest state, eventually *)

(* after every step of the I/O loop each registered observer has either been sent the current
   value (acao_chg = 0) or its session's NSTART window is full (con_active at the start of the step
   plus the confirmable messages of this step) or an unfinished large (Block2) transmission to its
   session is in progress (second input of the step, carried in the same list under the key
   session + ob_lg_off; the term ac_count_con (s + ob_lg_off) only matters for a session with that
   number); true after every step, so the first step with a free slot delivers the then-current value *)
Theorem C11_latest_eventually : forall c st ca outs st' r s t o',
  ac_step c st (ObOpIoStep ca, outs) = AcOk st' -> ac_entry st' r s t = Some o' ->
  acao_chg o' = 0 \/ accf_nstart c <= ob_ca_get ca s + ac_count_con s outs \/
  0 < ob_ca_get ca (s + ob_lg_off) + ac_count_con (s + ob_lg_off) outs.
Proof. exact ac_latest_after_step. Qed.
Print Assumptions C11_latest_eventually.

(* acao_chg is the number of changes of the resource since the observer's last message *)
Theorem C11_chg_counts_changes : forall c st0 e1 st1 mid st2 n r s t v1,
  ac_wf (acas_res st0) ->
  ac_step c st0 e1 = AcOk st1 -> ac_message e1 r s t v1 -> ac_reg st1 r s t = true ->
  ac_keep c r s t st1 mid = Some (st2, n) ->
  (forall e, In e mid -> ac_msg_free (fst e) (snd e) r s t) ->
  exists o2, ac_entry st2 r s t = Some o2 /\ acao_chg o2 = n /\ acao_val o2 = v1.
Proof. exact ac_chg_counts_changes. Qed.
Print Assumptions C11_chg_counts_changes.

(* ---------------------------------------------------------------- at least every sixth confirmable *)

(* in an accepted history a run of consecutive non-confirmable notifications to one observer
   (resource not NOTIFY_NON_ALWAYS) has at most COAP_OBS_MAX_NON members; the check asserts
   COAP_OBS_MAX_NON = 5 on the built library, so every sixth notification is confirmable *)
Theorem C11_con_every_6 : forall c pre st r s t o segs,
  0 <= accf_max_non c -> ac_mode c r <> 2 ->
  ac_go c (ac_init c) pre = Some st -> ac_entry st r s t = Some o ->
  ac_non_chain c r s t st segs ->
  Z.of_nat (length segs) <= accf_max_non c.
Proof. exact ac_con_every. Qed.
Print Assumptions C11_con_every_6.

(* ---------------------------------------------------------------- non-vacuity *)

(* 5 NON, 1 CON, NON again: a history of the model, its outputs, accepted *)
Theorem C11_witness_cadence :
  concat (map snd (snd (ob_run w_p (ob_init [(0, 2)]) w_ops_cadence))) =
  [ObRegResp 0 1 w_tok (Some 2);
   ObNotify 0 0 1 w_tok 3 false; ObNotify 1 0 1 w_tok 4 false; ObNotify 2 0 1 w_tok 5 false;
   ObNotify 3 0 1 w_tok 6 false; ObNotify 4 0 1 w_tok 7 false; ObNotify 5 0 1 w_tok 8 true;
   ObNotify 6 0 1 w_tok 9 false; ObNotify 7 0 1 w_tok 10 false] /\
  ac_accepts (w_cfg false) (snd (ob_run w_p (ob_init [(0, 2)]) w_ops_cadence)) = true.
Proof. exact (conj w_cadence_outputs w_cadence_accepted). Qed.
Print Assumptions C11_witness_cadence.

(* held back by NSTART, then ONE notification with the latest value *)
Theorem C11_witness_held_back :
  concat (map snd (snd (ob_run w_p (ob_init [(1, 2)]) w_ops_held))) =
  [ObRegResp 0 1 w_tok (Some 2); ObNotify 0 0 1 w_tok 3 true; ObNotify 1 0 1 w_tok 5 true].
Proof. exact w_held_outputs. Qed.
Print Assumptions C11_witness_held_back.

(* the acceptor rejects: a notification after Observe:1, a seventh NON in a row, a skipped observer *)
Theorem C11_acceptor_rejects :
  ac_accepts (w_cfg false)
    [(ObOpRegister 0 1 w_tok w_opts, [ObRegResp 0 1 w_tok (Some 2)]);
     (ObOpCancel 0 1 w_tok w_opts, []); (ObOpChange 0, []);
     (ObOpIoStep [], [ObNotify 0 0 1 w_tok 3 false])] = false /\
  ac_accepts (w_cfg false)
    [(ObOpRegister 0 1 w_tok w_opts, [ObRegResp 0 1 w_tok (Some 2)]);
     (ObOpChange 0, []); (ObOpIoStep [], [])] = false.
Proof. exact (conj w_rejects_notify_after_cancel w_rejects_skipped_observer). Qed.
Print Assumptions C11_acceptor_rejects.

(* C11 - Observe: registered observers get fresh, ordered notifications until cancelled.
   Statements only; proofs in Observe/ObserveProofs.v, Observe/SimProofs.v, Observe/AcceptProofs.v.
   Model: Observe/Observe.v (transcribed from coap_resource.c / coap_net.c / coap_cache.c).
   Acceptor: Observe/Accept.v (extracted; judges the implementation's histories on every run). *)
From LibcoapV Require Import Base.Tactics Observe.Observe Observe.Accept Observe.ObserveProofs
  Observe.SimProofs.
Local Open Scope Z_scope.

(* a re-registration replaces rather than duplicates: in every reachable state of the model no
   two subscriptions of a resource share (session, token) or (session, cache key) *)
Theorem C11_reregister_replaces : forall p modes ops r,
  In r (st_res (fst (ob_run p (ob_init modes) ops))) ->
  NoDup (map (fun x => (sb_sess x, sb_tok x)) (rs_subs r)) /\
  NoDup (map (fun x => (sb_sess x, sb_key x)) (rs_subs r)).
Proof. exact ob_no_duplicates. Qed.
Print Assumptions C11_reregister_replaces.

(* for every op sequence (clients, application, network, NSTART accounting all arbitrary) the
   history of the model passes the acceptor: no message to a de-registered observer, every
   notification carries the current counter and never repeats a value, at most COAP_OBS_MAX_NON
   non-confirmables in a row, nobody with a free NSTART slot misses the latest state after a step *)
Theorem C11_model_accepted : forall p modes ops,
  0 <= pr_max_non p -> pr_max_fail p <= 1 ->
  ac_accepts (mk_cf (map fst modes) (pr_nstart p) (pr_max_non p) false)
             (snd (ob_run p (ob_init modes) ops)) = true.
Proof. exact ob_model_accepted. Qed.
Print Assumptions C11_model_accepted.

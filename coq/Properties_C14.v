(* C14 - OSCORE protection.  Statements only; proofs live in Oscore/*Proofs.v. *)
From LibcoapV Require Import Base.Tactics Base.Bytes Wire.OptCodec Wire.Pdu Oscore.Protect Oscore.Vectors.
Local Open Scope Z_scope.

Theorem C14_reference_reproduces_rfc8613_c4 :
  option_map (serialize UDP) (osc_protect_req osc_c1_client (osc_c_request 23839 [0; 0; 57; 116]) 20)
  = Some [68; 2; 93; 31; 0; 0; 57; 116; 57; 108; 111; 99; 97; 108; 104; 111; 115; 116; 98; 9; 20;
          255; 97; 47; 16; 146; 241; 119; 111; 28; 22; 104; 179; 130; 94].
Proof. exact osc_vec_c4. Qed.
Print Assumptions C14_reference_reproduces_rfc8613_c4.

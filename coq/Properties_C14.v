(* C14 - OSCORE protection round-trips, matches RFC 8613, and any tampering is rejected.
   Statements only; proofs live in Oscore/*Proofs.v.  The objects are the Gallina reference of
   Oscore/*.v (written from the RFCs, extracted and run against libcoap on every check). *)
From LibcoapV Require Import Base.Tactics Base.Bytes Wire.OptCodec Wire.Pdu Wire.PduProofs
  Oscore.Aes128 Oscore.Ccm Oscore.CcmProofs Oscore.Cbor Oscore.OscOption Oscore.OscOptionProofs
  Oscore.Protect Oscore.ProtectProofs Oscore.RangeProofs Oscore.DatagramProofs Oscore.Vectors.
Local Open Scope Z_scope.

(* ---- the compressed COSE object (OSCORE option value) ---- *)
Theorem C14_option_roundtrip : forall piv kidctx kid,
  len piv <= 5 ->
  match kidctx with Some c => len c <= 255 | None => True end ->
  osc_opt_decode (osc_opt_encode piv kidctx kid) = Some (piv, kidctx, kid).
Proof. exact osc_opt_decode_encode. Qed.
Print Assumptions C14_option_roundtrip.

(* the decoder accepts only canonical encodings: a byte string that decodes IS the encoding of
   what it decodes to, so two different option values never carry the same content *)
Theorem C14_option_canonical : forall v piv kc kid,
  wfb v -> osc_opt_decode v = Some (piv, kc, kid) -> osc_opt_encode piv kc kid = v.
Proof. exact osc_opt_encode_decode. Qed.
Print Assumptions C14_option_canonical.

(* ---- class E / class U split followed by the recipient's merge restores the option list, for
   every ascending option list and every way of classing option numbers ---- *)
Theorem C14_split_merge : forall (P : Z -> bool) (l : list opt),
  ascending 0 l ->
  osc_merge (filter (fun o : opt => P (fst o)) l) (filter (fun o : opt => negb (P (fst o))) l) = l.
Proof. exact osc_split_merge. Qed.
Print Assumptions C14_split_merge.

(* what the recipient keeps of the outer options of a protected message are exactly the class U
   options of the original (the Observe copy and the OSCORE option are discarded) *)
Theorem C14_outer_kept : forall ov l,
  osc_kept_outer (insert_opt OSC_OPT ov (osc_outer_opts l)) = filter (fun o => osc_is_outer (fst o)) l.
Proof. exact osc_kept_of_sent. Qed.
Print Assumptions C14_outer_kept.

(* ---- AES-CCM: decryption inverts encryption, for every key, nonce, AAD and message ---- *)
Theorem C14_ccm_correct : forall key nonce aad msg,
  osc_ccm_dec key nonce aad (osc_ccm_enc key nonce aad msg) = Some msg.
Proof. exact osc_ccm_dec_enc. Qed.
Print Assumptions C14_ccm_correct.

(* the CTR key stream covers the whole message (the zero-extension of osc_xor is never used) *)
Theorem C14_ccm_stream_covers : forall key nonce n,
  0 <= n -> n <= len (osc_ccm_stream (osc_key_schedule key) nonce n).
Proof. exact osc_ccm_stream_covers. Qed.
Print Assumptions C14_ccm_stream_covers.

(* ---- the two endpoints deriving from the same master secret / salt / id context are paired ---- *)
Theorem C14_derived_contexts_paired : forall secret salt idctx a b,
  osc_paired (osc_derive secret salt idctx a b) (osc_derive secret salt idctx b a).
Proof. exact osc_derive_paired. Qed.
Print Assumptions C14_derived_contexts_paired.

(* ---- unprotect (protect m) = m : requests ---- *)
Theorem C14_request_roundtrip : forall c s m seq,
  osc_paired c s -> osc_ctx_ok c -> osc_msg_ok m -> 0 <= seq < 1099511627776 ->
  exists o, osc_protect_req c m seq = Some o /\ osc_unprotect_req s o = Some m.
Proof. exact osc_request_roundtrip. Qed.
Print Assumptions C14_request_roundtrip.

(* ---- responses: with or without a Partial IV of their own; the Observe value of a
   notification comes back as the low bytes of the notification's Partial IV (RFC 8613
   4.1.3.5.2), everything else unchanged ---- *)
Theorem C14_response_roundtrip : forall c s m req_piv send_piv seq,
  osc_paired c s -> osc_msg_ok m -> 0 <= seq < 1099511627776 ->
  exists o, osc_protect_resp s m req_piv send_piv seq = Some o /\
            osc_unprotect_resp c (m_token m) req_piv o =
            Some (osc_resp_view m (osc_resp_piv m send_piv seq)).
Proof. exact osc_response_roundtrip. Qed.
Print Assumptions C14_response_roundtrip.

Theorem C14_response_roundtrip_without_observe : forall c s m req_piv send_piv seq,
  osc_paired c s -> osc_msg_ok m -> 0 <= seq < 1099511627776 ->
  osc_has OSC_OBSERVE (m_opts m) = false ->
  exists o, osc_protect_resp s m req_piv send_piv seq = Some o /\
            osc_unprotect_resp c (m_token m) req_piv o = Some m.
Proof. exact osc_response_roundtrip_plain. Qed.
Print Assumptions C14_response_roundtrip_without_observe.

(* ---- datagram level: protect, serialise for UDP, parse (C01's codec theorem), verify = the
   original message; needs byte-valued context material (true of every derived context) ---- *)
Theorem C14_request_datagram_roundtrip : forall c s m seq,
  osc_paired c s -> osc_sec_bytes c -> msg_wf m -> osc_is_request (m_code m) = true ->
  osc_has OSC_OPT (m_opts m) = false -> osc_has 35 (m_opts m) = false ->
  0 <= seq < 1099511627776 ->
  exists o, osc_protect_req c m seq = Some o /\
            match parse UDP (serialize UDP o) with
            | Some o' => osc_unprotect_req s o'
            | None => None
            end = Some m.
Proof. exact osc_request_datagram_roundtrip. Qed.
Print Assumptions C14_request_datagram_roundtrip.

Theorem C14_response_datagram_roundtrip : forall c s m req_piv send_piv seq,
  osc_paired c s -> osc_sec_bytes s -> msg_wf m -> 64 <= m_code m < 224 ->
  osc_has OSC_OPT (m_opts m) = false -> osc_has 35 (m_opts m) = false ->
  wfb req_piv -> 0 <= seq < 1099511627776 ->
  exists o, osc_protect_resp s m req_piv send_piv seq = Some o /\
            match parse UDP (serialize UDP o) with
            | Some o' => osc_unprotect_resp c (m_token m) req_piv o'
            | None => None
            end = Some (osc_resp_view m (osc_resp_piv m send_piv seq)).
Proof. exact osc_response_datagram_roundtrip. Qed.
Print Assumptions C14_response_datagram_roundtrip.

(* every context derived by HKDF from ids of at most 7 bytes is byte-valued *)
Theorem C14_derived_context_bytes : forall secret salt idctx a b,
  wfb a -> len a <= 7 -> wfb b -> len b <= 7 ->
  match idctx with Some x => wfb x /\ len x <= 240 | None => True end ->
  osc_sec_bytes (osc_derive secret salt idctx a b).
Proof. exact osc_derive_bytes. Qed.
Print Assumptions C14_derived_context_bytes.

(* AES-CCM maps bytes to bytes *)
Theorem C14_ciphertext_bytes : forall key nonce aad msg,
  wfb key -> wfb nonce -> wfb aad -> wfb msg -> wfb (osc_ccm_enc key nonce aad msg).
Proof. exact osc_ccm_enc_wfb. Qed.
Print Assumptions C14_ciphertext_bytes.

(* ---- nonce: injective in (sender id, sequence number) for ids up to 7 bytes and sequence
   numbers below 2^40 ---- *)
Theorem C14_nonce_injective : forall id seq id' seq' iv,
  len id <= 7 -> len id' <= 7 ->
  0 <= seq < 1099511627776 -> 0 <= seq' < 1099511627776 ->
  osc_nonce id (osc_piv_bytes seq) iv = osc_nonce id' (osc_piv_bytes seq') iv ->
  id = id' /\ seq = seq'.
Proof. exact osc_nonce_inj. Qed.
Print Assumptions C14_nonce_injective.

(* ---- AAD: injective encoding of (algorithm, request kid, request Partial IV) ---- *)
Theorem C14_aad_binds : forall alg kid piv alg' kid' piv',
  -4294967296 <= alg < 4294967296 -> -4294967296 <= alg' < 4294967296 ->
  len kid < 65536 -> len kid' < 65536 -> len piv < 65536 -> len piv' < 65536 ->
  osc_aad alg kid piv = osc_aad alg' kid' piv' ->
  alg = alg' /\ kid = kid' /\ piv = piv'.
Proof. exact osc_aad_inj. Qed.
Print Assumptions C14_aad_binds.

(* ---- tamper rejection, hypothesis-free part (real AES-CCM) ---- *)

(* the tag is compared: a protected request whose tag was changed in any way is rejected *)
Theorem C14_changed_tag_rejected : forall c s m seq o0 ct tag tag',
  osc_paired c s -> osc_ctx_ok c -> osc_msg_ok m -> 0 <= seq < 1099511627776 ->
  osc_protect_req c m seq = Some o0 ->
  m_payload o0 = ct ++ tag -> len tag = 8 -> len tag' = 8 -> tag' <> tag ->
  osc_unprotect_req s (mkMsg (m_type o0) (m_code o0) (m_mid o0) (m_token o0) (m_opts o0) (ct ++ tag'))
  = None.
Proof. exact osc_request_tag_checked. Qed.
Print Assumptions C14_changed_tag_rejected.

(* whatever AES-CCM accepts is the encryption of what it returns, and anything shorter than a
   tag is rejected *)
Theorem C14_ccm_accepts_only_encryptions : forall key nonce aad c msg,
  osc_ccm_dec key nonce aad c = Some msg -> c = osc_ccm_enc key nonce aad msg.
Proof. exact osc_ccm_dec_sound. Qed.
Print Assumptions C14_ccm_accepts_only_encryptions.

Theorem C14_ccm_truncated_rejected : forall key nonce aad c,
  len c < 8 -> osc_ccm_dec key nonce aad c = None.
Proof. exact osc_ccm_dec_short. Qed.
Print Assumptions C14_ccm_truncated_rejected.

(* a request for another recipient id is rejected whatever the AEAD does *)
Theorem C14_other_recipient_rejected : forall dec c s m seq o0,
  osc_ctx_ok c -> 0 <= seq < 1099511627776 -> osc_protect_req c m seq = Some o0 ->
  sc_rid s <> sc_sid c -> osc_unprotect_req_gen dec s o0 = None.
Proof. exact osc_request_other_recipient. Qed.
Print Assumptions C14_other_recipient_rejected.

(* the handler of an OSCORE-only resource sees nothing but successfully verified requests *)
Theorem C14_oscore_only_gate : forall dec s o m',
  osc_server_deliver dec s true o = Some m' -> osc_unprotect_req_gen dec s o = Some m'.
Proof. exact osc_only_gate. Qed.
Print Assumptions C14_oscore_only_gate.

(* context lookup rule (RFC 8613 8.2 step 2), whatever the AEAD: a request is only verified
   against the context whose Recipient ID is the received kid and whose ID Context is exactly the
   received kid context (none = empty) - never a prefix, an extension or another value *)
Theorem C14_context_lookup_rule : forall dec s o m',
  osc_unprotect_req_gen dec s o = Some m' ->
  exists ov piv kc,
    osc_find_opt OSC_OPT (m_opts o) = Some ov /\
    osc_opt_decode (snd ov) = Some (piv, kc, Some (sc_rid s)) /\
    osc_ctx_bytes kc = osc_ctx_bytes (sc_idctx s).
Proof. exact osc_request_lookup_rule. Qed.
Print Assumptions C14_context_lookup_rule.

Theorem C14_kid_context_of_other_length_rejected : forall dec s o c ov piv kc kid,
  sc_idctx s = Some c ->
  osc_find_opt OSC_OPT (m_opts o) = Some ov ->
  osc_opt_decode (snd ov) = Some (piv, kc, kid) ->
  len (osc_ctx_bytes kc) <> len c ->
  osc_unprotect_req_gen dec s o = None.
Proof. exact osc_request_kid_context_length. Qed.
Print Assumptions C14_kid_context_of_other_length_rejected.

(* ---- tamper rejection UNDER AN ASSUMED IDEAL AEAD ----
   The premise [forall n a c p, dec K n a c = Some p -> sent n a c] (ideal ciphertext integrity:
   under key K nothing decrypts except what was emitted under K) is NOT proved for AES-CCM - with
   a 64-bit tag it holds up to a forgery probability of 2^-64 per attempt.  It is a premise of
   each theorem below (a Section hypothesis in Oscore/ProtectProofs.v), never an assumption of the
   development. *)

(* exactly one message was emitted under the key: whatever the recipient accepts carries the
   genuine ciphertext and an OSCORE option that decodes to the genuine Partial IV and kid - any
   change of ciphertext, Partial IV or kid is rejected *)
Theorem C14_tamper_rejected_under_ideal_aead : forall (dec : osc_aead_dec) (K : bytes) (sent : bytes -> bytes -> bytes -> Prop),
  (forall n a c p, dec K n a c = Some p -> sent n a c) ->
  forall c s m seq o0 o m',
  osc_paired c s -> sc_rkey s = K -> len (sc_sid c) <= 7 -> 0 <= seq < 1099511627776 ->
  osc_protect_req c m seq = Some o0 ->
  (forall n a ct, sent n a ct ->
     n = osc_nonce (sc_sid c) (osc_piv_bytes seq) (sc_iv c) /\
     a = osc_aad OSC_ALG (sc_sid c) (osc_piv_bytes seq) /\ ct = m_payload o0) ->
  osc_unprotect_req_gen dec s o = Some m' ->
  m_payload o = m_payload o0 /\
  exists ov kc, osc_find_opt OSC_OPT (m_opts o) = Some ov /\
                osc_opt_decode (snd ov) = Some (osc_piv_bytes seq, kc, Some (sc_sid c)).
Proof. exact osc_request_tamper_rejected. Qed.
Print Assumptions C14_tamper_rejected_under_ideal_aead.

(* ... and what is handed out is the genuine protected content; only type, message id, token and
   outer options (which OSCORE does not protect) come from the received message *)
Theorem C14_accepted_content_under_ideal_aead : forall (dec : osc_aead_dec) (K : bytes) (sent : bytes -> bytes -> bytes -> Prop),
  (forall n a c p, dec K n a c = Some p -> sent n a c) ->
  forall c s m seq o0 o m' pt0 code inner pl,
  osc_paired c s -> sc_rkey s = K -> len (sc_sid c) <= 7 -> 0 <= seq < 1099511627776 ->
  osc_protect_req c m seq = Some o0 ->
  (forall n a ct, sent n a ct ->
     n = osc_nonce (sc_sid c) (osc_piv_bytes seq) (sc_iv c) /\
     a = osc_aad OSC_ALG (sc_sid c) (osc_piv_bytes seq) /\ ct = m_payload o0) ->
  dec K (osc_nonce (sc_sid c) (osc_piv_bytes seq) (sc_iv c))
        (osc_aad OSC_ALG (sc_sid c) (osc_piv_bytes seq)) (m_payload o0) = Some pt0 ->
  osc_parse_plaintext pt0 = Some (code, inner, pl) ->
  osc_unprotect_req_gen dec s o = Some m' ->
  m' = mkMsg (m_type o) code (m_mid o) (m_token o) (osc_merge (osc_kept_outer (m_opts o)) inner) pl.
Proof. exact osc_request_accepted_content. Qed.
Print Assumptions C14_accepted_content_under_ideal_aead.

(* a different context (nothing was emitted under the recipient's key): everything is rejected *)
Theorem C14_different_context_rejected_under_ideal_aead : forall (dec : osc_aead_dec) (K : bytes) (sent : bytes -> bytes -> bytes -> Prop),
  (forall n a c p, dec K n a c = Some p -> sent n a c) ->
  forall s o, sc_rkey s = K -> (forall n a c, ~ sent n a c) -> osc_unprotect_req_gen dec s o = None.
Proof. exact osc_request_unknown_key_rejected. Qed.
Print Assumptions C14_different_context_rejected_under_ideal_aead.

(* responses: an accepted response has the request's token, the genuine ciphertext and an OSCORE
   option yielding the genuine nonce *)
Theorem C14_response_tamper_rejected_under_ideal_aead : forall (dec : osc_aead_dec) (K : bytes) (sent : bytes -> bytes -> bytes -> Prop),
  (forall n a c p, dec K n a c = Some p -> sent n a c) ->
  forall c tok req_piv n0 a0 c0 o m',
  sc_rkey c = K ->
  (forall n a ct, sent n a ct -> n = n0 /\ a = a0 /\ ct = c0) ->
  osc_unprotect_resp_gen dec c tok req_piv o = Some m' ->
  m_token o = tok /\ m_payload o = c0 /\
  exists ov piv kc kid,
    osc_find_opt OSC_OPT (m_opts o) = Some ov /\
    osc_opt_decode (snd ov) = Some (piv, kc, kid) /\
    n0 = match piv with
         | [] => osc_nonce (sc_sid c) req_piv (sc_iv c)
         | _ => osc_nonce (sc_rid c) piv (sc_iv c)
         end.
Proof. exact osc_response_tamper_rejected. Qed.
Print Assumptions C14_response_tamper_rejected_under_ideal_aead.

Theorem C14_response_accepted_content_under_ideal_aead :
  forall (dec : osc_aead_dec) (K : bytes) (sent : bytes -> bytes -> bytes -> Prop),
  (forall n a c p, dec K n a c = Some p -> sent n a c) ->
  forall c tok req_piv n0 a0 c0 o m' pt0 code inner pl,
  sc_rkey c = K ->
  (forall n a ct, sent n a ct -> n = n0 /\ a = a0 /\ ct = c0) ->
  dec K n0 a0 c0 = Some pt0 ->
  osc_parse_plaintext pt0 = Some (code, inner, pl) ->
  osc_unprotect_resp_gen dec c tok req_piv o = Some m' ->
  exists piv,
    m' = mkMsg (m_type o) code (m_mid o) (m_token o)
           (osc_merge (osc_kept_outer (m_opts o)) (osc_fix_observe piv inner)) pl.
Proof. exact osc_response_accepted_content. Qed.
Print Assumptions C14_response_accepted_content_under_ideal_aead.

(* non-vacuity: the ideal functionality "decrypt only the one emitted triple" meets the premise,
   and with it the genuine RFC 8613 C.4 request is accepted *)
Theorem C14_ideal_aead_premise_satisfiable : forall k0 n0 a0 c0 p0 n a c p,
  osc_ideal_dec k0 n0 a0 c0 p0 k0 n a c = Some p -> n = n0 /\ a = a0 /\ c = c0.
Proof. exact osc_ideal_dec_integrity. Qed.
Print Assumptions C14_ideal_aead_premise_satisfiable.

(* ---- the reference reproduces RFC 8613 appendix C (tests of the reference) ---- *)
Theorem C14_reference_reproduces_rfc8613_c4 :
  option_map (serialize UDP) (osc_protect_req osc_c1_client (osc_c_request 23839 [0; 0; 57; 116]) 20)
  = Some [68; 2; 93; 31; 0; 0; 57; 116; 57; 108; 111; 99; 97; 108; 104; 111; 115; 116; 98; 9; 20;
          255; 97; 47; 16; 146; 241; 119; 111; 28; 22; 104; 179; 130; 94].
Proof. exact osc_vec_c4. Qed.
Print Assumptions C14_reference_reproduces_rfc8613_c4.

Theorem C14_reference_reproduces_rfc8613_c7 :
  option_map (serialize UDP) (osc_protect_resp osc_c1_server osc_c_response [20] false 0)
  = Some [100; 68; 93; 31; 0; 0; 57; 116; 144; 255; 219; 170; 209; 233; 167; 231; 178; 168; 19;
          211; 195; 21; 36; 55; 131; 3; 205; 175; 174; 17; 145; 6].
Proof. exact osc_vec_c7. Qed.
Print Assumptions C14_reference_reproduces_rfc8613_c7.

(* C17 - programs that read one stream and write another (the record readers/writers and the
   copy loops) have a pure meaning: a function from the unread input to (result, rest of the
   input, bytes written).  ps_rw_run: running such a program in the stdio model does exactly
   that to the two streams and touches nothing else - for every buffering policy. *)
From LibcoapV Require Import Base.Tactics Base.Bytes Base.BytesProofs Persist.Fs Persist.FsProofs
  Persist.Records.
Local Open Scope Z_scope.

(* ------------------------------------------------------------------ list facts *)
Lemma ps_skipn_skipn : forall (X : Type) (a b : nat) (l : list X),
  skipn b (skipn a l) = skipn (a + b) l.
Proof.
  induction a as [|a IH]; intros b l; [reflexivity|].
  destruct l as [|x l]; [destruct b; reflexivity|]. cbn [skipn plus]. apply IH.
Qed.

Lemma ps_drop_drop : forall (l : bytes) a b, 0 <= a -> 0 <= b -> drop b (drop a l) = drop (a + b) l.
Proof.
  intros l a b Ha Hb. unfold drop. rewrite ps_skipn_skipn. f_equal. lia.
Qed.

Lemma ps_len_drop : forall (l : bytes) a, 0 <= a <= len l -> len (drop a l) = len l - a.
Proof. intros. apply len_drop. assumption. Qed.

Lemma ps_drop_all : forall (l : bytes), drop (len l) l = [].
Proof. intro l. unfold drop, len. rewrite Nat2Z.id. apply skipn_all. Qed.

Lemma ps_drop_0 : forall (l : bytes), drop 0 l = l.
Proof. reflexivity. Qed.

Lemma ps_line_prefix : forall fuel l, l = ps_line fuel l ++ drop (len (ps_line fuel l)) l.
Proof.
  induction fuel as [|f IH]; intro l; [reflexivity|].
  destruct l as [|b tl]; [reflexivity|]. cbn [ps_line].
  destruct (b =? 10).
  - reflexivity.
  - rewrite len_cons. cbn [app].
    replace (drop (1 + len (ps_line f tl)) (b :: tl)) with (drop (len (ps_line f tl)) tl).
    + f_equal. apply IH.
    + unfold drop. pose proof (len_nonneg (ps_line f tl)).
      replace (Z.to_nat (1 + len (ps_line f tl))) with (S (Z.to_nat (len (ps_line f tl)))) by lia.
      reflexivity.
Qed.

Lemma ps_line_len : forall fuel l, len (ps_line fuel l) <= len l.
Proof.
  intros. pose proof (ps_line_prefix fuel l) as H.
  apply (f_equal (@len Z)) in H. rewrite len_app in H.
  pose proof (len_nonneg (drop (len (ps_line fuel l)) l)). lia.
Qed.

(* ------------------------------------------------------------------ pure meaning *)
Inductive ps_rw (ho hn : Z) {A : Type} : ps_prog A -> Prop :=
| PsRwRet : forall a, ps_rw ho hn (PsRet a)
| PsRwRead : forall sz k, (forall r, ps_rw ho hn (k r)) -> ps_rw ho hn (PsDo (PoRead ho sz) k)
| PsRwGets : forall cap k, (forall r, ps_rw ho hn (k r)) -> ps_rw ho hn (PsDo (PoGets ho cap) k)
| PsRwWrite : forall d k, (forall r, ps_rw ho hn (k r)) -> ps_rw ho hn (PsDo (PoWrite hn d) k)
| PsRwPrintf : forall d k, (forall r, ps_rw ho hn (k r)) -> ps_rw ho hn (PsDo (PoPrintf hn d) k).

(* programs that only write *)
Inductive ps_wo (hn : Z) {A : Type} : ps_prog A -> Prop :=
| PsWoRet : forall a, ps_wo hn (PsRet a)
| PsWoWrite : forall d k, (forall r, ps_wo hn (k r)) -> ps_wo hn (PsDo (PoWrite hn d) k)
| PsWoPrintf : forall d k, (forall r, ps_wo hn (k r)) -> ps_wo hn (PsDo (PoPrintf hn d) k).

Lemma ps_wo_rw : forall ho hn A (p : ps_prog A), ps_wo hn p -> ps_rw ho hn p.
Proof. induction 1; constructor; assumption. Qed.

Fixpoint ps_pure {A : Type} (p : ps_prog A) (inp : bytes) : A * bytes * bytes :=
  match p with
  | PsRet a => (a, inp, [])
  | PsDo op k =>
      match op with
      | PoRead _ sz =>
          match ps_item sz inp with
          | Some (a, rest) => ps_pure (k (PrData true a)) rest
          | None => ps_pure (k (PrData false [])) (if 0 <? sz then [] else inp)
          end
      | PoGets _ cap =>
          match ps_line (Z.to_nat (cap - 1)) inp with
          | [] => ps_pure (k (PrData false [])) inp
          | l => ps_pure (k (PrData true l)) (drop (len l) inp)
          end
      | PoWrite _ d =>
          match d with
          | [] => ps_pure (k (PrInt 0)) inp
          | _ => let '(a, rest, out) := ps_pure (k (PrInt 1)) inp in (a, rest, d ++ out)
          end
      | PoPrintf _ d =>
          let '(a, rest, out) := ps_pure (k (PrInt (len d))) inp in (a, rest, d ++ out)
      | _ => ps_pure (k PrNull) inp
      end
  end.

Lemma ps_rw_bind : forall ho hn A B (p : ps_prog A) (f : A -> ps_prog B),
  ps_rw ho hn p -> (forall a, ps_rw ho hn (f a)) -> ps_rw ho hn (ps_bind p f).
Proof.
  intros ho hn A B p f Hp Hf. induction Hp; cbn [ps_bind]; [apply Hf| | | |];
    constructor; intro r; apply H0.
Qed.

Lemma ps_pure_bind : forall A B (p : ps_prog A) (f : A -> ps_prog B) inp,
  ps_pure (ps_bind p f) inp =
  let '(a, rest, out) := ps_pure p inp in
  let '(b, rest', out') := ps_pure (f a) rest in (b, rest', out ++ out').
Proof.
  intros A B p f. induction p as [a|op k IH]; intro inp.
  - cbn [ps_bind ps_pure]. destruct (ps_pure (f a) inp) as [[b r] o]. reflexivity.
  - cbn [ps_bind ps_pure]. destruct op; try apply IH.
    + destruct (ps_item sz inp) as [[a rest]|]; apply IH.
    + destruct (ps_line (Z.to_nat (cap - 1)) inp); apply IH.
    + destruct d as [|b d]; [apply IH|].
      rewrite IH. destruct (ps_pure (k (PrInt 1)) inp) as [[a rest] out].
      destruct (ps_pure (f a) rest) as [[b' r'] o']. rewrite app_assoc. reflexivity.
    + rewrite IH. destruct (ps_pure (k (PrInt (len d))) inp) as [[a rest] out].
      destruct (ps_pure (f a) rest) as [[b' r'] o']. rewrite app_assoc. reflexivity.
Qed.

Lemma ps_run_bind : forall pol A B (p : ps_prog A) (f : A -> ps_prog B) s,
  ps_run pol (ps_bind p f) s = let '(a, s') := ps_run pol p s in ps_run pol (f a) s'.
Proof.
  intros pol A B p f. induction p as [a|op k IH]; intro s.
  - cbn [ps_bind ps_run]. reflexivity.
  - cbn [ps_bind ps_run]. destruct (ps_step pol op s) as [r s']. apply IH.
Qed.

(* ------------------------------------------------------------------ the two streams *)
(* a stream open for reading, the file contents F, position pos *)
Definition ps_txr (s : ps_sys) (ho : Z) (F : bytes) (pos : Z) : Prop :=
  (exists n pend, ps_hget ho (ps_hs s) = Some (mkPsH n PsR F pos pend true)) /\ 0 <= pos <= len F.

(* a stream open for writing on the temporary file tmp; W = everything written so far (on
   disk or still buffered); V = the persistent view *)
Definition ps_txw (s : ps_sys) (hn : Z) (tmp : ps_name) (W : bytes) (V : Z -> option bytes) : Prop :=
  (exists md d q pend disk, ps_writable md = true /\
     ps_hget hn (ps_hs s) = Some (mkPsH tmp md d q pend true) /\
     ps_get tmp (ps_fs s) = Some disk /\ disk ++ pend = W) /\
  ps_is_tmp tmp = true /\ forall i, ps_view s i = V i.

(* what a read/write pair of calls leaves alone *)
Definition ps_frame (ho hn : Z) (tmp : ps_name) (s s' : ps_sys) : Prop :=
  ps_next s' = ps_next s /\
  (forall g, g <> ho -> g <> hn -> ps_hget g (ps_hs s') = ps_hget g (ps_hs s)) /\
  (forall n, n <> tmp -> ps_get n (ps_fs s') = ps_get n (ps_fs s)).

Lemma ps_frame_refl : forall ho hn tmp s, ps_frame ho hn tmp s s.
Proof. intros. repeat split; reflexivity || (intros; reflexivity). Qed.

Lemma ps_frame_trans : forall ho hn tmp s1 s2 s3,
  ps_frame ho hn tmp s1 s2 -> ps_frame ho hn tmp s2 s3 -> ps_frame ho hn tmp s1 s3.
Proof.
  intros ho hn tmp s1 s2 s3 (A1 & B1 & C1) (A2 & B2 & C2). repeat split.
  - congruence.
  - intros g H1 H2. rewrite B2, B1 by assumption. reflexivity.
  - intros n H. rewrite C2, C1 by assumption. reflexivity.
Qed.

Ltac split5 := split; [|split; [|split; [|split]]].

Section Run.
  Variable pol : Z -> Z -> Z.

  Lemma ps_step_read : forall s ho F pos sz,
    ps_txr s ho F pos ->
    exists s' pos',
      ps_step pol (PoRead ho sz) s =
        (match ps_item sz (drop pos F) with Some (a, _) => PrData true a | None => PrData false [] end, s') /\
      ps_txr s' ho F pos' /\
      drop pos' F = match ps_item sz (drop pos F) with
                    | Some (_, rest) => rest
                    | None => if 0 <? sz then [] else drop pos F
                    end /\
      ps_fs s' = ps_fs s /\ ps_next s' = ps_next s /\
      (forall g, g <> ho -> ps_hget g (ps_hs s') = ps_hget g (ps_hs s)).
  Proof.
    intros s ho F pos sz [(n & pend & Hh) Hp].
    unfold ps_step. rewrite Hh. cbn [psh_open psh_mode ps_writable negb andb psh_pos psh_data psh_name psh_pend].
    unfold ps_item. rewrite ps_len_drop by exact Hp.
    destruct (Z.ltb_spec 0 sz) as [Hsz|Hsz]; cbn [andb].
    - destruct (Z.leb_spec (pos + sz) (len F)) as [Hle|Hle];
        destruct (Z.leb_spec sz (len F - pos)); try lia.
      + eexists _, (pos + sz). split; [reflexivity|]. split; [|split; [|split; [|split]]].
        * split; [|lia]. exists n, pend. cbn [ps_hs]. apply ps_hget_hput_same.
        * symmetry. apply ps_drop_drop; lia.
        * reflexivity.
        * reflexivity.
        * intros g Hg. cbn [ps_hs]. apply ps_hget_hput_other. exact Hg.
      + eexists _, (len F). split; [reflexivity|]. split; [|split; [|split; [|split]]].
        * split; [|pose proof (len_nonneg F); lia]. exists n, pend. cbn [ps_hs].
          apply ps_hget_hput_same.
        * apply ps_drop_all.
        * reflexivity.
        * reflexivity.
        * intros g Hg. cbn [ps_hs]. apply ps_hget_hput_other. exact Hg.
    - exists s, pos. split; [reflexivity|]. split; [|split; [|split; [|split]]];
        try reflexivity. split; [exists n, pend; exact Hh|exact Hp].
  Qed.

  Lemma ps_step_gets : forall s ho F pos cap,
    ps_txr s ho F pos ->
    let l := ps_line (Z.to_nat (cap - 1)) (drop pos F) in
    exists s',
      ps_step pol (PoGets ho cap) s =
        (match l with [] => PrData false [] | _ => PrData true l end, s') /\
      ps_txr s' ho F (pos + len l) /\
      ps_fs s' = ps_fs s /\ ps_next s' = ps_next s /\
      (forall g, g <> ho -> ps_hget g (ps_hs s') = ps_hget g (ps_hs s)).
  Proof.
    intros s ho F pos cap [(n & pend & Hh) Hp] l.
    unfold ps_step. rewrite Hh. cbn [psh_open psh_mode ps_writable negb andb psh_pos psh_data psh_name psh_pend].
    fold l. destruct l as [|b tl] eqn:El.
    - exists s. split; [reflexivity|]. change (len (@nil Z)) with 0. rewrite Z.add_0_r.
      split; [split; [exists n, pend; exact Hh|exact Hp]|]. repeat split; reflexivity.
    - eexists. split; [reflexivity|]. split; [|repeat split; try reflexivity].
      + split; [exists n, pend; cbn [ps_hs]; apply ps_hget_hput_same|].
        pose proof (ps_line_len (Z.to_nat (cap - 1)) (drop pos F)) as Hl. fold l in Hl.
        rewrite El in Hl. rewrite ps_len_drop in Hl by exact Hp.
        pose proof (len_nonneg (b :: tl)). lia.
      + intros g Hg. cbn [ps_hs]. apply ps_hget_hput_other. exact Hg.
  Qed.

  (* fwrite / fprintf of d on the write stream *)
  Lemma ps_out_txw : forall s hn tmp W V d s',
    ps_txw s hn tmp W V -> ps_out pol s hn d false false = Some s' ->
    ps_txw s' hn tmp (W ++ d) V /\ ps_next s' = ps_next s /\
    (forall g, g <> hn -> ps_hget g (ps_hs s') = ps_hget g (ps_hs s)) /\
    (forall n, n <> tmp -> ps_get n (ps_fs s') = ps_get n (ps_fs s)).
  Proof.
    intros s hn tmp W V d s' [(md & dd & q & pend & disk & Hw & Hh & Hd & HW) [Ht HV]] Ho.
    apply ps_out_spec in Ho.
    destruct Ho as (x & now & later & Hx & Hop & Hwr & Hsplit & _ & Hf & Hhs & Hn).
    rewrite Hh in Hx. inversion Hx; subst x; clear Hx.
    cbn [psh_name psh_mode psh_data psh_pos psh_pend] in *.
    split; [|split; [exact Hn|split]].
    - split; [|split; [exact Ht|]].
      + exists md, dd, q, later, (disk ++ now). split; [exact Hw|]. split; [|split].
        * rewrite Hhs. cbn [negb]. apply ps_hget_hput_same.
        * rewrite Hf. apply ps_get_append_same. exact Hd.
        * rewrite <- app_assoc, Hsplit, app_assoc, HW. reflexivity.
      + intro i. rewrite <- HV. unfold ps_view. rewrite Hf. apply ps_get_append_other.
        apply ps_base_ne_tmp. exact Ht.
    - intros g Hg. rewrite Hhs. apply ps_hget_hput_other. exact Hg.
    - intros n Hnn. rewrite Hf. apply ps_get_append_other. exact Hnn.
  Qed.

  Lemma ps_out_some : forall s hn tmp W V d,
    ps_txw s hn tmp W V -> exists s', ps_out pol s hn d false false = Some s'.
  Proof.
    intros s hn tmp W V d [(md & dd & q & pend & disk & Hw & Hh & _) _].
    unfold ps_out. rewrite Hh. cbn [psh_open psh_mode]. rewrite Hw. cbn [andb].
    destruct (ps_push pol (psh_pend _) d). eexists; reflexivity.
  Qed.

  Lemma ps_txr_frame : forall s s' ho F pos,
    ps_txr s ho F pos -> ps_hget ho (ps_hs s') = ps_hget ho (ps_hs s) -> ps_txr s' ho F pos.
  Proof. intros s s' ho F pos [(n & pend & H) Hp] E. split; [|exact Hp]. exists n, pend. congruence. Qed.

  Lemma ps_txw_frame : forall s s' hn tmp W V,
    ps_txw s hn tmp W V -> ps_hget hn (ps_hs s') = ps_hget hn (ps_hs s) -> ps_fs s' = ps_fs s ->
    ps_txw s' hn tmp W V.
  Proof.
    intros s s' hn tmp W V [(md & dd & q & pend & disk & Hw & Hh & Hd & HW) [Ht HV]] E Ef.
    split; [|split; [exact Ht|]].
    - exists md, dd, q, pend, disk. repeat split; try assumption; congruence.
    - intro i. rewrite <- HV. unfold ps_view. rewrite Ef. reflexivity.
  Qed.

  (* running a read/write program = its pure meaning on the two streams *)
  Theorem ps_rw_run : forall ho hn A (p : ps_prog A), ps_rw ho hn p ->
    forall s F pos tmp W V,
      ho <> hn -> ps_txr s ho F pos -> ps_txw s hn tmp W V ->
      exists s' pos',
        ps_run pol p s = (fst (fst (ps_pure p (drop pos F))), s') /\
        ps_txr s' ho F pos' /\ drop pos' F = snd (fst (ps_pure p (drop pos F))) /\
        ps_txw s' hn tmp (W ++ snd (ps_pure p (drop pos F))) V /\
        ps_frame ho hn tmp s s'.
  Proof.
    intros ho hn A p Hp. induction Hp; intros s F pos tmp W V Hne Hr Hw.
    - exists s, pos. cbn [ps_run ps_pure fst snd]. rewrite app_nil_r.
      split5; try assumption; try reflexivity. apply ps_frame_refl.
    - (* read *)
      destruct (ps_step_read s ho F pos sz Hr) as (s1 & pos1 & Hs & Hr1 & Hd & Hf & Hn & Hg).
      cbn [ps_run ps_pure]. rewrite Hs.
      assert (Hw1 : ps_txw s1 hn tmp W V).
      { eapply ps_txw_frame; [exact Hw| |exact Hf]. apply Hg. congruence. }
      destruct (ps_item sz (drop pos F)) as [[a rest]|] eqn:Ei.
      + destruct (H0 (PrData true a) s1 F pos1 tmp W V Hne Hr1 Hw1)
          as (s2 & pos2 & Hrun & Hr2 & Hd2 & Hw2 & Hfr).
        rewrite Hd in *. exists s2, pos2. rewrite Hrun.
        split5; try assumption; try reflexivity.
        eapply ps_frame_trans; [|exact Hfr].
        split; [exact Hn|split]; [intros g G1 G2; apply Hg; exact G1|].
        intros n _. rewrite Hf. reflexivity.
      + destruct (H0 (PrData false []) s1 F pos1 tmp W V Hne Hr1 Hw1)
          as (s2 & pos2 & Hrun & Hr2 & Hd2 & Hw2 & Hfr).
        rewrite Hd in *. exists s2, pos2. rewrite Hrun.
        split5; try assumption; try reflexivity.
        eapply ps_frame_trans; [|exact Hfr].
        split; [exact Hn|split]; [intros g G1 G2; apply Hg; exact G1|].
        intros n _. rewrite Hf. reflexivity.
    - (* gets *)
      destruct (ps_step_gets s ho F pos cap Hr) as (s1 & Hs & Hr1 & Hf & Hn & Hg).
      cbn [ps_run ps_pure]. rewrite Hs.
      assert (Hw1 : ps_txw s1 hn tmp W V).
      { eapply ps_txw_frame; [exact Hw| |exact Hf]. apply Hg. congruence. }
      set (l := ps_line (Z.to_nat (cap - 1)) (drop pos F)) in *.
      assert (Hfr1 : ps_frame ho hn tmp s s1).
      { split; [exact Hn|split]; [intros g G1 G2; apply Hg; exact G1|].
        intros n _. rewrite Hf. reflexivity. }
      destruct l as [|b tl] eqn:El.
      + change (len (@nil Z)) with 0 in Hr1. rewrite Z.add_0_r in Hr1.
        destruct (H0 (PrData false []) s1 F pos tmp W V Hne Hr1 Hw1)
          as (s2 & pos2 & Hrun & Hr2 & Hd2 & Hw2 & Hfr).
        exists s2, pos2. rewrite Hrun. split5; try assumption; try reflexivity.
        eapply ps_frame_trans; eassumption.
      + destruct (H0 (PrData true (b :: tl)) s1 F (pos + len (b :: tl)) tmp W V Hne Hr1 Hw1)
          as (s2 & pos2 & Hrun & Hr2 & Hd2 & Hw2 & Hfr).
        assert (Hdd : drop (pos + len (b :: tl)) F = drop (len (b :: tl)) (drop pos F)).
        { symmetry. apply ps_drop_drop; [apply Hr|apply len_nonneg]. }
        rewrite Hdd in *. exists s2, pos2. rewrite Hrun.
        split5; try assumption; try reflexivity.
        eapply ps_frame_trans; eassumption.
    - (* write *)
      cbn [ps_run ps_pure]. unfold ps_step. destruct d as [|b d].
      + destruct (H0 (PrInt 0) s F pos tmp W V Hne Hr Hw)
          as (s2 & pos2 & Hrun & Hr2 & Hd2 & Hw2 & Hfr).
        exists s2, pos2. rewrite Hrun. split5; assumption || reflexivity.
      + destruct (ps_out_some s hn tmp W V (b :: d) Hw) as [s1 Ho]. rewrite Ho.
        destruct (ps_out_txw s hn tmp W V (b :: d) s1 Hw Ho) as (Hw1 & Hn & Hg & Hfs).
        assert (Hr1 : ps_txr s1 ho F pos) by (eapply ps_txr_frame; [exact Hr|apply Hg; exact Hne]).
        destruct (H0 (PrInt 1) s1 F pos tmp (W ++ b :: d) V Hne Hr1 Hw1)
          as (s2 & pos2 & Hrun & Hr2 & Hd2 & Hw2 & Hfr).
        destruct (ps_pure (k (PrInt 1)) (drop pos F)) as [[a rest] out] eqn:Ep.
        cbn [fst snd] in *. exists s2, pos2. rewrite Hrun.
        split5; try assumption; try reflexivity.
        * rewrite <- app_assoc in Hw2. exact Hw2.
        * eapply ps_frame_trans; [|exact Hfr].
          split; [exact Hn|split]; [intros g G1 G2; apply Hg; exact G2|exact Hfs].
    - (* printf *)
      cbn [ps_run ps_pure]. unfold ps_step.
      destruct (ps_out_some s hn tmp W V d Hw) as [s1 Ho]. rewrite Ho.
      destruct (ps_out_txw s hn tmp W V d s1 Hw Ho) as (Hw1 & Hn & Hg & Hfs).
      assert (Hr1 : ps_txr s1 ho F pos) by (eapply ps_txr_frame; [exact Hr|apply Hg; exact Hne]).
      destruct (H0 (PrInt (len d)) s1 F pos tmp (W ++ d) V Hne Hr1 Hw1)
        as (s2 & pos2 & Hrun & Hr2 & Hd2 & Hw2 & Hfr).
      destruct (ps_pure (k (PrInt (len d))) (drop pos F)) as [[a rest] out] eqn:Ep.
      cbn [fst snd] in *. exists s2, pos2. rewrite Hrun.
      split5; try assumption; try reflexivity.
      + rewrite <- app_assoc in Hw2. exact Hw2.
      + eapply ps_frame_trans; [|exact Hfr].
        split; [exact Hn|split]; [intros g G1 G2; apply Hg; exact G2|exact Hfs].
  Qed.

  (* the same for a program that only writes *)
  Theorem ps_wo_run : forall hn A (p : ps_prog A), ps_wo hn p ->
    forall s tmp W V inp,
      ps_txw s hn tmp W V ->
      exists s',
        ps_run pol p s = (fst (fst (ps_pure p inp)), s') /\
        ps_txw s' hn tmp (W ++ snd (ps_pure p inp)) V /\
        ps_next s' = ps_next s /\
        (forall g, g <> hn -> ps_hget g (ps_hs s') = ps_hget g (ps_hs s)).
  Proof.
    intros hn A p Hp. induction Hp; intros s tmp W V inp Hw.
    - exists s. cbn [ps_run ps_pure fst snd]. rewrite app_nil_r.
      split; [reflexivity|]. split; [exact Hw|]. split; reflexivity.
    - cbn [ps_run ps_pure]. unfold ps_step. destruct d as [|b d].
      + apply H0. exact Hw.
      + destruct (ps_out_some s hn tmp W V (b :: d) Hw) as [s1 Ho]. rewrite Ho.
        destruct (ps_out_txw s hn tmp W V (b :: d) s1 Hw Ho) as (Hw1 & Hn & Hg & Hfs).
        destruct (H0 (PrInt 1) s1 tmp (W ++ b :: d) V inp Hw1) as (s2 & Hrun & Hw2 & Hn2 & Hg2).
        destruct (ps_pure (k (PrInt 1)) inp) as [[a rest] out] eqn:Ep.
        cbn [fst snd] in *. exists s2. rewrite Hrun.
        split; [reflexivity|]. split; [rewrite <- app_assoc in Hw2; exact Hw2|].
        split; [congruence|]. intros g G. rewrite Hg2, Hg by exact G. reflexivity.
    - cbn [ps_run ps_pure]. unfold ps_step.
      destruct (ps_out_some s hn tmp W V d Hw) as [s1 Ho]. rewrite Ho.
      destruct (ps_out_txw s hn tmp W V d s1 Hw Ho) as (Hw1 & Hn & Hg & Hfs).
      destruct (H0 (PrInt (len d)) s1 tmp (W ++ d) V inp Hw1) as (s2 & Hrun & Hw2 & Hn2 & Hg2).
      destruct (ps_pure (k (PrInt (len d))) inp) as [[a rest] out] eqn:Ep.
      cbn [fst snd] in *. exists s2. rewrite Hrun.
      split; [reflexivity|]. split; [rewrite <- app_assoc in Hw2; exact Hw2|].
      split; [congruence|]. intros g G. rewrite Hg2, Hg by exact G. reflexivity.
  Qed.
End Run.

(* C17 - atomicity and update correctness lifted over arbitrary histories of updater calls:
   whatever sequence of the six updaters runs (this is what the server core issues through its
   call-outs), and wherever the process is killed, each of the three files holds exactly the
   abstract state after some prefix of the calls - the one before or after the interrupted call. *)
From LibcoapV Require Import Base.Tactics Base.Bytes Base.BytesProofs Persist.Fs Persist.FsProofs
  Persist.Records Persist.RecordsProofs Persist.Updaters Persist.Streams Persist.UpdatersProofs
  Persist.Discipline.
Local Open Scope Z_scope.

Inductive ps_call :=
| CObsAdded (a : ps_obs) | CObsDeleted (key : bytes)
| CCntTrack (name : bytes) (v : Z) | CCntDeleted (name : bytes)
| CDynAdded (a : ps_dyn) | CDynDeleted (name : bytes).

(* the abstract contents of the three files (None = the file does not exist) *)
Record ps_abs := mkAbs {
  ab_dyn : option (list ps_dyn); ab_obs : option (list ps_obs); ab_cnt : option (list (bytes * Z)) }.

Definition ps_add {X} (without : list X -> list X) (a : X) (v : option (list X)) : option (list X) :=
  match v with Some l => Some (without l ++ [a]) | None => Some [a] end.
Definition ps_rem {X} (without : list X -> list X) (v : option (list X)) : option (list X) :=
  match v with Some l => Some (without l) | None => None end.

Definition ps_abs_call (cl : ps_call) (A : ps_abs) : ps_abs :=
  match cl with
  | CObsAdded a => mkAbs (ab_dyn A) (ps_add (ps_obs_without (pso_key a)) a (ab_obs A)) (ab_cnt A)
  | CObsDeleted k => mkAbs (ab_dyn A) (ps_rem (ps_obs_without k) (ab_obs A)) (ab_cnt A)
  | CCntTrack n v => mkAbs (ab_dyn A) (ab_obs A) (ps_add (ps_cnt_without n) (n, v) (ab_cnt A))
  | CCntDeleted n => mkAbs (ab_dyn A) (ab_obs A) (ps_rem (ps_cnt_without n) (ab_cnt A))
  | CDynAdded a => mkAbs (ps_add (ps_dyn_without (psd_name a)) a (ab_dyn A)) (ab_obs A) (ab_cnt A)
  | CDynDeleted n => mkAbs (ps_rem (ps_dyn_without n) (ab_dyn A)) (ab_obs A) (ab_cnt A)
  end.

Fixpoint ps_abs_calls (l : list ps_call) (A : ps_abs) : ps_abs :=
  match l with [] => A | cl :: tl => ps_abs_calls tl (ps_abs_call cl A) end.

Section Hist.
  Variable pol : Z -> Z -> Z.
  Variables la lt : Z.
  Hypothesis la_pos : 0 < la.
  Hypothesis lt_pos : 0 < lt.
  Variable fuel : nat.

  Definition ps_call_prog (cl : ps_call) : ps_prog Z :=
    match cl with
    | CObsAdded a => ps_obs_added la lt fuel a
    | CObsDeleted k => ps_obs_deleted la lt fuel k
    | CCntTrack n v => ps_cnt_track fuel n v
    | CCntDeleted n => ps_cnt_deleted fuel n
    | CDynAdded a => ps_dyn_added fuel a
    | CDynDeleted n => ps_dyn_deleted fuel n
    end.

  Fixpoint ps_calls_prog (l : list ps_call) : ps_prog unit :=
    match l with
    | [] => PsRet tt
    | cl :: tl => ps_bind (ps_call_prog cl) (fun _ => ps_calls_prog tl)
    end.

  Definition ps_call_wf (cl : ps_call) : Prop :=
    match cl with
    | CObsAdded a => ps_obs_wf la lt a
    | CCntTrack n v => ps_name_ok n /\ 0 <= v < 4294967296
    | CDynAdded a => ps_dyn_wf a
    | _ => True
    end.

  Definition ps_optall {X} (P : X -> Prop) (v : option (list X)) : Prop :=
    match v with Some l => Forall P l | None => True end.
  Definition ps_optlen {X} (v : option (list X)) : nat :=
    match v with Some l => length l | None => O end.

  Definition ps_abs_wf (A : ps_abs) : Prop :=
    ps_optall ps_dyn_wf (ab_dyn A) /\ ps_optall (ps_obs_wf la lt) (ab_obs A) /\
    ps_optall ps_cnt_wf (ab_cnt A).
  Definition ps_abs_size (A : ps_abs) : nat :=
    (ps_optlen (ab_dyn A) + ps_optlen (ab_obs A) + ps_optlen (ab_cnt A))%nat.

  (* the files hold the abstract state *)
  Definition ps_holdsA (s : ps_sys) (A : ps_abs) : Prop :=
    ps_view s PS_DYN = option_map ps_dyn_file (ab_dyn A) /\
    ps_view s PS_OBS = option_map ps_obs_file (ab_obs A) /\
    ps_view s PS_CNT = option_map ps_cnt_file (ab_cnt A).

  Lemma ps_filter_wf : forall X (P : X -> Prop) f l, Forall P l -> Forall P (filter f l).
  Proof.
    intros X P f l H. induction H; cbn [filter]; [constructor|].
    destruct (f x); [constructor; assumption|assumption].
  Qed.
  Lemma ps_filter_len : forall X (f : X -> bool) l, (length (filter f l) <= length l)%nat.
  Proof. intros. induction l as [|x l IH]; cbn [filter length]; [lia|]. destruct (f x); cbn [length]; lia. Qed.

  Lemma ps_abs_call_wf : forall cl A, ps_abs_wf A -> ps_call_wf cl ->
    ps_abs_wf (ps_abs_call cl A) /\ (ps_abs_size (ps_abs_call cl A) <= S (ps_abs_size A))%nat.
  Proof.
    intros cl [d o c] (Hd & Ho & Hc) Hw. unfold ps_abs_wf, ps_abs_size in *.
    cbn [ab_dyn ab_obs ab_cnt] in *.
    destruct cl; cbn [ps_abs_call ps_call_wf ab_dyn ab_obs ab_cnt] in *.
    - split; [split; [exact Hd|split; [|exact Hc]]|].
      + destruct o as [l|]; cbn [ps_add ps_optall] in *.
        * apply Forall_app. split; [apply ps_filter_wf; exact Ho|constructor; [exact Hw|constructor]].
        * constructor; [exact Hw|constructor].
      + destruct o as [l|]; cbn [ps_add ps_optlen].
        * rewrite app_length. cbn [length]. pose proof (ps_filter_len _ (fun r => negb (ps_beq (pso_key r) (pso_key a))) l).
          unfold ps_obs_without. lia.
        * cbn [length]. lia.
    - split; [split; [exact Hd|split; [|exact Hc]]|].
      + destruct o as [l|]; cbn [ps_rem ps_optall] in *; [apply ps_filter_wf; exact Ho|exact I].
      + destruct o as [l|]; cbn [ps_rem ps_optlen]; [|lia].
        pose proof (ps_filter_len _ (fun r => negb (ps_beq (pso_key r) key)) l). unfold ps_obs_without. lia.
    - split; [split; [exact Hd|split; [exact Ho|]]|].
      + destruct c as [l|]; cbn [ps_add ps_optall] in *.
        * apply Forall_app. split; [apply ps_filter_wf; exact Hc|constructor; [exact Hw|constructor]].
        * constructor; [exact Hw|constructor].
      + destruct c as [l|]; cbn [ps_add ps_optlen].
        * rewrite app_length. cbn [length].
          pose proof (ps_filter_len _ (fun e : bytes * Z => negb (ps_beq name (fst e))) l).
          unfold ps_cnt_without. lia.
        * cbn [length]. lia.
    - split; [split; [exact Hd|split; [exact Ho|]]|].
      + destruct c as [l|]; cbn [ps_rem ps_optall] in *; [apply ps_filter_wf; exact Hc|exact I].
      + destruct c as [l|]; cbn [ps_rem ps_optlen]; [|lia].
        pose proof (ps_filter_len _ (fun e : bytes * Z => negb (ps_beq name (fst e))) l).
        unfold ps_cnt_without. lia.
    - split; [split; [|split; [exact Ho|exact Hc]]|].
      + destruct d as [l|]; cbn [ps_add ps_optall] in *.
        * apply Forall_app. split; [apply ps_filter_wf; exact Hd|constructor; [exact Hw|constructor]].
        * constructor; [exact Hw|constructor].
      + destruct d as [l|]; cbn [ps_add ps_optlen].
        * rewrite app_length. cbn [length].
          pose proof (ps_filter_len _ (fun r => negb (ps_beq (psd_name a) (psd_name r))) l).
          unfold ps_dyn_without. lia.
        * cbn [length]. lia.
    - split; [split; [|split; [exact Ho|exact Hc]]|].
      + destruct d as [l|]; cbn [ps_rem ps_optall] in *; [apply ps_filter_wf; exact Hd|exact I].
      + destruct d as [l|]; cbn [ps_rem ps_optlen]; [|lia].
        pose proof (ps_filter_len _ (fun r => negb (ps_beq name (psd_name r))) l). unfold ps_dyn_without. lia.
  Qed.

  Lemma ps_holds_of : forall X (file : list X -> bytes) v (o : option (list X)),
    v = option_map file o -> ps_holds file v (match o with Some l => l | None => [] end).
  Proof. intros X file v [l|] H; [left; exact H|right; split; [exact H|reflexivity]]. Qed.

  (* one call: the files afterwards hold the next abstract state *)
  Lemma ps_call_run : forall cl A s,
    ps_abs_wf A -> ps_call_wf cl -> (ps_abs_size A < fuel)%nat -> ps_holdsA s A ->
    ps_holdsA (snd (ps_run pol (ps_call_prog cl) s)) (ps_abs_call cl A) /\
    fst (ps_run pol (ps_call_prog cl) s) <> PS_FUEL.
  Proof.
    intros cl [d o c] s (Hd & Ho & Hc) Hw Hsz (Vd & Vo & Vc).
    unfold ps_abs_size in Hsz. cbn [ab_dyn ab_obs ab_cnt] in *.
    destruct cl; cbn [ps_call_prog ps_call_wf ps_abs_call] in *; unfold ps_holdsA;
      cbn [ab_dyn ab_obs ab_cnt].
    - destruct (ps_obs_added_correct pol la lt fuel a (match o with Some l => l | None => [] end) s)
        as (s' & Hr & Hv & Hoth); try assumption.
      + destruct o; [exact Ho|constructor].
      + destruct o; cbn [ps_optlen] in Hsz; cbn [length]; lia.
      + apply ps_holds_of. exact Vo.
      + rewrite Hr. cbn [fst snd]. split; [|unfold PS_FUEL; lia]. rewrite ?(Hoth PS_DYN), ?(Hoth PS_OBS), ?(Hoth PS_CNT) by discriminate. split; [exact Vd|]. split; [|exact Vc].
        rewrite Hv. destruct o; reflexivity.
    - destruct o as [l|].
      + destruct (ps_obs_deleted_correct pol la lt fuel key l s) as (s' & Hr & Hv & Hoth);
          try assumption; [cbn [ps_optlen] in Hsz; lia|].
        rewrite Hr. cbn [fst snd]. split; [|unfold PS_FUEL; lia]. rewrite ?(Hoth PS_DYN), ?(Hoth PS_OBS), ?(Hoth PS_CNT) by discriminate. split; [exact Vd|]. split; [exact Hv|exact Vc].
      + rewrite (ps_obs_deleted_missing pol la lt fuel key s Vo). cbn [fst snd ps_rem option_map]. split; [|unfold PS_FUEL; lia].
        split; [exact Vd|]. split; [exact Vo|exact Vc].
    - destruct Hw as [Hn Hv0].
      destruct (ps_cnt_track_correct pol fuel name v (match c with Some l => l | None => [] end) s)
        as (s' & Hr & Hv & Hoth).
      + destruct c; [exact Hc|constructor].
      + destruct c; cbn [ps_optlen] in Hsz; cbn [length]; lia.
      + apply ps_holds_of. exact Vc.
      + rewrite Hr. cbn [fst snd]. split; [|unfold PS_FUEL; lia]. rewrite ?(Hoth PS_DYN), ?(Hoth PS_OBS), ?(Hoth PS_CNT) by discriminate. split; [exact Vd|]. split; [exact Vo|].
        rewrite Hv, (ps_cnt_track_entry name v _ Hn Hv0). destruct c; reflexivity.
    - destruct c as [l|].
      + destruct (ps_cnt_deleted_correct pol fuel name l s) as (s' & Hr & Hv & Hoth);
          try assumption; [cbn [ps_optlen] in Hsz; lia|].
        rewrite Hr. cbn [fst snd]. split; [|unfold PS_FUEL; lia]. rewrite ?(Hoth PS_DYN), ?(Hoth PS_OBS), ?(Hoth PS_CNT) by discriminate. split; [exact Vd|]. split; [exact Vo|exact Hv].
      + rewrite (ps_cnt_deleted_missing pol fuel name s Vc). cbn [fst snd ps_rem option_map]. split; [|unfold PS_FUEL; lia].
        split; [exact Vd|]. split; [exact Vo|exact Vc].
    - destruct (ps_dyn_added_correct pol fuel a (match d with Some l => l | None => [] end) s)
        as (s' & Hr & Hv & Hoth); try assumption.
      + destruct d; [exact Hd|constructor].
      + destruct d; cbn [ps_optlen] in Hsz; cbn [length]; lia.
      + apply ps_holds_of. exact Vd.
      + rewrite Hr. cbn [fst snd]. split; [|unfold PS_FUEL; lia]. rewrite ?(Hoth PS_DYN), ?(Hoth PS_OBS), ?(Hoth PS_CNT) by discriminate. split; [|split; [exact Vo|exact Vc]].
        rewrite Hv. destruct d; reflexivity.
    - destruct d as [l|].
      + destruct (ps_dyn_deleted_correct pol fuel name l s) as (s' & Hr & Hv & Hoth);
          try assumption; [cbn [ps_optlen] in Hsz; lia|].
        rewrite Hr. cbn [fst snd]. split; [|unfold PS_FUEL; lia]. rewrite ?(Hoth PS_DYN), ?(Hoth PS_OBS), ?(Hoth PS_CNT) by discriminate. split; [exact Hv|]. split; [exact Vo|exact Vc].
      + rewrite (ps_dyn_deleted_missing pol fuel name s Vd). cbn [fst snd ps_rem option_map]. split; [|unfold PS_FUEL; lia].
        split; [exact Vd|]. split; [exact Vo|exact Vc].
  Qed.

  Lemma ps_call_prog_d1 : forall cl, ps_disc1 (ps_call_prog cl).
  Proof.
    destruct cl; cbn [ps_call_prog].
    - apply ps_obs_added_d1.
    - apply ps_obs_deleted_d1.
    - apply ps_cnt_track_d1.
    - apply ps_cnt_deleted_d1.
    - apply ps_dyn_added_d1.
    - apply ps_dyn_deleted_d1.
  Qed.

  Lemma ps_disc_run_tmpw : forall A (p : ps_prog A), ps_disc p ->
    forall s, ps_tmpw s -> ps_tmpw (snd (ps_run pol p s)).
  Proof.
    intros A p Hp. induction Hp; intros s Hs; [exact Hs|]. cbn [ps_run].
    pose proof (ps_disc_step pol op s Hs H) as X. destruct (ps_step pol op s) as [r s1].
    apply H1. exact X.
  Qed.

  (* number of calls a program makes *)
  Fixpoint ps_nops {A} (p : ps_prog A) (s : ps_sys) : nat :=
    match p with
    | PsRet _ => O
    | PsDo op k => let '(r, s') := ps_step pol op s in S (ps_nops (k r) s')
    end.

  Lemma ps_runk_bind : forall A B (p : ps_prog A) (f : A -> ps_prog B) k s,
    ps_runk pol (ps_bind p f) k s =
    if (k <=? ps_nops p s)%nat then ps_runk pol p k s
    else ps_runk pol (f (fst (ps_run pol p s))) (k - ps_nops p s) (snd (ps_run pol p s)).
  Proof.
    intros A B p f. induction p as [a|op c IH]; intros k s.
    - cbn [ps_bind ps_nops ps_run fst snd]. destruct k; [|rewrite Nat.sub_0_r; reflexivity].
      cbn [Nat.leb]. destruct (f a); reflexivity.
    - cbn [ps_bind ps_nops ps_run]. destruct k; [reflexivity|]. cbn [ps_runk].
      destruct (ps_step pol op s) as [r s1]. rewrite IH. cbn [Nat.leb Nat.sub]. reflexivity.
  Qed.

  Lemma ps_holdsA_view : forall s t A,
    (forall i, ps_view t i = ps_view s i) -> ps_holdsA s A -> ps_holdsA t A.
  Proof. intros s t A H (H1 & H2 & H3). unfold ps_holdsA. rewrite !H. repeat split; assumption. Qed.

  (* C17_atomic + C17_update_correct over any history of updater calls *)
  Theorem ps_calls_crash : forall calls A s k,
    ps_abs_wf A -> Forall ps_call_wf calls -> (ps_abs_size A + length calls < fuel)%nat ->
    ps_tmpw s -> ps_holdsA s A ->
    exists j, (j <= length calls)%nat /\
      ps_holdsA (ps_runk pol (ps_calls_prog calls) k s) (ps_abs_calls (firstn j calls) A).
  Proof.
    induction calls as [|cl calls IH]; intros A s k HA Hw Hsz Hs Hh.
    - exists O. split; [lia|]. cbn [ps_calls_prog firstn ps_abs_calls]. destruct k; exact Hh.
    - inversion Hw as [|? ? Hw1 Hw2]; subst. cbn [ps_calls_prog]. rewrite ps_runk_bind.
      cbn [length] in Hsz.
      destruct (ps_abs_call_wf cl A HA Hw1) as [HA1 Hsz1].
      pose proof (proj1 (ps_call_run cl A s HA Hw1 ltac:(lia) Hh)) as Hh1.
      destruct (k <=? ps_nops (ps_call_prog cl) s)%nat.
      + (* inside the first call: before or after it *)
        destruct (ps_atomic1 pol Z (ps_call_prog cl) (ps_call_prog_d1 cl) s Hs k) as [Hv|Hv].
        * exists O. split; [lia|]. cbn [firstn ps_abs_calls]. eapply ps_holdsA_view; [exact Hv|exact Hh].
        * exists 1%nat. split; [cbn [length]; lia|]. cbn [firstn ps_abs_calls].
          eapply ps_holdsA_view; [exact Hv|exact Hh1].
      + (* later *)
        destruct (IH (ps_abs_call cl A) (snd (ps_run pol (ps_call_prog cl) s))
                     (k - ps_nops (ps_call_prog cl) s)%nat HA1 Hw2 ltac:(lia)) as (j & Hj & Hjh).
        * apply ps_disc_run_tmpw; [apply ps_disc1_disc; apply ps_call_prog_d1|exact Hs].
        * exact Hh1.
        * exists (S j). split; [cbn [length]; lia|]. cbn [firstn ps_abs_calls]. exact Hjh.
  Qed.
End Hist.

(* C17 - the call-outs of the server core into the persistence code and coap_persist_startup,
   over an abstract in-memory server state:

     ps_ev_put      request to the unknown-resource handler that creates a resource
                    (coap_add_resource_lkd: dyn_resource_added when the resource is observable)
     ps_ev_del      coap_delete_resource -> coap_free_resource: notify (counter may be saved),
                    observe_deleted for every subscriber, then resource_deleted (dynamic-resource
                    record, counter line last)
     ps_ev_reg      coap_add_observer: existing (session, token) -> nothing; same session and
                    cache key -> old observer deleted (observe_deleted); new subscription
                    (observe_added, track_observe_value)
     ps_ev_cancel   coap_delete_observer_request
     ps_ev_notify   coap_resource_notify_observers_lkd (+ the notifications coap_check_notify sends)
     ps_startup     coap_persist_startup_lkd: dynamic resources, then counters, then observations

   What is not modelled here but abstracted by functions the caller supplies (Section variables
   in the proofs, closures over the verified wire parser in the executable tie):
     app   : request packet -> option (resource name, observable)    the application's handler
             for unknown resources (None: packet does not parse / no handler for its method)
     req   : request packet -> option (resource name, token, cache key)   what
             coap_persist_observe_add_lkd extracts from a stored GET/FETCH with Observe: 0
     alloc : keys of the live subscriptions -> key of the next one (the allocator; the key is
             the address of the subscription object)                                        *)
From Coq Require Import ZArith List Bool.
From LibcoapV Require Import Base.Bytes Persist.Fs Persist.Records Persist.Updaters.
Import ListNotations.
Local Open Scope Z_scope.

Record ps_sub := mkSub {
  pss_key : bytes;          (* address of the coap_subscription_t, as stored in the file *)
  pss_tuple : bytes;        (* coap_addr_tuple_t of the session: identifies the session *)
  pss_token : bytes;
  pss_ck : bytes;           (* cache key (preimage) *)
  pss_pkt : bytes }.        (* the stored request *)

Record ps_rsrc := mkRsrc {
  psr_name : bytes;
  psr_observable : bool;
  psr_observe : Z;          (* r->observe *)
  psr_subs : list ps_sub }. (* r->subscribers, head first (LL_PREPEND) *)

Record ps_cfg := mkCfg {
  psc_dyn : bool; psc_obs : bool; psc_cnt : bool;    (* which files coap_persist_startup was given *)
  psc_freq : Z;                                   (* save_freq *)
  psc_la : Z; psc_lt : Z;                          (* sizeof coap_address_t / coap_addr_tuple_t *)
  psc_listen : bytes;                             (* bind address of the (one) UDP endpoint *)
  psc_proto : bytes;                              (* COAP_PROTO_UDP as stored: 01 00 00 00 *)
  psc_unknown : bool;                             (* an unknown-resource handler is registered *)
  psc_fuel : nat }.

(* coap_resource_init: r->observe = 2 *)
Definition PS_OBSERVE0 := 2.

(* a 2.05 response with an Observe option on the wire: (resource, session, token, Observe value) *)
Definition ps_send := (bytes * bytes * bytes * Z)%type.

Definition ps_mem := list ps_rsrc.

Fixpoint ps_find (name : bytes) (m : ps_mem) : option ps_rsrc :=
  match m with
  | [] => None
  | r :: tl => if ps_beq name (psr_name r) then Some r else ps_find name tl
  end.

Fixpoint ps_replace (r : ps_rsrc) (m : ps_mem) : ps_mem :=
  match m with
  | [] => []
  | x :: tl => if ps_beq (psr_name r) (psr_name x) then r :: tl else x :: ps_replace r tl
  end.

Fixpoint ps_remove (name : bytes) (m : ps_mem) : ps_mem :=
  match m with
  | [] => []
  | x :: tl => if ps_beq name (psr_name x) then tl else x :: ps_remove name tl
  end.

Definition ps_live (m : ps_mem) : list bytes :=
  flat_map (fun r => map pss_key (psr_subs r)) m.

(* coap_find_observer / coap_find_observer_cache_key *)
Fixpoint ps_find_tok (tuple token : bytes) (l : list ps_sub) : option ps_sub :=
  match l with
  | [] => None
  | s :: tl => if ps_beq tuple (pss_tuple s) && ps_beq token (pss_token s) then Some s
               else ps_find_tok tuple token tl
  end.

Fixpoint ps_find_ck (tuple ck : bytes) (l : list ps_sub) : option ps_sub :=
  match l with
  | [] => None
  | s :: tl => if ps_beq tuple (pss_tuple s) && ps_beq ck (pss_ck s) then Some s
               else ps_find_ck tuple ck tl
  end.

Fixpoint ps_drop_key (key : bytes) (l : list ps_sub) : list ps_sub :=
  match l with
  | [] => []
  | s :: tl => if ps_beq key (pss_key s) then tl else s :: ps_drop_key key tl
  end.

Definition ps_obs_of (c : ps_cfg) (s : ps_sub) : ps_obs :=
  mkObs (pss_key s) (psc_proto c) (psc_listen c) (pss_tuple s) (pss_pkt s) None.

(* a sub-program whose PS_FUEL result aborts everything *)
Definition ps_guard {A} (p : ps_prog Z) (k : ps_prog (option A)) : ps_prog (option A) :=
  ps_bind p (fun r => if r =? PS_FUEL then PsRet None else k).

Definition ps_when {A} (b : bool) (p : ps_prog Z) (k : ps_prog (option A)) : ps_prog (option A) :=
  if b then ps_guard p k else k.

(* track_observe_value call-out *)
Definition ps_track {A} (c : ps_cfg) (name : bytes) (v : Z) (k : ps_prog (option A))
  : ps_prog (option A) :=
  ps_when (psc_cnt c) (ps_cnt_track (psc_fuel c) name v) k.

(* observe_deleted call-out *)
Definition ps_untrack_sub {A} (c : ps_cfg) (s : ps_sub) (k : ps_prog (option A))
  : ps_prog (option A) :=
  ps_when (psc_obs c) (ps_obs_deleted (psc_la c) (psc_lt c) (psc_fuel c) (pss_key s)) k.

Section Events.
  Variable app : bytes -> option (bytes * bool).
  Variable req : bytes -> option (bytes * bytes * bytes).
  Variable alloc : list bytes -> bytes.
  Variable c : ps_cfg.

  (* None = out of fuel somewhere *)
  Definition ps_result := option (ps_mem * list ps_send).

  (* unknown-resource handler created resource [name]; pkt is the request *)
  Definition ps_ev_put (name : bytes) (observable : bool) (pkt : bytes) (m : ps_mem)
    : ps_prog ps_result :=
    match ps_find name m with
    | Some _ => PsRet (Some (m, []))
    | None =>
        let m' := m ++ [mkRsrc name observable PS_OBSERVE0 []] in
        ps_when (psc_dyn c && observable)
                (ps_dyn_added (psc_fuel c) (mkDyn (psc_proto c) name pkt))
                (PsRet (Some (m', [])))
    end.

  (* observe_deleted for every subscriber of a freed resource *)
  Fixpoint ps_untrack_all (l : list ps_sub) (k : ps_prog ps_result) : ps_prog ps_result :=
    match l with
    | [] => k
    | s :: tl => ps_untrack_sub c s (ps_untrack_all tl k)
    end.

  Definition ps_next_observe (v : Z) : Z := (v + 1) mod 16777216.

  Definition ps_ev_del (name : bytes) (m : ps_mem) : ps_prog ps_result :=
    match ps_find name m with
    | None => PsRet (Some (m, []))
    | Some r =>
        let notify := psr_observable r && negb (match psr_subs r with [] => true | _ => false end) in
        let v := if notify then ps_next_observe (psr_observe r) else psr_observe r in
        ps_when (notify && psc_cnt c && (v mod psc_freq c =? 0))
                (ps_cnt_track (psc_fuel c) name v)
        (ps_untrack_all (psr_subs r)
        (ps_when (psc_dyn c || psc_cnt c)
                 (ps_res_deleted (psc_fuel c) (psc_dyn c) (psc_cnt c) name)
        (PsRet (Some (ps_remove name m, [])))))
    end.

  Definition ps_ev_reg (name tuple token ck pkt : bytes) (m : ps_mem) : ps_prog ps_result :=
    match ps_find name m with
    | None => PsRet (Some (m, []))
    | Some r =>
        if negb (psr_observable r) then PsRet (Some (m, [])) else
        match ps_find_tok tuple token (psr_subs r) with
        | Some _ => PsRet (Some (m, [(name, tuple, token, psr_observe r)]))
        | None =>
            let old := ps_find_ck tuple ck (psr_subs r) in
            let subs1 := match old with
                         | Some o => ps_drop_key (pss_key o) (psr_subs r)
                         | None => psr_subs r
                         end in
            let m1 := ps_replace (mkRsrc name true (psr_observe r) subs1) m in
            let s := mkSub (alloc (ps_live m1)) tuple token ck pkt in
            let m2 := ps_replace (mkRsrc name true (psr_observe r) (s :: subs1)) m in
            (match old with
             | Some o => ps_untrack_sub c o
             | None => fun k => k
             end)
            (ps_when (psc_obs c)
                     (ps_obs_added (psc_la c) (psc_lt c) (psc_fuel c) (ps_obs_of c s))
            (ps_track c name (psr_observe r)
            (PsRet (Some (m2, [(name, tuple, token, psr_observe r)])))))
        end
    end.

  Definition ps_ev_cancel (name tuple token ck : bytes) (m : ps_mem) : ps_prog ps_result :=
    match ps_find name m with
    | None => PsRet (Some (m, []))
    | Some r =>
        if negb (psr_observable r) then PsRet (Some (m, [])) else
        let hit := match ps_find_tok tuple token (psr_subs r) with
                   | Some s => Some s
                   | None => ps_find_ck tuple ck (psr_subs r)
                   end in
        match hit with
        | None => PsRet (Some (m, []))
        | Some s =>
            ps_untrack_sub c s
              (PsRet (Some (ps_replace (mkRsrc name true (psr_observe r)
                                               (ps_drop_key (pss_key s) (psr_subs r))) m, [])))
        end
    end.

  Definition ps_ev_notify (name : bytes) (m : ps_mem) : ps_prog ps_result :=
    match ps_find name m with
    | None => PsRet (Some (m, []))
    | Some r =>
        match psr_observable r, psr_subs r with
        | true, _ :: _ =>
            let v := ps_next_observe (psr_observe r) in
            ps_when (psc_cnt c && (v mod psc_freq c =? 0))
                    (ps_cnt_track (psc_fuel c) name v)
              (PsRet (Some (ps_replace (mkRsrc name true v (psr_subs r)) m,
                            map (fun s => (name, pss_tuple s, pss_token s, v)) (psr_subs r))))
        | _, _ => PsRet (Some (m, []))
        end
    end.

  Inductive ps_event :=
  | PsEvPut (name : bytes) (observable : bool) (pkt : bytes)
  | PsEvDel (name : bytes)
  | PsEvReg (name tuple token ck pkt : bytes)
  | PsEvCancel (name tuple token ck : bytes)
  | PsEvNotify (name : bytes)
  | PsEvRaw (p : ps_prog Z).       (* a direct call of one updater (used by the tie only) *)

  Definition ps_ev (e : ps_event) (m : ps_mem) : ps_prog ps_result :=
    match e with
    | PsEvPut n o p => ps_ev_put n o p m
    | PsEvDel n => ps_ev_del n m
    | PsEvReg n t k ck p => ps_ev_reg n t k ck p m
    | PsEvCancel n t k ck => ps_ev_cancel n t k ck m
    | PsEvNotify n => ps_ev_notify n m
    | PsEvRaw p => ps_guard p (PsRet (Some (m, [])))
    end.

  Fixpoint ps_hist (l : list ps_event) (m : ps_mem) (sent : list ps_send) : ps_prog ps_result :=
    match l with
    | [] => PsRet (Some (m, sent))
    | e :: tl =>
        ps_bind (ps_ev e m) (fun r =>
          match r with
          | None => PsRet None
          | Some (m', s) => ps_hist tl m' (sent ++ s)
          end)
    end.

  (* ---------------------------------------------------------------- coap_persist_startup *)

  (* dynamic resources: re-create what is missing through the application's handler *)
  Definition ps_dyn_step (r : ps_dyn) (m : ps_mem) : option ps_mem :=
    match ps_find (psd_name r) m with
    | Some _ => Some m
    | None =>
        match app (psd_pkt r) with
        | None => None
        | Some (name, observable) =>
            match ps_find name m with
            | Some _ => Some m       (* coap_add_resource would replace it; same state here *)
            | None => Some (m ++ [mkRsrc name observable PS_OBSERVE0 []])
            end
        end
    end.

  Fixpoint ps_set_counts (l : list (bytes * Z)) (m : ps_mem) : ps_mem :=
    match l with
    | [] => m
    | (k, v) :: tl =>
        ps_set_counts tl
          match ps_find k m with
          | Some r => ps_replace (mkRsrc k (psr_observable r) (v mod 16777216) (psr_subs r)) m
          | None => m
          end
    end.

  (* coap_persist_observe_add_lkd for one stored record; yields the key of the subscription *)
  Definition ps_obs_step (r : ps_obs) (m : ps_mem) : ps_prog (ps_mem * option bytes) :=
    if negb (ps_beq (pso_proto r) (psc_proto c)) then PsRet (m, None) else
    if negb (ps_beq (pso_listen r) (psc_listen c)) then PsRet (m, None) else
    match req (pso_pkt r) with
    | None => PsRet (m, None)
    | Some (name, token, ck) =>
        match ps_find name m with
        | None => PsRet (m, None)
        | Some rs =>
            if negb (psr_observable rs) then PsRet (m, None) else
            match ps_find_tok (pso_tuple r) token (psr_subs rs) with
            | Some s => PsRet (m, Some (pss_key s))
            | None =>
                let subs1 := match ps_find_ck (pso_tuple r) ck (psr_subs rs) with
                             | Some o => ps_drop_key (pss_key o) (psr_subs rs)
                             | None => psr_subs rs
                             end in
                let m1 := ps_replace (mkRsrc name true (psr_observe rs) subs1) m in
                let s := mkSub (alloc (ps_live m1)) (pso_tuple r) token ck (pso_pkt r) in
                let m2 := ps_replace (mkRsrc name true (psr_observe rs) (s :: subs1)) m in
                (* observe_added / observe_deleted are not installed yet; track_observe_value is *)
                if psc_cnt c then
                  ps_bind (ps_cnt_track (psc_fuel c) name (psr_observe rs)) (fun _ =>
                    PsRet (m2, Some (pss_key s)))
                else PsRet (m2, Some (pss_key s))
            end
        end
    end.

  Definition ps_startup (m0 : ps_mem) : ps_prog (option ps_mem) :=
    ps_bind (if psc_dyn c && psc_unknown c then ps_dyn_load (psc_fuel c) ps_dyn_step m0
             else PsRet (Some m0)) (fun r1 =>
    match r1 with
    | None => PsRet None
    | Some m1 =>
        ps_bind (if psc_cnt c then ps_cnt_load (psc_fuel c) (psc_freq c) else PsRet (Some [])) (fun r2 =>
        match r2 with
        | None => PsRet None
        | Some cnts =>
            let m2 := ps_set_counts cnts m1 in
            if psc_obs c then ps_obs_load (psc_la c) (psc_lt c) (psc_fuel c) ps_obs_step m2
            else PsRet (Some m2)
        end)
    end).
End Events.

(* the allocator of the test harness: lowest free slot of an arena (key = address, little endian) *)
Fixpoint ps_alloc_from (fuel : nat) (base slot i : Z) (live : list bytes) : bytes :=
  let k := ps_le 8 (base + slot * i) in
  match fuel with
  | O => k
  | S f => if existsb (ps_beq k) live then ps_alloc_from f base slot (i + 1) live else k
  end.
Definition ps_alloc_lowest (base slot : Z) (live : list bytes) : bytes :=
  ps_alloc_from (length live) base slot 0 live.

(* one server process: coap_persist_startup, then the events *)
Definition ps_process (app : bytes -> option (bytes * bool))
           (req : bytes -> option (bytes * bytes * bytes)) (alloc : list bytes -> bytes)
           (c : ps_cfg) (m0 : ps_mem) (evs : list ps_event) : ps_prog ps_result :=
  ps_bind (ps_startup app req alloc c m0) (fun r =>
    match r with
    | None => PsRet None
    | Some m => ps_hist alloc c evs m []
    end).

(* C17 - the call-outs of the server core into the persistence code and coap_persist_startup,
   over an abstract in-memory server state:

     ps_ev_put      request to the unknown-resource handler that creates a resource
                    (coap_add_resource_lkd: dyn_resource_added when the resource is observable)
     ps_ev_del      coap_delete_resource -> coap_free_resource: notify (counter may be saved),
                    resource_deleted (counter line, dynamic-resource record), observe_deleted for
                    every subscriber
     ps_ev_reg      coap_add_observer: existing (session, token) -> nothing; same session and
                    cache key -> old observer deleted (observe_deleted); new subscription
                    (observe_added, track_observe_value)
     ps_ev_cancel   coap_delete_observer_request
     ps_ev_notify   coap_resource_notify_observers_lkd (+ the notifications coap_check_notify sends)
     ps_startup     coap_persist_startup_lkd: dynamic resources, then counters, then observations

   What is not modelled here but abstracted by functions the caller supplies (Section variables
   in the proofs, closures over the verified wire parser in the executable tie):
     app   : request packet -> option (resource name, observable)    the application's handler
             for unknown resources (None: packet does not parse / no handler for its method)
     req   : request packet -> option (resource name, token, cache key)   what
             coap_persist_observe_add_lkd extracts from a stored GET/FETCH with Observe: 0
     alloc : keys of the live subscriptions -> key of the next one (the allocator; the key is
             the address of the subscription object)                                        *)
From Coq Require Import ZArith List Bool.
From LibcoapV Require Import Base.Bytes Persist.Fs Persist.Records Persist.Updaters.
Import ListNotations.
Local Open Scope Z_scope.

Record ps_sub := mkSub {
  su_key : bytes;          (* address of the coap_subscription_t, as stored in the file *)
  su_tuple : bytes;        (* coap_addr_tuple_t of the session: identifies the session *)
  su_token : bytes;
  su_ck : bytes;           (* cache key (preimage) *)
  su_pkt : bytes }.        (* the stored request *)

Record ps_rsrc := mkRsrc {
  rs_name : bytes;
  rs_observable : bool;
  rs_observe : Z;          (* r->observe *)
  rs_subs : list ps_sub }. (* r->subscribers, head first (LL_PREPEND) *)

Record ps_cfg := mkCfg {
  cf_dyn : bool; cf_obs : bool; cf_cnt : bool;    (* which files coap_persist_startup was given *)
  cf_freq : Z;                                   (* save_freq *)
  cf_la : Z; cf_lt : Z;                          (* sizeof coap_address_t / coap_addr_tuple_t *)
  cf_listen : bytes;                             (* bind address of the (one) UDP endpoint *)
  cf_proto : bytes;                              (* COAP_PROTO_UDP as stored: 01 00 00 00 *)
  cf_unknown : bool;                             (* an unknown-resource handler is registered *)
  cf_fuel : nat }.

(* coap_resource_init: r->observe = 2 *)
Definition PS_OBSERVE0 := 2.

(* a 2.05 response with an Observe option on the wire: (session, token, Observe value) *)
Definition ps_send := (bytes * bytes * Z)%type.

Definition ps_mem := list ps_rsrc.

Fixpoint ps_find (name : bytes) (m : ps_mem) : option ps_rsrc :=
  match m with
  | [] => None
  | r :: tl => if ps_beq name (rs_name r) then Some r else ps_find name tl
  end.

Fixpoint ps_replace (r : ps_rsrc) (m : ps_mem) : ps_mem :=
  match m with
  | [] => []
  | x :: tl => if ps_beq (rs_name r) (rs_name x) then r :: tl else x :: ps_replace r tl
  end.

Fixpoint ps_remove (name : bytes) (m : ps_mem) : ps_mem :=
  match m with
  | [] => []
  | x :: tl => if ps_beq name (rs_name x) then tl else x :: ps_remove name tl
  end.

Definition ps_live (m : ps_mem) : list bytes :=
  flat_map (fun r => map su_key (rs_subs r)) m.

(* coap_find_observer / coap_find_observer_cache_key *)
Fixpoint ps_find_tok (tuple token : bytes) (l : list ps_sub) : option ps_sub :=
  match l with
  | [] => None
  | s :: tl => if ps_beq tuple (su_tuple s) && ps_beq token (su_token s) then Some s
               else ps_find_tok tuple token tl
  end.

Fixpoint ps_find_ck (tuple ck : bytes) (l : list ps_sub) : option ps_sub :=
  match l with
  | [] => None
  | s :: tl => if ps_beq tuple (su_tuple s) && ps_beq ck (su_ck s) then Some s
               else ps_find_ck tuple ck tl
  end.

Fixpoint ps_drop_key (key : bytes) (l : list ps_sub) : list ps_sub :=
  match l with
  | [] => []
  | s :: tl => if ps_beq key (su_key s) then tl else s :: ps_drop_key key tl
  end.

Definition ps_obs_of (c : ps_cfg) (s : ps_sub) : ps_obs :=
  mkObs (su_key s) (cf_proto c) (cf_listen c) (su_tuple s) (su_pkt s) None.

(* a sub-program whose PS_FUEL result aborts everything *)
Definition ps_guard {A} (p : ps_prog Z) (k : ps_prog (option A)) : ps_prog (option A) :=
  ps_bind p (fun r => if r =? PS_FUEL then PsRet None else k).

Definition ps_when {A} (b : bool) (p : ps_prog Z) (k : ps_prog (option A)) : ps_prog (option A) :=
  if b then ps_guard p k else k.

(* track_observe_value call-out *)
Definition ps_track {A} (c : ps_cfg) (name : bytes) (v : Z) (k : ps_prog (option A))
  : ps_prog (option A) :=
  ps_when (cf_cnt c) (ps_cnt_track (cf_fuel c) name v) k.

(* observe_deleted call-out *)
Definition ps_untrack_sub {A} (c : ps_cfg) (s : ps_sub) (k : ps_prog (option A))
  : ps_prog (option A) :=
  ps_when (cf_obs c) (ps_obs_deleted (cf_la c) (cf_lt c) (cf_fuel c) (su_key s)) k.

Section Events.
  Variable app : bytes -> option (bytes * bool).
  Variable req : bytes -> option (bytes * bytes * bytes).
  Variable alloc : list bytes -> bytes.
  Variable c : ps_cfg.

  (* None = out of fuel somewhere *)
  Definition ps_result := option (ps_mem * list ps_send).

  (* unknown-resource handler created resource [name]; pkt is the request *)
  Definition ps_ev_put (name : bytes) (observable : bool) (pkt : bytes) (m : ps_mem)
    : ps_prog ps_result :=
    match ps_find name m with
    | Some _ => PsRet (Some (m, []))
    | None =>
        let m' := m ++ [mkRsrc name observable PS_OBSERVE0 []] in
        ps_when (cf_dyn c && observable)
                (ps_dyn_added (cf_fuel c) (mkDyn (cf_proto c) name pkt))
                (PsRet (Some (m', [])))
    end.

  (* observe_deleted for every subscriber of a freed resource *)
  Fixpoint ps_untrack_all (l : list ps_sub) (k : ps_prog ps_result) : ps_prog ps_result :=
    match l with
    | [] => k
    | s :: tl => ps_untrack_sub c s (ps_untrack_all tl k)
    end.

  Definition ps_next_observe (v : Z) : Z := (v + 1) mod 16777216.

  Definition ps_ev_del (name : bytes) (m : ps_mem) : ps_prog ps_result :=
    match ps_find name m with
    | None => PsRet (Some (m, []))
    | Some r =>
        let notify := rs_observable r && negb (match rs_subs r with [] => true | _ => false end) in
        let v := if notify then ps_next_observe (rs_observe r) else rs_observe r in
        ps_when (notify && cf_cnt c && (v mod cf_freq c =? 0))
                (ps_cnt_track (cf_fuel c) name v)
        (ps_when (cf_dyn c || cf_cnt c)
                 (ps_res_deleted (cf_fuel c) (cf_dyn c) (cf_cnt c) name)
        (ps_untrack_all (rs_subs r)
        (PsRet (Some (ps_remove name m, [])))))
    end.

  Definition ps_ev_reg (name tuple token ck pkt : bytes) (m : ps_mem) : ps_prog ps_result :=
    match ps_find name m with
    | None => PsRet (Some (m, []))
    | Some r =>
        if negb (rs_observable r) then PsRet (Some (m, [])) else
        match ps_find_tok tuple token (rs_subs r) with
        | Some _ => PsRet (Some (m, [(tuple, token, rs_observe r)]))
        | None =>
            let old := ps_find_ck tuple ck (rs_subs r) in
            let subs1 := match old with
                         | Some o => ps_drop_key (su_key o) (rs_subs r)
                         | None => rs_subs r
                         end in
            let m1 := ps_replace (mkRsrc name true (rs_observe r) subs1) m in
            let s := mkSub (alloc (ps_live m1)) tuple token ck pkt in
            let m2 := ps_replace (mkRsrc name true (rs_observe r) (s :: subs1)) m in
            (match old with
             | Some o => ps_untrack_sub c o
             | None => fun k => k
             end)
            (ps_when (cf_obs c)
                     (ps_obs_added (cf_la c) (cf_lt c) (cf_fuel c) (ps_obs_of c s))
            (ps_track c name (rs_observe r)
            (PsRet (Some (m2, [(tuple, token, rs_observe r)])))))
        end
    end.

  Definition ps_ev_cancel (name tuple token ck : bytes) (m : ps_mem) : ps_prog ps_result :=
    match ps_find name m with
    | None => PsRet (Some (m, []))
    | Some r =>
        if negb (rs_observable r) then PsRet (Some (m, [])) else
        let hit := match ps_find_tok tuple token (rs_subs r) with
                   | Some s => Some s
                   | None => ps_find_ck tuple ck (rs_subs r)
                   end in
        match hit with
        | None => PsRet (Some (m, []))
        | Some s =>
            ps_untrack_sub c s
              (PsRet (Some (ps_replace (mkRsrc name true (rs_observe r)
                                               (ps_drop_key (su_key s) (rs_subs r))) m, [])))
        end
    end.

  Definition ps_ev_notify (name : bytes) (m : ps_mem) : ps_prog ps_result :=
    match ps_find name m with
    | None => PsRet (Some (m, []))
    | Some r =>
        match rs_observable r, rs_subs r with
        | true, _ :: _ =>
            let v := ps_next_observe (rs_observe r) in
            ps_when (cf_cnt c && (v mod cf_freq c =? 0))
                    (ps_cnt_track (cf_fuel c) name v)
              (PsRet (Some (ps_replace (mkRsrc name true v (rs_subs r)) m,
                            map (fun s => (su_tuple s, su_token s, v)) (rs_subs r))))
        | _, _ => PsRet (Some (m, []))
        end
    end.

  Inductive ps_event :=
  | EvPut (name : bytes) (observable : bool) (pkt : bytes)
  | EvDel (name : bytes)
  | EvReg (name tuple token ck pkt : bytes)
  | EvCancel (name tuple token ck : bytes)
  | EvNotify (name : bytes)
  | EvRaw (p : ps_prog Z).       (* a direct call of one updater (used by the tie only) *)

  Definition ps_ev (e : ps_event) (m : ps_mem) : ps_prog ps_result :=
    match e with
    | EvPut n o p => ps_ev_put n o p m
    | EvDel n => ps_ev_del n m
    | EvReg n t k ck p => ps_ev_reg n t k ck p m
    | EvCancel n t k ck => ps_ev_cancel n t k ck m
    | EvNotify n => ps_ev_notify n m
    | EvRaw p => ps_guard p (PsRet (Some (m, [])))
    end.

  Fixpoint ps_hist (l : list ps_event) (m : ps_mem) (sent : list ps_send) : ps_prog ps_result :=
    match l with
    | [] => PsRet (Some (m, sent))
    | e :: tl =>
        ps_bind (ps_ev e m) (fun r =>
          match r with
          | None => PsRet None
          | Some (m', s) => ps_hist tl m' (sent ++ s)
          end)
    end.

  (* ---------------------------------------------------------------- coap_persist_startup *)

  (* dynamic resources: re-create what is missing through the application's handler *)
  Definition ps_dyn_step (r : ps_dyn) (m : ps_mem) : option ps_mem :=
    match ps_find (dy_name r) m with
    | Some _ => Some m
    | None =>
        match app (dy_pkt r) with
        | None => None
        | Some (name, observable) =>
            match ps_find name m with
            | Some _ => Some m       (* coap_add_resource would replace it; same state here *)
            | None => Some (m ++ [mkRsrc name observable PS_OBSERVE0 []])
            end
        end
    end.

  Fixpoint ps_set_counts (l : list (bytes * Z)) (m : ps_mem) : ps_mem :=
    match l with
    | [] => m
    | (k, v) :: tl =>
        ps_set_counts tl
          match ps_find k m with
          | Some r => ps_replace (mkRsrc k (rs_observable r) (v mod 16777216) (rs_subs r)) m
          | None => m
          end
    end.

  (* coap_persist_observe_add_lkd for one stored record; yields the key of the subscription *)
  Definition ps_obs_step (r : ps_obs) (m : ps_mem) : ps_prog (ps_mem * option bytes) :=
    if negb (ps_beq (ob_proto r) (cf_proto c)) then PsRet (m, None) else
    if negb (ps_beq (ob_listen r) (cf_listen c)) then PsRet (m, None) else
    match req (ob_pkt r) with
    | None => PsRet (m, None)
    | Some (name, token, ck) =>
        match ps_find name m with
        | None => PsRet (m, None)
        | Some rs =>
            if negb (rs_observable rs) then PsRet (m, None) else
            match ps_find_tok (ob_tuple r) token (rs_subs rs) with
            | Some s => PsRet (m, Some (su_key s))
            | None =>
                let subs1 := match ps_find_ck (ob_tuple r) ck (rs_subs rs) with
                             | Some o => ps_drop_key (su_key o) (rs_subs rs)
                             | None => rs_subs rs
                             end in
                let m1 := ps_replace (mkRsrc name true (rs_observe rs) subs1) m in
                let s := mkSub (alloc (ps_live m1)) (ob_tuple r) token ck (ob_pkt r) in
                let m2 := ps_replace (mkRsrc name true (rs_observe rs) (s :: subs1)) m in
                (* observe_added / observe_deleted are not installed yet; track_observe_value is *)
                if cf_cnt c then
                  ps_bind (ps_cnt_track (cf_fuel c) name (rs_observe rs)) (fun _ =>
                    PsRet (m2, Some (su_key s)))
                else PsRet (m2, Some (su_key s))
            end
        end
    end.

  Definition ps_startup (m0 : ps_mem) : ps_prog (option ps_mem) :=
    ps_bind (if cf_dyn c && cf_unknown c then ps_dyn_load (cf_fuel c) ps_dyn_step m0
             else PsRet (Some m0)) (fun r1 =>
    match r1 with
    | None => PsRet None
    | Some m1 =>
        ps_bind (if cf_cnt c then ps_cnt_load (cf_fuel c) (cf_freq c) else PsRet (Some [])) (fun r2 =>
        match r2 with
        | None => PsRet None
        | Some cnts =>
            let m2 := ps_set_counts cnts m1 in
            if cf_obs c then ps_obs_load (cf_la c) (cf_lt c) (cf_fuel c) ps_obs_step m2
            else PsRet (Some m2)
        end)
    end).
End Events.

(* the allocator of the test harness: lowest free slot of an arena (key = address, little endian) *)
Fixpoint ps_alloc_from (fuel : nat) (base slot i : Z) (live : list bytes) : bytes :=
  let k := ps_le 8 (base + slot * i) in
  match fuel with
  | O => k
  | S f => if existsb (ps_beq k) live then ps_alloc_from f base slot (i + 1) live else k
  end.
Definition ps_alloc_lowest (base slot : Z) (live : list bytes) : bytes :=
  ps_alloc_from (length live) base slot 0 live.

(* one server process: coap_persist_startup, then the events *)
Definition ps_process (app : bytes -> option (bytes * bool))
           (req : bytes -> option (bytes * bytes * bytes)) (alloc : list bytes -> bytes)
           (c : ps_cfg) (m0 : ps_mem) (evs : list ps_event) : ps_prog ps_result :=
  ps_bind (ps_startup app req alloc c m0) (fun r =>
    match r with
    | None => PsRet None
    | Some m => ps_hist alloc c evs m []
    end).

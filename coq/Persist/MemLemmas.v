(* C17 - lemmas about the in-memory server state of Server.v (lookup, replace, remove, the
   subscriber lists) used by the coherence invariant. *)
From LibcoapV Require Import Base.Tactics Base.Bytes Base.BytesProofs Persist.Fs Persist.Records
  Persist.Updaters Persist.UpdatersProofs Persist.Server Persist.Restore.
Local Open Scope Z_scope.

Lemma ps_bytes_dec : forall a b : bytes, {a = b} + {a <> b}.
Proof. apply list_eq_dec. apply Z.eq_dec. Qed.

Lemma ps_beq_false : forall a b, a <> b -> ps_beq a b = false.
Proof. intros a b H. destruct (ps_beq a b) eqn:E; [apply ps_beq_eq in E; contradiction|reflexivity]. Qed.

(* subscription s is on the list of the resource that lookup finds under name n *)
Definition ps_insub (m : ps_mem) (n : bytes) (s : ps_sub) : Prop :=
  exists r, ps_find n m = Some r /\ In s (psr_subs r).

Lemma ps_find_name : forall n m r, ps_find n m = Some r -> psr_name r = n.
Proof. intros. eapply ps_find_in. eassumption. Qed.

Lemma ps_insub_replace : forall new m name rs n s,
  psr_name new = name -> ps_find name m = Some rs ->
  (ps_insub (ps_replace new m) n s <->
   (n = name /\ In s (psr_subs new)) \/ (n <> name /\ ps_insub m n s)).
Proof.
  intros new m name rs n s Hn Hf. unfold ps_insub. destruct (ps_bytes_dec n name) as [->|Hne].
  - rewrite (ps_find_replace_same new m name rs Hn Hf). split.
    + intros (r & E & Hin). inversion E; subst. left. split; [reflexivity|exact Hin].
    + intros [[_ Hin]|[Hc _]]; [exists new; split; [reflexivity|exact Hin]|congruence].
  - rewrite (ps_find_replace_other new m n) by (rewrite Hn; apply ps_beq_false; exact Hne). split.
    + intro H. right. split; [exact Hne|exact H].
    + intros [[Hc _]|[_ H]]; [contradiction|exact H].
Qed.

Lemma ps_find_replace_any : forall new m name rs n,
  psr_name new = name -> ps_find name m = Some rs ->
  ps_find n (ps_replace new m) = if ps_beq n name then Some new else ps_find n m.
Proof.
  intros new m name rs n Hn Hf. destruct (ps_bytes_dec n name) as [->|Hne].
  - rewrite ps_beq_refl. apply (ps_find_replace_same new m name rs Hn Hf).
  - rewrite (ps_beq_false n name Hne). apply ps_find_replace_other. rewrite Hn. apply ps_beq_false. exact Hne.
Qed.

Lemma ps_find_remove : forall name m n,
  ps_find n (ps_remove name m) = if ps_beq n name then ps_find n (ps_remove name m) else ps_find n m.
Proof.
  intros name m n. destruct (ps_beq n name) eqn:E; [reflexivity|].
  induction m as [|x m IH]; [reflexivity|]. cbn [ps_remove].
  destruct (ps_beq name (psr_name x)) eqn:Ex.
  - apply ps_beq_eq in Ex. cbn [ps_find]. rewrite <- Ex, E. reflexivity.
  - cbn [ps_find]. destruct (ps_beq n (psr_name x)); [reflexivity|exact IH].
Qed.

Lemma ps_find_remove_other : forall name m n, n <> name -> ps_find n (ps_remove name m) = ps_find n m.
Proof. intros. rewrite ps_find_remove, (ps_beq_false n name H). reflexivity. Qed.

(* with unique names the removed resource is gone *)
Lemma ps_find_remove_same : forall name m,
  NoDup (map psr_name m) -> ps_find name (ps_remove name m) = None.
Proof.
  intros name m Hnd. induction m as [|x m IH]; [reflexivity|]. cbn [ps_remove].
  inversion Hnd as [|? ? Hx Hm]; subst. destruct (ps_beq name (psr_name x)) eqn:Ex.
  - apply ps_beq_eq in Ex. destruct (ps_find name m) as [r|] eqn:Ef; [|reflexivity].
    destruct (ps_find_in _ _ _ Ef) as [Hin Hnm]. exfalso. apply Hx. rewrite <- Ex, <- Hnm.
    apply in_map. exact Hin.
  - cbn [ps_find]. rewrite Ex. apply IH. exact Hm.
Qed.

Lemma ps_names_replace : forall new m name,
  psr_name new = name -> map psr_name (ps_replace new m) = map psr_name m.
Proof.
  intros new m name Hn. induction m as [|x m IH]; [reflexivity|]. cbn [ps_replace].
  destruct (ps_beq (psr_name new) (psr_name x)) eqn:E.
  - apply ps_beq_eq in E. cbn [map]. rewrite E. reflexivity.
  - cbn [map]. rewrite IH. reflexivity.
Qed.

Lemma ps_names_remove : forall name m, NoDup (map psr_name m) -> NoDup (map psr_name (ps_remove name m)).
Proof.
  intros name m H. induction m as [|x m IH]; [constructor|]. cbn [ps_remove].
  inversion H as [|? ? Hx Hm]; subst. destruct (ps_beq name (psr_name x)); [exact Hm|].
  cbn [map]. constructor; [|apply IH; exact Hm].
  intro Hin. apply Hx. clear -Hin. induction m as [|y m IH]; [contradiction|].
  cbn [ps_remove] in Hin. destruct (ps_beq name (psr_name y)); [right; exact Hin|].
  destruct Hin as [E|Hin]; [left; exact E|right; apply IH; exact Hin].
Qed.

Lemma ps_names_app : forall m x, NoDup (map psr_name m) -> ps_find (psr_name x) m = None ->
  NoDup (map psr_name (m ++ [x])).
Proof.
  intros m x Hnd Hf. rewrite map_app. cbn [map].
  induction m as [|y m IH]; [constructor; [intros []|constructor]|].
  cbn [map List.app]. inversion Hnd as [|? ? Hy Hm]; subst. cbn [ps_find] in Hf.
  destruct (ps_beq (psr_name x) (psr_name y)) eqn:E; [discriminate|].
  constructor; [|apply IH; assumption].
  intro Hin. apply in_app_or in Hin. destruct Hin as [Hin|[Ex|[]]]; [contradiction|].
  rewrite Ex, ps_beq_refl in E. discriminate.
Qed.

(* subscriber lists *)
Lemma ps_find_tok_some : forall tuple token l s,
  ps_find_tok tuple token l = Some s -> In s l /\ pss_tuple s = tuple /\ pss_token s = token.
Proof.
  induction l as [|x l IH]; intros s H; [discriminate|]. cbn [ps_find_tok] in H.
  destruct (ps_beq tuple (pss_tuple x) && ps_beq token (pss_token x)) eqn:E.
  - inversion H; subst. apply andb_true_iff in E. destruct E as [E1 E2].
    apply ps_beq_eq in E1. apply ps_beq_eq in E2. split; [left; reflexivity|split; congruence].
  - destruct (IH s H) as (A & B & C). split; [right; exact A|split; assumption].
Qed.

Lemma ps_find_ck_some : forall tuple ck l s,
  ps_find_ck tuple ck l = Some s -> In s l /\ pss_tuple s = tuple /\ pss_ck s = ck.
Proof.
  induction l as [|x l IH]; intros s H; [discriminate|]. cbn [ps_find_ck] in H.
  destruct (ps_beq tuple (pss_tuple x) && ps_beq ck (pss_ck x)) eqn:E.
  - inversion H; subst. apply andb_true_iff in E. destruct E as [E1 E2].
    apply ps_beq_eq in E1. apply ps_beq_eq in E2. split; [left; reflexivity|split; congruence].
  - destruct (IH s H) as (A & B & C). split; [right; exact A|split; assumption].
Qed.

Lemma ps_find_tok_none_inv : forall tuple token l,
  ps_find_tok tuple token l = None ->
  forall s, In s l -> ~ (pss_tuple s = tuple /\ pss_token s = token).
Proof.
  induction l as [|x l IH]; intros H s Hs [E1 E2]; [contradiction|]. cbn [ps_find_tok] in H.
  destruct (ps_beq tuple (pss_tuple x) && ps_beq token (pss_token x)) eqn:E; [discriminate|].
  destruct Hs as [->|Hs].
  - rewrite <- E1, <- E2, !ps_beq_refl in E. discriminate.
  - exact (IH H s Hs (conj E1 E2)).
Qed.

Lemma ps_find_ck_none_inv : forall tuple ck l,
  ps_find_ck tuple ck l = None ->
  forall s, In s l -> ~ (pss_tuple s = tuple /\ pss_ck s = ck).
Proof.
  induction l as [|x l IH]; intros H s Hs [E1 E2]; [contradiction|]. cbn [ps_find_ck] in H.
  destruct (ps_beq tuple (pss_tuple x) && ps_beq ck (pss_ck x)) eqn:E; [discriminate|].
  destruct Hs as [->|Hs].
  - rewrite <- E1, <- E2, !ps_beq_refl in E. discriminate.
  - exact (IH H s Hs (conj E1 E2)).
Qed.

(* dropping the subscription with a given key from a list whose keys are distinct *)
Lemma ps_drop_key_in : forall key l s,
  NoDup (map pss_key l) -> (In s (ps_drop_key key l) <-> In s l /\ pss_key s <> key).
Proof.
  intros key l s Hnd. induction l as [|x l IH]; [cbn; tauto|]. cbn [ps_drop_key].
  inversion Hnd as [|? ? Hx Hl]; subst. destruct (ps_beq key (pss_key x)) eqn:E.
  - apply ps_beq_eq in E. split.
    + intro Hin. split; [right; exact Hin|]. intro Ek. apply Hx. rewrite <- E, <- Ek. apply in_map. exact Hin.
    + intros [[->|Hin] Hk]; [congruence|exact Hin].
  - cbn [In]. rewrite (IH Hl). split.
    + intros [->|[Hin Hk]]; [split; [left; reflexivity|]|split; [right; exact Hin|exact Hk]].
      intro Ek. rewrite Ek, ps_beq_refl in E. discriminate.
    + intros [[->|Hin] Hk]; [left; reflexivity|right; split; assumption].
Qed.

Lemma ps_drop_key_nodup : forall key l,
  NoDup (map pss_key l) -> NoDup (map pss_key (ps_drop_key key l)).
Proof.
  intros key l H. induction l as [|x l IH]; [constructor|]. cbn [ps_drop_key].
  inversion H as [|? ? Hx Hl]; subst. destruct (ps_beq key (pss_key x)); [exact Hl|].
  cbn [map]. constructor; [|apply IH; exact Hl].
  intro Hin. apply Hx. apply in_map_iff in Hin. destruct Hin as (y & Ey & Hy).
  apply in_map_iff. exists y. split; [exact Ey|].
  clear -Hy. induction l as [|z l IH]; [contradiction|]. cbn [ps_drop_key] in Hy.
  destruct (ps_beq key (pss_key z)); [right; exact Hy|].
  destruct Hy as [->|Hy]; [left; reflexivity|right; apply IH; exact Hy].
Qed.

Lemma ps_insub_live : forall m n s, ps_insub m n s -> In (pss_key s) (ps_live m).
Proof.
  intros m n s (r & Hf & Hin). destruct (ps_find_in _ _ _ Hf) as [Hr _].
  unfold ps_live. apply in_flat_map. exists r. split; [exact Hr|apply in_map; exact Hin].
Qed.

(* list facts *)
Lemma ps_nodup_map_transfer : forall (X Y Z : Type) (f : X -> Y) (g : X -> Z) (l : list X),
  NoDup (map g l) -> (forall a b, In a l -> In b l -> f a = f b -> g a = g b) -> NoDup (map f l).
Proof.
  intros X Y Z f g l Hnd Hinj. induction l as [|x l IH]; [constructor|]. cbn [map] in *.
  inversion Hnd as [|? ? Hx Hl]; subst. constructor.
  - intro Hin. apply in_map_iff in Hin. destruct Hin as (y & Ey & Hy). apply Hx.
    apply in_map_iff. exists y. split; [|exact Hy]. apply Hinj; [right; exact Hy|left; reflexivity|exact Ey].
  - apply IH; [exact Hl|]. intros a b Ha Hb. apply Hinj; right; assumption.
Qed.

Lemma ps_filter_id : forall (X : Type) (f : X -> bool) (l : list X),
  (forall x, In x l -> f x = true) -> filter f l = l.
Proof.
  intros X f l H. induction l as [|x l IH]; [reflexivity|]. cbn [filter].
  rewrite (H x (or_introl eq_refl)). f_equal. apply IH. intros y Hy. apply H. right. exact Hy.
Qed.

(* C17 - the call-outs, whole histories and coap_persist_startup follow the discipline of
   FsProofs.v, hence the crash theorem holds for a complete server process: at every kill point
   the three persistent files are exactly what the last completed rename left (or what the
   process found at its start). *)
From LibcoapV Require Import Base.Tactics Base.Bytes Persist.Fs Persist.FsProofs Persist.Records
  Persist.Updaters Persist.Discipline Persist.Server.
Local Open Scope Z_scope.

Lemma ps_guard_d : forall A (p : ps_prog Z) (k : ps_prog (option A)),
  ps_disc p -> ps_disc k -> ps_disc (ps_guard p k).
Proof.
  intros. unfold ps_guard. apply ps_disc_bind; [assumption|].
  intro r. destruct (r =? PS_FUEL); [constructor|assumption].
Qed.

Lemma ps_when_d : forall A b (p : ps_prog Z) (k : ps_prog (option A)),
  ps_disc p -> ps_disc k -> ps_disc (ps_when b p k).
Proof. intros. unfold ps_when. destruct b; [apply ps_guard_d|]; assumption. Qed.

Section Disc.
  Variable app : bytes -> option (bytes * bool).
  Variable req : bytes -> option (bytes * bytes * bytes).
  Variable alloc : list bytes -> bytes.
  Variable c : ps_cfg.

  Lemma ps_untrack_all_d : forall l k, ps_disc k -> ps_disc (ps_untrack_all c l k).
  Proof.
    induction l as [|s l IH]; intros k Hk; cbn [ps_untrack_all]; [exact Hk|].
    unfold ps_untrack_sub. apply ps_when_d; [apply ps_disc1_disc; apply ps_obs_deleted_d1|].
    apply IH. exact Hk.
  Qed.

  Definition ps_ev_ok (e : ps_event) : Prop :=
    match e with PsEvRaw p => ps_disc p | _ => True end.

  Lemma ps_ev_d : forall e m, ps_ev_ok e -> ps_disc (ps_ev alloc c e m).
  Proof.
    intros e m He. destruct e; cbn [ps_ev].
    - unfold ps_ev_put. destruct (ps_find name m); [constructor|].
      apply ps_when_d; [apply ps_disc1_disc; apply ps_dyn_added_d1|constructor].
    - unfold ps_ev_del. destruct (ps_find name m); [|constructor].
      apply ps_when_d; [apply ps_disc1_disc; apply ps_cnt_track_d1|].
      apply ps_untrack_all_d.
      apply ps_when_d; [apply ps_res_deleted_d|constructor].
    - unfold ps_ev_reg. destruct (ps_find name m) as [r|]; [|constructor].
      destruct (negb (psr_observable r)); [constructor|].
      destruct (ps_find_tok tuple token (psr_subs r)); [constructor|].
      assert (H : ps_disc (ps_when (psc_obs c)
                 (ps_obs_added (psc_la c) (psc_lt c) (psc_fuel c)
                    (ps_obs_of c (mkSub (alloc (ps_live (ps_replace (mkRsrc name true (psr_observe r)
                       match ps_find_ck tuple ck (psr_subs r) with
                       | Some o => ps_drop_key (pss_key o) (psr_subs r)
                       | None => psr_subs r
                       end) m))) tuple token ck pkt)))
                 (ps_track c name (psr_observe r)
                    (PsRet (Some (ps_replace (mkRsrc name true (psr_observe r)
                       (mkSub (alloc (ps_live (ps_replace (mkRsrc name true (psr_observe r)
                          match ps_find_ck tuple ck (psr_subs r) with
                          | Some o => ps_drop_key (pss_key o) (psr_subs r)
                          | None => psr_subs r
                          end) m))) tuple token ck pkt ::
                        match ps_find_ck tuple ck (psr_subs r) with
                        | Some o => ps_drop_key (pss_key o) (psr_subs r)
                        | None => psr_subs r
                        end)) m, [(name, tuple, token, psr_observe r)])))))).
      { apply ps_when_d; [apply ps_disc1_disc; apply ps_obs_added_d1|].
        unfold ps_track. apply ps_when_d; [apply ps_disc1_disc; apply ps_cnt_track_d1|constructor]. }
      destruct (ps_find_ck tuple ck (psr_subs r)) as [o|]; [|exact H].
      unfold ps_untrack_sub. apply ps_when_d; [apply ps_disc1_disc; apply ps_obs_deleted_d1|exact H].
    - unfold ps_ev_cancel. destruct (ps_find name m) as [r|]; [|constructor].
      destruct (negb (psr_observable r)); [constructor|].
      destruct (match ps_find_tok tuple token (psr_subs r) with
                | Some s => Some s | None => ps_find_ck tuple ck (psr_subs r) end); [|constructor].
      unfold ps_untrack_sub. apply ps_when_d; [apply ps_disc1_disc; apply ps_obs_deleted_d1|constructor].
    - unfold ps_ev_notify. destruct (ps_find name m) as [r|]; [|constructor].
      destruct (psr_observable r); [|constructor]. destruct (psr_subs r); [constructor|].
      apply ps_when_d; [apply ps_disc1_disc; apply ps_cnt_track_d1|constructor].
    - apply ps_guard_d; [exact He|constructor].
  Qed.

  Lemma ps_hist_d : forall l m sent, Forall ps_ev_ok l -> ps_disc (ps_hist alloc c l m sent).
  Proof.
    induction l as [|e l IH]; intros m sent Hl; cbn [ps_hist]; [constructor|].
    inversion Hl; subst. apply ps_disc_bind; [apply ps_ev_d; assumption|].
    intros [[m' s]|]; [apply IH; assumption|constructor].
  Qed.

  Lemma ps_obs_step_d : forall r m, ps_disc (ps_obs_step req alloc c r m).
  Proof.
    intros r m. unfold ps_obs_step.
    destruct (negb (ps_beq (pso_proto r) (psc_proto c))); [constructor|].
    destruct (negb (ps_beq (pso_listen r) (psc_listen c))); [constructor|].
    destruct (req (pso_pkt r)) as [[[name token] ck]|]; [|constructor].
    destruct (ps_find name m) as [rs|]; [|constructor].
    destruct (negb (psr_observable rs)); [constructor|].
    destruct (ps_find_tok (pso_tuple r) token (psr_subs rs)); [constructor|].
    destruct (psc_cnt c); [|constructor].
    apply ps_disc_bind; [apply ps_disc1_disc; apply ps_cnt_track_d1|]. intro; constructor.
  Qed.

  Lemma ps_startup_d : forall m0, ps_disc (ps_startup app req alloc c m0).
  Proof.
    intro m0. unfold ps_startup. apply ps_disc_bind.
    - destruct (psc_dyn c && psc_unknown c); [|constructor].
      apply ps_disc1_disc. apply ps_disc0_disc1. apply ps_dyn_load_d0.
    - intros [m1|]; [|constructor]. apply ps_disc_bind.
      + destruct (psc_cnt c); [|constructor].
        apply ps_disc1_disc. apply ps_disc0_disc1. apply ps_cnt_load_d0.
      + intros [cnts|]; [|constructor]. destruct (psc_obs c); [|constructor].
        apply ps_obs_load_d. intros. apply ps_obs_step_d.
  Qed.

  Theorem ps_process_d : forall m0 evs,
    Forall ps_ev_ok evs -> ps_disc (ps_process app req alloc c m0 evs).
  Proof.
    intros m0 evs He. unfold ps_process. apply ps_disc_bind; [apply ps_startup_d|].
    intros [m|]; [apply ps_hist_d; exact He|constructor].
  Qed.

  (* C17_atomic for a whole server process: whatever the history, wherever the kill *)
  Theorem ps_process_crash_view : forall pol m0 evs fs k i,
    Forall ps_ev_ok evs ->
    ps_view (ps_runk pol (ps_process app req alloc c m0 evs) k (ps_boot fs)) i =
    last (ps_commit_views pol (ps_process app req alloc c m0 evs) k (ps_boot fs))
         (ps_view (ps_boot fs)) i.
  Proof.
    intros. apply ps_crash_view; [apply ps_process_d; assumption|apply ps_tmpw_boot].
  Qed.
End Disc.

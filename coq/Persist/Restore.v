(* C17 - coap_persist_startup_lkd on well-formed files (C17_restart_restores): what the server
   has in memory afterwards, as a function of the three files. *)
From LibcoapV Require Import Base.Tactics Base.Bytes Base.BytesProofs Persist.Fs Persist.FsProofs
  Persist.Records Persist.RecordsProofs Persist.Updaters Persist.Streams Persist.UpdatersProofs
  Persist.Footprint Persist.LoadersProofs Persist.Server.
Local Open Scope Z_scope.

Section Restore.
  Variable pol : Z -> Z -> Z.
  Variable app : bytes -> option (bytes * bool).
  Variable req : bytes -> option (bytes * bytes * bytes).
  Variable alloc : list bytes -> bytes.
  Variable c : ps_cfg.
  Hypothesis la_pos : 0 < psc_la c.
  Hypothesis lt_pos : 0 < psc_lt c.
  Hypothesis alloc_len : forall live, len (alloc live) = PS_KEY.

  (* memory states whose resource names fit the counter file and whose keys are addresses *)
  Definition ps_mem_ok (m : ps_mem) : Prop :=
    Forall (fun r => ps_name_ok (psr_name r) /\ 0 <= psr_observe r < 4294967296 /\
                     Forall (fun s => len (pss_key s) = PS_KEY) (psr_subs r)) m.

  Lemma ps_find_in : forall name m r, ps_find name m = Some r -> In r m /\ psr_name r = name.
  Proof.
    induction m as [|x m IH]; intros r H; [discriminate|]. cbn [ps_find] in H.
    destruct (ps_beq name (psr_name x)) eqn:E.
    - inversion H; subst. split; [left; reflexivity|]. symmetry. apply ps_beq_eq. exact E.
    - destruct (IH r H). split; [right; assumption|assumption].
  Qed.

  Lemma ps_replace_ok : forall r m,
    ps_mem_ok m ->
    (ps_name_ok (psr_name r) /\ 0 <= psr_observe r < 4294967296 /\
     Forall (fun s => len (pss_key s) = PS_KEY) (psr_subs r)) ->
    ps_mem_ok (ps_replace r m).
  Proof.
    intros r m Hm Hr. induction m as [|x m IH]; [constructor|].
    inversion Hm; subst. cbn [ps_replace]. destruct (ps_beq (psr_name r) (psr_name x)).
    - constructor; assumption.
    - constructor; [assumption|apply IH; assumption].
  Qed.

  Lemma ps_drop_key_keys : forall key l,
    Forall (fun s => len (pss_key s) = PS_KEY) l ->
    Forall (fun s => len (pss_key s) = PS_KEY) (ps_drop_key key l).
  Proof.
    intros key l H. induction H; cbn [ps_drop_key]; [constructor|].
    destruct (ps_beq key (pss_key x)); [assumption|constructor; assumption].
  Qed.

  Lemma ps_find_tok_in : forall tuple token l s, ps_find_tok tuple token l = Some s -> In s l.
  Proof.
    induction l as [|x l IH]; intros s H; [discriminate|]. cbn [ps_find_tok] in H.
    destruct (ps_beq tuple (pss_tuple x) && ps_beq token (pss_token x)).
    - inversion H; subst. left; reflexivity.
    - right. apply IH. exact H.
  Qed.

  (* coap_persist_observe_add_lkd for one stored record, as a function *)
  Definition ps_obs_step_spec (r : ps_obs) (m : ps_mem) (C : list (bytes * Z))
    : ps_mem * option bytes * list (bytes * Z) :=
    if negb (ps_beq (pso_proto r) (psc_proto c)) then (m, None, C) else
    if negb (ps_beq (pso_listen r) (psc_listen c)) then (m, None, C) else
    match req (pso_pkt r) with
    | None => (m, None, C)
    | Some (name, token, ck) =>
        match ps_find name m with
        | None => (m, None, C)
        | Some rs =>
            if negb (psr_observable rs) then (m, None, C) else
            match ps_find_tok (pso_tuple r) token (psr_subs rs) with
            | Some s => (m, Some (pss_key s), C)
            | None =>
                let subs1 := match ps_find_ck (pso_tuple r) ck (psr_subs rs) with
                             | Some o => ps_drop_key (pss_key o) (psr_subs rs)
                             | None => psr_subs rs
                             end in
                let m1 := ps_replace (mkRsrc name true (psr_observe rs) subs1) m in
                let s := mkSub (alloc (ps_live m1)) (pso_tuple r) token ck (pso_pkt r) in
                let m2 := ps_replace (mkRsrc name true (psr_observe rs) (s :: subs1)) m in
                (m2, Some (pss_key s),
                 if psc_cnt c then ps_cnt_without name C ++ [(name, psr_observe rs)] else C)
            end
        end
    end.

  Lemma ps_cnt_without_wf : forall name C, Forall ps_cnt_wf C -> Forall ps_cnt_wf (ps_cnt_without name C).
  Proof.
    intros name C H. unfold ps_cnt_without. induction H; cbn [filter]; [constructor|].
    destruct (negb (ps_beq name (fst x))); [constructor; assumption|assumption].
  Qed.

  Lemma ps_cnt_without_len : forall name C, (length (ps_cnt_without name C) <= length C)%nat.
  Proof.
    intros name C. unfold ps_cnt_without. induction C as [|x C IH]; cbn [filter length]; [lia|].
    destruct (negb (ps_beq name (fst x))); cbn [length]; lia.
  Qed.

  Theorem ps_obs_step_ok : forall cmax,
    (cmax <= psc_fuel c)%nat ->
    ps_step_ok pol ps_mem (ps_obs_step req alloc c) ps_obs_step_spec ps_mem_ok cmax.
  Proof.
    intros cmax Hcm r m C s Hok Hwfh HC Hlen Hcnt.
    assert (Same : forall key : option bytes, (forall k : bytes, key = Some k -> len k = PS_KEY) ->
              exists s', ps_run pol (PsRet (m, key)) s = ((m, key), s') /\ ps_mem_ok m /\
                Forall ps_cnt_wf C /\ (length C <= Datatypes.S (length C))%nat /\
                ps_holds ps_cnt_file (ps_view s' PS_CNT) C /\
                (forall k : bytes, key = Some k -> len k = PS_KEY) /\ ps_wfh s' /\ ps_next s <= ps_next s' /\
                (forall g, g < ps_next s -> ps_hget g (ps_hs s') = ps_hget g (ps_hs s)) /\
                (forall n, n <> PsBase PS_CNT -> n <> PsTmp PS_CNT ->
                           ps_get n (ps_fs s') = ps_get n (ps_fs s))).
    { intros key Hk. exists s. cbn [ps_run]. repeat split; try assumption; try lia; try reflexivity.
      all: try (apply Hcnt). }
    unfold ps_obs_step, ps_obs_step_spec.
    destruct (negb (ps_beq (pso_proto r) (psc_proto c))); [apply Same; intros; discriminate|].
    destruct (negb (ps_beq (pso_listen r) (psc_listen c))); [apply Same; intros; discriminate|].
    destruct (req (pso_pkt r)) as [[[name token] ck]|]; [|apply Same; intros; discriminate].
    destruct (ps_find name m) as [rs|] eqn:Ef; [|apply Same; intros; discriminate].
    destruct (negb (psr_observable rs)); [apply Same; intros; discriminate|].
    destruct (ps_find_in _ _ _ Ef) as [Hin Hname].
    unfold ps_mem_ok in Hok. rewrite Forall_forall in Hok.
    destruct (Hok rs Hin) as (Hnok & Hobs & Hkeys). rewrite Hname in Hnok.
    destruct (ps_find_tok (pso_tuple r) token (psr_subs rs)) as [s0|] eqn:Et.
    - cbn [fst snd]. apply Same. intros k E. inversion E; subst.
      rewrite Forall_forall in Hkeys. apply Hkeys. eapply ps_find_tok_in. exact Et.
    - set (subs1 := match ps_find_ck (pso_tuple r) ck (psr_subs rs) with
                    | Some o => ps_drop_key (pss_key o) (psr_subs rs)
                    | None => psr_subs rs
                    end).
      set (m1 := ps_replace (mkRsrc name true (psr_observe rs) subs1) m).
      set (sn := mkSub (alloc (ps_live m1)) (pso_tuple r) token ck (pso_pkt r)).
      set (m2 := ps_replace (mkRsrc name true (psr_observe rs) (sn :: subs1)) m).
      assert (Hsubs1 : Forall (fun s => len (pss_key s) = PS_KEY) subs1).
      { subst subs1. destruct (ps_find_ck (pso_tuple r) ck (psr_subs rs));
          [apply ps_drop_key_keys|]; exact Hkeys. }
      assert (Hok2 : ps_mem_ok m2).
      { apply ps_replace_ok; [unfold ps_mem_ok; rewrite Forall_forall; exact Hok|].
        cbn [psr_name psr_observe psr_subs]. split; [exact Hnok|]. split; [exact Hobs|].
        constructor; [apply alloc_len|exact Hsubs1]. }
      cbn [fst snd pss_key].
      destruct (psc_cnt c) eqn:Ecnt.
      + rewrite ps_run_bind.
        destruct (ps_cnt_track_frame pol (psc_fuel c) name (psr_observe rs) C s Hwfh HC ltac:(lia) Hcnt)
          as (s' & Hr & Hv & Hwfh' & Hn' & Hg' & Hf').
        rewrite Hr. cbn [ps_run]. exists s'. split; [reflexivity|]. split; [exact Hok2|].
        split; [apply Forall_app; split; [apply ps_cnt_without_wf; exact HC|]|].
        { constructor; [|constructor]. split; [exact Hnok|exact Hobs]. }
        split; [rewrite app_length; cbn [length]; pose proof (ps_cnt_without_len name C); lia|].
        split; [left; rewrite Hv; f_equal; apply ps_cnt_track_entry; assumption|].
        split; [intros k E; inversion E; subst; apply alloc_len|].
        split; [exact Hwfh'|]. split; [exact Hn'|]. split; [exact Hg'|exact Hf'].
      + exists s. cbn [ps_run]. split; [reflexivity|]. split; [exact Hok2|].
        split; [exact HC|]. split; [lia|]. split; [exact Hcnt|].
        split; [intros k E; inversion E; subst; apply alloc_len|].
        split; [exact Hwfh|]. split; [lia|]. split; reflexivity.
  Qed.

  Lemma ps_obs_load_missing : forall (St : Type) fuel (step : ps_obs -> St -> ps_prog (St * option bytes)) st s,
    ps_view s PS_OBS = None ->
    ps_run pol (ps_obs_load (psc_la c) (psc_lt c) fuel step st) s = (Some st, s).
  Proof.
    intros St fuel step st s Hv. unfold ps_obs_load, ps_open. cbn [ps_run].
    rewrite (ps_open_r_none pol s (PsBase PS_OBS) Hv). reflexivity.
  Qed.

  (* the server state a fresh process has after coap_persist_startup, as a function of the
     records in the three files: resources re-created through the application's handler, counters
     rounded up, then one coap_persist_observe_add per stored observation *)
  Definition ps_restored_mem (m0 : ps_mem) (D : list ps_dyn) (O : list ps_obs) (C : list (bytes * Z))
    : ps_mem :=
    let m1 := ps_dyn_fold (ps_dyn_step app) D m0 in
    let m2 := ps_set_counts (ps_rounded (psc_freq c) C) m1 in
    fst (fst (ps_obs_fold ps_mem ps_obs_step_spec O m2 C)).

  Definition ps_restored_obs (m0 : ps_mem) (D : list ps_dyn) (O : list ps_obs) (C : list (bytes * Z))
    : list ps_obs :=
    let m1 := ps_dyn_fold (ps_dyn_step app) D m0 in
    let m2 := ps_set_counts (ps_rounded (psc_freq c) C) m1 in
    snd (fst (ps_obs_fold ps_mem ps_obs_step_spec O m2 C)).

  Theorem ps_startup_restores : forall m0 D O C fs,
    psc_dyn c = true -> psc_obs c = true -> psc_cnt c = true -> psc_unknown c = true ->
    Forall ps_dyn_wf D -> Forall (ps_obs_wf (psc_la c) (psc_lt c)) O -> Forall ps_cnt_wf C ->
    (length D < psc_fuel c)%nat -> (length O < psc_fuel c)%nat ->
    (length C + length O < psc_fuel c)%nat ->
    ps_holds ps_dyn_file (ps_view (ps_boot fs) PS_DYN) D ->
    ps_view (ps_boot fs) PS_OBS = Some (ps_obs_file O) ->
    ps_holds ps_cnt_file (ps_view (ps_boot fs) PS_CNT) C ->
    ps_mem_ok (ps_set_counts (ps_rounded (psc_freq c) C) (ps_dyn_fold (ps_dyn_step app) D m0)) ->
    exists s',
      ps_run pol (ps_startup app req alloc c m0) (ps_boot fs) = (Some (ps_restored_mem m0 D O C), s') /\
      ps_view s' PS_OBS = Some (ps_obs_file (ps_restored_obs m0 D O C)) /\
      ps_view s' PS_DYN = ps_view (ps_boot fs) PS_DYN.
  Proof.
    intros m0 D O C fs Hd Ho Hc Hu HD HO HC HlD HlO HlCO HvD HvO HvC Hok.
    unfold ps_startup. rewrite Hd, Hu, Hc, Ho. cbn [andb].
    rewrite ps_run_bind.
    destruct (ps_dyn_load_correct pol ps_mem (ps_dyn_step app) (psc_fuel c) D m0 (ps_boot fs) HD HlD HvD)
      as (s1 & Hr1 & Hf1 & Hn1 & Hg1).
    rewrite Hr1. rewrite ps_run_bind.
    assert (HV1 : forall i, ps_view s1 i = ps_view (ps_boot fs) i) by (apply ps_view_files; exact Hf1).
    assert (HvC1 : ps_holds ps_cnt_file (ps_view s1 PS_CNT) C) by (rewrite HV1; exact HvC).
    destruct (ps_cnt_load_correct pol (psc_fuel c) (psc_freq c) C s1 HC ltac:(lia) HvC1)
      as (s2 & Hr2 & Hf2 & Hn2 & Hg2).
    rewrite Hr2.
    assert (HV2 : forall i, ps_view s2 i = ps_view (ps_boot fs) i).
    { intro i. rewrite <- HV1. apply ps_view_files. exact Hf2. }
    assert (Hwfh2 : ps_wfh s2).
    { pose proof (ps_wfh_run pol _ (ps_dyn_load (psc_fuel c) (ps_dyn_step app) m0) (ps_boot fs)
                             (ps_wfh_boot fs)) as X1. rewrite Hr1 in X1.
      pose proof (ps_wfh_run pol _ (ps_cnt_load (psc_fuel c) (psc_freq c)) s1 X1) as X2.
      rewrite Hr2 in X2. exact X2. }
    destruct (ps_obs_load_correct pol ps_mem (psc_la c) (psc_lt c) la_pos lt_pos
                (ps_obs_step req alloc c) ps_obs_step_spec ps_mem_ok (psc_fuel c)
                (ps_obs_step_ok (psc_fuel c) (le_n _)) (psc_fuel c) O C
                (ps_set_counts (ps_rounded (psc_freq c) C) (ps_dyn_fold (ps_dyn_step app) D m0)) s2)
      as (s3 & Hr3 & Hv3 & _ & Hd3 & _); try assumption.
    - rewrite HV2. exact HvO.
    - rewrite HV2. exact HvC.
    - exists s3. split; [exact Hr3|]. split; [exact Hv3|]. rewrite Hd3. apply HV2.
  Qed.

  (* the same with an observe file that may be absent: the memory state that comes out *)
  Theorem ps_startup_mem : forall m0 D O C fs,
    psc_dyn c = true -> psc_obs c = true -> psc_cnt c = true -> psc_unknown c = true ->
    Forall ps_dyn_wf D -> Forall (ps_obs_wf (psc_la c) (psc_lt c)) O -> Forall ps_cnt_wf C ->
    (length D < psc_fuel c)%nat -> (length O < psc_fuel c)%nat ->
    (length C + length O < psc_fuel c)%nat ->
    ps_holds ps_dyn_file (ps_view (ps_boot fs) PS_DYN) D ->
    ps_holds ps_obs_file (ps_view (ps_boot fs) PS_OBS) O ->
    ps_holds ps_cnt_file (ps_view (ps_boot fs) PS_CNT) C ->
    ps_mem_ok (ps_set_counts (ps_rounded (psc_freq c) C) (ps_dyn_fold (ps_dyn_step app) D m0)) ->
    fst (ps_run pol (ps_startup app req alloc c m0) (ps_boot fs)) = Some (ps_restored_mem m0 D O C).
  Proof.
    intros m0 D O C fs Hd Ho Hc Hu HD HO HC HlD HlO HlCO HvD HvO HvC Hok.
    destruct HvO as [HvO|[HvO ->]].
    - destruct (ps_startup_restores m0 D O C fs) as (s' & Hr & _); try assumption.
      rewrite Hr. reflexivity.
    - unfold ps_startup. rewrite Hd, Hu, Hc, Ho. cbn [andb].
      rewrite ps_run_bind.
      destruct (ps_dyn_load_correct pol ps_mem (ps_dyn_step app) (psc_fuel c) D m0 (ps_boot fs) HD HlD HvD)
        as (s1 & Hr1 & Hf1 & Hn1 & Hg1).
      rewrite Hr1. rewrite ps_run_bind.
      assert (HV1 : forall i, ps_view s1 i = ps_view (ps_boot fs) i) by (apply ps_view_files; exact Hf1).
      assert (HvC1 : ps_holds ps_cnt_file (ps_view s1 PS_CNT) C) by (rewrite HV1; exact HvC).
      destruct (ps_cnt_load_correct pol (psc_fuel c) (psc_freq c) C s1 HC ltac:(lia) HvC1)
        as (s2 & Hr2 & Hf2 & Hn2 & Hg2).
      rewrite Hr2.
      assert (HV2 : ps_view s2 PS_OBS = None).
      { rewrite <- HvO, <- HV1. apply ps_view_files. exact Hf2. }
      rewrite (ps_obs_load_missing _ _ _ _ _ HV2). reflexivity.
  Qed.

  (* every dynamic resource in the file exists again (the application re-creates the resource
     a stored request names) *)
  Lemma ps_find_app : forall name m x,
    ps_find name (m ++ [x]) = match ps_find name m with
                              | Some r => Some r
                              | None => if ps_beq name (psr_name x) then Some x else None
                              end.
  Proof.
    induction m as [|y m IH]; intro x; cbn [List.app ps_find]; [reflexivity|].
    destruct (ps_beq name (psr_name y)); [reflexivity|apply IH].
  Qed.

  Definition ps_has (m : ps_mem) (name : bytes) : Prop := ps_find name m <> None.

  Lemma ps_dyn_step_has : forall d m m', ps_dyn_step app d m = Some m' ->
    forall n, ps_has m n -> ps_has m' n.
  Proof.
    intros d m m' H n Hn. unfold ps_dyn_step in H.
    destruct (ps_find (psd_name d) m); [inversion H; subst; exact Hn|].
    destruct (app (psd_pkt d)) as [[name o]|]; [|discriminate].
    destruct (ps_find name m); inversion H; subst; [exact Hn|].
    unfold ps_has in *. rewrite ps_find_app. destruct (ps_find n m); [discriminate|contradiction].
  Qed.

  Lemma ps_dyn_fold_has : forall D m n, ps_has m n -> ps_has (ps_dyn_fold (ps_dyn_step app) D m) n.
  Proof.
    induction D as [|d D IH]; intros m n H; cbn [ps_dyn_fold]; [exact H|].
    destruct (ps_dyn_step app d m) as [m'|] eqn:E; [|exact H].
    apply IH. eapply ps_dyn_step_has; eassumption.
  Qed.

  Theorem ps_dyn_restored : forall D m0,
    (forall d, In d D -> exists o, app (psd_pkt d) = Some (psd_name d, o)) ->
    forall d, In d D -> ps_has (ps_dyn_fold (ps_dyn_step app) D m0) (psd_name d).
  Proof.
    induction D as [|d0 D IH]; intros m0 Happ d Hin; [contradiction|].
    cbn [ps_dyn_fold].
    destruct (Happ d0 (or_introl eq_refl)) as [o Ho].
    assert (Hstep : exists m', ps_dyn_step app d0 m0 = Some m' /\ ps_has m' (psd_name d0)).
    { unfold ps_dyn_step. destruct (ps_find (psd_name d0) m0) eqn:Ef.
      - eexists. split; [reflexivity|]. unfold ps_has. rewrite Ef. discriminate.
      - rewrite Ho, Ef. eexists. split; [reflexivity|]. unfold ps_has. rewrite ps_find_app, Ef.
        rewrite ps_beq_refl. discriminate. }
    destruct Hstep as (m' & Em & Hm). rewrite Em.
    destruct Hin as [->|Hin].
    - apply ps_dyn_fold_has. exact Hm.
    - apply IH; [intros x Hx; apply Happ; right; exact Hx|exact Hin].
  Qed.

  (* names survive the counter assignment and the re-creation of observations *)
  Lemma ps_find_replace : forall r m n,
    ps_has (ps_replace r m) n <-> ps_has m n.
  Proof.
    intros r m n. unfold ps_has. induction m as [|x m IH]; cbn [ps_replace ps_find]; [tauto|].
    destruct (ps_beq (psr_name r) (psr_name x)) eqn:E.
    - apply ps_beq_eq in E. cbn [ps_find]. rewrite E.
      destruct (ps_beq n (psr_name x)); [split; intros; discriminate|tauto].
    - cbn [ps_find]. destruct (ps_beq n (psr_name x)); [tauto|exact IH].
  Qed.

  Lemma ps_set_counts_has : forall l m n, ps_has (ps_set_counts l m) n <-> ps_has m n.
  Proof.
    induction l as [|[k v] l IH]; intros m n; cbn [ps_set_counts]; [tauto|].
    rewrite IH. destruct (ps_find k m); [apply ps_find_replace|tauto].
  Qed.

  Lemma ps_obs_step_spec_has : forall r m C n,
    ps_has (fst (fst (ps_obs_step_spec r m C))) n <-> ps_has m n.
  Proof.
    intros r m C n. unfold ps_obs_step_spec.
    repeat match goal with
           | |- context [if ?b then _ else _] => destruct b; cbn [fst snd]; try tauto
           | |- context [match ?x with Some _ => _ | None => _ end] => destruct x; cbn [fst snd]; try tauto
           | |- context [let '(_, _) := ?x in _] => destruct x
           end.
    all: try apply ps_find_replace.
  Qed.

  Lemma ps_obs_fold_has : forall O m C n,
    ps_has (fst (fst (ps_obs_fold ps_mem ps_obs_step_spec O m C))) n <-> ps_has m n.
  Proof.
    induction O as [|r O IH]; intros m C n; cbn [ps_obs_fold fst snd]; [tauto|].
    rewrite IH. apply ps_obs_step_spec_has.
  Qed.

  (* C17_restart_restores, resources: *)
  Theorem ps_restored_has_dyn : forall m0 D O C,
    (forall d, In d D -> exists o, app (psd_pkt d) = Some (psd_name d, o)) ->
    forall d, In d D -> ps_has (ps_restored_mem m0 D O C) (psd_name d).
  Proof.
    intros m0 D O C Happ d Hin. unfold ps_restored_mem.
    apply ps_obs_fold_has. apply ps_set_counts_has. apply ps_dyn_restored; assumption.
  Qed.

  Lemma ps_find_replace_same : forall new m name rs,
    psr_name new = name -> ps_find name m = Some rs -> ps_find name (ps_replace new m) = Some new.
  Proof.
    intros new m name rs Hn. induction m as [|x m IH]; intro Hf; [discriminate|].
    cbn [ps_find] in Hf. cbn [ps_replace]. rewrite Hn.
    destruct (ps_beq name (psr_name x)) eqn:E.
    - cbn [ps_find]. rewrite Hn, ps_beq_refl. reflexivity.
    - cbn [ps_find]. rewrite E. apply IH. exact Hf.
  Qed.

  (* ... observations: a stored record is accepted exactly when its endpoint matches, its
     request parses and names an existing observable resource; then a subscription with its
     token and cache key heads that resource's list (or the one already there is kept) and the
     record is written back under the subscription's key *)
  Theorem ps_obs_step_accepts : forall r m C name token ck rs,
    ps_beq (pso_proto r) (psc_proto c) = true -> ps_beq (pso_listen r) (psc_listen c) = true ->
    req (pso_pkt r) = Some (name, token, ck) -> ps_find name m = Some rs -> psr_observable rs = true ->
    exists key, snd (fst (ps_obs_step_spec r m C)) = Some key /\
      exists rs' s, ps_find name (fst (fst (ps_obs_step_spec r m C))) = Some rs' /\
        In s (psr_subs rs') /\ pss_key s = key /\ pss_tuple s = pso_tuple r /\ pss_token s = token.
  Proof.
    intros r m C name token ck rs Hp Hl Hreq Hf Hobs. unfold ps_obs_step_spec.
    rewrite Hp, Hl, Hreq, Hf, Hobs. cbn [negb].
    destruct (ps_find_tok (pso_tuple r) token (psr_subs rs)) as [s0|] eqn:Et.
    - cbn [fst snd]. exists (pss_key s0). split; [reflexivity|]. exists rs, s0.
      split; [exact Hf|]. split; [eapply ps_find_tok_in; exact Et|]. split; [reflexivity|].
      clear -Et. induction (psr_subs rs) as [|x l IH]; [discriminate|]. cbn [ps_find_tok] in Et.
      destruct (ps_beq (pso_tuple r) (pss_tuple x) && ps_beq token (pss_token x)) eqn:E.
      + inversion Et; subst. apply andb_true_iff in E. destruct E as [E1 E2].
        apply ps_beq_eq in E1. apply ps_beq_eq in E2. split; congruence.
      + apply IH. exact Et.
    - cbn [fst snd pss_key]. eexists. split; [reflexivity|].
      match goal with |- context [ps_replace ?x m] => set (new := x) end.
      assert (Hfind : ps_find name (ps_replace new m) = Some new).
      { apply (ps_find_replace_same new m name rs); [reflexivity|exact Hf]. }
      exists new. eexists. split; [exact Hfind|].
      split; [left; reflexivity|]. cbn [pss_key pss_tuple pss_token]. repeat split; reflexivity.
  Qed.

  (* -------------------------------------------------------------- observations survive *)
  (* what a record asks for *)
  Definition ps_ktok (r : ps_obs) : option (bytes * bytes * bytes) :=
    match req (pso_pkt r) with Some (n, t, _) => Some (n, pso_tuple r, t) | None => None end.
  Definition ps_kck (r : ps_obs) : option (bytes * bytes * bytes) :=
    match req (pso_pkt r) with Some (n, _, k) => Some (n, pso_tuple r, k) | None => None end.

  Definition ps_acceptable (m : ps_mem) (r : ps_obs) : Prop :=
    ps_beq (pso_proto r) (psc_proto c) = true /\ ps_beq (pso_listen r) (psc_listen c) = true /\
    exists name token ck rs, req (pso_pkt r) = Some (name, token, ck) /\
      ps_find name m = Some rs /\ psr_observable rs = true.

  (* the observation of record r is established in m *)
  Definition ps_present (m : ps_mem) (r : ps_obs) : Prop :=
    exists name token ck rs s, req (pso_pkt r) = Some (name, token, ck) /\
      ps_find name m = Some rs /\ In s (psr_subs rs) /\
      pss_tuple s = pso_tuple r /\ pss_token s = token /\ pss_ck s = ck /\ pss_pkt s = pso_pkt r.

  (* every subscription in m was made for one of the records in [done] *)
  Definition ps_from (m : ps_mem) (done : list ps_obs) : Prop :=
    forall n rs s, ps_find n m = Some rs -> In s (psr_subs rs) ->
      exists r, In r done /\ ps_ktok r = Some (n, pss_tuple s, pss_token s) /\
                ps_kck r = Some (n, pss_tuple s, pss_ck s).

  Lemma ps_find_replace_other : forall new m n,
    ps_beq n (psr_name new) = false -> ps_find n (ps_replace new m) = ps_find n m.
  Proof.
    intros new m n Hn. induction m as [|x m IH]; [reflexivity|]. cbn [ps_replace].
    destruct (ps_beq (psr_name new) (psr_name x)) eqn:E.
    - apply ps_beq_eq in E. cbn [ps_find]. rewrite <- E, Hn. reflexivity.
    - cbn [ps_find]. destruct (ps_beq n (psr_name x)); [reflexivity|exact IH].
  Qed.

  Lemma ps_find_tok_none : forall tuple token l,
    (forall s, In s l -> ~ (pss_tuple s = tuple /\ pss_token s = token)) ->
    ps_find_tok tuple token l = None.
  Proof.
    induction l as [|x l IH]; intro H; [reflexivity|]. cbn [ps_find_tok].
    destruct (ps_beq tuple (pss_tuple x) && ps_beq token (pss_token x)) eqn:E.
    - apply andb_true_iff in E. destruct E as [E1 E2]. apply ps_beq_eq in E1. apply ps_beq_eq in E2.
      exfalso. apply (H x (or_introl eq_refl)). split; congruence.
    - apply IH. intros s Hs. apply H. right. exact Hs.
  Qed.

  Lemma ps_find_ck_none : forall tuple ck l,
    (forall s, In s l -> ~ (pss_tuple s = tuple /\ pss_ck s = ck)) ->
    ps_find_ck tuple ck l = None.
  Proof.
    induction l as [|x l IH]; intro H; [reflexivity|]. cbn [ps_find_ck].
    destruct (ps_beq tuple (pss_tuple x) && ps_beq ck (pss_ck x)) eqn:E.
    - apply andb_true_iff in E. destruct E as [E1 E2]. apply ps_beq_eq in E1. apply ps_beq_eq in E2.
      exfalso. apply (H x (or_introl eq_refl)). split; congruence.
    - apply IH. intros s Hs. apply H. right. exact Hs.
  Qed.

  (* one record whose (resource, session, token) and (resource, session, cache key) differ from
     everything established so far: a new subscription is put in front, nothing is dropped *)
  Lemma ps_obs_step_spec_new : forall r m C done,
    ps_acceptable m r -> ps_from m done ->
    (forall r', In r' done -> ps_ktok r' <> ps_ktok r /\ ps_kck r' <> ps_kck r) ->
    let m' := fst (fst (ps_obs_step_spec r m C)) in
    ps_present m' r /\ ps_from m' (r :: done) /\
    (forall r', ps_present m r' -> ps_present m' r') /\
    (forall r', ps_acceptable m r' -> ps_acceptable m' r').
  Proof.
    intros r m C done (Hp & Hl & name & token & ck & rs & Hreq & Hf & Hobs) Hfrom Hd.
    assert (Hkt : ps_ktok r = Some (name, pso_tuple r, token)) by (unfold ps_ktok; rewrite Hreq; reflexivity).
    assert (Hkc : ps_kck r = Some (name, pso_tuple r, ck)) by (unfold ps_kck; rewrite Hreq; reflexivity).
    assert (Ht : ps_find_tok (pso_tuple r) token (psr_subs rs) = None).
    { apply ps_find_tok_none. intros s Hs [E1 E2].
      destruct (Hfrom name rs s Hf Hs) as (r0 & Hin & Hk1 & _).
      destruct (Hd r0 Hin) as [Hne _]. apply Hne. rewrite Hk1, Hkt, E1, E2. reflexivity. }
    assert (Hc : ps_find_ck (pso_tuple r) ck (psr_subs rs) = None).
    { apply ps_find_ck_none. intros s Hs [E1 E2].
      destruct (Hfrom name rs s Hf Hs) as (r0 & Hin & _ & Hk2).
      destruct (Hd r0 Hin) as [_ Hne]. apply Hne. rewrite Hk2, Hkc, E1, E2. reflexivity. }
    unfold ps_obs_step_spec. rewrite Hp, Hl, Hreq, Hf, Hobs, Ht, Hc. cbn [negb fst snd].
    match goal with |- context [ps_replace ?x m] => set (new := x) end.
    set (sn := mkSub (alloc (ps_live (ps_replace (mkRsrc name true (psr_observe rs) (psr_subs rs)) m)))
                     (pso_tuple r) token ck (pso_pkt r)) in *.
    assert (Hnew : ps_find name (ps_replace new m) = Some new)
      by (apply (ps_find_replace_same new m name rs); [reflexivity|exact Hf]).
    assert (Hother : forall n, n <> name -> ps_find n (ps_replace new m) = ps_find n m).
    { intros n Hn. apply ps_find_replace_other. change (psr_name new) with name.
      destruct (ps_beq n name) eqn:E; [apply ps_beq_eq in E; contradiction|reflexivity]. }
    split; [|split; [|split]].
    - exists name, token, ck, new, sn. split; [exact Hreq|]. split; [exact Hnew|].
      split; [left; reflexivity|]. repeat split; reflexivity.
    - intros n rs0 s Hf0 Hs. destruct (list_eq_dec Z.eq_dec n name) as [->|Hn].
      + rewrite Hnew in Hf0. inversion Hf0; subst rs0. destruct Hs as [<-|Hs].
        * exists r. split; [left; reflexivity|]. split; [exact Hkt|exact Hkc].
        * destruct (Hfrom name rs s Hf Hs) as (r0 & Hin & K1 & K2).
          exists r0. split; [right; exact Hin|]. split; assumption.
      + rewrite (Hother n Hn) in Hf0. destruct (Hfrom n rs0 s Hf0 Hs) as (r0 & Hin & K1 & K2).
        exists r0. split; [right; exact Hin|]. split; assumption.
    - intros r' (n' & t' & k' & rs' & s' & Hr' & Hf' & Hs' & Rest).
      destruct (list_eq_dec Z.eq_dec n' name) as [->|Hn].
      + rewrite Hf in Hf'. inversion Hf'; subst rs'.
        exists name, t', k', new, s'. split; [exact Hr'|]. split; [exact Hnew|].
        split; [right; exact Hs'|exact Rest].
      + exists n', t', k', rs', s'. split; [exact Hr'|]. split; [rewrite (Hother n' Hn); exact Hf'|].
        split; [exact Hs'|exact Rest].
    - intros r' (Hp' & Hl' & n' & t' & k' & rs' & Hr' & Hf' & Ho').
      split; [exact Hp'|]. split; [exact Hl'|].
      destruct (list_eq_dec Z.eq_dec n' name) as [->|Hn].
      + exists name, t', k', new. split; [exact Hr'|]. split; [exact Hnew|reflexivity].
      + exists n', t', k', rs'. split; [exact Hr'|]. split; [rewrite (Hother n' Hn); exact Hf'|exact Ho'].
  Qed.

  Theorem ps_obs_fold_present : forall O m C done,
    (forall r, In r O -> ps_acceptable m r) -> ps_from m done ->
    NoDup (map ps_ktok O) -> NoDup (map ps_kck O) ->
    (forall r r', In r done -> In r' O -> ps_ktok r <> ps_ktok r' /\ ps_kck r <> ps_kck r') ->
    let mf := fst (fst (ps_obs_fold ps_mem ps_obs_step_spec O m C)) in
    (forall r, In r O -> ps_present mf r) /\ (forall r, ps_present m r -> ps_present mf r).
  Proof.
    induction O as [|x O IH]; intros m C done Hacc Hfrom Hn1 Hn2 Hdone; cbn [ps_obs_fold fst snd].
    - split; [intros r []|tauto].
    - inversion Hn1 as [|? ? Hx1 Hn1']; subst. inversion Hn2 as [|? ? Hx2 Hn2']; subst.
      destruct (ps_obs_step_spec_new x m C done (Hacc x (or_introl eq_refl)) Hfrom)
        as (Hpx & Hfrom' & Hkeep & Hacc').
      { intros r' Hr'. apply (Hdone r' x Hr'). left; reflexivity. }
      destruct (IH (fst (fst (ps_obs_step_spec x m C))) (snd (ps_obs_step_spec x m C)) (x :: done))
        as [H1 H2].
      + intros r Hr. apply Hacc'. apply Hacc. right; exact Hr.
      + exact Hfrom'.
      + exact Hn1'.
      + exact Hn2'.
      + intros r r' [<-|Hr] Hr'.
        * split; intro E.
          -- apply Hx1. rewrite E. apply in_map. exact Hr'.
          -- apply Hx2. rewrite E. apply in_map. exact Hr'.
        * apply Hdone; [exact Hr|right; exact Hr'].
      + split.
        * intros r [<-|Hr]; [apply H2; exact Hpx|apply H1; exact Hr].
        * intros r Hr. apply H2. apply Hkeep. exact Hr.
  Qed.

  (* the same when some records name a resource that does not exist (they are skipped) *)
  Definition ps_absent (m : ps_mem) (r : ps_obs) : Prop :=
    exists name token ck, req (pso_pkt r) = Some (name, token, ck) /\ ps_find name m = None.

  Lemma ps_obs_step_spec_absent : forall r m C, ps_absent m r -> ps_obs_step_spec r m C = (m, None, C).
  Proof.
    intros r m C (name & token & ck & Hreq & Hf). unfold ps_obs_step_spec.
    destruct (negb (ps_beq (pso_proto r) (psc_proto c))); [reflexivity|].
    destruct (negb (ps_beq (pso_listen r) (psc_listen c))); [reflexivity|].
    rewrite Hreq, Hf. reflexivity.
  Qed.

  Theorem ps_obs_fold_present_g : forall O m C done,
    (forall r, In r O -> ps_acceptable m r \/ ps_absent m r) -> ps_from m done ->
    NoDup (map ps_ktok O) -> NoDup (map ps_kck O) ->
    (forall r r', In r done -> In r' O -> ps_ktok r <> ps_ktok r' /\ ps_kck r <> ps_kck r') ->
    let mf := fst (fst (ps_obs_fold ps_mem ps_obs_step_spec O m C)) in
    (forall r, In r O -> ps_acceptable m r -> ps_present mf r) /\
    (forall r, ps_present m r -> ps_present mf r).
  Proof.
    induction O as [|x O IH]; intros m C done Hacc Hfrom Hn1 Hn2 Hdone; cbn [ps_obs_fold fst snd].
    - split; [intros r []|tauto].
    - inversion Hn1 as [|? ? Hx1 Hn1']; subst. inversion Hn2 as [|? ? Hx2 Hn2']; subst.
      destruct (Hacc x (or_introl eq_refl)) as [Hax|Habs].
      + destruct (ps_obs_step_spec_new x m C done Hax Hfrom) as (Hpx & Hfrom' & Hkeep & Hacc').
        { intros r' Hr'. apply (Hdone r' x Hr'). left; reflexivity. }
        destruct (IH (fst (fst (ps_obs_step_spec x m C))) (snd (ps_obs_step_spec x m C)) (x :: done))
          as [H1 H2].
        * intros r Hr. destruct (Hacc r (or_intror Hr)) as [Ha|(name & token & ck & Hreq & Hf)].
          -- left. apply Hacc'. exact Ha.
          -- right. exists name, token, ck. split; [exact Hreq|].
             destruct (ps_find name (fst (fst (ps_obs_step_spec x m C)))) eqn:E; [|reflexivity].
             exfalso. assert (Hh : ps_has (fst (fst (ps_obs_step_spec x m C))) name)
               by (unfold ps_has; rewrite E; discriminate).
             apply ps_obs_step_spec_has in Hh. unfold ps_has in Hh. contradiction.
        * exact Hfrom'.
        * exact Hn1'.
        * exact Hn2'.
        * intros r r' [<-|Hr] Hr'.
          -- split; intro E.
             ++ apply Hx1. rewrite E. apply in_map. exact Hr'.
             ++ apply Hx2. rewrite E. apply in_map. exact Hr'.
          -- apply Hdone; [exact Hr|right; exact Hr'].
        * split.
          -- intros r [<-|Hr] Har; [apply H2; exact Hpx|apply H1; [exact Hr|apply Hacc'; exact Har]].
          -- intros r Hr. apply H2. apply Hkeep. exact Hr.
      + rewrite (ps_obs_step_spec_absent x m C Habs). cbn [fst snd].
        destruct (IH m C done) as [H1 H2]; try assumption.
        * intros r Hr. apply Hacc. right. exact Hr.
        * intros r r' Hr Hr'. apply Hdone; [exact Hr|right; exact Hr'].
        * split; [|exact H2]. intros r [<-|Hr] Har; [|apply H1; assumption].
          exfalso. destruct Har as (_ & _ & n1 & t1 & k1 & rs & Hq & Hf1 & _).
          destruct Habs as (n2 & t2 & k2 & Hq2 & Hf2). rewrite Hq in Hq2. inversion Hq2; subst.
          rewrite Hf1 in Hf2. discriminate.
  Qed.

  (* C17_restart_restores, observations: in a fresh process (no subscriptions yet) every stored
     observation whose resource exists is re-established with its session, token, cache key and
     request, provided the stored observations are pairwise different in (resource, session,
     token) and in (resource, session, cache key) - which coap_add_observer guarantees for the
     subscriptions it keeps *)
  Theorem ps_restored_observations : forall m0 D O C,
    let m2 := ps_set_counts (ps_rounded (psc_freq c) C) (ps_dyn_fold (ps_dyn_step app) D m0) in
    (forall n rs, ps_find n m2 = Some rs -> psr_subs rs = []) ->
    (forall r, In r O -> ps_acceptable m2 r) ->
    NoDup (map ps_ktok O) -> NoDup (map ps_kck O) ->
    forall r, In r O -> ps_present (ps_restored_mem m0 D O C) r.
  Proof.
    intros m0 D O C m2 Hempty Hacc Hn1 Hn2 r Hr. unfold ps_restored_mem. fold m2.
    destruct (ps_obs_fold_present O m2 C [] Hacc) as [H _]; try assumption.
    - intros n rs s Hf Hs. rewrite (Hempty n rs Hf) in Hs. contradiction.
    - intros r0 r' [].
    - apply H. exact Hr.
  Qed.
End Restore.

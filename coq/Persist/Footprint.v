(* C17 - footprint of a program: if every file name a program mentions is in N and every stream
   it uses is one it opened itself (or one of a given set H whose files are in N), then running
   it leaves every other stream and every file outside N exactly as they were.  Used for the
   counter updates that happen in the middle of the observe load (two other streams are open). *)
From LibcoapV Require Import Base.Tactics Base.Bytes Persist.Fs Persist.FsProofs Persist.Records
  Persist.Updaters.
Local Open Scope Z_scope.

Definition ps_op_handle (op : ps_op) : option Z :=
  match op with
  | PoRead h _ | PoGets h _ | PoWrite h _ | PoPrintf h _ | PoFlush h | PoClose h => Some h
  | _ => None
  end.

Inductive ps_own (N : ps_name -> Prop) {A : Type} : (Z -> Prop) -> ps_prog A -> Prop :=
| PsOwnRet : forall H a, ps_own N H (PsRet a)
| PsOwnOpen : forall (H : Z -> Prop) n m k,
    N n -> (forall r, ps_own N (fun g => H g \/ r = PrH g) (k r)) -> ps_own N H (PsDo (PoOpen n m) k)
| PsOwnUse : forall (H : Z -> Prop) op h k,
    ps_op_handle op = Some h -> H h -> (forall r, ps_own N H (k r)) -> ps_own N H (PsDo op k)
| PsOwnRename : forall H a b k,
    N a -> N b -> (forall r, ps_own N H (k r)) -> ps_own N H (PsDo (PoRename a b) k)
| PsOwnRemove : forall H n k,
    N n -> (forall r, ps_own N H (k r)) -> ps_own N H (PsDo (PoRemove n) k).

Lemma ps_own_weaken : forall N A (H H' : Z -> Prop) (p : ps_prog A),
  ps_own N H p -> (forall g, H g -> H' g) -> ps_own N H' p.
Proof.
  intros N A H H' p Hp. revert H'. induction Hp; intros H' Hsub.
  - constructor.
  - apply PsOwnOpen; [assumption|]. intro r. apply H2. intros g [G|G]; [left; auto|right; exact G].
  - eapply PsOwnUse; [eassumption|auto|]. intro r. apply H3. exact Hsub.
  - apply PsOwnRename; try assumption. intro r. apply H3. exact Hsub.
  - apply PsOwnRemove; try assumption. intro r. apply H2. exact Hsub.
Qed.

Lemma ps_own_bind : forall N A B (H : Z -> Prop) (p : ps_prog A) (f : A -> ps_prog B),
  ps_own N H p -> (forall a (H' : Z -> Prop), (forall g, H g -> H' g) -> ps_own N H' (f a)) ->
  ps_own N H (ps_bind p f).
Proof.
  intros N A B H p f Hp. induction Hp; intro Hf; cbn [ps_bind].
  - apply Hf. auto.
  - apply PsOwnOpen; [assumption|]. intro r. apply H2. intros a H' Hsub. apply Hf.
    intros g G. apply Hsub. left. exact G.
  - eapply PsOwnUse; [eassumption|assumption|]. intro r. apply H3. exact Hf.
  - apply PsOwnRename; try assumption. intro r. apply H3. exact Hf.
  - apply PsOwnRemove; try assumption. intro r. apply H2. exact Hf.
Qed.

(* one call on an owned stream: other streams and files outside N are untouched *)
Lemma ps_step_use : forall pol (N : ps_name -> Prop) op h s,
  ps_op_handle op = Some h ->
  (forall x, ps_hget h (ps_hs s) = Some x -> N (psh_name x)) ->
  let s' := snd (ps_step pol op s) in
  ps_next s' = ps_next s /\
  (forall g, g <> h -> ps_hget g (ps_hs s') = ps_hget g (ps_hs s)) /\
  (forall x', ps_hget h (ps_hs s') = Some x' ->
              exists x, ps_hget h (ps_hs s) = Some x /\ psh_name x' = psh_name x) /\
  (forall n, ~ N n -> ps_get n (ps_fs s') = ps_get n (ps_fs s)).
Proof.
  intros pol N op h s Hop Hn.
  assert (Same : forall t, t = s ->
            ps_next t = ps_next s /\
            (forall g, g <> h -> ps_hget g (ps_hs t) = ps_hget g (ps_hs s)) /\
            (forall x', ps_hget h (ps_hs t) = Some x' ->
                        exists x, ps_hget h (ps_hs s) = Some x /\ psh_name x' = psh_name x) /\
            (forall n, ~ N n -> ps_get n (ps_fs t) = ps_get n (ps_fs s))).
  { intros t ->. repeat split; try reflexivity. intros x' E. exists x'. split; [exact E|reflexivity]. }
  assert (Out : forall d fl cl t, ps_out pol s h d fl cl = Some t ->
            ps_next t = ps_next s /\
            (forall g, g <> h -> ps_hget g (ps_hs t) = ps_hget g (ps_hs s)) /\
            (forall x', ps_hget h (ps_hs t) = Some x' ->
                        exists x, ps_hget h (ps_hs s) = Some x /\ psh_name x' = psh_name x) /\
            (forall n, ~ N n -> ps_get n (ps_fs t) = ps_get n (ps_fs s))).
  { intros d fl cl t E. apply ps_out_spec in E.
    destruct E as (x & now & later & Hx & _ & _ & _ & _ & Hf & Hh & Hnx).
    split; [exact Hnx|]. split; [|split].
    - intros g Hg. rewrite Hh. apply ps_hget_hput_other. exact Hg.
    - intros x' E. rewrite Hh, ps_hget_hput_same in E. inversion E; subst. exists x.
      split; [exact Hx|reflexivity].
    - intros n Hnn. rewrite Hf. apply ps_get_append_other. intro E. subst n. apply Hnn.
      apply Hn. exact Hx. }
  assert (Put : forall x y, ps_hget h (ps_hs s) = Some x -> psh_name y = psh_name x ->
            let t := mkPsS (ps_fs s) (ps_hput h y (ps_hs s)) (ps_next s) in
            ps_next t = ps_next s /\
            (forall g, g <> h -> ps_hget g (ps_hs t) = ps_hget g (ps_hs s)) /\
            (forall x', ps_hget h (ps_hs t) = Some x' ->
                        exists x, ps_hget h (ps_hs s) = Some x /\ psh_name x' = psh_name x) /\
            (forall n, ~ N n -> ps_get n (ps_fs t) = ps_get n (ps_fs s))).
  { intros x y Hx Hy t. subst t. cbn [ps_next ps_hs ps_fs]. split; [reflexivity|]. split; [|split].
    - intros g Hg. apply ps_hget_hput_other. exact Hg.
    - intros x' E. rewrite ps_hget_hput_same in E. inversion E; subst. exists x. split; assumption.
    - reflexivity. }
  destruct op; cbn [ps_op_handle] in Hop; inversion Hop; subst; unfold ps_step.
  - (* read *)
    destruct (ps_hget h (ps_hs s)) as [x|] eqn:Hx; [|apply Same; reflexivity].
    destruct (psh_open x && negb (ps_writable (psh_mode x))); [|apply Same; reflexivity].
    destruct ((0 <? sz) && (psh_pos x + sz <=? len (psh_data x))); cbn [snd].
    + apply (Put x); reflexivity.
    + destruct (0 <? sz); cbn [snd]; [apply (Put x); reflexivity|apply Same; reflexivity].
  - (* gets *)
    destruct (ps_hget h (ps_hs s)) as [x|] eqn:Hx; [|apply Same; reflexivity].
    destruct (psh_open x && negb (ps_writable (psh_mode x))); [|apply Same; reflexivity].
    destruct (ps_line (Z.to_nat (cap - 1)) (drop (psh_pos x) (psh_data x))); cbn [snd];
      [apply Same; reflexivity|apply (Put x); reflexivity].
  - (* write *)
    destruct d as [|b d]; [apply Same; reflexivity|].
    destruct (ps_out pol s h (b :: d) false false) as [t|] eqn:E; cbn [snd];
      [eapply Out; exact E|apply Same; reflexivity].
  - destruct (ps_out pol s h d false false) as [t|] eqn:E; cbn [snd];
      [eapply Out; exact E|apply Same; reflexivity].
  - destruct (ps_out pol s h [] true false) as [t|] eqn:E; cbn [snd];
      [eapply Out; exact E|apply Same; reflexivity].
  - (* close *)
    destruct (ps_hget h (ps_hs s)) as [x|] eqn:Hx; [|apply Same; reflexivity].
    destruct (psh_open x); [|apply Same; reflexivity].
    destruct (ps_writable (psh_mode x)).
    + destruct (ps_out pol s h [] true true) as [t|] eqn:E; cbn [snd];
        [eapply Out; exact E|apply Same; reflexivity].
    + cbn [snd]. apply (Put x); reflexivity.
Qed.

(* stream ids in use are below the next id *)
Definition ps_wfh (s : ps_sys) : Prop := forall g x, ps_hget g (ps_hs s) = Some x -> g < ps_next s.

Lemma ps_wfh_boot : forall fs, ps_wfh (ps_boot fs).
Proof. intros fs g x H. discriminate. Qed.

Lemma ps_wfh_step : forall pol op s, ps_wfh s -> ps_wfh (snd (ps_step pol op s)).
Proof.
  intros pol op s Hs.
  assert (Put : forall h x y, ps_hget h (ps_hs s) = Some x ->
            ps_wfh (mkPsS (ps_fs s) (ps_hput h y (ps_hs s)) (ps_next s))).
  { intros h x y Hx g z Hg. cbn [ps_hs ps_next] in *. rewrite ps_hget_hput in Hg.
    destruct (Z.eqb_spec g h); [subst; eapply Hs; eassumption|eapply Hs; eassumption]. }
  assert (Out : forall h d fl cl t, ps_out pol s h d fl cl = Some t -> ps_wfh t).
  { intros h d fl cl t E. apply ps_out_spec in E.
    destruct E as (x & now & later & Hx & _ & _ & _ & _ & Hf & Hh & Hnx).
    intros g z Hg. rewrite Hh, ps_hget_hput in Hg. rewrite Hnx.
    destruct (Z.eqb_spec g h); [subst; eapply Hs; eassumption|eapply Hs; eassumption]. }
  assert (New : forall fs x, ps_wfh (mkPsS fs (ps_hput (ps_next s) x (ps_hs s)) (ps_next s + 1))).
  { intros fs x g z Hg. cbn [ps_hs ps_next] in *. rewrite ps_hget_hput in Hg.
    destruct (Z.eqb_spec g (ps_next s)); [lia|]. specialize (Hs g z Hg). lia. }
  destruct op; unfold ps_step.
  - destruct m; [destruct (ps_get n (ps_fs s)); [apply New|exact Hs]|apply New|apply New].
  - destruct (ps_hget h (ps_hs s)) as [x|] eqn:Hx; [|exact Hs].
    destruct (psh_open x && negb (ps_writable (psh_mode x))); [|exact Hs].
    destruct ((0 <? sz) && (psh_pos x + sz <=? len (psh_data x))); cbn [snd];
      [eapply Put; exact Hx|]. destruct (0 <? sz); cbn [snd]; [eapply Put; exact Hx|exact Hs].
  - destruct (ps_hget h (ps_hs s)) as [x|] eqn:Hx; [|exact Hs].
    destruct (psh_open x && negb (ps_writable (psh_mode x))); [|exact Hs].
    destruct (ps_line (Z.to_nat (cap - 1)) (drop (psh_pos x) (psh_data x))); cbn [snd];
      [exact Hs|eapply Put; exact Hx].
  - destruct d as [|b d]; [exact Hs|].
    destruct (ps_out pol s h (b :: d) false false) eqn:E; cbn [snd]; [eapply Out; exact E|exact Hs].
  - destruct (ps_out pol s h d false false) eqn:E; cbn [snd]; [eapply Out; exact E|exact Hs].
  - destruct (ps_out pol s h [] true false) eqn:E; cbn [snd]; [eapply Out; exact E|exact Hs].
  - destruct (ps_hget h (ps_hs s)) as [x|] eqn:Hx; [|exact Hs].
    destruct (psh_open x); [|exact Hs]. destruct (ps_writable (psh_mode x)).
    + destruct (ps_out pol s h [] true true) eqn:E; cbn [snd]; [eapply Out; exact E|exact Hs].
    + cbn [snd]. eapply Put; exact Hx.
  - destruct (ps_get a (ps_fs s)); cbn [snd]; [|exact Hs]. intros g z Hg. exact (Hs g z Hg).
  - destruct (ps_get n (ps_fs s)); cbn [snd]; [|exact Hs]. intros g z Hg. exact (Hs g z Hg).
Qed.

Lemma ps_wfh_run : forall pol A (p : ps_prog A) s, ps_wfh s -> ps_wfh (snd (ps_run pol p s)).
Proof.
  intros pol A p. induction p as [a|op k IH]; intros s Hs; [exact Hs|].
  cbn [ps_run]. pose proof (ps_wfh_step pol op s Hs) as H1.
  destruct (ps_step pol op s) as [r s1]. apply IH. exact H1.
Qed.

(* the invariant carried through a run *)
Definition ps_owned (N : ps_name -> Prop) (H : Z -> Prop) (s : ps_sys) : Prop :=
  forall h x, H h -> ps_hget h (ps_hs s) = Some x -> N (psh_name x).

Theorem ps_footprint : forall pol N A (H : Z -> Prop) (p : ps_prog A),
  ps_own N H p ->
  forall s lim,
    ps_wfh s -> ps_owned N H s -> lim <= ps_next s ->
    let s' := snd (ps_run pol p s) in
    ps_next s <= ps_next s' /\
    (forall g, g < lim -> ~ H g -> ps_hget g (ps_hs s') = ps_hget g (ps_hs s)) /\
    (forall n, ~ N n -> ps_get n (ps_fs s') = ps_get n (ps_fs s)).
Proof.
  intros pol N A H p Hp. induction Hp; intros s lim Hwf Ho Hb.
  - cbn [ps_run snd]. split; [lia|]. split; reflexivity.
  - (* open *)
    cbn [ps_run]. pose proof (ps_wfh_step pol (PoOpen n m) s Hwf) as Hwf1.
    destruct (ps_step pol (PoOpen n m) s) as [r s1] eqn:E. cbn [snd] in Hwf1.
    assert (S1 : ps_next s <= ps_next s1 /\
                 (forall g, g <> ps_next s -> ps_hget g (ps_hs s1) = ps_hget g (ps_hs s)) /\
                 (forall n', ~ N n' -> ps_get n' (ps_fs s1) = ps_get n' (ps_fs s)) /\
                 (forall x, ps_hget (ps_next s) (ps_hs s1) = Some x -> psh_name x = n) /\
                 (forall g, r = PrH g -> g = ps_next s)).
    { assert (New : forall fs x, psh_name x = n ->
                (forall n', ~ N n' -> ps_get n' fs = ps_get n' (ps_fs s)) ->
                let t := mkPsS fs (ps_hput (ps_next s) x (ps_hs s)) (ps_next s + 1) in
                ps_next s <= ps_next t /\
                (forall g, g <> ps_next s -> ps_hget g (ps_hs t) = ps_hget g (ps_hs s)) /\
                (forall n', ~ N n' -> ps_get n' (ps_fs t) = ps_get n' (ps_fs s)) /\
                (forall y, ps_hget (ps_next s) (ps_hs t) = Some y -> psh_name y = n)).
      { intros fs x Hx Hfs t. subst t. cbn [ps_next ps_hs ps_fs]. split; [lia|]. split; [|split].
        - intros g Hg. apply ps_hget_hput_other. exact Hg.
        - exact Hfs.
        - intros y Hy. rewrite ps_hget_hput_same in Hy. injection Hy as <-. exact Hx. }
      unfold ps_step in E. destruct m.
      - destruct (ps_get n (ps_fs s)) as [cont|] eqn:G; inversion E; subst; clear E.
        + destruct (New (ps_fs s) (mkPsH n PsR cont 0 [] true) eq_refl (fun _ _ => eq_refl))
            as (X1 & X2 & X3 & X4).
          repeat split; try assumption. intros g Eg. inversion Eg. reflexivity.
        + split; [lia|]. split; [reflexivity|]. split; [reflexivity|]. split.
          * intros x Hx. specialize (Hwf _ _ Hx). lia.
          * intros g Eg. discriminate.
      - inversion E; subst; clear E.
        destruct (New (ps_put n [] (ps_fs s)) (mkPsH n PsWp [] 0 [] true) eq_refl) as (X1 & X2 & X3 & X4).
        { intros n' Hn'. apply ps_get_put_other. intro X. subst n'. contradiction. }
        repeat split; try assumption. intros g Eg. inversion Eg. reflexivity.
      - inversion E; subst; clear E.
        destruct (New (match ps_get n (ps_fs s) with Some _ => ps_fs s | None => ps_put n [] (ps_fs s) end)
                      (mkPsH n PsA [] 0 [] true) eq_refl) as (X1 & X2 & X3 & X4).
        { intros n' Hn'. destruct (ps_get n (ps_fs s)); [reflexivity|].
          apply ps_get_put_other. intro X. subst n'. contradiction. }
        repeat split; try assumption. intros g Eg. inversion Eg. reflexivity. }
    destruct S1 as (Hn1 & Hg1 & Hf1 & Hnew & Hr1).
    assert (Ho1 : ps_owned N (fun g => H g \/ r = PrH g) s1).
    { intros h x G Hx. destruct (Z.eq_dec h (ps_next s)) as [->|Ne].
      - rewrite (Hnew x Hx). exact H0.
      - rewrite Hg1 in Hx by exact Ne. destruct G as [G|G].
        + eapply Ho; eassumption.
        + specialize (Hr1 h G). contradiction. }
    specialize (H2 r s1 lim Hwf1 Ho1 ltac:(lia)). cbn zeta in H2. destruct H2 as (A1 & A2 & A3).
    split; [lia|]. split.
    + intros g Hg HnH. rewrite A2; [apply Hg1; lia|exact Hg|].
      intros [G|G]; [contradiction|]. specialize (Hr1 g G). lia.
    + intros n' Hn'. rewrite A3 by exact Hn'. apply Hf1. exact Hn'.
  - (* use of an owned stream *)
    cbn [ps_run]. destruct (ps_step pol op s) as [r s1] eqn:E.
    pose proof (ps_step_use pol N op h s H0 (fun x Hx => Ho h x H1 Hx)) as S1.
    rewrite E in S1. cbn [snd] in S1. destruct S1 as (Hn1 & Hg1 & Hh1 & Hf1).
    assert (Ho1 : ps_owned N H s1).
    { intros g x G Hx. destruct (Z.eq_dec g h) as [->|Ne].
      - destruct (Hh1 x Hx) as (x0 & Hx0 & Hnm). rewrite Hnm. eapply Ho; eassumption.
      - rewrite Hg1 in Hx by exact Ne. eapply Ho; eassumption. }
    assert (Hwf1 : ps_wfh s1).
    { pose proof (ps_wfh_step pol op s Hwf) as X. rewrite E in X. exact X. }
    specialize (H3 r s1 lim Hwf1 Ho1 ltac:(lia)). cbn zeta in H3. destruct H3 as (A1 & A2 & A3).
    split; [lia|]. split.
    + intros g Hg HnH. rewrite A2 by assumption. apply Hg1. intro X. subst g. contradiction.
    + intros n' Hn'. rewrite A3 by exact Hn'. apply Hf1. exact Hn'.
  - (* rename *)
    cbn [ps_run]. destruct (ps_step pol (PoRename a b) s) as [r s1] eqn:E.
    assert (S1 : ps_next s1 = ps_next s /\ ps_hs s1 = ps_hs s /\
                 forall n', ~ N n' -> ps_get n' (ps_fs s1) = ps_get n' (ps_fs s)).
    { unfold ps_step in E. destruct (ps_get a (ps_fs s)); inversion E; subst; clear E.
      - cbn [ps_next ps_hs ps_fs]. split; [reflexivity|]. split; [reflexivity|].
        intros n' Hn'. rewrite ps_get_put_other by (intro X; subst n'; contradiction).
        apply ps_get_del_other. intro X. subst n'. contradiction.
      - repeat split; reflexivity. }
    destruct S1 as (Hn1 & Hh1 & Hf1).
    assert (Ho1 : ps_owned N H s1) by (intros g x G Hx; rewrite Hh1 in Hx; eapply Ho; eassumption).
    assert (Hwf1 : ps_wfh s1).
    { pose proof (ps_wfh_step pol (PoRename a b) s Hwf) as X. rewrite E in X. exact X. }
    specialize (H3 r s1 lim Hwf1 Ho1 ltac:(lia)). cbn zeta in H3. destruct H3 as (A1 & A2 & A3).
    split; [lia|]. split.
    + intros g Hg HnH. rewrite A2 by assumption. rewrite Hh1. reflexivity.
    + intros n' Hn'. rewrite A3 by exact Hn'. apply Hf1. exact Hn'.
  - (* remove *)
    cbn [ps_run]. destruct (ps_step pol (PoRemove n) s) as [r s1] eqn:E.
    assert (S1 : ps_next s1 = ps_next s /\ ps_hs s1 = ps_hs s /\
                 forall n', ~ N n' -> ps_get n' (ps_fs s1) = ps_get n' (ps_fs s)).
    { unfold ps_step in E. destruct (ps_get n (ps_fs s)); inversion E; subst; clear E.
      - cbn [ps_next ps_hs ps_fs]. split; [reflexivity|]. split; [reflexivity|].
        intros n' Hn'. apply ps_get_del_other. intro X. subst n'. contradiction.
      - repeat split; reflexivity. }
    destruct S1 as (Hn1 & Hh1 & Hf1).
    assert (Ho1 : ps_owned N H s1) by (intros g x G Hx; rewrite Hh1 in Hx; eapply Ho; eassumption).
    assert (Hwf1 : ps_wfh s1).
    { pose proof (ps_wfh_step pol (PoRemove n) s Hwf) as X. rewrite E in X. exact X. }
    specialize (H2 r s1 lim Hwf1 Ho1 ltac:(lia)). cbn zeta in H2. destruct H2 as (A1 & A2 & A3).
    split; [lia|]. split.
    + intros g Hg HnH. rewrite A2 by assumption. rewrite Hh1. reflexivity.
    + intros n' Hn'. rewrite A3 by exact Hn'. apply Hf1. exact Hn'.
Qed.

(* C17 - every updater and loader of Updaters.v follows the write-temporary-then-rename
   discipline of FsProofs.v (a purely syntactic fact about the programs: whatever the calls
   return, the only call that can touch a persistent file is rename("<f>.tmp", "<f>"), and an
   updater makes at most one).  With FsProofs.ps_atomic1 / ps_crash_view this gives atomicity
   at every kill point. *)
From LibcoapV Require Import Base.Tactics Base.Bytes Persist.Fs Persist.Records Persist.Updaters
  Persist.FsProofs.
Local Open Scope Z_scope.

Ltac ps_d0_step :=
  cbv beta iota delta [negb ps_rd ps_wr ps_open ps_then ps_close_opt];
  lazymatch goal with
  | |- ps_disc0 (PsRet _) => apply PsDisc0Ret
  | |- ps_disc0 (PsDo _ _) => apply PsDisc0Do; [reflexivity | intro]
  | |- ps_disc0 (match ?x with _ => _ end) => destruct x
  | |- ps_disc0 (if ?x then _ else _) => destruct x
  | |- ps_disc0 ((if ?x then _ else _) _) => destruct x
  | |- ps_disc0 ((match ?x with _ => _ end) _) => destruct x
  end.
Ltac ps_d0 := repeat ps_d0_step.

Lemma ps_obs_read_d0 : forall la lt h, ps_disc0 (ps_obs_read la lt h).
Proof. intros. unfold ps_obs_read. ps_d0. Qed.

Lemma ps_obs_write_d0 : forall h r, ps_disc0 (ps_obs_write h r).
Proof. intros. unfold ps_obs_write. ps_d0. Qed.

Lemma ps_dyn_read_d0 : forall h, ps_disc0 (ps_dyn_read h).
Proof. intros. unfold ps_dyn_read. ps_d0. Qed.

Lemma ps_dyn_write_d0 : forall h r, ps_disc0 (ps_dyn_write h r).
Proof. intros. unfold ps_dyn_write. ps_d0. Qed.

Lemma ps_obs_copy_d0 : forall la lt fuel ho hn skip, ps_disc0 (ps_obs_copy la lt fuel ho hn skip).
Proof.
  induction fuel as [|f IH]; intros; cbn [ps_obs_copy]; [constructor|].
  apply ps_disc0_bind; [apply ps_obs_read_d0|].
  intros [r|]; [|constructor].
  destruct (ps_beq (pso_key r) skip); [apply IH|].
  apply ps_disc0_bind; [apply ps_obs_write_d0|].
  intros [|]; [apply IH|constructor].
Qed.

Lemma ps_dyn_copy_d0 : forall fuel ho hn name, ps_disc0 (ps_dyn_copy fuel ho hn name).
Proof.
  induction fuel as [|f IH]; intros; cbn [ps_dyn_copy]; [constructor|].
  apply ps_disc0_bind; [apply ps_dyn_read_d0|].
  intros [r|]; [|constructor].
  destruct (ps_beq name (psd_name r)); [apply IH|].
  apply ps_disc0_bind; [apply ps_dyn_write_d0|].
  intros [|]; [apply IH|constructor].
Qed.

Lemma ps_cnt_copy_d0 : forall fuel ho hn name, ps_disc0 (ps_cnt_copy fuel ho hn name).
Proof.
  induction fuel as [|f IH]; intros; cbn [ps_cnt_copy]; [constructor|].
  apply PsDisc0Do; [reflexivity|]. intros [h| |ok d|n]; try constructor.
  destruct ok; [|constructor].
  destruct (ps_cnt_parse d) as [[k v]|]; [|constructor].
  destruct (ps_beq name k); [apply IH|].
  apply PsDisc0Do; [reflexivity|]. intros [h'| |ok' d'|n]; try constructor.
  destruct (n <? 0); [constructor|apply IH].
Qed.

Lemma ps_fail_exit_d0 : forall hn ho i, ps_disc0 (ps_fail_exit hn ho (PsTmp i)).
Proof. intros [hn|] [ho|] i; unfold ps_fail_exit; ps_d0. Qed.

Lemma ps_commit_d1 : forall hn ho f, ps_disc1 (ps_commit hn ho f).
Proof.
  intros hn ho f. unfold ps_commit.
  apply PsDisc1Quiet; [reflexivity|]. intro r.
  assert (C : ps_disc1 (ps_then (PoClose hn) (ps_close_opt ho
                (ps_then (PoRename (PsTmp f) (PsBase f)) (PsRet 1))))).
  { unfold ps_then. apply PsDisc1Quiet; [reflexivity|]. intros _.
    destruct ho as [ho|]; unfold ps_close_opt, ps_then.
    - apply PsDisc1Quiet; [reflexivity|]. intros _.
      apply PsDisc1Commit; [cbn; apply Z.eqb_refl|]. intros _. constructor.
    - apply PsDisc1Commit; [cbn; apply Z.eqb_refl|]. intros _. constructor. }
  assert (F : ps_disc1 (ps_fail_exit (Some hn) ho (PsTmp f))).
  { apply ps_disc0_disc1. apply ps_fail_exit_d0. }
  destruct r as [h| |ok d|n]; try exact F.
  destruct n; try exact F. exact C.
Qed.

Ltac ps_open_d1 :=
  unfold ps_open; apply PsDisc1Quiet; [reflexivity|];
  let r := fresh "r" in intro r; destruct r; cbv beta iota.
Ltac ps_fail_d1 := apply ps_disc0_disc1; apply ps_fail_exit_d0.

(* the common shape: at most one commit, whatever the calls return *)
Lemma ps_txn_body_d1 : forall f loop tail horig,
  (forall ho hn, ps_disc0 (loop ho hn)) -> (forall hn, ps_disc0 (tail hn)) ->
  ps_disc1 (ps_txn_body f loop tail horig).
Proof.
  intros f loop tail horig Hl Ht. unfold ps_txn_body. ps_open_d1; try ps_fail_d1.
  apply ps_disc1_bind0; [destruct horig; [apply Hl|constructor]|].
  intros [[|]|]; [|ps_fail_d1|constructor].
  apply ps_disc1_bind0; [apply Ht|].
  intros [|]; [apply ps_commit_d1|ps_fail_d1].
Qed.

Theorem ps_txn_d1 : forall f must ret loop tail,
  (forall ho hn, ps_disc0 (loop ho hn)) -> (forall hn, ps_disc0 (tail hn)) ->
  ps_disc1 (ps_txn f must ret loop tail).
Proof.
  intros f must ret loop tail Hl Ht. unfold ps_txn.
  ps_open_d1; destruct must; try apply PsDisc1Ret; apply ps_txn_body_d1; assumption.
Qed.

Lemma ps_no_tail_d0 : forall hn, ps_disc0 (ps_no_tail hn).
Proof. intro. constructor. Qed.

Lemma ps_cnt_put_d0 : forall name v hn, ps_disc0 (ps_cnt_put name v hn).
Proof.
  intros. unfold ps_cnt_put. apply PsDisc0Do; [reflexivity|].
  intros [h| |ok d|n]; constructor.
Qed.

Theorem ps_obs_added_d1 : forall la lt fuel a, ps_disc1 (ps_obs_added la lt fuel a).
Proof. intros. apply ps_txn_d1; intros; [apply ps_obs_copy_d0|apply ps_obs_write_d0]. Qed.

Theorem ps_obs_deleted_d1 : forall la lt fuel key, ps_disc1 (ps_obs_deleted la lt fuel key).
Proof. intros. apply ps_txn_d1; intros; [apply ps_obs_copy_d0|apply ps_no_tail_d0]. Qed.

Theorem ps_cnt_track_d1 : forall fuel name v, ps_disc1 (ps_cnt_track fuel name v).
Proof. intros. apply ps_txn_d1; intros; [apply ps_cnt_copy_d0|apply ps_cnt_put_d0]. Qed.

Theorem ps_cnt_deleted_d1 : forall fuel name, ps_disc1 (ps_cnt_deleted fuel name).
Proof. intros. apply ps_txn_d1; intros; [apply ps_cnt_copy_d0|apply ps_no_tail_d0]. Qed.

Theorem ps_dyn_added_d1 : forall fuel a, ps_disc1 (ps_dyn_added fuel a).
Proof. intros. apply ps_txn_d1; intros; [apply ps_dyn_copy_d0|apply ps_dyn_write_d0]. Qed.

Theorem ps_dyn_deleted_d1 : forall fuel name, ps_disc1 (ps_dyn_deleted fuel name).
Proof. intros. apply ps_txn_d1; intros; [apply ps_dyn_copy_d0|apply ps_no_tail_d0]. Qed.

(* coap_op_resource_deleted: two updates in sequence *)
Theorem ps_res_deleted_d : forall fuel hd hc name, ps_disc (ps_res_deleted fuel hd hc name).
Proof.
  intros. unfold ps_res_deleted. apply ps_disc_bind.
  - destruct hd; [apply ps_disc1_disc; apply ps_dyn_deleted_d1|constructor].
  - intro d. destruct (d =? PS_FUEL); [constructor|]. destruct hc; [|constructor].
    apply ps_disc_bind; [apply ps_disc1_disc; apply ps_cnt_deleted_d1|].
    intro c0. destruct (c0 =? PS_FUEL); constructor.
Qed.

(* the loaders *)
Lemma ps_cnt_load_d0 : forall fuel freq, ps_disc0 (ps_cnt_load fuel freq).
Proof.
  intros. unfold ps_cnt_load. unfold ps_open. apply PsDisc0Do; [reflexivity|].
  intros [h| | |]; try constructor.
  apply ps_disc0_bind.
  - generalize (@nil (bytes * Z)). induction fuel as [|f IH]; intro acc; cbn [ps_cnt_load_loop];
      [constructor|].
    apply PsDisc0Do; [reflexivity|]. intros [h'| |ok d|n]; try constructor.
    destruct ok; [|constructor]. destruct (ps_cnt_parse d) as [[k v]|]; [apply IH|constructor].
  - intro r. unfold ps_then. apply PsDisc0Do; [reflexivity|]. intro. constructor.
Qed.

Lemma ps_dyn_load_d0 : forall (S : Type) fuel (step : ps_dyn -> S -> option S) st,
  ps_disc0 (ps_dyn_load fuel step st).
Proof.
  intros. unfold ps_dyn_load. unfold ps_open. apply PsDisc0Do; [reflexivity|].
  intros [h| | |]; try constructor.
  apply ps_disc0_bind.
  - revert st. induction fuel as [|f IH]; intro st; cbn [ps_dyn_load_loop]; [constructor|].
    apply ps_disc0_bind; [apply ps_dyn_read_d0|].
    intros [r|]; [|constructor]. destruct (step r st); [apply IH|constructor].
  - intro r. unfold ps_then. apply PsDisc0Do; [reflexivity|]. intro. constructor.
Qed.

Lemma ps_obs_load_d : forall (S : Type) la lt fuel
    (step : ps_obs -> S -> ps_prog (S * option bytes)) st,
  (forall r s, ps_disc (step r s)) -> ps_disc (ps_obs_load la lt fuel step st).
Proof.
  intros S la lt fuel step st Hstep. unfold ps_obs_load. unfold ps_open.
  apply PsDiscDo; [left; reflexivity|]. intros [ho| | |]; try apply PsDiscRet.
  apply PsDiscDo; [left; reflexivity|]. intros r.
  assert (F : forall (hn : option Z) (x : option S),
             ps_disc (ps_bind (ps_fail_exit hn (Some ho) (PsTmp PS_OBS)) (fun _ => PsRet x))).
  { intros. apply ps_disc_bind; [|constructor].
    apply ps_disc1_disc. apply ps_disc0_disc1. apply ps_fail_exit_d0. }
  destruct r as [hn| | |]; try apply F.
  apply ps_disc_bind.
  - revert st. induction fuel as [|f IH]; intro st; cbn [ps_obs_load_loop]; [constructor|].
    apply ps_disc_bind; [apply ps_disc1_disc; apply ps_disc0_disc1; apply ps_obs_read_d0|].
    intros [r|]; [|constructor].
    apply ps_disc_bind; [apply Hstep|]. intros [st' [key|]]; cbn [fst snd]; [|apply IH].
    apply ps_disc_bind; [apply ps_disc1_disc; apply ps_disc0_disc1; apply ps_obs_write_d0|].
    intros [|]; [apply IH|constructor].
  - intros [[st' [|]]|]; [| |constructor].
    + apply ps_disc_bind; [apply ps_disc1_disc; apply ps_commit_d1|]. constructor.
    + apply F.
Qed.

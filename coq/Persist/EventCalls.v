(* C17 - every server event is a fixed sequence of updater calls (a function of the event and
   the memory state), hence History.ps_calls_crash applies to whole event histories: at any kill
   point the files hold the abstract state after the completed events plus the first j updater
   calls of the interrupted event. *)
From LibcoapV Require Import Base.Tactics Base.Bytes Base.BytesProofs Persist.Fs Persist.FsProofs
  Persist.Records Persist.RecordsProofs Persist.Updaters Persist.Streams Persist.UpdatersProofs
  Persist.Discipline Persist.History Persist.Server Persist.ServerProofs.
Local Open Scope Z_scope.

Section Eqv.
  Variable pol : Z -> Z -> Z.

  (* same behaviour as far as run / runk can tell *)
  Definition ps_eqv {A} (p q : ps_prog A) : Prop :=
    forall s, ps_run pol p s = ps_run pol q s /\ forall k, ps_runk pol p k s = ps_runk pol q k s.

  Lemma ps_eqv_refl : forall A (p : ps_prog A), ps_eqv p p.
  Proof. intros A p s. split; reflexivity. Qed.

  Lemma ps_eqv_trans : forall A (p q r : ps_prog A), ps_eqv p q -> ps_eqv q r -> ps_eqv p r.
  Proof.
    intros A p q r H1 H2 s. destruct (H1 s) as [A1 B1]. destruct (H2 s) as [A2 B2].
    split; [congruence|]. intro k. rewrite B1. apply B2.
  Qed.

  Lemma ps_eqv_sym : forall A (p q : ps_prog A), ps_eqv p q -> ps_eqv q p.
  Proof. intros A p q H s. destruct (H s) as [A1 B1]. split; [congruence|]. intro k. symmetry. apply B1. Qed.

  Lemma ps_eqv_bind_ext : forall A B (p : ps_prog A) (f g : A -> ps_prog B),
    (forall a, ps_eqv (f a) (g a)) -> ps_eqv (ps_bind p f) (ps_bind p g).
  Proof.
    intros A B p f g H. induction p as [a|op k IH]; intro s; cbn [ps_bind].
    - apply H.
    - split.
      + cbn [ps_run]. destruct (ps_step pol op s) as [r s1]. apply IH.
      + intros [|n]; [reflexivity|]. cbn [ps_runk]. destruct (ps_step pol op s) as [r s1]. apply IH.
  Qed.

  Lemma ps_eqv_assoc : forall A B C (p : ps_prog A) (f : A -> ps_prog B) (g : B -> ps_prog C),
    ps_eqv (ps_bind (ps_bind p f) g) (ps_bind p (fun a => ps_bind (f a) g)).
  Proof.
    intros A B C p f g. induction p as [a|op k IH]; intro s; cbn [ps_bind].
    - split; reflexivity.
    - split.
      + cbn [ps_run]. destruct (ps_step pol op s) as [r s1]. apply IH.
      + intros [|n]; [reflexivity|]. cbn [ps_runk]. destruct (ps_step pol op s) as [r s1]. apply IH.
  Qed.
End Eqv.

Section Seq.
  Variable pol : Z -> Z -> Z.
  Variables la lt : Z.
  Hypothesis la_pos : 0 < la.
  Hypothesis lt_pos : 0 < lt.
  Variable fuel : nat.

  (* programs that run a list of updater calls (aborting only on out-of-fuel) and then return x *)
  Inductive ps_seqof {R : Type} : list ps_call -> R -> ps_prog (option R) -> Prop :=
  | PsSeqRet : forall x, ps_seqof [] x (PsRet (Some x))
  | PsSeqGuard : forall cl calls x k,
      ps_seqof calls x k -> ps_seqof (cl :: calls) x (ps_guard (ps_call_prog la lt fuel cl) k)
  | PsSeqEqv : forall calls x p q, ps_seqof calls x p -> ps_eqv pol p q -> ps_seqof calls x q.

  Theorem ps_seqof_run : forall R calls (x : R) p, ps_seqof calls x p ->
    forall A s,
      ps_abs_wf la lt A -> Forall (ps_call_wf la lt) calls ->
      (ps_abs_size A + length calls < fuel)%nat -> ps_tmpw s -> ps_holdsA s A ->
      fst (ps_run pol p s) = Some x /\
      ps_holdsA (snd (ps_run pol p s)) (ps_abs_calls calls A) /\
      ps_tmpw (snd (ps_run pol p s)) /\
      forall k, exists j, (j <= length calls)%nat /\
        ps_holdsA (ps_runk pol p k s) (ps_abs_calls (firstn j calls) A).
  Proof.
    intros R calls x p Hp. induction Hp; intros A s HA Hw Hsz Hs Hh.
    - cbn [ps_run fst snd ps_abs_calls]. split; [reflexivity|]. split; [exact Hh|]. split; [exact Hs|].
      intro k. exists O. split; [lia|]. destruct k; exact Hh.
    - inversion Hw as [|? ? Hw1 Hw2]; subst. cbn [length] in Hsz.
      destruct (ps_abs_call_wf pol la lt cl A HA Hw1) as [HA1 Hsz1].
      destruct (ps_call_run pol la lt la_pos lt_pos fuel cl A s HA Hw1 ltac:(lia) Hh) as [Hh1 Hres].
      assert (Hs1 : ps_tmpw (snd (ps_run pol (ps_call_prog la lt fuel cl) s))).
      { apply ps_disc_run_tmpw; [apply ps_disc1_disc; apply ps_call_prog_d1|exact Hs]. }
      destruct (IHHp (ps_abs_call cl A) (snd (ps_run pol (ps_call_prog la lt fuel cl) s))
                     HA1 Hw2 ltac:(lia) Hs1 Hh1) as (I1 & I2 & I3 & I4).
      unfold ps_guard. rewrite ps_run_bind.
      destruct (ps_run pol (ps_call_prog la lt fuel cl) s) as [r s1] eqn:Er. cbn [fst snd] in *.
      destruct (Z.eqb_spec r PS_FUEL) as [E|E]; [contradiction|].
      split; [exact I1|]. split; [exact I2|]. split; [exact I3|].
      intro n. rewrite ps_runk_bind, Er. cbn [fst snd].
      destruct (Z.eqb_spec r PS_FUEL) as [E'|_]; [contradiction|].
      destruct (n <=? ps_nops pol (ps_call_prog la lt fuel cl) s)%nat.
      + destruct (ps_atomic1 pol Z (ps_call_prog la lt fuel cl) (ps_call_prog_d1 la lt fuel cl) s Hs n)
          as [Hv|Hv].
        * exists O. split; [lia|]. cbn [firstn ps_abs_calls]. eapply ps_holdsA_view; [exact Hv|exact Hh].
        * exists 1%nat. split; [cbn [length]; lia|]. cbn [firstn ps_abs_calls].
          eapply ps_holdsA_view; [|exact Hh1]. intro i. rewrite Hv, Er. reflexivity.
      + destruct (I4 (n - ps_nops pol (ps_call_prog la lt fuel cl) s)%nat) as (j & Hj & Hjh).
        exists (S j). split; [cbn [length]; lia|]. cbn [firstn ps_abs_calls]. exact Hjh.
    - destruct (IHHp A s HA Hw Hsz Hs Hh) as (I1 & I2 & I3 & I4).
      destruct (H s) as [E1 E2]. rewrite <- E1.
      split; [exact I1|]. split; [exact I2|]. split; [exact I3|].
      intro n. rewrite <- E2. apply I4.
  Qed.

  Lemma ps_seqof_app : forall R calls1 calls2 (x : R) k,
    ps_seqof calls2 x k ->
    forall (wrap : ps_prog (option R) -> ps_prog (option R)),
      (forall calls y q, ps_seqof calls y q -> ps_seqof (calls1 ++ calls) y (wrap q)) ->
      ps_seqof (calls1 ++ calls2) x (wrap k).
  Proof. intros. apply H0. exact H. Qed.

  (* coap_op_resource_deleted = dynamic-resource entry, then counter entry *)
  Lemma ps_seqof_res_deleted : forall R n calls (x : R) k,
    ps_seqof calls x k ->
    ps_seqof (CDynDeleted n :: CCntDeleted n :: calls) x
             (ps_guard (ps_res_deleted fuel true true n) k).
  Proof.
    intros R n calls x k Hk.
    eapply PsSeqEqv.
    - apply (PsSeqGuard (CDynDeleted n)). apply (PsSeqGuard (CCntDeleted n)). exact Hk.
    - apply ps_eqv_sym. unfold ps_guard, ps_res_deleted. cbn [ps_call_prog].
      eapply ps_eqv_trans; [apply ps_eqv_assoc|].
      apply ps_eqv_bind_ext. intro a.
      destruct (a =? PS_FUEL) eqn:E.
      + cbn [ps_bind]. change (PS_FUEL =? PS_FUEL) with true. cbn iota. apply ps_eqv_refl.
      + eapply ps_eqv_trans; [apply ps_eqv_assoc|].
        apply ps_eqv_bind_ext. intro b.
        destruct (b =? PS_FUEL) eqn:Eb.
        * cbn [ps_bind]. change (PS_FUEL =? PS_FUEL) with true. cbn iota. apply ps_eqv_refl.
        * cbn [ps_bind]. change (1 =? PS_FUEL) with false. cbn iota. apply ps_eqv_refl.
  Qed.
End Seq.

(* ------------------------------------------------------------------ the events *)
Section Events.
  Variable pol : Z -> Z -> Z.
  Variable alloc : list bytes -> bytes.
  Variable c : ps_cfg.
  Hypothesis cfg_dyn : psc_dyn c = true.
  Hypothesis cfg_obs : psc_obs c = true.
  Hypothesis cfg_cnt : psc_cnt c = true.

  Definition ps_del_bump (r : ps_rsrc) : bool :=
    psr_observable r && negb (match psr_subs r with [] => true | _ => false end).
  Definition ps_del_value (r : ps_rsrc) : Z :=
    if ps_del_bump r then ps_next_observe (psr_observe r) else psr_observe r.

  Definition ps_reg_subs1 (tuple ck : bytes) (r : ps_rsrc) : list ps_sub :=
    match ps_find_ck tuple ck (psr_subs r) with
    | Some o => ps_drop_key (pss_key o) (psr_subs r)
    | None => psr_subs r
    end.
  Definition ps_reg_new (name tuple token ck pkt : bytes) (r : ps_rsrc) (m : ps_mem) : ps_sub :=
    mkSub (alloc (ps_live (ps_replace (mkRsrc name true (psr_observe r) (ps_reg_subs1 tuple ck r)) m)))
          tuple token ck pkt.
  Definition ps_cancel_hit (tuple token ck : bytes) (r : ps_rsrc) : option ps_sub :=
    match ps_find_tok tuple token (psr_subs r) with
    | Some s => Some s
    | None => ps_find_ck tuple ck (psr_subs r)
    end.

  (* the updater calls an event issues *)
  Definition ps_ev_calls (e : ps_event) (m : ps_mem) : list ps_call :=
    match e with
    | PsEvPut name observable pkt =>
        match ps_find name m with
        | Some _ => []
        | None => if observable then [CDynAdded (mkDyn (psc_proto c) name pkt)] else []
        end
    | PsEvDel name =>
        match ps_find name m with
        | None => []
        | Some r =>
            (if ps_del_bump r && (ps_del_value r mod psc_freq c =? 0)
             then [CCntTrack name (ps_del_value r)] else []) ++
            map (fun s => CObsDeleted (pss_key s)) (psr_subs r) ++
            [CDynDeleted name; CCntDeleted name]
        end
    | PsEvReg name tuple token ck pkt =>
        match ps_find name m with
        | None => []
        | Some r =>
            if negb (psr_observable r) then [] else
            match ps_find_tok tuple token (psr_subs r) with
            | Some _ => []
            | None =>
                (match ps_find_ck tuple ck (psr_subs r) with
                 | Some o => [CObsDeleted (pss_key o)]
                 | None => []
                 end) ++
                [CObsAdded (ps_obs_of c (ps_reg_new name tuple token ck pkt r m));
                 CCntTrack name (psr_observe r)]
            end
        end
    | PsEvCancel name tuple token ck =>
        match ps_find name m with
        | None => []
        | Some r =>
            if negb (psr_observable r) then [] else
            match ps_cancel_hit tuple token ck r with
            | Some s => [CObsDeleted (pss_key s)]
            | None => []
            end
        end
    | PsEvNotify name =>
        match ps_find name m with
        | None => []
        | Some r =>
            match psr_observable r, psr_subs r with
            | true, _ :: _ =>
                if ps_next_observe (psr_observe r) mod psc_freq c =? 0
                then [CCntTrack name (ps_next_observe (psr_observe r))] else []
            | _, _ => []
            end
        end
    | PsEvRaw _ => []
    end.

  (* the memory state and the messages after the event *)
  Definition ps_ev_out (e : ps_event) (m : ps_mem) : ps_mem * list ps_send :=
    match e with
    | PsEvPut name observable pkt =>
        match ps_find name m with
        | Some _ => (m, [])
        | None => (m ++ [mkRsrc name observable PS_OBSERVE0 []], [])
        end
    | PsEvDel name =>
        match ps_find name m with
        | None => (m, [])
        | Some r => (ps_remove name m, [])
        end
    | PsEvReg name tuple token ck pkt =>
        match ps_find name m with
        | None => (m, [])
        | Some r =>
            if negb (psr_observable r) then (m, []) else
            match ps_find_tok tuple token (psr_subs r) with
            | Some _ => (m, [(name, tuple, token, psr_observe r)])
            | None =>
                (ps_replace (mkRsrc name true (psr_observe r)
                               (ps_reg_new name tuple token ck pkt r m :: ps_reg_subs1 tuple ck r)) m,
                 [(name, tuple, token, psr_observe r)])
            end
        end
    | PsEvCancel name tuple token ck =>
        match ps_find name m with
        | None => (m, [])
        | Some r =>
            if negb (psr_observable r) then (m, []) else
            match ps_cancel_hit tuple token ck r with
            | Some s => (ps_replace (mkRsrc name true (psr_observe r)
                                            (ps_drop_key (pss_key s) (psr_subs r))) m, [])
            | None => (m, [])
            end
        end
    | PsEvNotify name =>
        match ps_find name m with
        | None => (m, [])
        | Some r =>
            match psr_observable r, psr_subs r with
            | true, _ :: _ =>
                (ps_replace (mkRsrc name true (ps_next_observe (psr_observe r)) (psr_subs r)) m,
                 map (fun s => (name, pss_tuple s, pss_token s, ps_next_observe (psr_observe r)))
                     (psr_subs r))
            | _, _ => (m, [])
            end
        end
    | PsEvRaw _ => (m, [])
    end.

  Definition ps_ev_server (e : ps_event) : Prop :=
    match e with PsEvRaw _ => False | _ => True end.

  Notation seqof := (ps_seqof pol (psc_la c) (psc_lt c) (psc_fuel c)).

  Lemma ps_untrack_all_seqof : forall l calls x k,
    seqof calls x k ->
    seqof (map (fun s => CObsDeleted (pss_key s)) l ++ calls) x (ps_untrack_all c l k).
  Proof.
    induction l as [|s l IH]; intros calls x k Hk; cbn [map List.app ps_untrack_all]; [exact Hk|].
    unfold ps_untrack_sub, ps_when. rewrite cfg_obs.
    apply (PsSeqGuard pol (psc_la c) (psc_lt c) (psc_fuel c) (CObsDeleted (pss_key s))).
    apply IH. exact Hk.
  Qed.

  Theorem ps_ev_seqof : forall e m, ps_ev_server e ->
    seqof (ps_ev_calls e m) (ps_ev_out e m) (ps_ev alloc c e m).
  Proof.
    intros e m He. destruct e; cbn [ps_ev ps_ev_calls ps_ev_out]; try contradiction.
    - (* put *)
      unfold ps_ev_put. destruct (ps_find name m); [constructor|].
      rewrite cfg_dyn. cbn [andb]. unfold ps_when. destruct observable; [|constructor].
      apply (PsSeqGuard pol (psc_la c) (psc_lt c) (psc_fuel c)
                        (CDynAdded (mkDyn (psc_proto c) name pkt))). constructor.
    - (* delete *)
      unfold ps_ev_del. destruct (ps_find name m) as [r|]; [|constructor].
      fold (ps_del_bump r). fold (ps_del_value r). rewrite cfg_cnt, cfg_dyn. cbn [orb].
      rewrite andb_true_r.
      assert (Rest : seqof (map (fun s => CObsDeleted (pss_key s)) (psr_subs r) ++
                              [CDynDeleted name; CCntDeleted name])
                           (ps_remove name m, [])
                           (ps_untrack_all c (psr_subs r)
                              (ps_when true (ps_res_deleted (psc_fuel c) true true name)
                                 (PsRet (Some (ps_remove name m, [])))))).
      { apply ps_untrack_all_seqof. unfold ps_when. apply ps_seqof_res_deleted. constructor. }
      destruct (ps_del_bump r && (ps_del_value r mod psc_freq c =? 0)); unfold ps_when at 1.
      + cbn [List.app].
        apply (PsSeqGuard pol (psc_la c) (psc_lt c) (psc_fuel c) (CCntTrack name (ps_del_value r))).
        exact Rest.
      + exact Rest.
    - (* register *)
      unfold ps_ev_reg. destruct (ps_find name m) as [r|]; [|constructor].
      destruct (negb (psr_observable r)); [constructor|].
      destruct (ps_find_tok tuple token (psr_subs r)); [constructor|].
      fold (ps_reg_subs1 tuple ck r). fold (ps_reg_new name tuple token ck pkt r m).
      rewrite cfg_obs. unfold ps_track, ps_when. rewrite cfg_cnt.
      assert (Rest : seqof [CObsAdded (ps_obs_of c (ps_reg_new name tuple token ck pkt r m));
                            CCntTrack name (psr_observe r)]
                (ps_replace (mkRsrc name true (psr_observe r)
                   (ps_reg_new name tuple token ck pkt r m :: ps_reg_subs1 tuple ck r)) m,
                 [(name, tuple, token, psr_observe r)])
                (ps_guard (ps_obs_added (psc_la c) (psc_lt c) (psc_fuel c)
                             (ps_obs_of c (ps_reg_new name tuple token ck pkt r m)))
                   (ps_guard (ps_cnt_track (psc_fuel c) name (psr_observe r))
                      (PsRet (Some (ps_replace (mkRsrc name true (psr_observe r)
                         (ps_reg_new name tuple token ck pkt r m :: ps_reg_subs1 tuple ck r)) m,
                         [(name, tuple, token, psr_observe r)])))))).
      { apply (PsSeqGuard pol (psc_la c) (psc_lt c) (psc_fuel c)
                 (CObsAdded (ps_obs_of c (ps_reg_new name tuple token ck pkt r m)))).
        apply (PsSeqGuard pol (psc_la c) (psc_lt c) (psc_fuel c) (CCntTrack name (psr_observe r))).
        constructor. }
      destruct (ps_find_ck tuple ck (psr_subs r)) as [o|]; cbn [List.app]; [|exact Rest].
      unfold ps_untrack_sub, ps_when. rewrite cfg_obs.
      apply (PsSeqGuard pol (psc_la c) (psc_lt c) (psc_fuel c) (CObsDeleted (pss_key o))). exact Rest.
    - (* cancel *)
      unfold ps_ev_cancel. destruct (ps_find name m) as [r|]; [|constructor].
      destruct (negb (psr_observable r)); [constructor|].
      fold (ps_cancel_hit tuple token ck r).
      destruct (ps_cancel_hit tuple token ck r) as [s|]; [|constructor].
      unfold ps_untrack_sub, ps_when. rewrite cfg_obs.
      apply (PsSeqGuard pol (psc_la c) (psc_lt c) (psc_fuel c) (CObsDeleted (pss_key s))). constructor.
    - (* notify *)
      unfold ps_ev_notify. destruct (ps_find name m) as [r|]; [|constructor].
      destruct (psr_observable r); [|constructor]. destruct (psr_subs r) as [|s0 l]; [constructor|].
      rewrite cfg_cnt. cbn [andb]. unfold ps_when.
      destruct (ps_next_observe (psr_observe r) mod psc_freq c =? 0); [|constructor].
      apply (PsSeqGuard pol (psc_la c) (psc_lt c) (psc_fuel c)
               (CCntTrack name (ps_next_observe (psr_observe r)))). constructor.
  Qed.
End Events.

(* ------------------------------------------------------------------ whole histories *)
Section Histories.
  Variable pol : Z -> Z -> Z.
  Variable alloc : list bytes -> bytes.
  Variable c : ps_cfg.
  Hypothesis cfg_dyn : psc_dyn c = true.
  Hypothesis cfg_obs : psc_obs c = true.
  Hypothesis cfg_cnt : psc_cnt c = true.
  Hypothesis la_pos : 0 < psc_la c.
  Hypothesis lt_pos : 0 < psc_lt c.

  (* memory and abstract file state after a list of events *)
  Fixpoint ps_hist_state (evs : list ps_event) (m : ps_mem) (A : ps_abs) : ps_mem * ps_abs :=
    match evs with
    | [] => (m, A)
    | e :: tl => ps_hist_state tl (fst (ps_ev_out alloc e m)) (ps_abs_calls (ps_ev_calls alloc c e m) A)
    end.

  (* every call of the history has well-formed arguments; total number of calls *)
  Fixpoint ps_hist_wf (evs : list ps_event) (m : ps_mem) : Prop :=
    match evs with
    | [] => True
    | e :: tl => ps_ev_server e /\ Forall (ps_call_wf (psc_la c) (psc_lt c)) (ps_ev_calls alloc c e m) /\
                 ps_hist_wf tl (fst (ps_ev_out alloc e m))
    end.
  Fixpoint ps_hist_ncalls (evs : list ps_event) (m : ps_mem) : nat :=
    match evs with
    | [] => O
    | e :: tl => (length (ps_ev_calls alloc c e m) + ps_hist_ncalls tl (fst (ps_ev_out alloc e m)))%nat
    end.

  Lemma ps_abs_calls_wf : forall calls A,
    ps_abs_wf (psc_la c) (psc_lt c) A -> Forall (ps_call_wf (psc_la c) (psc_lt c)) calls ->
    ps_abs_wf (psc_la c) (psc_lt c) (ps_abs_calls calls A) /\
    (ps_abs_size (ps_abs_calls calls A) <= ps_abs_size A + length calls)%nat.
  Proof.
    induction calls as [|cl calls IH]; intros A HA Hw; cbn [ps_abs_calls length]; [split; [exact HA|lia]|].
    inversion Hw; subst. destruct (ps_abs_call_wf pol _ _ cl A HA H1) as [H3 H4].
    destruct (IH _ H3 H2) as [H5 H6]. split; [exact H5|lia].
  Qed.

  (* C17_atomic + C17_update_correct over whole event histories: at kill point k the files hold
     the abstract state after the completed events (evs1) plus the first j updater calls of the
     event that was interrupted *)
  Theorem ps_hist_crash : forall evs m sent A s k,
    ps_abs_wf (psc_la c) (psc_lt c) A -> ps_hist_wf evs m ->
    (ps_abs_size A + ps_hist_ncalls evs m < psc_fuel c)%nat ->
    ps_tmpw s -> ps_holdsA s A ->
    exists evs1 rest j,
      evs = evs1 ++ rest /\
      ps_holdsA (ps_runk pol (ps_hist alloc c evs m sent) k s)
        (ps_abs_calls (firstn j (match rest with
                                 | e :: _ => ps_ev_calls alloc c e (fst (ps_hist_state evs1 m A))
                                 | [] => []
                                 end)) (snd (ps_hist_state evs1 m A))).
  Proof.
    induction evs as [|e evs IH]; intros m sent A s k HA Hw Hsz Hs Hh.
    - exists [], [], O. split; [reflexivity|]. cbn [ps_hist ps_hist_state fst snd firstn ps_abs_calls].
      destruct k; exact Hh.
    - destruct Hw as (Hsrv & Hcw & Hw'). cbn [ps_hist_ncalls] in Hsz.
      pose proof (ps_ev_seqof pol alloc c cfg_dyn cfg_obs cfg_cnt e m Hsrv) as Hseq.
      destruct (ps_seqof_run pol (psc_la c) (psc_lt c) la_pos lt_pos (psc_fuel c) _ _ _ _ Hseq
                             A s HA Hcw ltac:(lia) Hs Hh) as (R1 & R2 & R3 & R4).
      cbn [ps_hist]. rewrite ps_runk_bind.
      destruct (k <=? ps_nops pol (ps_ev alloc c e m) s)%nat.
      + destruct (R4 k) as (j & Hj & Hjh).
        exists [], (e :: evs), j. split; [reflexivity|]. cbn [ps_hist_state fst snd]. exact Hjh.
      + destruct (ps_ev_out alloc e m) as [m' sn] eqn:Eo.
        destruct (ps_abs_calls_wf _ A HA Hcw) as [HA' Hsz'].
        destruct (IH m' (sent ++ sn) (ps_abs_calls (ps_ev_calls alloc c e m) A)
                     (snd (ps_run pol (ps_ev alloc c e m) s))
                     (k - ps_nops pol (ps_ev alloc c e m) s)%nat HA')
          as (evs1 & rest & j & He & Hjh); try assumption; try exact Hw'; try (cbn [fst] in Hsz; lia).
        exists (e :: evs1), rest, j. split; [cbn [List.app]; congruence|].
        unfold ps_result in *. rewrite R1. cbn [ps_hist_state]. rewrite Eo. cbn [fst]. exact Hjh.
  Qed.

  (* the complete run *)
  Theorem ps_hist_run : forall evs m sent A s,
    ps_abs_wf (psc_la c) (psc_lt c) A -> ps_hist_wf evs m ->
    (ps_abs_size A + ps_hist_ncalls evs m < psc_fuel c)%nat ->
    ps_tmpw s -> ps_holdsA s A ->
    exists sn, fst (ps_run pol (ps_hist alloc c evs m sent) s) =
                 Some (fst (ps_hist_state evs m A), sent ++ sn) /\
      ps_holdsA (snd (ps_run pol (ps_hist alloc c evs m sent) s)) (snd (ps_hist_state evs m A)).
  Proof.
    induction evs as [|e evs IH]; intros m sent A s HA Hw Hsz Hs Hh.
    - exists []. cbn [ps_hist ps_run ps_hist_state fst snd]. rewrite app_nil_r. split; [reflexivity|exact Hh].
    - destruct Hw as (Hsrv & Hcw & Hw'). cbn [ps_hist_ncalls] in Hsz.
      pose proof (ps_ev_seqof pol alloc c cfg_dyn cfg_obs cfg_cnt e m Hsrv) as Hseq.
      destruct (ps_seqof_run pol (psc_la c) (psc_lt c) la_pos lt_pos (psc_fuel c) _ _ _ _ Hseq
                             A s HA Hcw ltac:(lia) Hs Hh) as (R1 & R2 & R3 & R4).
      cbn [ps_hist]. rewrite ps_run_bind.
      destruct (ps_run pol (ps_ev alloc c e m) s) as [r s1] eqn:Er.
      assert (R1' : r = Some (ps_ev_out alloc e m)).
      { transitivity (fst (ps_run pol (ps_ev alloc c e m) s)); [rewrite Er; reflexivity|exact R1]. }
      assert (Es : s1 = snd (ps_run pol (ps_ev alloc c e m) s)) by (rewrite Er; reflexivity).
      assert (R2' : ps_holdsA s1 (ps_abs_calls (ps_ev_calls alloc c e m) A)) by (rewrite Es; exact R2).
      assert (R3' : ps_tmpw s1) by (rewrite Es; exact R3).
      clear R1 R2 R3 Es. subst r.
      destruct (ps_ev_out alloc e m) as [m' sn] eqn:Eo.
      destruct (ps_abs_calls_wf _ A HA Hcw) as [HA' Hsz'].
      destruct (IH m' (sent ++ sn) _ s1 HA') as (sn' & F1 & F2); try assumption; try exact Hw'; try (cbn [fst] in Hsz; lia).
      exists (sn ++ sn'). cbn [ps_hist_state]. rewrite Eo. cbn [fst]. cbv beta iota zeta.
      split; [rewrite F1, <- app_assoc; reflexivity|exact F2].
  Qed.
End Histories.

(* C17 - the Observe counter across kills (C17_observe_monotone).

   One resource, seen through the three things that matter: c = r->observe in memory,
   v = the value in the counter file (None: no line yet), m = the highest Observe value that
   has left on the wire.  The code paths are cut into their atomic steps so that a kill fits
   between any two of them:

     notify  : c := c + 1                           coap_resource_notify_observers_lkd
               if c mod freq = 0 then v := c        track_observe_value (one rename)
               send c                               coap_check_notify
     register: v := c ; send c                      coap_add_observer, then the response
     restart : c := round(v)  (memory is lost)      coap_op_obs_cnt_load_disk
               v := c                               (re-registration from the observe file)

   A kill inside the rename leaves the old or the new line (FsProofs.ps_atomic1), so "v := x"
   is a single step here.  Values stay below 2^24 - freq (no wrap). *)
From LibcoapV Require Import Base.Tactics Base.Bytes Persist.Fs Persist.Records Persist.Updaters
  Persist.Server.
Local Open Scope Z_scope.

Definition ps_rnd (f x : Z) : Z := (x + f) / f * f - 1.

Inductive ps_phase := PhIdle | PhSave | PhSend.

Record ps_cst := mkCst { cs_c : Z; cs_v : option Z; cs_m : Z; cs_ph : ps_phase }.

Section Counter.
  Variable f : Z.
  Hypothesis f_pos : 0 < f.

  Inductive ps_cstep : ps_cst -> ps_cst -> Prop :=
  | CsNotify : forall c x m,
      (* only a resource that has (had) an observer, hence a line, is notified *)
      ps_cstep (mkCst c (Some x) m PhIdle)
               (mkCst (c + 1) (Some x) m (if (c + 1) mod f =? 0 then PhSave else PhSend))
  | CsRegister : forall c v m, ps_cstep (mkCst c v m PhIdle) (mkCst c v m PhSave)
  | CsSave : forall c v m, ps_cstep (mkCst c v m PhSave) (mkCst c (Some c) m PhSend)
  | CsSend : forall c v m, ps_cstep (mkCst c v m PhSend) (mkCst c v (Z.max m c) PhIdle)
  | CsResave : forall c v m, ps_cstep (mkCst c v m PhIdle) (mkCst c (Some c) m PhIdle)
  | CsKill : forall c x m ph,        (* killed anywhere, restarted *)
      ps_cstep (mkCst c (Some x) m ph) (mkCst (ps_rnd f x) (Some x) m PhIdle)
  | CsKillFresh : forall c m ph c0,  (* killed before anything was saved *)
      0 <= c0 -> ps_cstep (mkCst c None m ph) (mkCst c0 None m PhIdle).

  Inductive ps_creach : ps_cst -> ps_cst -> Prop :=
  | CrRefl : forall s, ps_creach s s
  | CrStep : forall s t u, ps_creach s t -> ps_cstep t u -> ps_creach s u.

  (* everything sent is covered by what a restart resumes from *)
  Definition ps_cinv (s : ps_cst) : Prop :=
    0 <= cs_c s /\
    match cs_v s with
    | Some x =>
        0 <= x /\ x <= cs_c s /\ cs_m s <= ps_rnd f x /\ cs_m s <= cs_c s /\
        match cs_ph s with
        | PhSave => cs_c s <= ps_rnd f x + 1 /\ (cs_c s = ps_rnd f x + 1 -> cs_m s < cs_c s)
        | _ => cs_c s <= ps_rnd f x
        end
    | None => cs_m s < 0 /\ cs_ph s <> PhSend
    end.

  Lemma ps_rnd_ge : forall x, 0 <= x -> x <= ps_rnd f x.
  Proof.
    intros x Hx. unfold ps_rnd.
    pose proof (Z.div_mod (x + f) f ltac:(lia)). pose proof (Z.mod_pos_bound (x + f) f f_pos). nia.
  Qed.

  Lemma ps_rnd_idem : forall x, 0 <= x -> ps_rnd f (ps_rnd f x) = ps_rnd f x.
  Proof.
    intros x Hx. unfold ps_rnd.
    replace ((x + f) / f * f - 1 + f) with (((x + f) / f) * f + (f - 1)) by lia.
    rewrite Z.div_add_l by lia. rewrite (Z.div_small (f - 1) f) by lia. lia.
  Qed.

  (* c + 1 is a multiple of f exactly when c is the last value of its block *)
  Lemma ps_rnd_next : forall x c, 0 <= x -> x <= c -> c <= ps_rnd f x ->
    ((c + 1) mod f = 0 <-> c = ps_rnd f x).
  Proof.
    intros x c Hx Hxc Hc. unfold ps_rnd in *.
    pose proof (Z.div_mod (x + f) f ltac:(lia)). pose proof (Z.mod_pos_bound (x + f) f f_pos).
    set (q := (x + f) / f) in *.
    split; intro H1.
    - apply Z.mod_divide in H1; [|lia]. destruct H1 as [k Hk].
      assert (k = q) by nia. subst k. lia.
    - subst c. replace (q * f - 1 + 1) with (q * f) by lia. apply Z.mod_mul. lia.
  Qed.

  Lemma ps_cinv_step : forall s t, ps_cinv s -> ps_cstep s t -> ps_cinv t.
  Proof.
    intros s t Hi Hs. destruct Hs; unfold ps_cinv in *; cbn [cs_c cs_v cs_m cs_ph] in *.
    - (* notify *)
      destruct Hi as (Hc & Hx & Hxc & Hm & Hmc & Hcr).
      split; [lia|]. split; [exact Hx|]. split; [lia|]. split; [exact Hm|]. split; [lia|].
      pose proof (ps_rnd_next x c Hx Hxc Hcr) as Hn.
      destruct (Z.eqb_spec ((c + 1) mod f) 0) as [E|E].
      + apply Hn in E. split; lia.
      + assert (c <> ps_rnd f x) by (intro; apply E; apply Hn; assumption). lia.
    - (* register *)
      destruct v as [x|].
      + destruct Hi as (Hc & Hx & Hxc & Hm & Hmc & Hcr). repeat split; try assumption; lia.
      + destruct Hi as (Hc & Hm & _). repeat split; try assumption; discriminate.
    - (* save *)
      destruct Hi as [Hc Hi]. split; [exact Hc|].
      pose proof (ps_rnd_ge c Hc).
      destruct v as [x|].
      + destruct Hi as (Hx & Hxc & Hm & Hmc & Hcr & Hlt). repeat split; lia.
      + destruct Hi as [Hm _]. repeat split; lia.
    - (* send *)
      destruct Hi as [Hc Hi]. split; [exact Hc|].
      destruct v as [x|].
      + destruct Hi as (Hx & Hxc & Hm & Hmc & Hcr). repeat split; lia.
      + destruct Hi as [_ Hp]. congruence.
    - (* resave *)
      destruct Hi as [Hc Hi]. split; [exact Hc|]. pose proof (ps_rnd_ge c Hc).
      destruct v as [x|].
      + destruct Hi as (Hx & Hxc & Hm & Hmc & Hcr). repeat split; lia.
      + destruct Hi as [Hm _]. repeat split; lia.
    - (* kill + restart *)
      destruct Hi as (Hc & Hx & Hxc & Hm & Hmc & Hcr).
      pose proof (ps_rnd_ge x Hx). repeat split; lia.
    - (* kill before any save *)
      destruct Hi as (Hc & Hm & _). repeat split; try assumption; discriminate.
  Qed.

  Theorem ps_cinv_reach : forall s t, ps_cinv s -> ps_creach s t -> ps_cinv t.
  Proof.
    intros s t Hi Hr. induction Hr as [s|s t u Hr IH Hs]; [exact Hi|].
    apply (ps_cinv_step t u); [apply IH; exact Hi|exact Hs].
  Qed.

  (* whatever the history and wherever the kills: the value a restarted server sends first
     (round(v) + 1) exceeds every value sent before *)
  Theorem ps_observe_monotone : forall s t x,
    ps_cinv s -> ps_creach s t -> cs_v t = Some x -> cs_m t < ps_rnd f x + 1.
  Proof.
    intros s t x Hi Hr Hv. pose proof (ps_cinv_reach s t Hi Hr) as [_ H]. rewrite Hv in H. lia.
  Qed.

  (* ... and within one process the values sent only grow: m <= c, the next notification is c + 1 *)
  Theorem ps_observe_growing : forall s t,
    ps_cinv s -> ps_creach s t -> cs_ph t = PhIdle -> cs_m t < cs_c t + 1.
  Proof.
    intros s t Hi Hr Hp. pose proof (ps_cinv_reach s t Hi Hr) as [Hc H].
    destruct (cs_v t); [lia|]. destruct H. lia.
  Qed.

  (* a fresh resource: counter 2 (coap_resource_init), no line, nothing sent *)
  Lemma ps_cinv_init : ps_cinv (mkCst PS_OBSERVE0 None (-1) PhIdle).
  Proof. unfold ps_cinv. cbn. repeat split; try lia; discriminate. Qed.
End Counter.

(* the arithmetic of the code is the arithmetic above while nothing wraps *)
Lemma ps_round_rnd : forall f x, 0 < f -> 0 <= x -> x + f < 4294967296 -> ps_round f x = ps_rnd f x.
Proof.
  intros f x Hf Hx Hb. unfold ps_round, ps_rnd.
  rewrite (Z.mod_small (x + f)) by lia.
  pose proof (Z.div_mod (x + f) f ltac:(lia)). pose proof (Z.mod_pos_bound (x + f) f Hf).
  assert (1 <= (x + f) / f) by (apply Z.div_le_lower_bound; lia).
  apply Z.mod_small. nia.
Qed.

Lemma ps_next_observe_succ : forall c, 0 <= c < 16777215 -> ps_next_observe c = c + 1.
Proof. intros. unfold ps_next_observe. apply Z.mod_small. lia. Qed.

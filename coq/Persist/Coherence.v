(* C17 - the invariant that links the in-memory server state of Server.v to the three files
   (abstract state of History.v) and to the Observe values sent so far, and its preservation by
   every server event. *)
From LibcoapV Require Import Base.Tactics Base.Bytes Base.BytesProofs Persist.Fs Persist.Records
  Persist.RecordsProofs Persist.Updaters Persist.UpdatersProofs Persist.History Persist.Server
  Persist.Restore Persist.MemLemmas Persist.EventCalls Persist.Counter.
Local Open Scope Z_scope.

Definition ps_ol {X : Type} (v : option (list X)) : list X :=
  match v with Some l => l | None => [] end.

Section Coh.
  Variable app : bytes -> option (bytes * bool).
  Variable req : bytes -> option (bytes * bytes * bytes).
  Variable alloc : list bytes -> bytes.
  Variable c : ps_cfg.
  Variable m0 : ps_mem.                       (* the resources the application registers itself *)
  Hypothesis alloc_fresh : forall live, ~ In (alloc live) live.
  Hypothesis alloc_len : forall live, len (alloc live) = PS_KEY.
  Hypothesis cfg_proto : len (psc_proto c) = PS_PROTO.
  Hypothesis cfg_listen : len (psc_listen c) = psc_la c.
  Hypothesis freq_pos : 0 < psc_freq c.
  Hypothesis freq_small : psc_freq c < 1000000.

  (* no wrap of the 24-bit counter: the histories considered keep r->observe below this bound *)
  Definition ps_bound : Z := 16777216 - psc_freq c - 2.

  Record ps_inv (m : ps_mem) (A : ps_abs) (G : list ps_send) : Prop := mkInv {
    iv_names : NoDup (map psr_name m);
    iv_res : forall n r, ps_find n m = Some r ->
               ps_name_ok n /\ 0 <= psr_observe r <= ps_bound /\
               NoDup (map pss_key (psr_subs r)) /\ (psr_subs r <> [] -> psr_observable r = true);
    iv_sub : forall n s, ps_insub m n s ->
               req (pss_pkt s) = Some (n, pss_token s, pss_ck s) /\ len (pss_key s) = PS_KEY /\
               len (pss_tuple s) = psc_lt c /\ 1 <= len (pss_pkt s) <= PS_MAX;
    iv_key : forall n1 s1 n2 s2, ps_insub m n1 s1 -> ps_insub m n2 s2 ->
               pss_key s1 = pss_key s2 -> n1 = n2 /\ s1 = s2;
    iv_tok : forall n s1 s2, ps_insub m n s1 -> ps_insub m n s2 ->
               pss_tuple s1 = pss_tuple s2 -> pss_token s1 = pss_token s2 -> s1 = s2;
    iv_ck : forall n s1 s2, ps_insub m n s1 -> ps_insub m n s2 ->
               pss_tuple s1 = pss_tuple s2 -> pss_ck s1 = pss_ck s2 -> s1 = s2;
    iv_wf : ps_abs_wf (psc_la c) (psc_lt c) A;
    iv_dyn : forall n r, ps_find n m = Some r -> psr_observable r = true ->
               ps_has m0 n \/ exists d, In d (ps_ol (ab_dyn A)) /\ psd_name d = n;
    iv_dynf : forall d, In d (ps_ol (ab_dyn A)) ->
               app (psd_pkt d) = Some (psd_name d, true) /\ ps_name_ok (psd_name d);
    iv_obs1 : forall n s, ps_insub m n s -> In (ps_obs_of c s) (ps_ol (ab_obs A));
    iv_obs2 : forall rec, In rec (ps_ol (ab_obs A)) -> exists n s, ps_insub m n s /\ rec = ps_obs_of c s;
    iv_obs3 : NoDup (map pso_key (ps_ol (ab_obs A)));
    iv_cnt0 : forall n x, In (n, x) (ps_ol (ab_cnt A)) -> ps_has m n;
    iv_cnt1 : NoDup (map fst (ps_ol (ab_cnt A)));
    iv_cnt2 : forall n x r, In (n, x) (ps_ol (ab_cnt A)) -> ps_find n m = Some r ->
               0 <= x /\ x <= psr_observe r <= ps_rnd (psc_freq c) x;
    iv_cnt3 : forall n r, ps_find n m = Some r -> psr_subs r <> [] ->
               exists x, In (n, x) (ps_ol (ab_cnt A));
    iv_sent : forall n tu tok v, In (n, tu, tok, v) G ->
               exists r, ps_find n m = Some r /\ v <= psr_observe r /\
                         exists x, In (n, x) (ps_ol (ab_cnt A))
  }.

  (* the arguments an event must have so that its records are well-formed, and the facts about
     the outside world it stands for (the handler creates what it created; the stored request
     is the request that was handled) *)
  Definition ps_evt_ok (e : ps_event) (m : ps_mem) : Prop :=
    match e with
    | PsEvPut name observable pkt =>
        ps_name_ok name /\ 1 <= len pkt <= PS_MAX /\ app pkt = Some (name, observable)
    | PsEvReg name tuple token ck pkt =>
        req pkt = Some (name, token, ck) /\ len tuple = psc_lt c /\ 1 <= len pkt <= PS_MAX
    | PsEvNotify name | PsEvDel name =>
        forall r, ps_find name m = Some r -> psr_observe r < ps_bound
    | PsEvCancel _ _ _ _ => True
    | PsEvRaw _ => False
    end.

  (* the Observe values sent so far that still count: those of a deleted resource are forgotten *)
  Definition ps_ghost (e : ps_event) (m : ps_mem) (G : list ps_send) : list ps_send :=
    match e with
    | PsEvDel name =>
        match ps_find name m with
        | Some _ => filter (fun x => negb (ps_beq name (fst (fst (fst x))))) G
        | None => G
        end
    | _ => G ++ snd (ps_ev_out alloc e m)
    end.

  (* ---------------------------------------------------------------- helpers *)
  Lemma ps_ol_add : forall X (w : list X -> list X) a v,
    w [] = [] -> ps_ol (ps_add w a v) = w (ps_ol v) ++ [a].
  Proof. intros X w a [l|] H; cbn [ps_add ps_ol]; [reflexivity|rewrite H; reflexivity]. Qed.

  Lemma ps_ol_rem : forall X (w : list X -> list X) v,
    w [] = [] -> ps_ol (ps_rem w v) = w (ps_ol v).
  Proof. intros X w [l|] H; cbn [ps_rem ps_ol]; [reflexivity|rewrite H; reflexivity]. Qed.

  Lemma ps_cnt_without_in : forall name C n x,
    In (n, x) (ps_cnt_without name C) <-> n <> name /\ In (n, x) C.
  Proof.
    intros name C n x. unfold ps_cnt_without. rewrite filter_In. cbn [fst]. split.
    - intros [Hin Hb]. split; [|exact Hin]. intro E. subst. rewrite ps_beq_refl in Hb. discriminate.
    - intros [Hne Hin]. split; [exact Hin|]. rewrite ps_beq_false; [reflexivity|congruence].
  Qed.

  Lemma ps_nodup_filter_map : forall (X Y : Type) (g : X -> Y) (f : X -> bool) l,
    NoDup (map g l) -> NoDup (map g (filter f l)).
  Proof.
    intros X Y g f l H. induction l as [|x l IH]; [constructor|]. cbn [map filter] in *.
    inversion H as [|? ? Hx Hl]; subst. destruct (f x); [|apply IH; exact Hl].
    cbn [map]. constructor; [|apply IH; exact Hl]. intro Hin. apply Hx.
    apply in_map_iff in Hin. destruct Hin as (y & Ey & Hy). apply filter_In in Hy.
    apply in_map_iff. exists y. tauto.
  Qed.

  Lemma ps_cnt_set_nodup : forall name v C,
    NoDup (map fst C) -> NoDup (map fst (ps_cnt_without name C ++ [(name, v)])).
  Proof.
    intros name v C H. rewrite map_app. cbn [map fst].
    assert (H1 : NoDup (map fst (ps_cnt_without name C))) by (apply ps_nodup_filter_map; exact H).
    assert (H2 : ~ In name (map fst (ps_cnt_without name C))).
    { intro Hin. apply in_map_iff in Hin. destruct Hin as ([n x] & E & Hin). cbn [fst] in E. subst n.
      apply ps_cnt_without_in in Hin. destruct Hin as [Hne _]. congruence. }
    clear H. induction (map fst (ps_cnt_without name C)) as [|y l IH]; cbn [List.app].
    - constructor; [intros []|constructor].
    - inversion H1 as [|? ? Hy Hl]; subst. constructor.
      + intro Hin. apply in_app_or in Hin. destruct Hin as [Hin|[E|[]]]; [contradiction|].
        apply H2. left. symmetry. exact E.
      + apply IH; [exact Hl|]. intro Hin. apply H2. right. exact Hin.
  Qed.

  Lemma ps_cnt_set_in : forall name v C n x,
    In (n, x) (ps_cnt_without name C ++ [(name, v)]) <->
    (n <> name /\ In (n, x) C) \/ (n = name /\ x = v).
  Proof.
    intros. rewrite in_app_iff, ps_cnt_without_in. cbn [In]. split.
    - intros [H|[E|[]]]; [left; exact H|right; inversion E; split; reflexivity].
    - intros [H|[-> ->]]; [left; exact H|right; left; reflexivity].
  Qed.

  Lemma ps_insub_same_subs : forall new m name rs n s,
    psr_name new = name -> ps_find name m = Some rs -> psr_subs new = psr_subs rs ->
    (ps_insub (ps_replace new m) n s <-> ps_insub m n s).
  Proof.
    intros new m name rs n s Hn Hf Hs. rewrite (ps_insub_replace new m name rs n s Hn Hf).
    destruct (ps_bytes_dec n name) as [->|Hne].
    - rewrite Hs. split.
      + intros [[_ Hin]|[Hc _]]; [exists rs; split; assumption|congruence].
      + intros (r & E & Hin). rewrite Hf in E. inversion E; subst. left. split; [reflexivity|exact Hin].
    - split; [intros [[Hc _]|[_ H]]; [contradiction|exact H]|intro H; right; split; assumption].
  Qed.

  Lemma ps_next_observe_ok : forall v, 0 <= v < ps_bound -> ps_next_observe v = v + 1.
  Proof. intros v H. unfold ps_next_observe, ps_bound in *. apply Z.mod_small. lia. Qed.

  Lemma ps_track_wf : forall m A G n r,
    ps_inv m A G -> ps_find n m = Some r -> forall v, 0 <= v <= ps_bound ->
    ps_call_wf (psc_la c) (psc_lt c) (CCntTrack n v).
  Proof.
    intros m A G n r Hi Hf v Hv. destruct (iv_res _ _ _ Hi n r Hf) as (Hn & _).
    cbn [ps_call_wf]. split; [exact Hn|]. unfold ps_bound in Hv. lia.
  Qed.

  (* ---------------------------------------------------------------- notify *)
  Lemma ps_inv_notify : forall name m A G,
    ps_inv m A G -> ps_evt_ok (PsEvNotify name) m ->
    Forall (ps_call_wf (psc_la c) (psc_lt c)) (ps_ev_calls alloc c (PsEvNotify name) m) /\
    ps_inv (fst (ps_ev_out alloc (PsEvNotify name) m))
           (ps_abs_calls (ps_ev_calls alloc c (PsEvNotify name) m) A)
           (ps_ghost (PsEvNotify name) m G).
  Proof.
    intros name m A G Hi Hok. unfold ps_ghost. cbn [ps_ev_calls ps_ev_out ps_evt_ok] in *.
    destruct (ps_find name m) as [r|] eqn:Hf;
      [|cbn [fst snd ps_abs_calls]; rewrite app_nil_r; split; [constructor|exact Hi]].
    destruct (psr_observable r) eqn:Hobs;
      [|cbn [fst snd ps_abs_calls]; rewrite app_nil_r; split; [constructor|exact Hi]].
    destruct (psr_subs r) as [|s0 l] eqn:Hsubs;
      [cbn [fst snd ps_abs_calls]; rewrite app_nil_r; split; [constructor|exact Hi]|].
    destruct (iv_res _ _ _ Hi name r Hf) as (Hnok & Hrange & Hnd & _).
    specialize (Hok r eq_refl).
    rewrite (ps_next_observe_ok (psr_observe r)) by lia.
    set (v := psr_observe r + 1). set (new := mkRsrc name true v (s0 :: l)).
    cbn [fst snd].
    assert (Hiff : forall n s, ps_insub (ps_replace new m) n s <-> ps_insub m n s).
    { intros. apply (ps_insub_same_subs new m name r); [reflexivity|exact Hf|]. cbn [psr_subs new]. congruence. }
    assert (Hfind : forall n, ps_find n (ps_replace new m) = if ps_beq n name then Some new else ps_find n m).
    { intro n. apply (ps_find_replace_any new m name r); [reflexivity|exact Hf]. }
    assert (Hline : exists x, In (name, x) (ps_ol (ab_cnt A))).
    { apply (iv_cnt3 _ _ _ Hi name r Hf). rewrite Hsubs. discriminate. }
    (* the state of the counter file *)
    set (calls := if v mod psc_freq c =? 0 then [CCntTrack name v] else []).
    assert (Hcw : Forall (ps_call_wf (psc_la c) (psc_lt c)) calls).
    { subst calls. destruct (v mod psc_freq c =? 0); [|constructor]. constructor; [|constructor].
      apply (ps_track_wf m A G name r Hi Hf). subst v. lia. }
    split; [exact Hcw|].
    assert (HA : ps_abs_wf (psc_la c) (psc_lt c) (ps_abs_calls calls A)).
    { apply (ps_abs_calls_wf (fun _ _ => 0) c); [apply (iv_wf _ _ _ Hi)|exact Hcw]. }
    assert (Hdo : ab_dyn (ps_abs_calls calls A) = ab_dyn A /\ ab_obs (ps_abs_calls calls A) = ab_obs A).
    { subst calls. destruct (v mod psc_freq c =? 0); cbn [ps_abs_calls ps_abs_call ab_dyn ab_obs]; split; reflexivity. }
    destruct Hdo as [Hdyn Hobsf].
    (* lines after the event *)
    assert (Hc2 : forall n x, In (n, x) (ps_ol (ab_cnt (ps_abs_calls calls A))) ->
                    (n <> name /\ In (n, x) (ps_ol (ab_cnt A))) \/
                    (n = name /\ 0 <= x /\ x <= v <= ps_rnd (psc_freq c) x)).
    { intros n x Hin. subst calls. destruct (Z.eqb_spec (v mod psc_freq c) 0) as [E|E].
      - cbn [ps_abs_calls ps_abs_call ab_cnt] in Hin. rewrite ps_ol_add in Hin by reflexivity.
        apply ps_cnt_set_in in Hin. destruct Hin as [H|[-> ->]]; [left; exact H|right].
        split; [reflexivity|]. pose proof (ps_rnd_ge (psc_freq c) freq_pos v). subst v. lia.
      - cbn [ps_abs_calls] in Hin. destruct (ps_bytes_dec n name) as [->|Hne]; [right|left; split; assumption].
        split; [reflexivity|]. destruct (iv_cnt2 _ _ _ Hi name x r Hin Hf) as (Hx & Hxr).
        split; [exact Hx|]. split; [subst v; lia|].
        pose proof (ps_rnd_next (psc_freq c) freq_pos x (psr_observe r) Hx (proj1 Hxr) (proj2 Hxr)) as Hn.
        assert (psr_observe r <> ps_rnd (psc_freq c) x) by (intro Eq; apply E; apply Hn; exact Eq).
        subst v. lia. }
    assert (Hc3 : forall n, (exists x, In (n, x) (ps_ol (ab_cnt A))) ->
                    exists x, In (n, x) (ps_ol (ab_cnt (ps_abs_calls calls A)))).
    { intros n [x Hin]. subst calls. destruct (v mod psc_freq c =? 0); [|exists x; exact Hin].
      cbn [ps_abs_calls ps_abs_call ab_cnt]. rewrite ps_ol_add by reflexivity.
      destruct (ps_bytes_dec n name) as [->|Hne].
      - exists v. apply ps_cnt_set_in. right. split; reflexivity.
      - exists x. apply ps_cnt_set_in. left. split; assumption. }
    constructor.
    - rewrite (ps_names_replace new m name eq_refl). apply (iv_names _ _ _ Hi).
    - intros n r' Hf'. rewrite Hfind in Hf'. destruct (ps_beq n name) eqn:En.
      + apply ps_beq_eq in En. inversion Hf'; subst r' n. cbn [psr_observe psr_subs psr_observable new].
        split; [exact Hnok|]. split; [subst v; lia|]. split; [rewrite <- Hsubs; exact Hnd|reflexivity].
      + apply (iv_res _ _ _ Hi n r' Hf').
    - intros n s Hs. apply Hiff in Hs. apply (iv_sub _ _ _ Hi n s Hs).
    - intros n1 s1 n2 s2 H1 H2. apply Hiff in H1. apply Hiff in H2. apply (iv_key _ _ _ Hi); assumption.
    - intros n s1 s2 H1 H2. apply Hiff in H1. apply Hiff in H2. apply (iv_tok _ _ _ Hi n); assumption.
    - intros n s1 s2 H1 H2. apply Hiff in H1. apply Hiff in H2. apply (iv_ck _ _ _ Hi n); assumption.
    - exact HA.
    - intros n r' Hf' Ho'. rewrite Hdyn. rewrite Hfind in Hf'. destruct (ps_beq n name) eqn:En.
      + apply ps_beq_eq in En. subst n. apply (iv_dyn _ _ _ Hi name r Hf Hobs).
      + apply (iv_dyn _ _ _ Hi n r' Hf' Ho').
    - rewrite Hdyn. apply (iv_dynf _ _ _ Hi).
    - intros n s Hs. rewrite Hobsf. apply Hiff in Hs. apply (iv_obs1 _ _ _ Hi n s Hs).
    - intros rec Hr. rewrite Hobsf in Hr. destruct (iv_obs2 _ _ _ Hi rec Hr) as (n & s & Hs & E).
      exists n, s. split; [apply Hiff; exact Hs|exact E].
    - rewrite Hobsf. apply (iv_obs3 _ _ _ Hi).
    - intros n x Hin. unfold ps_has. rewrite Hfind. destruct (Hc2 n x Hin) as [[Hne Hold]|[-> _]].
      + rewrite (ps_beq_false n name Hne). apply (iv_cnt0 _ _ _ Hi n x Hold).
      + rewrite ps_beq_refl. discriminate.
    - subst calls. destruct (v mod psc_freq c =? 0); [|apply (iv_cnt1 _ _ _ Hi)].
      cbn [ps_abs_calls ps_abs_call ab_cnt]. rewrite ps_ol_add by reflexivity.
      apply ps_cnt_set_nodup. apply (iv_cnt1 _ _ _ Hi).
    - intros n x r' Hin Hf'. rewrite Hfind in Hf'. destruct (Hc2 n x Hin) as [[Hne Hold]|[-> Hx]].
      + rewrite (ps_beq_false n name Hne) in Hf'. apply (iv_cnt2 _ _ _ Hi n x r' Hold Hf').
      + rewrite ps_beq_refl in Hf'. inversion Hf'; subst r'. cbn [psr_observe new]. exact Hx.
    - intros n r' Hf' Hsub'. apply Hc3. rewrite Hfind in Hf'. destruct (ps_beq n name) eqn:En.
      + apply ps_beq_eq in En. subst n. exact Hline.
      + apply (iv_cnt3 _ _ _ Hi n r' Hf' Hsub').
    - intros n tu tok v0 Hin. apply in_app_or in Hin. destruct Hin as [Hin|Hin].
      + destruct (iv_sent _ _ _ Hi n tu tok v0 Hin) as (r' & Hf' & Hv & Hl).
        rewrite Hfind. destruct (ps_beq n name) eqn:En.
        * apply ps_beq_eq in En. subst n. rewrite Hf in Hf'. inversion Hf'; subst r'.
          exists new. split; [reflexivity|]. split; [cbn [psr_observe new]; subst v; lia|apply Hc3; exact Hl].
        * exists r'. split; [exact Hf'|]. split; [exact Hv|apply Hc3; exact Hl].
      + apply in_map_iff in Hin. destruct Hin as (s & E & _). inversion E; subst n tu tok v0.
        rewrite Hfind, ps_beq_refl. exists new. split; [reflexivity|].
        split; [cbn [psr_observe new]; lia|apply Hc3; exact Hline].
  Qed.

  (* ---------------------------------------------------------------- put *)
  Lemma ps_dyn_without_in : forall name D d,
    In d (ps_dyn_without name D) <-> In d D /\ psd_name d <> name.
  Proof.
    intros name D d. unfold ps_dyn_without. rewrite filter_In. split.
    - intros [Hin Hb]. split; [exact Hin|]. intro E. rewrite <- E, ps_beq_refl in Hb. discriminate.
    - intros [Hin Hne]. split; [exact Hin|]. rewrite ps_beq_false; [reflexivity|congruence].
  Qed.

  Lemma ps_insub_app_fresh : forall m x n s,
    psr_subs x = [] -> (ps_insub (m ++ [x]) n s <-> ps_insub m n s).
  Proof.
    intros m x n s Hx. unfold ps_insub. rewrite ps_find_app. split.
    - intros (r & E & Hin). destruct (ps_find n m) as [r0|].
      + inversion E; subst. exists r. split; [reflexivity|exact Hin].
      + destruct (ps_beq n (psr_name x)); [|discriminate]. inversion E; subst. rewrite Hx in Hin. contradiction.
    - intros (r & E & Hin). rewrite E. exists r. split; [reflexivity|exact Hin].
  Qed.

  Lemma ps_inv_put : forall name observable pkt m A G,
    ps_inv m A G -> ps_evt_ok (PsEvPut name observable pkt) m ->
    Forall (ps_call_wf (psc_la c) (psc_lt c)) (ps_ev_calls alloc c (PsEvPut name observable pkt) m) /\
    ps_inv (fst (ps_ev_out alloc (PsEvPut name observable pkt) m))
           (ps_abs_calls (ps_ev_calls alloc c (PsEvPut name observable pkt) m) A)
           (ps_ghost (PsEvPut name observable pkt) m G).
  Proof.
    intros name observable pkt m A G Hi (Hnok & Hpk & Happ). unfold ps_ghost.
    cbn [ps_ev_calls ps_ev_out].
    destruct (ps_find name m) as [r0|] eqn:Hf;
      [cbn [fst snd ps_abs_calls]; rewrite app_nil_r; split; [constructor|exact Hi]|].
    cbn [fst snd]. rewrite app_nil_r.
    set (new := mkRsrc name observable PS_OBSERVE0 []).
    set (d := mkDyn (psc_proto c) name pkt).
    set (calls := if observable then [CDynAdded d] else []).
    assert (Hcw : Forall (ps_call_wf (psc_la c) (psc_lt c)) calls).
    { subst calls. destruct observable; [|constructor]. constructor; [|constructor].
      cbn [ps_call_wf]. unfold ps_dyn_wf. cbn [psd_proto psd_name psd_pkt d].
      destruct Hnok as [_ Hl]. unfold PS_LINE, PS_MAX in *. pose proof (len_nonneg name).
      split; [exact cfg_proto|]. split; lia. }
    split; [exact Hcw|].
    assert (HA : ps_abs_wf (psc_la c) (psc_lt c) (ps_abs_calls calls A)).
    { apply (ps_abs_calls_wf (fun _ _ => 0) c); [apply (iv_wf _ _ _ Hi)|exact Hcw]. }
    assert (Hoc : ab_obs (ps_abs_calls calls A) = ab_obs A /\ ab_cnt (ps_abs_calls calls A) = ab_cnt A).
    { subst calls. destruct observable; cbn [ps_abs_calls ps_abs_call ab_obs ab_cnt]; split; reflexivity. }
    destruct Hoc as [Hobsf Hcntf].
    assert (Hiff : forall n s, ps_insub (m ++ [new]) n s <-> ps_insub m n s)
      by (intros; apply ps_insub_app_fresh; reflexivity).
    assert (Hfind : forall n, ps_find n (m ++ [new]) =
                      match ps_find n m with Some r => Some r
                      | None => if ps_beq n name then Some new else None end)
      by (intro n; apply ps_find_app).
    assert (Hkeep : forall n, ps_has m n -> ps_has (m ++ [new]) n).
    { intros n Hn. unfold ps_has in *. rewrite Hfind. destruct (ps_find n m); [discriminate|contradiction]. }
    constructor.
    - apply ps_names_app; [apply (iv_names _ _ _ Hi)|exact Hf].
    - intros n r Hr. rewrite Hfind in Hr. destruct (ps_find n m) as [r1|] eqn:E1.
      + inversion Hr; subst. apply (iv_res _ _ _ Hi n r E1).
      + destruct (ps_beq n name) eqn:En; [|discriminate]. apply ps_beq_eq in En. inversion Hr; subst.
        cbn [psr_observe psr_subs new]. split; [exact Hnok|]. unfold ps_bound, PS_OBSERVE0.
        split; [lia|]. split; [constructor|]. intro X. contradiction.
    - intros n s Hs. apply Hiff in Hs. apply (iv_sub _ _ _ Hi n s Hs).
    - intros n1 s1 n2 s2 H1 H2. apply Hiff in H1. apply Hiff in H2. apply (iv_key _ _ _ Hi); assumption.
    - intros n s1 s2 H1 H2. apply Hiff in H1. apply Hiff in H2. apply (iv_tok _ _ _ Hi n); assumption.
    - intros n s1 s2 H1 H2. apply Hiff in H1. apply Hiff in H2. apply (iv_ck _ _ _ Hi n); assumption.
    - exact HA.
    - intros n r Hr Ho. rewrite Hfind in Hr. destruct (ps_find n m) as [r1|] eqn:E1.
      + inversion Hr; subst. destruct (iv_dyn _ _ _ Hi n r E1 Ho) as [Hs|(d0 & Hd0 & Hn0)]; [left; exact Hs|].
        right. exists d0. split; [|exact Hn0]. subst calls. destruct observable; [|exact Hd0].
        cbn [ps_abs_calls ps_abs_call ab_dyn]. rewrite ps_ol_add by reflexivity. apply in_or_app. left.
        apply ps_dyn_without_in. split; [exact Hd0|]. cbn [psd_name d]. intro E. congruence.
      + destruct (ps_beq n name) eqn:En; [|discriminate]. apply ps_beq_eq in En. inversion Hr; subst.
        cbn [psr_observable new] in Ho. subst observable. right. exists d. split; [|reflexivity].
        cbn [ps_abs_calls ps_abs_call ab_dyn calls]. rewrite ps_ol_add by reflexivity.
        apply in_or_app. right. left. reflexivity.
    - intros d0 Hd0. subst calls. destruct observable; [|apply (iv_dynf _ _ _ Hi d0 Hd0)].
      cbn [ps_abs_calls ps_abs_call ab_dyn] in Hd0. rewrite ps_ol_add in Hd0 by reflexivity.
      apply in_app_or in Hd0. destruct Hd0 as [Hd0|[<-|[]]].
      + apply ps_dyn_without_in in Hd0. apply (iv_dynf _ _ _ Hi d0 (proj1 Hd0)).
      + cbn [psd_pkt psd_name d]. split; assumption.
    - intros n s Hs. rewrite Hobsf. apply Hiff in Hs. apply (iv_obs1 _ _ _ Hi n s Hs).
    - intros rec Hr. rewrite Hobsf in Hr. destruct (iv_obs2 _ _ _ Hi rec Hr) as (n & s & Hs & E).
      exists n, s. split; [apply Hiff; exact Hs|exact E].
    - rewrite Hobsf. apply (iv_obs3 _ _ _ Hi).
    - intros n x Hin. rewrite Hcntf in Hin. apply Hkeep. apply (iv_cnt0 _ _ _ Hi n x Hin).
    - rewrite Hcntf. apply (iv_cnt1 _ _ _ Hi).
    - intros n x r Hin Hr. rewrite Hcntf in Hin. rewrite Hfind in Hr.
      pose proof (iv_cnt0 _ _ _ Hi n x Hin) as Hh. unfold ps_has in Hh.
      destruct (ps_find n m) as [r1|] eqn:E1; [|contradiction]. inversion Hr; subst.
      apply (iv_cnt2 _ _ _ Hi n x r Hin E1).
    - intros n r Hr Hs. rewrite Hcntf. rewrite Hfind in Hr. destruct (ps_find n m) as [r1|] eqn:E1.
      + inversion Hr; subst. apply (iv_cnt3 _ _ _ Hi n r E1 Hs).
      + destruct (ps_beq n name); [|discriminate]. inversion Hr; subst. cbn [psr_subs new] in Hs. contradiction.
    - intros n tu tok v Hin. destruct (iv_sent _ _ _ Hi n tu tok v Hin) as (r & Hr & Hv & Hl).
      exists r. rewrite Hfind, Hr, Hcntf. repeat split; assumption.
  Qed.

  (* ---------------------------------------------------------------- an observer leaves *)
  Lemma ps_obs_without_in : forall key O rec,
    In rec (ps_obs_without key O) <-> In rec O /\ pso_key rec <> key.
  Proof.
    intros key O rec. unfold ps_obs_without. rewrite filter_In. split.
    - intros [Hin Hb]. split; [exact Hin|]. intro E. rewrite E, ps_beq_refl in Hb. discriminate.
    - intros [Hin Hne]. split; [exact Hin|]. rewrite ps_beq_false; [reflexivity|exact Hne].
  Qed.

  Lemma ps_inv_drop : forall name m A G r s,
    ps_inv m A G -> ps_find name m = Some r -> psr_observable r = true -> In s (psr_subs r) ->
    ps_inv (ps_replace (mkRsrc name true (psr_observe r) (ps_drop_key (pss_key s) (psr_subs r))) m)
           (ps_abs_call (CObsDeleted (pss_key s)) A) G.
  Proof.
    intros name m A G r s Hi Hf Hobs Hs.
    destruct (iv_res _ _ _ Hi name r Hf) as (Hnok & Hrange & Hnd & _).
    set (new := mkRsrc name true (psr_observe r) (ps_drop_key (pss_key s) (psr_subs r))).
    assert (Hsin : ps_insub m name s) by (exists r; split; assumption).
    assert (Hiff : forall n s', ps_insub (ps_replace new m) n s' <->
                                ps_insub m n s' /\ pss_key s' <> pss_key s).
    { intros n s'. rewrite (ps_insub_replace new m name r n s' eq_refl Hf). cbn [psr_subs new].
      rewrite (ps_drop_key_in _ _ s' Hnd). split.
      - intros [[-> [Hin Hk]]|[Hne Hin]].
        + split; [exists r; split; assumption|exact Hk].
        + split; [exact Hin|]. intro Ek. destruct (iv_key _ _ _ Hi n s' name s Hin Hsin Ek). contradiction.
      - intros [(r' & Hf' & Hin) Hk]. destruct (ps_bytes_dec n name) as [->|Hne].
        + rewrite Hf in Hf'. inversion Hf'; subst r'. left. repeat split; assumption.
        + right. split; [exact Hne|exists r'; split; assumption]. }
    assert (Hfind : forall n, ps_find n (ps_replace new m) = if ps_beq n name then Some new else ps_find n m)
      by (intro n; apply (ps_find_replace_any new m name r); [reflexivity|exact Hf]).
    assert (Hobsf : ps_ol (ab_obs (ps_abs_call (CObsDeleted (pss_key s)) A)) =
                    ps_obs_without (pss_key s) (ps_ol (ab_obs A))).
    { cbn [ps_abs_call ab_obs]. apply ps_ol_rem. reflexivity. }
    assert (HA : ps_abs_wf (psc_la c) (psc_lt c) (ps_abs_call (CObsDeleted (pss_key s)) A)).
    { apply (ps_abs_call_wf (fun _ _ => 0)); [apply (iv_wf _ _ _ Hi)|exact I]. }
    constructor.
    - rewrite (ps_names_replace new m name eq_refl). apply (iv_names _ _ _ Hi).
    - intros n r' Hf'. rewrite Hfind in Hf'. destruct (ps_beq n name) eqn:En.
      + apply ps_beq_eq in En. inversion Hf'; subst r' n. cbn [psr_observe psr_subs psr_observable new].
        split; [exact Hnok|]. split; [exact Hrange|]. split; [apply ps_drop_key_nodup; exact Hnd|reflexivity].
      + apply (iv_res _ _ _ Hi n r' Hf').
    - intros n s' H'. apply Hiff in H'. apply (iv_sub _ _ _ Hi n s' (proj1 H')).
    - intros n1 s1 n2 s2 H1 H2. apply Hiff in H1. apply Hiff in H2.
      apply (iv_key _ _ _ Hi); [exact (proj1 H1)|exact (proj1 H2)].
    - intros n s1 s2 H1 H2. apply Hiff in H1. apply Hiff in H2.
      apply (iv_tok _ _ _ Hi n); [exact (proj1 H1)|exact (proj1 H2)].
    - intros n s1 s2 H1 H2. apply Hiff in H1. apply Hiff in H2.
      apply (iv_ck _ _ _ Hi n); [exact (proj1 H1)|exact (proj1 H2)].
    - exact HA.
    - intros n r' Hf' Ho'. cbn [ps_abs_call ab_dyn]. rewrite Hfind in Hf'. destruct (ps_beq n name) eqn:En.
      + apply ps_beq_eq in En. subst n. apply (iv_dyn _ _ _ Hi name r Hf Hobs).
      + apply (iv_dyn _ _ _ Hi n r' Hf' Ho').
    - cbn [ps_abs_call ab_dyn]. apply (iv_dynf _ _ _ Hi).
    - intros n s' H'. apply Hiff in H'. destruct H' as [H' Hk]. rewrite Hobsf.
      apply ps_obs_without_in. split; [apply (iv_obs1 _ _ _ Hi n s' H')|exact Hk].
    - intros rec Hr. rewrite Hobsf in Hr. apply ps_obs_without_in in Hr. destruct Hr as [Hr Hk].
      destruct (iv_obs2 _ _ _ Hi rec Hr) as (n & s' & H' & E). exists n, s'.
      split; [|exact E]. apply Hiff. split; [exact H'|]. subst rec. exact Hk.
    - rewrite Hobsf. apply ps_nodup_filter_map. apply (iv_obs3 _ _ _ Hi).
    - intros n x Hin. cbn [ps_abs_call ab_cnt] in Hin. pose proof (iv_cnt0 _ _ _ Hi n x Hin) as Hh.
      unfold ps_has in *. rewrite Hfind. destruct (ps_beq n name); [discriminate|exact Hh].
    - cbn [ps_abs_call ab_cnt]. apply (iv_cnt1 _ _ _ Hi).
    - intros n x r' Hin Hf'. cbn [ps_abs_call ab_cnt] in Hin. rewrite Hfind in Hf'.
      destruct (ps_beq n name) eqn:En.
      + apply ps_beq_eq in En. inversion Hf'; subst r' n. cbn [psr_observe new].
        apply (iv_cnt2 _ _ _ Hi name x r Hin Hf).
      + apply (iv_cnt2 _ _ _ Hi n x r' Hin Hf').
    - intros n r' Hf' Hsub'. cbn [ps_abs_call ab_cnt]. rewrite Hfind in Hf'. destruct (ps_beq n name) eqn:En.
      + apply ps_beq_eq in En. subst n. apply (iv_cnt3 _ _ _ Hi name r Hf).
        intro E. rewrite E in Hs. contradiction.
      + apply (iv_cnt3 _ _ _ Hi n r' Hf' Hsub').
    - intros n tu tok v Hin. destruct (iv_sent _ _ _ Hi n tu tok v Hin) as (r' & Hf' & Hv & Hl).
      cbn [ps_abs_call ab_cnt]. rewrite Hfind. destruct (ps_beq n name) eqn:En.
      + apply ps_beq_eq in En. subst n. rewrite Hf in Hf'. inversion Hf'; subst r'.
        exists new. split; [reflexivity|]. split; [exact Hv|exact Hl].
      + exists r'. repeat split; assumption.
  Qed.

  Lemma ps_inv_cancel : forall name tuple token ck m A G,
    ps_inv m A G ->
    Forall (ps_call_wf (psc_la c) (psc_lt c)) (ps_ev_calls alloc c (PsEvCancel name tuple token ck) m) /\
    ps_inv (fst (ps_ev_out alloc (PsEvCancel name tuple token ck) m))
           (ps_abs_calls (ps_ev_calls alloc c (PsEvCancel name tuple token ck) m) A)
           (ps_ghost (PsEvCancel name tuple token ck) m G).
  Proof.
    intros name tuple token ck m A G Hi. unfold ps_ghost. cbn [ps_ev_calls ps_ev_out].
    destruct (ps_find name m) as [r|] eqn:Hf;
      [|cbn [fst snd ps_abs_calls]; rewrite app_nil_r; split; [constructor|exact Hi]].
    destruct (psr_observable r) eqn:Hobs; cbn [negb];
      [|cbn [fst snd ps_abs_calls]; rewrite app_nil_r; split; [constructor|exact Hi]].
    destruct (ps_cancel_hit tuple token ck r) as [s|] eqn:Hh;
      [|cbn [fst snd ps_abs_calls]; rewrite app_nil_r; split; [constructor|exact Hi]].
    cbn [fst snd ps_abs_calls]. rewrite app_nil_r. split; [constructor; [exact I|constructor]|].
    apply ps_inv_drop; try assumption.
    unfold ps_cancel_hit in Hh. destruct (ps_find_tok tuple token (psr_subs r)) as [s1|] eqn:Et.
    - inversion Hh; subst. apply (ps_find_tok_some _ _ _ _ Et).
    - apply (ps_find_ck_some _ _ _ _ Hh).
  Qed.

  (* ---------------------------------------------------------------- a new observer *)
  Lemma ps_inv_add : forall name m A G r tuple token ck pkt kn,
    ps_inv m A G -> ps_find name m = Some r -> psr_observable r = true ->
    req pkt = Some (name, token, ck) -> len tuple = psc_lt c -> 1 <= len pkt <= PS_MAX ->
    (forall s, In s (psr_subs r) -> ~ (pss_tuple s = tuple /\ pss_token s = token)) ->
    (forall s, In s (psr_subs r) -> ~ (pss_tuple s = tuple /\ pss_ck s = ck)) ->
    len kn = PS_KEY -> (forall n s, ps_insub m n s -> pss_key s <> kn) ->
    let sn := mkSub kn tuple token ck pkt in
    let calls := [CObsAdded (ps_obs_of c sn); CCntTrack name (psr_observe r)] in
    Forall (ps_call_wf (psc_la c) (psc_lt c)) calls /\
    ps_inv (ps_replace (mkRsrc name true (psr_observe r) (sn :: psr_subs r)) m)
           (ps_abs_calls calls A) (G ++ [(name, tuple, token, psr_observe r)]).
  Proof.
    intros name m A G r tuple token ck pkt kn Hi Hf Hobs Hreq Htu Hpk Hnt Hnc Hkl Hfresh sn calls.
    destruct (iv_res _ _ _ Hi name r Hf) as (Hnok & Hrange & Hnd & _).
    set (new := mkRsrc name true (psr_observe r) (sn :: psr_subs r)).
    set (v := psr_observe r).
    assert (Hcw : Forall (ps_call_wf (psc_la c) (psc_lt c)) calls).
    { subst calls. constructor; [|constructor; [|constructor]].
      - cbn [ps_call_wf]. unfold ps_obs_wf, ps_obs_of.
        cbn [pso_key pso_proto pso_listen pso_tuple pso_pkt pso_osc pss_key pss_tuple pss_pkt sn].
        repeat split; try assumption; try lia.
      - apply (ps_track_wf m A G name r Hi Hf). lia. }
    split; [exact Hcw|].
    assert (HA : ps_abs_wf (psc_la c) (psc_lt c) (ps_abs_calls calls A)).
    { apply (ps_abs_calls_wf (fun _ _ => 0) c); [apply (iv_wf _ _ _ Hi)|exact Hcw]. }
    assert (Hiff : forall n s, ps_insub (ps_replace new m) n s <->
                               ps_insub m n s \/ (n = name /\ s = sn)).
    { intros n s. rewrite (ps_insub_replace new m name r n s eq_refl Hf). cbn [psr_subs new In]. split.
      - intros [[-> [<-|Hin]]|[Hne Hin]].
        + right. split; reflexivity.
        + left. exists r. split; assumption.
        + left. exact Hin.
      - intros [(r' & Hf' & Hin)|[-> ->]].
        + destruct (ps_bytes_dec n name) as [->|Hne].
          * rewrite Hf in Hf'. inversion Hf'; subst r'. left. split; [reflexivity|right; exact Hin].
          * right. split; [exact Hne|exists r'; split; assumption].
        + left. split; [reflexivity|left; reflexivity]. }
    assert (Hfind : forall n, ps_find n (ps_replace new m) = if ps_beq n name then Some new else ps_find n m)
      by (intro n; apply (ps_find_replace_any new m name r); [reflexivity|exact Hf]).
    (* the files *)
    assert (Hnokey : forall rec, In rec (ps_ol (ab_obs A)) -> pso_key rec <> kn).
    { intros rec Hr. destruct (iv_obs2 _ _ _ Hi rec Hr) as (n & s & Hs & ->). cbn [ps_obs_of pso_key].
      apply (Hfresh n s Hs). }
    assert (Hobsf : ps_ol (ab_obs (ps_abs_calls calls A)) = ps_ol (ab_obs A) ++ [ps_obs_of c sn]).
    { subst calls. cbn [ps_abs_calls ps_abs_call ab_obs]. rewrite ps_ol_add by reflexivity. f_equal.
      apply ps_filter_id. intros rec Hr. cbn [ps_obs_of pso_key pss_key sn].
      rewrite ps_beq_false; [reflexivity|apply Hnokey; exact Hr]. }
    assert (Hcntf : ps_ol (ab_cnt (ps_abs_calls calls A)) =
                    ps_cnt_without name (ps_ol (ab_cnt A)) ++ [(name, v)]).
    { subst calls. cbn [ps_abs_calls ps_abs_call ab_cnt]. apply ps_ol_add. reflexivity. }
    assert (Hdynf : ab_dyn (ps_abs_calls calls A) = ab_dyn A) by reflexivity.
    assert (Hc3 : forall n, (exists x, In (n, x) (ps_ol (ab_cnt A))) ->
                    exists x, In (n, x) (ps_ol (ab_cnt (ps_abs_calls calls A)))).
    { intros n [x Hin]. rewrite Hcntf. destruct (ps_bytes_dec n name) as [->|Hne].
      - exists v. apply ps_cnt_set_in. right. split; reflexivity.
      - exists x. apply ps_cnt_set_in. left. split; assumption. }
    assert (Hlinev : In (name, v) (ps_ol (ab_cnt (ps_abs_calls calls A)))).
    { rewrite Hcntf. apply ps_cnt_set_in. right. split; reflexivity. }
    constructor.
    - rewrite (ps_names_replace new m name eq_refl). apply (iv_names _ _ _ Hi).
    - intros n r' Hf'. rewrite Hfind in Hf'. destruct (ps_beq n name) eqn:En.
      + apply ps_beq_eq in En. inversion Hf'; subst r' n. cbn [psr_observe psr_subs psr_observable new].
        split; [exact Hnok|]. split; [exact Hrange|]. split; [|reflexivity].
        cbn [map pss_key sn]. constructor; [|exact Hnd].
        intro Hin. apply in_map_iff in Hin. destruct Hin as (s & Ek & Hs).
        apply (Hfresh name s); [exists r; split; assumption|exact Ek].
      + apply (iv_res _ _ _ Hi n r' Hf').
    - intros n s Hs. apply Hiff in Hs. destruct Hs as [Hs|[-> ->]]; [apply (iv_sub _ _ _ Hi n s Hs)|].
      cbn [pss_pkt pss_token pss_ck pss_key pss_tuple sn]. repeat split; try assumption; lia.
    - intros n1 s1 n2 s2 H1 H2 Ek. apply Hiff in H1. apply Hiff in H2.
      destruct H1 as [H1|[-> ->]]; destruct H2 as [H2|[-> ->]].
      + apply (iv_key _ _ _ Hi); assumption.
      + exfalso. apply (Hfresh n1 s1 H1). exact Ek.
      + exfalso. apply (Hfresh n2 s2 H2). symmetry. exact Ek.
      + split; reflexivity.
    - intros n s1 s2 H1 H2 Et Ek. apply Hiff in H1. apply Hiff in H2.
      destruct H1 as [H1|[-> ->]]; destruct H2 as [H2|[E2 ->]].
      + apply (iv_tok _ _ _ Hi n); assumption.
      + subst n. destruct H1 as (r' & Hf' & Hin). rewrite Hf in Hf'. inversion Hf'; subst r'.
        exfalso. apply (Hnt s1 Hin). split; assumption.
      + destruct H2 as (r' & Hf' & Hin). rewrite Hf in Hf'. inversion Hf'; subst r'.
        exfalso. apply (Hnt s2 Hin). split; symmetry; assumption.
      + reflexivity.
    - intros n s1 s2 H1 H2 Et Ek. apply Hiff in H1. apply Hiff in H2.
      destruct H1 as [H1|[-> ->]]; destruct H2 as [H2|[E2 ->]].
      + apply (iv_ck _ _ _ Hi n); assumption.
      + subst n. destruct H1 as (r' & Hf' & Hin). rewrite Hf in Hf'. inversion Hf'; subst r'.
        exfalso. apply (Hnc s1 Hin). split; assumption.
      + destruct H2 as (r' & Hf' & Hin). rewrite Hf in Hf'. inversion Hf'; subst r'.
        exfalso. apply (Hnc s2 Hin). split; symmetry; assumption.
      + reflexivity.
    - exact HA.
    - intros n r' Hf' Ho'. rewrite Hdynf. rewrite Hfind in Hf'. destruct (ps_beq n name) eqn:En.
      + apply ps_beq_eq in En. subst n. apply (iv_dyn _ _ _ Hi name r Hf Hobs).
      + apply (iv_dyn _ _ _ Hi n r' Hf' Ho').
    - rewrite Hdynf. apply (iv_dynf _ _ _ Hi).
    - intros n s Hs. rewrite Hobsf. apply in_or_app. apply Hiff in Hs.
      destruct Hs as [Hs|[-> ->]]; [left; apply (iv_obs1 _ _ _ Hi n s Hs)|right; left; reflexivity].
    - intros rec Hr. rewrite Hobsf in Hr. apply in_app_or in Hr. destruct Hr as [Hr|[<-|[]]].
      + destruct (iv_obs2 _ _ _ Hi rec Hr) as (n & s & Hs & E). exists n, s.
        split; [apply Hiff; left; exact Hs|exact E].
      + exists name, sn. split; [apply Hiff; right; split; reflexivity|reflexivity].
    - rewrite Hobsf, map_app. cbn [map ps_obs_of pso_key pss_key sn].
      pose proof (iv_obs3 _ _ _ Hi) as H3.
      assert (Hni : ~ In kn (map pso_key (ps_ol (ab_obs A)))).
      { intro Hin. apply in_map_iff in Hin. destruct Hin as (rec & Ek & Hr). exact (Hnokey rec Hr Ek). }
      clear -H3 Hni. induction (map pso_key (ps_ol (ab_obs A))) as [|y l IH]; cbn [List.app].
      + constructor; [intros []|constructor].
      + inversion H3 as [|? ? Hy Hl]; subst. constructor.
        * intro Hin. apply in_app_or in Hin. destruct Hin as [Hin|[E|[]]]; [contradiction|].
          apply Hni. left. symmetry. exact E.
        * apply IH; [exact Hl|]. intro Hin. apply Hni. right. exact Hin.
    - intros n x Hin. rewrite Hcntf in Hin. apply ps_cnt_set_in in Hin. unfold ps_has. rewrite Hfind.
      destruct Hin as [[Hne Hold]|[-> _]].
      + rewrite (ps_beq_false n name Hne). apply (iv_cnt0 _ _ _ Hi n x Hold).
      + rewrite ps_beq_refl. discriminate.
    - rewrite Hcntf. apply ps_cnt_set_nodup. apply (iv_cnt1 _ _ _ Hi).
    - intros n x r' Hin Hf'. rewrite Hcntf in Hin. apply ps_cnt_set_in in Hin. rewrite Hfind in Hf'.
      destruct Hin as [[Hne Hold]|[-> ->]].
      + rewrite (ps_beq_false n name Hne) in Hf'. apply (iv_cnt2 _ _ _ Hi n x r' Hold Hf').
      + rewrite ps_beq_refl in Hf'. inversion Hf'; subst r'. cbn [psr_observe new]. fold v.
        pose proof (ps_rnd_ge (psc_freq c) freq_pos v). subst v. lia.
    - intros n r' Hf' Hsub'. rewrite Hfind in Hf'. destruct (ps_beq n name) eqn:En.
      + apply ps_beq_eq in En. subst n. exists v. exact Hlinev.
      + apply Hc3. apply (iv_cnt3 _ _ _ Hi n r' Hf' Hsub').
    - intros n tu tok v0 Hin. apply in_app_or in Hin. destruct Hin as [Hin|[E|[]]].
      + destruct (iv_sent _ _ _ Hi n tu tok v0 Hin) as (r' & Hf' & Hv & Hl).
        rewrite Hfind. destruct (ps_beq n name) eqn:En.
        * apply ps_beq_eq in En. subst n. rewrite Hf in Hf'. inversion Hf'; subst r'.
          exists new. split; [reflexivity|]. split; [exact Hv|apply Hc3; exact Hl].
        * exists r'. split; [exact Hf'|]. split; [exact Hv|apply Hc3; exact Hl].
      + inversion E; subst n tu tok v0. rewrite Hfind, ps_beq_refl. exists new.
        split; [reflexivity|]. split; [cbn [psr_observe new]; lia|exists v; exact Hlinev].
  Qed.

  (* ---------------------------------------------------------------- register *)
  Lemma ps_replace_replace : forall a b m,
    psr_name a = psr_name b -> ps_replace a (ps_replace b m) = ps_replace a m.
  Proof.
    intros a b m Hn. induction m as [|x m IH]; [reflexivity|]. cbn [ps_replace].
    destruct (ps_beq (psr_name b) (psr_name x)) eqn:Eb.
    - cbn [ps_replace]. rewrite Hn, ps_beq_refl, Eb. reflexivity.
    - cbn [ps_replace]. rewrite Hn, Eb. f_equal. exact IH.
  Qed.

  Lemma ps_inv_reg : forall name tuple token ck pkt m A G,
    ps_inv m A G -> ps_evt_ok (PsEvReg name tuple token ck pkt) m ->
    Forall (ps_call_wf (psc_la c) (psc_lt c)) (ps_ev_calls alloc c (PsEvReg name tuple token ck pkt) m) /\
    ps_inv (fst (ps_ev_out alloc (PsEvReg name tuple token ck pkt) m))
           (ps_abs_calls (ps_ev_calls alloc c (PsEvReg name tuple token ck pkt) m) A)
           (ps_ghost (PsEvReg name tuple token ck pkt) m G).
  Proof.
    intros name tuple token ck pkt m A G Hi (Hreq & Htu & Hpk). unfold ps_ghost.
    cbn [ps_ev_calls ps_ev_out].
    destruct (ps_find name m) as [r|] eqn:Hf;
      [|cbn [fst snd ps_abs_calls]; rewrite app_nil_r; split; [constructor|exact Hi]].
    destruct (psr_observable r) eqn:Hobs; cbn [negb];
      [|cbn [fst snd ps_abs_calls]; rewrite app_nil_r; split; [constructor|exact Hi]].
    destruct (iv_res _ _ _ Hi name r Hf) as (Hnok & Hrange & Hnd & _).
    destruct (ps_find_tok tuple token (psr_subs r)) as [s0|] eqn:Et.
    - (* the same observer again: only the response *)
      cbn [fst snd ps_abs_calls]. split; [constructor|].
      destruct (ps_find_tok_some _ _ _ _ Et) as (Hs0 & _).
      pose proof (iv_cnt3 _ _ _ Hi name r Hf) as Hline.
      destruct Hi. constructor; try assumption.
      intros n tu tok v Hin. apply in_app_or in Hin. destruct Hin as [Hin|[E|[]]].
      + apply (iv_sent0 n tu tok v). exact Hin.
      + inversion E; subst n tu tok v. exists r. split; [exact Hf|]. split; [lia|].
        apply Hline. intro X. rewrite X in Hs0. contradiction.
    - cbn [fst snd].
      pose proof (ps_find_tok_none_inv _ _ _ Et) as Hnt.
      set (m1 := ps_replace (mkRsrc name true (psr_observe r) (ps_reg_subs1 tuple ck r)) m).
      assert (Hkn : len (alloc (ps_live m1)) = PS_KEY) by apply alloc_len.
      unfold ps_reg_new. fold m1.
      destruct (ps_find_ck tuple ck (psr_subs r)) as [o|] eqn:Ec.
      + (* an observer with the same cache key is replaced *)
        destruct (ps_find_ck_some _ _ _ _ Ec) as (Ho & Hotu & Hock).
        assert (Es1 : ps_reg_subs1 tuple ck r = ps_drop_key (pss_key o) (psr_subs r))
          by (unfold ps_reg_subs1; rewrite Ec; reflexivity).
        pose proof (ps_inv_drop name m A G r o Hi Hf Hobs Ho) as Hmid.
        rewrite <- Es1 in Hmid. fold m1 in Hmid.
        set (rmid := mkRsrc name true (psr_observe r) (ps_reg_subs1 tuple ck r)).
        assert (Hfm : ps_find name m1 = Some rmid)
          by (apply (ps_find_replace_same rmid m name r); [reflexivity|exact Hf]).
        destruct (ps_inv_add name m1 _ G rmid tuple token ck pkt (alloc (ps_live m1)) Hmid Hfm eq_refl
                             Hreq Htu Hpk) as [Hcw Hfin]; try assumption.
        * cbn [psr_subs rmid]. rewrite Es1. intros s Hs. apply (ps_drop_key_in _ _ s Hnd) in Hs.
          apply Hnt. exact (proj1 Hs).
        * cbn [psr_subs rmid]. rewrite Es1. intros s Hs [E1 E2]. apply (ps_drop_key_in _ _ s Hnd) in Hs.
          destruct Hs as [Hs Hk]. apply Hk. f_equal.
          apply (iv_ck _ _ _ Hi name s o); [exists r; split; assumption|exists r; split; assumption| |];
            congruence.
        * intros n s Hs Ek. apply (alloc_fresh (ps_live m1)). rewrite <- Ek.
          apply (ps_insub_live m1 n s Hs).
        * cbn [psr_observe psr_subs rmid] in Hcw, Hfin. cbn [List.app ps_abs_calls].
          unfold m1 in Hfin. rewrite ps_replace_replace in Hfin by reflexivity. fold m1 in Hfin.
          split; [constructor; [exact I|exact Hcw]|exact Hfin].
      + (* a new observer *)
        assert (Es1 : ps_reg_subs1 tuple ck r = psr_subs r) by (unfold ps_reg_subs1; rewrite Ec; reflexivity).
        pose proof (ps_find_ck_none_inv _ _ _ Ec) as Hnc.
        destruct (ps_inv_add name m A G r tuple token ck pkt (alloc (ps_live m1)) Hi Hf Hobs
                             Hreq Htu Hpk Hnt Hnc Hkn) as [Hcw Hfin].
        * intros n s Hs Ek. apply (alloc_fresh (ps_live m1)). rewrite <- Ek.
          apply (ps_insub_live m1 n s).
          unfold m1.
          apply (ps_insub_same_subs (mkRsrc name true (psr_observe r) (ps_reg_subs1 tuple ck r)) m name r n s
                                    eq_refl Hf); [exact Es1|exact Hs].
        * cbn [List.app]. rewrite Es1. split; [exact Hcw|exact Hfin].
  Qed.

  (* ---------------------------------------------------------------- delete *)
  Lemma ps_abs_calls_app : forall l1 l2 A, ps_abs_calls (l1 ++ l2) A = ps_abs_calls l2 (ps_abs_calls l1 A).
  Proof. induction l1 as [|x l1 IH]; intros l2 A; cbn [List.app ps_abs_calls]; [reflexivity|apply IH]. Qed.

  Lemma ps_abs_obs_deletes : forall l A,
    let A' := ps_abs_calls (map (fun s => CObsDeleted (pss_key s)) l) A in
    ab_dyn A' = ab_dyn A /\ ab_cnt A' = ab_cnt A /\
    (forall rec, In rec (ps_ol (ab_obs A')) <->
                 In rec (ps_ol (ab_obs A)) /\ forall s, In s l -> pso_key rec <> pss_key s) /\
    (NoDup (map pso_key (ps_ol (ab_obs A))) -> NoDup (map pso_key (ps_ol (ab_obs A')))).
  Proof.
    induction l as [|s l IH]; intro A; cbn [map ps_abs_calls].
    - split; [reflexivity|]. split; [reflexivity|]. split; [|tauto].
      intro rec. split; [intro H; split; [exact H|intros s []]|tauto].
    - specialize (IH (ps_abs_call (CObsDeleted (pss_key s)) A)). cbn zeta in IH.
      destruct IH as (I1 & I2 & I3 & I4). cbn [ps_abs_call ab_dyn ab_cnt ab_obs] in *.
      split; [exact I1|]. split; [exact I2|]. split.
      + intro rec. rewrite I3. rewrite ps_ol_rem by reflexivity. rewrite ps_obs_without_in. split.
        * intros [[H1 H2] H3]. split; [exact H1|]. intros s' [<-|Hs']; [exact H2|apply H3; exact Hs'].
        * intros [H1 H2]. split; [split; [exact H1|apply H2; left; reflexivity]|].
          intros s' Hs'. apply H2. right. exact Hs'.
      + intro Hnd. apply I4. rewrite ps_ol_rem by reflexivity. apply ps_nodup_filter_map. exact Hnd.
  Qed.

  (* the observe-record removals touch another file than the two last renames of a DELETE *)
  Lemma ps_abs_obs_deletes_swap : forall name l A,
    ps_abs_calls (map (fun s => CObsDeleted (pss_key s)) l ++ [CDynDeleted name; CCntDeleted name]) A =
    ps_abs_calls (map (fun s => CObsDeleted (pss_key s)) l)
                 (ps_abs_calls [CDynDeleted name; CCntDeleted name] A).
  Proof.
    intros name. induction l as [|s l IH]; intro A; cbn [map List.app]; [reflexivity|].
    change (ps_abs_calls (CObsDeleted (pss_key s) ::
              map (fun s0 => CObsDeleted (pss_key s0)) l ++ [CDynDeleted name; CCntDeleted name]) A)
      with (ps_abs_calls (map (fun s0 => CObsDeleted (pss_key s0)) l ++ [CDynDeleted name; CCntDeleted name])
              (ps_abs_call (CObsDeleted (pss_key s)) A)).
    rewrite IH. reflexivity.
  Qed.

  Lemma ps_insub_remove : forall name m n s,
    NoDup (map psr_name m) -> (ps_insub (ps_remove name m) n s <-> n <> name /\ ps_insub m n s).
  Proof.
    intros name m n s Hnd. unfold ps_insub. destruct (ps_bytes_dec n name) as [->|Hne].
    - rewrite (ps_find_remove_same name m Hnd). split; [intros (r & E & _); discriminate|intros [X _]; congruence].
    - rewrite (ps_find_remove_other name m n Hne). split; [intro H; split; assumption|intros [_ H]; exact H].
  Qed.

  Lemma ps_inv_del : forall name m A G,
    ps_inv m A G -> ps_evt_ok (PsEvDel name) m ->
    Forall (ps_call_wf (psc_la c) (psc_lt c)) (ps_ev_calls alloc c (PsEvDel name) m) /\
    ps_inv (fst (ps_ev_out alloc (PsEvDel name) m))
           (ps_abs_calls (ps_ev_calls alloc c (PsEvDel name) m) A)
           (ps_ghost (PsEvDel name) m G).
  Proof.
    intros name m A G Hi Hok. unfold ps_ghost. cbn [ps_ev_calls ps_ev_out ps_evt_ok] in *.
    destruct (ps_find name m) as [r|] eqn:Hf; [|cbn [fst ps_abs_calls]; split; [constructor|exact Hi]].
    cbn [fst]. specialize (Hok r eq_refl).
    destruct (iv_res _ _ _ Hi name r Hf) as (Hnok & Hrange & Hnd & _).
    pose proof (iv_names _ _ _ Hi) as Hnames.
    set (pre := if ps_del_bump r && (ps_del_value r mod psc_freq c =? 0)
                then [CCntTrack name (ps_del_value r)] else []).
    set (dels := map (fun s => CObsDeleted (pss_key s)) (psr_subs r)).
    assert (Hval : 0 <= ps_del_value r <= ps_bound).
    { unfold ps_del_value. destruct (ps_del_bump r); [|exact Hrange].
      rewrite ps_next_observe_ok by lia. lia. }
    assert (Hcw : Forall (ps_call_wf (psc_la c) (psc_lt c))
                    (pre ++ dels ++ [CDynDeleted name; CCntDeleted name])).
    { apply Forall_app. split.
      - subst pre. destruct (ps_del_bump r && (ps_del_value r mod psc_freq c =? 0)); [|constructor].
        constructor; [|constructor]. apply (ps_track_wf m A G name r Hi Hf). exact Hval.
      - apply Forall_app. split; [|constructor; [exact I|]; constructor; [exact I|constructor]]. subst dels.
        apply Forall_forall. intros x Hx. apply in_map_iff in Hx. destruct Hx as (s & <- & _). exact I. }
    split; [exact Hcw|].
    assert (HA : ps_abs_wf (psc_la c) (psc_lt c)
                   (ps_abs_calls (pre ++ dels ++ [CDynDeleted name; CCntDeleted name]) A)).
    { apply (ps_abs_calls_wf (fun _ _ => 0) c); [apply (iv_wf _ _ _ Hi)|exact Hcw]. }
    (* the files after the counter / dynamic-resource part (another file than the observe records) *)
    set (A1 := ps_abs_calls (pre ++ [CDynDeleted name; CCntDeleted name]) A).
    assert (EA : ps_abs_calls (pre ++ dels ++ [CDynDeleted name; CCntDeleted name]) A = ps_abs_calls dels A1).
    { subst A1 dels. rewrite !ps_abs_calls_app. rewrite <- ps_abs_calls_app. apply ps_abs_obs_deletes_swap. }
    assert (H1o : ab_obs A1 = ab_obs A).
    { subst A1 pre. destruct (ps_del_bump r && (ps_del_value r mod psc_freq c =? 0)); reflexivity. }
    assert (H1d : ps_ol (ab_dyn A1) = ps_dyn_without name (ps_ol (ab_dyn A))).
    { subst A1 pre. destruct (ps_del_bump r && (ps_del_value r mod psc_freq c =? 0));
        cbn [List.app ps_abs_calls ps_abs_call ab_dyn]; apply ps_ol_rem; reflexivity. }
    assert (H1c : forall n x, In (n, x) (ps_ol (ab_cnt A1)) <-> n <> name /\ In (n, x) (ps_ol (ab_cnt A))).
    { intros n x. subst A1 pre. destruct (ps_del_bump r && (ps_del_value r mod psc_freq c =? 0));
        cbn [List.app ps_abs_calls ps_abs_call ab_cnt]; rewrite ps_ol_rem by reflexivity;
        rewrite ps_cnt_without_in.
      - rewrite ps_ol_add by reflexivity. rewrite ps_cnt_set_in. split.
        + intros [Hne [[_ H]|[E _]]]; [split; assumption|contradiction].
        + intros [Hne H]. split; [exact Hne|left; split; assumption].
      - tauto. }
    assert (H1n : NoDup (map fst (ps_ol (ab_cnt A1)))).
    { subst A1 pre. destruct (ps_del_bump r && (ps_del_value r mod psc_freq c =? 0));
        cbn [List.app ps_abs_calls ps_abs_call ab_cnt]; rewrite ps_ol_rem by reflexivity;
        apply ps_nodup_filter_map.
      - rewrite ps_ol_add by reflexivity. apply ps_cnt_set_nodup. apply (iv_cnt1 _ _ _ Hi).
      - apply (iv_cnt1 _ _ _ Hi). }
    destruct (ps_abs_obs_deletes (psr_subs r) A1) as (F1 & F2 & F3 & F4). fold dels in F1, F2, F3, F4.
    rewrite EA in *.
    assert (Hiff : forall n s, ps_insub (ps_remove name m) n s <-> n <> name /\ ps_insub m n s)
      by (intros; apply ps_insub_remove; exact Hnames).
    assert (Hfo : forall n, n <> name -> ps_find n (ps_remove name m) = ps_find n m)
      by (intros; apply ps_find_remove_other; assumption).
    assert (Hfs : ps_find name (ps_remove name m) = None) by (apply ps_find_remove_same; exact Hnames).
    assert (Hne_of : forall n r', ps_find n (ps_remove name m) = Some r' -> n <> name)
      by (intros n r' E X; subst n; rewrite Hfs in E; discriminate).
    constructor.
    - apply ps_names_remove. exact Hnames.
    - intros n r' Hf'. pose proof (Hne_of n r' Hf') as Hne. rewrite (Hfo n Hne) in Hf'.
      apply (iv_res _ _ _ Hi n r' Hf').
    - intros n s Hs. apply Hiff in Hs. apply (iv_sub _ _ _ Hi n s (proj2 Hs)).
    - intros n1 s1 n2 s2 H1 H2. apply Hiff in H1. apply Hiff in H2.
      apply (iv_key _ _ _ Hi); [exact (proj2 H1)|exact (proj2 H2)].
    - intros n s1 s2 H1 H2. apply Hiff in H1. apply Hiff in H2.
      apply (iv_tok _ _ _ Hi n); [exact (proj2 H1)|exact (proj2 H2)].
    - intros n s1 s2 H1 H2. apply Hiff in H1. apply Hiff in H2.
      apply (iv_ck _ _ _ Hi n); [exact (proj2 H1)|exact (proj2 H2)].
    - exact HA.
    - intros n r' Hf' Ho'. pose proof (Hne_of n r' Hf') as Hne. rewrite (Hfo n Hne) in Hf'.
      destruct (iv_dyn _ _ _ Hi n r' Hf' Ho') as [Hs|(d & Hd & Hdn)]; [left; exact Hs|right].
      exists d. split; [|exact Hdn]. rewrite F1, H1d. apply ps_dyn_without_in. split; [exact Hd|congruence].
    - intros d Hd. rewrite F1, H1d in Hd. apply ps_dyn_without_in in Hd. apply (iv_dynf _ _ _ Hi d (proj1 Hd)).
    - intros n s Hs. apply Hiff in Hs. destruct Hs as [Hne Hs]. apply F3. rewrite H1o.
      split; [apply (iv_obs1 _ _ _ Hi n s Hs)|].
      intros s' Hs' Ek. cbn [ps_obs_of pso_key] in Ek.
      destruct (iv_key _ _ _ Hi n s name s' Hs) as [X _]; [exists r; split; assumption|exact Ek|contradiction].
    - intros rec Hr. apply F3 in Hr. rewrite H1o in Hr. destruct Hr as [Hr Hk].
      destruct (iv_obs2 _ _ _ Hi rec Hr) as (n & s & Hs & E). exists n, s. split; [|exact E].
      apply Hiff. split; [|exact Hs]. intro X. subst n. destruct Hs as (r' & Hf' & Hin).
      rewrite Hf in Hf'. inversion Hf'; subst r'. apply (Hk s Hin). subst rec. reflexivity.
    - apply F4. rewrite H1o. apply (iv_obs3 _ _ _ Hi).
    - intros n x Hin. rewrite F2 in Hin. apply H1c in Hin. destruct Hin as [Hne Hin].
      pose proof (iv_cnt0 _ _ _ Hi n x Hin) as Hh. unfold ps_has in *. rewrite (Hfo n Hne). exact Hh.
    - rewrite F2. exact H1n.
    - intros n x r' Hin Hf'. rewrite F2 in Hin. apply H1c in Hin. destruct Hin as [Hne Hin].
      rewrite (Hfo n Hne) in Hf'. apply (iv_cnt2 _ _ _ Hi n x r' Hin Hf').
    - intros n r' Hf' Hsub'. pose proof (Hne_of n r' Hf') as Hne. rewrite (Hfo n Hne) in Hf'.
      destruct (iv_cnt3 _ _ _ Hi n r' Hf' Hsub') as [x Hx]. exists x. rewrite F2. apply H1c. split; assumption.
    - intros n tu tok v Hin. apply filter_In in Hin. destruct Hin as [Hin Hb]. cbn [fst] in Hb.
      assert (Hne : n <> name) by (intro X; subst n; rewrite ps_beq_refl in Hb; discriminate).
      destruct (iv_sent _ _ _ Hi n tu tok v Hin) as (r' & Hf' & Hv & x & Hx).
      exists r'. rewrite (Hfo n Hne). split; [exact Hf'|]. split; [exact Hv|].
      exists x. rewrite F2. apply H1c. split; assumption.
  Qed.

  (* every event preserves the invariant *)
  Theorem ps_inv_event : forall e m A G,
    ps_inv m A G -> ps_evt_ok e m ->
    Forall (ps_call_wf (psc_la c) (psc_lt c)) (ps_ev_calls alloc c e m) /\
    ps_inv (fst (ps_ev_out alloc e m)) (ps_abs_calls (ps_ev_calls alloc c e m) A) (ps_ghost e m G).
  Proof.
    intros e m A G Hi Hok. destruct e.
    - apply ps_inv_put; assumption.
    - apply ps_inv_del; assumption.
    - apply ps_inv_reg; assumption.
    - apply ps_inv_cancel; assumption.
    - apply ps_inv_notify; assumption.
    - contradiction.
  Qed.
End Coh.

(* C17 - concrete witnesses (computed inside the kernel): the dynamic-resource updater as it was
   (fopen "a", then reading), and non-vacuity examples for the positive theorems. *)
From LibcoapV Require Import Base.Tactics Base.Bytes Persist.Fs Persist.Records Persist.Updaters.
Local Open Scope Z_scope.

Definition ps_w_proto : bytes := [1; 0; 0; 0].
Definition ps_w_a : ps_dyn := mkDyn ps_w_proto [97] [64; 3; 0; 1; 177; 97].        (* PUT /a *)
Definition ps_w_b : ps_dyn := mkDyn ps_w_proto [98] [64; 3; 0; 2; 177; 98].        (* PUT /b *)

Definition ps_w_two (added : nat -> ps_dyn -> ps_prog Z) : option bytes :=
  let s1 := snd (ps_run ps_pol_lazy (added 100%nat ps_w_a) (ps_boot [])) in
  let s2 := snd (ps_run ps_pol_lazy (added 100%nat ps_w_b) (ps_crash s1)) in
  ps_view s2 PS_DYN.

(* two additions with the old updater: the file holds only the second record *)
Lemma ps_dyn_added_old_loses :
  ps_w_two ps_dyn_added_old = Some (ps_dyn_file [ps_w_b]) /\
  ps_dyn_all 10 (ps_dyn_file [ps_w_b]) = [ps_w_b].
Proof. split; vm_compute; reflexivity. Qed.

(* ... with the repaired one: both *)
Lemma ps_dyn_added_keeps :
  ps_w_two ps_dyn_added = Some (ps_dyn_file [ps_w_a; ps_w_b]).
Proof. vm_compute. reflexivity. Qed.

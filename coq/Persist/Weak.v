(* C17 - the part of the coherence invariant a restart needs (ps_invw: forward inclusion of the
   memory state in the files + facts about the files themselves), the restart theorem from it,
   and ps_inv -> ps_invw.  ps_invw also holds in the middle of an event (MidEvent.v). *)
From LibcoapV Require Import Base.Tactics Base.Bytes Base.BytesProofs Persist.Fs Persist.FsProofs
  Persist.Records Persist.RecordsProofs Persist.Updaters Persist.UpdatersProofs Persist.History
  Persist.LoadersProofs Persist.Server Persist.Restore Persist.MemLemmas Persist.EventCalls
  Persist.Counter Persist.Coherence Persist.RestoreCoh.
Local Open Scope Z_scope.

Section Weak.
  Variable pol : Z -> Z -> Z.
  Variable app : bytes -> option (bytes * bool).
  Variable req : bytes -> option (bytes * bytes * bytes).
  Variable alloc : list bytes -> bytes.
  Variable c : ps_cfg.
  Variable m0 : ps_mem.
  Hypothesis alloc_len : forall live, len (alloc live) = PS_KEY.
  Hypothesis freq_pos : 0 < psc_freq c.
  Hypothesis freq_small : psc_freq c < 1000000.

  Record ps_invw (m : ps_mem) (A : ps_abs) (G : list ps_send) : Prop := mkInvw {
    iw_wf : ps_abs_wf (psc_la c) (psc_lt c) A;
    iw_dynf : forall d, In d (ps_ol (ab_dyn A)) ->
                app (psd_pkt d) = Some (psd_name d, true) /\ ps_name_ok (psd_name d);
    iw_dyn : forall n r, ps_find n m = Some r -> psr_observable r = true ->
               ps_has m0 n \/ exists d, In d (ps_ol (ab_dyn A)) /\ psd_name d = n;
    iw_sub : forall n s, ps_insub m n s ->
               req (pss_pkt s) = Some (n, pss_token s, pss_ck s) /\
               exists r, ps_find n m = Some r /\ psr_observable r = true;
    iw_obs1 : forall n s, ps_insub m n s -> In (ps_obs_of c s) (ps_ol (ab_obs A));
    iw_obsok : forall rec, In rec (ps_ol (ab_obs A)) ->
               pso_proto rec = psc_proto c /\ pso_listen rec = psc_listen c /\
               exists n t k, req (pso_pkt rec) = Some (n, t, k);
    iw_ktok : NoDup (map (ps_ktok req) (ps_ol (ab_obs A)));
    iw_kck : NoDup (map (ps_kck req) (ps_ol (ab_obs A)));
    iw_cnt1 : NoDup (map fst (ps_ol (ab_cnt A)));
    iw_sent : forall n tu tok v, In (n, tu, tok, v) G ->
               exists x, In (n, x) (ps_ol (ab_cnt A)) /\ 0 <= x <= ps_bound c /\
                         v <= ps_rnd (psc_freq c) x
  }.

  Lemma ps_inv_invw : forall m A G, ps_inv app req c m0 m A G -> ps_invw m A G.
  Proof.
    intros m A G Hi. constructor.
    - apply (iv_wf _ _ _ _ _ _ _ Hi).
    - apply (iv_dynf _ _ _ _ _ _ _ Hi).
    - apply (iv_dyn _ _ _ _ _ _ _ Hi).
    - intros n s Hs. destruct (iv_sub _ _ _ _ _ _ _ Hi n s Hs) as (Hreq & _). split; [exact Hreq|].
      destruct Hs as (r & Hf & Hin). exists r. split; [exact Hf|].
      destruct (iv_res _ _ _ _ _ _ _ Hi n r Hf) as (_ & _ & _ & Hob). apply Hob.
      intro X. rewrite X in Hin. contradiction.
    - apply (iv_obs1 _ _ _ _ _ _ _ Hi).
    - intros rec Hr. destruct (iv_obs2 _ _ _ _ _ _ _ Hi rec Hr) as (n & s & Hs & ->).
      cbn [ps_obs_of pso_proto pso_listen pso_pkt]. split; [reflexivity|]. split; [reflexivity|].
      destruct (iv_sub _ _ _ _ _ _ _ Hi n s Hs) as (Hreq & _). eexists _, _, _. exact Hreq.
    - apply (ps_nodup_map_transfer _ _ _ (ps_ktok req) pso_key _ (iv_obs3 _ _ _ _ _ _ _ Hi)).
      intros a b Ha Hb E.
      destruct (iv_obs2 _ _ _ _ _ _ _ Hi a Ha) as (n1 & s1 & H1 & ->).
      destruct (iv_obs2 _ _ _ _ _ _ _ Hi b Hb) as (n2 & s2 & H2 & ->).
      destruct (iv_sub _ _ _ _ _ _ _ Hi n1 s1 H1) as (R1 & _).
      destruct (iv_sub _ _ _ _ _ _ _ Hi n2 s2 H2) as (R2 & _).
      unfold ps_ktok in E. cbn [ps_obs_of pso_pkt pso_tuple] in E. rewrite R1, R2 in E.
      inversion E; subst n2. cbn [ps_obs_of pso_key]. f_equal.
      apply (iv_tok _ _ _ _ _ _ _ Hi n1 s1 s2 H1 H2); assumption.
    - apply (ps_nodup_map_transfer _ _ _ (ps_kck req) pso_key _ (iv_obs3 _ _ _ _ _ _ _ Hi)).
      intros a b Ha Hb E.
      destruct (iv_obs2 _ _ _ _ _ _ _ Hi a Ha) as (n1 & s1 & H1 & ->).
      destruct (iv_obs2 _ _ _ _ _ _ _ Hi b Hb) as (n2 & s2 & H2 & ->).
      destruct (iv_sub _ _ _ _ _ _ _ Hi n1 s1 H1) as (R1 & _).
      destruct (iv_sub _ _ _ _ _ _ _ Hi n2 s2 H2) as (R2 & _).
      unfold ps_kck in E. cbn [ps_obs_of pso_pkt pso_tuple] in E. rewrite R1, R2 in E.
      inversion E; subst n2. cbn [ps_obs_of pso_key]. f_equal.
      apply (iv_ck _ _ _ _ _ _ _ Hi n1 s1 s2 H1 H2); assumption.
    - apply (iv_cnt1 _ _ _ _ _ _ _ Hi).
    - intros n tu tok v Hin. destruct (iv_sent _ _ _ _ _ _ _ Hi n tu tok v Hin) as (r & Hf & Hv & x & Hx).
      destruct (iv_cnt2 _ _ _ _ _ _ _ Hi n x r Hx Hf) as (Hx0 & Hxr).
      destruct (iv_res _ _ _ _ _ _ _ Hi n r Hf) as (_ & Hrange & _).
      exists x. split; [exact Hx|]. split; lia.
  Qed.

  (* restart from files that contain (at least) the memory state m *)
  Theorem ps_invw_restores : forall m A G fs,
    psc_dyn c = true -> psc_obs c = true -> psc_cnt c = true -> psc_unknown c = true ->
    0 < psc_la c -> 0 < psc_lt c ->
    Forall (ps_fresh_rsrc) m0 ->
    ps_invw m A G ->
    (ps_abs_size A + ps_abs_size A < psc_fuel c)%nat ->
    ps_holdsA (ps_boot fs) A ->
    exists mR,
      fst (ps_run pol (ps_startup app req alloc c m0) (ps_boot fs)) = Some mR /\
      (forall n r, ps_find n m = Some r -> psr_observable r = true -> ps_has mR n) /\
      (forall n s, ps_insub m n s -> ps_present req mR (ps_obs_of c s)) /\
      (forall n tu tok v rR, In (n, tu, tok, v) G -> ps_find n mR = Some rR -> v < psr_observe rR + 1).
  Proof.
    intros m A G fs Hd Ho Hc Hu Hla Hlt Hm0 Hi Hfuel (VD & VO & VC).
    set (D := ps_ol (ab_dyn A)). set (O := ps_ol (ab_obs A)). set (C := ps_ol (ab_cnt A)).
    destruct (iw_wf _ _ _ Hi) as (WD & WO & WC).
    assert (HD : Forall ps_dyn_wf D) by (subst D; destruct (ab_dyn A); [exact WD|constructor]).
    assert (HO : Forall (ps_obs_wf (psc_la c) (psc_lt c)) O) by (subst O; destruct (ab_obs A); [exact WO|constructor]).
    assert (HC : Forall ps_cnt_wf C) by (subst C; destruct (ab_cnt A); [exact WC|constructor]).
    assert (Hsz : (length D + length O + length C <= ps_abs_size A)%nat).
    { unfold ps_abs_size, ps_optlen. subst D O C. destruct (ab_dyn A), (ab_obs A), (ab_cnt A); cbn [ps_ol length]; lia. }
    assert (HvD : ps_holds ps_dyn_file (ps_view (ps_boot fs) PS_DYN) D) by (subst D; apply ps_holds_of; exact VD).
    assert (HvO : ps_holds ps_obs_file (ps_view (ps_boot fs) PS_OBS) O) by (subst O; apply ps_holds_of; exact VO).
    assert (HvC : ps_holds ps_cnt_file (ps_view (ps_boot fs) PS_CNT) C) by (subst C; apply ps_holds_of; exact VC).
    set (m1 := ps_dyn_fold (ps_dyn_step app) D m0).
    set (m2 := ps_set_counts (ps_rounded (psc_freq c) C) m1).
    assert (Hf1 : Forall ps_fresh_rsrc m1).
    { apply ps_dyn_fold_fresh; [exact Hm0|]. intros d Hd0. apply (iw_dynf _ _ _ Hi d Hd0). }
    assert (Hf2 : Forall ps_fresh_rsrc m2) by (apply (ps_set_counts_fresh pol app req); exact Hf1).
    pose proof (ps_startup_mem pol app req alloc c Hla Hlt alloc_len m0 D O C fs Hd Ho Hc Hu HD HO HC
                  ltac:(lia) ltac:(lia) ltac:(lia) HvD HvO HvC (ps_fresh_mem_ok _ Hf2)) as Hrun.
    exists (ps_restored_mem app req alloc c m0 D O C). split; [exact Hrun|].
    assert (Hres : forall n r, ps_find n m = Some r -> psr_observable r = true -> ps_has m2 n).
    { intros n r Hf Hob. apply (proj2 (ps_set_counts_has pol app req (ps_rounded (psc_freq c) C) m1 n)).
      destruct (iw_dyn _ _ _ Hi n r Hf Hob) as [Hs|(d & Hd0 & Hdn)].
      - apply ps_dyn_fold_has. exact Hs.
      - rewrite <- Hdn. apply ps_dyn_restored; [|exact Hd0].
        intros d' Hd'. exists true. apply (iw_dynf _ _ _ Hi d' Hd'). }
    split; [intros n r Hf Hob; unfold ps_restored_mem;
            apply (proj2 (ps_obs_fold_has app req alloc c O m2 C n)); apply (Hres n r Hf Hob)|].
    split.
    - intros n s Hs. unfold ps_restored_mem. fold m1 m2.
      destruct (ps_obs_fold_present_g app req alloc c O m2 C []) as [H1 _].
      + intros rec Hr. destruct (iw_obsok _ _ _ Hi rec Hr) as (Ep & El & n' & t' & k' & Hreq).
        destruct (ps_find n' m2) as [rs|] eqn:E2.
        * left. split; [rewrite Ep; apply ps_beq_refl|]. split; [rewrite El; apply ps_beq_refl|].
          exists n', t', k', rs. split; [exact Hreq|]. split; [exact E2|].
          apply (ps_find_forall _ m2 n' rs Hf2 E2).
        * right. exists n', t', k'. split; assumption.
      + intros n' rs s' Hf' Hs'. destruct (ps_find_forall _ m2 n' rs Hf2 Hf') as (_ & X & _).
        rewrite X in Hs'. contradiction.
      + apply (iw_ktok _ _ _ Hi).
      + apply (iw_kck _ _ _ Hi).
      + intros r0 r' [].
      + apply H1; [apply (iw_obs1 _ _ _ Hi n s Hs)|].
        destruct (iw_sub _ _ _ Hi n s Hs) as (Hreq & r & Hf & Hob).
        pose proof (Hres n r Hf Hob) as Hh. unfold ps_has in Hh.
        destruct (ps_find n m2) as [rs|] eqn:E2; [|contradiction].
        split; [cbn [ps_obs_of pso_proto]; apply ps_beq_refl|].
        split; [cbn [ps_obs_of pso_listen]; apply ps_beq_refl|].
        exists n, (pss_token s), (pss_ck s), rs. cbn [ps_obs_of pso_pkt].
        split; [exact Hreq|]. split; [exact E2|]. apply (ps_find_forall _ m2 n rs Hf2 E2).
    - intros n tu tok v rR Hin HfR.
      destruct (iw_sent _ _ _ Hi n tu tok v Hin) as (x & Hx & Hxb & Hv).
      assert (Hh1 : ps_has m1 n).
      { apply (proj1 (ps_set_counts_has pol app req (ps_rounded (psc_freq c) C) m1 n)). fold m2.
        apply (proj1 (ps_obs_fold_has app req alloc c O m2 C n)). unfold ps_has. unfold ps_restored_mem in HfR.
        fold m1 m2 in HfR. rewrite HfR. discriminate. }
      unfold ps_has in Hh1. destruct (ps_find n m1) as [r1|] eqn:E1; [|contradiction].
      destruct (ps_set_counts_line pol app req (ps_rounded (psc_freq c) C) m1 n (ps_round (psc_freq c) x) r1)
        as (r2 & E2 & Hobs2).
      + unfold ps_rounded. rewrite map_map. cbn [fst]. apply (iw_cnt1 _ _ _ Hi).
      + unfold ps_rounded. apply in_map_iff. exists (n, x). split; [reflexivity|exact Hx].
      + exact E1.
      + pose proof (ps_obs_fold_observe req alloc c O m2 C n) as Hsame. unfold ps_restored_mem in HfR.
        fold m1 m2 in HfR. fold m2 in E2. rewrite HfR, E2 in Hsame. cbn [option_map] in Hsame.
        inversion Hsame as [Heq]. rewrite Heq, Hobs2.
        unfold ps_bound in Hxb.
        assert (Hr : ps_round (psc_freq c) x = ps_rnd (psc_freq c) x) by (apply ps_round_rnd; lia).
        pose proof (ps_rnd_ge (psc_freq c) freq_pos x (proj1 Hxb)).
        assert (Hup : ps_rnd (psc_freq c) x <= x + psc_freq c - 1).
        { unfold ps_rnd. pose proof (Z.div_mod (x + psc_freq c) (psc_freq c) ltac:(lia)).
          pose proof (Z.mod_pos_bound (x + psc_freq c) (psc_freq c) freq_pos). nia. }
        rewrite Hr, Z.mod_small by lia. lia.
  Qed.
End Weak.

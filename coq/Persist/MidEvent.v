(* C17 - the weak invariant in the middle of an event: for every prefix of the updater calls of
   an event, the files are coherent (ps_invw) with the memory state after the last completed
   updater (ps_mem_at). *)
From LibcoapV Require Import Base.Tactics Base.Bytes Base.BytesProofs Persist.Fs Persist.FsProofs
  Persist.Records Persist.RecordsProofs Persist.Updaters Persist.UpdatersProofs Persist.History
  Persist.Server Persist.Restore Persist.MemLemmas Persist.EventCalls Persist.Counter
  Persist.Coherence Persist.RestoreCoh Persist.Weak.
Local Open Scope Z_scope.

Section Mid.
  Variable app : bytes -> option (bytes * bool).
  Variable req : bytes -> option (bytes * bytes * bytes).
  Variable alloc : list bytes -> bytes.
  Variable c : ps_cfg.
  Variable m0 : ps_mem.
  Hypothesis alloc_fresh : forall live, ~ In (alloc live) live.
  Hypothesis alloc_len : forall live, len (alloc live) = PS_KEY.
  Hypothesis cfg_proto : len (psc_proto c) = PS_PROTO.
  Hypothesis cfg_listen : len (psc_listen c) = psc_la c.
  Hypothesis freq_pos : 0 < psc_freq c.
  Hypothesis freq_small : psc_freq c < 1000000.

  Notation inv := (ps_inv app req c m0).
  Notation invw := (ps_invw app req c m0).

  (* the memory state after the first j updater calls of event e, started in m:
     - a DELETE keeps the resource until its dynamic-resource record is removed: with the first
       call the Observe counter has its last value, each observe-record removal drops one
       observer, the removal of the dynamic-resource record drops the resource; the counter line
       goes last (coap_free_resource / coap_op_resource_deleted);
     - a registration that replaces an observer first drops the old one (1 call), then has the
       new one;
     - otherwise the change is there with the first call. *)
  Definition ps_mem_at (e : ps_event) (m : ps_mem) (j : nat) : ps_mem :=
    match j with
    | O => m
    | S j' =>
        match e with
        | PsEvReg name tuple token ck pkt =>
            match ps_find name m with
            | Some r =>
                match ps_find_tok tuple token (psr_subs r), ps_find_ck tuple ck (psr_subs r), j' with
                | None, Some o, O =>
                    if psr_observable r
                    then ps_replace (mkRsrc name true (psr_observe r)
                                            (ps_drop_key (pss_key o) (psr_subs r))) m
                    else m
                | _, _, _ => fst (ps_ev_out alloc e m)
                end
            | None => m
            end
        | PsEvDel name =>
            match ps_find name m with
            | Some r =>
                let p := if ps_del_bump r && (ps_del_value r mod psc_freq c =? 0) then 1%nat else 0%nat in
                if (j <=? p + length (psr_subs r))%nat
                then ps_replace (mkRsrc name (psr_observable r) (ps_del_value r)
                                        (skipn (j - p) (psr_subs r))) m
                else ps_remove name m
            | None => m
            end
        | _ => fst (ps_ev_out alloc e m)
        end
    end.

  (* the Observe values that count at that point: those of the event's start until its last call
     (for a DELETE: the resource's values count as long as its counter line is there) *)
  Definition ps_ghost_at (e : ps_event) (m : ps_mem) (G : list ps_send) (j : nat) : list ps_send :=
    match j with
    | O => G
    | _ => if (length (ps_ev_calls alloc c e m) <=? j)%nat then ps_ghost alloc e m G else G
    end.

  Lemma ps_invw_swap : forall m A1 G1 A2 G2,
    invw m A1 G1 -> ab_dyn A2 = ab_dyn A1 -> ab_obs A2 = ab_obs A1 ->
    ps_abs_wf (psc_la c) (psc_lt c) A2 -> NoDup (map fst (ps_ol (ab_cnt A2))) ->
    (forall n tu tok v, In (n, tu, tok, v) G2 ->
       exists x, In (n, x) (ps_ol (ab_cnt A2)) /\ 0 <= x <= ps_bound c /\ v <= ps_rnd (psc_freq c) x) ->
    invw m A2 G2.
  Proof.
    intros m A1 G1 A2 G2 H Hd Ho Hwf Hn Hs. destruct H. constructor; rewrite ?Hd, ?Ho; assumption.
  Qed.

  Lemma ps_forall_firstn : forall X (P : X -> Prop) j l, Forall P l -> Forall P (firstn j l).
  Proof.
    intros X P j. induction j as [|j IH]; intros l H; [constructor|].
    destruct l as [|x l]; [constructor|]. inversion H; subst. cbn [firstn]. constructor; [assumption|apply IH; assumption].
  Qed.

  Notation inv_event := (ps_inv_event app req alloc c m0 alloc_fresh alloc_len cfg_proto cfg_listen freq_pos freq_small).

  (* ---------------------------------------------------------------- delete *)
  Lemma ps_abs_obs_deletes_nodup : forall X (f : ps_obs -> X) l A,
    NoDup (map f (ps_ol (ab_obs A))) ->
    NoDup (map f (ps_ol (ab_obs (ps_abs_calls (map (fun s => CObsDeleted (pss_key s)) l) A)))).
  Proof.
    intros X f. induction l as [|s l IH]; intros A H; cbn [map ps_abs_calls]; [exact H|].
    apply IH. cbn [ps_abs_call ab_obs]. rewrite ps_ol_rem by reflexivity. apply ps_nodup_filter_map. exact H.
  Qed.

  Lemma ps_nodup_app_diff : forall X Y (f : X -> Y) l1 l2 a b,
    NoDup (map f (l1 ++ l2)) -> In a l1 -> In b l2 -> f a <> f b.
  Proof.
    intros X Y f. induction l1 as [|x l1 IH]; intros l2 a b Hnd Ha Hb; [contradiction|].
    cbn [List.app map] in Hnd. inversion Hnd as [|? ? Hx Hrest]; subst. destruct Ha as [->|Ha].
    - intro E. apply Hx. rewrite E. apply in_map. apply in_or_app. right. exact Hb.
    - apply (IH l2 a b Hrest Ha Hb).
  Qed.

  Lemma ps_firstn_map : forall X Y (f : X -> Y) k l, firstn k (map f l) = map f (firstn k l).
  Proof. intros X Y f. induction k as [|k IH]; intros [|x l]; cbn [firstn map]; [reflexivity..|]. rewrite IH. reflexivity. Qed.

  Lemma ps_firstn_del : forall (F : ps_sub -> ps_call) (pre tl : list ps_call) subs j,
    (j <= length pre + length subs)%nat ->
    firstn j (pre ++ map F subs ++ tl) = firstn j pre ++ map F (firstn (j - length pre) subs).
  Proof.
    intros F pre tl subs j Hj. rewrite firstn_app. f_equal. rewrite firstn_app, map_length.
    replace (j - length pre - length subs)%nat with 0%nat by lia. cbn [firstn]. rewrite app_nil_r.
    apply ps_firstn_map.
  Qed.

  (* the counter line a DELETE may write first *)
  Lemma ps_mid_del_pre : forall name m A G r pre',
    inv m A G -> ps_find name m = Some r -> psr_observe r < ps_bound c ->
    pre' = [] \/ pre' = [CCntTrack name (ps_del_value r)] ->
    invw m (ps_abs_calls pre' A) G /\ ab_obs (ps_abs_calls pre' A) = ab_obs A /\
    Forall (ps_call_wf (psc_la c) (psc_lt c)) pre'.
  Proof.
    intros name m A G r pre' Hi Hf Hok Hp.
    pose proof (ps_inv_invw (fun _ _ => 0) app req c m0 m A G Hi) as Hw.
    destruct Hp as [->| ->]; [split; [exact Hw|split; [reflexivity|constructor]]|].
    destruct (iv_res _ _ _ _ _ _ _ Hi name r Hf) as (Hnok & Hrange & _).
    assert (Hval : psr_observe r <= ps_del_value r <= ps_bound c).
    { unfold ps_del_value. destruct (ps_del_bump r); [|lia]. rewrite (ps_next_observe_ok c freq_pos) by lia. lia. }
    assert (Hwf : ps_call_wf (psc_la c) (psc_lt c) (CCntTrack name (ps_del_value r))).
    { apply (ps_track_wf app req c m0 freq_pos m A G name r Hi Hf). lia. }
    cbn [ps_abs_calls]. split; [|split; [reflexivity|constructor; [exact Hwf|constructor]]].
    assert (Hcn : ps_ol (ab_cnt (ps_abs_call (CCntTrack name (ps_del_value r)) A)) =
                  ps_cnt_without name (ps_ol (ab_cnt A)) ++ [(name, ps_del_value r)])
      by (cbn [ps_abs_call ab_cnt]; apply ps_ol_add; reflexivity).
    apply (ps_invw_swap m A G _ G Hw); try reflexivity.
    - apply (ps_abs_call_wf (fun _ _ => 0)); [apply (iv_wf _ _ _ _ _ _ _ Hi)|exact Hwf].
    - rewrite Hcn. apply ps_cnt_set_nodup. apply (iv_cnt1 _ _ _ _ _ _ _ Hi).
    - intros n tu tok v Hin. rewrite Hcn. destruct (ps_bytes_dec n name) as [->|Hne].
      + exists (ps_del_value r). split; [apply ps_cnt_set_in; right; split; reflexivity|]. split; [lia|].
        destruct (iv_sent _ _ _ _ _ _ _ Hi name tu tok v Hin) as (r' & Hf' & Hv & _).
        rewrite Hf in Hf'. inversion Hf'; subst r'.
        pose proof (ps_rnd_ge (psc_freq c) freq_pos (ps_del_value r) ltac:(lia)). lia.
      + destruct (iw_sent _ _ _ _ _ _ _ Hw n tu tok v Hin) as (x & Hx & Hb). exists x. split; [|exact Hb].
        apply ps_cnt_set_in. left. split; assumption.
  Qed.

  (* the observe records of the deleted resource go one by one; the resource itself, the other
     observers and every sent value are still contained in the files *)
  Lemma ps_mid_del_obs : forall name m A G A0 r v k,
    inv m A G -> ps_find name m = Some r -> invw m A0 G -> ab_obs A0 = ab_obs A ->
    invw (ps_replace (mkRsrc name (psr_observable r) v (skipn k (psr_subs r))) m)
         (ps_abs_calls (map (fun s => CObsDeleted (pss_key s)) (firstn k (psr_subs r))) A0) G.
  Proof.
    intros name m A G A0 r v k Hi Hf Hw Hobs.
    set (new := mkRsrc name (psr_observable r) v (skipn k (psr_subs r))).
    set (l := firstn k (psr_subs r)).
    destruct (ps_abs_obs_deletes l A0) as (F1 & F2 & F3 & _).
    destruct (iv_res _ _ _ _ _ _ _ Hi name r Hf) as (_ & _ & Hnd & _).
    assert (Hrep := fun n s => ps_insub_replace new m name r n s eq_refl Hf).
    assert (Hfind := fun n => ps_find_replace_any new m name r n eq_refl Hf).
    assert (Hsplit : psr_subs r = l ++ skipn k (psr_subs r)) by (subst l; symmetry; apply firstn_skipn).
    assert (Hsk : forall s, In s (skipn k (psr_subs r)) -> In s (psr_subs r))
      by (intros s Hs; rewrite Hsplit; apply in_or_app; right; exact Hs).
    assert (Hfi : forall s, In s l -> In s (psr_subs r))
      by (intros s Hs; rewrite Hsplit; apply in_or_app; left; exact Hs).
    assert (Hsubset : forall n s, ps_insub (ps_replace new m) n s -> ps_insub m n s).
    { intros n s Hs. apply Hrep in Hs. destruct Hs as [[-> Hin]|[_ Hs]]; [|exact Hs].
      exists r. split; [exact Hf|apply Hsk; exact Hin]. }
    destruct Hw as [W1 W2 W3 W4 W5 W6 W7 W8 W9 W10]. constructor.
    - apply (ps_abs_calls_wf (fun _ _ => 0) c); [exact W1|].
      apply Forall_forall. intros x Hx. apply in_map_iff in Hx. destruct Hx as (s & <- & _). exact I.
    - rewrite F1. exact W2.
    - intros n r' Hf' Ho'. rewrite F1. rewrite Hfind in Hf'. destruct (ps_beq n name) eqn:E.
      + apply ps_beq_eq in E. subst n. inversion Hf'; subst r'. cbn [psr_observable new] in Ho'.
        apply (W3 name r Hf Ho').
      + apply (W3 n r' Hf' Ho').
    - intros n s Hs. destruct (W4 n s (Hsubset n s Hs)) as (Hreq & r' & Hf' & Ho').
      split; [exact Hreq|]. rewrite Hfind. destruct (ps_beq n name) eqn:E.
      + apply ps_beq_eq in E. subst n. rewrite Hf in Hf'. inversion Hf'; subst r'.
        exists new. split; [reflexivity|exact Ho'].
      + exists r'. split; assumption.
    - intros n s Hs. apply F3. split; [apply (W5 n s (Hsubset n s Hs))|].
      intros s' Hs' Ek. cbn [ps_obs_of pso_key] in Ek.
      destruct (iv_key _ _ _ _ _ _ _ Hi n s name s' (Hsubset n s Hs)) as [X Y];
        [exists r; split; [exact Hf|apply Hfi; exact Hs']|exact Ek|].
      subst n s'. apply Hrep in Hs. destruct Hs as [[_ Hin]|[Hne _]]; [|congruence].
      cbn [psr_subs new] in Hin. rewrite Hsplit in Hnd.
      apply (ps_nodup_app_diff _ _ pss_key l (skipn k (psr_subs r)) s s Hnd Hs' Hin). reflexivity.
    - intros rec Hr. apply F3 in Hr. apply W6. exact (proj1 Hr).
    - apply ps_abs_obs_deletes_nodup. exact W7.
    - apply ps_abs_obs_deletes_nodup. exact W8.
    - rewrite F2. exact W9.
    - intros n tu tok v0 Hin. rewrite F2. apply (W10 n tu tok v0 Hin).
  Qed.

  (* the dynamic-resource record goes: the files contain the memory state without the resource *)
  Lemma ps_invw_dyn_deleted : forall name m' m2 A G,
    invw m' A G -> (forall n, n <> name -> ps_find n m2 = ps_find n m') -> ps_find name m2 = None ->
    invw m2 (ps_abs_call (CDynDeleted name) A) G.
  Proof.
    intros name m' m2 A G Hw Hfo Hnone.
    assert (Hne_of : forall n r, ps_find n m2 = Some r -> n <> name)
      by (intros n r E X; subst n; rewrite Hnone in E; discriminate).
    assert (Hsub : forall n s, ps_insub m2 n s -> n <> name /\ ps_insub m' n s).
    { intros n s (r & Hf & Hin). pose proof (Hne_of n r Hf) as Hne. split; [exact Hne|].
      exists r. rewrite <- (Hfo n Hne). split; assumption. }
    assert (Hdn : ps_ol (ab_dyn (ps_abs_call (CDynDeleted name) A)) = ps_dyn_without name (ps_ol (ab_dyn A)))
      by (cbn [ps_abs_call ab_dyn]; apply ps_ol_rem; reflexivity).
    destruct Hw as [W1 W2 W3 W4 W5 W6 W7 W8 W9 W10]. constructor; try assumption.
    - apply (ps_abs_call_wf (fun _ _ => 0)); [assumption|exact I].
    - intros d Hd. rewrite Hdn in Hd. apply ps_dyn_without_in in Hd. apply W2. exact (proj1 Hd).
    - intros n r Hf Ho. pose proof (Hne_of n r Hf) as Hne. rewrite (Hfo n Hne) in Hf.
      destruct (W3 n r Hf Ho) as [Hs|(d & Hd & Hdn')]; [left; exact Hs|right].
      exists d. split; [|exact Hdn']. rewrite Hdn. apply ps_dyn_without_in. split; [exact Hd|].
      rewrite Hdn'. exact Hne.
    - intros n s Hs. destruct (Hsub n s Hs) as [Hne Hs']. destruct (W4 n s Hs') as (Hreq & r' & Hf' & Ho').
      split; [exact Hreq|]. exists r'. rewrite (Hfo n Hne). split; assumption.
    - intros n s Hs. apply (W5 n s (proj2 (Hsub n s Hs))).
  Qed.

  (* delete, before the counter line goes *)
  Lemma ps_mid_del : forall name m A G r j,
    inv m A G -> psr_observe r < ps_bound c -> ps_find name m = Some r ->
    let pre := if ps_del_bump r && (ps_del_value r mod psc_freq c =? 0)
               then [CCntTrack name (ps_del_value r)] else [] in
    let calls := pre ++ map (fun s => CObsDeleted (pss_key s)) (psr_subs r) ++
                 [CDynDeleted name; CCntDeleted name] in
    ((j <= length pre + length (psr_subs r))%nat ->
     invw (ps_replace (mkRsrc name (psr_observable r) (ps_del_value r)
                              (skipn (j - length pre) (psr_subs r))) m)
          (ps_abs_calls (firstn j calls) A) G) /\
    (j = S (length pre + length (psr_subs r)) ->
     invw (ps_remove name m) (ps_abs_calls (firstn j calls) A) G).
  Proof.
    intros name m A G r j Hi Hok Hf pre calls.
    assert (Hpre : forall i, firstn i pre = [] \/ firstn i pre = [CCntTrack name (ps_del_value r)]).
    { intro i. subst pre. destruct (ps_del_bump r && (ps_del_value r mod psc_freq c =? 0)).
      - destruct i as [|i]; [left; reflexivity|right]. cbn [firstn]. destruct i; reflexivity.
      - left. destruct i; reflexivity. }
    assert (Stage : forall i, (i <= length pre + length (psr_subs r))%nat ->
              invw (ps_replace (mkRsrc name (psr_observable r) (ps_del_value r)
                                       (skipn (i - length pre) (psr_subs r))) m)
                   (ps_abs_calls (firstn i calls) A) G).
    { intros i Hi'. subst calls. rewrite ps_firstn_del by exact Hi'. rewrite ps_abs_calls_app.
      destruct (ps_mid_del_pre name m A G r (firstn i pre) Hi Hf Hok (Hpre i)) as (Hw0 & Ho0 & _).
      apply (ps_mid_del_obs name m A G _ r (ps_del_value r) (i - length pre) Hi Hf Hw0 Ho0). }
    split; [apply Stage|]. intro Ej.
    pose proof (Stage (length pre + length (psr_subs r))%nat (Nat.le_refl _)) as Hw.
    assert (Efn : firstn j calls =
                  firstn (length pre + length (psr_subs r)) calls ++ [CDynDeleted name]).
    { subst calls j.
      rewrite (ps_firstn_del _ pre _ (psr_subs r) (length pre + length (psr_subs r))) by lia.
      rewrite (firstn_all2 pre) by lia.
      replace (length pre + length (psr_subs r) - length pre)%nat with (length (psr_subs r)) by lia.
      rewrite firstn_all.
      rewrite app_assoc.
      replace (S (length pre + length (psr_subs r)))
        with (length (pre ++ map (fun s => CObsDeleted (pss_key s)) (psr_subs r)) + 1)%nat
        by (rewrite app_length, map_length; lia).
      rewrite firstn_app_2. reflexivity. }
    rewrite Efn, ps_abs_calls_app. cbn [ps_abs_calls].
    pose proof (iv_names _ _ _ _ _ _ _ Hi) as Hnames.
    eapply ps_invw_dyn_deleted; [exact Hw| |apply ps_find_remove_same; exact Hnames].
    intros n Hne. rewrite (ps_find_remove_other name m n Hne). symmetry.
    apply ps_find_replace_other. cbn [psr_name]. apply ps_beq_false. exact Hne.
  Qed.

  (* the state after the observe-file part of a registration, before the counter line is written *)
  Lemma ps_mid_swap_cnt : forall m m' A calls1 name v G G',
    inv m A G ->
    inv m' (ps_abs_calls (calls1 ++ [CCntTrack name v]) A) G' ->
    Forall (ps_call_wf (psc_la c) (psc_lt c)) calls1 ->
    ab_cnt (ps_abs_calls calls1 A) = ab_cnt A ->
    invw m' (ps_abs_calls calls1 A) G.
  Proof.
    intros m m' A calls1 name v G G' Hi Hfin Hcw Hcnt.
    pose proof (ps_inv_invw (fun _ _ => 0) app req c m0 _ _ _ Hfin) as Hw.
    pose proof (ps_inv_invw (fun _ _ => 0) app req c m0 _ _ _ Hi) as Hw0.
    rewrite ps_abs_calls_app in Hw. cbn [ps_abs_calls] in Hw.
    apply (ps_invw_swap m' _ G' (ps_abs_calls calls1 A) G Hw); try reflexivity.
    - apply (ps_abs_calls_wf (fun _ _ => 0) c); [apply (iv_wf _ _ _ _ _ _ _ Hi)|exact Hcw].
    - rewrite Hcnt. apply (iv_cnt1 _ _ _ _ _ _ _ Hi).
    - rewrite Hcnt. apply (iw_sent _ _ _ _ _ _ _ Hw0).
  Qed.

  (* C17: in the middle of any event, after any number j of its updater calls, the files contain
     the memory state after the last completed updater *)
  Theorem ps_mid_invw : forall e m A G j,
    inv m A G -> ps_evt_ok app req c e m -> (j <= length (ps_ev_calls alloc c e m))%nat ->
    invw (ps_mem_at e m j) (ps_abs_calls (firstn j (ps_ev_calls alloc c e m)) A) (ps_ghost_at e m G j).
  Proof.
    intros e m A G j Hi Hok Hj.
    destruct j as [|j']; [cbn [firstn ps_abs_calls ps_mem_at ps_ghost_at];
                          apply (ps_inv_invw (fun _ _ => 0)); exact Hi|].
    destruct (inv_event e m A G Hi Hok) as [Hcw Hfin].
    (* the complete event *)
    assert (Hall : S j' = length (ps_ev_calls alloc c e m) ->
                   ps_mem_at e m (S j') = fst (ps_ev_out alloc e m) ->
                   invw (ps_mem_at e m (S j'))
                        (ps_abs_calls (firstn (S j') (ps_ev_calls alloc c e m)) A) (ps_ghost_at e m G (S j'))).
    { intros El Em. rewrite Em, El, firstn_all. unfold ps_ghost_at. rewrite <- El.
      rewrite Nat.leb_refl.
      apply (ps_inv_invw (fun _ _ => 0)). exact Hfin. }
    destruct e; cbn [ps_evt_ok] in Hok; try contradiction.
    - (* put: at most one call *)
      apply Hall; [|reflexivity]. cbn [ps_ev_calls] in *. destruct (ps_find name m); cbn [length] in *; [lia|].
      destruct observable; cbn [length] in *; lia.
    - (* delete *)
      cbn [ps_ev_calls] in Hj, Hall |- *. cbn [ps_mem_at ps_ev_out] in Hall |- *.
      destruct (ps_find name m) as [r|] eqn:Hf; [|cbn [length] in Hj; lia].
      specialize (Hok r eq_refl).
      destruct (ps_mid_del name m A G r (S j') Hi Hok Hf) as [St1 St2]. cbn zeta in St1, St2.
      set (pre := if ps_del_bump r && (ps_del_value r mod psc_freq c =? 0)
                  then [CCntTrack name (ps_del_value r)] else []) in *.
      assert (Ep : (if ps_del_bump r && (ps_del_value r mod psc_freq c =? 0) then 1%nat else 0%nat) = length pre)
        by (subst pre; destruct (ps_del_bump r && (ps_del_value r mod psc_freq c =? 0)); reflexivity).
      rewrite Ep in Hall |- *. rewrite !app_length, map_length in Hj, Hall. cbn [length] in Hj, Hall.
      destruct (Nat.leb_spec (S j') (length pre + length (psr_subs r))) as [L|L].
      + (* the resource is still there *)
        replace (ps_ghost_at (PsEvDel name) m G (S j')) with G; [apply St1; exact L|].
        unfold ps_ghost_at. cbn [ps_ev_calls]. rewrite Hf. fold pre.
        rewrite !app_length, map_length. cbn [length].
        destruct (Nat.leb_spec (length pre + (length (psr_subs r) + 2)) (S j')); [lia|reflexivity].
      + destruct (Nat.eq_dec (S j') (S (length pre + length (psr_subs r)))) as [E|E].
        * (* its record is gone, the counter line is still there *)
          replace (ps_ghost_at (PsEvDel name) m G (S j')) with G; [apply St2; exact E|].
          unfold ps_ghost_at. cbn [ps_ev_calls]. rewrite Hf. fold pre.
          rewrite !app_length, map_length. cbn [length].
          destruct (Nat.leb_spec (length pre + (length (psr_subs r) + 2)) (S j')); [lia|reflexivity].
        * apply Hall; [lia|reflexivity].
    - (* register *)
      cbn [ps_ev_calls] in Hj, Hcw, Hfin |- *. cbn [ps_ev_out] in Hfin.
      destruct (ps_find name m) as [r|] eqn:Hf; [|cbn [length] in Hj; lia].
      destruct (psr_observable r) eqn:Hobs; cbn [negb] in *; [|cbn [length] in Hj; lia].
      destruct (ps_find_tok tuple token (psr_subs r)) as [s0|] eqn:Et; [cbn [length] in Hj; lia|].
      destruct (ps_find_ck tuple ck (psr_subs r)) as [o|] eqn:Ec; cbn [List.app length] in *.
      + (* replace: 3 calls *)
        destruct j' as [|[|j'']]; [| |].
        * (* the old observer is gone *)
          cbn [firstn ps_abs_calls ps_mem_at ps_ghost_at ps_ev_calls]. rewrite Hf, Hobs, Et, Ec. cbn [negb List.app length Nat.leb].
          apply (ps_inv_invw (fun _ _ => 0)).
          apply (ps_inv_drop app req c m0 name m A G r o Hi Hf Hobs).
          apply (ps_find_ck_some _ _ _ _ Ec).
        * (* the new one is in the observe file, the counter line is not written yet *)
          cbn [firstn ps_mem_at ps_ghost_at ps_ev_calls ps_ev_out]. rewrite Hf, Hobs, Et, Ec.
          cbn [negb List.app length Nat.leb fst].
          apply (ps_mid_swap_cnt m _ A
                   [CObsDeleted (pss_key o); CObsAdded (ps_obs_of c (ps_reg_new alloc name tuple token ck pkt r m))]
                   name (psr_observe r) G _ Hi Hfin).
          -- inversion Hcw as [|? ? H1 H2]; subst. inversion H2; subst. constructor; [assumption|constructor; [assumption|constructor]].
          -- reflexivity.
        * cbn [ps_ev_calls] in Hall. rewrite Hf, Hobs, Et, Ec in Hall. cbn [negb List.app length] in Hall.
          apply Hall; [lia|]. cbn [ps_mem_at ps_ev_out]. rewrite Hf, Et, Ec, Hobs. reflexivity.
      + (* new: 2 calls *)
        destruct j' as [|j''].
        * cbn [firstn ps_mem_at ps_ghost_at ps_ev_calls ps_ev_out]. rewrite Hf, Hobs, Et, Ec.
          cbn [negb List.app length Nat.leb fst].
          apply (ps_mid_swap_cnt m _ A
                   [CObsAdded (ps_obs_of c (ps_reg_new alloc name tuple token ck pkt r m))]
                   name (psr_observe r) G _ Hi Hfin).
          -- inversion Hcw; subst. constructor; [assumption|constructor].
          -- reflexivity.
        * cbn [ps_ev_calls] in Hall. rewrite Hf, Hobs, Et, Ec in Hall. cbn [negb List.app length] in Hall.
          apply Hall; [lia|]. cbn [ps_mem_at ps_ev_out]. rewrite Hf, Et, Ec, Hobs. destruct j''; reflexivity.
    - (* cancel: at most one call *)
      apply Hall; [|reflexivity]. cbn [ps_ev_calls] in *. destruct (ps_find name m) as [r|]; cbn [length] in *; [|lia].
      destruct (negb (psr_observable r)); cbn [length] in *; [lia|].
      destruct (ps_cancel_hit tuple token ck r); cbn [length] in *; lia.
    - (* notify: at most one call *)
      apply Hall; [|reflexivity]. cbn [ps_ev_calls] in *. destruct (ps_find name m) as [r|]; cbn [length] in *; [|lia].
      destruct (psr_observable r); cbn [length] in *; [|lia]. destruct (psr_subs r); cbn [length] in *; [lia|].
      destruct (ps_next_observe (psr_observe r) mod psc_freq c =? 0); cbn [length] in *; lia.
  Qed.
End Mid.

(* C17 - the weak invariant in the middle of an event: for every prefix of the updater calls of
   an event, the files are coherent (ps_invw) with the memory state after the last completed
   updater (ps_mem_at). *)
From LibcoapV Require Import Base.Tactics Base.Bytes Base.BytesProofs Persist.Fs Persist.FsProofs
  Persist.Records Persist.RecordsProofs Persist.Updaters Persist.UpdatersProofs Persist.History
  Persist.Server Persist.Restore Persist.MemLemmas Persist.EventCalls Persist.Counter
  Persist.Coherence Persist.RestoreCoh Persist.Weak.
Local Open Scope Z_scope.

Section Mid.
  Variable app : bytes -> option (bytes * bool).
  Variable req : bytes -> option (bytes * bytes * bytes).
  Variable alloc : list bytes -> bytes.
  Variable c : ps_cfg.
  Variable m0 : ps_mem.
  Hypothesis alloc_fresh : forall live, ~ In (alloc live) live.
  Hypothesis alloc_len : forall live, len (alloc live) = PS_KEY.
  Hypothesis cfg_proto : len (psc_proto c) = PS_PROTO.
  Hypothesis cfg_listen : len (psc_listen c) = psc_la c.
  Hypothesis freq_pos : 0 < psc_freq c.
  Hypothesis freq_small : psc_freq c < 1000000.

  Notation inv := (ps_inv app req c m0).
  Notation invw := (ps_invw app req c m0).

  (* the memory state after the first j updater calls of event e, started in m:
     - a DELETE unhooks the resource before its call-outs run (coap_delete_resource_lkd), so
       from the first call on the memory state is the one without the resource;
     - a registration that replaces an observer first drops the old one (1 call), then has the
       new one;
     - otherwise the change is there with the first call. *)
  Definition ps_mem_at (e : ps_event) (m : ps_mem) (j : nat) : ps_mem :=
    match j with
    | O => m
    | S j' =>
        match e with
        | PsEvReg name tuple token ck pkt =>
            match ps_find name m with
            | Some r =>
                match ps_find_tok tuple token (psr_subs r), ps_find_ck tuple ck (psr_subs r), j' with
                | None, Some o, O =>
                    if psr_observable r
                    then ps_replace (mkRsrc name true (psr_observe r)
                                            (ps_drop_key (pss_key o) (psr_subs r))) m
                    else m
                | _, _, _ => fst (ps_ev_out alloc e m)
                end
            | None => m
            end
        | _ => fst (ps_ev_out alloc e m)
        end
    end.

  (* the Observe values that count at that point: a DELETE forgets the resource's values at
     once; the values an event sends itself count from its last call on *)
  Definition ps_ghost_at (e : ps_event) (m : ps_mem) (G : list ps_send) (j : nat) : list ps_send :=
    match j with
    | O => G
    | _ => match e with
           | PsEvDel _ => ps_ghost alloc e m G
           | _ => if (length (ps_ev_calls alloc c e m) <=? j)%nat then ps_ghost alloc e m G else G
           end
    end.

  Lemma ps_invw_swap : forall m A1 G1 A2 G2,
    invw m A1 G1 -> ab_dyn A2 = ab_dyn A1 -> ab_obs A2 = ab_obs A1 ->
    ps_abs_wf (psc_la c) (psc_lt c) A2 -> NoDup (map fst (ps_ol (ab_cnt A2))) ->
    (forall n tu tok v, In (n, tu, tok, v) G2 ->
       exists x, In (n, x) (ps_ol (ab_cnt A2)) /\ 0 <= x <= ps_bound c /\ v <= ps_rnd (psc_freq c) x) ->
    invw m A2 G2.
  Proof.
    intros m A1 G1 A2 G2 H Hd Ho Hwf Hn Hs. destruct H. constructor; rewrite ?Hd, ?Ho; assumption.
  Qed.

  (* calls that cannot hurt the weak invariant of a memory state that does not contain [name] *)
  Definition ps_harmless (name : bytes) (m' : ps_mem) (cl : ps_call) : Prop :=
    match cl with
    | CCntTrack n v => n = name /\ ps_call_wf (psc_la c) (psc_lt c) cl
    | CCntDeleted n => n = name
    | CDynDeleted n => n = name
    | CObsDeleted k => forall n s, ps_insub m' n s -> pss_key s <> k
    | _ => False
    end.

  Lemma ps_invw_harmless : forall name m' G' cl A,
    ps_find name m' = None -> (forall n tu tok v, In (n, tu, tok, v) G' -> n <> name) ->
    invw m' A G' -> ps_harmless name m' cl -> invw m' (ps_abs_call cl A) G'.
  Proof.
    intros name m' G' cl A Hnone Hg Hi Hc.
    assert (Hne : forall n r, ps_find n m' = Some r -> n <> name) by (intros n r E X; subst; congruence).
    destruct cl; cbn [ps_harmless] in Hc; try contradiction.
    - (* observe record removed *)
      assert (Ho : ps_ol (ab_obs (ps_abs_call (CObsDeleted key) A)) = ps_obs_without key (ps_ol (ab_obs A)))
        by (cbn [ps_abs_call ab_obs]; apply ps_ol_rem; reflexivity).
      destruct Hi as [W1 W2 W3 W4 W5 W6 W7 W8 W9 W10]. constructor; try assumption.
      + apply (ps_abs_call_wf (fun _ _ => 0)); [assumption|exact I].
      + intros n s Hs. rewrite Ho. apply ps_obs_without_in. split; [apply (W5 n s Hs)|].
        cbn [ps_obs_of pso_key]. apply (Hc n s Hs).
      + intros rec Hr. rewrite Ho in Hr. apply ps_obs_without_in in Hr. apply W6. exact (proj1 Hr).
      + rewrite Ho. apply ps_nodup_filter_map. assumption.
      + rewrite Ho. apply ps_nodup_filter_map. assumption.
    - (* counter line written *)
      destruct Hc as [-> Hw].
      assert (Hcn : ps_ol (ab_cnt (ps_abs_call (CCntTrack name v) A)) =
                    ps_cnt_without name (ps_ol (ab_cnt A)) ++ [(name, v)])
        by (cbn [ps_abs_call ab_cnt]; apply ps_ol_add; reflexivity).
      destruct Hi as [W1 W2 W3 W4 W5 W6 W7 W8 W9 W10]. constructor; try assumption.
      + apply (ps_abs_call_wf (fun _ _ => 0)); assumption.
      + rewrite Hcn. apply ps_cnt_set_nodup. assumption.
      + intros n tu tok v0 Hin. destruct (W10 n tu tok v0 Hin) as (x & Hx & Hb).
        exists x. split; [|exact Hb]. rewrite Hcn. apply ps_cnt_set_in. left.
        split; [apply (Hg n tu tok v0 Hin)|exact Hx].
    - (* counter line removed *)
      subst name0.
      assert (Hcn : ps_ol (ab_cnt (ps_abs_call (CCntDeleted name) A)) = ps_cnt_without name (ps_ol (ab_cnt A)))
        by (cbn [ps_abs_call ab_cnt]; apply ps_ol_rem; reflexivity).
      destruct Hi as [W1 W2 W3 W4 W5 W6 W7 W8 W9 W10]. constructor; try assumption.
      + apply (ps_abs_call_wf (fun _ _ => 0)); [assumption|exact I].
      + rewrite Hcn. apply ps_nodup_filter_map. assumption.
      + intros n tu tok v0 Hin. destruct (W10 n tu tok v0 Hin) as (x & Hx & Hb).
        exists x. split; [|exact Hb]. rewrite Hcn. apply ps_cnt_without_in.
        split; [apply (Hg n tu tok v0 Hin)|exact Hx].
    - (* dynamic-resource record removed *)
      subst name0.
      assert (Hdn : ps_ol (ab_dyn (ps_abs_call (CDynDeleted name) A)) = ps_dyn_without name (ps_ol (ab_dyn A)))
        by (cbn [ps_abs_call ab_dyn]; apply ps_ol_rem; reflexivity).
      destruct Hi as [W1 W2 W3 W4 W5 W6 W7 W8 W9 W10]. constructor; try assumption.
      + apply (ps_abs_call_wf (fun _ _ => 0)); [assumption|exact I].
      + intros d Hd. rewrite Hdn in Hd. apply ps_dyn_without_in in Hd. apply W2. exact (proj1 Hd).
      + intros n r Hf Ho. destruct (W3 n r Hf Ho) as [Hs|(d & Hd & Hdn')]; [left; exact Hs|right].
        exists d. split; [|exact Hdn']. rewrite Hdn. apply ps_dyn_without_in. split; [exact Hd|].
        rewrite Hdn'. apply (Hne n r Hf).
  Qed.

  Lemma ps_invw_harmless_all : forall name m' G' calls A,
    ps_find name m' = None -> (forall n tu tok v, In (n, tu, tok, v) G' -> n <> name) ->
    invw m' A G' -> Forall (ps_harmless name m') calls -> invw m' (ps_abs_calls calls A) G'.
  Proof.
    intros name m' G' calls. induction calls as [|cl calls IH]; intros A Hn Hg Hi Hc; [exact Hi|].
    inversion Hc; subst. cbn [ps_abs_calls]. apply IH; try assumption.
    eapply ps_invw_harmless; eassumption.
  Qed.

  Lemma ps_forall_firstn : forall X (P : X -> Prop) j l, Forall P l -> Forall P (firstn j l).
  Proof.
    intros X P j. induction j as [|j IH]; intros l H; [constructor|].
    destruct l as [|x l]; [constructor|]. inversion H; subst. cbn [firstn]. constructor; [assumption|apply IH; assumption].
  Qed.

  Notation inv_event := (ps_inv_event app req alloc c m0 alloc_fresh alloc_len cfg_proto cfg_listen freq_pos freq_small).

  (* delete: from the first call on, the memory state without the resource *)
  Lemma ps_mid_del : forall name m A G r j,
    inv m A G -> ps_evt_ok app req c (PsEvDel name) m -> ps_find name m = Some r ->
    invw (ps_remove name m)
         (ps_abs_calls (firstn j (ps_ev_calls alloc c (PsEvDel name) m)) A)
         (ps_ghost alloc (PsEvDel name) m G).
  Proof.
    intros name m A G r j Hi Hok Hf.
    pose proof (ps_inv_invw (fun _ _ => 0) app req c m0 m A G Hi) as Hw.
    pose proof (iv_names _ _ _ _ _ _ _ Hi) as Hnames.
    assert (Hnone : ps_find name (ps_remove name m) = None) by (apply ps_find_remove_same; exact Hnames).
    assert (Hfo : forall n, n <> name -> ps_find n (ps_remove name m) = ps_find n m)
      by (intros; apply ps_find_remove_other; assumption).
    assert (Hne_of : forall n r', ps_find n (ps_remove name m) = Some r' -> n <> name)
      by (intros n r' E X; subst n; rewrite Hnone in E; discriminate).
    assert (Hiff : forall n s, ps_insub (ps_remove name m) n s <-> n <> name /\ ps_insub m n s)
      by (intros; apply ps_insub_remove; exact Hnames).
    unfold ps_ghost. rewrite Hf.
    set (G' := filter (fun x : ps_send => negb (ps_beq name (fst (fst (fst x))))) G).
    assert (Hg : forall n tu tok v, In (n, tu, tok, v) G' -> n <> name).
    { intros n tu tok v Hin. apply filter_In in Hin. destruct Hin as [_ Hb]. cbn [fst] in Hb.
      intro X. subst n. rewrite ps_beq_refl in Hb. discriminate. }
    apply (ps_invw_harmless_all name); try assumption.
    - (* the files of the event's start already contain the smaller memory state *)
      destruct Hw as [W1 W2 W3 W4 W5 W6 W7 W8 W9 W10]. constructor; try assumption.
      + intros n r' Hf' Ho'. rewrite (Hfo n (Hne_of n r' Hf')) in Hf'. apply (W3 n r' Hf' Ho').
      + intros n s Hs. apply Hiff in Hs. destruct Hs as [Hne Hs]. destruct (W4 n s Hs) as (Hreq & r' & Hf' & Ho').
        split; [exact Hreq|]. exists r'. rewrite (Hfo n Hne). split; assumption.
      + intros n s Hs. apply Hiff in Hs. apply (W5 n s (proj2 Hs)).
      + intros n tu tok v Hin. apply filter_In in Hin. apply (W10 n tu tok v (proj1 Hin)).
    - apply ps_forall_firstn. cbn [ps_ev_calls]. rewrite Hf. apply Forall_app. split.
      + destruct (ps_del_bump r && (ps_del_value r mod psc_freq c =? 0)); [|constructor].
        constructor; [|constructor]. cbn [ps_harmless]. split; [reflexivity|].
        destruct (iv_res _ _ _ _ _ _ _ Hi name r Hf) as (Hnok & Hrange & _).
        cbn [ps_evt_ok] in Hok. specialize (Hok r Hf).
        cbn [ps_call_wf]. split; [exact Hnok|].
        unfold ps_del_value, ps_next_observe, ps_bound in *.
        destruct (ps_del_bump r); [rewrite Z.mod_small by lia|]; lia.
      + constructor; [reflexivity|]. constructor; [reflexivity|].
        apply Forall_forall. intros cl Hcl. apply in_map_iff in Hcl. destruct Hcl as (s & <- & Hs).
        cbn [ps_harmless]. intros n s' Hs' Ek. apply Hiff in Hs'. destruct Hs' as [Hne Hs'].
        destruct (iv_key _ _ _ _ _ _ _ Hi n s' name s Hs') as [X _]; [exists r; split; assumption|exact Ek|].
        contradiction.
  Qed.

  (* the state after the observe-file part of a registration, before the counter line is written *)
  Lemma ps_mid_swap_cnt : forall m m' A calls1 name v G G',
    inv m A G ->
    inv m' (ps_abs_calls (calls1 ++ [CCntTrack name v]) A) G' ->
    Forall (ps_call_wf (psc_la c) (psc_lt c)) calls1 ->
    ab_cnt (ps_abs_calls calls1 A) = ab_cnt A ->
    invw m' (ps_abs_calls calls1 A) G.
  Proof.
    intros m m' A calls1 name v G G' Hi Hfin Hcw Hcnt.
    pose proof (ps_inv_invw (fun _ _ => 0) app req c m0 _ _ _ Hfin) as Hw.
    pose proof (ps_inv_invw (fun _ _ => 0) app req c m0 _ _ _ Hi) as Hw0.
    rewrite ps_abs_calls_app in Hw. cbn [ps_abs_calls] in Hw.
    apply (ps_invw_swap m' _ G' (ps_abs_calls calls1 A) G Hw); try reflexivity.
    - apply (ps_abs_calls_wf (fun _ _ => 0) c); [apply (iv_wf _ _ _ _ _ _ _ Hi)|exact Hcw].
    - rewrite Hcnt. apply (iv_cnt1 _ _ _ _ _ _ _ Hi).
    - rewrite Hcnt. apply (iw_sent _ _ _ _ _ _ _ Hw0).
  Qed.

  (* C17: in the middle of any event, after any number j of its updater calls, the files contain
     the memory state after the last completed updater *)
  Theorem ps_mid_invw : forall e m A G j,
    inv m A G -> ps_evt_ok app req c e m -> (j <= length (ps_ev_calls alloc c e m))%nat ->
    invw (ps_mem_at e m j) (ps_abs_calls (firstn j (ps_ev_calls alloc c e m)) A) (ps_ghost_at e m G j).
  Proof.
    intros e m A G j Hi Hok Hj.
    destruct j as [|j']; [cbn [firstn ps_abs_calls ps_mem_at ps_ghost_at];
                          apply (ps_inv_invw (fun _ _ => 0)); exact Hi|].
    destruct (inv_event e m A G Hi Hok) as [Hcw Hfin].
    (* the complete event *)
    assert (Hall : S j' = length (ps_ev_calls alloc c e m) ->
                   ps_mem_at e m (S j') = fst (ps_ev_out alloc e m) ->
                   invw (ps_mem_at e m (S j'))
                        (ps_abs_calls (firstn (S j') (ps_ev_calls alloc c e m)) A) (ps_ghost_at e m G (S j'))).
    { intros El Em. rewrite Em, El, firstn_all. unfold ps_ghost_at. rewrite <- El.
      replace (match e with PsEvDel _ => ps_ghost alloc e m G
               | _ => if (S j' <=? S j')%nat then ps_ghost alloc e m G else G end)
        with (ps_ghost alloc e m G) by (rewrite Nat.leb_refl; destruct e; reflexivity).
      apply (ps_inv_invw (fun _ _ => 0)). exact Hfin. }
    destruct e; cbn [ps_evt_ok] in Hok; try contradiction.
    - (* put: at most one call *)
      apply Hall; [|reflexivity]. cbn [ps_ev_calls] in *. destruct (ps_find name m); cbn [length] in *; [lia|].
      destruct observable; cbn [length] in *; lia.
    - (* delete *)
      cbn [ps_mem_at ps_ghost_at ps_ev_out]. cbn [ps_ev_calls] in Hj.
      destruct (ps_find name m) as [r|] eqn:Hf; [|cbn [length] in Hj; lia].
      cbn [fst]. apply (ps_mid_del name m A G r (S j') Hi); [cbn [ps_evt_ok]; rewrite Hf; exact Hok|exact Hf].
    - (* register *)
      cbn [ps_ev_calls] in Hj, Hcw, Hfin |- *. cbn [ps_ev_out] in Hfin.
      destruct (ps_find name m) as [r|] eqn:Hf; [|cbn [length] in Hj; lia].
      destruct (psr_observable r) eqn:Hobs; cbn [negb] in *; [|cbn [length] in Hj; lia].
      destruct (ps_find_tok tuple token (psr_subs r)) as [s0|] eqn:Et; [cbn [length] in Hj; lia|].
      destruct (ps_find_ck tuple ck (psr_subs r)) as [o|] eqn:Ec; cbn [List.app length] in *.
      + (* replace: 3 calls *)
        destruct j' as [|[|j'']]; [| |].
        * (* the old observer is gone *)
          cbn [firstn ps_abs_calls ps_mem_at ps_ghost_at ps_ev_calls]. rewrite Hf, Hobs, Et, Ec. cbn [negb List.app length Nat.leb].
          apply (ps_inv_invw (fun _ _ => 0)).
          apply (ps_inv_drop app req c m0 name m A G r o Hi Hf Hobs).
          apply (ps_find_ck_some _ _ _ _ Ec).
        * (* the new one is in the observe file, the counter line is not written yet *)
          cbn [firstn ps_mem_at ps_ghost_at ps_ev_calls ps_ev_out]. rewrite Hf, Hobs, Et, Ec.
          cbn [negb List.app length Nat.leb fst].
          apply (ps_mid_swap_cnt m _ A
                   [CObsDeleted (pss_key o); CObsAdded (ps_obs_of c (ps_reg_new alloc name tuple token ck pkt r m))]
                   name (psr_observe r) G _ Hi Hfin).
          -- inversion Hcw as [|? ? H1 H2]; subst. inversion H2; subst. constructor; [assumption|constructor; [assumption|constructor]].
          -- reflexivity.
        * cbn [ps_ev_calls] in Hall. rewrite Hf, Hobs, Et, Ec in Hall. cbn [negb List.app length] in Hall.
          apply Hall; [lia|]. cbn [ps_mem_at ps_ev_out]. rewrite Hf, Et, Ec, Hobs. reflexivity.
      + (* new: 2 calls *)
        destruct j' as [|j''].
        * cbn [firstn ps_mem_at ps_ghost_at ps_ev_calls ps_ev_out]. rewrite Hf, Hobs, Et, Ec.
          cbn [negb List.app length Nat.leb fst].
          apply (ps_mid_swap_cnt m _ A
                   [CObsAdded (ps_obs_of c (ps_reg_new alloc name tuple token ck pkt r m))]
                   name (psr_observe r) G _ Hi Hfin).
          -- inversion Hcw; subst. constructor; [assumption|constructor].
          -- reflexivity.
        * cbn [ps_ev_calls] in Hall. rewrite Hf, Hobs, Et, Ec in Hall. cbn [negb List.app length] in Hall.
          apply Hall; [lia|]. cbn [ps_mem_at ps_ev_out]. rewrite Hf, Et, Ec, Hobs. destruct j''; reflexivity.
    - (* cancel: at most one call *)
      apply Hall; [|reflexivity]. cbn [ps_ev_calls] in *. destruct (ps_find name m) as [r|]; cbn [length] in *; [|lia].
      destruct (negb (psr_observable r)); cbn [length] in *; [lia|].
      destruct (ps_cancel_hit tuple token ck r); cbn [length] in *; lia.
    - (* notify: at most one call *)
      apply Hall; [|reflexivity]. cbn [ps_ev_calls] in *. destruct (ps_find name m) as [r|]; cbn [length] in *; [|lia].
      destruct (psr_observable r); cbn [length] in *; [|lia]. destruct (psr_subs r); cbn [length] in *; [lia|].
      destruct (ps_next_observe (psr_observe r) mod psc_freq c =? 0); cbn [length] in *; lia.
  Qed.
End Mid.
